/-
Source-text tie of `_convert_to_statespace` (control/statesp.py), property C03
(notes/NOTES-py2lean-convert.md).  `Generated/ConvToSS.lean` is rewritten on every run from the
source text of the tree under check by `harness/core/py2lean_conv.py`; the theorems below prove
the hand-written model (`Model/Convert.lean`: `toSS`, `DSS.ofScalar / ofMatrix`, the name rule
`Meta.converted`) EQUAL to it, for every operand kind, every transfer function satisfying the class
invariant, both values of `use_prefix_suffix` and every `method`, with `scipy.signal.tf2ss` read as
the model's exact counterpart (`modelTf2ss` = normalise + controller canonical form), and transport
the headline theorems `tf2ss_resp`, `toSS_val`, `nonproper_raises` to the generated function.
-/
import CtrlVerif.Generated.ConvToSS
import CtrlVerif.Lemmas.PyConv
import CtrlVerif.Props.C03
import Mathlib.Data.List.TakeWhile

namespace CtrlVerif.C03GenSS

open CtrlVerif CtrlVerif.Convert CtrlVerif.PyConv

variable {K : Type} [Field K] [DecidableEq K]

/-- the meaning of the parameter `scipy.signal.tf2ss(num, den)`: the model's exact counterpart
(`Convert.tf2ssList`: strip leading zeros of `den`, divide by its leading coefficient, pad `num`,
controller canonical form), returned as the four arrays. -/
def modelTf2ss (num den : List K) : Except Err (PMat K × PMat K × PMat K × PMat K) := do
  let S ← tf2ssList num den .none
  pure (PySS.A S, PySS.B S, PySS.C S, PySS.D S)

/-- the class invariant of `TransferFunction` objects the equality needs: at least one output and
one input, no empty coefficient array, and every denominator starts with a non-zero coefficient
(what `__init__` + `_truncatecoeff` establish: `tfInv_of_ctor`). -/
def TFInv (G : DTF K) : Prop :=
  0 < G.p ∧ 0 < G.m ∧ ∀ i j, (G.sys.e i j).num ≠ [] ∧ ∃ d ds, (G.sys.e i j).den = d :: ds ∧ d ≠ 0

/-- the names `_copy_names(sys, prefix_suffix_name='converted' if use_prefix_suffix else None)`
leaves on the new system. -/
def namesAfter (μ : Meta) (ups : Bool) : Meta :=
  ⟨if ups then μ.name ++ "$converted" else μ.name, μ.inputs, μ.outputs⟩

theorem trim_cons_ne (p : List K) (h : isZero p = false) : ∃ d ds, trim p = d :: ds ∧ d ≠ 0 := by
  unfold trim
  have hne : p.dropWhile (· = 0) ≠ [] := by
    intro h0
    rw [List.dropWhile_eq_nil_iff] at h0
    have : isZero p = true := by
      unfold isZero
      rw [List.all_eq_true]
      intro x hx
      simpa using h0 x hx
    rw [this] at h
    cases h
  have hh := List.head_dropWhile_not (fun x : K => decide (x = 0)) hne
  cases hd : p.dropWhile (· = 0) with
  | nil => exact absurd hd hne
  | cons d ds =>
    refine ⟨d, ds, rfl, ?_⟩
    simp only [hd, List.head_cons, decide_eq_false_iff_not] at hh
    exact hh

/-- **every object the constructor returns satisfies the invariant** (given a non-empty shape):
`TFM.mk'` normalises every entry to a non-empty numerator and a denominator with a non-zero
leading coefficient. -/
theorem tfInv_of_ctor {p m : Nat} (hp : 0 < p) (hm : 0 < m) (raw : Fin p → Fin m → Frac K)
    (s : TFM (Fin p) (Fin m) K) (dt : Dt) (h : TFM.mk' raw = .ok s) : TFInv ⟨p, m, s, dt⟩ := by
  refine ⟨hp, hm, fun i j => ?_⟩
  unfold TFM.mk' at h
  split at h
  · cases h
  · rename_i hz
    cases h
    have hzd : isZero (raw i j).den = false := by
      cases hb : isZero (raw i j).den
      · rfl
      · exact absurd ⟨i, j, hb⟩ hz
    show (raw i j).norm.num ≠ [] ∧ ∃ d ds, (raw i j).norm.den = d :: ds ∧ d ≠ 0
    unfold Frac.norm
    split
    · exact ⟨by simp, 1, [], rfl, one_ne_zero⟩
    · rename_i hn
      refine ⟨?_, trim_cons_ne _ hzd⟩
      have hzn : isZero (raw i j).num = false := by simpa using hn
      obtain ⟨d, ds, hd, _⟩ := trim_cons_ne _ hzn
      rw [hd]; simp

example : TFInv (⟨1, 1, TFM.siso ⟨[2, 1, 5], [1, 3, 2]⟩, .cont⟩ : DTF ℚ) :=
  ⟨by decide, by decide, fun _ _ => ⟨by simp [TFM.siso], 1, [3, 2], rfl, one_ne_zero⟩⟩

/-- **`_convert_to_statespace` on a transfer function, as the source text says it, is the model's
`toSS`** followed by the copying of the names — for every transfer function satisfying the class
invariant (all shapes, static / SISO / MIMO, proper or not), both values of `use_prefix_suffix`,
`method=None` and `method='scipy'`: the properness test (Python's `>` on the nested length lists),
the two nested `max`, the static branch (`np.empty`, the loop over `itertools.product`, the
quotient of the leading coefficients), the MIMO refusal, `squeeze`, SciPy's `tf2ss` and the
constructor call. -/
theorem generated_convertToStatespace_tf (G : DTF K) (μ : Meta) (ups : Bool) (method : Option String)
    (hm : method = none ∨ method = some "scipy") (hinv : TFInv G) :
    Generated.Conv.convertToStatespace modelTf2ss (.tf ⟨G, μ⟩) ups method
      = (toSS G).bind fun S => .ok ⟨S, namesAfter μ ups⟩ := by
  unfold Generated.Conv.convertToStatespace
  have hpc : npAny (listGt (listGt natGt)
      ((TF.num (⟨G, μ⟩ : TFObj K)).map fun col => col.map fun c => List.length c)
      ((TF.den (⟨G, μ⟩ : TFObj K)).map fun col => col.map fun c => List.length c))
      = properCheckFails G := by
    simp only [npAny, TF.num, TF.den, nested_lens, listGt_listGt_natGt, properCheckFails]
  simp only [hpc]
  by_cases hp : properCheckFails G = true
  · rw [if_pos hp]
    unfold toSS
    rw [if_pos hp]
    rfl
  · rw [if_neg hp]
    have hsl : ¬ (((method = none) ∧ (PyConv.slycotCheck = true)) ∨ (method = some "slycot")) := by
      rcases hm with rfl | rfl <;> simp [slycotCheck]
    have hin : method ∈ [none, some "scipy"] := by
      rcases hm with rfl | rfl <;> simp
    simp only [hsl, hin, if_false, if_true]
    obtain ⟨hp0, hm0, hent⟩ := hinv
    obtain ⟨Ln, Mn, hLn, hMn, hiffn⟩ := nestedMax_eq_one (TF.num (⟨G, μ⟩ : TFObj K))
      (fun c => c.length) (nested_ne_nil _ _ hp0) (nested_row_ne_nil _ _ hm0)
      (by
        rw [TF.num, nested_forall]
        intro i j
        exact List.length_pos_iff.2 (hent i j).1)
    obtain ⟨Ld, Md, hLd, hMd, hiffd⟩ := nestedMax_eq_one (TF.den (⟨G, μ⟩ : TFObj K))
      (fun c => c.length) (nested_ne_nil _ _ hp0) (nested_row_ne_nil _ _ hm0)
      (by
        rw [TF.den, nested_forall]
        intro i j
        obtain ⟨d, ds, hd, _⟩ := (hent i j).2
        rw [hd]; simp)
    have hstat : (1 = Mn ∧ 1 = Md) ↔ (allLenOne G Frac.num && allLenOne G Frac.den) = true := by
      rw [Bool.and_eq_true, hiffn, hiffd]
      exact and_congr (allLenOne_iff (⟨G, μ⟩ : TFObj K) Frac.num).symm
        (allLenOne_iff (⟨G, μ⟩ : TFObj K) Frac.den).symm
    simp only [hLn, hMn, hLd, hMd, ok_bind, pure_bind]
    unfold toSS
    rw [if_neg hp]
    by_cases hst : (allLenOne G Frac.num && allLenOne G Frac.den) = true
    · rw [if_pos (hstat.2 hst), if_pos hst]
      rw [Bool.and_eq_true] at hst
      let f : Nat → Nat → K := fun i j =>
        if h : i < G.p ∧ j < G.m then staticGain G ⟨i, h.1⟩ ⟨j, h.2⟩ else 0
      have hl : ∀ ij ∈ product (List.range (TF.noutputs (⟨G, μ⟩ : TFObj K)))
          (List.range (TF.ninputs (⟨G, μ⟩ : TFObj K))), ij.1 < G.p ∧ ij.2 < G.m := by
        intro ij hij
        rw [← Prod.mk.eta (p := ij), mem_product] at hij
        simpa [TF.noutputs, TF.ninputs] using hij
      rw [foldlM_fill G.p G.m _ f _ hl ?_ _ rfl rfl]
      · rw [ok_bind, freeze_full G.p G.m _ f ?_]
        · rw [ok_bind, pure_bind, copyNames_ss]
          simp only [mkStaticSS, PySS.mkStatic, TF.dt, namesAfter, Except.bind]
          have hD : (Matrix.of fun (i : Fin G.p) (j : Fin G.m) => f i.val j.val) = staticGain G := by
            funext i j
            simp only [Matrix.of_apply, f, dif_pos (And.intro i.isLt j.isLt)]
          rw [hD]
          rfl
        · intro i j hi hj
          have : (i, j) ∈ product (List.range (TF.noutputs (⟨G, μ⟩ : TFObj K)))
              (List.range (TF.ninputs (⟨G, μ⟩ : TFObj K))) := by
            rw [mem_product]; simpa [TF.noutputs, TF.ninputs] using And.intro hi hj
          rw [if_pos this]
      · intro D ij hij _ _
        obtain ⟨hi, hj⟩ := hl ij hij
        obtain ⟨c, hc⟩ := allLenOne_spec G Frac.num hst.1 ⟨ij.1, hi⟩ ⟨ij.2, hj⟩
        obtain ⟨d, hd⟩ := allLenOne_spec G Frac.den hst.2 ⟨ij.1, hi⟩ ⟨ij.2, hj⟩
        obtain ⟨d', ds, hd', hne⟩ := (hent ⟨ij.1, hi⟩ ⟨ij.2, hj⟩).2
        have hdne : d ≠ 0 := by
          rw [hd] at hd'; cases hd'; exact hne
        simp only [TF.numAt, TF.denAt, entryAt_lt (⟨G, μ⟩ : TFObj K) _ hi hj, ok_bind, hc, hd,
          getNat_cons_zero, npDiv, if_neg hdne]
        congr 1
        simp only [f, dif_pos (And.intro hi hj), staticGain, hc, hd]
    · rw [if_neg (fun h => hst (hstat.1 h)), if_neg hst]
      have hsiso : TF.issiso (⟨G, μ⟩ : TFObj K) = G.isSiso := rfl
      rw [hsiso]
      by_cases hs : G.isSiso = true
      · have hns : ¬ ((!G.isSiso) = true) := by simp [hs]
        rw [if_neg (not_not.2 hs), if_neg hns, pure_bind]
        obtain ⟨p, m, sys, dt⟩ := G
        simp only [DTF.isSiso, Bool.and_eq_true, beq_iff_eq] at hs
        obtain ⟨rfl, rfl⟩ := hs
        have hf : (⟨1, 1, sys, dt⟩ : DTF K).frac00 = sys.e 0 0 := by simp [DTF.frac00]
        rw [hf, TF.num, TF.den, squeezeSiso_nested, squeezeSiso_nested, ok_bind, ok_bind,
          tf2ssList_dt, modelTf2ss]
        cases tf2ssList (sys.e 0 0).num (sys.e 0 0).den Dt.none with
        | error e => rfl
        | ok S =>
          simp only [ok_bind, pure_bind, mkSS, PySS_mk_parts, TF.dt, copyNames_ss, Except.map,
            Except.bind, namesAfter]
      · have hns : ((!G.isSiso) = true) := by simpa using hs
        rw [if_pos hs, if_pos hns]
        rfl


/-- a `StateSpace` argument is returned as it is (same object: names included). -/
theorem generated_convertToStatespace_ss (x : SSObj K) (ups : Bool) (method : Option String)
    (tf2ss : List K → List K → Except Err (PMat K × PMat K × PMat K × PMat K)) :
    Generated.Conv.convertToStatespace tf2ss (.ss x) ups method = .ok x := rfl

/-- an FRD argument: `TypeError`. -/
theorem generated_convertToStatespace_frd (ups : Bool) (method : Option String)
    (tf2ss : List K → List K → Except Err (PMat K × PMat K × PMat K × PMat K)) :
    Generated.Conv.convertToStatespace tf2ss (.frd : Opd K) ups method = .error .notImplemented := rfl

/-- a number becomes the `1 × 1` static gain with timebase `None` (the model's `DSS.ofScalar`),
a new system with default names. -/
theorem generated_convertToStatespace_scalar (c : K) (ups : Bool) (method : Option String)
    (tf2ss : List K → List K → Except Err (PMat K × PMat K × PMat K × PMat K)) :
    Generated.Conv.convertToStatespace tf2ss (.scalar c) ups method
      = .ok ⟨DSS.ofScalar c, Meta.default 1 1⟩ := rfl

/-- an array becomes the static gain with timebase `None` (the model's `DSS.ofMatrix`). -/
theorem generated_convertToStatespace_array (D : PMat K) (ups : Bool) (method : Option String)
    (tf2ss : List K → List K → Except Err (PMat K × PMat K × PMat K × PMat K)) :
    Generated.Conv.convertToStatespace tf2ss (.array D) ups method
      = .ok ⟨DSS.ofMatrix D.r D.c D.M, Meta.default D.r D.c⟩ := rfl

/-- anything else: the array conversion raises, the function raises `TypeError`. -/
theorem generated_convertToStatespace_foreign (ups : Bool) (method : Option String)
    (tf2ss : List K → List K → Except Err (PMat K × PMat K × PMat K × PMat K)) :
    Generated.Conv.convertToStatespace tf2ss (.foreign : Opd K) ups method
      = .error .notImplemented := rfl

/-- the generated test `any(lens(num) > lens(den))` is the model's `properCheckFails`. -/
theorem generated_properCheck (G : DTF K) (μ : Meta) :
    npAny (listGt (listGt natGt)
      ((TF.num (⟨G, μ⟩ : TFObj K)).map fun col => col.map fun c => List.length c)
      ((TF.den (⟨G, μ⟩ : TFObj K)).map fun col => col.map fun c => List.length c))
      = properCheckFails G := by
  simp only [npAny, TF.num, TF.den, nested_lens, listGt_listGt_natGt, properCheckFails]

/-- `method='slycot'` without Slycot: `ValueError` (after the properness test), for every transfer
function and whatever SciPy's routine is. -/
theorem generated_convertToStatespace_slycot (G : DTF K) (μ : Meta) (ups : Bool)
    (tf2ss : List K → List K → Except Err (PMat K × PMat K × PMat K × PMat K)) :
    Generated.Conv.convertToStatespace tf2ss (.tf ⟨G, μ⟩) ups (some "slycot")
      = .error (if properCheckFails G then .nonProper else .badArg) := by
  unfold Generated.Conv.convertToStatespace
  simp only [generated_properCheck]
  by_cases hp : properCheckFails G = true
  · rw [if_pos hp, if_pos hp]; rfl
  · rw [if_neg hp, if_neg hp]
    simp [slycotCheck]

/-- any other `method`: `ValueError("unknown method=…")` (after the properness test). -/
theorem generated_convertToStatespace_unknown (G : DTF K) (μ : Meta) (ups : Bool) (meth : String)
    (h1 : meth ≠ "slycot") (h2 : meth ≠ "scipy")
    (tf2ss : List K → List K → Except Err (PMat K × PMat K × PMat K × PMat K)) :
    Generated.Conv.convertToStatespace tf2ss (.tf ⟨G, μ⟩) ups (some meth)
      = .error (if properCheckFails G then .nonProper else .badArg) := by
  unfold Generated.Conv.convertToStatespace
  simp only [generated_properCheck]
  by_cases hp : properCheckFails G = true
  · rw [if_pos hp, if_pos hp]; rfl
  · rw [if_neg hp, if_neg hp]
    simp [slycotCheck, h1, h2]

example : ("foo" : String) ≠ "slycot" ∧ ("foo" : String) ≠ "scipy" := by decide

/-- the model of the whole function, per operand kind (`Model/Convert.lean`, `Model/SSDyn.lean`). -/
def modelConvert (x : Opd K) (ups : Bool) : Except Err (SSObj K) :=
  match x with
  | .ss x => .ok x
  | .tf x => (toSS x.sys).bind fun S => .ok ⟨S, namesAfter x.names ups⟩
  | .frd => .error .notImplemented
  | .scalar c => .ok ⟨DSS.ofScalar c, Meta.default 1 1⟩
  | .array D => .ok ⟨DSS.ofMatrix D.r D.c D.M, Meta.default D.r D.c⟩
  | .foreign => .error .notImplemented

/-- **the generated `_convert_to_statespace` equals the model for every argument in its domain**
(every operand kind; transfer functions under the class invariant; default `method`). -/
theorem generated_convertToStatespace_eq (x : Opd K) (ups : Bool)
    (hinv : ∀ y, x = .tf y → TFInv y.sys) :
    Generated.Conv.convertToStatespace modelTf2ss x ups none = modelConvert x ups := by
  cases x with
  | tf y => exact generated_convertToStatespace_tf y.sys y.names ups none (Or.inl rfl) (hinv y rfl)
  | ss y => rfl
  | frd => rfl
  | scalar c => rfl
  | array D => rfl
  | foreign => rfl

/-- with `use_prefix_suffix = not sys._generic_name_check()` (what `ss(sys)` passes) the names are
the model's `Meta.converted` (no keyword): suffix `$converted` for a non-generic name, labels
copied. -/
theorem namesAfter_converted (μ : Meta) : namesAfter μ (!μ.isGeneric) = μ.converted {} "converted" := by
  unfold namesAfter Meta.converted extName
  cases h : μ.isGeneric
  · simp [String.append_assoc]
  · have : μ.name = genericName := by simpa [Meta.isGeneric] using h
    simp [this]

/-! ### the headline theorems of C03, transported -/

/-- **whatever the generated function returns for a transfer function preserves the map**: same
shape and timebase, and every value of `G` at `s` is a value of the result (`C03.toSS_val`). -/
theorem generated_convertToStatespace_val (G : DTF K) (μ : Meta) (ups : Bool) (hinv : TFInv G)
    (R : SSObj K)
    (h : Generated.Conv.convertToStatespace modelTf2ss (.tf ⟨G, μ⟩) ups none = .ok R) :
    R.sys.p = G.p ∧ R.sys.m = G.m ∧ R.sys.dt = G.dt ∧ R.names = namesAfter μ ups ∧
      ∀ s Y, TFVal G s Y → SSVal R.sys s Y := by
  rw [generated_convertToStatespace_tf G μ ups none (Or.inl rfl) hinv] at h
  cases hS : toSS G with
  | error e => rw [hS] at h; cases h
  | ok S =>
    rw [hS] at h
    cases h
    obtain ⟨h1, h2, h3, h4⟩ := C03.toSS_val G S hS
    exact ⟨h1, h2, h3, rfl, h4⟩

/-- **`tf2ss_resp` for the generated function**: the system it returns for a SISO transfer function
`num/den` responds at every `s` with `den(s) ≠ 0` with `num(s)/den(s)`. -/
theorem generated_tf2ss_resp (f : Frac K) (dt : Dt) (μ : Meta) (ups : Bool)
    (hinv : TFInv ⟨1, 1, TFM.siso f, dt⟩) (R : SSObj K)
    (h : Generated.Conv.convertToStatespace modelTf2ss (.tf ⟨⟨1, 1, TFM.siso f, dt⟩, μ⟩) ups none
      = .ok R) (s : K) (hs : polyval f.den s ≠ 0) :
    SSVal R.sys s (fun _ _ => polyval f.num s / polyval f.den s) := by
  obtain ⟨_, _, _, _, hv⟩ := generated_convertToStatespace_val _ μ ups hinv R h
  exact hv s _ (fun i j => ⟨hs, rfl⟩)

example : ∃ R, Generated.Conv.convertToStatespace modelTf2ss
    (.tf ⟨⟨1, 1, TFM.siso ⟨[2, 1, 5], [1, 3, (2 : ℚ)]⟩, .cont⟩, Meta.default 1 1⟩) true none = .ok R := by
  rw [generated_convertToStatespace_tf _ _ _ _ (Or.inl rfl)
    ⟨by decide, by decide, fun _ _ => ⟨by simp [TFM.siso], 1, [3, 2], rfl, one_ne_zero⟩⟩]
  exact ⟨_, rfl⟩

/-- **a transfer function with a non-proper entry is never converted by the generated function**
(`C03.nonproper_raises`): `nonProper`, or `notImplemented` when the lexicographic test misses it. -/
theorem generated_nonproper_raises (G : DTF K) (μ : Meta) (ups : Bool) (hinv : TFInv G)
    (h : ∃ i j, (G.sys.e i j).num.length > (G.sys.e i j).den.length) :
    Generated.Conv.convertToStatespace modelTf2ss (.tf ⟨G, μ⟩) ups none = .error .nonProper ∨
      Generated.Conv.convertToStatespace modelTf2ss (.tf ⟨G, μ⟩) ups none = .error .notImplemented := by
  rw [generated_convertToStatespace_tf G μ ups none (Or.inl rfl) hinv]
  rcases C03.nonproper_raises G h with h1 | h1 <;> rw [h1]
  · left; rfl
  · right; rfl

example : ∃ i j, ((⟨1, 1, TFM.siso ⟨[1, 2, 3], [1, (1 : ℚ)]⟩, .cont⟩ : DTF ℚ).sys.e i j).num.length
    > ((⟨1, 1, TFM.siso ⟨[1, 2, 3], [1, (1 : ℚ)]⟩, .cont⟩ : DTF ℚ).sys.e i j).den.length :=
  ⟨0, 0, by decide⟩

/-- on an object without outputs (no such `TransferFunction` exists) the source text raises
(`max` of an empty sequence) where the model returns the empty static system: the reason for the
shape part of the invariant. -/
theorem generated_convertToStatespace_empty_raises (m : Nat) (sys : TFM (Fin 0) (Fin m) K) (dt : Dt)
    (μ : Meta) (ups : Bool)
    (tf2ss : List K → List K → Except Err (PMat K × PMat K × PMat K × PMat K)) :
    Generated.Conv.convertToStatespace tf2ss (.tf ⟨⟨0, m, sys, dt⟩, μ⟩) ups none = .error .badArg := by
  unfold Generated.Conv.convertToStatespace
  simp [TF.num, TF.den, TF.nested, npAny, listGt, slycotCheck, maxNat]

end CtrlVerif.C03GenSS
