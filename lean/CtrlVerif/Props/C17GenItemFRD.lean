/-
Source-text tie for C17, part 2 (tag py2lean-getitem): `Generated/GetitemFRD.lean` is rewritten on
every run from the text of `FrequencyResponseData.__getitem__` in /repo/control/frdata.py by
`harness/core/py2lean_getitem.py` (key test with the legacy tuple interface, `NamedSignal(self.frdata
[:, :, 0], …)._parse_key`, the two `_process_subsys_index` calls, `self.frdata[outdx, :][:, inpdx]`,
`self.omega`, the name, `dt`, the constructor call).  The hand-written model `getitem frdCtor` is
proved EQUAL to the generated method for every FRD system with a non-empty frequency grid (any shape,
any data of any type, labels, timebase, name), every configuration and every pair of selectors; on an
EMPTY grid the source raises `IndexError` (`self.frdata[:, :, 0]`) where the model returns — a
deviation found by this tie, stated as `generated_frdGetitem_empty_grid`.
-/
import CtrlVerif.Generated.GetitemFRD
import CtrlVerif.Lemmas.PyGet
import CtrlVerif.Props.C17

set_option linter.unusedSimpArgs false

namespace CtrlVerif.C17GenItem

open CtrlVerif Index C17Gen PyGet

variable {K : Type} [Field K] {β : Type}

/-- an FRD system of the model as the Python object; the last axis of `frdata` has the length of
the frequency grid (what the constructor enforces). -/
def frdObj (S : Sys (FRDB K β)) : FRDObj K β :=
  ⟨⟨S.p, S.m, S.body.omega.length, S.body.data⟩, S.body.omega, S.dt, S.name, pyLabels S.ins, pyLabels S.outs⟩

omit [Field K] in
/-- **`FrequencyResponseData.__getitem__` as the source text says it is the model** on every system
whose frequency grid is not empty: same error kind when it raises, otherwise the object of the
system the model returns (same `omega`, `frdata` re-indexed on the first two axes in the selected
order, selected labels, same `dt`, `prefix + name + suffix`). -/
theorem generated_frdGetitem_eq (fuel : Nat) (cfg : Cfg) (S : Sys (FRDB K β)) (kr kc : Sel)
    (hgrid : S.body.omega ≠ []) :
    Generated.frdGetitem (fuel + 3) (defaultsOf cfg) (frdObj S) (pairKey kr kc)
      = (getitem frdCtor cfg S kr kc).map (fun R => FRDItem.sys (frdObj R)) := by
  unfold Generated.frdGetitem getitem
  have hw : S.body.omega.length ≠ 0 := by simpa [List.length_eq_zero_iff] using hgrid
  have hs : slice0Shape (⟨S.p, S.m, S.body.omega.length, S.body.data⟩ : Arr3 β) = .ok (shapeVal [S.p, S.m]) := by
    simp only [slice0Shape, if_neg hw]
  simp only [isIterable_pairKey, len_pairKey, namedSignal, frdObj, hs, bind, Except.bind, pure, Except.pure]
  simp only [pairKey, generated_parseKey_pair, Bool.not_true, Bool.false_eq_true, if_false, ne_eq,
    not_true_eq_false, decide_false]
  cases hr : parseSel S.outs kr with
  | error e => simp [Except.bind, Except.map]
  | ok r =>
    cases hc : parseSel S.ins kc with
    | error e => simp [Except.bind, Except.map]
    | ok c =>
      simp only [Except.bind, Except.map, getitem_pair0, getitem_pair1]
      rcases psi_spec S.outs r false with ⟨e, h1, h2⟩ | ⟨rows, ri, h1, h2, h3⟩
      · simp [h1, h2]
      · rcases psi_spec S.ins c false with ⟨e, g1, g2⟩ | ⟨cols, ci, g1, g2, g3⟩
        · simp [h1, h2, g1, g2]
        · simp only [IdxFor, Bool.false_eq_true, if_false] at h3 g3
          simp only [h1, h2, g1, g2, defaultsOf_pre, defaultsOf_suf,
            takeRows3_mk _ _ _ _ _ _ h3, takeCols3_mk _ _ _ _ _ _ g3]
          simp [mkFRD, frdCtor, pyLabels_select_getElem, bind, Except.bind, pure, Except.pure]

omit [Field K] in
/-- the deviation found by the tie: on an EMPTY frequency grid `self.frdata[:, :, 0]` raises
`IndexError` for every pair key, while the model indexes such a system like any other. -/
theorem generated_frdGetitem_empty_grid (fuel : Nat) (cfg : Cfg) (S : Sys (FRDB K β)) (kr kc : Sel)
    (hgrid : S.body.omega = []) :
    Generated.frdGetitem fuel (defaultsOf cfg) (frdObj S) (pairKey kr kc) = .error .indexRange := by
  unfold Generated.frdGetitem
  simp [frdObj, slice0Shape, hgrid, bind, Except.bind, pure, Except.pure]

/-- … the model does return there (e.g. the full selection). -/
theorem model_frd_empty_grid_returns (cfg : Cfg) (S : Sys (FRDB K β)) :
    ∃ R, getitem frdCtor cfg S (.slice none none none) (.slice none none none) = .ok R := by
  refine (C17.frd_returns_iff cfg S _ _).mpr ⟨List.finRange S.p, List.finRange S.m, ?_, ?_⟩ <;>
    simp [resolve, parseSel, processIdx, C17.slice_full, bind, Except.bind]

/-- the legacy tuple interface: a key that is not iterable (`response[0]`, `response[1:]`) gives
element `key` of `list(self.__iter__())` (kept symbolic: `FRDItem.legacy`). -/
theorem generated_frdGetitem_not_iterable (fuel : Nat) (d : Defaults) (self : FRDObj K β) (key : PyVal)
    (h : isIterable key = .ok false) : Generated.frdGetitem fuel d self key = .ok (.legacy key) := by
  simp [Generated.frdGetitem, h, bind, Except.bind, pure, Except.pure]

/-- an iterable key whose length is not 2 also takes the legacy path. -/
theorem generated_frdGetitem_wrong_length (fuel : Nat) (d : Defaults) (self : FRDObj K β) (key : PyVal)
    (l : Int) (h : isIterable key = .ok true) (hl : Py.len key = .ok l) (h2 : l ≠ 2) :
    Generated.frdGetitem fuel d self key = .ok (.legacy key) := by
  simp [Generated.frdGetitem, h, hl, h2, bind, Except.bind, pure, Except.pure]

example (self : FRDObj ℚ ℚ) : Generated.frdGetitem 3 (fun _ => none) self (.int 0) = .ok (.legacy (.int 0)) :=
  generated_frdGetitem_not_iterable _ _ _ _ rfl

/-! ### the headline theorems of C17, for the generated method -/

/-- `select_submatrix` for the function the source text defines: whatever
`FrequencyResponseData.__getitem__` returns for `sys[kr, kc]` is a system object (never the legacy
item) on the same frequency grid whose stored response matrix at every grid point is the sub-matrix
of the original one on the rows / columns the selectors resolve to, in the selected order, with the
selected labels, the same timebase and the name `prefix + name + suffix`. -/
theorem generated_frd_select_submatrix (fuel : Nat) (cfg : Cfg) (S : Sys (FRDB K β))
    (hgrid : S.body.omega ≠ []) (kr kc : Sel) (R : FRDItem K β)
    (h : Generated.frdGetitem (fuel + 3) (defaultsOf cfg) (frdObj S) (pairKey kr kc) = .ok R) :
    ∃ (rows : List (Fin S.p)) (cols : List (Fin S.m)) (body : FRDB K β rows.length cols.length),
      resolve S.outs kr = .ok rows ∧ resolve S.ins kc = .ok cols ∧
      R = .sys (frdObj { p := rows.length, m := cols.length, body := body,
                         outs := fun i => S.outs (rows.get i), ins := fun j => S.ins (cols.get j),
                         dt := S.dt, name := cfg.pre ++ S.name ++ cfg.suf }) ∧
      body.omega = S.body.omega ∧
      ∀ k i j, body.resp k i j = S.body.resp k (rows.get i) (cols.get j) := by
  rw [generated_frdGetitem_eq fuel cfg S kr kc hgrid] at h
  cases hg : getitem frdCtor cfg S kr kc with
  | error e => rw [hg] at h; cases h
  | ok R' =>
    rw [hg] at h
    obtain ⟨rows, cols, body, hr, hc, rfl, hom, hresp⟩ := C17.frd_select_submatrix cfg S kr kc R' hg
    cases h
    exact ⟨rows, cols, body, hr, hc, rfl, hom, hresp⟩

/-- `labels_selected` for the generated method. -/
theorem generated_frd_labels_selected (fuel : Nat) (cfg : Cfg) (S : Sys (FRDB K β))
    (hgrid : S.body.omega ≠ []) (kr kc : Sel) (R : FRDItem K β)
    (h : Generated.frdGetitem (fuel + 3) (defaultsOf cfg) (frdObj S) (pairKey kr kc) = .ok R) :
    ∃ rows cols F, resolve S.outs kr = .ok rows ∧ resolve S.ins kc = .ok cols ∧ R = .sys F ∧
      F.frdata.r = rows.length ∧ F.frdata.c = cols.length ∧ F.omega = S.body.omega ∧
      F.output_labels = pyLabelList (rows.map S.outs) ∧ F.input_labels = pyLabelList (cols.map S.ins) ∧
      F.dt = S.dt ∧ F.name = cfg.pre ++ S.name ++ cfg.suf := by
  obtain ⟨rows, cols, body, hr, hc, rfl, hom, -⟩ :=
    generated_frd_select_submatrix fuel cfg S hgrid kr kc R h
  exact ⟨rows, cols, _, hr, hc, rfl, rfl, rfl, hom, pyLabels_select _ _, pyLabels_select _ _, rfl, rfl⟩

/-- the generated method returns (a system) exactly when both selectors resolve. -/
theorem generated_frd_returns_iff (fuel : Nat) (cfg : Cfg) (S : Sys (FRDB K β))
    (hgrid : S.body.omega ≠ []) (kr kc : Sel) :
    (∃ R, Generated.frdGetitem (fuel + 3) (defaultsOf cfg) (frdObj S) (pairKey kr kc) = .ok R) ↔
      ∃ rows cols, resolve S.outs kr = .ok rows ∧ resolve S.ins kc = .ok cols := by
  rw [← C17.frd_returns_iff cfg S kr kc, generated_frdGetitem_eq fuel cfg S kr kc hgrid]
  cases getitem frdCtor cfg S kr kc <;> simp [Except.map]

omit [Field K] in
/-- a selector that does not resolve makes the generated method raise. -/
theorem generated_frd_raises_on_bad_selector (fuel : Nat) (cfg : Cfg) (S : Sys (FRDB K β))
    (hgrid : S.body.omega ≠ []) (kr kc : Sel)
    (h : (∃ e, resolve S.outs kr = .error e) ∨ (∃ e, resolve S.ins kc = .error e)) :
    ∃ e, Generated.frdGetitem (fuel + 3) (defaultsOf cfg) (frdObj S) (pairKey kr kc) = .error e := by
  obtain ⟨e, he⟩ := C17.getitem_raises_on_bad_selector frdCtor cfg S kr kc h
  exact ⟨e, by rw [generated_frdGetitem_eq fuel cfg S kr kc hgrid, he]; rfl⟩

omit [Field K] in
/-- selecting by name is selecting by the index of the name, for the generated method. -/
theorem generated_frd_name_eq_index (fuel : Nat) (cfg : Cfg) (S : Sys (FRDB K β))
    (hgrid : S.body.omega ≠ [])
    (ho : Function.Injective S.outs) (hi : Function.Injective S.ins) (i : Fin S.p) (j : Fin S.m)
    (k : Sel) :
    Generated.frdGetitem (fuel + 3) (defaultsOf cfg) (frdObj S) (pairKey (.name (S.outs i)) k)
      = Generated.frdGetitem (fuel + 3) (defaultsOf cfg) (frdObj S) (pairKey (.idx (i.val : Int)) k) ∧
    Generated.frdGetitem (fuel + 3) (defaultsOf cfg) (frdObj S) (pairKey k (.name (S.ins j)))
      = Generated.frdGetitem (fuel + 3) (defaultsOf cfg) (frdObj S) (pairKey k (.idx (j.val : Int))) := by
  obtain ⟨h1, h2⟩ := C17.getitem_name_eq_index frdCtor cfg S ho hi i j k
  simp only [generated_frdGetitem_eq _ _ _ _ _ hgrid, h1, h2, and_self]

/-! ### non-vacuity: a 2 × 1 response on a 3-point grid (values are plain rationals here) -/

def exFRD : Sys (FRDB ℚ ℚ) where
  p := 2
  m := 1
  body := ⟨[1, 2, 4], fun i _ => if i = 0 then [10, 20, 30] else [11, 21, 31]⟩
  outs := !["y0", "y1"]
  ins := !["u0"]
  dt := .none
  name := "F"

/-- `F[[1, 0], 'u0']` returns; `F[0, 'y0']` (an output name on the input axis) raises. -/
example : ∃ R, Generated.frdGetitem 3 (defaultsOf ⟨"", "$indexed"⟩) (frdObj exFRD)
    (pairKey (.list [.idx 1, .idx 0]) (.name "u0")) = .ok R :=
  (generated_frd_returns_iff 0 _ exFRD (by simp [exFRD]) _ _).mpr
    ⟨[(1 : Fin 2), (0 : Fin 2)], [(0 : Fin 1)], by decide, by decide⟩

example : ∃ e, Generated.frdGetitem 3 (defaultsOf ⟨"", "$indexed"⟩) (frdObj exFRD)
    (pairKey (.idx 0) (.name "y0")) = .error e :=
  generated_frd_raises_on_bad_selector 0 _ exFRD (by simp [exFRD]) _ _ (Or.inr ⟨.unknownName, by decide⟩)

/-- the empty-grid deviation is not vacuous either. -/
example : Generated.frdGetitem 3 (defaultsOf ⟨"", "$indexed"⟩)
    (frdObj (K := ℚ) (β := ℚ) ⟨1, 1, ⟨[], fun _ _ => []⟩, fun _ => "y", fun _ => "u", .cont, "E"⟩)
    (pairKey (.idx 0) (.idx 0)) = .error .indexRange :=
  generated_frdGetitem_empty_grid _ _ _ _ _ rfl

example (self : FRDObj ℚ ℚ) : Generated.frdGetitem 3 (fun _ => none) self (.tuple [.int 0])
    = .ok (.legacy (.tuple [.int 0])) :=
  generated_frdGetitem_wrong_length _ _ _ _ 1 rfl rfl (by decide)

/-- the labels of `exFRD` are pairwise distinct (hypotheses of `generated_frd_name_eq_index`). -/
example : Function.Injective exFRD.outs ∧ Function.Injective exFRD.ins := by
  constructor <;> (intro a b; fin_cases a <;> fin_cases b <;> simp [exFRD])

end CtrlVerif.C17GenItem
