/-
Source-text tie of C04 (DESIGN §10.3, notes/NOTES-py2lean-eval.md), part 2:
`StateSpace._has_zero_at`.

`Generated/EvalSSZero.lean` is rewritten on every run from the text of `_has_zero_at` in
control/statesp.py of the tree under check (`np.block` of the system matrix `[[A - xI, B], [C, D]]`,
`matrix_rank(sysmat) < nstates + min(ninputs, noutputs)`).  The model's `zeroTest` (a determinant for
square systems, the maximal minors for non-square ones) is proved EQUAL to it for all sizes,
matrices and points; on the way the model's minor test is proved to be the rank test
(`zeroTest_eq_rank`, which closes the gap "no link between `maxMinorsVanish` and `Matrix.rank`" of
NOTES-C04.md).
-/
import CtrlVerif.Generated.EvalSSZero
import CtrlVerif.Lemmas.MinorsRank
import CtrlVerif.Lemmas.PyMat
import CtrlVerif.Props.C04

set_option linter.unusedSimpArgs false
set_option linter.unusedSectionVars false

namespace CtrlVerif.C04Gen
open CtrlVerif CtrlVerif.Eval CtrlVerif.PyEval Matrix

variable {K : Type} [Field K] [DecidableEq K]

omit [DecidableEq K] in
theorem rosenFin_squareOf {n m : Nat} (G : SS (Fin n) (Fin m) (Fin m) K) (x : K) :
    rosenFin (squareOf rfl G) x = sysMat G x := by
  ext i j
  simp [rosenFin, sysMat, rosenbrock, squareOf]

/-- **the zero test of the model is the rank test of the code**: the system matrix
`[[A - xI, B], [C, D]]` has rank smaller than `n + min(m, p)` — for square and non-square systems. -/
theorem zeroTest_eq_rank {n p m : Nat} (G : SS (Fin n) (Fin m) (Fin p) K) (x : K) :
    zeroTest G x = decide ((sysMat G x).rank < n + min m p) := by
  unfold zeroTest
  by_cases h : p = m
  · subst h
    rw [dif_pos rfl, rosenFin_squareOf, detFin_eq_det, Nat.min_self]
    have hle : (sysMat G x).rank ≤ n + p := by simpa using (sysMat G x).rank_le_card_height
    have := PMat.rank_eq_iff_det_ne_zero (sysMat G x)
    by_cases hd : (sysMat G x).det = 0
    · have : (sysMat G x).rank ≠ n + p := fun h' => (this.mp h') hd
      simp [hd]; omega
    · have : (sysMat G x).rank = n + p := this.mpr hd
      simp [hd, this]
  · rw [dif_neg h]
    by_cases hlt : p < m
    · rw [if_pos hlt, Nat.min_eq_right (le_of_lt hlt)]
      rw [Bool.eq_iff_iff, maxMinorsVanish_iff]; simp
    · rw [if_neg hlt, Nat.min_eq_left (by omega)]
      rw [Bool.eq_iff_iff, maxMinorsVanish_iff, Matrix.rank_transpose]; simp

/-- the zero test succeeds exactly when the system matrix loses rank (as a proposition). -/
theorem zeroTest_iff_rank {n p m : Nat} (G : SS (Fin n) (Fin m) (Fin p) K) (x : K) :
    zeroTest G x = true ↔ (sysMat G x).rank < n + min m p := by
  rw [zeroTest_eq_rank]; simp

/-- **`StateSpace._has_zero_at` as the source text computes it is the model's `zeroTest`**, for all
numbers of states, inputs and outputs, all matrices and every point; it never raises. -/
theorem generated_hasZeroAt_eq (G : DSS K) (x : K) :
    Generated.ssHasZeroAt G x = .ok (zeroTest G.sys x) := by
  obtain ⟨n, p, m, ⟨A, B, C, D⟩, dt⟩ := G
  unfold Generated.ssHasZeroAt
  simp only [PySS.A, PySS.B, PySS.C, PySS.D, PMat.eye_def, PMat.smul_mk, PMat.sub_mk, PMat.block22_mk,
    bind, Except.bind, pure, Except.pure, PMat.rank]
  rw [zeroTest_eq_rank]
  rfl

/-- `C04.zeroTest_square` transported: for a square system the generated function tests
`det (L - xM) = 0`, the pencil of `StateSpace.zeros()`. -/
theorem generated_hasZeroAt_square {n m : Nat} (G : SS (Fin n) (Fin m) (Fin m) K) (dt : Dt) (x : K) :
    Generated.ssHasZeroAt ⟨n, m, m, G, dt⟩ x = .ok (decide ((rosenbrock G x).det = 0)) := by
  rw [generated_hasZeroAt_eq]
  congr 1
  rw [Bool.eq_iff_iff, C04.zeroTest_square]; simp

/-- non-vacuity: the non-square system `ss([[0,1],[0,0]], [[0,1],[1,0]], [[0,1]], [[0,0]])` has no zero at
`0` (the call raised `NotImplementedError` before the repair), `ss([[0]],[[1]],[[0]],[[2]])` has one. -/
example :
    Generated.ssHasZeroAt (⟨2, 1, 2, ⟨!![0, 1; 0, 0], !![0, 1; 1, 0], !![0, 1], !![0, 0]⟩, .cont⟩ : DSS ℚ) 0
      = .ok false ∧
    Generated.ssHasZeroAt (⟨1, 1, 1, ⟨!![0], !![1], !![0], !![2]⟩, .cont⟩ : DSS ℚ) 0 = .ok true := by
  rw [generated_hasZeroAt_eq, generated_hasZeroAt_eq]
  constructor <;> decide +kernel

end CtrlVerif.C04Gen
