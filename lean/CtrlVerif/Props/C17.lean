/-
C17 — Indexing a system selects exactly the named input/output channels.

Model: `Model/Index.lean` (`getitem` = the common skeleton of `StateSpace / TransferFunction /
FrequencyResponseData.__getitem__`, with Python's `slice.indices`, `NamedSignal._parse_key` and
the repaired `_process_subsys_index`).  `resolve labels sel` (Lemmas/Index.lean) is one axis of
it: names → indices → list of selected channels (`List (Fin n)`, so "in range" is in the type).

Theorems, for all axis lengths `n`, all label functions, all selectors:
* slices: `slice_indices_spec` (never raises for a non-zero step, never leaves the axis, is
  `range(*slice.indices(n))`), `slice_mem_pos/neg` (which channels, in which order),
  `slice_full`, `slice_reverse`, `slice_zero_step_raises`;
* integers and lists: `int_index_selects`, `neg_int`, `out_of_range_raises`,
  `list_out_of_range_raises`, `list_selects_in_order`, `singleton_list_eq_int`, and the witnesses
  of the defect of the unrepaired integer branch, `unrepaired_*_counterexample`;
* names: `unknown_name_raises`, `unknown_name_in_list_raises`, `name_eq_index`,
  `name_list_eq_index_list`, `getitem_name_eq_index`;
* the result: `getitem_spec` (shape, selected labels, same `dt`, `prefix+name+suffix`),
  `getitem_raises_on_bad_selector` (raises rather than returning a smaller system),
  `ss_select_submatrix` (`Resp` of the result is the sub-matrix, in the selected order),
  `tf_select_submatrix` (`⟦G[rows, cols]⟧ = ⟦G⟧.submatrix`), `frd_select_submatrix` (pointwise
  on the grid), and the constructor quirks that exist: `ss_returns_iff`, `tf_returns_iff`,
  `frd_returns_iff`.
-/
import CtrlVerif.Lemmas.Index
import CtrlVerif.Props.C01
import CtrlVerif.Props.C02

namespace CtrlVerif.C17

open CtrlVerif CtrlVerif.Index Matrix

/-! ### slices -/

/-- `slice(a, b, 0)` raises (`ValueError: slice step cannot be zero`). -/
theorem slice_zero_step_raises (a b : Option Int) (n : Nat) :
    sliceList a b (some 0) n = .error .badArg := by
  simp [sliceList, sliceIndices_zero, bind, Except.bind]

/-- for every start/stop (`None`, negative, beyond the ends) and every non-zero step the slice
resolves without error, every selected position is a channel of the axis (`l : List (Fin n)`),
and the positions are `range(start, stop, step)` for the adjusted `(start, stop, step) =
slice.indices(n)`, in that order. -/
theorem slice_indices_spec (a b c : Option Int) (n : Nat) (hc : stepOf c ≠ 0) :
    ∃ s e l, sliceIndices a b c n = .ok (s, e, stepOf c) ∧ sliceList a b c n = .ok l ∧
      l.map (fun i => (i.val : Int)) = rangeList s (stepOf c) (rangeLen s e (stepOf c)) :=
  sliceList_ok a b c n hc

example : sliceList (some (-1)) none (some (-2)) 5 = .ok [4, 2, 0] := by decide
example : sliceList (some (-9)) (some 9) (some 2) 3 = .ok [0, 2] := by decide
example : sliceList (some 2) (some 1) none 3 = .ok [] := by decide

/-- positive step: the selected channels are exactly those `x` with `start ≤ x < stop`,
`x ≡ start (mod step)`, in increasing order. -/
theorem slice_mem_pos (a b c : Option Int) (n : Nat) (hc : 0 < stepOf c) {s e : Int}
    {l : List (Fin n)} (h1 : sliceIndices a b c n = .ok (s, e, stepOf c))
    (h2 : sliceList a b c n = .ok l) :
    (∀ x : Fin n, x ∈ l ↔ s ≤ x.val ∧ (x.val : Int) < e ∧ stepOf c ∣ (x.val : Int) - s) ∧
      l.Pairwise (· < ·) := by
  obtain ⟨s', e', l', h1', h2', h3⟩ := sliceList_ok a b c n (by omega)
  rw [h1] at h1'; rw [h2] at h2'
  cases h1'; cases h2'
  constructor
  · intro x
    rw [← mem_range_pos hc, ← h3, List.mem_map]
    constructor
    · intro hx; exact ⟨x, hx, rfl⟩
    · rintro ⟨y, hy, hxy⟩
      have : y = x := Fin.ext (by exact_mod_cast hxy)
      rwa [← this]
  · have := rangeList_pairwise_lt (start := s) hc (rangeLen s e (stepOf c))
    rw [← h3, List.pairwise_map] at this
    exact this.imp (fun {a b} hab => by exact_mod_cast hab)

/-- negative step (reversed slices): `stop < x ≤ start`, `x ≡ start (mod step)`, decreasing. -/
theorem slice_mem_neg (a b c : Option Int) (n : Nat) (hc : stepOf c < 0) {s e : Int}
    {l : List (Fin n)} (h1 : sliceIndices a b c n = .ok (s, e, stepOf c))
    (h2 : sliceList a b c n = .ok l) :
    (∀ x : Fin n, x ∈ l ↔ e < x.val ∧ (x.val : Int) ≤ s ∧ stepOf c ∣ (x.val : Int) - s) ∧
      l.Pairwise (· > ·) := by
  obtain ⟨s', e', l', h1', h2', h3⟩ := sliceList_ok a b c n (by omega)
  rw [h1] at h1'; rw [h2] at h2'
  cases h1'; cases h2'
  constructor
  · intro x
    rw [← mem_range_neg hc, ← h3, List.mem_map]
    constructor
    · intro hx; exact ⟨x, hx, rfl⟩
    · rintro ⟨y, hy, hxy⟩
      have : y = x := Fin.ext (by exact_mod_cast hxy)
      rwa [← this]
  · have := rangeList_pairwise_gt (start := s) hc (rangeLen s e (stepOf c))
    rw [← h3, List.pairwise_map] at this
    exact this.imp (fun {a b} hab => by exact_mod_cast hab)

/-- `sys[:, :]`: the full slice selects every channel in order. -/
theorem slice_full (n : Nat) : sliceList none none none n = .ok (List.finRange n) := by
  obtain ⟨s, e, l, h1, h2, h3⟩ := sliceList_ok none none none n (by simp [stepOf])
  have hs : s = 0 ∧ e = n := by
    simp [sliceIndices, stepOf, startOf, stopOf, lowerB, upperB] at h1
    omega
  obtain ⟨rfl, rfl⟩ := hs
  have hlen : rangeLen 0 (n : Int) (stepOf none) = n := by
    show rangeLen 0 (n : Int) 1 = n
    unfold rangeLen
    rw [if_pos (by omega : (0 : Int) < 1)]
    by_cases hn : (0 : Int) < n
    · rw [if_pos hn]; simp
    · rw [if_neg hn]; omega
  rw [hlen] at h3
  rw [h2]
  congr 1
  apply List.ext_getElem
  · have := congrArg List.length h3
    simpa [rangeList] using this
  · intro k hk1 hk2
    have := congrArg (fun l => l[k]?) h3
    simp [rangeList, stepOf] at this
    rw [List.getElem?_eq_getElem hk1] at this
    simp at hk2
    simp [hk2] at this
    apply Fin.ext
    simp
    exact_mod_cast this

/-- `sys[::-1, …]`: the reversed full slice selects every channel in reverse order. -/
theorem slice_reverse (n : Nat) :
    sliceList none none (some (-1)) n = .ok (List.finRange n).reverse := by
  obtain ⟨s, e, l, h1, h2, h3⟩ := sliceList_ok none none (some (-1)) n (by simp [stepOf])
  have hs : s = (n : Int) - 1 ∧ e = -1 := by
    simp [sliceIndices, stepOf, startOf, stopOf, lowerB, upperB] at h1
    omega
  obtain ⟨rfl, rfl⟩ := hs
  have hlen : rangeLen ((n : Int) - 1) (-1) (stepOf (some (-1))) = n := by
    show rangeLen ((n : Int) - 1) (-1) (-1) = n
    unfold rangeLen
    rw [if_neg (by omega : ¬ (0 : Int) < -1), if_pos (by omega : (-1 : Int) < 0)]
    by_cases hn : (-1 : Int) < (n : Int) - 1
    · rw [if_pos hn]; simp
    · rw [if_neg hn]; omega
  rw [hlen] at h3
  rw [h2]
  congr 1
  have hl : l.length = n := by
    have := congrArg List.length h3
    simpa [rangeList] using this
  apply List.ext_getElem
  · simp [hl]
  · intro k hk1 hk2
    have := congrArg (fun l => l[k]?) h3
    simp [rangeList, stepOf] at this
    rw [List.getElem?_eq_getElem hk1] at this
    have hkn : k < n := by omega
    simp [hkn] at this
    apply Fin.ext
    simp [List.getElem_reverse]
    omega

/-! ### integers and lists of integers -/

/-- a non-negative in-range integer selects that channel. -/
theorem int_index_selects {n : Nat} (labels : Fin n → String) (i : Int) (h : 0 ≤ i ∧ i < n) :
    resolve labels (.idx i) = .ok [⟨i.toNat, by omega⟩] := by
  simp [resolve, parseSel, processIdx, bind, Except.bind, intIdx_nonneg h]

/-- `-k` selects channel `n - k` (false of the unrepaired code, which selected nothing). -/
theorem neg_int {n : Nat} (labels : Fin n → String) (k : Nat) (h : 1 ≤ k ∧ k ≤ n) :
    resolve labels (.idx (-(k : Int))) = .ok [⟨n - k, by omega⟩] := by
  have hk : -(n : Int) ≤ -(k : Int) ∧ -(k : Int) < 0 := by omega
  simp only [resolve, parseSel, processIdx, bind, Except.bind, intIdx_neg hk]
  congr 3
  omega

example : resolve (n := 3) (fun _ => "") (.idx (-1)) = .ok [2] := by decide

/-- an out-of-range integer raises `IndexError` instead of returning an empty selection
(false of the unrepaired code). -/
theorem out_of_range_raises {n : Nat} (labels : Fin n → String) (i : Int)
    (h : i < -(n : Int) ∨ (n : Int) ≤ i) : resolve labels (.idx i) = .error .indexRange := by
  simp [resolve, parseSel, processIdx, bind, Except.bind, intIdx_err h]

example : resolve (n := 3) (fun _ => "") (.idx 3) = .error .indexRange := by decide
example : resolve (n := 3) (fun _ => "") (.idx (-4)) = .error .indexRange := by decide

theorem resolve_int_list {n : Nat} (labels : Fin n → String) (l : List Int) :
    resolve labels (.list (l.map Item.idx)) = l.mapM (normIdx n) := by
  have : (l.map Item.idx).mapM (parseItem labels) = .ok l := by
    have := mapM_ok_of_forall (parseItem labels) (fun it => match it with | .idx i => i | .name _ => 0)
      (l.map Item.idx) (by
        intro a ha
        obtain ⟨i, _, rfl⟩ := List.mem_map.mp ha
        rfl)
    rw [this]
    simp [Function.comp_def]
  simp only [resolve, parseSel, this, bind, Except.bind, pure, Except.pure]
  exact processIdx_list l

/-- a list of integers with an out-of-range entry raises. -/
theorem list_out_of_range_raises {n : Nat} (labels : Fin n → String) (l : List Int)
    (h : ∃ i ∈ l, i < -(n : Int) ∨ (n : Int) ≤ i) :
    resolve labels (.list (l.map Item.idx)) = .error .indexRange := by
  rw [resolve_int_list]
  apply mapM_error_of_exists
  · intro a _ e he; exact normIdx_error_kind he
  · obtain ⟨i, hi, hr⟩ := h
    exact ⟨i, hi, .indexRange, normIdx_err hr⟩

/-- a list of in-range integers selects, in the order written, channel `i` for `i ≥ 0` and
`n + i` for `i < 0` (i.e. `i mod n`); repeated entries are kept. -/
theorem list_selects_in_order {n : Nat} (labels : Fin n → String) (l : List Int)
    (h : ∀ i ∈ l, -(n : Int) ≤ i ∧ i < n) :
    ∃ rows, resolve labels (.list (l.map Item.idx)) = .ok rows ∧ rows.length = l.length ∧
      ∀ (k : Nat) (h1 : k < rows.length) (h2 : k < l.length), ((rows[k]).val : Int) = l[k] % n := by
  rw [resolve_int_list]
  obtain ⟨rows, hrows⟩ := mapM_ok_of_forall_exists (normIdx n) l (by
    intro i hi
    have := h i hi
    by_cases h0 : 0 ≤ i
    · exact ⟨_, normIdx_nonneg ⟨h0, this.2⟩⟩
    · exact ⟨_, normIdx_neg ⟨this.1, by omega⟩⟩)
  obtain ⟨hlen, hk⟩ := mapM_ok_inv _ _ _ hrows
  refine ⟨rows, hrows, hlen, ?_⟩
  intro k h1 h2
  have hb := h l[k] (List.getElem_mem h2)
  rcases normIdx_ok_val (hk k h2 h1) with ⟨h0, hv⟩ | ⟨h0, hv⟩
  · rw [hv, Int.emod_eq_of_lt h0 hb.2]
  · rw [hv]
    have : (l[k] + n) % n = l[k] + n := Int.emod_eq_of_lt (by omega) (by omega)
    rw [← this, Int.add_emod_right]

example : resolve (n := 3) (fun _ => "") (.list [.idx 2, .idx (-3), .idx 1]) = .ok [2, 0, 1] := by
  decide

/-- `sys[[i], …]` is `sys[i, …]`. -/
theorem singleton_list_eq_int {n : Nat} (labels : Fin n → String) (i : Int) :
    resolve labels (.list [.idx i]) = resolve labels (.idx i) := by
  simp [resolve, parseSel, parseItem, List.mapM_cons, bind, Except.bind, pure, Except.pure,
    processIdx]

/-- the unrepaired integer branch selects *nothing* for `-1` (on every axis, also when `-1` is a
valid index), and … -/
theorem unrepaired_neg_int_counterexample (n : Nat) : intIdxUnrepaired n (-1) = .ok [] := by
  obtain ⟨s, e, l, h1, h2, h3⟩ :=
    sliceList_ok (some (-1)) (some (-1 + 1)) (some 1) n (by simp [stepOf])
  have hs : 0 ≤ s ∧ e = 0 := by
    simp [sliceIndices, stepOf, startOf, stopOf, clamp, lowerB, upperB] at h1
    omega
  have hlen : rangeLen s e (stepOf (some 1)) = 0 := by
    show rangeLen s e 1 = 0
    unfold rangeLen
    rw [if_pos (by omega : (0 : Int) < 1), if_neg (by omega)]
  rw [hlen] at h3
  have : l = [] := by simpa [rangeList] using h3
  rw [← this]; exact h2

/-- … for every index beyond the end, instead of raising. -/
theorem unrepaired_out_of_range_counterexample (n : Nat) (i : Int) (h : (n : Int) ≤ i) :
    intIdxUnrepaired n i = .ok [] := by
  obtain ⟨s, e, l, h1, h2, h3⟩ :=
    sliceList_ok (some i) (some (i + 1)) (some 1) n (by simp [stepOf])
  have hs : s = n ∧ e = n := by
    simp [sliceIndices, stepOf, startOf, stopOf, clamp, lowerB, upperB] at h1
    omega
  have hlen : rangeLen s e (stepOf (some 1)) = 0 := by
    show rangeLen s e 1 = 0
    unfold rangeLen
    rw [if_pos (by omega : (0 : Int) < 1), if_neg (by omega)]
  rw [hlen] at h3
  have : l = [] := by simpa [rangeList] using h3
  rw [← this]; exact h2

/-! ### names -/

/-- an unknown signal name raises (`ValueError: unknown signal name`). -/
theorem unknown_name_raises {n : Nat} (labels : Fin n → String) (s : String)
    (h : ∀ i, labels i ≠ s) : resolve labels (.name s) = .error .unknownName := by
  simp [resolve, parseSel, labelIndex_unknown labels s h, bind, Except.bind]

/-- … also anywhere inside a list. -/
theorem unknown_name_in_list_raises {n : Nat} (labels : Fin n → String) (l : List Item)
    (s : String) (hs : Item.name s ∈ l) (h : ∀ i, labels i ≠ s) :
    resolve labels (.list l) = .error .unknownName := by
  have : l.mapM (parseItem labels) = .error .unknownName := by
    apply mapM_error_of_exists
    · intro a _ e he
      cases a with
      | idx i => cases he
      | name t =>
        simp only [parseItem, labelIndex] at he
        split at he
        · cases he
        · cases he; rfl
    · exact ⟨_, hs, .unknownName, labelIndex_unknown labels s h⟩
  simp [resolve, parseSel, this, bind, Except.bind]

example : resolve (n := 2) (fun i => if i = 0 then "x" else "y") (.list [.name "x", .name "q"])
    = .error .unknownName := by decide

/-- selecting by name is selecting by the index of that name. -/
theorem name_eq_index {n : Nat} (labels : Fin n → String) (hinj : Function.Injective labels)
    (i : Fin n) : resolve labels (.name (labels i)) = resolve labels (.idx (i.val : Int)) := by
  simp [resolve, parseSel, labelIndex_of_injective labels hinj i, bind, Except.bind, pure,
    Except.pure]

theorem parse_name_list {n : Nat} (labels : Fin n → String) (hinj : Function.Injective labels)
    (l : List (Fin n)) :
    parseSel labels (.list (l.map fun i => Item.name (labels i))) =
      parseSel labels (.list (l.map fun i => Item.idx (i.val : Int))) := by
  have h1 : (l.map fun i => Item.name (labels i)).mapM (parseItem labels)
      = .ok (l.map fun i => (i.val : Int)) := by
    have := mapM_ok_of_forall (parseItem labels)
      (fun it => match it with
        | .idx i => i
        | .name s => match labelIndex labels s with | .ok k => k | .error _ => 0)
      (l.map fun i => Item.name (labels i)) (by
        intro a ha
        obtain ⟨i, _, rfl⟩ := List.mem_map.mp ha
        simp [parseItem, labelIndex_of_injective labels hinj i])
    rw [this]
    simp [Function.comp_def, labelIndex_of_injective labels hinj]
  have h2 : (l.map fun i => Item.idx (i.val : Int)).mapM (parseItem labels)
      = .ok (l.map fun i => (i.val : Int)) := by
    have := mapM_ok_of_forall (parseItem labels)
      (fun it => match it with | .idx i => i | .name _ => 0)
      (l.map fun i => Item.idx (i.val : Int)) (by
        intro a ha
        obtain ⟨i, _, rfl⟩ := List.mem_map.mp ha
        rfl)
    rw [this]
    simp [Function.comp_def]
  simp [parseSel, h1, h2]

/-- a list of names is the list of their indices (any order, any length). -/
theorem name_list_eq_index_list {n : Nat} (labels : Fin n → String)
    (hinj : Function.Injective labels) (l : List (Fin n)) :
    resolve labels (.list (l.map fun i => Item.name (labels i))) =
      resolve labels (.list (l.map fun i => Item.idx (i.val : Int))) := by
  simp only [resolve, parse_name_list labels hinj l]

/-- … and so for the whole operation, on either axis, for every class. -/
theorem getitem_name_eq_index {P : Nat → Nat → Type} (ctor : Ctor P) (cfg : Cfg) (S : Sys P)
    (ho : Function.Injective S.outs) (hi : Function.Injective S.ins) (i : Fin S.p) (j : Fin S.m)
    (k : Sel) :
    getitem ctor cfg S (.name (S.outs i)) k = getitem ctor cfg S (.idx (i.val : Int)) k ∧
    getitem ctor cfg S k (.name (S.ins j)) = getitem ctor cfg S k (.idx (j.val : Int)) := by
  have h1 : parseSel S.outs (.name (S.outs i)) = parseSel S.outs (.idx (i.val : Int)) := by
    simp [parseSel, labelIndex_of_injective S.outs ho i, bind, Except.bind, pure, Except.pure]
  have h2 : parseSel S.ins (.name (S.ins j)) = parseSel S.ins (.idx (j.val : Int)) := by
    simp [parseSel, labelIndex_of_injective S.ins hi j, bind, Except.bind, pure, Except.pure]
  constructor
  · unfold getitem; rw [h1]
  · unfold getitem; rw [h2]

/-! ### the selected system -/

/-- `sys[kr, kc]` returns exactly when both selectors resolve and the class constructor accepts
the sub-arrays; then it has one output per selected row and one input per selected column, the
labels of the selected signals in the selected order, the timebase of `sys`, and the name
`prefix + sys.name + suffix`. -/
theorem getitem_spec {P : Nat → Nat → Type} (ctor : Ctor P) (cfg : Cfg) (S : Sys P)
    (kr kc : Sel) (R : Sys P) :
    getitem ctor cfg S kr kc = .ok R ↔
      ∃ rows cols body, resolve S.outs kr = .ok rows ∧ resolve S.ins kc = .ok cols ∧
        ctor rows cols S.body = .ok body ∧
        R = { p := rows.length, m := cols.length, body := body,
              outs := fun i => S.outs (rows.get i), ins := fun j => S.ins (cols.get j),
              dt := S.dt, name := cfg.pre ++ S.name ++ cfg.suf } :=
  getitem_ok_iff ctor cfg S kr kc R

/-- the same, read off the result: shape, labels (as lists), timebase and name. -/
theorem getitem_labels_dt_name {P : Nat → Nat → Type} (ctor : Ctor P) (cfg : Cfg) (S : Sys P)
    (kr kc : Sel) (R : Sys P) (h : getitem ctor cfg S kr kc = .ok R) :
    ∃ rows cols, resolve S.outs kr = .ok rows ∧ resolve S.ins kc = .ok cols ∧
      R.p = rows.length ∧ R.m = cols.length ∧
      List.ofFn R.outs = rows.map S.outs ∧ List.ofFn R.ins = cols.map S.ins ∧
      R.dt = S.dt ∧ R.name = cfg.pre ++ S.name ++ cfg.suf := by
  obtain ⟨rows, cols, body, hr, hc, _, rfl⟩ := (getitem_ok_iff ctor cfg S kr kc R).mp h
  refine ⟨rows, cols, hr, hc, rfl, rfl, ?_, ?_, rfl, rfl⟩
  · apply List.ext_getElem <;> simp
  · apply List.ext_getElem <;> simp

/-- an unknown name, an out-of-range index, a zero step or a non-selector object on either axis
makes the operation raise: it never returns a smaller system instead. -/
theorem getitem_raises_on_bad_selector {P : Nat → Nat → Type} (ctor : Ctor P) (cfg : Cfg)
    (S : Sys P) (kr kc : Sel)
    (h : (∃ e, resolve S.outs kr = .error e) ∨ (∃ e, resolve S.ins kc = .error e)) :
    ∃ e, getitem ctor cfg S kr kc = .error e :=
  getitem_raises ctor cfg S kr kc h

variable {K : Type} [Field K]

/-- StateSpace: wherever the original system responds with `Y` at `s`, the indexed system
responds with the sub-matrix of `Y` on the selected rows and columns, in the selected order. -/
theorem ss_select_submatrix {n : Nat} (cfg : Cfg) (S : Sys (SSB K n)) (kr kc : Sel)
    (R : Sys (SSB K n)) (h : getitem ssCtor cfg S kr kc = .ok R) :
    ∃ (rows : List (Fin S.p)) (cols : List (Fin S.m)) (body : SSB K n rows.length cols.length),
      resolve S.outs kr = .ok rows ∧ resolve S.ins kc = .ok cols ∧
      R = { p := rows.length, m := cols.length, body := body,
            outs := fun i => S.outs (rows.get i), ins := fun j => S.ins (cols.get j),
            dt := S.dt, name := cfg.pre ++ S.name ++ cfg.suf } ∧
      ∀ (s : K) (Y : Matrix (Fin S.p) (Fin S.m) K), SS.Resp S.body s Y →
        SS.Resp body s (Y.submatrix (fun i => rows.get i) (fun j => cols.get j)) := by
  obtain ⟨rows, cols, body, hr, hc, hb, rfl⟩ := (getitem_ok_iff ssCtor cfg S kr kc R).mp h
  refine ⟨rows, cols, body, hr, hc, rfl, ?_⟩
  intro s Y hY
  unfold ssCtor at hb
  split at hb
  · cases hb
  · cases hb
    exact C02.select_resp S.body _ _ s hY

/-- StateSpace returns iff both selectors resolve, except for the empty column selections that
make `B` or `D` a `1 × 0` matrix, which the constructor rejects. -/
theorem ss_returns_iff {n : Nat} (cfg : Cfg) (S : Sys (SSB K n)) (kr kc : Sel) :
    (∃ R, getitem ssCtor cfg S kr kc = .ok R) ↔
      ∃ rows cols, resolve S.outs kr = .ok rows ∧ resolve S.ins kc = .ok cols ∧
        ¬ (cols.length = 0 ∧ (n = 1 ∨ rows.length = 1)) := by
  constructor
  · rintro ⟨R, h⟩
    obtain ⟨rows, cols, body, hr, hc, hb, _⟩ := (getitem_ok_iff ssCtor cfg S kr kc R).mp h
    refine ⟨rows, cols, hr, hc, ?_⟩
    intro hq
    simp [ssCtor, hq] at hb
  · rintro ⟨rows, cols, hr, hc, hq⟩
    exact ⟨_, (getitem_ok_iff ssCtor cfg S kr kc _).mpr
      ⟨rows, cols, SS.select S.body (fun i => rows.get i) (fun j => cols.get j), hr, hc,
        by simp only [ssCtor, if_neg hq], rfl⟩⟩

variable [DecidableEq K]

/-- TransferFunction: the indexed system is well-formed and its rational-matrix semantics is the
sub-matrix of the original one, in the selected order. -/
theorem tf_select_submatrix (cfg : Cfg) (S : Sys (TFB K)) (hS : TFM.WF S.body) (kr kc : Sel)
    (R : Sys (TFB K)) (h : getitem tfCtor cfg S kr kc = .ok R) :
    ∃ (rows : List (Fin S.p)) (cols : List (Fin S.m)) (body : TFB K rows.length cols.length),
      resolve S.outs kr = .ok rows ∧ resolve S.ins kc = .ok cols ∧
      R = { p := rows.length, m := cols.length, body := body,
            outs := fun i => S.outs (rows.get i), ins := fun j => S.ins (cols.get j),
            dt := S.dt, name := cfg.pre ++ S.name ++ cfg.suf } ∧
      TFM.WF body ∧
      TFM.sem body = (TFM.sem S.body).submatrix (fun i => rows.get i) (fun j => cols.get j) := by
  obtain ⟨rows, cols, body, hr, hc, hb, rfl⟩ := (getitem_ok_iff tfCtor cfg S kr kc R).mp h
  refine ⟨rows, cols, body, hr, hc, rfl, ?_⟩
  unfold tfCtor at hb
  split at hb
  · cases hb
  · obtain ⟨R', h1, h2, h3⟩ :=
      C01.sem_reindex S.body hS (fun i => rows.get i) (fun j => cols.get j)
    rw [h1] at hb
    cases hb
    exact ⟨h2, h3⟩

/-- TransferFunction returns iff both selectors resolve to non-empty selections. -/
theorem tf_returns_iff (cfg : Cfg) (S : Sys (TFB K)) (hS : TFM.WF S.body) (kr kc : Sel) :
    (∃ R, getitem tfCtor cfg S kr kc = .ok R) ↔
      ∃ rows cols, resolve S.outs kr = .ok rows ∧ resolve S.ins kc = .ok cols ∧
        rows ≠ [] ∧ cols ≠ [] := by
  constructor
  · rintro ⟨R, h⟩
    obtain ⟨rows, cols, body, hr, hc, hb, _⟩ := (getitem_ok_iff tfCtor cfg S kr kc R).mp h
    refine ⟨rows, cols, hr, hc, ?_, ?_⟩
    · rintro rfl; simp [tfCtor] at hb
    · rintro rfl; simp [tfCtor] at hb
  · rintro ⟨rows, cols, hr, hc, h1, h2⟩
    obtain ⟨R', h3, _, _⟩ := C01.sem_reindex S.body hS (fun i => rows.get i) (fun j => cols.get j)
    have hq : ¬ (rows.length = 0 ∨ cols.length = 0) := by
      simp [List.length_eq_zero_iff, h1, h2]
    exact ⟨_, (getitem_ok_iff tfCtor cfg S kr kc _).mpr
      ⟨rows, cols, R', hr, hc, by simp only [tfCtor, if_neg hq]; exact h3, rfl⟩⟩

omit [DecidableEq K] in
/-- FrequencyResponseData: same frequency grid, and at every grid point the stored response
matrix of the result is the sub-matrix of the original one, in the selected order. -/
theorem frd_select_submatrix {β : Type} (cfg : Cfg) (S : Sys (FRDB K β)) (kr kc : Sel)
    (R : Sys (FRDB K β)) (h : getitem frdCtor cfg S kr kc = .ok R) :
    ∃ (rows : List (Fin S.p)) (cols : List (Fin S.m)) (body : FRDB K β rows.length cols.length),
      resolve S.outs kr = .ok rows ∧ resolve S.ins kc = .ok cols ∧
      R = { p := rows.length, m := cols.length, body := body,
            outs := fun i => S.outs (rows.get i), ins := fun j => S.ins (cols.get j),
            dt := S.dt, name := cfg.pre ++ S.name ++ cfg.suf } ∧
      body.omega = S.body.omega ∧
      ∀ k i j, body.resp k i j = S.body.resp k (rows.get i) (cols.get j) := by
  obtain ⟨rows, cols, body, hr, hc, hb, rfl⟩ := (getitem_ok_iff frdCtor cfg S kr kc R).mp h
  refine ⟨rows, cols, body, hr, hc, rfl, ?_⟩
  unfold frdCtor at hb
  cases hb
  exact ⟨rfl, fun k i j => rfl⟩

omit [DecidableEq K] in
/-- FrequencyResponseData returns iff both selectors resolve. -/
theorem frd_returns_iff {β : Type} (cfg : Cfg) (S : Sys (FRDB K β)) (kr kc : Sel) :
    (∃ R, getitem frdCtor cfg S kr kc = .ok R) ↔
      ∃ rows cols, resolve S.outs kr = .ok rows ∧ resolve S.ins kc = .ok cols := by
  constructor
  · rintro ⟨R, h⟩
    obtain ⟨rows, cols, body, hr, hc, _, _⟩ := (getitem_ok_iff frdCtor cfg S kr kc R).mp h
    exact ⟨rows, cols, hr, hc⟩
  · rintro ⟨rows, cols, hr, hc⟩
    exact ⟨_, (getitem_ok_iff frdCtor cfg S kr kc _).mpr ⟨rows, cols, _, hr, hc, rfl, rfl⟩⟩

end CtrlVerif.C17
