/-
Source-text tie of C20, keyword processing at the head of `point_to_point` / `solve_flat_optimal` (tag
py2lean-p2phead, part 2).  `Generated/P2PHeadAlias.lean` (`_process_param` of control/config.py with its two loops as
definitions of their own, the table `_optimal_aliases` of control/optimal.py) and `Generated/P2PHeadKwargs.lean`
(the `kwargs.pop('minimize_*', …)` statements, `if kwargs: raise TypeError`, in `solve_flat_optimal` also the test
for a cost) are rewritten from the source text on every run; the model `Model/FlatHeadKw.lean` is proved EQUAL.

* `generated_processParam_eq` — `_process_param` IS `processParam`, for every name, explicit value, signature
  default, keyword dict, alias / legacy lists; `generated_loop1_eq`, `generated_loop2_eq` (one round of each loop);
* `processParam_absent`, `processParam_alias` — nothing given: the explicit value, the dict untouched; one alias
  given: its value, the key taken out (ALSO when an explicit value was passed: the alias wins silently);
* `generated_aliases_eq`, `generated_alias_initial_time` — the table; `generated_p2pAliasCalls_eq`,
  `generated_sfoAliasCalls_eq`, `generated_aliasCalls_consistent` — the call statements of `_process_param`, as a table;
* `generated_p2pKwargs_eq`, `generated_sfoKwargs_eq`, `generated_unknown_keyword`.
-/
import CtrlVerif.Generated.P2PHeadAlias
import CtrlVerif.Generated.P2PHeadKwargs
import CtrlVerif.Generated.P2PHeadAliasCalls
import CtrlVerif.Model.FlatHeadKw

namespace CtrlVerif.C20GenHeadKw

open CtrlVerif FlatHead

variable {ν : Type}

/-! ### unknown keywords -/

theorem filter_isEmpty (kw : List (String × ν)) (p : String × ν → Bool)
    (hp : ∀ e, p e = !(decide (e.1 ∈ minimizeKeys))) :
    (kw.filter p).isEmpty = kw.all (fun e => decide (e.1 ∈ minimizeKeys)) := by
  induction kw with
  | nil => rfl
  | cons a t ih =>
    by_cases h : a.1 ∈ minimizeKeys
    · simpa [hp, h] using ih
    · simp [hp, h]

/-- **generated_p2pKwargs_eq**: the `minimize_*` pops and `if kwargs: raise TypeError` of `point_to_point`, as the
source text says them, accept exactly the dicts whose keys are all `minimize_*` keys — for every dict (whatever
the order of the pops). -/
theorem generated_p2pKwargs_eq (kw : List (String × ν)) : Generated.p2pHeadKwargs kw = kwCheck kw := by
  unfold Generated.p2pHeadKwargs kwCheck
  simp only [PyHead.dictErase, List.filter_filter]
  rw [filter_isEmpty]
  · cases kw.all (fun e => decide (e.1 ∈ minimizeKeys)) <;> rfl
  · intro e
    by_cases h1 : e.1 = "minimize_method" <;> by_cases h2 : e.1 = "minimize_options" <;>
      by_cases h3 : e.1 = "minimize_kwargs" <;> simp_all [minimizeKeys]

/-- the same statements of `solve_flat_optimal`, with its test for a cost. -/
theorem generated_sfoKwargs_eq (kw : List (String × ν)) (c t : Option Unit) :
    Generated.sfoHeadKwargs kw c t = sfoKwCheck kw c.isSome t.isSome := by
  unfold Generated.sfoHeadKwargs sfoKwCheck kwCheck
  simp only [PyHead.dictErase, List.filter_filter]
  rw [filter_isEmpty]
  · cases kw.all (fun e => decide (e.1 ∈ minimizeKeys)) <;> cases c <;> cases t <;> rfl
  · intro e
    by_cases h1 : e.1 = "minimize_method" <;> by_cases h2 : e.1 = "minimize_options" <;>
      by_cases h3 : e.1 = "minimize_kwargs" <;> simp_all [minimizeKeys]

/-- a keyword that is not a `minimize_*` key and was not consumed by the alias processing: TypeError. -/
theorem generated_unknown_keyword (kw : List (String × ν)) (e : String × ν) (he : e ∈ kw)
    (hk : e.1 ∉ minimizeKeys) : Generated.p2pHeadKwargs kw = .error .badArg := by
  rw [generated_p2pKwargs_eq, kwCheck, if_neg]
  intro h
  rw [List.all_eq_true] at h
  exact hk (by simpa using h e he)

/-! ### the alias table -/

/-- **generated_aliases_eq**: `_optimal_aliases` as the source text of control/optimal.py has it. -/
theorem generated_aliases_eq : Generated.optimalAliases = FlatHead.optimalAliases := by decide

theorem generated_alias_initial_time :
    Generated.optimalAliases.lookup "initial_time" = some (["T0"], []) := by decide

/-- **generated_p2pAliasCalls_eq**: the `_process_param` call statements of `point_to_point` (which variable, under
which name, from which parameter, with which `sigval`, and the parameter's default in the signature), in order. -/
theorem generated_p2pAliasCalls_eq : Generated.p2pAliasCalls = FlatHead.p2pAliasCalls := by decide

theorem generated_sfoAliasCalls_eq : Generated.sfoAliasCalls = FlatHead.sfoAliasCalls := by decide

/-- every call passes as `sigval` the default its parameter has in the signature (so "not passed explicitly" is
recognised), and asks for a name the table knows. -/
theorem generated_aliasCalls_consistent :
    ∀ r ∈ Generated.p2pAliasCalls ++ Generated.sfoAliasCalls,
      r.2.2.2.1 = r.2.2.2.2 ∧ (Generated.optimalAliases.lookup r.2.1).isSome = true := by decide

/-! ### `_process_param` -/

variable [DecidableEq ν]

/-- one round of the loops of `_process_param`, state (dict, current value) as generated. -/
def aliasStep (defval : ν) (st : PyNL.Dict String ν × ν) (kw : String) : Except Err (PyNL.Dict String ν × ν) :=
  match st.1.lookup kw with
  | none => .ok st
  | some v => if st.2 ≠ defval ∧ v ≠ st.2 then .error .badArg else .ok (st.1.filter (fun e => !(e.1 == kw)), v)

theorem foldlM_aliasStep (defval : ν) (l : List String) (d : PyNL.Dict String ν) (cur : ν) :
    List.foldlM (aliasStep defval) (d, cur) l = (aliasPass defval l (cur, d)).map Prod.swap := by
  induction l generalizing d cur with
  | nil => rfl
  | cons kw rest ih =>
    rw [List.foldlM_cons]
    unfold aliasPass
    cases h : d.lookup kw with
    | none => simp only [aliasStep, h, bind, Except.bind]; exact ih d cur
    | some v =>
      by_cases hc : cur ≠ defval ∧ v ≠ cur
      · simp only [aliasStep, h, bind, Except.bind]
        rw [if_pos hc, if_pos hc]
        rfl
      · simp only [aliasStep, h, bind, Except.bind]
        rw [if_neg hc, if_neg hc]
        exact ih _ v

theorem loop_eq_aliasStep (f : PyNL.Dict String ν × ν → String → Except Err (PyNL.Dict String ν × ν))
    (defval : ν) (hf : ∀ t k, f t k = aliasStep defval t k) (l : List String) (d : PyNL.Dict String ν) (cur : ν) :
    List.foldlM f (d, cur) l = (aliasPass defval l (cur, d)).map Prod.swap := by
  have : f = aliasStep defval := funext fun t => funext fun k => hf t k
  rw [this]
  exact foldlM_aliasStep defval l d cur

/-- the body of the loop over the legacy names, as the source text says it. -/
theorem generated_loop1_eq (name : String) (defval sigval : ν) (t : PyNL.Dict String ν × ν) (k : String) :
    Generated.processParam_loop1 name defval sigval t k = aliasStep defval t k := by
  obtain ⟨d, cur⟩ := t
  unfold Generated.processParam_loop1 aliasStep
  cases h : d.lookup k with
  | none => simp [PyHead.dictContains, h, bind, Except.bind, pure, Except.pure]
  | some v =>
    by_cases hc : cur ≠ defval ∧ v ≠ cur
    · simp [PyHead.dictContains, PyHead.dictPop, PyHead.dictErase, h, hc, bind, Except.bind,
        throw, throwThe, MonadExceptOf.throw]
    · simp [PyHead.dictContains, PyHead.dictPop, PyHead.dictErase, h, hc, bind, Except.bind, pure, Except.pure]

/-- the body of the loop over the aliases. -/
theorem generated_loop2_eq (name : String) (defval sigval : ν) (t : PyNL.Dict String ν × ν) (k : String) :
    Generated.processParam_loop2 name defval sigval t k = aliasStep defval t k := by
  obtain ⟨d, cur⟩ := t
  unfold Generated.processParam_loop2 aliasStep
  cases h : d.lookup k with
  | none => simp [PyHead.dictContains, h, bind, Except.bind, pure, Except.pure]
  | some v =>
    by_cases hc : cur ≠ defval ∧ v ≠ cur
    · simp [PyHead.dictContains, PyHead.dictPop, PyHead.dictErase, h, hc, bind, Except.bind,
        throw, throwThe, MonadExceptOf.throw]
    · simp [PyHead.dictContains, PyHead.dictPop, PyHead.dictErase, h, hc, bind, Except.bind, pure, Except.pure]

/-- **generated_processParam_eq**: `_process_param(name, defval, kwargs, {name: (aliases, legacy)}, sigval)` as the
source text of control/config.py says it returns the value and leaves the dict of the model's `processParam` — for
every name, values, dict and lists. -/
theorem generated_processParam_eq (name : String) (defval sigval : ν) (kw : PyNL.Dict String ν)
    (aliases legacy : List String) :
    Generated.processParam name defval kw (aliases, legacy) sigval
      = processParam name defval sigval kw aliases legacy := by
  unfold Generated.processParam processParam
  have h1 := loop_eq_aliasStep _ defval (generated_loop1_eq name defval sigval)
  have h2 := loop_eq_aliasStep _ defval (generated_loop2_eq name defval sigval)
  cases h : kw.lookup name with
  | none =>
    simp only [PyHead.dictContains, h, Option.isSome_none, Bool.false_eq_true, if_false, bind, Except.bind, pure,
      Except.pure, h1]
    cases aliasPass defval legacy (defval, kw) with
    | error e => rfl
    | ok r =>
      obtain ⟨a, b⟩ := r
      simp only [Except.map, Prod.swap, h2]
      cases aliasPass defval aliases (a, b) <;> rfl
  | some v =>
    by_cases hc : defval ≠ sigval
    · simp [PyHead.dictContains, h, hc, bind, Except.bind, throw, throwThe, MonadExceptOf.throw]
    · simp only [PyHead.dictContains, PyHead.dictPop, PyHead.dictErase, h, hc, Option.isSome_some, if_true,
        decide_false, Bool.false_eq_true, if_false, bind, Except.bind, pure, Except.pure, h1]
      cases aliasPass defval legacy (v, kw.filter fun e => !(e.1 == name)) with
      | error e => rfl
      | ok r =>
        obtain ⟨a, b⟩ := r
        simp only [Except.map, Prod.swap, h2]
        cases aliasPass defval aliases (a, b) <;> rfl

theorem aliasPass_absent (explicit : ν) (l : List String) (cur : ν) (d : List (String × ν))
    (h : ∀ k ∈ l, d.lookup k = none) : aliasPass explicit l (cur, d) = .ok (cur, d) := by
  induction l with
  | nil => rfl
  | cons k rest ih =>
    unfold aliasPass
    rw [h k (by simp)]
    exact ih fun k' hk' => h k' (by simp [hk'])

/-- neither the name nor an alias nor a legacy name is given: the explicit value, the dict untouched. -/
theorem processParam_absent (name : String) (explicit sigval : ν) (kw : PyNL.Dict String ν)
    (aliases legacy : List String) (hn : kw.lookup name = none) (ha : ∀ k ∈ aliases, kw.lookup k = none)
    (hl : ∀ k ∈ legacy, kw.lookup k = none) :
    Generated.processParam name explicit kw (aliases, legacy) sigval = .ok (explicit, kw) := by
  rw [generated_processParam_eq, processParam, hn]
  simp only []
  rw [aliasPass_absent explicit legacy explicit kw hl]
  exact aliasPass_absent explicit aliases explicit kw ha

/-- a parameter with the single alias `a` (as `initial_time` / `T0`): when the alias is given (and the name itself
is not), its value is used and the key taken out — whatever value was passed explicitly. -/
theorem processParam_alias (name a : String) (explicit sigval v : ν) (kw : PyNL.Dict String ν)
    (hn : kw.lookup name = none) (ha : kw.lookup a = some v) :
    Generated.processParam name explicit kw ([a], []) sigval
      = .ok (v, kw.filter fun e => !(e.1 == a)) := by
  rw [generated_processParam_eq, processParam, hn]
  simp [aliasPass, Except.bind, ha]

/-! ### non-vacuity -/

example : Generated.processParam "initial_time" (0 : Nat) [("T0", 5), ("basis_x", 1)] (["T0"], []) 0
    = .ok (5, [("basis_x", 1)]) := by decide
/-- two aliases with different values: TypeError. -/
example : Generated.processParam "initial_state" (0 : Nat) [("x0", 5), ("X0", 6)] (["x0", "X0"], []) 0
    = .error .badArg := by decide
/-- the name itself in the dict together with an explicit value: TypeError. -/
example : Generated.processParam "initial_state" (3 : Nat) [("initial_state", 5)] (["x0", "X0"], []) 0
    = .error .badArg := by decide
example : Generated.p2pHeadKwargs [("minimize_method", (1 : Nat))] = .ok () := by decide
example : Generated.p2pHeadKwargs [("minimize_method", (1 : Nat)), ("Tf", 2)] = .error .badArg := by decide
example : Generated.sfoHeadKwargs ([] : List (String × Nat)) none none = .error .badArg := by decide
example : Generated.sfoHeadKwargs ([] : List (String × Nat)) (some ()) none = .ok () := by decide

end CtrlVerif.C20GenHeadKw
