/-
C01 — the function-call forms of the operators (`bdalg.feedback / series / parallel / negate /
append`, `Model/TFCall.lean`): what they are in terms of the operators, and what they mean.

The naming keywords of the wrappers are no arguments of the model functions: the value of the
result is a function of the operands and of `sign` only.  The theorems below say which function.
-/
import CtrlVerif.Model.TFCall
import CtrlVerif.Props.C01

namespace CtrlVerif.C01Call

open CtrlVerif

variable {K : Type} [Field K] [DecidableEq K]

/-! ### `feedback(sys1, sys2, sign, **kw)` -/

/-- with a system as first argument the function form is the method, with the requested sign. -/
theorem feedbackFn_sys (G : DTF K) (b : Operand K) (sign : K) :
    DTF.feedbackFn (.sys G) b sign = G.feedback b sign := rfl

/-- a scalar first argument is converted to a `1 × 1` static system first. -/
theorem feedbackFn_scalar (c : K) (b : Operand K) (sign : K) :
    DTF.feedbackFn (.scalar c) b sign = (DTF.ofScalar c 1 1).feedback b sign := rfl

/-- an array first argument is converted entry by entry. -/
theorem feedbackFn_array (p m : Nat) (D : Fin p → Fin m → K) (b : Operand K) (sign : K) :
    DTF.feedbackFn (.array p m D) b sign = (DTF.ofArray p m D).feedback b sign := rfl

/-- a MIMO operand on either side is `NotImplemented`, in the function form too. -/
theorem feedbackFn_mimo (a : Operand K) (H : DTF K) (sign : K)
    (h : (DTF.Operand.toSys a).isSiso = false ∨ H.isSiso = false) :
    DTF.feedbackFn a (.sys H) sign = .error .notImplemented :=
  C01.feedback_mimo _ _ sign h

/-- the value of the function form on SISO systems: the loop `G / (1 - sign * H * G)` **with the
sign that was asked for**, on the common timebase. -/
theorem feedbackFn_siso_value (G H : DTF K) (sign : K)
    (hG : G.isSiso = true) (hH : H.isSiso = true)
    (wG : (TFM.siso G.frac00).WF) (wH : (TFM.siso H.frac00).WF)
    (hne : 1 - RatFunc.C sign * (TFM.siso H.frac00).sem 0 0 * (TFM.siso G.frac00).sem 0 0 ≠ 0)
    (dt : Dt) (hdt : common G.dt H.dt = .ok dt) :
    ∃ s : TFM (Fin 1) (Fin 1) K,
      DTF.feedbackFn (.sys G) (.sys H) sign = .ok ⟨1, 1, s, dt⟩ ∧ s.WF ∧
      s.sem 0 0 = (TFM.siso G.frac00).sem 0 0 /
        (1 - RatFunc.C sign * (TFM.siso H.frac00).sem 0 0 * (TFM.siso G.frac00).sem 0 0) := by
  obtain ⟨R, h1, h2, h3⟩ := C01.sem_feedback _ _ sign wG wH hne
  refine ⟨R, ?_, h2, h3⟩
  simp only [DTF.feedbackFn, DTF.Operand.toSys, DTF.feedback, DTF.feedbackCore, hG, hH, hdt, h1,
    Bool.not_true, Bool.or_self, Bool.false_eq_true, if_false]
  rfl

/-- ... and it raises when the loop does not exist. -/
theorem feedbackFn_siso_singular (G H : DTF K) (sign : K)
    (hG : G.isSiso = true) (hH : H.isSiso = true)
    (wG : (TFM.siso G.frac00).WF) (wH : (TFM.siso H.frac00).WF)
    (hz : 1 - RatFunc.C sign * (TFM.siso H.frac00).sem 0 0 * (TFM.siso G.frac00).sem 0 0 = 0)
    (dt : Dt) (hdt : common G.dt H.dt = .ok dt) :
    DTF.feedbackFn (.sys G) (.sys H) sign = .error .zeroDen := by
  have h1 := C01.feedback_singular_raises _ _ sign wG wH hz
  simp only [DTF.feedbackFn, DTF.Operand.toSys, DTF.feedback, DTF.feedbackCore, hG, hH, hdt, h1,
    Bool.not_true, Bool.or_self, Bool.false_eq_true, if_false]
  rfl

/-! ### `series`, `parallel`, `append`, `negate` -/

theorem seriesFn_nil (G : DTF K) : DTF.seriesFn G [] = .ok G := rfl

theorem seriesFn_cons (G : DTF K) (y : Operand K) (ys : List (Operand K)) :
    DTF.seriesFn G (y :: ys) = (DTF.lmulBy G y >>= fun a => DTF.seriesFn a ys) := by
  simp [DTF.seriesFn, List.foldlM_cons]

/-- `series(G, H) = H * G` (the later argument is the LEFT factor). -/
theorem seriesFn_pair (G H : DTF K) : DTF.seriesFn G [.sys H] = H.mul (.sys G) := by
  rw [seriesFn_cons]
  cases h : DTF.lmulBy G (.sys H) <;> simp_all [DTF.lmulBy, seriesFn_nil] <;> rfl

/-- a constant on the left of a system is `__rmul__`. -/
theorem seriesFn_pair_scalar (G : DTF K) (c : K) :
    DTF.seriesFn G [.scalar c] = G.rmul (.scalar c) := by
  rw [seriesFn_cons]
  cases h : DTF.lmulBy G (.scalar c) <;> simp_all [DTF.lmulBy, seriesFn_nil] <;> rfl

theorem seriesFn_append (G : DTF K) (xs ys : List (Operand K)) :
    DTF.seriesFn G (xs ++ ys) = (DTF.seriesFn G xs >>= fun a => DTF.seriesFn a ys) := by
  simp [DTF.seriesFn, List.foldlM_append]

theorem parallelFn_nil (G : DTF K) : DTF.parallelFn G [] = .ok G := rfl

theorem parallelFn_cons (G : DTF K) (y : Operand K) (ys : List (Operand K)) :
    DTF.parallelFn G (y :: ys) = (G.add y >>= fun a => DTF.parallelFn a ys) := by
  simp [DTF.parallelFn, List.foldlM_cons]

/-- `parallel(G, x) = G + x`. -/
theorem parallelFn_pair (G : DTF K) (x : Operand K) : DTF.parallelFn G [x] = G.add x := by
  rw [parallelFn_cons]
  cases h : G.add x <;> simp [parallelFn_nil] <;> rfl

theorem parallelFn_append (G : DTF K) (xs ys : List (Operand K)) :
    DTF.parallelFn G (xs ++ ys) = (DTF.parallelFn G xs >>= fun a => DTF.parallelFn a ys) := by
  simp [DTF.parallelFn, List.foldlM_append]

theorem appendFn_nil (G : DTF K) : DTF.appendFn G [] = .ok G := rfl

theorem appendFn_cons (G : DTF K) (y : Operand K) (ys : List (Operand K)) :
    DTF.appendFn G (y :: ys)
      = (G.append (DTF.Operand.toSys y) >>= fun a => DTF.appendFn a ys) := by
  simp [DTF.appendFn, List.foldlM_cons]

/-- `append(G, H) = G.append(H)`. -/
theorem appendFn_pair (G H : DTF K) : DTF.appendFn G [.sys H] = G.append H := by
  rw [appendFn_cons]
  cases h : G.append (DTF.Operand.toSys (.sys H)) <;>
    simp_all [DTF.Operand.toSys, appendFn_nil] <;> rfl

theorem negateFn_eq (G : DTF K) : DTF.negateFn G = G.neg := rfl

/-! ### the meaning of `series` / `parallel` on typed systems -/

variable {n : Nat}

/-- `series` of square systems on the typed layer: `reduce(lambda x, y: y * x)`. -/
def seriesT (G : TFM (Fin n) (Fin n) K) (xs : List (TFM (Fin n) (Fin n) K)) :
    Except Err (TFM (Fin n) (Fin n) K) :=
  xs.foldlM (fun acc H => H.mul acc) G

/-- `parallel` on the typed layer: `reduce(lambda x, y: x + y)`. -/
def parallelT {o ι : Type} [Fintype o] [Fintype ι] (G : TFM o ι K) (xs : List (TFM o ι K)) :
    Except Err (TFM o ι K) :=
  xs.foldlM (fun acc H => acc.add H) G

/-- `series(G, H1, ..., Hk)` returns, and represents `Hk * ... * H1 * G`. -/
theorem sem_seriesT (xs : List (TFM (Fin n) (Fin n) K)) (G : TFM (Fin n) (Fin n) K)
    (hG : G.WF) (hx : ∀ H ∈ xs, H.WF) :
    ∃ R, seriesT G xs = .ok R ∧ R.WF ∧ R.sem = xs.foldl (fun acc H => H.sem * acc) G.sem := by
  induction xs generalizing G with
  | nil => exact ⟨G, rfl, hG, rfl⟩
  | cons H t ih =>
    obtain ⟨R, h1, h2, h3⟩ := C01.sem_mul H G (hx H (List.mem_cons_self ..)) hG
    obtain ⟨R', g1, g2, g3⟩ := ih R h2 (fun H' hH' => hx H' (List.mem_cons_of_mem _ hH'))
    refine ⟨R', ?_, g2, ?_⟩
    · simp only [seriesT, List.foldlM_cons, h1]
      exact g1
    · rw [g3, h3]; rfl

/-- `parallel(G, H1, ..., Hk)` returns, and represents `G + H1 + ... + Hk`. -/
theorem sem_parallelT {o ι : Type} [Fintype o] [Fintype ι] (xs : List (TFM o ι K))
    (G : TFM o ι K) (hG : G.WF) (hx : ∀ H ∈ xs, H.WF) :
    ∃ R, parallelT G xs = .ok R ∧ R.WF ∧ R.sem = xs.foldl (fun acc H => acc + H.sem) G.sem := by
  induction xs generalizing G with
  | nil => exact ⟨G, rfl, hG, rfl⟩
  | cons H t ih =>
    obtain ⟨R, h1, h2, h3⟩ := C01.sem_add G H hG (hx H (List.mem_cons_self ..))
    obtain ⟨R', g1, g2, g3⟩ := ih R h2 (fun H' hH' => hx H' (List.mem_cons_of_mem _ hH'))
    refine ⟨R', ?_, g2, ?_⟩
    · simp only [parallelT, List.foldlM_cons, h1]
      exact g1
    · rw [g3, h3]; rfl

/-- non-vacuity: `series(g, g, g)` and `parallel(g, g)` of the SISO system `g = (s+2)/(s²+3)` over
`ℚ` return, and represent `g * g * g` and `g + g`. -/
example : ∃ R, seriesT C01.exG1.1 [C01.exG1.1, C01.exG1.1] = .ok R ∧ R.WF ∧
    R.sem = C01.exG1.1.sem * (C01.exG1.1.sem * C01.exG1.1.sem) :=
  sem_seriesT [C01.exG1.1, C01.exG1.1] _ C01.exG1.2
    (by intro H hH; simp at hH; subst hH; exact C01.exG1.2)

example : ∃ R, parallelT C01.exG1.1 [C01.exG1.1] = .ok R ∧ R.WF ∧
    R.sem = C01.exG1.1.sem + C01.exG1.1.sem :=
  sem_parallelT [C01.exG1.1] _ C01.exG1.2 (by intro H hH; simp at hH; subst hH; exact C01.exG1.2)

end CtrlVerif.C01Call
