/-
Source-text tie of C16, part 4: the bounds and the two `while` loops of the L∞ computation of
`system_norm` (control/sysnorm.py) — the statements after the nested function: `gaml = la.norm(D, 2)`,
`gamu = max(1, 2 gaml)`, the identities `Ip`, `Im` (repair c2eff4a), the doubling loop
`while test(gamu): gamu *= 2.0`, the bisection `while (gamu - gaml) / gamu > tol: …` and `return gam`.
`Generated/NormLoops.lean` is rewritten from the source text on every run
(harness/core/py2lean_norm.py); a `while` is `PyNorm.whileFuel` (at most `fuel` tests, out of fuel =
`diverged`), the state of the second loop is `(gam if assigned, gaml, gamu)`.

* `whileFuel_upper`, `whileFuel_bisect` — the two loops, for EVERY fuel and every state, are the
  model's `upperLoop` / `bisectLoop`.  The doubling loop needs nothing; the bisection is stated under
  the INVARIANT `0 ≤ gaml`, `0 < gamu` (kept by every iteration: the new bound is the midpoint), under
  which the divisor of the stopping rule is not zero (Python would raise there; Lean's `x / 0 = 0` in
  the model would not).
* `generated_linfCont_eq` — the whole block is the model's `linfLoops` with `eigTest` as the test,
  given `0 ≤ la.norm(D, 2)`; leaving the bisection without an iteration is the `UnboundLocalError`
  of the model.
* transported: `generated_bisection_invariant`, `generated_linf_within_tol`.
-/
import CtrlVerif.Generated.NormLoops
import CtrlVerif.Props.C16GenHam

namespace CtrlVerif.C16Gen

open Matrix CtrlVerif CtrlVerif.Norm

variable {K : Type} [Field K] [LinearOrder K]

/-- **the doubling loop** `while test(gamu): gamu *= 2.0`, for every fuel and start value. -/
theorem whileFuel_upper (test cond : K → Except Err Bool) (body : K → Except Err K)
    (hc : ∀ u, cond u = test u) (hb : ∀ u, body u = .ok (2 * u)) :
    ∀ (fuel : Nat) (u : K), PyNorm.whileFuel cond body fuel u = upperLoop test fuel u := by
  intro fuel
  induction fuel with
  | zero => intro u; rfl
  | succ f ih =>
    intro u
    unfold PyNorm.whileFuel upperLoop
    rw [hc, hb]
    cases test u with
    | error e => rfl
    | ok b =>
      cases b with
      | false => rfl
      | true => simp only [Except.bind, ↓reduceIte, ih]

variable [IsStrictOrderedRing K]

/-- **the bisection loop**, for every fuel and every state `(gam?, gaml, gamu)` that satisfies the
invariant `0 ≤ gaml`, `0 < gamu`: followed by `return gam` it is the model's `bisectLoop` (an
unassigned `gam` = `UnboundLocalError`; out of fuel = `diverged`). -/
theorem whileFuel_bisect (test : K → Except Err Bool) (tol : K)
    (cond : Option K × K × K → Except Err Bool) (body : Option K × K × K → Except Err (Option K × K × K))
    (post : Option (Option K × K × K) → Except Err (LinfVal K))
    (hc : ∀ g l u, u ≠ 0 → cond (g, l, u) = .ok (decide (tol < (u - l) / u)))
    (hb : ∀ g l u, body (g, l, u) = (test ((u + l) / 2)).bind fun b =>
      .ok (some ((u + l) / 2), (if b then (u + l) / 2 else l), (if b then u else (u + l) / 2)))
    (hp0 : post none = .ok .diverged)
    (hp1 : ∀ g l u, post (some (g, l, u)) = (PyNorm.bound g).bind fun x => .ok (.val x)) :
    ∀ (fuel : Nat) (g : Option K) (l u : K), 0 ≤ l → 0 < u →
      (PyNorm.whileFuel cond body fuel (g, l, u)).bind post
        = match bisectLoop test tol fuel g l u with
          | .error e => .error e
          | .ok none => .ok .diverged
          | .ok (some (gam, _, _)) => .ok (.val gam) := by
  intro fuel
  induction fuel with
  | zero => intro g l u _ _; simp only [PyNorm.whileFuel, bisectLoop, Except.bind, hp0]
  | succ f ih =>
    intro g l u hl hu
    unfold PyNorm.whileFuel bisectLoop
    rw [hc g l u (ne_of_gt hu)]
    by_cases hcond : tol < (u - l) / u
    · simp only [hcond, decide_true, Except.bind, ↓reduceIte]
      rw [hb]
      have hm : 0 < (u + l) / 2 := by linarith
      cases test ((u + l) / 2) with
      | error e => rfl
      | ok b =>
        cases b with
        | true =>
          have := ih (some ((u + l) / 2)) ((u + l) / 2) u (le_of_lt hm) hu
          simpa only [Except.bind, ↓reduceIte] using this
        | false =>
          have := ih (some ((u + l) / 2)) l ((u + l) / 2) hl hm
          simpa only [Except.bind, Bool.false_eq_true, ↓reduceIte] using this
    · simp only [hcond, decide_false, Except.bind, Bool.false_eq_true, ↓reduceIte, hp1]
      cases g with
      | none => rfl
      | some gam => rfl

/-- what the doubling loop returns is positive when its start value is. -/
theorem upperLoop_pos (test : K → Except Err Bool) (fuel : Nat) (u0 u : K) (h0 : 0 < u0)
    (h : upperLoop test fuel u0 = .ok (some u)) : 0 < u := by
  obtain ⟨_, k, rfl, _⟩ := upperLoop_spec test fuel u0 u h
  positivity

/-- **the bounds and the two loops** as the source text has them are the model's `linfLoops` on the
model's eigenvalue test, for every system (every shape), tolerance and fuel. -/
theorem generated_linfCont_eq (eigvals : PMat K → List (Pole K)) (norm2 : PMat K → K) (fuel : Nat)
    {n m p : Nat} (G : SS (Fin n) (Fin m) (Fin p) K) (tol : K) (h0 : 0 ≤ norm2 ⟨p, m, G.D⟩) :
    Generated.normLinfCont eigvals norm2 fuel ⟨n, n, G.A⟩ ⟨n, m, G.B⟩ ⟨p, n, G.C⟩ ⟨p, m, G.D⟩ tol
      = linfLoops (eigTest invOpt (imagEigOf eigvals) G) tol (norm2 ⟨p, m, G.D⟩) fuel := by
  unfold Generated.normLinfCont linfLoops
  simp only [bind, pure, Except.pure]
  rw [whileFuel_upper (eigTest invOpt (imagEigOf eigvals) G) _ _
    (fun u => generated_eigTest_eq eigvals G u) (fun u => by simp only [mul_comm])]
  have hu0 : (0 : K) < max 1 (2 * norm2 ⟨p, m, G.D⟩) := lt_of_lt_of_le one_pos (le_max_left _ _)
  cases hU : upperLoop (eigTest invOpt (imagEigOf eigvals) G) fuel (max 1 (2 * norm2 ⟨p, m, G.D⟩)) with
  | error e => rfl
  | ok r =>
    cases r with
    | none => rfl
    | some gamu =>
      have hpos := upperLoop_pos _ fuel _ gamu hu0 hU
      simp only [Except.bind]
      have h2 : (2 : K) ≠ 0 := two_ne_zero
      exact whileFuel_bisect (eigTest invOpt (imagEigOf eigvals) G) tol _ _ _
        (fun g l u hu => by simp only [PyNum.div, hu, ↓reduceIte, Except.bind])
        (fun g l u => by
          simp only [PyNum.div, h2, ↓reduceIte, Except.bind]
          rw [← generated_eigTest_eq eigvals G]
          cases Generated.normHamilton (PMat.eye m) ⟨p, m, G.D⟩ ⟨n, n, G.A⟩ ⟨n, m, G.B⟩ ⟨p, n, G.C⟩
              (PMat.eye p) ((u + l) / 2) with
          | error e => rfl
          | ok t =>
            simp only [Except.bind]
            by_cases ht : PyNorm.any (PyNorm.isclose (PyNorm.real (eigvals t)) (0 : K)) = true
            · simp only [ht, ↓reduceIte, decide_true]
            · simp only [ht, ↓reduceIte, decide_false, Bool.false_eq_true])
        rfl (fun g l u => rfl) fuel none _ gamu h0 hpos

/-- the test both loops of the source text evaluate at `γ`:
`any(np.isclose(la.eigvals(_Hamilton_matrix(γ)).real, 0.0))` with the identities the code passes. -/
def genTest (eigvals : PMat K → List (Pole K)) {n m p : Nat} (G : SS (Fin n) (Fin m) (Fin p) K) (γ : K) :
    Except Err Bool :=
  (Generated.normHamilton (PMat.eye m) ⟨p, m, G.D⟩ ⟨n, n, G.A⟩ ⟨n, m, G.B⟩ ⟨p, n, G.C⟩ (PMat.eye p) γ).bind
    fun t => .ok (decide (PyNorm.any (PyNorm.isclose (PyNorm.real (eigvals t)) (0 : K)) = true))

theorem genTest_eq (eigvals : PMat K → List (Pole K)) {n m p : Nat} (G : SS (Fin n) (Fin m) (Fin p) K) :
    genTest eigvals G = eigTest invOpt (imagEigOf eigvals) G :=
  funext fun γ => generated_eigTest_eq eigvals G γ

/-- model: a value returned by `linfLoops` comes out of the two loops. -/
theorem linfLoops_val_inv (test : K → Except Err Bool) (tol gaml : K) (fuel : Nat) (g : K)
    (h : linfLoops test tol gaml fuel = .ok (.val g)) :
    ∃ gamu l' u', upperLoop test fuel (max 1 (2 * gaml)) = .ok (some gamu) ∧
      bisectLoop test tol fuel none gaml gamu = .ok (some (g, l', u')) := by
  unfold linfLoops at h
  cases hU : upperLoop test fuel (max 1 (2 * gaml)) with
  | error e => rw [hU] at h; cases h
  | ok r =>
    cases r with
    | none => rw [hU] at h; cases h
    | some gamu =>
      rw [hU] at h
      simp only at h
      cases hB : bisectLoop test tol fuel none gaml gamu with
      | error e => rw [hB] at h; cases h
      | ok r2 =>
        cases r2 with
        | none => rw [hB] at h; cases h
        | some t =>
          obtain ⟨g', l', u'⟩ := t
          rw [hB] at h
          simp only [Except.ok.injEq, LinfVal.val.injEq] at h
          subst h
          exact ⟨gamu, l', u', rfl, hB⟩

/-- **`bisection_invariant` for the generated loops**: if the test the source text evaluates is the
threshold test at `γ*` above `gaml = la.norm(D, 2) ≥ 0` and `gaml ≤ γ*`, every value `g` the
source-text block returns is an end point of a bracket `[l', u']` with `gaml ≤ l' ≤ γ* < u' ≤ gamu`
(`gamu = 2^k · max(1, 2 gaml)` from the doubling loop) of relative width `(u' − l')/u' ≤ tol`. -/
theorem generated_bisection_invariant (eigvals : PMat K → List (Pole K)) (norm2 : PMat K → K) (fuel : Nat)
    {n m p : Nat} (G : SS (Fin n) (Fin m) (Fin p) K) (tol γs g : K)
    (h0 : 0 ≤ norm2 ⟨p, m, G.D⟩) (hs : norm2 ⟨p, m, G.D⟩ ≤ γs)
    (htest : ∀ γ, norm2 ⟨p, m, G.D⟩ < γ → genTest eigvals G γ = .ok (decide (γ ≤ γs)))
    (h : Generated.normLinfCont eigvals norm2 fuel ⟨n, n, G.A⟩ ⟨n, m, G.B⟩ ⟨p, n, G.C⟩ ⟨p, m, G.D⟩ tol
      = .ok (.val g)) :
    ∃ gamu l' u' : K, (∃ k : ℕ, gamu = 2 ^ k * max 1 (2 * norm2 ⟨p, m, G.D⟩)) ∧
      norm2 ⟨p, m, G.D⟩ ≤ l' ∧ u' ≤ gamu ∧ l' ≤ γs ∧ γs < u' ∧ (u' - l') / u' ≤ tol ∧ (g = l' ∨ g = u') := by
  rw [generated_linfCont_eq eigvals norm2 fuel G tol h0, ← genTest_eq] at h
  obtain ⟨gamu, l', u', hU, hB⟩ := linfLoops_val_inv _ tol _ fuel g h
  obtain ⟨hf, k, hk, _⟩ := upperLoop_spec _ fuel _ gamu hU
  have hgt : norm2 ⟨p, m, G.D⟩ < gamu := by
    rw [hk]
    have h1 : norm2 ⟨p, m, G.D⟩ < max 1 (2 * norm2 ⟨p, m, G.D⟩) := lt_max_one_two_mul h0
    have h2 : (1 : K) ≤ 2 ^ k := one_le_pow₀ (by norm_num)
    have h3 : (0 : K) < max 1 (2 * norm2 ⟨p, m, G.D⟩) := lt_of_lt_of_le one_pos (le_max_left _ _)
    nlinarith
  have hlt : γs < gamu := by
    rw [htest gamu hgt] at hf
    simpa using hf
  obtain ⟨a, b, c, d, e, f⟩ := C16.bisection_invariant _ tol γs _ htest fuel _ gamu g l' u'
    (le_refl _) hs hlt hB
  exact ⟨gamu, l', u', ⟨k, hk⟩, a, b, c, d, e, f⟩

/-- **`linf_within_tol` for the generated loops**: … hence `(1 − tol) γ* ≤ g` and `(1 − tol) g ≤ γ*`. -/
theorem generated_linf_within_tol (eigvals : PMat K → List (Pole K)) (norm2 : PMat K → K) (fuel : Nat)
    {n m p : Nat} (G : SS (Fin n) (Fin m) (Fin p) K) (tol γs g : K)
    (h0 : 0 ≤ norm2 ⟨p, m, G.D⟩) (hs : norm2 ⟨p, m, G.D⟩ ≤ γs) (htol0 : 0 ≤ tol) (htol1 : tol ≤ 1)
    (htest : ∀ γ, norm2 ⟨p, m, G.D⟩ < γ → genTest eigvals G γ = .ok (decide (γ ≤ γs)))
    (h : Generated.normLinfCont eigvals norm2 fuel ⟨n, n, G.A⟩ ⟨n, m, G.B⟩ ⟨p, n, G.C⟩ ⟨p, m, G.D⟩ tol
      = .ok (.val g)) :
    norm2 ⟨p, m, G.D⟩ ≤ g ∧ (1 - tol) * γs ≤ g ∧ (1 - tol) * g ≤ γs := by
  rw [generated_linfCont_eq eigvals norm2 fuel G tol h0, ← genTest_eq] at h
  exact C16.linf_within_tol _ tol γs _ fuel g h0 hs htol0 htol1 htest h

/-- leaving the bisection of the source text without an iteration (`tol` at least the relative width
of the first bracket) is the `UnboundLocalError` of `return gam`. -/
theorem generated_linfCont_unbound (eigvals : PMat K → List (Pole K)) (norm2 : PMat K → K) (fuel : Nat)
    {n m p : Nat} (G : SS (Fin n) (Fin m) (Fin p) K) (tol gamu : K) (h0 : 0 ≤ norm2 ⟨p, m, G.D⟩)
    (hU : upperLoop (genTest eigvals G) (fuel + 1) (max 1 (2 * norm2 ⟨p, m, G.D⟩)) = .ok (some gamu))
    (ht : ¬ tol < (gamu - norm2 ⟨p, m, G.D⟩) / gamu) :
    Generated.normLinfCont eigvals norm2 (fuel + 1) ⟨n, n, G.A⟩ ⟨n, m, G.B⟩ ⟨p, n, G.C⟩ ⟨p, m, G.D⟩ tol
      = .error .badArg := by
  rw [generated_linfCont_eq eigvals norm2 (fuel + 1) G tol h0, ← genTest_eq]
  unfold linfLoops
  rw [hU]
  simp only [C16.bisect_unbound _ tol _ gamu fuel ht]

/-! ### non-vacuity: `1/(s+1)` (L∞ norm 1) -/

/-- `1/(s+1)` -/
def exG1 : SS (Fin 1) (Fin 1) (Fin 1) ℚ := ⟨!![-1], !![1], !![1], !![0]⟩

/-- an "eigenvalue routine" that is right about the imaginary axis on the Hamiltonian matrices of `exG1`
(`H(γ) = [[-1, 1/γ²], [-1, 1]]` has the eigenvalues `±sqrt(1 − 1/γ²)`). -/
def exEig : PMat ℚ → List (Pole ℚ) := fun H =>
  if h : 0 < H.r ∧ 1 < H.c then (if 1 ≤ H.M ⟨0, h.1⟩ ⟨1, h.2⟩ then [⟨0, 1⟩] else [⟨1, 0⟩]) else []

theorem exTest (γ : ℚ) (hγ : 0 < γ) : genTest exEig exG1 γ = .ok (decide (γ ≤ 1)) := by
  rw [genTest_eq]
  have hR : Rmat exG1 γ = !![γ ^ 2] := by
    ext i j; fin_cases i; fin_cases j; simp [Rmat, exG1, Matrix.mul_apply]
  have hne : γ ^ 2 ≠ 0 := by positivity
  have hi : PMat.inverse (!![γ ^ 2] : Matrix (Fin 1) (Fin 1) ℚ) = !![1 / γ ^ 2] := by
    ext i j; fin_cases i; fin_cases j
    simp [PMat.inverse, Matrix.adjugate_fin_one]
  unfold eigTest invOpt
  rw [hR]
  simp only [Matrix.det_fin_one_of, hne, ↓reduceIte, hi]
  congr 1
  unfold imagEigOf exEig flat2
  have h01 : ((hamiltonian exG1 !![1 / γ ^ 2]).submatrix finSumFinEquiv.symm finSumFinEquiv.symm)
      (⟨0, by omega⟩ : Fin (1 + 1)) (⟨1, by omega⟩ : Fin (1 + 1)) = 1 / γ ^ 2 := by
    have e0 : finSumFinEquiv.symm (⟨0, by omega⟩ : Fin (1 + 1)) = (Sum.inl 0 : Fin 1 ⊕ Fin 1) := rfl
    have e1 : finSumFinEquiv.symm (⟨1, by omega⟩ : Fin (1 + 1)) = (Sum.inr 0 : Fin 1 ⊕ Fin 1) := rfl
    rw [Matrix.submatrix_apply, e0, e1]
    simp [hamiltonian, exG1, Matrix.vecMul, dotProduct]
  simp only [show (0 < 1 + 1 ∧ 1 < 1 + 1) from ⟨by omega, by omega⟩, h01]
  have hiff : (1 ≤ 1 / γ ^ 2) ↔ γ ≤ 1 := by
    rw [le_div_iff₀ (by positivity), one_mul]
    constructor
    · intro h; nlinarith
    · intro h; nlinarith
  by_cases h : γ ≤ 1
  · rw [if_pos (hiff.mpr h)]
    simp [h, PyNorm.any, PyNorm.isclose, PyNorm.real]
  · rw [if_neg (mt hiff.mp h)]
    simp [h, PyNorm.any, PyNorm.isclose, PyNorm.real]

theorem exValue : Generated.normLinfCont exEig (fun _ => 0) 8 ⟨1, 1, exG1.A⟩ ⟨1, 1, exG1.B⟩ ⟨1, 1, exG1.C⟩ ⟨1, 1, exG1.D⟩ (1/4)
    = .ok (.val (5/4)) := by
  rw [generated_linfCont_eq exEig (fun _ => 0) 8 exG1 (1/4) (le_refl _), ← genTest_eq]
  have t1 := exTest 1 (by norm_num)
  have t2 := exTest 2 (by norm_num)
  have t3 := exTest (3/2) (by norm_num)
  have t4 := exTest (5/4) (by norm_num)
  norm_num [linfLoops, upperLoop, bisectLoop, t1, t2, t3, t4]

-- `generated_bisection_invariant` and `generated_linf_within_tol` apply to it (`γ* = 1`, `tol = 1/4`)
example := generated_bisection_invariant exEig (fun _ => 0) 8 exG1 (1/4) 1 (5/4) (le_refl _) (by norm_num)
  (fun γ hγ => exTest γ hγ) exValue

example := generated_linf_within_tol exEig (fun _ => 0) 8 exG1 (1/4) 1 (5/4) (le_refl _) (by norm_num)
  (by norm_num) (by norm_num) (fun γ hγ => exTest γ hγ) exValue

-- `tol = 1`: the bisection is left without an iteration, `return gam` is an `UnboundLocalError`
example : Generated.normLinfCont exEig (fun _ => 0) 2 ⟨1, 1, exG1.A⟩ ⟨1, 1, exG1.B⟩ ⟨1, 1, exG1.C⟩
    ⟨1, 1, exG1.D⟩ 1 = .error .badArg := by
  refine generated_linfCont_unbound exEig (fun _ => 0) 1 exG1 1 2 (le_refl _) ?_ (by norm_num)
  have t1 := exTest 1 (by norm_num)
  have t2 := exTest 2 (by norm_num)
  norm_num [upperLoop, t1, t2]

end CtrlVerif.C16Gen
