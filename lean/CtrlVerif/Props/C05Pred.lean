/-
Source-text tie for the timebase predicates of C05 (DESIGN §2.5): `Generated/DtPred.lean` is
rewritten on every run from the text of `InputOutputSystem.isctime / isdtime` and of the
module-level `isdtime / isctime / timebase` in /repo/control/iosys.py by
`harness/core/py2lean_select.py`.  The hand-written model `Model/DtPred.lean` is proved equal to
the generated functions (all timebases, all arguments, both values of `strict`), and the
documented meaning of the predicates is proved about the model: how `strict` treats an
unspecified timebase, that a specified timebase is exactly one of continuous / discrete, and how
the predicates go with the common timebase of C05.
-/
import CtrlVerif.Generated.DtPred
import CtrlVerif.Lemmas.Dt

namespace CtrlVerif.C05Pred

open CtrlVerif DtPred

/-! ### generated = model -/

/-- `sys.isdtime(strict)` as written in the source is the model, on every timebase. -/
theorem generated_ioIsdtime_eq (d : Dt) (strict : Bool) :
    Generated.ioIsdtime d strict = .ok (isdtime strict d) := by
  cases d <;> cases strict <;>
    simp [Generated.ioIsdtime, isdtime, PyDt.isNone, PyDt.gtZero, PyDt.num, pure, Except.pure] <;> congr

/-- `sys.isctime(strict)` as written in the source is the model, on every timebase. -/
theorem generated_ioIsctime_eq (d : Dt) (strict : Bool) :
    Generated.ioIsctime d strict = .ok (isctime strict d) := by
  cases d <;> cases strict <;>
    simp [Generated.ioIsctime, isctime, PyDt.isNone, PyDt.eqZero, PyDt.num, pure, Except.pure] <;> congr

/-- module-level `isdtime(sys, strict, dt)` as written in the source is the model: every kind
of `sys` argument, every timebase argument, both values of `strict`. -/
theorem generated_isdtime_eq (sys : SysArg) (strict : Bool) (dt : Dt) :
    Generated.isdtime sys strict dt = isdtimeFn sys strict dt := by
  cases sys <;> cases dt <;> cases strict <;>
    simp [Generated.isdtime, generated_ioIsdtime_eq, isdtimeFn, dispatch, isdtime, PySys.isNone,
      PySys.isNumber, PySys.dt, PyDt.isNone, PyDt.gtZero, PyDt.num, bind, Except.bind, pure,
      Except.pure, throw, throwThe, MonadExceptOf.throw] <;> congr

/-- module-level `isctime(sys, dt, strict)` as written in the source is the model. -/
theorem generated_isctime_eq (sys : SysArg) (dt : Dt) (strict : Bool) :
    Generated.isctime sys dt strict = isctimeFn sys dt strict := by
  cases sys <;> cases dt <;> cases strict <;>
    simp [Generated.isctime, generated_ioIsctime_eq, isctimeFn, dispatch, isctime, PySys.isNone,
      PySys.isNumber, PySys.dt, PyDt.isNone, PyDt.eqZero, PyDt.num, bind, Except.bind, pure,
      Except.pure, throw, throwThe, MonadExceptOf.throw] <;> congr

/-- `timebase(sys, strict)` as written in the source is the model. -/
theorem generated_timebase_eq (sys : SysArg) (strict : Bool) :
    Generated.timebase sys strict = timebaseFn sys strict := by
  rcases sys with _ | _ | d | _ <;> (try cases d) <;> cases strict <;>
    simp [Generated.timebase, timebaseFn, PySys.isNumber, PySys.isSystem, PySys.dt, PyDt.isNone,
      PyDt.toFloat, bind, Except.bind, pure, Except.pure, throw, throwThe, MonadExceptOf.throw]

/-- non-vacuity: the generated functions distinguish the cases. -/
example : Generated.isdtime (.sys (.disc (1/10))) true .none = .ok true := by decide +kernel
example : Generated.isdtime (.sys .none) true .none = .ok false := by decide +kernel
example : Generated.isctime .none (.disc (1/10)) false = .ok false := by decide +kernel
example : Generated.isdtime (.sys .cont) false .cont = .error .badArg := by decide +kernel
example : Generated.timebase (.sys .dtrue) true = .ok (.disc 1) := by decide +kernel

/-! ### what the predicates mean -/

/-- `strict` only changes the answer for an unspecified timebase. -/
theorem strict_only_matters_for_none {d : Dt} (h : d ≠ .none) (s t : Bool) :
    isdtime s d = isdtime t d ∧ isctime s d = isctime t d := by
  cases d <;> simp_all [isdtime, isctime]

/-- an unspecified timebase is both discrete and continuous when not strict, neither when
strict. -/
theorem none_timebase (strict : Bool) :
    isdtime strict .none = !strict ∧ isctime strict .none = !strict := ⟨rfl, rfl⟩

/-- strictly discrete = `True` or a positive sampling time. -/
theorem isdtime_strict_iff (d : Dt) :
    isdtime true d = true ↔ d = .dtrue ∨ ∃ h : Rat, 0 < h ∧ d = .disc h := by
  cases d <;> simp [isdtime]

/-- strictly continuous = timebase `0` (the value `disc 0` is not a valid timebase of the model:
`dt = 0` is `cont`). -/
theorem isctime_strict_iff {d : Dt} (hv : d.valid) : isctime true d = true ↔ d = .cont := by
  cases d with
  | disc h => have : h ≠ 0 := ne_of_gt hv; simp [isctime, this]
  | _ => simp [isctime]

/-- no timebase is strictly continuous and strictly discrete. -/
theorem strict_exclusive (d : Dt) : ¬ (isctime true d = true ∧ isdtime true d = true) := by
  cases d with
  | disc h => simp only [isctime, isdtime, decide_eq_true_eq]; rintro ⟨rfl, h0⟩; exact lt_irrefl _ h0
  | _ => simp [isctime, isdtime]

/-- a specified (valid) timebase is exactly one of continuous / discrete, whatever `strict`. -/
theorem specified_partition {d : Dt} (hv : d.valid) (h : d ≠ .none) (s t : Bool) :
    isctime s d = !isdtime t d := by
  cases d with
  | disc q =>
    have hq : 0 < q := hv
    have : q ≠ 0 := ne_of_gt hq
    simp [isctime, isdtime, hq, this]
  | none => exact absurd rfl h
  | _ => simp [isctime, isdtime]

example : isctime false (.disc (1/10)) = !isdtime true (.disc (1/10)) :=
  specified_partition (by decide +kernel) (by simp) _ _

/-- not strict: every valid timebase is continuous or discrete (an unspecified one is both). -/
theorem nonstrict_cover {d : Dt} (hv : d.valid) : isctime false d = true ∨ isdtime false d = true := by
  cases d with
  | disc q => right; have hq : 0 < q := hv; simp [isdtime, hq]
  | _ => simp [isctime, isdtime]

/-- strict implies not strict. -/
theorem strict_imp (d : Dt) :
    (isdtime true d = true → isdtime false d = true) ∧ (isctime true d = true → isctime false d = true) := by
  cases d <;> simp [isdtime, isctime]

/-- the common timebase (the join of C05) of two discrete-time (resp. continuous-time) operands
is discrete-time (resp. continuous-time), in the non-strict sense. -/
theorem join_preserves {a b c : Dt} (h : join a b = some c) :
    (isdtime false a = true → isdtime false b = true → isdtime false c = true) ∧
    (isctime false a = true → isctime false b = true → isctime false c = true) := by
  cases a <;> cases b <;> simp [join] at h <;> (try (obtain ⟨rfl, rfl⟩ := h)) <;>
    simp_all [isdtime, isctime]

example : join .dtrue (.disc (1/10)) = some (.disc (1/10)) := by decide +kernel

/-- a strictly continuous and a strictly discrete operand have no common timebase. -/
theorem join_ctime_dtime {a b : Dt} (ha : a.valid) (hc : isctime true a = true)
    (hd : isdtime true b = true) : join a b = Option.none ∧ join b a = Option.none := by
  rw [isctime_strict_iff ha] at hc
  subst hc
  cases b <;> simp_all [join, isdtime]

example : isctime true .cont = true ∧ isdtime true (.disc (1/10)) = true := by decide +kernel

/-- `timebase(sys)` (strict, the default) never returns `True`: it is `None`, `0` or a number. -/
theorem timebase_strict_not_true (sys : SysArg) : timebaseFn sys true ≠ .ok .dtrue := by
  rcases sys with _ | _ | d | _ <;> (try cases d) <;> simp [timebaseFn]

/-- `timebase(sys, strict=False)` is the system's timebase unchanged. -/
theorem timebase_nonstrict (d : Dt) : timebaseFn (.sys d) false = .ok d := by
  cases d <;> simp [timebaseFn]

/-- the module-level predicates on a system are the methods; on a bare timebase they apply the
same rule to the timebase. -/
theorem fn_on_system (d : Dt) (strict : Bool) :
    isdtimeFn (.sys d) strict .none = .ok (isdtime strict d) ∧
    isctimeFn (.sys d) .none strict = .ok (isctime strict d) ∧
    isdtimeFn .none strict d = .ok (isdtime strict d) ∧
    isctimeFn .none d strict = .ok (isctime strict d) := ⟨rfl, rfl, rfl, rfl⟩

/-- passing a system together with a timebase is rejected (TypeError). -/
theorem fn_both_rejected (d e : Dt) (he : e ≠ .none) (strict : Bool) :
    isdtimeFn (.sys d) strict e = .error .badArg ∧ isctimeFn (.sys d) e strict = .error .badArg := by
  cases e <;> simp_all [isdtimeFn, isctimeFn, dispatch]

end CtrlVerif.C05Pred
