/-
C01 — Transfer-function arithmetic is exact rational-matrix arithmetic.

Property theorems only (helper lemmas live in `Lemmas/`).  `K` is an arbitrary field, the
shapes are arbitrary finite index types, `⟦G⟧ = G.sem : Matrix o ι (RatFunc K)`.
Every theorem has the form: for well-formed operands (class invariant `WF`: no denominator
is the zero polynomial, which the constructor enforces) the operator *returns* a system,
that system is well-formed, and its semantics is the stated rational-matrix expression;
where the mathematical result does not exist the operator returns an error.
-/
import CtrlVerif.Lemmas.TF

namespace CtrlVerif.C01

open CtrlVerif Polynomial Matrix

variable {K : Type*} [Field K] [DecidableEq K]
variable {o ι o₂ ι₂ : Type*} [Fintype o] [Fintype ι] [Fintype o₂] [Fintype ι₂]

/-- the constructor rejects a zero denominator and otherwise does not change the meaning. -/
theorem ctor_zero_den_raises (raw : o → ι → Frac K) (h : ∃ i j, toPoly (raw i j).den = 0) :
    TFM.mk' raw = .error .zeroDen := by
  apply TFM.mk'_err
  obtain ⟨i, j, hij⟩ := h
  exact ⟨i, j, fun hwf => hwf hij⟩

theorem ctor_sem (raw : o → ι → Frac K) (h : ∀ i j, toPoly (raw i j).den ≠ 0) :
    ∃ R, TFM.mk' raw = .ok R ∧ R.WF ∧ R.sem = Matrix.of fun i j => (raw i j).sem :=
  TFM.mk'_spec raw h

/-- `G + H` -/
theorem sem_add (G H : TFM o ι K) (hG : G.WF) (hH : H.WF) :
    ∃ R, G.add H = .ok R ∧ R.WF ∧ R.sem = G.sem + H.sem := by
  obtain ⟨R, h1, h2, h3⟩ := TFM.mk'_spec (fun i j => addSiso (G.e i j) (H.e i j))
    (fun i j => wf_addSiso _ _ (hG i j) (hH i j))
  refine ⟨R, h1, h2, ?_⟩
  rw [h3]; ext i j
  simp [TFM.sem, sem_addSiso _ _ (hG i j) (hH i j)]

/-- `-G` -/
theorem sem_neg (G : TFM o ι K) (hG : G.WF) :
    ∃ R, G.neg = .ok R ∧ R.WF ∧ R.sem = - G.sem := by
  obtain ⟨R, h1, h2, h3⟩ := TFM.mk'_spec (fun i j => (G.e i j).neg)
    (fun i j => Frac.wf_neg _ (hG i j))
  refine ⟨R, h1, h2, ?_⟩
  rw [h3]; ext i j
  simp [TFM.sem, Frac.sem_neg]

/-- `G - H` -/
theorem sem_sub (G H : TFM o ι K) (hG : G.WF) (hH : H.WF) :
    ∃ R, G.sub H = .ok R ∧ R.WF ∧ R.sem = G.sem - H.sem := by
  obtain ⟨N, hn1, hn2, hn3⟩ := sem_neg H hH
  obtain ⟨R, h1, h2, h3⟩ := sem_add G N hG hn2
  refine ⟨R, ?_, h2, ?_⟩
  · simp [TFM.sub, hn1, h1, bind, Except.bind]
  · rw [h3, hn3, sub_eq_add_neg]

/-- `G * H` is the matrix product (the accumulate loop over the inner index). -/
theorem sem_mul {n : Nat} (G : TFM o (Fin n) K) (H : TFM (Fin n) ι K) (hG : G.WF) (hH : H.WF) :
    ∃ R, G.mul H = .ok R ∧ R.WF ∧ R.sem = G.sem * H.sem := by
  have hs := fun i j => mulEntry_spec (fun k => G.e i k) (fun k => H.e k j)
    (fun k => hG i k) (fun k => hH k j)
  obtain ⟨R, h1, h2, h3⟩ := TFM.mk'_spec
    (fun i j => mulEntry (fun k => G.e i k) (fun k => H.e k j)) (fun i j => (hs i j).1)
  refine ⟨R, h1, h2, ?_⟩
  rw [h3]; ext i j
  simp [TFM.sem, (hs i j).2, Matrix.mul_apply]

/-- a constant array acts as the constant rational matrix. -/
theorem sem_ofConst (D : o → ι → K) :
    (TFM.ofConst D).WF ∧ (TFM.ofConst D).sem = Matrix.of fun i j => RatFunc.C (D i j) := by
  constructor
  · intro i j; exact Frac.wf_norm _ (Frac.wf_const _)
  · ext i j; simp [TFM.sem, TFM.ofConst, Frac.sem_norm]

/-- `append`: block diagonal. -/
theorem sem_append (G : TFM o ι K) (H : TFM o₂ ι₂ K) (hG : G.WF) (hH : H.WF) :
    (G.append H).WF ∧ (G.append H).sem = Matrix.fromBlocks G.sem 0 0 H.sem := by
  constructor
  · rintro (i | i) (j | j)
    · exact hG i j
    · exact Frac.wf_zero
    · exact Frac.wf_zero
    · exact hH i j
  · ext (i | i) (j | j) <;> simp [TFM.sem, TFM.append]

/-- SISO broadcast used by `*`: `n` copies on the diagonal is `g • 1`. -/
theorem sem_diag (g : Frac K) (hg : g.WF) (n : Nat) :
    (TFM.diag g n).WF ∧ (TFM.diag g n).sem = g.sem • (1 : Matrix (Fin n) (Fin n) (RatFunc K)) := by
  constructor
  · intro i j; simp only [TFM.diag]; split <;> simp [hg, Frac.wf_zero]
  · ext i j
    simp only [TFM.sem, TFM.diag, Matrix.of_apply, Matrix.smul_apply, Matrix.one_apply, smul_eq_mul]
    split <;> simp

/-- SISO division `G / H`: defined exactly when `H` is not the zero function. -/
theorem sem_truediv (G H : TFM (Fin 1) (Fin 1) K) (hG : G.WF) (hH : H.WF)
    (hne : H.sem 0 0 ≠ 0) :
    ∃ R, G.truedivSiso H = .ok R ∧ R.WF ∧ R.sem 0 0 = G.sem 0 0 / H.sem 0 0 := by
  have hnum : toPoly (H.e 0 0).num ≠ 0 := by
    intro h; exact hne ((sem_eq_zero_iff _ (hH 0 0)).mpr h)
  obtain ⟨R, h1, h2, h3⟩ := TFM.mk'_spec
    (fun (_ _ : Fin 1) => divSiso (G.e 0 0) (H.e 0 0))
    (fun _ _ => (wf_divSiso_iff _ _ (hG 0 0)).mpr hnum)
  refine ⟨R, h1, h2, ?_⟩
  rw [h3]; simp [TFM.sem, sem_divSiso]

/-- division by the zero function raises. -/
theorem truediv_zero_raises (G H : TFM (Fin 1) (Fin 1) K) (hG : G.WF) (hH : H.WF)
    (hz : H.sem 0 0 = 0) : G.truedivSiso H = .error .zeroDen := by
  apply TFM.mk'_err
  refine ⟨0, 0, ?_⟩
  rw [wf_divSiso_iff _ _ (hG 0 0), not_not]
  exact (sem_eq_zero_iff _ (hH 0 0)).mp hz

/-- SISO feedback: `G / (1 - sign * H * G)` whenever `1 - sign * H * G` is not identically zero. -/
theorem sem_feedback (G H : TFM (Fin 1) (Fin 1) K) (sign : K) (hG : G.WF) (hH : H.WF)
    (hne : 1 - RatFunc.C sign * H.sem 0 0 * G.sem 0 0 ≠ 0) :
    ∃ R, G.feedbackSiso H sign = .ok R ∧ R.WF ∧
      R.sem 0 0 = G.sem 0 0 / (1 - RatFunc.C sign * H.sem 0 0 * G.sem 0 0) := by
  have hwf : (fbSiso (G.e 0 0) (H.e 0 0) sign).WF := by
    by_contra hc
    exact hne ((fbSiso_not_wf_iff _ _ sign (hG 0 0) (hH 0 0)).mp hc)
  obtain ⟨R, h1, h2, h3⟩ := TFM.mk'_spec
    (fun (_ _ : Fin 1) => fbSiso (G.e 0 0) (H.e 0 0) sign) (fun _ _ => hwf)
  refine ⟨R, h1, h2, ?_⟩
  rw [h3]
  simp only [TFM.sem, Matrix.of_apply]
  exact sem_fbSiso _ _ sign (hG 0 0) (hH 0 0) hwf

/-- `1 - sign * H * G ≡ 0` raises. -/
theorem feedback_singular_raises (G H : TFM (Fin 1) (Fin 1) K) (sign : K) (hG : G.WF)
    (hH : H.WF) (hz : 1 - RatFunc.C sign * H.sem 0 0 * G.sem 0 0 = 0) :
    G.feedbackSiso H sign = .error .zeroDen := by
  apply TFM.mk'_err
  exact ⟨0, 0, (fbSiso_not_wf_iff _ _ sign (hG 0 0) (hH 0 0)).mpr hz⟩

/-- indexing, `split_tf` and the re-assembly of `combine_tf` are sub-matrix selections. -/
theorem sem_reindex {o' ι' : Type*} [Fintype o'] [Fintype ι'] (G : TFM o ι K) (hG : G.WF)
    (r : o' → o) (c : ι' → ι) :
    ∃ R, G.reindex r c = .ok R ∧ R.WF ∧ R.sem = G.sem.submatrix r c := by
  obtain ⟨R, h1, h2, h3⟩ := TFM.mk'_spec (fun i j => G.e (r i) (c j)) (fun i j => hG _ _)
  exact ⟨R, h1, h2, by rw [h3]; ext i j; simp [TFM.sem]⟩

/-! non-vacuity: concrete well-formed operands over `ℚ` -/

example : (TFM.siso (⟨[1, 2], [1, 0, 3]⟩ : Frac ℚ)).WF := by
  intro i j; simp [TFM.siso, Frac.WF, toPoly_cons]
  intro h
  have := congrArg (Polynomial.eval 0) h
  simp at this

end CtrlVerif.C01
