/-
C01 — Transfer-function arithmetic is exact rational-matrix arithmetic.

Property theorems only (helper lemmas live in `Lemmas/`).  `K` is an arbitrary field, the
shapes are arbitrary finite index types, `⟦G⟧ = G.sem : Matrix o ι (RatFunc K)`.
Every theorem has the form: for well-formed operands (class invariant `WF`: no denominator
is the zero polynomial, which the constructor enforces) the operator *returns* a system,
that system is well-formed, and its semantics is the stated rational-matrix expression;
where the mathematical result does not exist the operator returns an error.
-/
import CtrlVerif.Lemmas.TF
import CtrlVerif.Model.C01Expr
import CtrlVerif.Lemmas.C01Expr
import CtrlVerif.Model.TFDyn
import Mathlib.LinearAlgebra.Matrix.NonsingularInverse
import Mathlib.LinearAlgebra.Matrix.ZPow

namespace CtrlVerif.C01

open CtrlVerif Polynomial Matrix

variable {K : Type*} [Field K] [DecidableEq K]
variable {o ι o₂ ι₂ : Type*} [Fintype o] [Fintype ι] [Fintype o₂] [Fintype ι₂]

/-- the constructor rejects a zero denominator and otherwise does not change the meaning. -/
theorem ctor_zero_den_raises (raw : o → ι → Frac K) (h : ∃ i j, toPoly (raw i j).den = 0) :
    TFM.mk' raw = .error .zeroDen := by
  apply TFM.mk'_err
  obtain ⟨i, j, hij⟩ := h
  exact ⟨i, j, fun hwf => hwf hij⟩

theorem ctor_sem (raw : o → ι → Frac K) (h : ∀ i j, toPoly (raw i j).den ≠ 0) :
    ∃ R, TFM.mk' raw = .ok R ∧ R.WF ∧ R.sem = Matrix.of fun i j => (raw i j).sem :=
  TFM.mk'_spec raw h

/-- `G + H` -/
theorem sem_add (G H : TFM o ι K) (hG : G.WF) (hH : H.WF) :
    ∃ R, G.add H = .ok R ∧ R.WF ∧ R.sem = G.sem + H.sem := by
  obtain ⟨R, h1, h2, h3⟩ := TFM.mk'_spec (fun i j => addSiso (G.e i j) (H.e i j))
    (fun i j => wf_addSiso _ _ (hG i j) (hH i j))
  refine ⟨R, h1, h2, ?_⟩
  rw [h3]; ext i j
  simp [TFM.sem, sem_addSiso _ _ (hG i j) (hH i j)]

/-- `-G` -/
theorem sem_neg (G : TFM o ι K) (hG : G.WF) :
    ∃ R, G.neg = .ok R ∧ R.WF ∧ R.sem = - G.sem := by
  obtain ⟨R, h1, h2, h3⟩ := TFM.mk'_spec (fun i j => (G.e i j).neg)
    (fun i j => Frac.wf_neg _ (hG i j))
  refine ⟨R, h1, h2, ?_⟩
  rw [h3]; ext i j
  simp [TFM.sem, Frac.sem_neg]

/-- `G - H` -/
theorem sem_sub (G H : TFM o ι K) (hG : G.WF) (hH : H.WF) :
    ∃ R, G.sub H = .ok R ∧ R.WF ∧ R.sem = G.sem - H.sem := by
  obtain ⟨N, hn1, hn2, hn3⟩ := sem_neg H hH
  obtain ⟨R, h1, h2, h3⟩ := sem_add G N hG hn2
  refine ⟨R, ?_, h2, ?_⟩
  · simp [TFM.sub, hn1, h1, bind, Except.bind]
  · rw [h3, hn3, sub_eq_add_neg]

/-- `G * H` is the matrix product (the accumulate loop over the inner index). -/
theorem sem_mul {n : Nat} (G : TFM o (Fin n) K) (H : TFM (Fin n) ι K) (hG : G.WF) (hH : H.WF) :
    ∃ R, G.mul H = .ok R ∧ R.WF ∧ R.sem = G.sem * H.sem := by
  have hs := fun i j => mulEntry_spec (fun k => G.e i k) (fun k => H.e k j)
    (fun k => hG i k) (fun k => hH k j)
  obtain ⟨R, h1, h2, h3⟩ := TFM.mk'_spec
    (fun i j => mulEntry (fun k => G.e i k) (fun k => H.e k j)) (fun i j => (hs i j).1)
  refine ⟨R, h1, h2, ?_⟩
  rw [h3]; ext i j
  simp [TFM.sem, (hs i j).2, Matrix.mul_apply]

omit [Fintype o] [Fintype ι] in
/-- a constant array acts as the constant rational matrix. -/
theorem sem_ofConst (D : o → ι → K) :
    (TFM.ofConst D).WF ∧ (TFM.ofConst D).sem = Matrix.of fun i j => RatFunc.C (D i j) := by
  constructor
  · intro i j; exact Frac.wf_norm _ (Frac.wf_const _)
  · ext i j; simp [TFM.sem, TFM.ofConst, Frac.sem_norm]

omit [Fintype o] [Fintype ι] [Fintype o₂] [Fintype ι₂] in
/-- `append`: block diagonal. -/
theorem sem_append (G : TFM o ι K) (H : TFM o₂ ι₂ K) (hG : G.WF) (hH : H.WF) :
    (G.append H).WF ∧ (G.append H).sem = Matrix.fromBlocks G.sem 0 0 H.sem := by
  constructor
  · rintro (i | i) (j | j)
    · exact hG i j
    · exact Frac.wf_zero
    · exact Frac.wf_zero
    · exact hH i j
  · ext (i | i) (j | j) <;> simp [TFM.sem, TFM.append]

/-- SISO broadcast used by `*`: `n` copies on the diagonal is `g • 1`. -/
theorem sem_diag (g : Frac K) (hg : g.WF) (n : Nat) :
    (TFM.diag g n).WF ∧ (TFM.diag g n).sem = g.sem • (1 : Matrix (Fin n) (Fin n) (RatFunc K)) := by
  constructor
  · intro i j; simp only [TFM.diag]; split <;> simp [hg, Frac.wf_zero]
  · ext i j
    simp only [TFM.sem, TFM.diag, Matrix.of_apply, Matrix.smul_apply, Matrix.one_apply, smul_eq_mul]
    split <;> simp

/-- SISO division `G / H`: defined exactly when `H` is not the zero function. -/
theorem sem_truediv (G H : TFM (Fin 1) (Fin 1) K) (hG : G.WF) (hH : H.WF)
    (hne : H.sem 0 0 ≠ 0) :
    ∃ R, G.truedivSiso H = .ok R ∧ R.WF ∧ R.sem 0 0 = G.sem 0 0 / H.sem 0 0 := by
  have hnum : toPoly (H.e 0 0).num ≠ 0 := by
    intro h; exact hne ((sem_eq_zero_iff _ (hH 0 0)).mpr h)
  obtain ⟨R, h1, h2, h3⟩ := TFM.mk'_spec
    (fun (_ _ : Fin 1) => divSiso (G.e 0 0) (H.e 0 0))
    (fun _ _ => (wf_divSiso_iff _ _ (hG 0 0)).mpr hnum)
  refine ⟨R, h1, h2, ?_⟩
  rw [h3]; simp [TFM.sem, sem_divSiso]

/-- division by the zero function raises. -/
theorem truediv_zero_raises (G H : TFM (Fin 1) (Fin 1) K) (hG : G.WF) (hH : H.WF)
    (hz : H.sem 0 0 = 0) : G.truedivSiso H = .error .zeroDen := by
  apply TFM.mk'_err
  refine ⟨0, 0, ?_⟩
  rw [wf_divSiso_iff _ _ (hG 0 0), not_not]
  exact (sem_eq_zero_iff _ (hH 0 0)).mp hz

/-- SISO feedback: `G / (1 - sign * H * G)` whenever `1 - sign * H * G` is not identically zero. -/
theorem sem_feedback (G H : TFM (Fin 1) (Fin 1) K) (sign : K) (hG : G.WF) (hH : H.WF)
    (hne : 1 - RatFunc.C sign * H.sem 0 0 * G.sem 0 0 ≠ 0) :
    ∃ R, G.feedbackSiso H sign = .ok R ∧ R.WF ∧
      R.sem 0 0 = G.sem 0 0 / (1 - RatFunc.C sign * H.sem 0 0 * G.sem 0 0) := by
  have hwf : (fbSiso (G.e 0 0) (H.e 0 0) sign).WF := by
    by_contra hc
    exact hne ((fbSiso_not_wf_iff _ _ sign (hG 0 0) (hH 0 0)).mp hc)
  obtain ⟨R, h1, h2, h3⟩ := TFM.mk'_spec
    (fun (_ _ : Fin 1) => fbSiso (G.e 0 0) (H.e 0 0) sign) (fun _ _ => hwf)
  refine ⟨R, h1, h2, ?_⟩
  rw [h3]
  simp only [TFM.sem, Matrix.of_apply]
  exact sem_fbSiso _ _ sign (hG 0 0) (hH 0 0) hwf

/-- `1 - sign * H * G ≡ 0` raises. -/
theorem feedback_singular_raises (G H : TFM (Fin 1) (Fin 1) K) (sign : K) (hG : G.WF)
    (hH : H.WF) (hz : 1 - RatFunc.C sign * H.sem 0 0 * G.sem 0 0 = 0) :
    G.feedbackSiso H sign = .error .zeroDen := by
  apply TFM.mk'_err
  exact ⟨0, 0, (fbSiso_not_wf_iff _ _ sign (hG 0 0) (hH 0 0)).mpr hz⟩

omit [Fintype o] [Fintype ι] in
/-- indexing, `split_tf` and the re-assembly of `combine_tf` are sub-matrix selections. -/
theorem sem_reindex {o' ι' : Type*} [Fintype o'] [Fintype ι'] (G : TFM o ι K) (hG : G.WF)
    (r : o' → o) (c : ι' → ι) :
    ∃ R, G.reindex r c = .ok R ∧ R.WF ∧ R.sem = G.sem.submatrix r c := by
  obtain ⟨R, h1, h2, h3⟩ := TFM.mk'_spec (fun i j => G.e (r i) (c j)) (fun i j => hG _ _)
  exact ⟨R, h1, h2, by rw [h3]; ext i j; simp [TFM.sem]⟩

/-! non-vacuity: concrete well-formed operands over `ℚ` -/

example : (TFM.siso (⟨[1, 2], [1, 0, 3]⟩ : Frac ℚ)).WF := by
  intro i j; simp [TFM.siso, Frac.WF, toPoly_cons]
  intro h
  have := congrArg (Polynomial.eval 0) h
  simp at this

/-! ## The tree theorem (DESIGN §3.5)

`TExpr K o ι` (`Model/C01Expr.lean`) is the type of finite expression trees over well-formed
transfer matrices, constructor calls, constant matrices (scalars are constant matrices) and the
operators `neg + - * diag(SISO broadcast) **(k+1) / feedback append hcat vcat reindex`, indexed
by the output / input index types so that the inner dimension of `*` and the block shapes match
by typing.  `evalModel` interprets a tree by the model operators above, `evalSem` in
`Matrix o ι (RatFunc K)` (`none` where the mathematical result does not exist).

* `tree_spec` (the induction): either the model returns a well-formed system whose meaning is
  the value of `evalSem`, or the model raises `zeroDen` and `evalSem` is undefined;
* `tree_sound`, `tree_error`, `tree_error_kind`, `tree_complete`, `tree_returns_iff`: corollaries;
* `evalSem_*`: the operand conversions / promotions the code performs (scalar on either side,
  SISO broadcast in `*`, `+`, `/`, negative powers, flattened `append`) are trees, and their
  meaning is the documented one.

Scope: the typed layer.  Shape errors, `notImplemented` dispatch outcomes and the timebase are
decided by the run-time layer `Model/TFDyn.lean` before the typed operators are called; they are
excluded here by typing (hence "only `zeroDen` errors arise", `tree_error_kind`).

Not proved (full statement of DESIGN §7/C01 over the *run-time shaped* layer): for trees over
`DTF` / `Operand` leaves with the dispatching operators `DTF.add … DTF.feedback`,
`evalDyn e = .ok G → G.sys.WF ∧ ⟦G.sys⟧ = evalSem e` and `evalDyn e = .error err ↔` (`err = shape`
and some shapes are incompatible) ∨ (`err = notImplemented` and a MIMO divisor / MIMO feedback
occurs) ∨ (`err = timebase` …) ∨ (`err = zeroDen` and the value does not exist).  What is missing
is the `Fin.cast` glue between `DTF` (shapes as run-time numbers, the SISO tests `isSiso`) and the
typed operators; that dispatch is exercised by the correspondence runs. -/

end CtrlVerif.C01

namespace CtrlVerif.C01

open CtrlVerif Polynomial Matrix

section treeops
variable {K : Type*} [Field K] [DecidableEq K]
variable {o ι o₂ ι₂ : Type*} [Fintype o] [Fintype ι] [Fintype o₂] [Fintype ι₂]

/-- `[G H]` -/
theorem sem_hcat (G : TFM o ι K) (H : TFM o ι₂ K) (hG : G.WF) (hH : H.WF) :
    ∃ R, G.hcat H = .ok R ∧ R.WF ∧ R.sem = Matrix.fromCols G.sem H.sem := by
  obtain ⟨R, h1, h2, h3⟩ := TFM.mk'_spec
    (fun (i : o) (j : ι ⊕ ι₂) => match j with
      | .inl j => G.e i j
      | .inr j => H.e i j)
    (by rintro i (j | j); exact hG i j; exact hH i j)
  refine ⟨R, h1, h2, ?_⟩
  rw [h3]; ext i (j | j) <;> simp [TFM.sem]

theorem sem_vcat (G : TFM o ι K) (H : TFM o₂ ι K) (hG : G.WF) (hH : H.WF) :
    ∃ R, G.vcat H = .ok R ∧ R.WF ∧ R.sem = Matrix.fromRows G.sem H.sem := by
  obtain ⟨R, h1, h2, h3⟩ := TFM.mk'_spec
    (fun (i : o ⊕ o₂) (j : ι) => match i with
      | .inl i => G.e i j
      | .inr i => H.e i j)
    (by rintro (i | i) j; exact hG i j; exact hH i j)
  refine ⟨R, h1, h2, ?_⟩
  rw [h3]; ext (i | i) j <;> simp [TFM.sem]

/-- `G ** (k + 1)` for a square `G`, by the recursion of `__pow__`. -/
theorem sem_powSucc {n : Nat} (G : TFM (Fin n) (Fin n) K) (hG : G.WF) (k : Nat) :
    ∃ R, G.powSucc k = .ok R ∧ R.WF ∧ R.sem = G.sem ^ (k + 1) := by
  induction k with
  | zero =>
    obtain ⟨hd1, hd2⟩ := sem_diag (Frac.one : Frac K) Frac.wf_one n
    obtain ⟨R, h1, h2, h3⟩ := sem_mul G (TFM.diag Frac.one n) hG hd1
    refine ⟨R, h1, h2, ?_⟩
    rw [h3, hd2]; simp
  | succ k ih =>
    obtain ⟨P, p1, p2, p3⟩ := ih
    obtain ⟨R, h1, h2, h3⟩ := sem_mul G P hG p2
    refine ⟨R, ?_, h2, ?_⟩
    · simp [TFM.powSucc, p1, h1, bind, Except.bind]
    · rw [h3, p3, ← pow_succ']

end treeops

section tree
variable {K : Type} [Field K] [DecidableEq K]

theorem tree_spec {o ι : Type} (e : TExpr K o ι) : TSpec e.evalModel e.evalSem := by
  induction e with
  | sys G hG => exact TSpec.ok hG
  | ctor raw =>
    simp only [TExpr.evalModel, TExpr.evalSem]
    by_cases h : ∃ i j, toPoly (raw i j).den = 0
    · rw [if_pos h]; exact Or.inr ⟨ctor_zero_den_raises raw h, rfl⟩
    · rw [if_neg h]
      exact TSpec.of_total (ctor_sem raw (fun i j hz => h ⟨i, j, hz⟩))
  | const D =>
    simp only [TExpr.evalModel, TExpr.evalSem]
    exact Or.inl ⟨_, rfl, (sem_ofConst D).1, by rw [(sem_ofConst D).2]⟩
  | neg a ih =>
    simp only [TExpr.evalModel, TExpr.evalSem]
    exact ih.bind1 sem_neg
  | add a b iha ihb =>
    simp only [TExpr.evalModel, TExpr.evalSem]
    exact iha.bind2 ihb sem_add
  | sub a b iha ihb =>
    simp only [TExpr.evalModel, TExpr.evalSem]
    exact iha.bind2 ihb sem_sub
  | mul a b iha ihb =>
    simp only [TExpr.evalModel, TExpr.evalSem]
    exact iha.bind2 ihb sem_mul
  | diag n g ih =>
    simp only [TExpr.evalModel, TExpr.evalSem]
    exact ih.bind1 fun x hx =>
      ⟨_, rfl, (sem_diag (x.e 0 0) (hx 0 0) n).1, (sem_diag (x.e 0 0) (hx 0 0) n).2⟩
  | powSucc a k ih =>
    simp only [TExpr.evalModel, TExpr.evalSem]
    exact ih.bind1 fun x hx => sem_powSucc x hx k
  | div a b iha ihb =>
    simp only [TExpr.evalModel, TExpr.evalSem]
    refine iha.bind2_cond ihb (c := fun _ y => y 0 0 = 0)
      (g := fun x y => Matrix.of fun _ _ => x 0 0 / y 0 0) ?_ ?_
    · intro x y hx hy hc
      obtain ⟨R, h1, h2, h3⟩ := sem_truediv x y hx hy hc
      refine ⟨R, h1, h2, ?_⟩
      ext i j
      rw [Subsingleton.elim i 0, Subsingleton.elim j 0, h3]; rfl
    · intro x y hx hy hc
      exact truediv_zero_raises x y hx hy hc
  | fb a b s iha ihb =>
    simp only [TExpr.evalModel, TExpr.evalSem]
    refine iha.bind2_cond ihb (c := fun x y => 1 - RatFunc.C s * y 0 0 * x 0 0 = 0)
      (g := fun x y => Matrix.of fun _ _ => x 0 0 / (1 - RatFunc.C s * y 0 0 * x 0 0)) ?_ ?_
    · intro x y hx hy hc
      obtain ⟨R, h1, h2, h3⟩ := sem_feedback x y s hx hy hc
      refine ⟨R, h1, h2, ?_⟩
      ext i j
      rw [Subsingleton.elim i 0, Subsingleton.elim j 0, h3]; rfl
    · intro x y hx hy hc
      exact feedback_singular_raises x y s hx hy hc
  | append a b iha ihb =>
    simp only [TExpr.evalModel, TExpr.evalSem]
    exact iha.bind2 ihb fun x y hx hy =>
      ⟨_, rfl, (sem_append x y hx hy).1, (sem_append x y hx hy).2⟩
  | hcat a b iha ihb =>
    simp only [TExpr.evalModel, TExpr.evalSem]
    exact iha.bind2 ihb sem_hcat
  | vcat a b iha ihb =>
    simp only [TExpr.evalModel, TExpr.evalSem]
    exact iha.bind2 ihb sem_vcat
  | reindex a r c ih =>
    simp only [TExpr.evalModel, TExpr.evalSem]
    exact ih.bind1 fun x hx => sem_reindex x hx r c

end tree
section treethms
variable {K : Type} [Field K] [DecidableEq K] {o ι : Type}

theorem tree_sound (e : TExpr K o ι) (G : TFM o ι K) (h : e.evalModel = .ok G) :
    G.WF ∧ e.evalSem = some G.sem := by
  rcases tree_spec e with ⟨G', h1, h2, h3⟩ | ⟨h1, _⟩
  · rw [h1] at h; cases h; exact ⟨h2, h3⟩
  · rw [h1] at h; cases h

theorem tree_error (e : TExpr K o ι) :
    (∃ err, e.evalModel = .error err) ↔ e.evalSem = none := by
  rcases tree_spec e with ⟨G', h1, h2, h3⟩ | ⟨h1, h2⟩
  · rw [h1, h3]; simp
  · rw [h1, h2]; simp

theorem tree_error_kind (e : TExpr K o ι) (err : Err) (h : e.evalModel = .error err) :
    err = .zeroDen := by
  rcases tree_spec e with ⟨G', h1, h2, h3⟩ | ⟨h1, _⟩
  · rw [h1] at h; cases h
  · rw [h1] at h; cases h; rfl

theorem tree_complete (e : TExpr K o ι) (M : Matrix o ι (RatFunc K)) (h : e.evalSem = some M) :
    ∃ G, e.evalModel = .ok G ∧ G.WF ∧ G.sem = M := by
  rcases tree_spec e with ⟨G', h1, h2, h3⟩ | ⟨_, h2⟩
  · rw [h3] at h; cases h; exact ⟨G', h1, h2, rfl⟩
  · rw [h2] at h; cases h

theorem tree_returns_iff (e : TExpr K o ι) :
    (∃ G, e.evalModel = .ok G) ↔ e.evalSem.isSome = true := by
  rcases tree_spec e with ⟨G', h1, h2, h3⟩ | ⟨h1, h2⟩
  · rw [h1, h3]; simp
  · rw [h1, h2]; simp

end treethms

section derived
variable {K : Type} [Field K] [DecidableEq K]
open TExpr

theorem evalSem_scaledEye (c : K) (n : Nat) :
    (scaledEye c n).evalSem = some (RatFunc.C c • (1 : Matrix (Fin n) (Fin n) (RatFunc K))) := by
  simp only [scaledEye, evalSem]
  congr 1
  ext i j
  by_cases h : i = j <;> simp [h]

theorem evalSem_smulL {n : Nat} {ι : Type} [Fintype ι] (c : K) (a : TExpr K (Fin n) ι) :
    (smulL c a).evalSem = a.evalSem.map fun x => RatFunc.C c • x := by
  simp only [smulL, evalSem, evalSem_scaledEye]
  cases a.evalSem <;> simp

theorem evalSem_smulR {o : Type} [Fintype o] {n : Nat} (a : TExpr K o (Fin n)) (c : K) :
    (smulR a c).evalSem = a.evalSem.map fun x => RatFunc.C c • x := by
  simp only [smulR, evalSem, evalSem_scaledEye]
  cases a.evalSem <;> simp

theorem evalSem_addScalar {o ι : Type} [Fintype o] [Fintype ι] (a : TExpr K o ι) (c : K) :
    (addScalar a c).evalSem = a.evalSem.map fun x => x + Matrix.of fun _ _ => RatFunc.C c := by
  simp only [addScalar, full, evalSem]
  cases a.evalSem <;> simp

theorem evalSem_mulSisoL {n : Nat} {ι : Type} [Fintype ι] (g : TExpr K (Fin 1) (Fin 1))
    (a : TExpr K (Fin n) ι) :
    (mulSisoL g a).evalSem = (do let h ← g.evalSem; let x ← a.evalSem; pure (h 0 0 • x)) := by
  simp only [mulSisoL, evalSem]
  cases g.evalSem <;> cases a.evalSem <;> simp

theorem evalSem_mulSisoR {o : Type} [Fintype o] {n : Nat} (a : TExpr K o (Fin n))
    (g : TExpr K (Fin 1) (Fin 1)) :
    (mulSisoR a g).evalSem = (do let x ← a.evalSem; let h ← g.evalSem; pure (h 0 0 • x)) := by
  simp only [mulSisoR, evalSem]
  cases g.evalSem <;> cases a.evalSem <;> simp

theorem evalSem_addSisoR {p m : Nat} (a : TExpr K (Fin p) (Fin m)) (g : TExpr K (Fin 1) (Fin 1)) :
    (addSisoR a g).evalSem
      = (do let x ← a.evalSem; let h ← g.evalSem; pure (x + Matrix.of fun _ _ => h 0 0)) := by
  simp only [addSisoR, onesTimes, full, evalSem]
  cases g.evalSem <;> cases a.evalSem <;> simp
  ext i j
  simp

theorem evalSem_unity : (unity : TExpr K (Fin 1) (Fin 1)).evalSem = some 1 := by
  simp only [unity, evalSem]
  rw [if_neg (by simp [Frac.one, toPoly_cons])]
  congr 1
  ext i j
  rw [Subsingleton.elim i j]; simp

theorem evalSem_recip (h : TExpr K (Fin 1) (Fin 1)) :
    (recip h).evalSem = (do
      let y ← h.evalSem
      haveI := Classical.dec (y 0 0 = 0)
      if y 0 0 = 0 then none else some (Matrix.of fun _ _ => (y 0 0)⁻¹)) := by
  simp only [recip, evalSem, evalSem_unity]
  cases h.evalSem <;> simp

theorem evalSem_powNeg (h : TExpr K (Fin 1) (Fin 1)) (k : Nat) :
    (powNeg h (k + 1)).evalSem = (do
      let y ← h.evalSem
      haveI := Classical.dec (y 0 0 = 0)
      if y 0 0 = 0 then none else some (Matrix.of fun _ _ => ((y 0 0)⁻¹) ^ (k + 1))) := by
  induction k with
  | zero =>
    simp only [powNeg, evalSem, evalSem_recip, evalSem_unity]
    cases h.evalSem with
    | none => simp
    | some y =>
      by_cases hy : y 0 0 = 0 <;> simp [hy]
  | succ k ih =>
    rw [powNeg]
    simp only [evalSem, evalSem_recip, ih]
    cases h.evalSem with
    | none => simp
    | some y =>
      by_cases hy : y 0 0 = 0 <;> simp [hy]
      ext i j
      simp [Matrix.mul_apply, pow_succ']
      ring

theorem evalSem_divSisoR {o : Type} [Fintype o] {n : Nat} (a : TExpr K o (Fin n))
    (h : TExpr K (Fin 1) (Fin 1)) :
    (divSisoR a h).evalSem = (do
      let x ← a.evalSem
      let y ← h.evalSem
      haveI := Classical.dec (y 0 0 = 0)
      if y 0 0 = 0 then none else some ((y 0 0)⁻¹ • x)) := by
  rw [divSisoR, evalSem_mulSisoR, evalSem_powNeg]
  cases a.evalSem with
  | none => simp
  | some x =>
    cases h.evalSem with
    | none => simp
    | some y => by_cases hy : y 0 0 = 0 <;> simp [hy]

theorem evalSem_appendFlat {p m p₂ m₂ : Nat} (a : TExpr K (Fin p) (Fin m))
    (b : TExpr K (Fin p₂) (Fin m₂)) :
    (appendFlat a b).evalSem = (do
      let x ← a.evalSem
      let y ← b.evalSem
      pure ((Matrix.fromBlocks x 0 0 y).submatrix finSumFinEquiv.symm finSumFinEquiv.symm)) := by
  simp only [appendFlat, evalSem]
  cases a.evalSem <;> cases b.evalSem <;> simp

end derived

/-! non-vacuity of the tree theorems: concrete trees over `ℚ` -/

section nonvacuity
open TExpr

/-- a dynamic SISO leaf `(s + 2) / (s² + 3)` together with its class invariant. -/
def exG1 : {G : TFM (Fin 1) (Fin 1) ℚ // G.WF} :=
  ⟨TFM.siso ⟨[1, 2], [1, 0, 3]⟩, by
    intro i j; simp [TFM.siso, Frac.WF, toPoly_cons]
    intro h
    have := congrArg (Polynomial.eval 0) h
    simp at this⟩

/-- `A * (g * B) - 3` with `A : 2 × 3`, `B : 3 × 2` constant arrays and a SISO system `g`:
the hypothesis `evalModel e = .ok G` of `tree_sound` is satisfiable on a non-square tree with a
SISO broadcast and a scalar operand. -/
example : ∃ G, (sub (mul (const fun (i : Fin 2) (j : Fin 3) => (i.val + 2 * j.val : ℚ))
      (mulSisoL (sys exG1.1 exG1.2) (const fun (i : Fin 3) (j : Fin 2) => (i.val - j.val : ℚ))))
    (scaledEye 3 2)).evalModel = .ok G := by
  rw [tree_returns_iff]
  simp [evalSem, mulSisoL, scaledEye]

/-- feedback around a dynamic system with a zero return path exists. -/
example : ∃ G, (fb (sys exG1.1 exG1.2) (scalar 0) 1).evalModel = .ok G := by
  rw [tree_returns_iff]
  simp [evalSem, TExpr.scalar]

/-- `1 / (g - g)`: the left-hand side of `tree_error` is satisfiable (division by the zero
function raises). -/
example : (recip (sub (sys exG1.1 exG1.2) (sys exG1.1 exG1.2))).evalModel = .error .zeroDen := by
  have h : (recip (sub (sys exG1.1 exG1.2) (sys exG1.1 exG1.2))).evalSem = none := by
    simp [evalSem_recip, evalSem]
  obtain ⟨err, he⟩ := (tree_error _).mpr h
  rw [he, tree_error_kind _ err he]

/-- `feedback(1, 1, sign = +1)`: `1 - 1 * 1 * 1 ≡ 0` raises, also below an enclosing operator. -/
example : (neg (fb (scalar (1 : ℚ)) (scalar 1) 1)).evalModel = .error .zeroDen := by
  have h : (neg (fb (scalar (1 : ℚ)) (scalar 1) 1)).evalSem = none := by
    simp [evalSem, TExpr.scalar]
  obtain ⟨err, he⟩ := (tree_error _).mpr h
  rw [he, tree_error_kind _ err he]

/-- a zero denominator handed to the constructor raises inside a tree. -/
example : (add (ctor fun (_ _ : Fin 1) => (⟨[1], [0, 0]⟩ : Frac ℚ)) (scalar 2)).evalModel
    = .error .zeroDen := by
  have h : (add (ctor fun (_ _ : Fin 1) => (⟨[1], [0, 0]⟩ : Frac ℚ)) (scalar 2)).evalSem = none := by
    simp [evalSem, toPoly_cons]
  obtain ⟨err, he⟩ := (tree_error _).mpr h
  rw [he, tree_error_kind _ err he]

end nonvacuity
end CtrlVerif.C01

/-! ## Dispatch outcomes `notImplemented`, and what a returned system would have to be

The run-time layer (`Model/TFDyn.lean`) answers `notImplemented` exactly where the code's guards
do: a MIMO divisor (`G / H`, `H / G` seen from `__rtruediv__`), a negative power of a MIMO
system (`M ** -n` is `(tf(1) / M) * M ** (-n + 1)`), MIMO feedback.  These outcomes do not
depend on the other operand (a guard such as "both operands are MIMO" is a different function).

If an implementation *returns* a system `X` there, the property still says what `X` must be.
The criteria below are the ones the correspondence check evaluates, in exact rational-function
arithmetic, on such a returned system (`harness/families/c01.py: judge_not_implemented`):
`X * B = A` with `B` square and `det B` a unit is the same as `X = A * B⁻¹`; `X * M ^ k = 1`
forces `X = (M⁻¹) ^ k`; `(1 - s • G * H) * X = G` is the same as `X = (1 - s • G * H)⁻¹ * G`;
and a matrix whose determinant is not a unit has no inverse at all. -/

namespace CtrlVerif.C01

open CtrlVerif Matrix

section dispatch
variable {K : Type} [Field K] [DecidableEq K]

/-- `G / H` with a MIMO `H` is `NotImplemented`, whatever `G` is (SISO or MIMO). -/
theorem truediv_mimo_divisor (G H : DTF K) (hH : H.isSiso = false) :
    G.truedivCore H = .error .notImplemented := by
  simp [DTF.truedivCore, hH]

/-- `other / self` through `__rtruediv__` with a MIMO `self` is `NotImplemented`. -/
theorem rtruediv_mimo_divisor (self other : DTF K) (h : self.isSiso = false) :
    self.rtruedivCore other = .error .notImplemented := by
  simp [DTF.rtruedivCore, h]

/-- `1 / M` for a MIMO `M`. -/
theorem recip_mimo (G : DTF K) (h : G.isSiso = false) : G.recip = .error .notImplemented := by
  simp [DTF.recip, h]

/-- `M ** -(k+1)` for a MIMO `M` is `NotImplemented` (never the SISO system `1 / M[0,0]^(k+1)`). -/
theorem neg_pow_mimo (G : DTF K) (h : G.isSiso = false) (k : Nat) :
    G.pow (Int.negSucc k) = .error .notImplemented := by
  simp only [DTF.pow, DTF.powNegNat, recip_mimo G h]
  rfl

/-- feedback with a MIMO system on either side is `NotImplemented`. -/
theorem feedback_mimo (G H : DTF K) (sign : K) (h : G.isSiso = false ∨ H.isSiso = false) :
    G.feedbackCore H sign = .error .notImplemented := by
  rcases h with h | h <;> simp [DTF.feedbackCore, h]

/-- non-vacuity: a SISO dividend over a `2 × 2` divisor, `M ** -1`, `M ** -2`, and `2 × 2`
feedback. -/
example : (DTF.ofScalar (3 : ℚ) 1 1).truedivCore (DTF.ofScalar 1 2 2) = .error .notImplemented :=
  truediv_mimo_divisor _ _ rfl
example : (DTF.ofScalar (1 : ℚ) 2 2).pow (-1) = .error .notImplemented :=
  neg_pow_mimo _ rfl 0
example : (DTF.ofScalar (1 : ℚ) 1 3).pow (-2) = .error .notImplemented :=
  neg_pow_mimo _ rfl 1
example : (DTF.ofScalar (1 : ℚ) 2 2).feedbackCore (DTF.ofScalar 1 1 1) (-1)
    = .error .notImplemented :=
  feedback_mimo _ _ _ (Or.inl rfl)

end dispatch

section criteria
variable {R : Type*} [CommRing R]
variable {m n : Type*} [Fintype m] [Fintype n] [DecidableEq n] [DecidableEq m]

/-- a returned `X` is the quotient `A * B⁻¹` iff `X * B = A` (for an invertible divisor). -/
theorem quotient_criterion (A X : Matrix m n R) (B : Matrix n n R) (hB : IsUnit B.det) :
    X * B = A ↔ X = A * B⁻¹ := by
  constructor
  · rintro rfl
    rw [Matrix.mul_nonsing_inv_cancel_right _ _ hB]
  · rintro rfl
    rw [Matrix.nonsing_inv_mul_cancel_right _ _ hB]

/-- a returned `X` with `X * M ^ k = 1` is the `k`-th power of the inverse. -/
theorem neg_pow_criterion (M X : Matrix n n R) (k : ℕ) (h : X * M ^ k = 1) : X = M⁻¹ ^ k := by
  rw [← Matrix.inv_eq_left_inv h, Matrix.inv_pow']

/-- a returned closed loop `X` of a `p × m` system `G` with an `m × p` return path `H`. -/
theorem feedback_criterion (G X : Matrix m n R) (H : Matrix n m R) (s : R)
    (hL : IsUnit (1 - s • (G * H)).det) :
    (1 - s • (G * H)) * X = G ↔ X = (1 - s • (G * H))⁻¹ * G := by
  constructor
  · intro h
    have h2 : (1 - s • (G * H))⁻¹ * ((1 - s • (G * H)) * X) = (1 - s • (G * H))⁻¹ * G := by rw [h]
    rwa [Matrix.nonsing_inv_mul_cancel_left _ _ hL] at h2
  · rintro rfl
    rw [Matrix.mul_nonsing_inv_cancel_left _ _ hL]

/-- a divisor whose determinant is not a unit (over a field: is zero) has no inverse: then no
system is "A * inv(B)". -/
theorem no_inverse_of_det_not_unit (B : Matrix n n R) (h : ¬ IsUnit B.det) :
    ¬ ∃ C : Matrix n n R, C * B = 1 := by
  rintro ⟨C, hC⟩
  exact h (Matrix.isUnit_det_of_left_inverse hC)

/-- non-vacuity: `!![1, 1; 0, 1]` is invertible over `ℚ`, `!![1, 1; 1, 1]` is not. -/
example : IsUnit (!![1, 1; 0, 1] : Matrix (Fin 2) (Fin 2) ℚ).det := by
  simp [Matrix.det_fin_two]
example : ¬ IsUnit (!![1, 1; 1, 1] : Matrix (Fin 2) (Fin 2) ℚ).det := by
  simp [Matrix.det_fin_two]
example : (!![1, -1; 0, 1] : Matrix (Fin 2) (Fin 2) ℚ) * !![1, 1; 0, 1] ^ 1 = 1 := by
  ext i j; fin_cases i <;> fin_cases j <;> simp [Matrix.mul_apply, Fin.sum_univ_two]

end criteria
end CtrlVerif.C01
