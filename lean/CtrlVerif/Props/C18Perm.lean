/-
C18 (continued) — the two items DESIGN §10.4 listed as "not carried" for C18:

1. **"same multiset" as `List.Perm`.**  For every raw array and every setting of squeeze (by
   argument, attribute or configuration default), transpose, and the SISO flag, the flat data of
   the processed array is the raw flat data re-indexed by an explicit *bijection* of flat
   positions (`Reindexed r a f`: an `Equiv σ : Fin r.length ≃ Fin a.length` with `σ i = f i` and
   `r[i] = a[σ i]`), hence a `List.Perm` of it — for `_process_time_response`
   (`values_perm_time`), `_process_frequency_response` (`values_perm_freq`: the data is not even
   moved), the objects the class constructor accepts (`values_perm_object`,
   `values_perm_states`), and the objects the five response functions return
   (`values_perm_response`).  The only hypothesis is that the SISO flag agrees with the array
   (`SisoAxes`: the axes `signal[0][0]` removes have length ≤ 1); it is *needed*
   (`siso_multitrace_drops_data`: a SISO object with two traces reads only the first trace when
   squeeze is unset — the behaviour of the code that exists), and it is *established* by the
   constructor for every object with at most one trace (`ctor_siso_axes`).

2. **The constructor keyword route.**  A response object is raw arrays + stored settings
   (`Model/ResponseObj.lean`); `route_independence`: the argument route (keywords of the response
   function or of the class constructor), the `__call__` route, the attribute-assignment route
   and the configuration-default route give the same reading of every observable (`outputs`,
   `states`, `inputs`, `time`, tuple unpacking, `len`, indexing), also as histories of the state
   machine (`route_history`); `call_idempotent`, `call_compose`, `call_same_raw`,
   `call_does_not_mutate`, `history_raw_invariant`, `iter_matches_properties`, and the same for
   `FrequencyResponseData` (`freq_*`).
-/
import CtrlVerif.Lemmas.C18Perm
import CtrlVerif.Lemmas.C18Ctor

namespace CtrlVerif.C18Perm

open CtrlVerif NDArr

variable {α β : Type}

/-! ## 1. values: the processed data is a permutation of the raw data -/

/-- the flat-position map of "time first" is a bijection: it maps `[0, T·P)` into `[0, P·T)` and
`tfMap T P` is its two-sided inverse (`P` entries per time point, `T` time points). -/
theorem transpose_index_bijection (P T : Nat) :
    (∀ k, k < T * P → tfMap P T k < P * T) ∧
    (∀ k, k < T * P → tfMap T P (tfMap P T k) = k) ∧
    (∀ j, j < P * T → tfMap P T (tfMap T P j) = j) ∧
    ∃ σ : Fin (T * P) ≃ Fin (P * T), ∀ i, (σ i).val = tfMap P T i.val :=
  ⟨fun _ h => tfMap_lt h, fun _ h => tfMap_tfMap h, fun _ h => tfMap_tfMap h,
   tfEquiv P T, tfEquiv_apply P T⟩

example : (List.range 6).map (tfMap 2 3) = [0, 3, 1, 4, 2, 5] := by decide

/-- a re-indexing by a bijection is a permutation (and an injective, surjective, entry-wise
correct re-indexing). -/
theorem reindexed_is_perm (r a : List α) (f : Nat → Nat) (h : Reindexed r a f) :
    r.Perm a ∧ r.length = a.length ∧ (∀ i, i < r.length → r[i]? = a[f i]?) ∧
    (∀ i j, i < r.length → j < r.length → f i = f j → i = j) ∧
    (∀ j, j < a.length → ∃ i, i < r.length ∧ f i = j) :=
  ⟨h.perm, h.length_eq, h.getElem?, h.injOn, h.surjOn⟩

example : Reindexed [1, 4, 2, 5, 3, 6] [1, 2, 3, 4, 5, 6] (tfIdx [2, 3]) :=
  (timeFirst_reindexed (a := (⟨[2, 3], [1, 2, 3, 4, 5, 6]⟩ : NDArr Nat))
    (r := ⟨[3, 2], [1, 4, 2, 5, 3, 6]⟩) (by decide) (by decide)).2

/-- `np.transpose(a, np.roll(range(a.ndim), 1))` on every well-formed array: the result has the
time-first shape and its flat data is the flat data of `a` under the bijection `tfIdx a.shape`,
hence a permutation of it. -/
theorem values_perm_transpose (a r : NDArr α) (hw : a.WF) (h : a.timeFirst = .ok r) :
    r.shape = tfShape a.shape ∧ Reindexed r.data a.data (tfIdx a.shape) ∧ r.data.Perm a.data := by
  obtain ⟨h1, h2⟩ := timeFirst_reindexed hw h
  exact ⟨h1, h2, h2.perm⟩

example : (⟨[2, 2, 3], List.range 12⟩ : NDArr Nat).timeFirst
    = .ok ⟨[3, 2, 2], (List.range 12).map (tfIdx [2, 2, 3])⟩ := by decide

/-- **`values_perm` for `_process_time_response`.**  For every well-formed raw array, every
squeeze value in force (`arg.resolve cfg`: argument / attribute `arg`, configuration default
`cfg`), every `transpose` and SISO flag (agreeing with the array when it is used): the processed
array has the shape `timeShape …`, is well formed, and its flat data is the raw flat data under
the explicit bijection `timeIdx …` — the identity unless `transpose` is set, the time-first map
of the squeezed shape otherwise; in particular it is a `List.Perm` of the raw data. -/
theorem values_perm_time (a r : NDArr α) (issiso tr : Bool) (arg cfg : Sq) (hw : a.WF)
    (hl : arg.resolve cfg = .none → issiso = true → a.SisoAxes)
    (h : processTime a issiso tr arg cfg = .ok r) :
    r.shape = timeShape a.shape issiso tr (arg.resolve cfg) ∧ r.WF ∧
    Reindexed r.data a.data (timeIdx a.shape issiso tr (arg.resolve cfg)) ∧
    r.data.Perm a.data := by
  obtain ⟨h1, h2, h3⟩ := processTime_reindexed hw hl h
  exact ⟨h1, h2, h3, h3.perm⟩

/-- 2 outputs × 2 inputs × 3 times, squeeze unset, transposed: shape `(3, 2, 2)`, data moved by
`tfMap 4 3`. -/
example : processTime (⟨[2, 2, 3], List.range 12⟩ : NDArr Nat) false true .none .none
    = .ok ⟨[3, 2, 2], [0, 3, 6, 9, 1, 4, 7, 10, 2, 5, 8, 11]⟩ := by decide

example : (⟨[2, 2, 3], List.range 12⟩ : NDArr Nat).WF ∧
    timeShape [2, 2, 3] false true .none = [3, 2, 2] ∧
    (List.range 12).map (timeIdx [2, 2, 3] false true .none)
      = [0, 3, 6, 9, 1, 4, 7, 10, 2, 5, 8, 11] := by decide

/-- without `transpose` no entry moves: the processed flat data *is* the raw flat data. -/
theorem values_same_untransposed (a r : NDArr α) (issiso : Bool) (arg cfg : Sq) (hw : a.WF)
    (hl : arg.resolve cfg = .none → issiso = true → a.SisoAxes)
    (h : processTime a issiso false arg cfg = .ok r) : r.data = a.data := by
  obtain ⟨_, _, h3⟩ := processTime_reindexed hw hl h
  have hlen := h3.length_eq
  apply List.ext_getElem?
  intro i
  by_cases hi : i < r.data.length
  · simpa [timeIdx] using h3.getElem? i hi
  · rw [List.getElem?_eq_none (by omega), List.getElem?_eq_none (by omega)]

example : (⟨[1, 1, 3], [7, 8, 9]⟩ : NDArr Nat).WF ∧ (⟨[1, 1, 3], [7, 8, 9]⟩ : NDArr Nat).SisoAxes ∧
    processTime (⟨[1, 1, 3], [7, 8, 9]⟩ : NDArr Nat) true false .none .none = .ok ⟨[3], [7, 8, 9]⟩ := by
  decide

/-- "the values are independent of the squeeze / transpose settings": two processings of the same
raw array under *any* two settings are permutations of each other. -/
theorem values_perm_any_two_settings (a r₁ r₂ : NDArr α) (issiso tr₁ tr₂ : Bool)
    (arg₁ cfg₁ arg₂ cfg₂ : Sq) (hw : a.WF) (hl : issiso = true → a.SisoAxes)
    (h₁ : processTime a issiso tr₁ arg₁ cfg₁ = .ok r₁)
    (h₂ : processTime a issiso tr₂ arg₂ cfg₂ = .ok r₂) : r₁.data.Perm r₂.data :=
  ((processTime_reindexed hw (fun _ => hl) h₁).2.2.perm).trans
    ((processTime_reindexed hw (fun _ => hl) h₂).2.2.perm).symm

example : ∃ r₁ r₂, processTime (⟨[1, 1, 3], [7, 8, 9]⟩ : NDArr Nat) true true .none .none = .ok r₁ ∧
    processTime (⟨[1, 1, 3], [7, 8, 9]⟩ : NDArr Nat) true false .false .true = .ok r₂ ∧
    r₁.shape = [3] ∧ r₂.shape = [1, 1, 3] ∧ r₁.data.Perm r₂.data :=
  ⟨_, _, rfl, rfl, rfl, rfl, by decide⟩

/-- the hypothesis `SisoAxes` is needed: for an array marked SISO that carries two traces,
squeeze unset returns the first trace only (three of six entries) — this is what the code that
exists does with `signal[0][0]`; no permutation, for any value type. -/
theorem siso_multitrace_drops_data :
    ∃ r, processTime (⟨[1, 2, 3], [10, 11, 12, 20, 21, 22]⟩ : NDArr Nat) true false .none .none
      = .ok r ∧ r.data = [10, 11, 12] ∧ ¬ r.data.Perm [10, 11, 12, 20, 21, 22] :=
  ⟨_, rfl, rfl, fun h => by simpa using h.length_eq⟩

/-- **`values_perm` for `_process_frequency_response`** (`magnitude`, `phase`, `complex`,
`sys(x)`, `evalfr`, `F.eval`): for every well-formed `(outputs, inputs, frequencies)` array,
every squeeze value in force, scalar or array evaluation point: the processed flat data *is* the
raw flat data (the bijection is the identity), so it is a permutation of it. -/
theorem values_perm_freq (a r : NDArr α) (issiso : Bool) (nd : Nat) (arg cfg : Sq) (hw : a.WF)
    (hl : arg.resolve cfg = .none → issiso = true → a.SisoAxes2)
    (h : processFreq issiso nd a arg cfg = .ok r) :
    r.data = a.data ∧ r.WF ∧ Reindexed r.data a.data id ∧ r.data.Perm a.data := by
  obtain ⟨h1, h2⟩ := processFreq_data hw hl h
  exact ⟨h1, h2, Reindexed.of_eq h1, List.Perm.of_eq h1⟩

example : processFreq false 1 (⟨[2, 2, 3], List.range 12⟩ : NDArr Nat) .true .none
    = .ok ⟨[2, 2, 3], List.range 12⟩ := by decide
example : processFreq true 0 (⟨[1, 1, 1], [5]⟩ : NDArr Nat) .none .none = .ok ⟨[], [5]⟩ := rfl

/-- **`values_perm`** (headline, time and frequency responses together): for every well-formed
raw array, whatever the squeeze value in force (argument, attribute or configuration default),
`transpose`, the SISO flag (agreeing with the array where the SISO rule uses it) and the kind of
evaluation point, the flat data of the processed array is a `List.Perm` of the raw flat data —
namely the raw data read through an explicit bijection of flat positions. -/
theorem values_perm (a : NDArr α) (hw : a.WF) :
    (∀ (r : NDArr α) (issiso tr : Bool) (arg cfg : Sq),
      (arg.resolve cfg = .none → issiso = true → a.SisoAxes) →
      processTime a issiso tr arg cfg = .ok r →
        r.data.Perm a.data ∧
        Reindexed r.data a.data (timeIdx a.shape issiso tr (arg.resolve cfg))) ∧
    (∀ (r : NDArr α) (issiso : Bool) (nd : Nat) (arg cfg : Sq),
      (arg.resolve cfg = .none → issiso = true → a.SisoAxes2) →
      processFreq issiso nd a arg cfg = .ok r →
        r.data.Perm a.data ∧ Reindexed r.data a.data id) := by
  constructor
  · intro r issiso tr arg cfg hl h
    obtain ⟨_, _, h3, h4⟩ := values_perm_time a r issiso tr arg cfg hw hl h
    exact ⟨h4, h3⟩
  · intro r issiso nd arg cfg hl h
    obtain ⟨_, _, h3, h4⟩ := values_perm_freq a r issiso nd arg cfg hw hl h
    exact ⟨h4, h3⟩

/-- the same bijection serves for every elementwise image of the data: magnitude and phase are
`np.abs` / `np.angle` of the processed complex data, so they are the re-indexed `np.abs` /
`np.angle` of the raw data. -/
theorem values_perm_map (g : α → β) (r a : List α) (f : Nat → Nat) (h : Reindexed r a f) :
    Reindexed (r.map g) (a.map g) f ∧ (r.map g).Perm (a.map g) :=
  ⟨h.map g, (h.map g).perm⟩

/-- `FrequencyResponseData`: a stored array with exactly `p × m × N` entries is read by
`magnitude / phase / complex` (all through `processed`) with its flat data unchanged, for every
squeeze attribute and default. -/
theorem values_perm_frd (F : RespFRD α) (cfg : Cfg) (r : NDArr α) (hw : F.frdata.WF)
    (h : F.processed cfg = .ok r) : r.data = F.frdata.data ∧ r.data.Perm F.frdata.data := by
  have hl : F.squeeze.resolve cfg.sqFreq = .none → F.issiso = true → F.frdata.SisoAxes2 := by
    intro _ hs
    unfold RespFRD.issiso RespFRD.noutputs RespFRD.ninputs at hs
    unfold NDArr.SisoAxes2
    split
    · rename_i p k rest hsh
      rw [hsh] at hs
      simp at hs
      omega
    · trivial
  obtain ⟨h1, _⟩ := processFreq_data hw hl h
  exact ⟨h1, List.Perm.of_eq h1⟩

example : (⟨⟨[2, 2, 3], List.range 12⟩, 3, .true, true⟩ : RespFRD Nat).frdata.WF ∧
    (⟨⟨[2, 2, 3], List.range 12⟩, 3, .true, true⟩ : RespFRD Nat).processed {}
      = .ok ⟨[2, 2, 3], List.range 12⟩ := by decide

/-! ### objects: what the constructor establishes -/

/-- the class constructor establishes the invariant the permutation theorem needs: the stored
arrays have the data of the given ones (well formed if those are), the state array of a
multi-trace object has exactly `ntraces` traces, and for a SISO object with at most one trace
the axes that the SISO rule removes from `y` and `u` have length ≤ 1. -/
theorem ctor_siso_axes (time outputs : NDArr α) (states inputs : Option (NDArr α))
    (issiso : Option Bool) (tr rx : Bool) (sq : Sq) (multi : Bool) (r : TRD α)
    (h : TRD.init time outputs states inputs issiso tr rx sq multi = .ok r)
    (hy : outputs.WF) (hx : ∀ x, states = some x → x.WF) (hu : ∀ u, inputs = some u → u.WF) :
    r.Inv ∧ r.y.data = outputs.data ∧ r.x = states ∧
      (∀ u', r.u = some u' → ∃ u, inputs = some u ∧ u'.data = u.data) := by
  obtain ⟨c, hc, _, hr⟩ := TRD.init_ok_iff.mp h
  subst hr
  exact TRD.initCore_inv hc hy hx hu

/-- non-vacuity: a 2-output, 2-trace (2 inputs), 3-time-point object accepted by the constructor
has the invariant. -/
example : ∃ r : TRD Nat, TRD.init ⟨[3], [0, 1, 2]⟩ ⟨[2, 2, 3], List.range 12⟩
      (some ⟨[1, 2, 3], List.range 6⟩) (some ⟨[2, 2, 3], List.range 12⟩) none true false .none false
      = .ok r ∧ r.Inv ∧ r.ntraces = 2 ∧ r.issiso = false :=
  ⟨_, rfl, (ctor_siso_axes ⟨[3], [0, 1, 2]⟩ ⟨[2, 2, 3], List.range 12⟩
    (some ⟨[1, 2, 3], List.range 6⟩) (some ⟨[2, 2, 3], List.range 12⟩) none true false .none false _
    rfl (by decide)
    (by intro x hx; injection hx with hx; subst hx; decide)
    (by intro u hu; injection hu with hu; subst hu; decide)).1, rfl, rfl⟩

/-- **`values_perm` on response objects.**  For every object with the constructor's invariant,
every stored setting and configuration default: `outputs` and `inputs` are the stored `y` / `u`
re-indexed by the explicit bijection, hence permutations of them — provided the SISO rule is not
applied to several traces (`ntraces ≤ 1` whenever the object is SISO and squeeze is unset). -/
theorem values_perm_object (r : TRD α) (cfg : Cfg) (hinv : r.Inv)
    (hn : r.issiso = true → r.squeeze.resolve cfg.sqTime = .none → r.ntraces ≤ 1) :
    (∀ y', r.outputs cfg = .ok y' →
      Reindexed y'.data r.y.data
        (timeIdx r.y.shape r.issiso r.transpose (r.squeeze.resolve cfg.sqTime)) ∧
      y'.data.Perm r.y.data) ∧
    (∀ u u', r.u = some u → r.inputs cfg = .ok (some u') →
      Reindexed u'.data u.data
        (timeIdx u.shape r.issiso r.transpose (r.squeeze.resolve cfg.sqTime)) ∧
      u'.data.Perm u.data) := by
  constructor
  · intro y' hy'
    have hl : r.squeeze.resolve cfg.sqTime = .none → r.issiso = true → r.y.SisoAxes :=
      fun h1 h2 => (hinv.siso h2 (hn h2 h1)).1
    obtain ⟨_, _, h3⟩ := processTime_reindexed hinv.ywf hl hy'
    exact ⟨h3, h3.perm⟩
  · intro u u' hu hu'
    have hl : r.squeeze.resolve cfg.sqTime = .none → r.issiso = true → u.SisoAxes :=
      fun h1 h2 => (hinv.siso h2 (hn h2 h1)).2 u hu
    simp only [TRD.inputs, hu, bind, Except.bind, pure, Except.pure] at hu'
    cases hp : processTime u r.issiso r.transpose r.squeeze cfg.sqTime with
    | error e => rw [hp] at hu'; cases hu'
    | ok v =>
      rw [hp] at hu'
      injection hu' with hu'
      injection hu' with hu'
      subst hu'
      obtain ⟨_, _, h3⟩ := processTime_reindexed (hinv.uwf u hu) hl hp
      exact ⟨h3, h3.perm⟩

/-- `states` of every object with the constructor's invariant is a permutation of the stored
`x`, for every setting (no hypothesis on the number of traces: the trace axis is only dropped
when there is exactly one trace). -/
theorem values_perm_states (r : TRD α) (cfg : Cfg) (hinv : r.Inv) (x x' : NDArr α)
    (hx : r.x = some x) (h : r.states cfg = .ok (some x')) :
    x'.data.Perm x.data ∧ ∃ f, Reindexed x'.data x.data f := by
  have hxw := hinv.xwf x hx
  simp only [TRD.states, hx] at h
  by_cases hd : (r.issiso && decide (r.ntraces = 1) && decide (x.ndim = 3) &&
      decide (r.squeeze.resolve cfg.sqTime = .none)) = true
  · simp only [hd, if_true, bind, Except.bind, pure, Except.pure] at h
    simp only [Bool.and_eq_true, decide_eq_true_eq] at hd
    obtain ⟨⟨⟨_, hnt⟩, h3⟩, _⟩ := hd
    have hlen : x.shape.length = 3 := h3
    match hsh : x.shape, hlen with
    | [n, k, T], _ =>
      have hk : k = 1 := by
        have := hinv.xtrace x n k T hx hsh
        omega
      subst hk
      cases hdt : x.dropTrace with
      | error e => rw [hdt] at h; cases h
      | ok x0 =>
        rw [hdt] at h
        simp only at h
        have hx0 := dropTrace_one hsh hxw hdt
        cases hp : processTime x0 false r.transpose (r.squeeze.resolve cfg.sqTime) cfg.sqTime with
        | error e => rw [hp] at h; cases h
        | ok v =>
          rw [hp] at h
          injection h with h
          injection h with h
          subst h
          have hx0w : x0.WF := by
            subst hx0
            have : x.data.length = x.shape.prod := hxw
            simp [NDArr.WF, this, hsh]
          obtain ⟨_, _, hre⟩ := processTime_reindexed hx0w (fun _ hf => by cases hf) hp
          have hdata : x0.data = x.data := by subst hx0; rfl
          rw [hdata] at hre
          exact ⟨hre.perm, _, hre⟩
  · simp only [hd, if_false, bind, Except.bind, pure, Except.pure] at h
    cases hp : processTime x false r.transpose (r.squeeze.resolve cfg.sqTime) cfg.sqTime with
    | error e => rw [hp] at h; cases h
    | ok v =>
      rw [hp] at h
      injection h with h
      injection h with h
      subst h
      obtain ⟨_, _, hre⟩ := processTime_reindexed hxw (fun _ hf => by cases hf) hp
      exact ⟨hre.perm, _, hre⟩

/-- non-vacuity (SISO, one trace, two states, transposed, squeeze unset): the trace axis is
dropped, the state axis kept, the data a permutation. -/
example : ∃ r : TRD Nat, TRD.init ⟨[3], [0, 1, 2]⟩ ⟨[1, 1, 3], [4, 5, 6]⟩
      (some ⟨[2, 1, 3], List.range 6⟩) (some ⟨[1, 1, 3], [1, 1, 1]⟩) none true false .none false
      = .ok r ∧ r.Inv ∧ r.issiso = true ∧ r.ntraces = 1 ∧
      r.states {} = .ok (some ⟨[3, 2], [0, 3, 1, 4, 2, 5]⟩) :=
  ⟨_, rfl, (ctor_siso_axes ⟨[3], [0, 1, 2]⟩ ⟨[1, 1, 3], [4, 5, 6]⟩
    (some ⟨[2, 1, 3], List.range 6⟩) (some ⟨[1, 1, 3], [1, 1, 1]⟩) none true false .none false _
    rfl (by decide)
    (by intro x hx; injection hx with hx; subst hx; decide)
    (by intro u hu; injection hu with hu; subst hu; decide)).1, rfl, rfl, by decide⟩

/-- **`values_perm` for the five response functions.**  Whatever `squeeze`, `transpose`,
`return_x` keywords are given to `forced_response`, `input_output_response`, `initial_response`,
`step_response`, `impulse_response` (with or without `input=` / `output=` selection), whatever
`response(...)` keywords are applied afterwards and whatever the configuration default is: the
`outputs` property is a permutation of the simulated output array (`inputs`, `states` likewise,
see `values_perm_object`, `values_perm_states`: the returned object has the constructor's
invariant and at most one trace whenever it is SISO). -/
theorem values_perm_response (fn : TFn) (p m n T : Nat) (inp out : Option Nat) (u1d : Bool)
    (t y : NDArr α) (x u : Option (NDArr α)) (sq : Sq) (tr : Bool) (rx : Option Bool)
    (cfg cfg' : Cfg) (kw : TKw) (r : TRD α)
    (hy : y.WF) (hx : ∀ a, x = some a → a.WF) (hu : ∀ a, u = some a → a.WF)
    (h : timeResponse fn p m n T inp out u1d t y x u sq tr rx cfg = .ok r) :
    (r.callKw kw).Inv ∧ ((r.callKw kw).issiso = true → (r.callKw kw).ntraces ≤ 1) ∧
    (∀ y', (r.callKw kw).outputs cfg' = .ok y' → y'.data.Perm y.data) ∧
    (∀ u₀ u', u = some u₀ → (r.callKw kw).inputs cfg' = .ok (some u') → u'.data.Perm u₀.data) ∧
    (∀ x₀ x', x = some x₀ → (r.callKw kw).states cfg' = .ok (some x') → x'.data.Perm x₀.data) := by
  obtain ⟨hinv, hnt, hyd, hxd, hud⟩ := timeResponse_inv h hy hx hu
  have hinv' : (r.callKw kw).Inv := hinv.callKw kw
  have hnt' : (r.callKw kw).issiso = true → (r.callKw kw).ntraces ≤ 1 := hnt
  have hobj := values_perm_object (r.callKw kw) cfg' hinv' (fun h1 _ => hnt' h1)
  refine ⟨hinv', hnt', ?_, ?_, ?_⟩
  · intro y' ho
    have := (hobj.1 y' ho).2
    have e : (r.callKw kw).y.data = y.data := hyd
    rw [e] at this
    exact this
  · intro u₀ u' hu₀ hi
    cases hru : r.u with
    | none =>
      have : (r.callKw kw).inputs cfg' = .ok none := by
        simp [TRD.inputs, TRD.callKw, TRD.call, hru, pure, Except.pure]
      rw [this] at hi; cases hi
    | some v =>
      obtain ⟨u₁, hu₁, hd⟩ := hud v hru
      rw [hu₀] at hu₁
      injection hu₁ with hu₁
      subst hu₁
      have := (hobj.2 v u' hru hi).2
      rw [hd] at this
      exact this
  · intro x₀ x' hx₀ hs
    have hrx : (r.callKw kw).x = some x₀ := by rw [← hx₀]; exact hxd
    exact (values_perm_states (r.callKw kw) cfg' hinv' x₀ x' hrx hs).1

/-- non-vacuity: `step_response` of a 2-output, 2-input system on 3 time points, transposed:
`outputs` has shape `(3, 2, 2)` and is the permutation `tfMap 4 3` of the simulated `(2, 2, 3)`
array. -/
example : (timeResponse (α := Nat) .step 2 2 1 3 none none false ⟨[3], [0, 1, 2]⟩
      ⟨[2, 2, 3], List.range 12⟩ (some ⟨[1, 2, 3], List.range 6⟩) (some ⟨[2, 2, 3], List.range 12⟩)
      .none true none {}).bind (fun r => r.outputs {})
    = .ok ⟨[3, 2, 2], [0, 3, 6, 9, 1, 4, 7, 10, 2, 5, 8, 11]⟩ := by decide

/-! ## 2. the constructor keyword route: objects as raw arrays + stored settings -/

/-- `TimeResponseData.__init__` is "array part, then keyword part": all shape logic (and every
shape error) is `initCore`, which does not see the keywords; the keywords are validated
(`Unknown squeeze value`) and stored. -/
theorem ctor_is_core_then_keywords (time outputs : NDArr α) (states inputs : Option (NDArr α))
    (issiso : Option Bool) (tr rx : Bool) (sq : Sq) (multi : Bool) :
    TRD.init time outputs states inputs issiso tr rx sq multi
      = (TRD.initCore time outputs states inputs issiso multi).bind
          fun c => TRD.initKeywords c ⟨sq, tr, rx⟩ :=
  TRD.init_eq_core_keywords time outputs states inputs issiso tr rx sq multi

/-- the class constructor on fixed arrays, and every response function on fixed arguments, are
lawful makers: the construction-time keywords are stored and influence nothing else. -/
theorem ctorMaker_lawful (time outputs : NDArr α) (states inputs : Option (NDArr α))
    (issiso : Option Bool) (multi : Bool) :
    (ctorMaker time outputs states inputs issiso multi).Lawful :=
  ctorMaker_lawful' time outputs states inputs issiso multi

theorem fnMaker_lawful (fn : TFn) (p m n T : Nat) (inp out : Option Nat) (u1d : Bool)
    (t y : NDArr α) (x u : Option (NDArr α)) (cfg : Cfg) :
    (fnMaker fn p m n T inp out u1d t y x u cfg).Lawful :=
  fnMaker_lawful' fn p m n T inp out u1d t y x u cfg

/-- a response function is the class constructor applied to the arrays it simulated: the
argument route of `step_response(…, squeeze=, transpose=, return_x=)` *is* the
construction-time keyword route of `TimeResponseData(…)`. -/
theorem response_function_is_ctor (fn : TFn) (p m n T : Nat) (inp out : Option Nat) (u1d : Bool)
    (t y : NDArr α) (x u : Option (NDArr α)) (cfg : Cfg) (spec : RawSpec)
    (hspec : rawSpec fn p m n T inp out u1d = .ok spec)
    (hsh : t.shape = [T] ∧ y.shape = spec.yShape ∧ x.map (·.shape) = spec.xShape ∧
      u.map (·.shape) = spec.uShape) (s : TSettings) :
    (fnMaker fn p m n T inp out u1d t y x u cfg).make s
      = (ctorMaker t y x u (some spec.issiso) false).make s := by
  obtain ⟨h1, h2, h3, h4⟩ := hsh
  simp [fnMaker, ctorMaker, timeResponse, hspec, bind, Except.bind, h1, h2, h3, h4]

example : rawSpec .step 2 2 1 3 none none false = .ok ⟨[2, 2, 3], some [1, 2, 3], some [2, 2, 3], false⟩ :=
  rfl

/-- the class constructor applied to the *stored* arrays and SISO flag of an object it built
(with any legal keywords) reproduces that object with the new keywords: construction-time
keywords on a rebuilt object are the `__call__` keywords on the original. -/
theorem ctor_on_stored_arrays (time outputs : NDArr α) (states inputs : Option (NDArr α))
    (issiso : Option Bool) (tr rx : Bool) (sq : Sq) (multi : Bool) (r : TRD α) (s : TSettings)
    (h : TRD.init time outputs states inputs issiso tr rx sq multi = .ok r)
    (hs : s.squeeze ≠ .other) :
    TRD.init r.t r.y r.x r.u (some r.issiso) s.transpose s.returnX s.squeeze multi
      = .ok (r.callKw s.toKw) := by
  obtain ⟨c, hc, _, hr⟩ := TRD.init_ok_iff.mp h
  subst hr
  exact TRD.init_ok_iff.mpr ⟨c, TRD.initCore_stored hc, hs, rfl⟩

/-- the same for the objects the response functions return (they are built with
`multi_trace=False`). -/
theorem ctor_on_response_arrays (fn : TFn) (p m n T : Nat) (inp out : Option Nat) (u1d : Bool)
    (t y : NDArr α) (x u : Option (NDArr α)) (sq : Sq) (tr : Bool) (rx : Option Bool) (cfg : Cfg)
    (r : TRD α) (s : TSettings)
    (h : timeResponse fn p m n T inp out u1d t y x u sq tr rx cfg = .ok r)
    (hs : s.squeeze ≠ .other) :
    TRD.init r.t r.y r.x r.u (some r.issiso) s.transpose s.returnX s.squeeze false
      = .ok (r.callKw s.toKw) := by
  unfold timeResponse at h
  cases hspec : rawSpec fn p m n T inp out u1d with
  | error e => simp [hspec, bind, Except.bind] at h
  | ok spec =>
    simp only [hspec, bind, Except.bind] at h
    split at h
    · simp [throw, throwThe, MonadExceptOf.throw] at h
    · exact ctor_on_stored_arrays _ _ _ _ _ _ _ _ _ r s h hs

example : ∃ r, timeResponse (α := Nat) .forced 1 1 2 3 none none true ⟨[3], [0, 1, 2]⟩
      ⟨[1, 3], [5, 6, 7]⟩ (some ⟨[2, 3], List.range 6⟩) (some ⟨[3], [1, 1, 1]⟩) .none false none {}
      = .ok r ∧ r.u = some ⟨[1, 3], [1, 1, 1]⟩ ∧
      TRD.init r.t r.y r.x r.u (some r.issiso) true true .false false
        = .ok (r.callKw ⟨some .false, some true, some true⟩) :=
  ⟨_, rfl, rfl, rfl⟩

/-- `response(**kw)`: the settings are updated by the keywords that are given, the raw arrays
are THE SAME. -/
theorem call_same_raw (r : TRD α) (kw : TKw) :
    (r.callKw kw).raw = r.raw ∧ (r.callKw kw).settings = r.settings.update kw ∧
      r.callKw kw = TRD.ofParts r.raw (r.settings.update kw) := by
  cases r; exact ⟨rfl, rfl, rfl⟩

/-- calling with the same keywords twice is calling once. -/
theorem call_idempotent (r : TRD α) (kw : TKw) : (r.callKw kw).callKw kw = r.callKw kw := by
  cases r; cases kw with
  | mk a b c => cases a <;> cases b <;> cases c <;> rfl

/-- two calls compose: the later keywords win where both are given. -/
theorem call_compose (r : TRD α) (kw₁ kw₂ : TKw) :
    (r.callKw kw₁).callKw kw₂
      = r.callKw ⟨kw₂.squeeze.orElse fun _ => kw₁.squeeze,
                  kw₂.transpose.orElse fun _ => kw₁.transpose,
                  kw₂.returnX.orElse fun _ => kw₁.returnX⟩ := by
  cases r; cases kw₁ with
  | mk a b c => cases kw₂ with
    | mk a' b' c' => cases a <;> cases b <;> cases c <;> cases a' <;> cases b' <;> cases c' <;> rfl

/-- a call that gives all three keywords forgets the previous settings. -/
theorem call_all_keywords (r : TRD α) (s : TSettings) : r.callKw s.toKw = r.withSettings s :=
  TRD.callKw_toKw r s

example : ((⟨⟨[2], [8, 9]⟩, ⟨[1, 2], [0, 1]⟩, none, none, true, 1, 1, 0, 0, .none, false, false⟩
    : TRD Nat).callKw ⟨some .true, none, some true⟩).settings = ⟨.true, false, true⟩ := rfl

/-- **`route_independence`.**  For every lawful maker (the class constructor on any arrays, any
of the five response functions on any arguments), every target setting `tgt` with a legal squeeze
value, every legal start setting and every configuration whose squeeze default is unset: the
argument route, the `__call__` route, the attribute-assignment route and the
configuration-default route read the same thing, for every observable — and raise the same error
when the arrays are rejected. -/
theorem route_independence (M : TMaker α) (hM : M.Lawful) (tgt start : TSettings) (base : Cfg)
    (hb : base.sqTime = .none) (ht : tgt.squeeze ≠ .other) (hs : start.squeeze ≠ .other)
    (ρ₁ ρ₂ : Route) (o : TObs) :
    observeVia M ρ₁ tgt start base o = observeVia M ρ₂ tgt start base o := by
  obtain ⟨core, hcore⟩ := hM
  rw [observeVia_eq hcore ρ₁ tgt start base hb ht hs o,
      observeVia_eq hcore ρ₂ tgt start base hb ht hs o]

/-- the three routes that do not go through the configuration even produce the same *object*. -/
theorem route_same_object (M : TMaker α) (hM : M.Lawful) (tgt start : TSettings) (base : Cfg)
    (ht : tgt.squeeze ≠ .other) (hs : start.squeeze ≠ .other) :
    timeVia M .call tgt start base = timeVia M .arg tgt start base ∧
    timeVia M .attr tgt start base = timeVia M .arg tgt start base := by
  obtain ⟨core, hcore⟩ := hM
  cases core with
  | error e => simp [timeVia, hcore, Except.bind, Except.map]
  | ok c =>
    have mk : ∀ s : TSettings, s.squeeze ≠ .other → M.make s = .ok (TRD.ofParts c s) := by
      intro s h; rw [hcore s]; simp [Except.bind, TRD.initKeywords, h]
    simp only [timeVia, mk tgt ht, mk start hs, Except.map, TRD.callKw_toKw, TRD.setAttr3,
      TRD.withSettings_ofParts, and_self]

/-- an illegal squeeze value is the one place where the routes differ, as in the code: given as a
keyword it is rejected when the object is built, set as configuration default it is accepted and
every later read of `outputs` raises. -/
theorem route_illegal_squeeze (M : TMaker α) (hM : M.Lawful) (c : TRD α) (tgt start : TSettings)
    (base : Cfg) (hok : M.make start = .ok c) (ht : tgt.squeeze = .other) :
    observeVia M .arg tgt start base .outputs = .error .badArg ∧
    observeVia M .config tgt start base .outputs = .ok (.arr (.error .badArg)) := by
  obtain ⟨core, hcore⟩ := hM
  cases core with
  | error e => rw [hcore start] at hok; cases hok
  | ok cc =>
    constructor
    · simp [observeVia, timeVia, hcore, Except.bind, Except.map, TRD.initKeywords, ht]
    · simp [observeVia, timeVia, hcore, Except.bind, Except.map, TRD.initKeywords, ht,
        TRD.observe, TRD.outputs, TRD.ofParts, Cfg.setSqTime, processTime, Sq.resolve,
        squeezeTime]

example : ∃ c, (ctorMaker (α := Nat) ⟨[3], [0, 1, 2]⟩ ⟨[2, 3], List.range 6⟩ none
    (some ⟨[1, 3], [1, 1, 1]⟩) none false).make {} = .ok c := ⟨_, rfl⟩

/-- non-vacuity (2 outputs × 2 inputs × 3 times, `step_response`): the four routes to
`squeeze=False, transpose=True, return_x=True` from an object built with
`squeeze=True, transpose=False, return_x=False` all read `outputs` of shape `(3, 2, 2)`. -/
example : ∀ ρ : Route,
    observeVia (fnMaker (α := Nat) .step 2 2 1 3 none none false ⟨[3], [0, 1, 2]⟩
      ⟨[2, 2, 3], List.range 12⟩ (some ⟨[1, 2, 3], List.range 6⟩)
      (some ⟨[2, 2, 3], List.range 12⟩) {}) ρ ⟨.false, true, true⟩ ⟨.true, false, false⟩ {}
      .outputs
    = .ok (.arr (.ok (some ⟨[3, 2, 2], [0, 3, 6, 9, 1, 4, 7, 10, 2, 5, 8, 11]⟩))) := by
  intro ρ; cases ρ <;> rfl

/-- the routes as histories of the state machine: running `routeHistory ρ` on the object a route
starts from yields exactly the reading of `observeVia`. -/
theorem route_history (M : TMaker α) (ρ : Route) (tgt start : TSettings) (base : Cfg) (o : TObs)
    (r₀ : TRD α)
    (h₀ : M.make (match ρ with
      | .arg => tgt
      | .call => start
      | .attr => start
      | .config => { tgt with squeeze := .none }) = .ok r₀) :
    (HState.run (trdOps α) ⟨[r₀], base⟩ (routeHistory ρ tgt o)).map (·.1)
      = (observeVia M ρ tgt start base o).map fun x => [x] := by
  cases ρ <;> simp only at h₀ <;>
    simp [routeHistory, observeVia, timeVia, h₀, HState.run, HState.step, Except.map, trdOps,
      TRD.callKw, TSettings.toKw, Option.toList]

example : (ctorMaker (α := Nat) ⟨[3], [0, 1, 2]⟩ ⟨[2, 3], List.range 6⟩ none
    (some ⟨[1, 3], [1, 1, 1]⟩) none false).make ⟨.true, false, false⟩
    = .ok ⟨⟨[3], [0, 1, 2]⟩, ⟨[2, 3], List.range 6⟩, none, some ⟨[1, 3], [1, 1, 1]⟩, false, 1, 2, 0, 0,
        .true, false, false⟩ := rfl

/-- **`call_does_not_mutate`.**  A history that only copies (`objs[j](**kw)`) and reads leaves
the configuration and every existing object as they were, so every property of every existing
object reads after it what it read before (for any class of response objects). -/
theorem call_does_not_mutate {Obj Obs Reading CU SU GU : Type}
    (ops : HistOps Obj Obs Reading CU SU GU) (h : List (HStep Obs CU SU GU))
    (hcr : ∀ st ∈ h, st.isRead = true ∨ st.isCopy = true) (s sf : HState Obj)
    (rds : List Reading) (hr : s.run ops h = .ok (rds, sf)) :
    sf.cfg = s.cfg ∧ s.objs.length ≤ sf.objs.length ∧
    (∀ k, k < s.objs.length → sf.objs[k]? = s.objs[k]?) ∧
    ∀ (j : Nat) (o : Obs) (r : Obj), s.objs[j]? = some r →
      s.run ops (h ++ [.read j o]) = .ok (rds ++ [ops.observe r s.cfg o], sf) := by
  have key := HState.run_copy_read ops h hcr s sf rds hr
  refine ⟨key.1, key.2.1, key.2.2, ?_⟩
  intro j o r hj
  have hlt : j < s.objs.length := by
    rcases Nat.lt_or_ge j s.objs.length with h' | h'
    · exact h'
    · rw [List.getElem?_eq_none h'] at hj; cases hj
  have hj' : sf.objs[j]? = some r := by rw [key.2.2 j hlt]; exact hj
  rw [HState.run_append, hr]
  simp [HState.run_cons, HState.step, hj', key.1, HState.run]

/-- non-vacuity: `r(squeeze=False)`, `r(transpose=True)` in between two reads of `r.outputs`. -/
example :
    (HState.run (trdOps Nat)
      ⟨[⟨⟨[3], [7, 8, 9]⟩, ⟨[2, 2, 3], List.range 12⟩, none, some ⟨[2, 2, 3], List.range 12⟩, false,
         2, 2, 0, 2, .none, false, false⟩], {}⟩
      [.read 0 .outputs, .copy 0 ⟨some .false, none, none⟩, .copy 1 ⟨none, some true, none⟩,
       .read 2 .outputs, .read 0 .outputs]).map
      (fun x => x.1.map fun
        | .arr (.ok (some a)) => a.shape
        | _ => [])
    = .ok [[2, 2, 3], [3, 2, 2], [2, 2, 3]] := rfl

/-- **the raw arrays never change.**  Along *any* history on time responses (reads, copies,
attribute assignments, configuration changes) every object of the final state has the raw part
of an object of the initial state; starting from one response, all objects share its raw
arrays. -/
theorem history_raw_invariant (h : List TStep) (s sf : HState (TRD α)) (rds : List (TReading α))
    (hr : s.run (trdOps α) h = .ok (rds, sf)) (c : TRDCore α)
    (hc : ∀ r ∈ s.objs, r.raw = c) : ∀ r ∈ sf.objs, r.raw = c :=
  TRD.run_raw_invariant h s sf rds hr c hc

example : ∃ rds sf, HState.run (trdOps Nat)
      ⟨[⟨⟨[3], [7, 8, 9]⟩, ⟨[2, 3], List.range 6⟩, none, none, false, 0, 2, 0, 0, .none, false, false⟩], {}⟩
      [.copy 0 ⟨some .true, some true, none⟩, .set 1 (.squeeze .false), .config .true, .read 1 .outputs]
      = .ok (rds, sf) ∧ sf.objs.length = 2 := ⟨_, _, rfl, rfl⟩

/-- **`iter_matches_properties`** (time).  Tuple unpacking of a response reads, with the SAME
settings and at the same moment, the `time` and `outputs` properties (and, with `return_x`, the
legacy states): its items are what `response[0]`, `response[1]`, `response[2]` return, its length
is `len(response)`, and it raises exactly when `outputs` (or the legacy states) does. -/
theorem iter_matches_properties (r : TRD α) (cfg : Cfg) :
    r.iter cfg = (r.outputs cfg).bind (fun y =>
      if r.returnX then r.legacyStates.map fun x => [some r.time, some y, x]
      else .ok [some r.time, some y]) ∧
    (∀ l, r.iter cfg = .ok l → l.length = r.len ∧
      ∀ i (hi : i < l.length), r.getitem cfg i = .ok l[i]) := by
  have h1 : r.iter cfg = (r.outputs cfg).bind (fun y =>
      if r.returnX then r.legacyStates.map fun x => [some r.time, some y, x]
      else .ok [some r.time, some y]) := by
    simp only [TRD.iter, bind, Except.bind, pure, Except.pure]
    cases r.outputs cfg with
    | error e => rfl
    | ok y =>
      simp only
      split
      · cases r.legacyStates <;> rfl
      · rfl
  refine ⟨h1, ?_⟩
  intro l hl
  rw [h1] at hl
  cases hy : r.outputs cfg with
  | error e => rw [hy] at hl; cases hl
  | ok y =>
    rw [hy] at hl
    simp only [Except.bind] at hl
    by_cases hrx : r.returnX = true
    · simp only [hrx, if_true] at hl
      cases hx : r.legacyStates with
      | error e => rw [hx] at hl; cases hl
      | ok x =>
        rw [hx] at hl
        simp only [Except.map] at hl
        injection hl with hl
        subst hl
        refine ⟨by simp [TRD.len, hrx], ?_⟩
        intro i hi
        match i, hi with
        | 0, _ => rfl
        | 1, _ => simp [TRD.getitem, hy, bind, Except.bind, pure, Except.pure]
        | 2, _ => simpa [TRD.getitem] using hx
    · simp only [hrx, if_false] at hl
      injection hl with hl
      subst hl
      refine ⟨by simp [TRD.len, hrx], ?_⟩
      intro i hi
      match i, hi with
      | 0, _ => rfl
      | 1, _ => simp [TRD.getitem, hy, bind, Except.bind, pure, Except.pure]

/-- the third item of the tuple is the `states` property read with squeeze unset (attribute and
default), for every object whose SISO flag is the one the data determines. -/
theorem iter_states_is_states_unset (r : TRD α) (cfg : Cfg)
    (hs : r.issiso = (decide (r.ninputs = 1) && decide (r.noutputs = 1))) :
    r.legacyStates = (r.callKw ⟨some .none, none, none⟩).states { cfg with sqTime := .none } := by
  simp only [TRD.legacyStates, TRD.states, TRD.callKw, TRD.call, Option.getD, hs]
  cases r.x with
  | none => rfl
  | some x =>
    simp only [Sq.resolve, if_true, processTime, squeezeTime, Bool.false_eq_true, if_false,
      decide_true, Bool.and_true]
    cases hc : (decide (r.ninputs = 1) && decide (r.noutputs = 1) && decide (r.ntraces = 1) &&
        decide (x.ndim = 3))
    · simp only [Bool.false_eq_true, if_false, bind, Except.bind, pure, Except.pure]
      cases r.transpose
      · rfl
      · simp only [if_true]
    · simp only [if_true, bind, Except.bind, pure, Except.pure]
      cases x.dropTrace with
      | error e => rfl
      | ok x0 =>
        simp only
        cases r.transpose
        · rfl
        · simp only [if_true]

example : (⟨⟨[3], [7, 8, 9]⟩, ⟨[1, 1, 3], [4, 5, 6]⟩, some ⟨[2, 1, 3], List.range 6⟩,
      some ⟨[1, 1, 3], [1, 1, 1]⟩, true, 1, 1, 2, 1, .false, true, true⟩ : TRD Nat).legacyStates
    = .ok (some ⟨[3, 2], [0, 3, 1, 4, 2, 5]⟩) := by decide

/-! ### FrequencyResponseData -/

/-- `FrequencyResponseData.__init__` is "array part, then keyword part". -/
theorem freq_ctor_is_core_then_keywords (response : NDArr α) (omegaShape : List Nat)
    (s : FSettings) :
    RespFRD.init response omegaShape s.squeeze s.returnMagphase
      = (RespFRD.initCore response omegaShape).bind fun c =>
          if s.squeeze = .other then .error .badArg else .ok (RespFRD.ofParts c s) :=
  frdMake_eq response omegaShape s

/-- `sys.frequency_response(omega, squeeze=s)` is the class constructor applied to the evaluated
array with `squeeze=s, return_magphase=True`, whatever the configuration. -/
theorem freqresp_is_ctor (p m N : Nat) (horner : NDArr α) (sq : Sq) (cfg : Cfg)
    (hs : horner.shape = [p, m, N]) :
    ltiFreqResp p m N horner sq cfg = frdMake horner [N] ⟨sq, true⟩ := by
  cases horner with
  | mk sh d =>
    simp only at hs
    subst hs
    simp [ltiFreqResp, ltiCall, processFreq, Sq.resolve, squeezeFreq, frdMake, bind, Except.bind,
      pure, Except.pure]

example : ltiFreqResp 2 2 3 (⟨[2, 2, 3], List.range 12⟩ : NDArr Nat) .true { sqFreq := .false }
    = .ok ⟨⟨[2, 2, 3], List.range 12⟩, 3, .true, true⟩ := rfl

/-- **`route_independence`** for frequency responses: keyword of the constructor (or of
`frequency_response`), `F(squeeze=…, return_magphase=…)`, attribute assignment and the
configuration default read the same `magnitude`, `phase`, `complex`, tuple and stored data.
(`F(squeeze=None)` keeps the stored value, so the `__call__` route reaches `None` only from an
object whose value is `None`: hypothesis `hn`.) -/
theorem freq_route_independence (response : NDArr α) (omegaShape : List Nat)
    (tgt start : FSettings) (base : Cfg) (hb : base.sqFreq = .none) (ht : tgt.squeeze ≠ .other)
    (hs : start.squeeze ≠ .other) (hn : tgt.squeeze = .none → start.squeeze = .none)
    (ρ₁ ρ₂ : Route) (o : FObs) :
    freqObserveVia response omegaShape ρ₁ tgt start base o
      = freqObserveVia response omegaShape ρ₂ tgt start base o := by
  rw [freqObserveVia_eq response omegaShape ρ₁ tgt start base hb ht hs hn o,
      freqObserveVia_eq response omegaShape ρ₂ tgt start base hb ht hs hn o]

/-- non-vacuity: 2 outputs × 2 inputs × 3 frequencies, target `squeeze=True,
return_magphase=True` from `squeeze=False`. -/
example : ∀ ρ : Route,
    freqObserveVia (⟨[2, 2, 3], List.range 12⟩ : NDArr Nat) [3] ρ ⟨.true, true⟩ ⟨.false, false⟩ {}
      .iter
    = .ok (.tuple (.ok [.mag ⟨[2, 2, 3], List.range 12⟩, .phase ⟨[2, 2, 3], List.range 12⟩,
        .omega])) := by
  intro ρ; cases ρ <;> rfl

/-- the `__call__` route with `squeeze=None` on an object whose value is set keeps that value
(so it is *not* the route to `None`): documented behaviour of `FrequencyResponseData.__call__`. -/
theorem freq_call_none_keeps (F : RespFRD α) (rm : Option Bool) :
    (F.callKw ⟨.none, rm⟩).squeeze = F.squeeze := by
  simp [RespFRD.callKw, RespFRD.callCopy]

theorem freq_call_same_raw (F : RespFRD α) (kw : FKw) :
    (F.callKw kw).raw = F.raw ∧ (F.callKw kw).settings = F.settings.update kw := by
  cases F; exact ⟨rfl, rfl⟩

theorem freq_call_idempotent (F : RespFRD α) (kw : FKw) :
    (F.callKw kw).callKw kw = F.callKw kw := by
  cases F; cases kw with
  | mk s b =>
    simp only [RespFRD.callKw, RespFRD.callCopy]
    cases b <;> by_cases h : s = .none <;> simp [h]

/-- the routes as histories of the state machine (frequency responses). -/
theorem freq_route_history (response : NDArr α) (omegaShape : List Nat) (ρ : Route)
    (tgt start : FSettings) (base : Cfg) (o : FObs) (F₀ : RespFRD α)
    (h₀ : frdMake response omegaShape (match ρ with
      | .arg => tgt
      | .call => start
      | .attr => start
      | .config => { tgt with squeeze := .none }) = .ok F₀) :
    (HState.run (frdOps α) ⟨[F₀], base⟩ (freqRouteHistory ρ tgt o)).map (·.1)
      = (freqObserveVia response omegaShape ρ tgt start base o).map fun x => [x] := by
  cases ρ <;> simp only at h₀ <;>
    simp [freqRouteHistory, freqObserveVia, freqVia, h₀, HState.run, HState.step, Except.map,
      frdOps, RespFRD.callKw, FSettings.toKw, Option.toList]

example : frdMake (⟨[2, 2, 3], List.range 12⟩ : NDArr Nat) [3] ⟨.false, false⟩
    = .ok ⟨⟨[2, 2, 3], List.range 12⟩, 3, .false, false⟩ := rfl

/-- along any history on frequency responses the stored data of every object is the stored data
of an initial object. -/
theorem freq_history_raw_invariant (h : List FStep) (s sf : HState (RespFRD α))
    (rds : List (FReading α)) (hr : s.run (frdOps α) h = .ok (rds, sf)) (c : NDArr α × Nat)
    (hc : ∀ F ∈ s.objs, F.raw = c) : ∀ F ∈ sf.objs, F.raw = c :=
  RespFRD.run_raw_invariant h s sf rds hr c hc

example : ∃ rds sf, HState.run (frdOps Nat) ⟨[⟨⟨[1, 1, 3], [5, 6, 7]⟩, 3, .none, true⟩], {}⟩
      [.copy 0 ⟨.false, some false⟩, .set 0 (.squeeze .true), .config .false, .read 1 .iter]
      = .ok (rds, sf) ∧ sf.objs.map (·.raw) = [(⟨[1, 1, 3], [5, 6, 7]⟩, 3), (⟨[1, 1, 3], [5, 6, 7]⟩, 3)] :=
  ⟨_, _, rfl, rfl⟩

/-- **`iter_matches_properties`** (frequency).  Tuple unpacking reads, with the SAME settings,
`(magnitude, phase, omega)` resp. `(omega, complex)`: the items are what the properties return
at that moment, and it raises exactly when they do. -/
theorem freq_iter_matches_properties (F : RespFRD α) (cfg : Cfg) :
    F.iter cfg = (if F.returnMagphase then
        (F.magnitude cfg).bind fun mg => (F.phase cfg).bind fun ph => .ok [mg, ph, .omega]
      else (F.complex cfg).bind fun c => .ok [.omega, c]) := by
  cases hrm : F.returnMagphase <;>
    simp only [RespFRD.iter, RespFRD.magnitude, RespFRD.phase, RespFRD.complex, bind, Except.bind,
      pure, Except.pure, hrm, if_true, if_false, Bool.false_eq_true] <;>
    cases F.processed cfg <;> rfl

end CtrlVerif.C18Perm
