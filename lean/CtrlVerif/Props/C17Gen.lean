/-
Source-text tie for C17 (DESIGN §2.5): `Generated/SubsysIndex.lean` is rewritten on every run from
the text of `_process_subsys_index` in /repo/control/iosys.py by `harness/core/py2lean_select.py`
(Python values are `PyVal`, the primitives `isinstance / len / x[k] / slice / range` have the fixed
meaning of `Model/PyVal.lean`).  The hand-written model `processIdx` (the one the theorems of
`Props/C17.lean` are about) is proved equal to it, for every selector, every signal count, every
label list and both values of `slice_to_list`.  A semantic edit of the source breaks these theorems.
-/
import CtrlVerif.Generated.SubsysIndex
import CtrlVerif.Lemmas.PyVal

namespace CtrlVerif.C17Gen

open CtrlVerif Index

/-- a name-free selector of the model as the Python object it stands for (`bad`: an object of any
class other than `int`, `slice`, `list`: float, `None`, ndarray, NumPy scalar, …). -/
def toPy : Key → PyVal
  | .idx i => .int i
  | .slice a b c => .slice a b c
  | .list l => .list (l.map .int)
  | .bad => .other

/-- what the callers do with the returned index on an axis of length `n`: NumPy basic slicing
with a `slice` (`B[:, idx]`, `C[idx, :]`, `frdata[idx, :]`), NumPy integer-array indexing with a
list, and `for i in idx: num_array[i, j]` with the `range` that `slice_to_list=True` produces;
integer positions count from the end when negative and raise IndexError when out of range. -/
def useIdx (n : Nat) : PyVal → Except Err (List (Fin n))
  | .slice a b c => sliceList a b c n
  | .list xs => xs.mapM (fun x => (Py.toInt x).bind (normIdx n))
  | .range s e st => (rangeList s st (rangeLen s e st)).mapM (normIdx n)
  | _ => .error .badArg

/-- the observable result of `_process_subsys_index`: the selected channels, and the labels. -/
def observe (n : Nat) (r : PyVal × PyVal) : Except Err (List (Fin n) × PyVal) :=
  (useIdx n r.1).map (fun rows => (rows, r.2))

/-- what the model says the result is: the channels `processIdx` selects, and their labels in
the selected order. -/
def expected (xs : List PyVal) (k : Key) : Except Err (List (Fin xs.length) × PyVal) :=
  (processIdx xs.length k).map (fun rows => (rows, PyVal.list (rows.map (fun i => xs.get i))))

/-! ### the function the source text defines, branch by branch -/

/-- an object that is not an `int`, `slice` or `list` is rejected (TypeError), whatever the labels. -/
theorem generated_rejects (v labels : PyVal) (stl : Bool)
    (h : Py.isinstance v [.slice, .list, .int] = false) :
    Generated.processSubsysIndex v labels stl = .error .badArg := by
  simp [Generated.processSubsysIndex, h, bind, Except.bind, throw, throwThe, MonadExceptOf.throw]

/-- an integer outside `-n … n-1` raises IndexError. -/
theorem generated_int_out_of_range (xs : List PyVal) (i : Int) (stl : Bool)
    (h : i < -(xs.length : Int) ∨ (xs.length : Int) ≤ i) :
    Generated.processSubsysIndex (.int i) (.list xs) stl = .error .indexRange := by
  rcases h with h | h
  · simp [Generated.processSubsysIndex, Py.isinstance, Py.isinstance1,
      bind, Except.bind, pure, Except.pure, throw, throwThe, MonadExceptOf.throw, h]
  · have h1 : ¬ i < -(xs.length : Int) := by omega
    simp [Generated.processSubsysIndex, Py.isinstance, Py.isinstance1,
      bind, Except.bind, pure, Except.pure, throw, throwThe, MonadExceptOf.throw, h, h1]

/-- an in-range integer `i` (`k` = its position counted from the front, `i = k` or `i = k - n`)
becomes the unit slice `slice(k, k+1, 1)` (the range `range(k, k+1)` with `slice_to_list=True`)
and the one label `labels[k]`. -/
theorem generated_int (xs : List PyVal) (i k : Int) (stl : Bool) (hk : 0 ≤ k ∧ k < xs.length)
    (hi : i = k ∨ i = k - xs.length) :
    Generated.processSubsysIndex (.int i) (.list xs) stl
      = .ok (if stl then .range k (k + 1) 1 else .slice (some k) (some (k + 1)) (some 1),
             .list [xs[k.toNat]'(by omega)]) := by
  have h1 : ¬ i < -(xs.length : Int) := by omega
  have h2 : ¬ (xs.length : Int) ≤ i := by omega
  rcases hi with rfl | rfl
  · have h3 : ¬ i < 0 := by omega
    cases stl <;>
    simp [Generated.processSubsysIndex, Py.isinstance, Py.isinstance1,
      bind, Except.bind, pure, Except.pure, throw, throwThe, MonadExceptOf.throw, h1, h2, h3, Except.map,
      Py.seqSlice_eq_sliceList, Py.sliceList_unit_int hk, Py.range1, Py.sliceIndices_unit_int hk]
  · have h3 : k - (xs.length : Int) < 0 := by omega
    cases stl <;>
    simp [Generated.processSubsysIndex, Py.isinstance, Py.isinstance1,
      bind, Except.bind, pure, Except.pure, throw, throwThe, MonadExceptOf.throw, h1, h2, h3, Except.map,
      Py.seqSlice_eq_sliceList, Py.sliceList_unit_int hk, Py.range1, Py.sliceIndices_unit_int hk]

example : Generated.processSubsysIndex (.int (-1)) (.list [.str "a", .str "b", .str "c"]) false
    = .ok (.slice (some 2) (some 3) (some 1), .list [.str "c"]) :=
  generated_int [.str "a", .str "b", .str "c"] (-1) 2 false (by decide) (by decide)

/-- a slice is passed through (`slice_to_list=True`: replaced by `range(*slice.indices(n))`)
with the labels at the positions it selects; a zero step raises ValueError. -/
theorem generated_slice (xs : List PyVal) (a b c : Option Int) (stl : Bool) :
    Generated.processSubsysIndex (.slice a b c) (.list xs) stl
      = (sliceIndices a b c xs.length).bind (fun r => (sliceList a b c xs.length).map (fun rows =>
          (if stl then .range r.1 r.2.1 r.2.2 else .slice a b c,
           .list (rows.map (fun k => xs.get k))))) := by
  by_cases hc : stepOf c = 0
  · cases stl <;>
    simp [Generated.processSubsysIndex, Py.isinstance, Py.isinstance1, sliceIndices, sliceList, hc,
      bind, Except.bind, pure, Except.pure, throw, throwThe, MonadExceptOf.throw, Except.map,
      Py.seqSlice_eq_sliceList]
  · obtain ⟨s, e, l, h1, h2, -⟩ := sliceList_ok a b c xs.length hc
    cases stl <;>
    simp [Generated.processSubsysIndex, Py.isinstance, Py.isinstance1, h1, h2,
      bind, Except.bind, pure, Except.pure, throw, throwThe, MonadExceptOf.throw, Except.map,
      Py.seqSlice_eq_sliceList, Py.range1]

/-- a list of integers that is not a singleton is passed through with the labels at the
normalised positions, in the written order; an out-of-range entry raises IndexError. -/
theorem generated_list (xs : List PyVal) (l : List Int) (stl : Bool) (hl : l.length ≠ 1) :
    Generated.processSubsysIndex (.list (l.map .int)) (.list xs) stl
      = (l.mapM (normIdx xs.length)).map (fun rows =>
          (.list (l.map .int), .list (rows.map (fun k => xs.get k)))) := by
  have hm : List.mapM (fun i => Py.getitem (PyVal.list xs) i) (l.map PyVal.int)
      = (l.mapM (normIdx xs.length)).map (List.map (fun k => xs.get k)) := by
    rw [Py.mapM_map]
    apply Py.mapM_congr_map
    intro a _
    simp [Py.seqIndex_eq_normIdx]
  cases stl <;>
  simp [Generated.processSubsysIndex, Py.isinstance, Py.isinstance1, hl,
    bind, Except.bind, pure, Except.pure, throw, throwThe, MonadExceptOf.throw, Except.map, hm] <;>
  cases l.mapM (normIdx xs.length) <;> rfl

/-- a singleton list is the integer it contains. -/
theorem generated_singleton (xs : List PyVal) (i : Int) (stl : Bool) :
    Generated.processSubsysIndex (.list [.int i]) (.list xs) stl
      = Generated.processSubsysIndex (.int i) (.list xs) stl := by
  simp [Generated.processSubsysIndex, Py.isinstance, Py.isinstance1, Py.seqIndex,
    bind, Except.bind, pure, Except.pure, throw, throwThe, MonadExceptOf.throw, Except.map]

/-- `True` / `False` are the integers `1` / `0` (outside the selector space of the model; what
Python does, since `bool` is a subclass of `int`). -/
theorem generated_bool (xs : List PyVal) (b : Bool) (stl : Bool) :
    Generated.processSubsysIndex (.bool b) (.list xs) stl
      = Generated.processSubsysIndex (.int (if b then 1 else 0)) (.list xs) stl := by
  cases b <;> cases stl <;>
  simp [Generated.processSubsysIndex, Py.isinstance, Py.isinstance1, Py.toInt, Py.mkSlice, Py.sliceField,
    bind, Except.bind, pure, Except.pure, throw, throwThe, MonadExceptOf.throw, Except.map]

/-! ### generated = model -/

/-- **The function the source text defines is the model**: for every name-free selector `k`
(integer, slice, list of integers, other object), every label list (any length, any labels) and
both values of `slice_to_list`, `_process_subsys_index` as written in /repo — followed by the use
its callers make of the returned index — raises exactly when `processIdx` raises, with the same
error kind, and otherwise selects the same channels in the same order and returns their labels. -/
theorem generated_processIdx_eq (xs : List PyVal) (k : Key) (stl : Bool) :
    (Generated.processSubsysIndex (toPy k) (.list xs) stl).bind (observe xs.length)
      = expected xs k := by
  have hint : ∀ i : Int, (Generated.processSubsysIndex (.int i) (.list xs) stl).bind (observe xs.length)
      = (intIdx xs.length i).map (fun rows => (rows, PyVal.list (rows.map (fun i => xs.get i)))) := by
    intro i
    rw [intIdx_eq]
    by_cases h : i < -(xs.length : Int) ∨ (xs.length : Int) ≤ i
    · rw [generated_int_out_of_range xs i stl h, normIdx_err h]; rfl
    · by_cases h0 : i < 0
      · have hk : 0 ≤ i + xs.length ∧ i + xs.length < xs.length := by omega
        rw [generated_int xs i (i + xs.length) stl hk (by omega), normIdx_neg (by omega)]
        cases stl <;>
        simp [observe, useIdx, Except.bind, Except.map, Py.sliceList_unit_int hk, Py.rangeList_unit,
          normIdx_nonneg hk, List.mapM_cons, bind, pure, Except.pure]
      · have hk : 0 ≤ i ∧ i < xs.length := by omega
        rw [generated_int xs i i stl hk (by omega), normIdx_nonneg hk]
        cases stl <;>
        simp [observe, useIdx, Except.bind, Except.map, Py.sliceList_unit_int hk, Py.rangeList_unit,
          normIdx_nonneg hk, List.mapM_cons, bind, pure, Except.pure]
  cases k with
  | bad => exact by rw [toPy, generated_rejects _ _ _ (by decide)]; rfl
  | idx i => exact hint i
  | slice a b c =>
    rw [toPy, generated_slice]
    unfold expected
    simp only [processIdx]
    by_cases hc : stepOf c = 0
    · simp [sliceIndices, sliceList, hc, bind, Except.bind, Except.map]
    · obtain ⟨s, e, l, h1, h2, -⟩ := sliceList_ok a b c xs.length hc
      have h3 := Py.range_slice_eq_sliceList xs.length a b c
      rw [h1, h2] at h3
      simp only [Except.bind, zero_add, mul_one, one_mul] at h3
      cases stl <;> simp [h1, h2, h3, observe, useIdx, Except.bind, Except.map]
  | list l =>
    by_cases hl : l.length = 1
    · match l, hl with
      | [i], _ => exact (congrArg (·.bind (observe xs.length)) (generated_singleton xs i stl)).trans (hint i)
    · rw [toPy, generated_list xs l stl hl]
      unfold expected
      rw [processIdx_list]
      have hu : useIdx xs.length (.list (l.map .int)) = l.mapM (normIdx xs.length) := by
        simp only [useIdx, Py.mapM_map]
        exact Py.mapM_congr _ _ _ (fun a _ => rfl)
      cases hm : l.mapM (normIdx xs.length) with
      | error e => rfl
      | ok rows => simp [Except.map, Except.bind, observe, hu, hm]

/-- non-vacuity: the generated function returns on valid selectors, with the right labels … -/
example : (Generated.processSubsysIndex (toPy (.slice none none (some (-1))))
    (.list [.str "a", .str "b", .str "c"]) false)
    = .ok (.slice none none (some (-1)), .list [.str "c", .str "b", .str "a"]) := by rfl
/-- … and raises on invalid ones. -/
example : (Generated.processSubsysIndex (toPy (.list [0, 3])) (.list [.str "a", .str "b", .str "c"]) false)
    = .error .indexRange := by rfl

/-- the generated function raises exactly when the model raises, with the same error kind. -/
theorem generated_error_iff (xs : List PyVal) (k : Key) (stl : Bool) (e : Err) :
    (Generated.processSubsysIndex (toPy k) (.list xs) stl).bind (observe xs.length) = .error e
      ↔ processIdx xs.length k = .error e := by
  rw [generated_processIdx_eq]
  unfold expected
  cases processIdx xs.length k <;> simp [Except.map]

/-! ### `NamedSignal._parse_key`: names → indices -/

/-- labels as the Python list of strings. -/
def pyLabels {n : Nat} (labels : Fin n → String) : PyVal := .list ((List.ofFn labels).map .str)

/-- `labels.index(s)` on the Python list of labels is the model's `labelIndex` (first position,
ValueError "unknown signal name" when absent). -/
theorem indexStr_eq_labelIndex {n : Nat} (labels : Fin n → String) (s : String) :
    Py.indexStr (pyLabels labels) (.str s) = labelIndex labels s := by
  unfold pyLabels Py.indexStr labelIndex
  induction n with
  | zero => simp
  | succ n ih =>
    have ih' := ih (fun i => labels i.succ)
    simp only [List.ofFn_succ, List.map_cons, List.findIdx?_cons, List.finRange_succ, List.find?_cons,
      List.find?_map] at ih' ⊢
    by_cases h : labels 0 = s
    · simp [h]
    · simp only [h, beq_iff_eq, if_false, decide_false]
      have hcomp : ((fun i => decide (labels i = s)) ∘ Fin.succ)
          = (fun i : Fin n => decide (labels i.succ = s)) := rfl
      rw [hcomp]
      revert ih'
      generalize List.findIdx? _ (List.map PyVal.str (List.ofFn fun i => labels i.succ)) = a
      generalize List.find? (fun i : Fin n => decide (labels i.succ = s)) (List.finRange n) = b
      intro ih'
      cases a <;> cases b <;> simp at ih' ⊢
      omega


/-- an element of a list selector as the Python object it stands for. -/
def itemToPy : Item → PyVal
  | .idx i => .int i
  | .name s => .str s

/-- a selector as the user writes it, as a Python object (`bad`: an object of another class). -/
def selToPy : Sel → PyVal
  | .idx i => .int i
  | .name s => .str s
  | .slice a b c => .slice a b c
  | .list l => .list (l.map itemToPy)
  | .bad => .other

/-- `_parse_key` returns anything that is not a `str`, `list` or `tuple` unchanged (integers, slices,
`None`, other objects), at every level. -/
theorem parseKey_passthrough (fuel : Nat) (sl tl ds v L : PyVal) (level : Int)
    (h : Py.isinstance v [.str, .list, .tuple] = false) :
    Generated.parseKey (fuel + 1) sl tl ds v L level = .ok v := by
  have h1 : Py.isinstance v [.str] = false := by
    cases v <;> simp_all [Py.isinstance, Py.isinstance1]
  have h2 : Py.isinstance v [.list] = false := by
    cases v <;> simp_all [Py.isinstance, Py.isinstance1]
  have h3 : Py.isinstance v [.tuple] = false := by
    cases v <;> simp_all [Py.isinstance, Py.isinstance1]
  cases hL : Py.isNone L <;>
  simp [Generated.parseKey, h1, h2, h3, hL, bind, Except.bind, pure, Except.pure]

/-- a name becomes `labels.index(name)` (below level 0, where the squeeze rule does not apply). -/
theorem parseKey_name (fuel : Nat) (sl tl ds : PyVal) (s : String) (xs : List PyVal) (level : Int)
    (hl : level ≠ 0) :
    Generated.parseKey (fuel + 1) sl tl ds (.str s) (.list xs) level
      = (Py.indexStr (.list xs) (.str s)).map .int := by
  cases h : Py.indexStr (.list xs) (.str s) <;>
  simp [Generated.parseKey, Py.isinstance, Py.isinstance1, Py.isNone, h, hl, bind, Except.bind, pure,
    Except.pure, Except.map]


/-- an element of a list selector: the model's `parseItem`. -/
theorem generated_parseKey_item {n : Nat} (fuel : Nat) (sl tl ds : PyVal) (labels : Fin n → String)
    (it : Item) (level : Int) (hl : level ≠ 0) :
    Generated.parseKey (fuel + 1) sl tl ds (itemToPy it) (pyLabels labels) level
      = (parseItem labels it).map .int := by
  cases it with
  | idx i => exact parseKey_passthrough fuel sl tl ds (.int i) _ level rfl
  | name s =>
    rw [itemToPy, pyLabels, parseKey_name fuel sl tl ds s _ level hl]
    exact congrArg (Except.map PyVal.int) (indexStr_eq_labelIndex labels s)

/-- **`_parse_key` as written in the source is the model's `parseSel`** on one component of the key
(level ≥ 1: the way the three `__getitem__` reach it), for every selector (integer, name, slice, list of
integers / names, other object), every label assignment and every recursion budget ≥ 2: names become
the index of the name, lists are translated element by element in order, an unknown name raises
"unknown signal name", everything else is passed through. -/
theorem generated_parseKey_sel {n : Nat} (fuel : Nat) (sl tl ds : PyVal) (labels : Fin n → String)
    (sel : Sel) (level : Int) (hl : 0 < level) :
    Generated.parseKey (fuel + 2) sl tl ds (selToPy sel) (pyLabels labels) level
      = (parseSel labels sel).map toPy := by
  have hl0 : level ≠ 0 := by omega
  cases sel with
  | idx i => exact parseKey_passthrough _ sl tl ds (.int i) _ level rfl
  | slice a b c => exact parseKey_passthrough _ sl tl ds (.slice a b c) _ level rfl
  | bad => exact parseKey_passthrough _ sl tl ds .other _ level (by decide)
  | name s =>
    have := generated_parseKey_item (fuel + 1) sl tl ds labels (.name s) level hl0
    simp only [itemToPy, parseItem] at this
    rw [selToPy, this, parseSel]
    cases labelIndex labels s <;> rfl
  | list l =>
    have hm : List.mapM (fun item => Generated.parseKey (fuel + 1) sl tl ds item (pyLabels labels) (level + 1))
        (l.map itemToPy) = (l.mapM (parseItem labels)).map (List.map PyVal.int) := by
      rw [Py.mapM_map]
      apply Py.mapM_congr_map
      intro a _
      exact generated_parseKey_item fuel sl tl ds labels a (level + 1) (by omega)
    simp only [selToPy, parseSel]
    unfold Generated.parseKey
    cases hr : l.mapM (parseItem labels) <;>
    simp [pyLabels, Py.isinstance, Py.isinstance1, Py.isNone, hl0, bind, Except.bind, pure,
      Except.pure, Except.map, hr, Py.extend, toPy] <;>
    simp [pyLabels, hr, Except.map] at hm <;> simp [hm]


/-- the call the three `__getitem__` make, `iomap._parse_key((rows, cols), level=1)`: the output
selector is parsed against the output labels, then the input selector against the input labels
(so an unknown output name is reported first), giving the pair of name-free selectors — the first
two steps of the model's `getitem`. -/
theorem generated_parseKey_pair {p m : Nat} (fuel : Nat) (ds : PyVal) (outs : Fin p → String)
    (ins : Fin m → String) (r c : Sel) :
    Generated.parseKey (fuel + 3) (pyLabels outs) (pyLabels ins) ds (.tuple [selToPy r, selToPy c]) .none 1
      = (parseSel outs r).bind (fun r' => (parseSel ins c).map (fun c' => .tuple [toPy r', toPy c'])) := by
  have h1 := generated_parseKey_sel fuel (pyLabels outs) (pyLabels ins) ds outs r 2 (by decide)
  have h2 := generated_parseKey_sel fuel (pyLabels outs) (pyLabels ins) ds ins c 2 (by decide)
  unfold Generated.parseKey
  cases hr : parseSel outs r <;> cases hc : parseSel ins c <;>
  simp [Py.isinstance, Py.isinstance1, Py.isNone, Py.len, Py.seqIndex, bind, Except.bind, pure, Except.pure,
    Except.map, Py.append, Py.tupleOf, Py.iter, Py.rangeInts, rangeLen, rangeList, Py.getitem, Py.toInt, h1, h2, hr, hc]


/-- non-vacuity: a name list is translated, an unknown name raises. -/
example : Generated.parseKey 3 (pyLabels !["x", "y", "z"]) (pyLabels !["a", "b"]) (.tuple [.int 3, .int 2])
    (.tuple [.list [.str "z", .int 0], .str "b"]) .none 1 = .ok (.tuple [.list [.int 2, .int 0], .int 1]) := by
  rfl
example : Generated.parseKey 3 (pyLabels !["x", "y", "z"]) (pyLabels !["a", "b"]) (.tuple [.int 3, .int 2])
    (.tuple [.str "q", .int 0]) .none 1 = .error .unknownName := by
  rfl

end CtrlVerif.C17Gen
