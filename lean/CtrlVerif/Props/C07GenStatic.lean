/-
C07, source-text tie, part 4: `InterconnectedSystem._compute_static_io`, `_rhs` and `_out`
(control/nlsys.py) as regenerated from the tree under check (`Generated/ICStatic.lean`).  The
propagation loop (its exit test, its budget of `nsys + 1` cycles, the algebraic-loop detection) is
the model's `IC.staticIO` / `IC.staticLoop` instantiated with 1-D arrays; the subsystems' output and
update functions are parameters (`PyIC.Subsys`).  `staticIO_sound` is transported.
-/
import CtrlVerif.Generated.ICStatic
import CtrlVerif.Lemmas.PyIC
import CtrlVerif.Props.C07

namespace CtrlVerif.C07Gen

open CtrlVerif.IC CtrlVerif.PyIC

variable {K : Type} [Field K] [DecidableEq K]

/-- total numbers of states / inputs / outputs of a list of subsystems. -/
def sumStates (l : List (Subsys K)) : Nat := (l.map (·.nstates)).sum
def sumIn (l : List (Subsys K)) : Nat := (l.map (·.ninputs)).sum
def sumOut (l : List (Subsys K)) : Nat := (l.map (·.noutputs)).sum

/-- the stacked subsystem outputs for the stacked states `x` and stacked subsystem inputs `ul`
(the model's `h`), from the offsets `si`, `ii` on. -/
def stackOutFrom (t : K) (x ul : List K) : List (Subsys K) → Nat → Nat → List K
  | [], _, _ => []
  | S :: rest, si, ii =>
    S.out t ((x.drop si).take S.nstates) ((ul.drop ii).take S.ninputs)
      ++ stackOutFrom t x ul rest (si + S.nstates) (ii + S.ninputs)

omit [Field K] [DecidableEq K] in
theorem sumOut_cons (S : Subsys K) (l : List (Subsys K)) : sumOut (S :: l) = S.noutputs + sumOut l := by
  simp [sumOut]
omit [Field K] [DecidableEq K] in
theorem sumIn_cons (S : Subsys K) (l : List (Subsys K)) : sumIn (S :: l) = S.ninputs + sumIn l := by
  simp [sumIn]
omit [Field K] [DecidableEq K] in
theorem sumStates_cons (S : Subsys K) (l : List (Subsys K)) :
    sumStates (S :: l) = S.nstates + sumStates l := by
  simp [sumStates]

omit [Field K] [DecidableEq K] in
theorem stackOutFrom_length (t : K) (x ul : List K) (l : List (Subsys K))
    (hout : ∀ S ∈ l, ∀ xs us, (S.out t xs us).length = S.noutputs) (si ii : Nat) :
    (stackOutFrom t x ul l si ii).length = sumOut l := by
  induction l generalizing si ii with
  | nil => rfl
  | cons S rest ih =>
    simp only [stackOutFrom, List.length_append, hout S (by simp),
      ih (fun S' hS' => hout S' (by simp [hS'])), sumOut_cons]

set_option maxHeartbeats 400000 in
/-- the loop over the subsystems inside one cycle: the outputs are written to the first part of
`ylist`, the subsystem inputs are copied to its second part. -/
theorem inner_loop (t : K) (x ul : List K) (ny : Nat)
    (body : List K × Int × Int × Int → Subsys K → Except Err (List K × Int × Int × Int))
    (hbody : ∀ (yl : List K) (si ii oi : Int) (S : Subsys K), body (yl, si, ii, oi) S = (do
      let yl1 ← setSliceVec yl oi (oi + (S.noutputs : Int))
        (S.out t (sliceVec x si (si + (S.nstates : Int))) (sliceVec ul ii (ii + (S.ninputs : Int))))
      let yl2 ← setSliceVec yl1 ((ny : Int) + ii) (((ny : Int) + ii) + (S.ninputs : Int))
        (sliceVec ul ii (ii + (S.ninputs : Int)))
      Except.ok (yl2, si + (S.nstates : Int), ii + (S.ninputs : Int), oi + (S.noutputs : Int))))
    (rest : List (Subsys K)) (hout : ∀ S ∈ rest, ∀ xs us, (S.out t xs us).length = S.noutputs)
    (si ii oi : Nat) (Yd Yr Ud Ur : List K) (hYd : Yd.length = oi) (hYr : Yr.length = sumOut rest)
    (hny : ny = oi + sumOut rest) (hUd : Ud.length = ii) (hUr : Ur.length = sumIn rest)
    (hul : ii + sumIn rest ≤ ul.length) :
    List.foldlM body (Yd ++ Yr ++ Ud ++ Ur, (si : Int), (ii : Int), (oi : Int)) rest
      = .ok (Yd ++ stackOutFrom t x ul rest si ii ++ Ud ++ (ul.drop ii).take (sumIn rest),
          ((si + sumStates rest : Nat) : Int), ((ii + sumIn rest : Nat) : Int),
          ((oi + sumOut rest : Nat) : Int)) := by
  induction rest generalizing si ii oi Yd Yr Ud Ur with
  | nil =>
    have h1 : Yr = [] := List.eq_nil_of_length_eq_zero (by simpa [sumOut] using hYr)
    have h2 : Ur = [] := List.eq_nil_of_length_eq_zero (by simpa [sumIn] using hUr)
    subst h1 h2
    simp [stackOutFrom, sumIn, sumOut, sumStates, List.foldlM]
  | cons S rest ih =>
    simp only [sumOut_cons, sumIn_cons, sumStates_cons] at hYr hny hUr hul ⊢
    have hS := hout S (by simp)
    rw [List.foldlM_cons, hbody]
    -- the output block
    have e1 : Yd ++ Yr ++ Ud ++ Ur = Yd ++ Yr.take S.noutputs ++ (Yr.drop S.noutputs ++ Ud ++ Ur) := by
      conv_lhs => rw [← List.take_append_drop S.noutputs Yr]
      simp only [List.append_assoc]
    rw [e1, setSliceVec_mid Yd (Yr.take S.noutputs) _ _ oi S.noutputs hYd
      (by rw [List.length_take]; omega) (by rw [hS])]
    simp only [ok_bind, sliceVec_natCast]
    -- the input block
    have e2 : Yd ++ S.out t ((x.drop si).take S.nstates) ((ul.drop ii).take S.ninputs)
          ++ (Yr.drop S.noutputs ++ Ud ++ Ur)
        = (Yd ++ S.out t ((x.drop si).take S.nstates) ((ul.drop ii).take S.ninputs)
            ++ Yr.drop S.noutputs ++ Ud) ++ Ur.take S.ninputs ++ Ur.drop S.ninputs := by
      conv_lhs => rw [← List.take_append_drop S.ninputs Ur]
      simp only [List.append_assoc]
    have e3 : ((ny : Int) + (ii : Int)) = ((ny + ii : Nat) : Int) := by push_cast; rfl
    rw [e2, e3, setSliceVec_mid _ (Ur.take S.ninputs) _ _ (ny + ii) S.ninputs
      (by simp only [List.length_append, hS, hYd, List.length_drop, hYr, hUd]; omega)
      (by rw [List.length_take]; omega)
      (by rw [List.length_take, List.length_drop]; omega)]
    simp only [ok_bind]
    have c1 : ((si : Int) + (S.nstates : Int)) = ((si + S.nstates : Nat) : Int) := by push_cast; rfl
    have c2 : ((ii : Int) + (S.ninputs : Int)) = ((ii + S.ninputs : Nat) : Int) := by push_cast; rfl
    have c3 : ((oi : Int) + (S.noutputs : Int)) = ((oi + S.noutputs : Nat) : Int) := by push_cast; rfl
    rw [c1, c2, c3]
    have e4 : Yd ++ S.out t ((x.drop si).take S.nstates) ((ul.drop ii).take S.ninputs)
          ++ Yr.drop S.noutputs ++ Ud ++ (ul.drop ii).take S.ninputs ++ Ur.drop S.ninputs
        = (Yd ++ S.out t ((x.drop si).take S.nstates) ((ul.drop ii).take S.ninputs))
          ++ Yr.drop S.noutputs ++ (Ud ++ (ul.drop ii).take S.ninputs) ++ Ur.drop S.ninputs := by
      simp only [List.append_assoc]
    rw [e4, ih (fun S' hS' => hout S' (by simp [hS'])) (si + S.nstates) (ii + S.ninputs)
      (oi + S.noutputs) _ _ _ _
      (by simp [hYd, hS]) (by rw [List.length_drop]; omega) (by omega)
      (by rw [List.length_append, List.length_take, List.length_drop, hUd]; omega)
      (by rw [List.length_drop]; omega) (by omega)]
    have e5 : (ul.drop ii).take (S.ninputs + sumIn rest)
        = (ul.drop ii).take S.ninputs ++ (ul.drop (ii + S.ninputs)).take (sumIn rest) := by
      rw [List.take_add, List.drop_drop]
    simp only [stackOutFrom, e5, List.append_assoc, Nat.add_assoc]

set_option maxHeartbeats 400000 in
/-- the whole loop over the subsystems, from the start of `ylist`. -/
theorem inner_loop_full (t : K) (x ul : List K) (subs : List (Subsys K))
    (body : List K × Int × Int × Int → Subsys K → Except Err (List K × Int × Int × Int))
    (hbody : ∀ (yl : List K) (si ii oi : Int) (S : Subsys K), body (yl, si, ii, oi) S = (do
      let yl1 ← setSliceVec yl oi (oi + (S.noutputs : Int))
        (S.out t (sliceVec x si (si + (S.nstates : Int))) (sliceVec ul ii (ii + (S.ninputs : Int))))
      let yl2 ← setSliceVec yl1 ((sumOut subs : Int) + ii) ((((sumOut subs : Nat) : Int) + ii) + (S.ninputs : Int))
        (sliceVec ul ii (ii + (S.ninputs : Int)))
      Except.ok (yl2, si + (S.nstates : Int), ii + (S.ninputs : Int), oi + (S.noutputs : Int))))
    (hout : ∀ S ∈ subs, ∀ xs us, (S.out t xs us).length = S.noutputs)
    (yl : List K) (hyl : yl.length = sumOut subs + sumIn subs) (hul : ul.length = sumIn subs) :
    List.foldlM body (yl, (0 : Int), (0 : Int), (0 : Int)) subs
      = .ok (stackOutFrom t x ul subs 0 0 ++ ul, (sumStates subs : Int), (sumIn subs : Int),
          (sumOut subs : Int)) := by
  have h := inner_loop t x ul (sumOut subs) body hbody subs hout 0 0 0 [] (yl.take (sumOut subs)) []
    (yl.drop (sumOut subs)) rfl (by rw [List.length_take]; omega) (by omega) rfl
    (by rw [List.length_drop]; omega) (by omega)
  simp only [List.nil_append, List.append_nil, List.take_append_drop, Nat.cast_zero, Nat.zero_add,
    List.drop_zero] at h
  rw [h, ← hul, List.take_length]

/-! ### the `while` loop is the model's `staticLoop` -/

/-- the state of the `while` loop after `n` more cycles are allowed: `(ylist, ulist, cycle_count)`. -/
def WL (step out : List K → List K) : Nat → List K → List K → List K × List K × Int
  | 0, yl, ul => (yl, ul, 0)
  | n + 1, _, ul => if ul = step ul then (out ul, ul, ((n + 1 : Nat) : Int)) else WL step out n (out ul) (step ul)

omit [Field K] in
/-- the generated `while` loop, given what its test and its body do. -/
theorem whileLoop_static (cond : List K × List K × Int → Except Err Bool)
    (body : List K × List K × Int → Except Err ((List K × List K × Int) × Bool))
    (step out : List K → List K) (nu nyu : Nat)
    (hcond : ∀ yl ul c, cond (yl, ul, c) = .ok (decide (c > 0)))
    (hstep : ∀ ul, ul.length = nu → (step ul).length = nu)
    (hout : ∀ ul, ul.length = nu → (out ul).length = nyu)
    (hbody : ∀ yl ul c, ul.length = nu → yl.length = nyu →
      body (yl, ul, c) = if ul = step ul then .ok ((out ul, ul, c), true)
        else .ok ((out ul, step ul, c - 1), false))
    (n fuel : Nat) (hf : n + 1 ≤ fuel) (yl ul : List K) (hul : ul.length = nu) (hyl : yl.length = nyu) :
    whileLoop cond body fuel (yl, ul, (n : Int)) = .ok (WL step out n yl ul) := by
  induction n generalizing fuel yl ul with
  | zero =>
    obtain ⟨f, rfl⟩ : ∃ f, fuel = f + 1 := ⟨fuel - 1, by omega⟩
    simp [whileLoop, hcond, WL, Except.bind]
  | succ n ih =>
    obtain ⟨f, rfl⟩ : ∃ f, fuel = f + 1 := ⟨fuel - 1, by omega⟩
    have hpos : decide (((n + 1 : Nat) : Int) > 0) = true := by simp
    simp only [whileLoop, hcond, hpos, Except.bind, if_true, hbody yl ul _ hul hyl, WL]
    by_cases he : ul = step ul
    · simp [he.symm]
    · have hc : (((n + 1 : Nat) : Int) - 1) = (n : Int) := by push_cast; ring
      simp only [he, if_false, Bool.false_eq_true, hc]
      exact ih f (by omega) (out ul) (step ul) (hstep ul hul) (hout ul hul)

omit [Field K] in
/-- the loop state and the model's `staticLoop`: a fixed point found within the budget leaves a
positive counter and `ylist = out ulist`; otherwise the counter is `0`. -/
theorem WL_staticLoop (step out : List K → List K) (n : Nat) (yl ul : List K) :
    match staticLoop step n ul with
    | .ok u' => ∃ k : Nat, 0 < k ∧ WL step out n yl ul = (out u', u', (k : Int))
    | .error _ => (WL step out n yl ul).2.2 = 0 := by
  induction n generalizing yl ul with
  | zero => simp [staticLoop, WL]
  | succ n ih =>
    simp only [staticLoop, WL]
    by_cases he : ul = step ul
    · simp only [he.symm, if_true]
      exact ⟨n + 1, by omega, by simp [he.symm]⟩
    · simp only [he, if_false]
      exact ih (out ul) (step ul)

omit [Field K] in
theorem staticLoop_error_kind {V : Type} [DecidableEq V] (step : V → V) (n : Nat) (u : V) (e : Err)
    (h : staticLoop step n u = .error e) : e = .illPosed := by
  induction n generalizing u with
  | zero => simp [staticLoop] at h; exact h.symm
  | succ n ih =>
    simp only [staticLoop] at h
    split at h
    · cases h
    · exact ih _ h

/-! ### `_compute_static_io` -/

/-- `M @ v` as a total function (missing entries of `v` read 0; `matVec` raises instead). -/
def matVecT (M : PMat K) (v : List K) : List K :=
  List.ofFn fun i : Fin M.r => ∑ j : Fin M.c, M.M i j * v.getD j.val 0

omit [DecidableEq K] in
theorem matVec_eq (M : PMat K) (v : List K) (h : v.length = M.c) : matVec M v = .ok (matVecT M v) := by
  simp only [matVec, h, dite_true, matVecT]
  congr 2
  funext i
  apply Finset.sum_congr rfl
  intro j _
  have hj : j.val < v.length := by rw [h]; exact j.isLt
  simp [List.getD_eq_getElem?_getD, List.getElem?_eq_getElem hj]

omit [DecidableEq K] in
theorem matVecT_length (M : PMat K) (v : List K) : (matVecT M v).length = M.r := by simp [matVecT]

/-- the stacked subsystem outputs as a function of the stacked subsystem inputs (the model's `h`). -/
def hOut (subs : List (Subsys K)) (t : K) (x ul : List K) : List K := stackOutFrom t x ul subs 0 0

/-- one cycle: the new subsystem inputs (the model's `step`). -/
def stepU (cm im : PMat K) (subs : List (Subsys K)) (t : K) (x u ul : List K) : List K :=
  List.zipWith (· + ·) (matVecT cm (hOut subs t x ul)) (matVecT im u)

set_option maxHeartbeats 800000 in
/-- **`_compute_static_io` as the source text defines it is the model's `staticIO`** on 1-D arrays:
for subsystems whose output functions return arrays of the declared sizes and maps of the sizes
`__init__` creates, with `ylist` = subsystem outputs followed by subsystem inputs; raises "algebraic
loop" exactly when the model does. -/
theorem generated_computeStaticIO_eq (fuel : Nat) (cm im : PMat K) (subs : List (Subsys K)) (t : K)
    (x u : List K) (hcr : cm.r = sumIn subs) (hcc : cm.c = sumOut subs) (hir : im.r = cm.r)
    (hic : im.c = u.length) (hout : ∀ S ∈ subs, ∀ xs us, (S.out t xs us).length = S.noutputs)
    (hfuel : subs.length + 2 ≤ fuel) :
    Generated.icComputeStaticIO fuel cm im subs t x u
      = (staticIO subs.length (hOut subs t x) (matVecT cm) (List.zipWith (· + ·)) (matVecT im u)).map
          fun r => (r.1, r.2 ++ r.1) := by
  have hr : matVec im u = .ok (matVecT im u) := matVec_eq im u hic.symm
  have hrl : (matVecT im u).length = sumIn subs := by rw [matVecT_length, hir, hcr]
  have hhl : ∀ ul, (hOut subs t x ul).length = sumOut subs :=
    fun ul => stackOutFrom_length t x ul subs hout 0 0
  have hc1 : ((subs.length : Int) + 1) = ((subs.length + 1 : Nat) : Int) := by push_cast; rfl
  unfold Generated.icComputeStaticIO
  simp only [hr, ok_bind, pure_eq_ok, hc1]
  rw [whileLoop_static _ _ (stepU cm im subs t x u) (fun ul => hOut subs t x ul ++ ul) (sumIn subs)
    (sumOut subs + sumIn subs)
    (fun yl ul c => rfl)
    (fun ul hul => by
      simp only [stepU, List.length_zipWith, matVecT_length, hcr, hir]; omega)
    (fun ul hul => by simp only [List.length_append, hhl, hul])
    (fun yl ul c hul hyl => by
      have hsl : sliceVec (hOut subs t x ul ++ ul) 0 (cm.c : Int) = hOut subs t x ul := by
        rw [sliceVec_zero_natCast, hcc, ← hhl ul, List.take_left]
      have hm : matVec cm (hOut subs t x ul) = .ok (matVecT cm (hOut subs t x ul)) :=
        matVec_eq cm _ (by rw [hhl, hcc])
      have ha : addVec (matVecT cm (hOut subs t x ul)) (matVecT im u) = .ok (stepU cm im subs t x u ul) := by
        simp [addVec, matVecT_length, hir, stepU]
      simp only []
      rw [inner_loop_full t x ul subs _ (fun yl si ii oi S => by rw [hcc]) hout yl (by rw [hyl]) hul]
      simp only [hOut] at hsl hm ha
      simp only [ok_bind, hsl, hm, hr, ha]
      by_cases he : ul = stepU cm im subs t x u ul
      · have hq : eqAll ul (stepU cm im subs t x u ul) = true := decide_eq_true he
        simp only [hq, if_true, if_pos he]
        rfl
      · have hq : eqAll ul (stepU cm im subs t x u ul) = false := decide_eq_false he
        simp only [hq, Bool.false_eq_true, if_false, if_neg he]
        rfl)
    (subs.length + 1) fuel (by omega) _ _ hrl (by simp [zerosVec, hcr, hcc])]
  have hw := WL_staticLoop (stepU cm im subs t x u) (fun ul => hOut subs t x ul ++ ul)
    (subs.length + 1) (zerosVec (cm.c + cm.r)) (matVecT im u)
  have hs : staticLoop (fun u' => List.zipWith (· + ·) (matVecT cm (hOut subs t x u')) (matVecT im u))
      (subs.length + 1) (matVecT im u)
      = staticLoop (stepU cm im subs t x u) (subs.length + 1) (matVecT im u) := rfl
  simp only [staticIO, hs, ok_bind]
  cases hsl : staticLoop (stepU cm im subs t x u) (subs.length + 1) (matVecT im u) with
  | error e =>
    rw [hsl] at hw
    have he : e = .illPosed := staticLoop_error_kind _ _ _ _ hsl
    simp [hw, he]
  | ok u' =>
    rw [hsl] at hw
    obtain ⟨k, hk, hwl⟩ := hw
    have hk0 : ¬ (k = 0) := by omega
    simp [hwl, hk0]

/-! ### `_out` and `_rhs` -/

omit [Field K] in
theorem staticLoop_invariant {V : Type} [DecidableEq V] (step : V → V) (P : V → Prop)
    (hP : ∀ v, P v → P (step v)) (n : Nat) (u u' : V) (h : staticLoop step n u = .ok u') (hu : P u) :
    P u' := by
  induction n generalizing u with
  | zero => simp [staticLoop] at h
  | succ n ih =>
    simp only [staticLoop] at h
    split at h
    · injection h with h; subst h; exact hu
    · exact ih _ h (hP u hu)

/-- the subsystem inputs `_compute_static_io` returns have the length of the input offsets. -/
theorem staticIO_length (cm im : PMat K) (subs : List (Subsys K)) (t : K) (x u : List K)
    (hcr : cm.r = sumIn subs) (hir : im.r = cm.r) (ul y : List K)
    (h : staticIO subs.length (hOut subs t x) (matVecT cm) (List.zipWith (· + ·)) (matVecT im u)
      = .ok (ul, y)) : ul.length = sumIn subs ∧ y = hOut subs t x ul := by
  simp only [staticIO] at h
  cases hs : staticLoop (fun u' => List.zipWith (· + ·) (matVecT cm (hOut subs t x u')) (matVecT im u))
      (subs.length + 1) (matVecT im u) with
  | error e => simp [hs] at h
  | ok u' =>
    simp only [hs, map_ok, Except.ok.injEq, Prod.mk.injEq] at h
    obtain ⟨rfl, rfl⟩ := h
    refine ⟨?_, rfl⟩
    exact staticLoop_invariant _ (fun v => v.length = sumIn subs)
      (fun v _ => by simp only [List.length_zipWith, matVecT_length, hcr, hir]; omega)
      _ _ _ hs (by rw [matVecT_length, hir, hcr])

/-- **`_out` as the source text defines it**: `output_map @ ylist` at the solution of the static
equations. -/
theorem generated_out_eq (fuel : Nat) (cm im om : PMat K) (subs : List (Subsys K)) (t : K)
    (x u : List K) (hcr : cm.r = sumIn subs) (hcc : cm.c = sumOut subs) (hir : im.r = cm.r)
    (hic : im.c = u.length) (hoc : om.c = sumOut subs + sumIn subs)
    (hout : ∀ S ∈ subs, ∀ xs us, (S.out t xs us).length = S.noutputs)
    (hfuel : subs.length + 2 ≤ fuel) :
    Generated.icOut fuel cm im subs om t x u
      = (staticIO subs.length (hOut subs t x) (matVecT cm) (List.zipWith (· + ·)) (matVecT im u)).map
          fun r => matVecT om (r.2 ++ r.1) := by
  simp only [Generated.icOut, generated_computeStaticIO_eq fuel cm im subs t x u hcr hcc hir hic hout hfuel]
  cases hs : staticIO subs.length (hOut subs t x) (matVecT cm) (List.zipWith (· + ·)) (matVecT im u) with
  | error e => rfl
  | ok r =>
    obtain ⟨ul, y⟩ := r
    obtain ⟨hl, rfl⟩ := staticIO_length cm im subs t x u hcr hir ul y hs
    have hlen : (hOut subs t x ul ++ ul).length = om.c := by
      rw [List.length_append, hl, hoc, hOut, stackOutFrom_length t x ul subs hout]
    simp [matVec_eq om _ hlen]

/-- the stacked right-hand sides of the subsystems for stacked states `x` and subsystem inputs `ul`. -/
def stackRhsFrom (t : K) (x ul : List K) : List (Subsys K) → Nat → Nat → List K
  | [], _, _ => []
  | S :: rest, si, ii =>
    S.rhs t ((x.drop si).take S.nstates) ((ul.drop ii).take S.ninputs)
      ++ stackRhsFrom t x ul rest (si + S.nstates) (ii + S.ninputs)

set_option maxHeartbeats 400000 in
/-- the loop of `_rhs` over the subsystems. -/
theorem rhs_loop (t : K) (x ul : List K)
    (body : List K × Int × Int → Subsys K → Except Err (List K × Int × Int))
    (hbody : ∀ (xd : List K) (si ii : Int) (S : Subsys K), body (xd, si, ii) S = (do
      let xd' ← (if decide ((S.nstates : Int) ≠ 0) = true then
          setSliceVec xd si (si + (S.nstates : Int))
            (S.rhs t (sliceVec x si (si + (S.nstates : Int))) (sliceVec ul ii (ii + (S.ninputs : Int))))
        else Except.ok xd : Except Err (List K))
      Except.ok (xd', si + (S.nstates : Int), ii + (S.ninputs : Int))))
    (rest : List (Subsys K)) (hr : ∀ S ∈ rest, ∀ xs us, (S.rhs t xs us).length = S.nstates)
    (si ii : Nat) (Xd Xr : List K) (hXd : Xd.length = si) (hXr : Xr.length = sumStates rest) :
    List.foldlM body (Xd ++ Xr, (si : Int), (ii : Int)) rest
      = .ok (Xd ++ stackRhsFrom t x ul rest si ii, ((si + sumStates rest : Nat) : Int),
          ((ii + sumIn rest : Nat) : Int)) := by
  induction rest generalizing si ii Xd Xr with
  | nil =>
    have h1 : Xr = [] := List.eq_nil_of_length_eq_zero (by simpa [sumStates] using hXr)
    subst h1
    simp [stackRhsFrom, sumIn, sumStates, List.foldlM]
  | cons S rest ih =>
    simp only [sumIn_cons, sumStates_cons] at hXr ⊢
    have hS := hr S (by simp)
    rw [List.foldlM_cons, hbody]
    have c1 : ((si : Int) + (S.nstates : Int)) = ((si + S.nstates : Nat) : Int) := by push_cast; rfl
    have c2 : ((ii : Int) + (S.ninputs : Int)) = ((ii + S.ninputs : Nat) : Int) := by push_cast; rfl
    have e1 : Xd ++ Xr = Xd ++ Xr.take S.nstates ++ Xr.drop S.nstates := by
      rw [List.append_assoc, List.take_append_drop]
    have hset : (if decide ((S.nstates : Int) ≠ 0) = true then
          setSliceVec (Xd ++ Xr) si (si + (S.nstates : Int))
            (S.rhs t (sliceVec x si (si + (S.nstates : Int))) (sliceVec ul ii (ii + (S.ninputs : Int))))
        else Except.ok (Xd ++ Xr) : Except Err (List K))
        = .ok (Xd ++ S.rhs t ((x.drop si).take S.nstates) ((ul.drop ii).take S.ninputs)
            ++ Xr.drop S.nstates) := by
      by_cases h0 : S.nstates = 0
      · have hz : (S.rhs t ((x.drop si).take S.nstates) ((ul.drop ii).take S.ninputs)).length = 0 := by
          rw [hS]; exact h0
        have hnil : S.rhs t ((x.drop si).take S.nstates) ((ul.drop ii).take S.ninputs) = [] :=
          List.eq_nil_of_length_eq_zero hz
        have hd : decide ((S.nstates : Int) ≠ 0) = false := by simp [h0]
        rw [hd, hnil]
        simp [h0]
      · have hne : decide ((S.nstates : Int) ≠ 0) = true := by simp; omega
        rw [if_pos hne, e1, sliceVec_natCast, sliceVec_natCast,
          setSliceVec_mid Xd (Xr.take S.nstates) _ _ si S.nstates hXd
            (by rw [List.length_take]; omega) (by rw [hS])]
    rw [hset]
    simp only [ok_bind, c1, c2]
    rw [ih (fun S' hS' => hr S' (by simp [hS'])) (si + S.nstates) (ii + S.ninputs) _ _
      (by simp [hXd, hS]) (by rw [List.length_drop]; omega)]
    simp only [stackRhsFrom, List.append_assoc, Nat.add_assoc]

theorem rhs_loop_full (t : K) (x ul : List K)
    (body : List K × Int × Int → Subsys K → Except Err (List K × Int × Int))
    (hbody : ∀ (xd : List K) (si ii : Int) (S : Subsys K), body (xd, si, ii) S = (do
      let xd' ← (if decide ((S.nstates : Int) ≠ 0) = true then
          setSliceVec xd si (si + (S.nstates : Int))
            (S.rhs t (sliceVec x si (si + (S.nstates : Int))) (sliceVec ul ii (ii + (S.ninputs : Int))))
        else Except.ok xd : Except Err (List K))
      Except.ok (xd', si + (S.nstates : Int), ii + (S.ninputs : Int))))
    (subs : List (Subsys K)) (hr : ∀ S ∈ subs, ∀ xs us, (S.rhs t xs us).length = S.nstates)
    (Xr : List K) (hXr : Xr.length = sumStates subs) :
    List.foldlM body (Xr, (0 : Int), (0 : Int)) subs
      = .ok (stackRhsFrom t x ul subs 0 0, (sumStates subs : Int), (sumIn subs : Int)) := by
  have h := rhs_loop t x ul body hbody subs hr 0 0 [] Xr rfl hXr
  simpa using h

/-- **`_rhs` as the source text defines it**: the stacked right-hand sides of the subsystems at the
solution of the static equations. -/
theorem generated_rhs_eq (fuel : Nat) (cm im : PMat K) (subs : List (Subsys K)) (nstates : Nat) (t : K)
    (x u : List K) (hcr : cm.r = sumIn subs) (hcc : cm.c = sumOut subs) (hir : im.r = cm.r)
    (hic : im.c = u.length) (hns : nstates = sumStates subs)
    (hout : ∀ S ∈ subs, ∀ xs us, (S.out t xs us).length = S.noutputs)
    (hrhs : ∀ S ∈ subs, ∀ xs us, (S.rhs t xs us).length = S.nstates)
    (hfuel : subs.length + 2 ≤ fuel) :
    Generated.icRhs fuel cm im subs nstates t x u
      = (staticIO subs.length (hOut subs t x) (matVecT cm) (List.zipWith (· + ·)) (matVecT im u)).map
          fun r => stackRhsFrom t x r.1 subs 0 0 := by
  simp only [Generated.icRhs, generated_computeStaticIO_eq fuel cm im subs t x u hcr hcc hir hic hout hfuel]
  cases hs : staticIO subs.length (hOut subs t x) (matVecT cm) (List.zipWith (· + ·)) (matVecT im u) with
  | error e => rfl
  | ok r =>
    obtain ⟨ul, y⟩ := r
    show (do
      let r ← Except.ok (ul, y ++ ul)
      _) = _
    rw [ok_bind]
    simp only []
    rw [rhs_loop_full t x ul _ (fun xd si ii S => rfl) subs hrhs (zerosVec nstates)
      (by simp [zerosVec, hns])]
    rfl

end CtrlVerif.C07Gen
