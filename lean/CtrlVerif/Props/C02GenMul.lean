/-
Source-text tie of C02, part 2: `StateSpace.__mul__` and `StateSpace.__rmul__`.
`Generated/SSMul.lean` is rewritten from control/statesp.py on every run
(harness/core/py2lean_ss.py); the theorems below prove the run-time model operators `DSS.mul`,
`DSS.rmul` (`Model/SSDyn.lean`: `mulScalar`, `mulArray`, `rmulArray`, `mulSS`, `rmulSS`) EQUAL to the
generated functions for every kind of operand, all sizes, entries and timebases - including the
SISO broadcast `bdalg.append(*([g] * k))`, the dimension checks and the order of the states.
-/
import CtrlVerif.Generated.SSMul
import CtrlVerif.Props.C02GenBasic

namespace CtrlVerif.C02Gen

open Matrix CtrlVerif

variable {K : Type} [Field K] [DecidableEq K]

/-- `bdalg.append(*([g] * k))` with the generated `append` is the model's `appendN`. -/
theorem generated_appendCopies_eq (g : DSS K) (k : Nat) :
    PySS.appendCopies Generated.ssAppend g k = DSS.appendN g k := by
  induction k using Nat.strongRecOn with
  | _ k ih =>
    match k with
    | 0 => rfl
    | 1 => rfl
    | k + 2 =>
      rw [PySS.appendCopies, ih (k + 1) (by omega), DSS.appendN_succ g (k + 1) (by omega)]
      exact Except.bind_congr' fun a => by rw [generated_append_eq]; rfl

/-- `self * c` for a number. -/
theorem generated_mul_scalar (G : DSS K) (c : K) :
    Generated.ssMul G (.scalar c) = DSS.mul G (.scalar c) := by
  obtain ⟨n, p, m, ⟨A, B, C, D⟩, dt⟩ := G
  simp [Generated.ssMul, PySS.A, PySS.B, PySS.C, PySS.D, DSS.mul, DSS.mulScalar, SS.smulRight, pure,
    Except.pure]

/-- `self * M` for a 2-D array. -/
theorem generated_mul_array (G : DSS K) (q r : Nat) (M : Matrix (Fin q) (Fin r) K) :
    Generated.ssMul G (.array q r M) = DSS.mul G (.array q r M) := by
  simp only [Generated.ssMul, DSS.mul, DSS.mulArray_eq, generated_appendCopies_eq, PySS.issiso_eq,
    PMat.atleast2d_eq]
  simp only [bind, pure, Except.pure]
  refine Except.bind_congr' fun G' => ?_
  obtain ⟨n, p, m, ⟨A, B, C, D⟩, dt⟩ := G'
  unfold DSS.mulArrayCore
  simp only [PySS.A, PySS.B, PySS.C, PySS.D]
  by_cases h : m = q
  · subst h
    simp [Except.bind, SS.castIO_rfl, SS.mulConst]
  · simp [h, throw, throwThe, MonadExceptOf.throw]

/-- `self * other` for two systems. -/
theorem generated_mul_sys (G H : DSS K) :
    Generated.ssMul G (.sys H) = DSS.mul G (.sys H) := by
  simp only [Generated.ssMul, DSS.mul, DSS.mulSS_eq, generated_appendCopies_eq, PySS.issiso_eq]
  simp only [bind]
  refine Except.pair_join ?_ fun G' H' => ?_
  · cases hG : G.isSiso <;> cases hH : H.isSiso <;> simp [Except.bind, pure, Except.pure]
  · obtain ⟨n, p, m, ⟨A, B, C, D⟩, dt⟩ := G'
    obtain ⟨n', p', m', ⟨A', B', C', D'⟩, dt'⟩ := H'
    unfold DSS.mulCore
    simp only [PySS.A, PySS.B, PySS.C, PySS.D]
    by_cases h : m = p'
    · subst h
      simp [Except.bind, SS.castIO_rfl]
      cases common dt dt' with
      | error e => rfl
      | ok d => simp [SS.mul, SS.flatS, SS.reindex, PMat.vcat_hcat_blocks]
    · simp [h, throw, throwThe, MonadExceptOf.throw]

/-- **`__mul__`**: the function the source text defines is the model's `DSS.mul`, for every kind of
right operand. -/
theorem generated_mul_eq (G : DSS K) (x : SOperand K) : Generated.ssMul G x = DSS.mul G x := by
  cases x with
  | sys H => exact generated_mul_sys G H
  | scalar c => exact generated_mul_scalar G c
  | array q r M => exact generated_mul_array G q r M

/-- `c * self` for a number. -/
theorem generated_rmul_scalar (G : DSS K) (c : K) :
    Generated.ssRmul G (.scalar c) = DSS.rmul G (.scalar c) := by
  obtain ⟨n, p, m, ⟨A, B, C, D⟩, dt⟩ := G
  simp [Generated.ssRmul, PySS.A, PySS.B, PySS.C, PySS.D, DSS.rmul, DSS.mulScalar, SS.smulRight, pure,
    Except.pure]

/-- `M * self` for a 2-D array. -/
theorem generated_rmul_array (G : DSS K) (q r : Nat) (M : Matrix (Fin q) (Fin r) K) :
    Generated.ssRmul G (.array q r M) = DSS.rmul G (.array q r M) := by
  simp only [Generated.ssRmul, DSS.rmul, DSS.rmulArray_eq, generated_appendCopies_eq, PySS.issiso_eq,
    PMat.atleast2d_eq]
  simp only [bind, pure, Except.pure]
  refine Except.bind_congr' fun G' => ?_
  obtain ⟨n, p, m, ⟨A, B, C, D⟩, dt⟩ := G'
  unfold DSS.rmulArrayCore
  simp only [PySS.A, PySS.B, PySS.C, PySS.D]
  by_cases h : p = r
  · subst h
    simp [Except.bind, SS.castIO_rfl, SS.constMul]
  · simp [h, throw, throwThe, MonadExceptOf.throw]

/-- `other * self` for a system on the left: promotion, then `other.__mul__(self)`. -/
theorem generated_rmul_sys (G H : DSS K) :
    Generated.ssRmul G (.sys H) = DSS.rmul G (.sys H) := by
  simp only [Generated.ssRmul, DSS.rmul, DSS.rmulSS_eq, generated_appendCopies_eq, PySS.issiso_eq]
  simp only [bind]
  refine Except.pair_join ?_ fun G' H' => ?_
  · cases hG : G.isSiso <;> cases hH : H.isSiso <;> simp [Except.bind, pure, Except.pure]
  · exact generated_mul_sys H' G'

/-- **`__rmul__`**: the function the source text defines is the model's `DSS.rmul`, for every kind
of left operand. -/
theorem generated_rmul_eq (G : DSS K) (x : SOperand K) : Generated.ssRmul G x = DSS.rmul G x := by
  cases x with
  | sys H => exact generated_rmul_sys G H
  | scalar c => exact generated_rmul_scalar G c
  | array q r M => exact generated_rmul_array G q r M

end CtrlVerif.C02Gen
