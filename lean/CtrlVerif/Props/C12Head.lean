/-
C12 — theorems about the model of the HEAD of `stability_margins` (`Model/MarginsHead.lean`): what the
argument dispatch and the `method` resolution guarantee, for every `Env` (object classes, constructor
calls, `issiso`, `isctime`, the numerical-inaccuracy switch are arbitrary), every field, every input.
`Props/C12GenHead.lean` proves the model equal to the function regenerated from the source text and
transports these theorems to it.
-/
import CtrlVerif.Model.MarginsHead

namespace CtrlVerif.C12Head

open CtrlVerif CtrlVerif.Margins CtrlVerif.PyHeads CtrlVerif.MarginsHead

section
variable {K TF FRD Oth : Type} [Field K] [LinearOrder K]
variable (E : Env K TF FRD Oth) (P : PyMarg.Prims K)

/-- a step that returns its argument as the caller's data leaves it unchanged after any history. -/
theorem afterCalls_pure (step : SysData K TF FRD Oth → Except Err (Route TF FRD × SysData K TF FRD Oth))
    (hstep : ∀ d r, step d = .ok r → r.2 = d) (n : Nat) (d : SysData K TF FRD Oth) :
    afterCalls step n d = d := by
  induction n generalizing d with
  | zero => rfl
  | succ n ih =>
    unfold afterCalls
    cases h : step d with
    | ok r => simp only []; rw [hstep d r h]; exact ih d
    | error e => exact ih d

theorem headStep_snd (method : String) (d : SysData K TF FRD Oth) (r) (h : headStep E P method d = .ok r) :
    r.2 = d := by
  unfold headStep at h
  cases hh : head E P d method with
  | ok v => rw [hh] at h; cases h; rfl
  | error e => rw [hh] at h; cases h

/-- **The (mag, phase, omega) route is pure**: whatever calls of `stability_margins` (any methods `ms i`) were
made before on the caller's 3-sequence, the three arrays are unchanged afterwards, and the call builds the same
FRD route as on a fresh copy. -/
theorem bode_data_route_pure (method : String) (n : Nat) (mag phase omega : List K) :
    afterCalls (headStep E P method) n (.seq [mag, phase, omega]) = .seq [mag, phase, omega] ∧
    headStep E P method (afterCalls (headStep E P method) n (.seq [mag, phase, omega]))
      = (((bodeData E P mag phase omega).map Sys.frd |> asValueError).bind fun s =>
          (resolve E P method s).map (routeOf E)).map fun r => (r, .seq [mag, phase, omega]) := by
  have h := afterCalls_pure (headStep E P method) (headStep_snd E P method) n (.seq [mag, phase, omega])
  refine ⟨h, ?_⟩
  rw [h]
  rfl

/-- the response built from Bode data has one entry per sample, `mag_k · exp(j · phase_k · π / 180)`. -/
theorem bodeResp_entries (mag phase : List K) (h : mag.length = phase.length) :
    bodeResp P mag phase =
      .ok (List.zipWith (fun m p => rmulc m (P.expj (p * P.pi / 180))) mag phase) := by
  unfold bodeResp PyMarg.zipB
  simp only [List.length_map, h, if_true]
  congr 1
  rw [List.zipWith_map_right]

theorem asValueError_error {α : Type} (x : Except Err α) (e : Err) (h : asValueError x = .error e) :
    e = .badArg := by
  cases x with
  | ok v => simp [asValueError] at h
  | error a => simp [asValueError] at h; exact h.symm

/-- every failure inside the dispatch is a `ValueError`, for every argument. -/
theorem dispatch_error_is_valueError (d : SysData K TF FRD Oth) (e : Err) (h : dispatch E P d = .error e) :
    e = .badArg := by
  cases d with
  | frd f => cases h
  | tf g => cases h
  | seq items =>
    simp only [dispatch] at h
    unfold dispatchSeq at h
    split at h <;> exact asValueError_error _ _ h
  | iterNoLen o => cases h; rfl
  | other o => exact asValueError_error _ _ h

/-- a sequence that does not have exactly three items is converted like any other array_like. -/
theorem seq_not3_converts (items : List (List K)) (h : items.length ≠ 3) :
    dispatch E P (.seq items) = asValueError ((E.convertSeq items).map Sys.tf) := by
  simp only [dispatch]
  unfold dispatchSeq
  split
  · simp at h
  · rfl

/-- **An FRD operand forces the numerical route**, whatever known method is asked for. -/
theorem frd_forces_frd (f : FRD) (method : String) (hs : E.issisoFRD (E.frdCopy f true) = true)
    (hm : knownMethod method = true) :
    head E P (.frd f) method = .ok (.frd (E.frdCopy f true)) := by
  simp [head, dispatch, resolve, hs, hm, routeOf, Except.bind, Except.map]

/-- `method='poly'` never leaves the polynomial route for a SISO transfer function; the builders are
those of its time domain. -/
theorem poly_keeps_tf (g : TF) (hs : E.issisoTF g = true) :
    head E P (.tf g) "poly" = .ok (.poly (builders E g) g) := by
  simp [head, dispatch, resolve, hs, routeOf, Except.bind, Except.map]

/-- `method='best'` on a continuous-time transfer function: polynomial route, `_poly_iw`; the switch is not
even consulted. -/
theorem best_continuous (g : TF) (hs : E.issisoTF g = true) (hc : E.isctime g = true) :
    head E P (.tf g) "best" = .ok (.poly .iw g) := by
  simp [head, dispatch, resolve, fallback, hs, hc, routeOf, builders, Except.bind, Except.map]

/-- `method='best'` on a discrete-time transfer function: the switch alone decides. -/
theorem best_discrete (g : TF) (hs : E.issisoTF g = true) (hc : E.isctime g = false) :
    head E P (.tf g) "best" =
      (E.likely g).bind fun l =>
        if l then (belowNyquist E P g).map fun om => Route.frd (E.frdOfTF g om true)
        else .ok (.poly .zinvz g) := by
  simp only [head, dispatch, resolve, fallback, hs, hc, Except.bind, if_true]
  cases hl : E.likely g with
  | error e => simp [Except.map]
  | ok l =>
    cases l
    · simp [routeOf, builders, hc, Except.map]
    · simp only [if_true]
      cases belowNyquist E P g <;> simp [routeOf, Except.map]

/-- an unknown method string is a `ValueError` for every SISO operand. -/
theorem unknown_method_raises (s : Sys TF FRD) (method : String) (hm : knownMethod method = false)
    (hs : match s with | .tf g => E.issisoTF g = true | .frd f => E.issisoFRD f = true) :
    resolve E P method s = .error .badArg := by
  simp only [knownMethod, Bool.or_eq_false_iff, decide_eq_false_iff_not] at hm
  cases s with
  | tf g => simp only at hs; simp [resolve, hs, hm.1.1, hm.1.2, hm.2]
  | frd f => simp only at hs; simp [resolve, hs, knownMethod, hm.1.1, hm.1.2, hm.2]

/-- a MIMO operand is refused before the method is looked at. -/
theorem mimo_raises (s : Sys TF FRD) (method : String)
    (hs : match s with | .tf g => E.issisoTF g = false | .frd f => E.issisoFRD f = false) :
    resolve E P method s = .error .notImplemented := by
  cases s with
  | tf g => simp only at hs; simp [resolve, hs]
  | frd f => simp only at hs; simp [resolve, hs]

/-- the builders named by the route are `_poly_iw` exactly in continuous time. -/
theorem route_builders (d : SysData K TF FRD Oth) (method : String) (b : Builders) (g : TF)
    (h : head E P d method = .ok (.poly b g)) : (b = .iw ↔ E.isctime g = true) := by
  unfold head at h
  cases hd : dispatch E P d with
  | error e => rw [hd] at h; cases h
  | ok s =>
    rw [hd] at h
    simp only [Except.bind] at h
    cases hr : resolve E P method s with
    | error e => rw [hr] at h; cases h
    | ok s' =>
      rw [hr] at h
      cases s' with
      | frd f => cases h
      | tf g' =>
        simp only [Except.map, routeOf, Except.ok.injEq, Route.poly.injEq] at h
        obtain ⟨hb, hg⟩ := h
        subst hg
        rw [← hb]
        unfold builders
        by_cases hc : E.isctime g' = true <;> simp [hc]

end

/-! ### non-vacuity: a toy environment over ℚ -/

section
open PyHeads

/-- toy objects: a transfer function is (continuous?, SISO?, switch), an FRD its frequency grid. -/
def toyEnv : Env ℚ (Bool × Bool × Bool) (List ℚ) Unit where
  frdCopy f _ := f
  frdOfData r om _ := if r.length = om.length then .ok om else .error .shape
  frdOfTF _ om _ := om
  convertSeq _ := .error .notImplemented
  convertOther _ := .ok (true, true, false)
  issisoTF g := g.2.1
  issisoFRD _ := true
  isctime g := g.1
  dt _ := 1
  defaultRange _ := [1, 2, 3, 4]
  likely g := .ok g.2.2

def toyPrims : PyMarg.Prims ℚ where
  npRoots _ := []
  cabs z := z.re
  angle _ := 0
  angleDeg _ := 0
  log x := x
  pi := 3
  epsPow _ := 0
  pow10 _ := 1
  expj x := ⟨1, x⟩

example : head toyEnv toyPrims (.seq [[2, 3], [0, 60], [1, 10]]) "best" = .ok (.frd [1, 10]) := by decide +kernel
example : head toyEnv toyPrims (.seq [[2, 3], [0, 60], [1]]) "best" = .error .badArg := by decide +kernel
example : head toyEnv toyPrims (.seq [[2, 3], [0, 60]]) "best" = .error .badArg := by decide +kernel
example : head toyEnv toyPrims (.tf (false, true, true)) "best" = .ok (.frd [1, 2]) := by decide +kernel
example : head toyEnv toyPrims (.tf (false, true, true)) "poly" = .ok (.poly .zinvz (false, true, true)) := by
  decide +kernel
example : head toyEnv toyPrims (.tf (true, true, true)) "best" = .ok (.poly .iw (true, true, true)) := by
  decide +kernel
example : head toyEnv toyPrims (.tf (true, true, true)) "frd" = .ok (.frd [1, 2, 3, 4]) := by decide +kernel
example : head toyEnv toyPrims (.tf (true, false, true)) "frd" = .error .notImplemented := by decide +kernel
example : head toyEnv toyPrims (.tf (true, true, true)) "fast" = .error .badArg := by decide +kernel
example : head toyEnv toyPrims (.other ()) "poly" = .ok (.poly .iw (true, true, false)) := by decide +kernel
example : head toyEnv toyPrims (.iterNoLen ()) "poly" = .error .badArg := by decide +kernel
example : bodeResp toyPrims [2, 3] [0, 60] = .ok [⟨2, 0⟩, ⟨3, 3⟩] := by decide +kernel

end

end CtrlVerif.C12Head
