/-
C13 — `nyquist_response` on a *list* of loops (model: `Model/NyquistList.lean`).

What is proved (over any ordered field with floor; the driver runs the model over `ℚ`)
* `listOmega_eq_map`, `listOmega_length`, `listOmega_getElem` — the loop over the systems gives every system the
  vector `sysOmega` of the *initial* common grid and of its *own* timebase: no system sees what was done for the
  systems before it (the common vector is handed from iteration to iteration unchanged: `listOmega_common_unchanged`);
* `listOmega_append`, `listOmega_reverse`, `listOmega_perm` — equivariance under reordering the list;
* `listOmega_continuous` — a continuous-time (or unspecified-timebase) loop gets the whole common grid wherever it
  stands in the list, in particular after a discrete-time loop; `listOmega_discrete_last` — a discrete-time loop ends
  at its own Nyquist frequency; `listOmega_discrete_keeps` — and keeps every common grid point below it (so a
  faster-sampled loop after a slowly sampled one still runs up to its own Nyquist frequency);
* `listDefaultOmega_singleton` — a list of one system is the single-system model `defaultOmegaDt`;
  `listDefaultOmega_member` — every member of a list gets what `defaultOmegaDt` gives it on the common grid;
* `list_range_covers`, `list_range_interesting` — the common grid extends at least 3/2 decades beyond every feature of
  every system of the list and contains `0.9 pi/dt` of every discrete-time system;
  `listExponents_singleton`, `listExponents_no_features` (a system without features, e.g. a pure integrator chain,
  contributes nothing to the common range).
-/
import CtrlVerif.Model.NyquistList
import CtrlVerif.Props.C13Grid

namespace CtrlVerif.C13List

open CtrlVerif CtrlVerif.Nyquist

variable {K : Type} [Field K] [LinearOrder K] [IsStrictOrderedRing K] [FloorRing K]

/-! ### the loop over the systems -/

/-- One iteration hands the common vector on unchanged (the code rebinds `omega_sys`, it never writes through it). -/
theorem listOmega_common_unchanged (pi : K) (common : List K) (dt : Dt) :
    (sysOmegaStep pi common dt).1 = common := rfl

/-- The loop gives every system `sysOmega` of the initial common grid and of its own timebase. -/
theorem listOmega_eq_map (pi : K) (common : List K) (dts : List Dt) :
    listOmega pi common dts = dts.map (sysOmega pi common) := by
  induction dts with
  | nil => rfl
  | cons d t ih => simp [listOmega, sysOmegaStep, ih]

theorem listOmega_length (pi : K) (common : List K) (dts : List Dt) :
    (listOmega pi common dts).length = dts.length := by
  simp [listOmega_eq_map]

/-- The `i`-th system's vector depends on the common grid and on its own timebase only. -/
theorem listOmega_getElem (pi : K) (common : List K) (dts : List Dt) (i : ℕ) :
    (listOmega pi common dts)[i]? = (dts[i]?).map (sysOmega pi common) := by
  simp [listOmega_eq_map]

theorem listOmega_append (pi : K) (common : List K) (a b : List Dt) :
    listOmega pi common (a ++ b) = listOmega pi common a ++ listOmega pi common b := by
  simp [listOmega_eq_map]

/-- Analysing the loops in the opposite order gives the same vectors in the opposite order. -/
theorem listOmega_reverse (pi : K) (common : List K) (dts : List Dt) :
    listOmega pi common dts.reverse = (listOmega pi common dts).reverse := by
  simp [listOmega_eq_map]

/-- Any reordering of the list reorders the results the same way. -/
theorem listOmega_perm (pi : K) (common : List K) {a b : List Dt} (h : a.Perm b) :
    (listOmega pi common a).Perm (listOmega pi common b) := by
  simpa [listOmega_eq_map] using h.map (sysOmega pi common)

/-- A loop that is not strictly discrete-time (`dt` = 0 or `None`) gets the whole common grid, whatever systems come
before it in the list (`pre`) or after it (`post`). -/
theorem listOmega_continuous (pi : K) (common : List K) (pre post : List Dt) {dt : Dt}
    (h : DtPred.isdtime true dt = false) :
    (listOmega pi common (pre ++ dt :: post))[pre.length]? = some common := by
  have : sysOmega pi common dt = common := by simp [sysOmega, nyquistFreq, h]
  simp [listOmega_eq_map, this]

/-- A discrete-time loop ends exactly at its own Nyquist frequency, wherever it stands in the list. -/
theorem listOmega_discrete_last (pi : K) (common : List K) (pre post : List Dt) {dt : Dt}
    (h : DtPred.isdtime true dt = true) :
    ∃ l, (listOmega pi common (pre ++ dt :: post))[pre.length]? = some l ∧
      l.getLast? = some (pi / dtValue dt) := by
  refine ⟨truncNyquist (pi / dtValue dt) common, ?_, C13Grid.truncNyquist_last _ _⟩
  have : sysOmega pi common dt = truncNyquist (pi / dtValue dt) common := by simp [sysOmega, nyquistFreq, h]
  simp [listOmega_eq_map, this]

/-- ... and keeps every point of the common grid below that frequency (the grid was not shortened by a more slowly
sampled loop earlier in the list). -/
theorem listOmega_discrete_keeps (pi : K) (common : List K) (pre post : List Dt) {dt : Dt}
    (h : DtPred.isdtime true dt = true) {w : K} (hw : w ∈ common) (hlt : w < pi / dtValue dt) :
    ∃ l, (listOmega pi common (pre ++ dt :: post))[pre.length]? = some l ∧ w ∈ l := by
  refine ⟨truncNyquist (pi / dtValue dt) common, ?_, C13Grid.truncNyquist_mem _ _ hw hlt⟩
  have : sysOmega pi common dt = truncNyquist (pi / dtValue dt) common := by simp [sysOmega, nyquistFreq, h]
  simp [listOmega_eq_map, this]

/-- A list of one system is the single-system model. -/
theorem listDefaultOmega_singleton (pi : K) (npts : ℕ) (raw : List K) (dt : Dt) :
    listDefaultOmega pi npts raw [dt] = (defaultOmegaDt pi dt npts raw).map (fun l => [l]) := by
  unfold listDefaultOmega defaultOmegaDt defaultOmega
  cases h : prependLinspace npts raw with
  | error e => rfl
  | ok c =>
    cases hn : nyquistFreq pi dt <;>
      simp [listOmega, sysOmegaStep, sysOmega, hn, Except.map, bind, Except.bind, pure, Except.pure]

/-- Every member of a list gets what the single-system model gives it on the same logarithmic grid. -/
theorem listDefaultOmega_member (pi : K) (npts : ℕ) (raw : List K) (dts : List Dt) (i : ℕ) (dt : Dt)
    (hi : dts[i]? = some dt) {ls : List (List K)} (h : listDefaultOmega pi npts raw dts = .ok ls) :
    ∃ l, ls[i]? = some l ∧ defaultOmegaDt pi dt npts raw = .ok l := by
  unfold listDefaultOmega at h
  unfold defaultOmegaDt defaultOmega
  cases hc : prependLinspace npts raw with
  | error e => simp [hc, bind, Except.bind] at h
  | ok c =>
    simp only [hc, bind, Except.bind, pure, Except.pure, Except.ok.injEq] at h
    subst h
    refine ⟨sysOmega pi c dt, by simp [listOmega_eq_map, hi], ?_⟩
    cases hn : nyquistFreq pi dt <;> simp [sysOmega, hn, bind, Except.bind, pure, Except.pure]

/-! ### the common range -/

/-- The common grid extends at least 3/2 decades beyond every feature of every system of the list. -/
theorem list_range_covers (cfg : K) (fs : List (List K × List K)) :
    ∀ f ∈ fs, ∀ x ∈ f.1, (listExponents cfg fs).1 ≤ x - 3 / 2 ∧ x + 3 / 2 ≤ (listExponents cfg fs).2 := by
  intro f hf x hx
  have hmem : x ∈ fs.flatMap (·.1) := List.mem_flatMap.2 ⟨f, hf, hx⟩
  exact C13Grid.nyquist_two_decades cfg _ _ x hmem

/-- ... and contains `0.9 pi/dt` of every discrete-time system of the list. -/
theorem list_range_interesting (cfg : K) (fs : List (List K × List K)) :
    ∀ f ∈ fs, ∀ b ∈ f.2, (listExponents cfg fs).1 ≤ b ∧ b ≤ (listExponents cfg fs).2 := by
  intro f hf b hb
  have hmem : b ∈ fs.flatMap (·.2) := List.mem_flatMap.2 ⟨f, hf, hb⟩
  exact C13Grid.range_interesting _ _ _ b hmem

theorem listExponents_singleton (cfg : K) (logs interesting : List K) :
    listExponents cfg [(logs, interesting)] = nyquistExponents cfg logs interesting := by
  simp [listExponents]

/-- A system without features (all poles / zeros at the origin) and without `freq_interesting` contributes nothing to
the common range. -/
theorem listExponents_no_features (cfg : K) (a b : List (List K × List K)) :
    listExponents cfg (a ++ ([], []) :: b) = listExponents cfg (a ++ b) := by
  simp [listExponents]

/-! ### non-vacuity -/

-- a slowly sampled loop (dt = 1, Nyquist frequency 3) before a continuous-time loop and a faster-sampled one
example : listOmega (3 : ℚ) [0, 1, 2, 4, 8] [.disc 1, .cont, .disc (1/2)] =
    [[0, 1, 2, 3], [0, 1, 2, 4, 8], [0, 1, 2, 4, 6]] := by
  simp [listOmega_eq_map, sysOmega, nyquistFreq, DtPred.isdtime, dtValue, truncNyquist]
  norm_num

example : listDefaultOmega (3 : ℚ) 3 [1, 2, 4] [.disc 1, .none] = .ok [[0, 1/2, 1, 2, 3], [0, 1/2, 1, 2, 4]] := by
  simp [listDefaultOmega, listOmega_eq_map, sysOmega, nyquistFreq, DtPred.isdtime, dtValue, prependLinspace,
    truncNyquist, linspace, List.range_succ, bind, Except.bind, pure, Except.pure]
  norm_num

example : listExponents (1 : ℚ) [([0], []), ([], []), ([3], [9/20])] = (-2, 5) := by
  simp only [listExponents, nyquistExponents, determineExponents, peripheryParam, rangeExponents, minL, maxL,
    roundHalfEven, List.flatMap_cons, List.flatMap_nil, List.append_nil, List.nil_append, List.cons_append,
    List.foldl_cons, List.foldl_nil]
  norm_num

end CtrlVerif.C13List
