/-
C07, source-text tie (tag py2lean-interconnect), part B2': the loop of `interconnect()` that parses
every connection (`new_connections`: the first specification with `_parse_spec(…, 'input')`, the
others with `_parse_spec(…, 'output')`), as regenerated from the tree under check
(`Generated/ICXPre.lean: icxPreConnections`, which calls the generated `icParseSpec`), equals the model's
`preConnection` on every tokenisable list of non-empty connections.
-/
import CtrlVerif.Generated.ICXPre
import CtrlVerif.Props.C07GenXPre
import CtrlVerif.Props.C07GenParse

namespace CtrlVerif.C07GenX

open CtrlVerif.IC CtrlVerif.PyIC CtrlVerif.PyICX CtrlVerif.C07Gen

variable {K : Type} [Field K] [DecidableEq K]

/-- one pre-processed connection as the code holds it: the results of `_parse_spec` (input first). -/
def preConnectionRet (sigs : List SysSig) (c : List (Spec K)) : Except Err (List (Nat × List Nat × K)) :=
  match c with
  | [] => .error .badArg
  | inp :: outs =>
    match parseSpec sigs .input inp with
    | .error e => .error e
    | .ok r =>
      match outs.mapM (parseSpec sigs .output) with
      | .error e => .error e
      | .ok rs => .ok (r :: rs)

/-- the low-level tuple `(isys, [indices], gain)` as a specification. -/
def tupleOf (r : Nat × List Nat × K) : Spec K := tupleSpec r.1 r.2.1 r.2.2

theorem mapM_preSource (sigs : List SysSig) (outs : List (Spec K)) :
    outs.mapM (preSource sigs) = (outs.mapM (parseSpec sigs .output)).map (·.map tupleOf) := by
  induction outs with
  | nil => rfl
  | cons o outs ih =>
    rw [List.mapM_cons, List.mapM_cons, ih]
    unfold preSource
    cases parseSpec sigs .output o with
    | error e => rfl
    | ok r =>
      obtain ⟨so, oi, og⟩ := r
      cases outs.mapM (parseSpec sigs .output) with
      | error e => rfl
      | ok rs => rfl

/-- **the model's `preConnection` is `preConnectionRet` with the tuples read as specifications.** -/
theorem preConnection_of_ret (sigs : List SysSig) (c : List (Spec K)) :
    preConnection sigs c =
      (preConnectionRet sigs c).bind fun rs =>
        match rs with
        | r :: rs => .ok (tupleOf r, rs.map tupleOf)
        | [] => .error .badArg := by
  cases c with
  | nil => rfl
  | cons inp outs =>
    simp only [preConnection, preConnectionRet, mapM_preSource]
    cases h1 : parseSpec sigs .input inp with
    | error e => rfl
    | ok r =>
      obtain ⟨si, idxs, g⟩ := r
      cases h2 : outs.mapM (parseSpec sigs .output) with
      | error e => rfl
      | ok rs => rfl

/-- a loop whose body appends the result of `g x` (which may raise). -/
theorem foldlM_mapM_append {α β : Type} (F : List β → α → Except Err (List β)) (g : α → Except Err β)
    (l : List α) (hF : ∀ acc x, x ∈ l → F acc x = (g x).map fun y => acc ++ [y]) (acc : List β) :
    l.foldlM F acc = (l.mapM g).map fun ys => acc ++ ys := by
  induction l generalizing acc with
  | nil => simp
  | cons x l ih =>
    rw [List.foldlM_cons, hF acc x (List.mem_cons_self ..), List.mapM_cons]
    cases g x with
    | error e => rfl
    | ok y =>
      simp only [map_ok, ok_bind]
      rw [ih (fun acc x hx => hF acc x (List.mem_cons_of_mem _ hx))]
      cases l.mapM g with
      | error e => rfl
      | ok ys => simp

/-- a loop whose body appends the result of `g x` to the ONE list that all entries of `[[]] * 1`
refer to. -/
theorem foldlM_alias {α β : Type} (F : List (List β) → α → Except Err (List (List β)))
    (g : α → Except Err β) (l : List α)
    (hF : ∀ st x, x ∈ l → F st x = ((g x) >>= fun y => aliasedAppend st y)) (a : List β) :
    l.foldlM F [a] = (l.mapM g).map fun ys => [a ++ ys] := by
  induction l generalizing a with
  | nil => simp
  | cons x l ih =>
    rw [List.foldlM_cons, hF [a] x (List.mem_cons_self ..), List.mapM_cons]
    cases g x with
    | error e => rfl
    | ok y =>
      have hstep : ((Except.ok y : Except Err β) >>= fun y => aliasedAppend [a] y) = .ok [a ++ [y]] := by
        simp [aliasedAppend]
      rw [hstep]
      simp only [ok_bind]
      rw [ih (fun st x hx => hF st x (List.mem_cons_of_mem _ hx))]
      cases l.mapM g with
      | error e => rfl
      | ok ys => simp

/-- the source specifications of a connection, parsed by the generated `_parse_spec`. -/
theorem mapM_parse_output (sigs : List SysSig) (vs : List (Val K)) (ss : List (Spec K))
    (h : vs.mapM tokenize = some ss) :
    vs.mapM (fun spec => Generated.icParseSpec sigs spec "output" none) =
      (ss.mapM (parseSpec sigs .output)).map (·.map retSpec) := by
  induction vs generalizing ss with
  | nil =>
    simp at h
    subst h
    rfl
  | cons v vs ih =>
    rw [List.mapM_cons] at h
    cases hv : tokenize v with
    | none => simp [hv] at h
    | some s =>
      cases hvs : vs.mapM tokenize with
      | none => simp [hv, hvs] at h
      | some ss' =>
        simp [hv, hvs] at h
        subst h
        rw [List.mapM_cons, List.mapM_cons, ih ss' hvs,
          show Generated.icParseSpec sigs v "output" none = _ from
            generated_parseSpec_eq sigs v s hv Site.output]
        simp only [Site.dict]
        cases parseSpec sigs .output s with
        | error e => rfl
        | ok r =>
          cases ss'.mapM (parseSpec sigs .output) with
          | error e => rfl
          | ok rs => rfl

/-- how the loop reads one element of the (normalised) connection list. -/
def readRet (sigs : List SysSig) : Val K → Except Err (List (Int × List Int × K))
  | .list c =>
    match c.mapM tokenize with
    | some specs => (preConnectionRet sigs specs).map (·.map retSpec)
    | none => .error .notImplemented
  | _ => .error .badArg

/-- **`generated_preConnections_eq`: the connection-parsing loop of the source text is the model's
`preConnectionRet` (hence `preConnection`, `preConnection_of_ret`) on every element**, for every list
whose elements are lists of tokenisable specifications, none of them empty (for an empty connection
the code raises IndexError, the model `badArg`: `generated_preConnections_empty`); an element that is
not a list raises `badArg` ("invalid connection …: should be a list"). -/
theorem generated_preConnections_eq (sigs : List SysSig) (l : List (Val K))
    (hl : ∀ x ∈ l, (∀ c, x = .list c → ∃ specs, c.mapM tokenize = some specs ∧ specs ≠ [])) :
    Generated.icxPreConnections sigs (.list l) = l.mapM (readRet sigs) := by
  unfold Generated.icxPreConnections
  simp only [iter_list, ok_bind, pure_eq_ok]
  rw [foldlM_mapM_append (g := readRet sigs)]
  · cases l.mapM (readRet sigs) with
    | error e => rfl
    | ok ys => simp
  · intro acc x hx
    cases x with
    | list c =>
      obtain ⟨specs, hs, hne⟩ := hl _ hx c rfl
      cases c with
      | nil =>
        simp at hs
        exact absurd hs hne
      | cons v0 vs =>
        rw [List.mapM_cons] at hs
        cases hv : tokenize v0 with
        | none => simp [hv] at hs
        | some s0 =>
          cases hvs : vs.mapM tokenize with
          | none => simp [hv, hvs] at hs
          | some ss' =>
            simp [hv, hvs] at hs
            subst hs
            have hin : Generated.icParseSpec sigs v0 "input" none = (parseSpec sigs .input s0).map retSpec :=
              generated_parseSpec_eq sigs v0 s0 hv Site.input
            simp only [isinstance_list_single, Bool.not_true, Bool.false_eq_true, if_false, ok_bind,
              getItem_list, seqGet_zero, hin, dropFrom_list, List.drop_one, List.tail_cons, iter_list,
              readRet, List.mapM_cons, hv, hvs, preConnectionRet, decide_true]
            cases h1 : parseSpec sigs .input s0 with
            | error e => simp [h1]
            | ok r =>
              simp only [map_ok, ok_bind, List.length_singleton, List.replicate_one]
              rw [foldlM_alias (g := fun spec => Generated.icParseSpec sigs spec "output" none)]
              · rw [mapM_parse_output sigs vs ss' hvs]
                cases h2 : ss'.mapM (parseSpec sigs .output) with
                | error e => simp [h1, h2]
                | ok rs => simp [h1, h2]
              · intro st x _
                rfl
    | none => simp [readRet, isinstance, isinstance1]
    | int i => simp [readRet, isinstance, isinstance1]
    | num y => simp [readRet, isinstance, isinstance1]
    | str s => simp [readRet, isinstance, isinstance1]
    | tuple t => simp [readRet, isinstance, isinstance1]
    | other => simp [readRet, isinstance, isinstance1]

/-- an empty connection raises in both (IndexError of `connection[0]` in the code, `badArg` in the
model). -/
theorem generated_preConnections_empty (sigs : List SysSig) :
    Generated.icxPreConnections (K := K) sigs (.list [.list []]) = .error .indexRange ∧
      preConnection (K := K) sigs [] = .error .badArg := by
  refine ⟨?_, rfl⟩
  unfold Generated.icxPreConnections
  simp [seqGet, isinstance, isinstance1]

/-- the whole `connections` argument: tokenised lists of non-empty connections. -/
theorem generated_preConnections_model (sigs : List SysSig) (cs : List (List (Val K)))
    (ss : List (List (Spec K))) (h : cs.map (·.map tokenize) = ss.map (·.map some))
    (hne : ∀ c ∈ ss, c ≠ []) :
    Generated.icxPreConnections sigs (.list (cs.map .list)) =
      (ss.mapM (preConnectionRet sigs)).map (·.map (·.map retSpec)) := by
  have hpair : ∀ (cs : List (List (Val K))) (ss : List (List (Spec K))),
      cs.map (·.map tokenize) = ss.map (·.map some) →
      List.Forall₂ (fun c s => c.mapM tokenize = some s) cs ss := by
    intro cs
    induction cs with
    | nil =>
      intro ss h
      cases ss with
      | nil => exact .nil
      | cons b r => simp at h
    | cons c cs ih =>
      intro ss h
      cases ss with
      | nil => simp at h
      | cons b r =>
        simp only [List.map_cons, List.cons.injEq] at h
        exact .cons (mapM_of_map_eq tokenize c b h.1) (ih r h.2)
  have hf := hpair cs ss h
  rw [generated_preConnections_eq]
  · clear h hpair
    induction hf with
    | nil => rfl
    | @cons c s cs' ss' hcs _ ih =>
      rw [List.map_cons, List.mapM_cons, List.mapM_cons, ih fun c hc => hne c (List.mem_cons_of_mem _ hc)]
      simp only [readRet, hcs]
      cases preConnectionRet sigs s with
      | error e => rfl
      | ok r =>
        cases ss'.mapM (preConnectionRet sigs) with
        | error e => rfl
        | ok rs => rfl
  · intro x hx c hc
    subst hc
    obtain ⟨c', hc', hcc⟩ := List.mem_map.mp hx
    injection hcc with hcc
    subst hcc
    obtain ⟨s, hs, hcs⟩ : ∃ s, s ∈ ss ∧ c'.mapM tokenize = some s := by
      clear h hpair hx
      induction hf with
      | nil => cases hc'
      | cons hcs _ ih =>
        rcases List.mem_cons.mp hc' with rfl | hm
        · exact ⟨_, List.mem_cons_self .., hcs⟩
        · obtain ⟨s, hs, h'⟩ := ih (fun c hc => hne c (List.mem_cons_of_mem _ hc)) hm
          exact ⟨s, List.mem_cons_of_mem _ hs, h'⟩
    exact ⟨s, hcs, hne s hs⟩

/-- non-vacuity: `[['C.y', 'P.y']]`-style connection with index tuples: subsystem 1 input 0 fed by
subsystem 0 output 0 with gain 2. -/
example :
    Generated.icxPreConnections (K := ℚ)
      [⟨"P", [⟨"u", none⟩], [⟨"y", none⟩]⟩, ⟨"C", [⟨"y", none⟩], [⟨"u", none⟩]⟩]
      (.list [.list [.tuple [.int 1, .int 0], .tuple [.int 0, .int 0, .int 2]]])
      = .ok [[(1, [0], 1), (0, [0], 2)]] := by
  decide

end CtrlVerif.C07GenX
