/-
C13 — the Nyquist encirclement count.

Property theorems only (helper lemmas: `Lemmas/Nyquist.lean`).  `K` is an arbitrary ordered field
with a floor function (`ℚ` in the driver, `ℝ` for the instantiation with `Complex.arg` at the end);
`period > 0` is a parameter (the code uses `2 * math.pi`).

What is proved
* `unwrap` (the code's diff / `%` / cumsum / add formulation) keeps every sample in its class
  modulo the period, never steps by more than half a period, telescopes, and — for *any number of
  samples* — reconstructs the true phase (up to the constant offset of the first sample) whenever
  consecutive true phase increments are smaller than half a period (`discrete_winding`);
* the integer `count` returned by the code's formula equals `Z - P` **given** the argument principle
  for the sampled part of the indented contour as a hypothesis and the sampling hypothesis
  (`count_partial`);
* the indentation rule: which side is chosen, when the code raises, and that an indented point is
  at distance `≥ r` from the pole that was nearest to it, with the pole on the side the rule
  prescribes (`indent_avoids_right/left`), and an unmoved point is at distance `≥ r` from every pole.

What is *not* proved (the property is only partially carried by theorems): the argument principle
itself, and that the default frequency grid satisfies the sampling hypothesis.  The latter is
false for lightly damped poles (see `known_findings.json`, C13-light-damping-grid).
-/
import CtrlVerif.Lemmas.Nyquist
import CtrlVerif.Lemmas.NyquistReal
import Mathlib.Data.Rat.Floor
import Mathlib.Tactic.NormNum

namespace CtrlVerif.C13

open CtrlVerif CtrlVerif.Nyquist

variable {K : Type} [Field K] [LinearOrder K] [IsStrictOrderedRing K] [FloorRing K]

/-! ## `ctrlutil.unwrap` -/

theorem unwrap_length (period : K) (l : List K) : (unwrap period l).length = l.length :=
  unwrap_length' period l

/-- the first sample is returned unchanged. -/
theorem unwrap_head (period a : K) (t : List K) : (unwrap period (a :: t)).head? = some a := by
  rw [unwrap_cons]; rfl

/-- `out_i ≡ in_i (mod period)`: every output differs from its input by an integer number of
periods (no hypothesis on the period or the data). -/
theorem unwrap_congr (period : K) (l : List K) :
    List.Forall₂ (fun o i => ∃ k : ℤ, o = i + k * period) (unwrap period l) l := by
  cases l with
  | nil => exact List.Forall₂.nil
  | cons a t =>
    rw [unwrap_cons]
    exact List.Forall₂.cons ⟨0, by simp⟩ (unwrapAux_congr period a a (CongrMod.refl _ _) t)

/-- the increments of the output are the wrapped increments of the input. -/
theorem unwrap_diff (period : K) (l : List K) :
    diff (unwrap period l) = (diff l).map (desired period) :=
  diff_unwrap period l

/-- `|out_{i+1} - out_i| ≤ period/2` (precisely: in `[-period/2, period/2)`). -/
theorem unwrap_step {period : K} (hp : 0 < period) (l : List K) :
    ∀ d ∈ diff (unwrap period l), -(period / 2) ≤ d ∧ d < period / 2 := by
  intro d hd
  rw [diff_unwrap, List.mem_map] at hd
  obtain ⟨x, _, rfl⟩ := hd
  exact desired_range hp x

theorem unwrap_step_abs {period : K} (hp : 0 < period) (l : List K) :
    ∀ d ∈ diff (unwrap period l), |d| ≤ period / 2 := by
  intro d hd
  have := unwrap_step hp l d hd
  exact abs_le.2 ⟨this.1, this.2.le⟩

/-- `Σ diff = last - first` (what `np.sum(np.diff(phase))` computes). -/
theorem unwrap_telescope (period a : K) (t : List K) :
    (diff (unwrap period (a :: t))).sum =
      (unwrap period (a :: t)).getLast (by rw [unwrap_cons]; simp) - a := by
  have h := unwrap_cons period a t
  have : (diff (unwrap period (a :: t))).sum = (a :: unwrapAux period a a t).getLast (by simp) - a := by
    rw [h]; exact diff_sum a _
  rw [this]; congr 1; simp only [h]

/-- **Discrete winding.**  Let `φ` be the true (continuous) phase at the sample points and `θ` any
measured angles with `θ_i ≡ φ_i (mod period)` (e.g. principal values).  If consecutive true phases
differ by less than half a period, then unwrapping `θ` recovers every increment of `φ` exactly —
for any number of samples. -/
theorem discrete_winding {period : K} (hp : 0 < period) {θ φ : List K}
    (hθ : List.Forall₂ (fun t f => ∃ k : ℤ, t = f + k * period) θ φ)
    (hδ : ∀ δ ∈ diff φ, |δ| < period / 2) :
    diff (unwrap period θ) = diff φ := by
  rw [diff_unwrap]
  refine map_desired_eq hp (forall₂_diff hθ) ?_
  intro δ h
  have := abs_lt.1 (hδ δ h)
  exact ⟨this.1.le, this.2⟩

/-- … hence the total unwrapped phase change equals the true phase change. -/
theorem discrete_winding_sum {period : K} (hp : 0 < period) {θ φ : List K}
    (hθ : List.Forall₂ (fun t f => ∃ k : ℤ, t = f + k * period) θ φ)
    (hδ : ∀ δ ∈ diff φ, |δ| < period / 2) :
    (diff (unwrap period θ)).sum = (diff φ).sum := by
  rw [discrete_winding hp hθ hδ]

/-- … and the whole unwrapped signal is the true phase shifted by the constant offset of the
first sample (`θ₀ - φ₀`, an integer number of periods). -/
theorem unwrap_recovers {period : K} (hp : 0 < period) (a b : K) (t u : List K)
    (hθ : List.Forall₂ (fun t f => ∃ k : ℤ, t = f + k * period) (a :: t) (b :: u))
    (hδ : ∀ δ ∈ diff (b :: u), |δ| < period / 2) :
    unwrap period (a :: t) = (b :: u).map fun x => x + (a - b) := by
  have hd := discrete_winding hp hθ hδ
  have hlen : t.length = u.length := by simpa using hθ.length_eq
  rw [unwrap_cons] at hd ⊢
  rw [List.map_cons, show b + (a - b) = a by ring]
  congr 1
  · apply eq_of_diff_eq _ _ a (by simp [unwrapAux_length, hlen])
    rw [hd]
    have : ∀ (l : List K) (c : K), diff (l.map fun x => x + c) = diff l := by
      intro l c
      induction l with
      | nil => rfl
      | cons x l ih =>
        cases l with
        | nil => rfl
        | cons y l => simp only [List.map_cons, diff_cons_cons] at ih ⊢; rw [ih]; congr 1; ring
    have h2 := this (b :: u) (a - b)
    simp only [List.map_cons] at h2
    rw [show b + (a - b) = a by ring] at h2
    exact h2.symm

/-- an already continuous signal is returned unchanged. -/
theorem unwrap_noop {period : K} (hp : 0 < period) (l : List K)
    (hδ : ∀ δ ∈ diff l, |δ| < period / 2) : unwrap period l = l := by
  have hd := discrete_winding hp (θ := l) (φ := l) (forall₂_congr_refl period l) hδ
  cases l with
  | nil => rfl
  | cons a t =>
    rw [unwrap_cons] at hd ⊢
    congr 1
    exact eq_of_diff_eq t _ a (unwrapAux_length _ _ _ _) hd

/-- non-vacuity / the docstring example of `unwrap`, scaled: period 2, `[1, 3/2, 0, 1/2, 1]` is
unwrapped to `[1, 3/2, 2, 5/2, 3]`. -/
example : unwrap (2 : ℚ) [1, 3/2, 0, 1/2, 1] = [1, 3/2, 2, 5/2, 3] := by
  have hθ : List.Forall₂ (fun t f => ∃ k : ℤ, t = f + k * (2 : ℚ))
      [1, 3/2, 0, 1/2, 1] [1, 3/2, 2, 5/2, (3 : ℚ)] :=
    .cons ⟨0, by norm_num⟩ (.cons ⟨0, by norm_num⟩ (.cons ⟨-1, by norm_num⟩
      (.cons ⟨-1, by norm_num⟩ (.cons ⟨-1, by norm_num⟩ .nil))))
  have h := discrete_winding (period := (2 : ℚ)) (by norm_num) hθ
    (by intro δ hδ; simp only [diff_cons_cons, diff_singleton, List.mem_cons, List.not_mem_nil,
          or_false] at hδ
        rcases hδ with rfl | rfl | rfl | rfl <;> norm_num [abs_lt])
  have hl := unwrap_length (2 : ℚ) [1, 3/2, 0, 1/2, 1]
  have hh := unwrap_head (2 : ℚ) 1 [3/2, 0, 1/2, 1]
  generalize unwrap (2 : ℚ) [1, 3/2, 0, 1/2, 1] = u at *
  match u, hl, hh, h with
  | [a, b, c, d, e], _, hh, h =>
    simp only [List.head?_cons, Option.some.injEq] at hh
    subst hh
    simp only [diff_cons_cons, diff_singleton, List.cons.injEq, and_true] at h
    obtain ⟨h1, h2, h3, h4⟩ := h
    have hb : b = 3/2 := by linarith
    subst hb
    have hc : c = 2 := by linarith
    subst hc
    have hd : d = 5/2 := by linarith
    subst hd
    have he : e = 3 := by linarith
    subst he
    rfl

/-! ## the count -/

/-- `np.round` + `int` returns `n` on anything closer to `n` than `1/2`. -/
theorem round_near {x : K} {n : ℤ} (h : |x - n| < 1 / 2) : roundHalfEven x = n :=
  roundHalfEven_of_near h

/-- the code's `encirclements` is minus the total unwrapped phase change over `pi`. -/
theorem encirclements_formula (pi a : K) (t : List K) :
    encirclements pi (a :: t) = -(diff (unwrap (2 * pi) (a :: t))).sum / pi := by
  unfold encirclements
  rw [diff_map_neg, sum_map_neg]

/-
Full statement (C13): for every proper SISO loop `L` in the quantifier of the property,
`nyquist_response(L).count = Z - P`.  Not provable here: it needs (i) the argument principle for the
indented contour and (ii) that the default grid is fine enough.  Proved instead:

**`count_partial`** — let `θ` be the angles `np.angle(1 + L(s_i))` at the contour samples, `φ` the
true continuous phase of `1 + L` along the contour at the same samples.  GIVEN
 (H1, measurement)  `θ_i ≡ φ_i (mod 2·pi)`;
 (H2, sampling)     `|φ_{i+1} - φ_i| < pi`;
 (H3, argument principle on the sampled half contour, up to the closure error of a finite
      frequency range)  `|(φ_last - φ_first) - pi·(P - Z)| < pi/2`;
then the code's formula returns `count = Z - P`.
-/
theorem count_partial {pi : K} (hpi : 0 < pi) {θ φ : List K} (a b : K) (t u : List K)
    (hθe : θ = a :: t) (hφe : φ = b :: u)
    (H1 : List.Forall₂ (fun t f => ∃ k : ℤ, t = f + k * (2 * pi)) θ φ)
    (H2 : ∀ δ ∈ diff φ, |δ| < pi)
    (P Z : ℤ)
    (H3 : |((b :: u).getLast (by simp) - b) - pi * ((P : K) - Z)| < pi / 2) :
    count pi θ = Z - P := by
  subst hθe hφe
  unfold count
  rw [encirclements_formula]
  have h2 : (0 : K) < 2 * pi := by linarith
  have hs := discrete_winding_sum h2 H1 (by intro δ hδ; have := H2 δ hδ; linarith)
  rw [hs, diff_sum]
  apply roundHalfEven_of_near
  set Δ := (b :: u).getLast (by simp) - b with hΔ
  have e : -Δ / pi - ((Z - P : ℤ) : K) = -(Δ - pi * ((P : K) - Z)) / pi := by
    push_cast; field_simp; ring
  rw [e, abs_div, abs_neg, abs_of_pos hpi, div_lt_iff₀ hpi]
  linarith

/-- special case: an exactly closed contour image (`Δφ = pi·(P - Z)`). -/
theorem count_partial_exact {pi : K} (hpi : 0 < pi) (a b : K) (t u : List K)
    (H1 : List.Forall₂ (fun t f => ∃ k : ℤ, t = f + k * (2 * pi)) (a :: t) (b :: u))
    (H2 : ∀ δ ∈ diff (b :: u), |δ| < pi)
    (P Z : ℤ)
    (H3 : (b :: u).getLast (by simp) - b = pi * ((P : K) - Z)) :
    count pi (a :: t) = Z - P :=
  count_partial hpi a b t u rfl rfl H1 H2 P Z (by rw [H3]; simp; linarith)

/-- non-vacuity of `count_partial`: `pi := 1` (angles measured in half turns), true phase
`0, -3/4, -3/2, -2` (one clockwise turn: `P - Z = -2`… i.e. `Z - P = 2`), measured as principal
values `0, -3/4, 1/2, 0`. -/
example : count (1 : ℚ) [0, -3/4, 1/2, 0] = 2 := by
  have := count_partial_exact (pi := (1 : ℚ)) (by norm_num) 0 0 [-3/4, 1/2, 0] [-3/4, -3/2, -2]
    (.cons ⟨0, by norm_num⟩ (.cons ⟨0, by norm_num⟩ (.cons ⟨1, by norm_num⟩
      (.cons ⟨1, by norm_num⟩ .nil))))
    (by intro δ hδ; simp only [diff_cons_cons, diff_singleton, List.mem_cons, List.not_mem_nil,
          or_false] at hδ
        rcases hδ with rfl | rfl | rfl <;> norm_num [abs_lt])
    0 2 (by norm_num)
  simpa using this

/-- when the count satisfies the criterion the consistency warning is not issued. -/
theorem criterion_iff (Z P : ℕ) (cnt : ℤ) : criterionOK Z cnt P = true ↔ cnt = (Z : ℤ) - P := by
  unfold criterionOK
  simp only [decide_eq_true_eq]
  constructor <;> intro h <;> linarith

omit [FloorRing K] in
/-- `P` convention: with the default `'right'` indentation a pole exactly on the imaginary axis
(an integrator) is not counted; with any other direction it is. -/
theorem countP_axis_pole (dir : Dir) (p : K × K) (hp : p.1 = 0) (poles : List (K × K)) :
    countP true dir (p :: poles) =
      countP true dir poles + (if dir = .right then 0 else 1) := by
  unfold countP
  by_cases hd : dir = .right <;> simp [hd, hp, List.countP_cons]

/-! ## instantiation at `ℝ`: principal arguments of complex samples, period `2π` -/

/-- For non-zero complex samples `w_i` (here: `1 + L(s_i)`), unwrapping their principal arguments
(`np.angle`) yields exactly the turning angles of the polygon through the samples, provided no
edge turns by exactly half a turn (`w_{i+1} / w_i` is not a negative real). -/
theorem unwrap_arg_polygon (w : List ℂ) (hw : ∀ z ∈ w, z ≠ 0)
    (hstep : ∀ δ ∈ polygonIncr w, δ ≠ Real.pi) :
    diff (unwrap (2 * Real.pi) (w.map Complex.arg)) = polygonIncr w := by
  rw [diff_unwrap]; exact map_desired_arg w hw hstep

/-- The code's count is the winding of the sampled polygon: if the total turning angle of the polygon
through the samples is within `π/2` of `π (P - Z)`, the returned count is `Z - P`.  (No hypothesis
on how the angles were wrapped, none on the number of samples.) -/
theorem count_real_polygon (a : ℂ) (t : List ℂ) (hw : ∀ z ∈ a :: t, z ≠ 0)
    (hstep : ∀ δ ∈ polygonIncr (a :: t), δ ≠ Real.pi) (P Z : ℤ)
    (H3 : |(polygonIncr (a :: t)).sum - Real.pi * ((P : ℝ) - Z)| < Real.pi / 2) :
    count Real.pi ((a :: t).map Complex.arg) = Z - P := by
  unfold count
  rw [List.map_cons, encirclements_formula, ← List.map_cons, unwrap_arg_polygon _ hw hstep]
  apply roundHalfEven_of_near
  have hpi := Real.pi_pos
  set Δ := (polygonIncr (a :: t)).sum with hΔ
  have e : -Δ / Real.pi - ((Z - P : ℤ) : ℝ) = -(Δ - Real.pi * ((P : ℝ) - Z)) / Real.pi := by
    push_cast; field_simp; ring
  rw [e, abs_div, abs_neg, abs_of_pos hpi, div_lt_iff₀ hpi]
  linarith

/-! ## indentation (the contour lies on the imaginary axis: `s.1 = 0`) -/

omit [FloorRing K] in
/-- side selection (`freqplot.py` 1471-1483): right of stable poles (and of axis poles when
`indent_direction = 'right'`). -/
theorem indent_side_right (dir : Dir) (pre : K) :
    side dir pre = .ok .right ↔ (pre < 0 ∨ (pre = 0 ∧ dir = .right)) :=
  side_right_iff dir pre

omit [FloorRing K] in
/-- left of unstable poles (and of axis poles when `indent_direction = 'left'`). -/
theorem indent_side_left (dir : Dir) (pre : K) :
    side dir pre = .ok .left ↔ (0 < pre ∨ (pre = 0 ∧ dir = .left)) :=
  side_left_iff dir pre

omit [FloorRing K] in
/-- the code raises `ValueError("unknown value for indent_direction")` exactly for an axis pole
with a direction that is neither `'right'` nor `'left'`. -/
theorem indent_side_raises (dir : Dir) (pre : K) :
    side dir pre = .error .badArg ↔ (pre = 0 ∧ dir ≠ .right ∧ dir ≠ .left) :=
  side_error_iff dir pre

omit [FloorRing K] in
/-- a point that is not moved is at distance `≥ r` from every pole. -/
theorem indent_unmoved_far (r : K) (dir : Dir) (poles : List (K × K)) (s : K × K)
    (h : indentDecision r dir poles s = .ok none) :
    ∀ q ∈ poles, r * r ≤ normSq (s - q) := by
  intro q hq
  unfold indentDecision at h
  cases hn : nearest s poles with
  | none =>
    cases poles with
    | nil => simp at hq
    | cons q0 t =>
      obtain ⟨p, hp⟩ := nearest_isSome (s := s) (List.cons_ne_nil q0 t)
      rw [hp] at hn; cases hn
  | some p =>
    simp only [hn] at h
    split_ifs at h with hlt
    · cases hs : side dir p.1 <;> simp [hs, bind, Except.bind, pure, Except.pure] at h
    · exact (not_lt.1 hlt).trans (nearest_le hn q hq)

omit [FloorRing K] in
/-- **Avoidance, right indentation**: the moved point is at distance exactly `r` from the pole `p`
that was nearest, to the right of it (`p` stays on the left of the contour), and `p` is a pole the
rule sends to the left of the contour: `Re p < 0`, or `Re p = 0` with direction `'right'`. -/
theorem indent_avoids_right (S : SqrtFn K) (r : K) (dir : Dir) (poles : List (K × K)) (s : K × K)
    (q dx : K) (h : indentDecision r dir poles s = .ok (some (.right, q, dx))) :
    ∃ p, nearest s poles = some p ∧ (p.1 < 0 ∨ (p.1 = 0 ∧ dir = .right)) ∧
      let s' := applyIndent S s (some (.right, q, dx))
      p.1 ≤ s'.1 ∧ s'.2 = s.2 ∧ normSq (s' - p) = r * r := by
  unfold indentDecision at h
  cases hn : nearest s poles with
  | none => simp [hn] at h
  | some p =>
    simp only [hn] at h
    split_ifs at h with hlt
    · cases hs : side dir p.1 with
      | error e => simp [hs, bind, Except.bind] at h
      | ok sd =>
        simp only [hs, bind, Except.bind, pure, Except.pure, Except.ok.injEq, Option.some.injEq,
          Prod.mk.injEq] at h
        obtain ⟨rfl, rfl, rfl⟩ := h
        refine ⟨p, rfl, (side_right_iff dir p.1).1 hs, ?_⟩
        have hq : 0 ≤ r * r - (s.2 - p.2) * (s.2 - p.2) := by
          unfold normSq at hlt
          simp only [Prod.fst_sub, Prod.snd_sub] at hlt
          nlinarith [mul_self_nonneg (s.1 - p.1)]
        have h0 := S.nonneg _ hq
        have h1 := S.sq _ hq
        simp only [applyIndent, normSq, Prod.fst_sub, Prod.snd_sub]
        refine ⟨by linarith, trivial, ?_⟩
        have : s.1 + (S.sqrt (r * r - (s.2 - p.2) * (s.2 - p.2)) - (s.1 - p.1)) - p.1 =
            S.sqrt (r * r - (s.2 - p.2) * (s.2 - p.2)) := by ring
        rw [this, h1]; ring
    · simp at h

omit [FloorRing K] in
/-- **Avoidance, left indentation** (contour point on the imaginary axis, `s.1 = 0`): the moved
point is at distance `≥ r` from the pole `p` that was nearest, to the left of it, and `p` is a pole
the rule sends to the right of the contour: `Re p > 0`, or `Re p = 0` with direction `'left'`.
(The code's offset `sqrt(..) - Re(s - p)` is subtracted, so for `Re p > 0` the distance is larger
than `r`: the point lands at `-sqrt(..) - Re p`.) -/
theorem indent_avoids_left (S : SqrtFn K) (r : K) (dir : Dir) (poles : List (K × K)) (s : K × K)
    (hs0 : s.1 = 0) (q dx : K) (h : indentDecision r dir poles s = .ok (some (.left, q, dx))) :
    ∃ p, nearest s poles = some p ∧ (0 < p.1 ∨ (p.1 = 0 ∧ dir = .left)) ∧
      let s' := applyIndent S s (some (.left, q, dx))
      s'.1 ≤ p.1 ∧ s'.2 = s.2 ∧ r * r ≤ normSq (s' - p) := by
  unfold indentDecision at h
  cases hn : nearest s poles with
  | none => simp [hn] at h
  | some p =>
    simp only [hn] at h
    split_ifs at h with hlt
    · cases hs : side dir p.1 with
      | error e => simp [hs, bind, Except.bind] at h
      | ok sd =>
        simp only [hs, bind, Except.bind, pure, Except.pure, Except.ok.injEq, Option.some.injEq,
          Prod.mk.injEq] at h
        obtain ⟨rfl, rfl, rfl⟩ := h
        have hside := (side_left_iff dir p.1).1 hs
        have hp0 : 0 ≤ p.1 := by rcases hside with h | ⟨h, _⟩ <;> linarith
        refine ⟨p, rfl, hside, ?_⟩
        have hq : 0 ≤ r * r - (s.2 - p.2) * (s.2 - p.2) := by
          unfold normSq at hlt
          simp only [Prod.fst_sub, Prod.snd_sub] at hlt
          nlinarith [mul_self_nonneg (s.1 - p.1)]
        have h0 := S.nonneg _ hq
        have h1 := S.sq _ hq
        simp only [applyIndent, normSq, Prod.fst_sub, Prod.snd_sub, hs0]
        refine ⟨by linarith, trivial, ?_⟩
        set c := S.sqrt (r * r - (s.2 - p.2) * (s.2 - p.2)) with hc
        have : (0 - (c - (0 - p.1)) - p.1) * (0 - (c - (0 - p.1)) - p.1) =
            c * c + 4 * c * p.1 + 4 * p.1 * p.1 := by ring
        rw [this, h1]
        nlinarith [mul_nonneg h0 hp0, mul_nonneg hp0 hp0]
    · simp at h

/-! ## extra contour points (`np.linspace`, lines 1425-1455) -/

omit [LinearOrder K] [IsStrictOrderedRing K] [FloorRing K] in
theorem linspace_length (a b : K) (n : ℕ) : (linspace a b n).length = n := by
  unfold linspace
  split_ifs with h
  · simp [h]
  · simp

omit [FloorRing K] in
/-- the inserted frequencies stay inside the window `[start_freq, Im p + r]`. -/
theorem linspace_bounds {a b : K} (hab : a ≤ b) (n : ℕ) :
    ∀ x ∈ linspace a b n, a ≤ x ∧ x ≤ b := by
  intro x hx
  unfold linspace at hx
  split_ifs at hx with h
  · simp at hx; subst hx; exact ⟨le_rfl, hab⟩
  · simp only [List.mem_map, List.mem_range] at hx
    obtain ⟨k, hk, rfl⟩ := hx
    have hn : (1 : K) < n := by
      have : 2 ≤ n := by omega
      exact_mod_cast this
    have hn1 : (0 : K) < (n : K) - 1 := by linarith
    have hk1 : (k : K) ≤ (n : K) - 1 := by
      have : k + 1 ≤ n := hk
      have : ((k + 1 : ℕ) : K) ≤ n := by exact_mod_cast this
      push_cast at this; linarith
    have hk0 : (0 : K) ≤ k := Nat.cast_nonneg k
    have hba : 0 ≤ b - a := by linarith
    have hfrac : (k : K) / ((n : K) - 1) ≤ 1 := (div_le_one hn1).2 hk1
    have e : a + (k : K) * ((b - a) / ((n : K) - 1)) = a + ((k : K) / ((n : K) - 1)) * (b - a) := by
      field_simp
    rw [e]
    constructor
    · have := mul_nonneg (div_nonneg hk0 hn1.le) hba; linarith
    · have := mul_le_mul_of_nonneg_right hfrac hba; linarith

omit [IsStrictOrderedRing K] [FloorRing K] in
/-- poles on the negative imaginary side or farther than `r` from the axis add no points. -/
theorem insertNear_skip (r : K) (npts : ℕ) (om : List K) (p : K × K)
    (h : p.2 < 0 ∨ r < |p.1|) : insertNear r npts om p = .ok om := by
  unfold insertNear; rw [if_pos h]

example : linspace (0 : ℚ) 1 5 = [0, 1/4, 1/2, 3/4, 1] := by
  norm_num [linspace, List.range, List.range.loop]

/-- non-vacuity: pole at `-1/20 + 2i`, radius `1/10`, contour point `2i`: moved to the right,
radicand `1/100`, `dx = 1/20`. -/
example : indentDecision (1/10 : ℚ) .right [(0, 0), (-1/20, 2)] (0, 2) =
    .ok (some (.right, 1/100, 1/20)) := by
  norm_num [indentDecision, nearest, normSq, side, bind, Except.bind, pure, Except.pure]

end CtrlVerif.C13
