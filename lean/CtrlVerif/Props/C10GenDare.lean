/-
Source-text tie for the BODY of `dare` (control/mateqn.py, SciPy route; DESIGN §2.5 / §10.3,
notes/NOTES-py2lean-mateqn.md): `Generated/MatEqnDare.lean` is rewritten on every run from the text of
the function in the tree under check by `harness/core/py2lean_meq.py`.  The hand-written run-time
model `dareD` (= `darePlan`: the `R = eye` default, the four `_check_shape` calls in the order of the
code, the checks of `E` and `S` when given, `stabilizing`; then the typed `dare`:
`solve_discrete_are(A, B, Q, R, e=E, s=S)` with `E`, `S` passed through (`None` included), the gain
`solve(B.T @ X @ B + R, B.T @ X @ A)` resp. `… + S.T`, the eigenvalue call `eigvals(A - B @ G)` resp.
`eig(A - B @ G, E)`, the returned triple) is proved EQUAL to the generated function for every solver
record, every eigenvalue routine, every array (all sizes, entries, dtypes), every combination of
`R` / `S` / `E` given or `None`, both values of `stabilizing`, `method` `None` or `'scipy'`.

Inherited deviation (`Props/C10Gen.lean`): a `0 × 0` weight that must be symmetric raises IndexError
in the source; the equality carries the hypotheses that `Q` and `R` are not `0 × 0`.
-/
import CtrlVerif.Generated.MatEqnDare
import CtrlVerif.Props.C10GenCare

namespace CtrlVerif.C10Gen

open CtrlVerif MatEqn PyMeq

variable {K : Type} [Field K] [LinearOrder K] [DecidableEq K]

/-- **`dare` as written in the source is the model's `dareD`** (SciPy route). -/
theorem generated_dare_eq {L : Type} (Sv : Solvers K) (ev : EigFun K L) (eps : K) (A B Q : DMat K)
    (R S E : Option (DMat K)) (stabilizing : Bool) (method : Method) (nA nB nQ nR nS nE : String)
    (hm : method = .none ∨ method = .scipy)
    (hQ : ¬ (Q.p = 0 ∧ Q.q = 0)) (hR : ¬ ((rOf B eps R).p = 0 ∧ (rOf B eps R).q = 0)) :
    Generated.dare Sv ev eps A B Q R S E stabilizing method nA nB nQ nR nS nE
      = (dareD Sv eps stabilizing A B Q R S E).map (areOutPy ev) := by
  have hsc := generated_slycotOrScipy_scipy method hm
  unfold Generated.dare dareD darePlan
  simp only [hsc, array2d, ifNone_rOf, ok_bind, map_eq_bind]
  cases S <;> cases E
  · -- standard problem
    simp only [pure_bind, bind_assoc, ok_bind, gcs_bind A A.p A.p true false nA (by simp),
      gcs_bind B A.p B.q false false nB (by simp), gcs_bind Q A.p A.p true true nQ (by simp [hQ]),
      gcs_bind (rOf B eps R) B.q B.q true true nR (by simp [hR])]
    refine bind_congr_ok fun A' hA => ?_
    refine bind_congr_ok fun B' hB => ?_
    refine bind_congr_ok fun Q' hQ2 => ?_
    refine bind_congr_ok fun R' hR2 => ?_
    cases stabilizing
    · simp [throw, throwThe, MonadExceptOf.throw, error_bind]
    · simp only [checkShape_toP hA, checkShape_toP hB, checkShape_toP hQ2, checkShape_toP hR2, Option.map_none]
      simp only [solveDiscreteAre_mk' Sv _ _ _ _ _ _ none none none none rfl rfl, PMat.T_mk,
        PMat.matmul_mk, PMat.add_mk,
        PMat.solve_mk, ok_bind, if_true, not_true_eq_false, if_false, Bool.not_true, Bool.false_eq_true, pure_bind,
        dare, dareF, dareCall]
      by_cases hdet : (B'.transpose * Sv.dare A.p B.q ⟨A', B', Q', R', none, none⟩ * B' + R').det = 0
      · simp only [hdet, if_true, error_bind]
      · simp only [hdet, if_false, ok_bind, PMat.matmul_mk, PMat.sub_mk, eig_mk' ev _ _ none none rfl]
        rfl
  · -- `E` given
    rename_i E
    simp only [pure_bind, bind_assoc, ok_bind, gcs_bind A A.p A.p true false nA (by simp),
      gcs_bind B A.p B.q false false nB (by simp), gcs_bind Q A.p A.p true true nQ (by simp [hQ]),
      gcs_bind (rOf B eps R) B.q B.q true true nR (by simp [hR]),
      gcs_bind E A.p A.p true false nE (by simp)]
    refine bind_congr_ok fun A' hA => ?_
    refine bind_congr_ok fun B' hB => ?_
    refine bind_congr_ok fun Q' hQ2 => ?_
    refine bind_congr_ok fun R' hR2 => ?_
    refine bind_congr_ok fun E' hE => ?_
    cases stabilizing
    · simp [throw, throwThe, MonadExceptOf.throw, error_bind]
    · simp only [checkShape_toP hA, checkShape_toP hB, checkShape_toP hQ2, checkShape_toP hR2, Option.map_none, Option.map_some, checkShape_toP hE]
      simp only [solveDiscreteAre_mk' Sv _ _ _ _ _ _ _ none _ none (optTyped_some _ _ _) rfl, PMat.T_mk,
        PMat.matmul_mk, PMat.add_mk,
        PMat.solve_mk, ok_bind, if_true, not_true_eq_false, if_false, Bool.not_true, Bool.false_eq_true, pure_bind,
        dare, dareF, dareCall]
      by_cases hdet : (B'.transpose * Sv.dare A.p B.q ⟨A', B', Q', R', (some E'), none⟩ * B' + R').det = 0
      · simp only [hdet, if_true, error_bind]
      · simp only [hdet, if_false, ok_bind, PMat.matmul_mk, PMat.sub_mk, eig_mk' ev _ _ _ _ (optTyped_some _ _ _)]
        rfl
  · -- `S` given
    rename_i S
    simp only [pure_bind, bind_assoc, ok_bind, gcs_bind A A.p A.p true false nA (by simp),
      gcs_bind B A.p B.q false false nB (by simp), gcs_bind Q A.p A.p true true nQ (by simp [hQ]),
      gcs_bind (rOf B eps R) B.q B.q true true nR (by simp [hR]),
      gcs_bind S A.p B.q false false nS (by simp)]
    refine bind_congr_ok fun A' hA => ?_
    refine bind_congr_ok fun B' hB => ?_
    refine bind_congr_ok fun Q' hQ2 => ?_
    refine bind_congr_ok fun R' hR2 => ?_
    refine bind_congr_ok fun S' hS => ?_
    cases stabilizing
    · simp [throw, throwThe, MonadExceptOf.throw, error_bind]
    · simp only [checkShape_toP hA, checkShape_toP hB, checkShape_toP hQ2, checkShape_toP hR2, Option.map_none, Option.map_some, checkShape_toP hS]
      simp only [solveDiscreteAre_mk' Sv _ _ _ _ _ _ none _ none _ rfl (optTyped_some _ _ _), PMat.T_mk,
        PMat.matmul_mk, PMat.add_mk,
        PMat.solve_mk, ok_bind, if_true, not_true_eq_false, if_false, Bool.not_true, Bool.false_eq_true, pure_bind,
        dare, dareF, dareCall]
      by_cases hdet : (B'.transpose * Sv.dare A.p B.q ⟨A', B', Q', R', none, (some S')⟩ * B' + R').det = 0
      · simp only [hdet, if_true, error_bind]
      · simp only [hdet, if_false, ok_bind, PMat.matmul_mk, PMat.sub_mk, eig_mk' ev _ _ none none rfl]
        rfl
  · -- `S` and `E` given
    rename_i S E
    simp only [pure_bind, bind_assoc, ok_bind, gcs_bind A A.p A.p true false nA (by simp),
      gcs_bind B A.p B.q false false nB (by simp), gcs_bind Q A.p A.p true true nQ (by simp [hQ]),
      gcs_bind (rOf B eps R) B.q B.q true true nR (by simp [hR]),
      gcs_bind E A.p A.p true false nE (by simp), gcs_bind S A.p B.q false false nS (by simp)]
    refine bind_congr_ok fun A' hA => ?_
    refine bind_congr_ok fun B' hB => ?_
    refine bind_congr_ok fun Q' hQ2 => ?_
    refine bind_congr_ok fun R' hR2 => ?_
    refine bind_congr_ok fun E' hE => ?_
    refine bind_congr_ok fun S' hS => ?_
    cases stabilizing
    · simp [throw, throwThe, MonadExceptOf.throw, error_bind]
    · simp only [checkShape_toP hA, checkShape_toP hB, checkShape_toP hQ2, checkShape_toP hR2, Option.map_some, checkShape_toP hE, checkShape_toP hS]
      simp only [solveDiscreteAre_mk' Sv _ _ _ _ _ _ _ _ _ _ (optTyped_some _ _ _) (optTyped_some _ _ _), PMat.T_mk,
        PMat.matmul_mk, PMat.add_mk,
        PMat.solve_mk, ok_bind, if_true, not_true_eq_false, if_false, Bool.not_true, Bool.false_eq_true, pure_bind,
        dare, dareF, dareCall]
      by_cases hdet : (B'.transpose * Sv.dare A.p B.q ⟨A', B', Q', R', (some E'), (some S')⟩ * B' + R').det = 0
      · simp only [hdet, if_true, error_bind]
      · simp only [hdet, if_false, ok_bind, PMat.matmul_mk, PMat.sub_mk, eig_mk' ev _ _ _ _ (optTyped_some _ _ _)]
        rfl

/-- the inherited deviation: `dare` with a `0 × 0` weight `Q` raises IndexError. -/
theorem generated_dare_empty {L : Type} (Sv : Solvers K) (ev : EigFun K L) (eps : K) (A B Q : DMat K)
    (R S E : Option (DMat K)) (stabilizing : Bool) (method : Method) (nA nB nQ nR nS nE : String)
    (hm : method = .none ∨ method = .scipy) (hA : A.q = A.p) (hB : B.p = A.p) (hQ : Q.p = 0 ∧ Q.q = 0) :
    Generated.dare Sv ev eps A B Q R S E stabilizing method nA nB nQ nR nS nE = .error .indexRange := by
  have hsc := generated_slycotOrScipy_scipy method hm
  unfold Generated.dare
  simp only [hsc, array2d, ok_bind]
  cases S <;> cases E <;>
    simp [pure_bind, bind_assoc, gcs_bind A A.p A.p true false nA (by simp),
      gcs_bind B A.p B.q false false nB (by simp), checkShape_square A hA, checkShape_plain B hB rfl, ok_bind,
      error_bind, generated_checkShape_empty_sym Q hQ.1 hQ.2]

/-- any other `method`: ControlArgument ("Unknown method"), before anything else. -/
theorem generated_dare_other {L : Type} (Sv : Solvers K) (ev : EigFun K L) (eps : K) (A B Q : DMat K)
    (R S E : Option (DMat K)) (stabilizing : Bool) (nA nB nQ nR nS nE : String) :
    Generated.dare Sv ev eps A B Q R S E stabilizing .other nA nB nQ nR nS nE = .error .badArg := by
  simp [Generated.dare, generated_slycotOrScipy_eq, bind, Except.bind]

/-- `method='slycot'` without Slycot: the whole validation of the model (whatever `stabilizing` is),
then ControlSlycot — `dare` never returns. -/
theorem generated_dare_slycot {L : Type} (Sv : Solvers K) (ev : EigFun K L) (eps : K) (A B Q : DMat K)
    (R S E : Option (DMat K)) (stabilizing : Bool) (nA nB nQ nR nS nE : String)
    (hQ : ¬ (Q.p = 0 ∧ Q.q = 0)) (hR : ¬ ((rOf B eps R).p = 0 ∧ (rOf B eps R).q = 0)) :
    Generated.dare Sv ev eps A B Q R S E stabilizing .slycot nA nB nQ nR nS nE
      = (darePlan eps true A B Q R S E) >>= fun _ => .error .notImplemented := by
  unfold Generated.dare darePlan
  simp only [generated_slycotOrScipy_eq, array2d, ifNone_rOf, ok_bind]
  cases S <;> cases E
  · -- standard problem
    simp only [pure_bind, bind_assoc, ok_bind, gcs_bind A A.p A.p true false nA (by simp),
      gcs_bind B A.p B.q false false nB (by simp), gcs_bind Q A.p A.p true true nQ (by simp [hQ]),
      gcs_bind (rOf B eps R) B.q B.q true true nR (by simp [hR])]
    refine bind_congr_ok fun A' hA => ?_
    refine bind_congr_ok fun B' hB => ?_
    refine bind_congr_ok fun Q' hQ2 => ?_
    refine bind_congr_ok fun R' hR2 => ?_
    simp [throw, throwThe, MonadExceptOf.throw, ok_bind]
  · -- `E` given
    rename_i E
    simp only [pure_bind, bind_assoc, ok_bind, gcs_bind A A.p A.p true false nA (by simp),
      gcs_bind B A.p B.q false false nB (by simp), gcs_bind Q A.p A.p true true nQ (by simp [hQ]),
      gcs_bind (rOf B eps R) B.q B.q true true nR (by simp [hR]),
      gcs_bind E A.p A.p true false nE (by simp)]
    refine bind_congr_ok fun A' hA => ?_
    refine bind_congr_ok fun B' hB => ?_
    refine bind_congr_ok fun Q' hQ2 => ?_
    refine bind_congr_ok fun R' hR2 => ?_
    refine bind_congr_ok fun E' hE => ?_
    simp [throw, throwThe, MonadExceptOf.throw, ok_bind]
  · -- `S` given
    rename_i S
    simp only [pure_bind, bind_assoc, ok_bind, gcs_bind A A.p A.p true false nA (by simp),
      gcs_bind B A.p B.q false false nB (by simp), gcs_bind Q A.p A.p true true nQ (by simp [hQ]),
      gcs_bind (rOf B eps R) B.q B.q true true nR (by simp [hR]),
      gcs_bind S A.p B.q false false nS (by simp)]
    refine bind_congr_ok fun A' hA => ?_
    refine bind_congr_ok fun B' hB => ?_
    refine bind_congr_ok fun Q' hQ2 => ?_
    refine bind_congr_ok fun R' hR2 => ?_
    refine bind_congr_ok fun S' hS => ?_
    simp [throw, throwThe, MonadExceptOf.throw, ok_bind]
  · -- `S` and `E` given
    rename_i S E
    simp only [pure_bind, bind_assoc, ok_bind, gcs_bind A A.p A.p true false nA (by simp),
      gcs_bind B A.p B.q false false nB (by simp), gcs_bind Q A.p A.p true true nQ (by simp [hQ]),
      gcs_bind (rOf B eps R) B.q B.q true true nR (by simp [hR]),
      gcs_bind E A.p A.p true false nE (by simp), gcs_bind S A.p B.q false false nS (by simp)]
    refine bind_congr_ok fun A' hA => ?_
    refine bind_congr_ok fun B' hB => ?_
    refine bind_congr_ok fun Q' hQ2 => ?_
    refine bind_congr_ok fun R' hR2 => ?_
    refine bind_congr_ok fun E' hE => ?_
    refine bind_congr_ok fun S' hS => ?_
    simp [throw, throwThe, MonadExceptOf.throw, ok_bind]

end CtrlVerif.C10Gen
