/-
Source-text tie of C08, part 3a: `find_operating_point` (control/nlsys.py), general branch — the
statements that build the index lists `state_vars`, `input_vars`, `output_vars`, `deriv_vars` and
the arrays the root function works on.  `Generated/NLOpSetup.lean` is rewritten from the source text
on every run; the model's `opIndexing` is proved equal to it on canonical index lists.
-/
import CtrlVerif.Generated.NLOpSetup
import CtrlVerif.Lemmas.PyNLOp
import CtrlVerif.Props.C08

namespace CtrlVerif.C08Gen

open CtrlVerif PyNL

/-- an index list as the caller gives it in canonical form: typed (in range), strictly increasing. -/
def CanonList {k : Nat} (l : Option (List (Fin k))) (nonempty : Bool) : Prop :=
  ∀ L, l = some L → L.Pairwise (· < ·) ∧ (nonempty = true → L ≠ [])

/-
Full statement (NOT proved): for ARBITRARY integer lists `iu iy ix idx` (unsorted, repeated, negative
entries counting from the end, out of range) the statements of the source text return index lists
that are equal AS SETS (after index normalisation) to the model's `opIndexing`, and raise when the
model does (an empty given `iy / ix / idx`: `ValueError` from `min()`; an out-of-range entry of
`ix / iu`: `IndexError` from `np.delete`; out-of-range entries of `iy / idx` raise only later, inside
the root function, and a system without states raises there as well, where the model raises already
in `opIndexing`).  Proved below: equality of the lists themselves on canonical arguments (typed,
strictly increasing — what `np.unique` returns — and non-empty where the code requires it).
-/

/-- **generated_opSetup_eq_partial**: on canonical index lists (at least one of them given, a system
with states) the set-up statements of the source text return exactly the model's four index lists
(`state_vars` / `input_vars` = the complements of `ix` / `iu`, `output_vars` = `iy` or all outputs,
`deriv_vars` = `idx` or all states), the copies of `x0`, `u0`, the requested derivative (zeros when
omitted) and the number of varying states. -/
theorem generated_opSetup_eq_partial {n m p : Nat} (hn : n ≠ 0)
    (iu : Option (List (Fin m))) (iy : Option (List (Fin p))) (ix idx : Option (List (Fin n)))
    (hiu : CanonList iu false) (hiy : CanonList iy true) (hix : CanonList ix true)
    (hidx : CanonList idx true)
    (hsome : ¬ (iu = none ∧ iy = none ∧ ix = none ∧ idx = none))
    (x0 u0 : List Q) (dx0 : Option (List Q)) :
    Generated.nlOpSetup (iu.map ints) (iy.map ints) (ix.map ints) (idx.map ints) (n : Int) (m : Int)
        (p : Int) x0 u0 dx0
      = (opIndexing n m p (iu.map ints) (iy.map ints) (ix.map ints) (idx.map ints) true).map fun I =>
          (ints I.stateVars, ints I.inputVars, ints I.outputVars, ints I.derivVars, x0, u0,
            (match dx0 with | some d => d | none => PyNL.vzeros (x0.length : Int)),
            (I.stateVars.length : Int)) := by
  have cnil_n : complementOf ([] : List (Fin n)) = List.finRange n := by simp [complementOf]
  have cnil_m : complementOf ([] : List (Fin m)) = List.finRange m := by simp [complementOf]
  have len_ne : ∀ {k : Nat} (L : List (Fin k)), L ≠ [] → ((ints L).length : Int) ≠ 0 := by
    intro k L h
    cases L with
    | nil => exact absurd rfl h
    | cons a L => simp [ints]; omega
  have ints_nil : ∀ {k : Nat}, ints ([] : List (Fin k)) = [] := fun {k} => rfl
  have unique_nil : unique [] = [] := rfl
  have normIdx_nil : ∀ {k : Nat}, CtrlVerif.normIdx k [] = .ok [] := fun {k} => rfl
  have range_length : ∀ (k : Nat), (PyArith.range 0 (k : Int)).length = k := by
    intro k; simp [PyArith.range]
  have succ_ne : ∀ (j : Nat), ((j : Int) + 1 = 0) ↔ False := by
    intro j; constructor
    · intro h; omega
    · intro h; exact h.elim
  unfold Generated.nlOpSetup opIndexing
  rcases iu with _ | Lu <;> rcases iy with _ | Ly <;> rcases ix with _ | Lx <;> rcases idx with _ | Ld
  all_goals first
    | exact absurd ⟨rfl, rfl, rfl, rfl⟩ hsome
    | skip
  all_goals
    simp only [CanonList, Option.some.injEq, forall_eq', reduceCtorEq, false_implies, implies_true,
      Bool.false_eq_true, true_implies, ne_eq] at hiu hiy hix hidx
    simp only [Option.map_some, Option.map_none]
  all_goals cases dx0
  all_goals first
    | (rcases Lu with _ | ⟨a, Lu⟩
       all_goals
         simp [unique_ints, hiu, hiy, hix, hidx, hn, ints_eq_nil, normIdx_ints, deleteIdx_range, len_ne,
           cnil_m, cnil_n, ints_finRange, bind, Except.bind, pure, Except.pure, Except.map, ints_nil,
           unique_nil, normIdx_nil, ints_length, range_length, succ_ne])
    | simp [unique_ints, hiu, hiy, hix, hidx, hn, ints_eq_nil, normIdx_ints, deleteIdx_range, len_ne,
        cnil_m, cnil_n, ints_finRange, bind, Except.bind, pure, Except.pure, Except.map, ints_nil,
        unique_nil, normIdx_nil, ints_length, range_length, succ_ne]

/-- an empty list of constrained outputs is rejected by the statements of the source text
(`min()` of an empty sequence: `ValueError`) exactly as by the model. -/
theorem generated_opSetup_empty_outputs {n m p : Nat} (ix idx : Option (List Int)) (x0 u0 : List Q)
    (dx0 : Option (List Q)) (b : Bool) :
    Generated.nlOpSetup none (some []) ix idx (n : Int) (m : Int) (p : Int) x0 u0 dx0 = .error .badArg ∧
    opIndexing n m p none (some []) ix idx b = .error .badArg := by
  constructor
  · unfold Generated.nlOpSetup
    simp [PyNL.unique, PyNL.minInt, bind, Except.bind, pure, Except.pure]
  · unfold opIndexing
    simp [bind, Except.bind]

/-- non-vacuity: two states, one input, one output; state 1 and the input fixed, all derivatives and
the output constrained: the varying state is `0`, no varying input. -/
example : (Generated.nlOpSetup (K := ℚ) (some [0]) none (some [1]) none 2 1 1 [3, 4] [5] none).map
      (fun r => (r.1, r.2.1, r.2.2.1, r.2.2.2.1))
    = .ok ([0], [], [0], [0, 1]) := by decide +kernel
example : (Generated.nlOpSetup (K := ℚ) (some [0]) none (some [1]) none 2 1 1 [3, 4] [5] none).map
      (fun r => (r.2.2.2.2.1, r.2.2.2.2.2.2.1, r.2.2.2.2.2.2.2))
    = .ok ([3, 4], [0, 0], 1) := by decide +kernel
example : (Generated.nlOpSetup (K := ℚ) none none (some [5]) none 2 1 1 [3, 4] [5] none).map (·.1)
    = .error .indexRange := by decide +kernel

end CtrlVerif.C08Gen
