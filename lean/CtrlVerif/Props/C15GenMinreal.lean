/-
Source-text tie of the per-entry body of `TransferFunction.minreal` (control/xferfcn.py; C15).

`Generated/TFMinreal.lean` is rewritten from the text of the loop body on every run
(harness/core/py2lean_minreal.py).  The theorems prove it equal to the hand-written model
`minrealEntry` / `cancelRoots` (Model/Minreal.lean) — the one `C15.minreal_sem_certified` and
`minreal_only_cancels` are about — for every coefficient list, every root list the external
`roots` returns, every tolerance argument (`None`, `0`, a number) and every magnitude function.
-/
import CtrlVerif.Model.PyMin
import CtrlVerif.Generated.TFMinreal

namespace CtrlVerif.C15GenMinreal

open PyMin Generated.Minreal

variable {K R : Type} [Field K] [DecidableEq K] [Field R] [LinearOrder R] [DecidableEq R]

/-- the tolerance test of the source text for the zero `z` and the pole `p`. -/
def closeOf (X : Ext K R) (tol : Option R) (sqrt_eps : R) (z p : K) : Bool :=
  decide (X.abs (z - p) < tolOr tol (1000 * max X.eps (X.abs z * sqrt_eps)))

theorem step_match {β : Type} (idx : List Nat) (ps : List K) (F : List K → Except Err β) (G : Except Err β) :
    (if idx.length ≠ 0 then do let t1 ← getIdx0 idx; F (delete ps t1) else G)
      = match idx with
        | [] => G
        | i :: _ => F (ps.eraseIdx i) := by
  cases idx <;> simp [getIdx0, delete, bind, Except.bind]

/-- `idx = where(cond)[0]; delete(poles, idx[0])` removes the first pole meeting the test. -/
theorem delete_first (f : K → R) (t : R) (ps : List K) (k : Nat) :
    (match whereLtFrom t (ps.map f) k with
      | [] => none
      | i :: _ => some (ps.eraseIdx (i - k))) = removeFirst (fun p => decide (f p < t)) ps := by
  induction ps generalizing k with
  | nil => simp [whereLtFrom, removeFirst]
  | cons p ps ih =>
    by_cases h : f p < t
    · simp [whereLtFrom, removeFirst, h]
    · have := ih (k + 1)
      simp only [List.map_cons, whereLtFrom, h, if_false, removeFirst, decide_false, Bool.false_eq_true]
      rw [← this]
      cases hw : whereLtFrom t (ps.map f) (k + 1) with
      | nil => simp
      | cons i rest =>
        have hik : k + 1 ≤ i := by
          have : ∀ (l : List R) (k i : Nat) rest, whereLtFrom t l k = i :: rest → k ≤ i := by
            intro l
            induction l with
            | nil => intro k i rest h; simp [whereLtFrom] at h
            | cons x xs ih2 =>
              intro k i rest h
              by_cases hx : x < t
              · simp [whereLtFrom, hx] at h; omega
              · simp [whereLtFrom, hx] at h; have := ih2 _ _ _ h; omega
          exact this _ _ _ _ hw
        have : i - k = (i - (k + 1)) + 1 := by omega
        simp [this]

/-- **the cancellation loop of the source text is `cancelRoots`** (kept zeros appended in order). -/
theorem generated_zLoop_eq (X : Ext K R) (tol : Option R) (sqrt_eps : R) (zs acc ps : List K) :
    zLoop X tol sqrt_eps zs (acc, ps)
      = .ok (acc ++ (cancelRoots (closeOf X tol sqrt_eps) zs ps).1,
             (cancelRoots (closeOf X tol sqrt_eps) zs ps).2) := by
  induction zs generalizing acc ps with
  | nil => simp [zLoop, cancelRoots, pure, Except.pure]
  | cons z zs ih =>
    have hd := delete_first (fun p => X.abs (z - p))
      (tolOr tol (1000 * max X.eps (X.abs z * sqrt_eps))) ps 0
    obtain ⟨w, hw⟩ : ∃ w, whereLtFrom (tolOr tol (1000 * max X.eps (X.abs z * sqrt_eps)))
        (ps.map fun p => X.abs (z - p)) 0 = w := ⟨_, rfl⟩
    rw [hw] at hd
    cases w with
    | nil =>
      have : removeFirst (closeOf X tol sqrt_eps z) ps = none := hd.symm
      simp [zLoop, cancelRoots, whereLt, hw, this, ih]
    | cons i rest =>
      have : removeFirst (closeOf X tol sqrt_eps z) ps = some (ps.eraseIdx i) := hd.symm
      simp [zLoop, cancelRoots, whereLt, hw, this, ih, getIdx0, delete, bind, Except.bind]

/-- **the per-entry body of the source text is the model's `minrealEntry`** (followed by the
constructor's normalisation, which `TransferFunction(num, den, dt)` applies), error branches
included: an empty coefficient array and a zero leading denominator coefficient are rejected by
both.  `real(...)` is the identity on the coefficient lists of a real field. -/
theorem generated_entryBody_eq (X : Ext K R) (tol : Option R) (sqrt_eps : R)
    (hreal : ∀ l, X.real l = l) (f : Frac K) :
    (entryBody X tol sqrt_eps f.num f.den >>= fun nd => pure (Frac.norm ⟨nd.1, nd.2⟩))
      = minrealEntry (closeOf X tol sqrt_eps) f (X.roots f.num) (X.roots f.den) := by
  unfold entryBody minrealEntry
  cases hn : f.num with
  | nil => simp [getItem0, bind, Except.bind]
  | cons n0 ns =>
    cases hd : f.den with
    | nil => simp [getItem0, bind, Except.bind]
    | cons d0 ds =>
      by_cases h0 : d0 = 0
      · simp [getItem0, div, h0, bind, Except.bind, pure, Except.pure]
      · simp [getItem0, div, h0, bind, Except.bind, pure, Except.pure, generated_zLoop_eq, hreal]

/-- kept zeros and remaining poles are sub-lists of what `roots` returned: the loop never invents
a root (transported from the model through the equality). -/
theorem generated_zLoop_sublists (X : Ext K R) (tol : Option R) (sqrt_eps : R) (zs ps nz ps' : List K)
    (h : zLoop X tol sqrt_eps zs ([], ps) = .ok (nz, ps')) :
    nz.Sublist zs ∧ ps'.Sublist ps := by
  rw [generated_zLoop_eq] at h
  simp only [List.nil_append, Except.ok.injEq, Prod.mk.injEq] at h
  obtain ⟨rfl, rfl⟩ := h
  induction zs generalizing ps with
  | nil => simp [cancelRoots]
  | cons z zs ih =>
    unfold cancelRoots
    cases hr : removeFirst (closeOf X tol sqrt_eps z) ps with
    | none =>
      obtain ⟨h1, h2⟩ := ih ps
      exact ⟨h1.cons_cons z, h2⟩
    | some q =>
      have hq : q.Sublist ps := by
        clear ih
        induction ps generalizing q with
        | nil => simp [removeFirst] at hr
        | cons p ps ihp =>
          unfold removeFirst at hr
          by_cases hp : closeOf X tol sqrt_eps z p = true
          · simp [hp] at hr; subst hr; exact List.sublist_cons_self p ps
          · simp [hp] at hr
            obtain ⟨q', hq', rfl⟩ := hr
            exact (ihp q' hq').cons_cons p
      obtain ⟨h1, h2⟩ := ih q
      exact ⟨h1.cons z, h2.trans hq⟩

/-! ### the rational instance the driver runs -/

/-- the external functions over `ℚ` (real roots): `abs` is the absolute value, `eps = 2⁻⁵²`. -/
def extQ (roots : List ℚ → List ℚ) : Ext ℚ ℚ := ⟨roots, fun x => |x|, Minreal.eps, id⟩

/-- **the tolerance test of the source text is the model's `closeQ`**: `tol or 1000 * max(eps,
abs(z) * sqrt_eps)` with `sqrt_eps = 2⁻²⁶`, for `tol = None`, `0` and every number. -/
theorem generated_close_eq_closeQ (roots : List ℚ → List ℚ) (tol : Option ℚ) :
    closeOf (extQ roots) tol Minreal.sqrtEps = Minreal.closeQ tol := by
  funext z p
  unfold closeOf Minreal.closeQ Minreal.tolOf tolOr extQ
  cases tol with
  | none => rfl
  | some t => by_cases h : t = 0 <;> simp [h]

/-- non-vacuity: `(s + 1)(s + 2) / ((s + 1)(s + 3))`, roots handed over exactly. -/
example : zLoop (extQ fun _ => []) none Minreal.sqrtEps [-1, -2] ([], [-1, -3])
    = .ok ([-2], [-3]) := by decide +kernel

end CtrlVerif.C15GenMinreal
