/-
Source-text tie of C01 (DESIGN §10.3, notes/NOTES-py2lean-tf.md), part 4: `TransferFunction.__truediv__`,
`__pow__`, `__rtruediv__`.

`Generated/TFDivPow.lean` (a `mutual` block: `g / h` calls `h ** -1` when `g` is MIMO and `h` SISO,
`g ** n` calls `TransferFunction([1], [1]) / g` for `n < 0`; Lean checks termination of the
translated pair with the measures the translator proposes) and `Generated/TFRtruediv.lean` are
rewritten on every run from the text of the three methods in control/xferfcn.py of the tree under
check by `harness/core/py2lean_tf.py`.  The run-time operators `DTF.truediv / pow / rtruediv` of the
model are proved EQUAL to them for every operand kind, all NON-EMPTY shapes, all coefficient lists,
every exponent and every pair of timebases, over any field.

Non-empty: the source tests `ninputs > 1 or noutputs > 1`, the model `not SISO`; they differ on a
system with no inputs or no outputs (the text would run into `num_array[0, 0]`, an `IndexError`,
where the model says `notImplemented`).  No such `TransferFunction` object exists (the constructor
raises), so the hypothesis `0 < p ∧ 0 < m` is the class invariant, stated.
-/
import CtrlVerif.Generated.TFDivPow
import CtrlVerif.Generated.TFRtruediv
import CtrlVerif.Props.C01GenMul

namespace CtrlVerif.C01Gen
open CtrlVerif

variable {K : Type} [Field K] [DecidableEq K]

/-- `self / other` for a SISO `self` -/
theorem generated_truediv_siso (G H : DTF K) (hG : G.isSiso = true) (hH : 0 < H.p ∧ 0 < H.m) :
    Generated.TF.truediv G (.tf H) = DTF.truedivCore G H := by
  rw [Generated.TF.truediv]
  obtain ⟨hGp, hGm⟩ := (isSiso_iff G).mp hG
  simp only [convert_tf, PyArith.ok_bind, hG, not_true_eq_false, false_and, if_false]
  unfold DTF.truedivCore
  simp only [hG, Bool.not_true, Bool.false_and, Bool.false_or, Bool.false_eq_true, if_false]
  by_cases hHs : H.isSiso = true
  · obtain ⟨hHp, hHm⟩ := (isSiso_iff H).mp hHs
    have c : ¬ (1 < PyTF.ninputs G ∨ 1 < PyTF.noutputs G ∨ 1 < PyTF.ninputs H ∨ 1 < PyTF.noutputs H) := by
      simp [PyTF.ninputs, PyTF.noutputs, hGp, hGm, hHp, hHm]
    rw [if_neg c]
    simp only [hHs, Bool.not_true, Bool.false_eq_true, if_false, DTF.divSisoCore]
    refine PyTF.bind_congr' rfl ?_
    intro dt
    rw [numArray_getItem_zero G (by omega) (by omega), denArray_getItem_zero G (by omega) (by omega),
      numArray_getItem_zero H hH.1 hH.2, denArray_getItem_zero H hH.1 hH.2]
    rfl
  · have c : (1 < PyTF.ninputs G ∨ 1 < PyTF.noutputs G ∨ 1 < PyTF.ninputs H ∨ 1 < PyTF.noutputs H) := by
      have : ¬ (H.p = 1 ∧ H.m = 1) := fun h => hHs ((isSiso_iff H).mpr h)
      simp only [PyTF.ninputs, PyTF.noutputs]
      omega
    rw [if_pos c]
    simp [hHs]

theorem generated_pow_nat (G : DTF K) (k : Nat) :
    Generated.TF.pow G (.int (k : Int)) = DTF.powNat G k := by
  induction k with
  | zero =>
    rw [Generated.TF.pow]
    simp only [Nat.cast_zero, if_true, mkSiso_one_some]
    rfl
  | succ k ih =>
    rw [Generated.TF.pow]
    have h0 : ¬ (((k + 1 : Nat) : Int) = 0) := by omega
    have h1 : (0 : Int) < ((k + 1 : Nat) : Int) := by omega
    have h2 : ((k + 1 : Nat) : Int) - 1 = (k : Int) := by omega
    simp only [h0, h1, if_false, if_true]
    rw [h2, ih]
    exact PyTF.bind_congr' rfl (fun r => generated_mul_tf G r)

theorem generated_pow_neg (G : DTF K) (hG : 0 < G.p ∧ 0 < G.m) (k : Nat) :
    Generated.TF.pow G (.int (-(k : Int))) = DTF.powNegNat G k := by
  induction k with
  | zero =>
    rw [Generated.TF.pow]
    simp only [Nat.cast_zero, neg_zero, if_true, mkSiso_one_some]
    rfl
  | succ k ih =>
    rw [Generated.TF.pow]
    have h0 : ¬ (-((k + 1 : Nat) : Int) = 0) := by omega
    have h1 : ¬ ((0 : Int) < -((k + 1 : Nat) : Int)) := by omega
    have h2 : -((k + 1 : Nat) : Int) < 0 := by omega
    have h3 : -((k + 1 : Nat) : Int) + 1 = -(k : Int) := by omega
    simp only [h0, h1, h2, if_false, if_true]
    rw [h3, ih]
    rw [mkSiso_one_none]
    dsimp only
    rw [generated_truediv_siso _ G rfl hG, powNegNat_succ, truedivCore_unity]
    refine PyTF.bind_congr' rfl ?_
    intro i
    exact PyTF.bind_congr' rfl (fun r => generated_mul_tf i r)

theorem generated_pow_eq (G : DTF K) (hG : 0 < G.p ∧ 0 < G.m) (n : Int) :
    Generated.TF.pow G (.int n) = DTF.pow G n := by
  cases n with
  | ofNat k => exact generated_pow_nat G k
  | negSucc k =>
    have e : Int.negSucc k = -((k + 1 : Nat) : Int) := rfl
    rw [e]
    exact generated_pow_neg G hG (k + 1)

theorem generated_pow_notInt (G : DTF K) : Generated.TF.pow G .notInt = .error .badArg := by
  rw [Generated.TF.pow]

theorem generated_truediv_tf (G H : DTF K) (hG : 0 < G.p ∧ 0 < G.m) (hH : 0 < H.p ∧ 0 < H.m) :
    Generated.TF.truediv G (.tf H) = DTF.truedivCore G H := by
  by_cases hGs : G.isSiso = true
  · exact generated_truediv_siso G H hGs hH
  · rw [Generated.TF.truediv]
    simp only [convert_tf, PyArith.ok_bind]
    unfold DTF.truedivCore
    by_cases hHs : H.isSiso = true
    · have c : ¬ G.isSiso = true ∧ H.isSiso = true := ⟨hGs, hHs⟩
      rw [if_pos c]
      simp only [hGs, hHs, Bool.not_false, Bool.not_true, Bool.true_and, Bool.and_true, if_true,
        Bool.not_eq_true] 
      rw [generated_pow_eq H hH (-1)]
      refine PyTF.bind_congr' rfl ?_
      intro hi
      simp only [PyTF.appendCopies, PyTF.ninputs, Int.toNat_natCast, PyArith.ok_bind]
      exact generated_mul_tf G _
    · have c : ¬ (¬ G.isSiso = true ∧ H.isSiso = true) := fun h => hHs h.2
      have c2 : 1 < PyTF.ninputs G ∨ 1 < PyTF.noutputs G ∨ 1 < PyTF.ninputs H ∨ 1 < PyTF.noutputs H := by
        rcases not_siso_gt G hG hGs with h | h
        · exact Or.inl h
        · exact Or.inr (Or.inl h)
      rw [if_neg c, if_pos c2]
      simp [hGs, hHs]

theorem generated_truediv_eq (G : DTF K) (x : Operand K) (hG : 0 < G.p ∧ 0 < G.m) (hx : opNonempty x) :
    Generated.TF.truediv G (PyTF.ofOperand x) = DTF.truediv G x := by
  cases x with
  | sys H => exact generated_truediv_tf G H hG hx
  | scalar c =>
    have e : Generated.TF.truediv G (.scalar c) = Generated.TF.truediv G (.tf (DTF.ofScalar c 1 1)) := by
      rw [Generated.TF.truediv, Generated.TF.truediv]
      rfl
    exact e.trans (generated_truediv_tf G _ hG ⟨Nat.one_pos, Nat.one_pos⟩)
  | array p m D =>
    have e : Generated.TF.truediv G (.array p m D) = Generated.TF.truediv G (.tf (DTF.ofArray p m D)) := by
      rw [Generated.TF.truediv, Generated.TF.truediv]
      rfl
    exact e.trans (generated_truediv_tf G _ hG hx)

theorem generated_truediv_foreign (G : DTF K) :
    Generated.TF.truediv G .foreign = .error .notImplemented := by
  rw [Generated.TF.truediv]
  rfl

theorem generated_truediv_ss (G c n : DTF K) (hG : 0 < G.p ∧ 0 < G.m) (hc : 0 < c.p ∧ 0 < c.m) :
    Generated.TF.truediv G (.ss c n) = DTF.truedivCore G c := by
  rw [← generated_truediv_tf G c hG hc, Generated.TF.truediv, Generated.TF.truediv]
  rfl

/-- MIMO / SISO (`other**-1`, copies on the diagonal, `__mul__`) needs no hypothesis on the shape of
`self`: also a system without inputs or outputs is handled alike by text and model. -/
theorem generated_truediv_mimo_siso (G H : DTF K) (hG : G.isSiso = false) (hH : H.isSiso = true) :
    Generated.TF.truediv G (.tf H) = DTF.truedivCore G H := by
  obtain ⟨hHp, hHm⟩ := (isSiso_iff H).mp hH
  rw [Generated.TF.truediv]
  simp only [convert_tf, PyArith.ok_bind]
  unfold DTF.truedivCore
  have c : ¬ G.isSiso = true ∧ H.isSiso = true := ⟨by simp [hG], hH⟩
  rw [if_pos c]
  simp only [hG, hH, Bool.not_false, Bool.and_true, if_true]
  rw [generated_pow_eq H (by omega) (-1)]
  refine PyTF.bind_congr' rfl ?_
  intro hi
  simp only [PyTF.appendCopies, PyTF.ninputs, Int.toNat_natCast, PyArith.ok_bind]
  exact generated_mul_tf G _

/-- outside that branch, on a system without inputs or outputs (no such object exists) the text and
the model both raise — the model `notImplemented`, the text whatever comes first; so "returns" and
"raises" agree for ALL shapes. -/
theorem generated_truediv_empty_raises (G H : DTF K)
    (h : (G.p = 0 ∨ G.m = 0) ∨ (H.p = 0 ∨ H.m = 0)) (hb : ¬ (G.isSiso = false ∧ H.isSiso = true)) :
    (∃ e, Generated.TF.truediv G (.tf H) = .error e) ∧
      DTF.truedivCore G H = .error .notImplemented := by
  have hns : G.isSiso = false ∨ H.isSiso = false := by
    simp only [DTF.isSiso]
    rcases h with (h | h) | (h | h) <;> simp [h]
  have hfirst : ¬ (¬ G.isSiso = true ∧ H.isSiso = true) := by
    rintro ⟨h1, h2⟩
    exact hb ⟨by simpa using h1, h2⟩
  constructor
  · rw [Generated.TF.truediv]
    simp only [convert_tf, PyArith.ok_bind]
    rw [if_neg hfirst]
    split
    · exact ⟨_, rfl⟩
    · cases common G.dt H.dt with
      | error e => exact ⟨e, rfl⟩
      | ok dt =>
        rw [PyArith.ok_bind]
        by_cases hG : G.p = 0 ∨ G.m = 0
        · by_cases hH : H.p = 0 ∨ H.m = 0
          · simp only [numArray_getItem_zero_empty G hG, denArray_getItem_zero_empty G hG,
              numArray_getItem_zero_empty H hH, denArray_getItem_zero_empty H hH, PyArith.error_bind]
            exact ⟨_, rfl⟩
          · have hH' : 0 < H.p ∧ 0 < H.m := by omega
            simp only [numArray_getItem_zero_empty G hG, denArray_getItem_zero_empty G hG,
              numArray_getItem_zero H hH'.1 hH'.2, denArray_getItem_zero H hH'.1 hH'.2,
              PyArith.error_bind, PyArith.ok_bind]
            exact ⟨_, rfl⟩
        · have hG' : 0 < G.p ∧ 0 < G.m := by omega
          have hH : H.p = 0 ∨ H.m = 0 := by rcases h with h | h; exact absurd h hG; exact h
          simp only [numArray_getItem_zero G hG'.1 hG'.2, denArray_getItem_zero G hG'.1 hG'.2,
            numArray_getItem_zero_empty H hH, denArray_getItem_zero_empty H hH,
            PyArith.error_bind, PyArith.ok_bind]
          exact ⟨_, rfl⟩
  · unfold DTF.truedivCore
    have c1 : (!G.isSiso && H.isSiso) = false := by
      cases hg : G.isSiso <;> cases hh : H.isSiso <;> simp_all
    have c2 : (!G.isSiso || !H.isSiso) = true := by
      rcases hns with h | h <;> simp [h]
    rw [c1, c2]
    rfl

/-- `other / self` for a `TransferFunction` operand. -/
theorem generated_rtruediv_tf (G H : DTF K) (hG : 0 < G.p ∧ 0 < G.m) (hH : 0 < H.p ∧ 0 < H.m) :
    Generated.TF.rtruediv G (.tf H) = DTF.rtruedivCore G H := by
  unfold Generated.TF.rtruediv DTF.rtruedivCore
  simp only [convert_tf, PyArith.ok_bind, PyArith.pure_bind]
  by_cases hGs : G.isSiso = true
  · by_cases hHs : H.isSiso = true
    · have c : ¬ (G.isSiso = true ∧ ¬ H.isSiso = true) := fun h => h.2 hHs
      obtain ⟨hGp, hGm⟩ := (isSiso_iff G).mp hGs
      obtain ⟨hHp, hHm⟩ := (isSiso_iff H).mp hHs
      have c2 : ¬ (1 < PyTF.ninputs G ∨ 1 < PyTF.noutputs G ∨ 1 < PyTF.ninputs H ∨ 1 < PyTF.noutputs H) := by
        simp [PyTF.ninputs, PyTF.noutputs, hGp, hGm, hHp, hHm]
      rw [if_neg c, if_neg c2]
      simp only [hGs, hHs, Bool.not_true, Bool.and_false, Bool.or_false, Bool.false_eq_true, if_false]
      exact generated_truediv_tf H G hH hG
    · have c : G.isSiso = true ∧ ¬ H.isSiso = true := ⟨hGs, hHs⟩
      rw [if_pos c]
      simp only [hGs, hHs, Bool.not_false, Bool.and_true, if_true]
      rw [generated_pow_eq G hG (-1)]
      refine PyTF.bind_congr' rfl ?_
      intro si
      simp only [PyTF.appendCopies, PyTF.ninputs, Int.toNat_natCast, PyArith.ok_bind]
      exact generated_mul_tf H _
  · have c : ¬ (G.isSiso = true ∧ ¬ H.isSiso = true) := fun h => hGs h.1
    have c2 : 1 < PyTF.ninputs G ∨ 1 < PyTF.noutputs G ∨ 1 < PyTF.ninputs H ∨ 1 < PyTF.noutputs H := by
      rcases not_siso_gt G hG hGs with h | h
      · exact Or.inl h
      · exact Or.inr (Or.inl h)
    rw [if_neg c, if_pos c2]
    simp [hGs]

theorem generated_rtruediv_eq (G : DTF K) (x : Operand K) (hG : 0 < G.p ∧ 0 < G.m) (hx : opNonempty x) :
    Generated.TF.rtruediv G (PyTF.ofOperand x) = DTF.rtruediv G x := by
  cases x with
  | sys H => exact generated_rtruediv_tf G H hG hx
  | scalar c =>
    have e : Generated.TF.rtruediv G (.scalar c)
        = Generated.TF.rtruediv G (.tf (DTF.ofScalar c G.m G.m)) := by
      unfold Generated.TF.rtruediv
      rfl
    exact e.trans (generated_rtruediv_tf G _ hG ⟨hG.2, hG.2⟩)
  | array p m D =>
    have e : Generated.TF.rtruediv G (.array p m D)
        = Generated.TF.rtruediv G (.tf (DTF.ofArray p m D)) := by
      unfold Generated.TF.rtruediv
      rfl
    exact e.trans (generated_rtruediv_tf G _ hG hx)

theorem generated_rtruediv_foreign (G : DTF K) :
    Generated.TF.rtruediv G .foreign = .error .notImplemented := by
  unfold Generated.TF.rtruediv
  rfl

end CtrlVerif.C01Gen
