/-
Source-text tie for C17, part 2 (tag py2lean-getitem): `Generated/GetitemSS.lean` is rewritten on
every run from the text of `StateSpace.__getitem__` in /repo/control/statesp.py by
`harness/core/py2lean_getitem.py` (key validation, `NamedSignal(...)._parse_key`, the two
`_process_subsys_index` calls — both already regenerated from control/iosys.py, `Generated/
SubsysIndex.lean` —, `self.B[:, inpdx]`, `self.C[outdx, :]`, `self.D[outdx, :][:, inpdx]`, the labels,
the name with the configured prefix / suffix, `dt`, the constructor call).  The meaning of the
primitives is fixed in `Model/PyGet.lean`.  The hand-written model `getitem ssCtor` (the one the
theorems of `Props/C17.lean` are about) is proved EQUAL to the generated method for every system
(any number of states, outputs, inputs; any entries over any field; any labels, timebase, name), every
configuration and every pair of selectors; the headline theorems of C17 are transported to the
generated method.
-/
import CtrlVerif.Generated.GetitemSS
import CtrlVerif.Lemmas.PyGet
import CtrlVerif.Props.C17

namespace CtrlVerif.C17GenItem

open CtrlVerif Index C17Gen PyGet

variable {K : Type} [Field K]

/-- a state-space system of the model as the Python object: the four matrices and the timebase
(`DSS`), the name, the two label lists. -/
def ssObj {n : Nat} (S : Sys (SSB K n)) : SSObj K :=
  ⟨⟨n, S.p, S.m, S.body, S.dt⟩, S.name, pyLabels S.ins, pyLabels S.outs⟩

/-- **`StateSpace.__getitem__` as the source text says it is the model**: for every system, every
configuration (`prefix`, `suffix`), every pair of selectors (integers, names, slices, lists of
integers / names, other objects) and every recursion budget ≥ 3 of `_parse_key`, the generated
method raises exactly when `getitem ssCtor` raises, with the same error kind, and otherwise returns
the object of the system the model returns: `A`, the selected columns of `B`, rows of `C`, rows and
columns of `D` in the selected order, the selected labels, the same `dt`, `prefix + name + suffix`. -/
theorem generated_ssGetitem_eq {n : Nat} (fuel : Nat) (cfg : Cfg) (S : Sys (SSB K n)) (kr kc : Sel) :
    Generated.ssGetitem (fuel + 3) (defaultsOf cfg) (ssObj S) (pairKey kr kc)
      = (getitem ssCtor cfg S kr kc).map ssObj := by
  unfold Generated.ssGetitem getitem
  simp only [isIterable_pairKey, len_pairKey, namedSignal, ssObj, bind, Except.bind, pure, Except.pure]
  simp only [pairKey, generated_parseKey_pair, Bool.not_true, Bool.false_eq_true, if_false, ne_eq,
    not_true_eq_false, decide_false]
  cases hr : parseSel S.outs kr with
  | error e => simp [Except.bind, Except.map]
  | ok r =>
    cases hc : parseSel S.ins kc with
    | error e => simp [Except.bind, Except.map]
    | ok c =>
      simp only [Except.bind, Except.map, getitem_pair0, getitem_pair1]
      rcases psi_spec S.outs r false with ⟨e, h1, h2⟩ | ⟨rows, ri, h1, h2, h3⟩
      · simp [h1, h2]
      · rcases psi_spec S.ins c false with ⟨e, g1, g2⟩ | ⟨cols, ci, g1, g2, g3⟩
        · simp [h1, h2, g1, g2]
        · simp only [IdxFor, Bool.false_eq_true, if_false] at h3 g3
          simp only [h1, h2, g1, g2, defaultsOf_pre, defaultsOf_suf, PySS.A, PySS.B, PySS.C, PySS.D,
            takeRows_mk _ _ _ _ _ h3, takeCols_mk _ _ _ _ _ g3]
          rw [mkStateSpace_mk _ _ _ _ _ _ _ _ _ _ _ (by simp) (by simp)]
          unfold ssCtor
          by_cases hq : cols.length = 0 ∧ (n = 1 ∨ rows.length = 1)
          · simp only [if_pos hq]
          · simp only [if_neg hq, ssObj, pyLabels_select, SS.select, Matrix.submatrix_submatrix,
              Function.comp_id, Function.id_comp]

/-- a key that is not iterable (an integer, a slice, `None`: `sys[0]`, `sys[1:2]`) is rejected
(`IOError`), whatever the system. -/
theorem generated_ssGetitem_not_iterable (fuel : Nat) (d : Defaults) (self : SSObj K) (key : PyVal)
    (h : isIterable key = .ok false) : Generated.ssGetitem fuel d self key = .error .badArg := by
  simp [Generated.ssGetitem, h, bind, Except.bind, pure, Except.pure, throw, throwThe, MonadExceptOf.throw]

/-- an iterable key whose length is not 2 (`sys[0, 1, 2]`, `sys[(0,)]`, `sys['abc']`) is rejected. -/
theorem generated_ssGetitem_wrong_length (fuel : Nat) (d : Defaults) (self : SSObj K) (key : PyVal)
    (l : Int) (h : isIterable key = .ok true) (hl : Py.len key = .ok l) (h2 : l ≠ 2) :
    Generated.ssGetitem fuel d self key = .error .badArg := by
  simp [Generated.ssGetitem, h, hl, h2, bind, Except.bind, pure, Except.pure, throw, throwThe,
    MonadExceptOf.throw]

example : Generated.ssGetitem 3 (defaultsOf ⟨"", "$indexed"⟩) (ssObj (K := ℚ) (n := 0)
    ⟨1, 1, ⟨0, 0, 0, 1⟩, fun _ => "y", fun _ => "u", .cont, "G"⟩) (.int 0) = .error .badArg :=
  generated_ssGetitem_not_iterable _ _ _ _ rfl
example : Generated.ssGetitem 3 (defaultsOf ⟨"", "$indexed"⟩) (ssObj (K := ℚ) (n := 0)
    ⟨1, 1, ⟨0, 0, 0, 1⟩, fun _ => "y", fun _ => "u", .cont, "G"⟩) (.tuple [.int 0, .int 0, .int 0])
    = .error .badArg :=
  generated_ssGetitem_wrong_length _ _ _ _ 3 rfl rfl (by decide)

/-! ### the headline theorems of C17, for the generated method -/

/-- `select_submatrix` for the function the source text defines: whatever
`StateSpace.__getitem__` returns for `sys[kr, kc]` is the object of a system that, wherever the
original system responds with `Y` at `s`, responds with the sub-matrix of `Y` on the rows / columns
the two selectors resolve to, in the selected order — and it carries the selected labels, the same
timebase and the name `prefix + name + suffix`. -/
theorem generated_ss_select_submatrix {n : Nat} (fuel : Nat) (cfg : Cfg) (S : Sys (SSB K n))
    (kr kc : Sel) (R : SSObj K)
    (h : Generated.ssGetitem (fuel + 3) (defaultsOf cfg) (ssObj S) (pairKey kr kc) = .ok R) :
    ∃ (rows : List (Fin S.p)) (cols : List (Fin S.m)) (body : SSB K n rows.length cols.length),
      resolve S.outs kr = .ok rows ∧ resolve S.ins kc = .ok cols ∧
      R = ssObj { p := rows.length, m := cols.length, body := body,
                  outs := fun i => S.outs (rows.get i), ins := fun j => S.ins (cols.get j),
                  dt := S.dt, name := cfg.pre ++ S.name ++ cfg.suf } ∧
      ∀ (s : K) (Y : Matrix (Fin S.p) (Fin S.m) K), SS.Resp S.body s Y →
        SS.Resp body s (Y.submatrix (fun i => rows.get i) (fun j => cols.get j)) := by
  rw [generated_ssGetitem_eq] at h
  cases hg : getitem ssCtor cfg S kr kc with
  | error e => rw [hg] at h; cases h
  | ok R' =>
    rw [hg] at h
    obtain ⟨rows, cols, body, hr, hc, rfl, hresp⟩ := C17.ss_select_submatrix cfg S kr kc R' hg
    cases h
    exact ⟨rows, cols, body, hr, hc, rfl, hresp⟩

/-- `labels_selected` for the generated method: the returned object has one output per selected
row, one input per selected column, the labels of the selected signals in the selected order, the
timebase of `sys` and the name `prefix + sys.name + suffix`. -/
theorem generated_ss_labels_selected {n : Nat} (fuel : Nat) (cfg : Cfg) (S : Sys (SSB K n))
    (kr kc : Sel) (R : SSObj K)
    (h : Generated.ssGetitem (fuel + 3) (defaultsOf cfg) (ssObj S) (pairKey kr kc) = .ok R) :
    ∃ rows cols, resolve S.outs kr = .ok rows ∧ resolve S.ins kc = .ok cols ∧
      R.sys.p = rows.length ∧ R.sys.m = cols.length ∧ R.sys.n = n ∧
      R.output_labels = pyLabelList (rows.map S.outs) ∧ R.input_labels = pyLabelList (cols.map S.ins) ∧
      R.sys.dt = S.dt ∧ R.name = cfg.pre ++ S.name ++ cfg.suf := by
  obtain ⟨rows, cols, body, hr, hc, rfl, -⟩ := generated_ss_select_submatrix fuel cfg S kr kc R h
  exact ⟨rows, cols, hr, hc, rfl, rfl, rfl, pyLabels_select _ _, pyLabels_select _ _, rfl, rfl⟩

/-- the generated method returns exactly when both selectors resolve, except for the empty column
selections that make `B` or `D` a `1 × 0` array (rejected by the constructor). -/
theorem generated_ss_returns_iff {n : Nat} (fuel : Nat) (cfg : Cfg) (S : Sys (SSB K n)) (kr kc : Sel) :
    (∃ R, Generated.ssGetitem (fuel + 3) (defaultsOf cfg) (ssObj S) (pairKey kr kc) = .ok R) ↔
      ∃ rows cols, resolve S.outs kr = .ok rows ∧ resolve S.ins kc = .ok cols ∧
        ¬ (cols.length = 0 ∧ (n = 1 ∨ rows.length = 1)) := by
  rw [← C17.ss_returns_iff cfg S kr kc, generated_ssGetitem_eq]
  cases getitem ssCtor cfg S kr kc <;> simp [Except.map]

/-- an unknown name, an out-of-range index, a zero step or a non-selector object on either axis
makes the generated method raise: it never returns a smaller system instead. -/
theorem generated_ss_raises_on_bad_selector {n : Nat} (fuel : Nat) (cfg : Cfg) (S : Sys (SSB K n))
    (kr kc : Sel)
    (h : (∃ e, resolve S.outs kr = .error e) ∨ (∃ e, resolve S.ins kc = .error e)) :
    ∃ e, Generated.ssGetitem (fuel + 3) (defaultsOf cfg) (ssObj S) (pairKey kr kc) = .error e := by
  obtain ⟨e, he⟩ := C17.getitem_raises_on_bad_selector ssCtor cfg S kr kc h
  exact ⟨e, by rw [generated_ssGetitem_eq, he]; rfl⟩

/-- selecting by name is selecting by the index of the name — for the generated method, on either
axis (labels pairwise distinct, as the constructors enforce). -/
theorem generated_ss_name_eq_index {n : Nat} (fuel : Nat) (cfg : Cfg) (S : Sys (SSB K n))
    (ho : Function.Injective S.outs) (hi : Function.Injective S.ins) (i : Fin S.p) (j : Fin S.m)
    (k : Sel) :
    Generated.ssGetitem (fuel + 3) (defaultsOf cfg) (ssObj S) (pairKey (.name (S.outs i)) k)
      = Generated.ssGetitem (fuel + 3) (defaultsOf cfg) (ssObj S) (pairKey (.idx (i.val : Int)) k) ∧
    Generated.ssGetitem (fuel + 3) (defaultsOf cfg) (ssObj S) (pairKey k (.name (S.ins j)))
      = Generated.ssGetitem (fuel + 3) (defaultsOf cfg) (ssObj S) (pairKey k (.idx (j.val : Int))) := by
  obtain ⟨h1, h2⟩ := C17.getitem_name_eq_index ssCtor cfg S ho hi i j k
  simp only [generated_ssGetitem_eq, h1, h2, and_self]

/-! ### non-vacuity: a concrete 2-state system with 2 outputs and 3 inputs over ℚ -/

/-- `A = [[1,2],[3,4]]`, `B = [[1,0,2],[0,1,3]]`, `C = [[1,1],[0,2]]`, `D = [[0,1,2],[3,4,5]]`. -/
def exSS : Sys (SSB ℚ 2) where
  p := 2
  m := 3
  body := ⟨!![1, 2; 3, 4], !![1, 0, 2; 0, 1, 3], !![1, 1; 0, 2], !![0, 1, 2; 3, 4, 5]⟩
  outs := !["y0", "y1"]
  ins := !["u0", "u1", "u2"]
  dt := .cont
  name := "G"

/-- `G[-1, ['u2', 0]]` returns (hypothesis of `generated_ss_select_submatrix` / `_labels_selected`
is satisfiable) … -/
example : ∃ R, Generated.ssGetitem 3 (defaultsOf ⟨"", "$indexed"⟩) (ssObj exSS)
    (pairKey (.idx (-1)) (.list [.name "u2", .idx 0])) = .ok R :=
  (generated_ss_returns_iff 0 _ exSS _ _).mpr ⟨[(1 : Fin 2)], [(2 : Fin 3), (0 : Fin 3)], by decide, by decide, by decide⟩

/-- … `G[0, []]` resolves on both axes but is rejected by the constructor, and `G['q', 0]`,
`G[2, 0]` raise (hypothesis of `generated_ss_raises_on_bad_selector`). -/
example : ¬ ∃ R, Generated.ssGetitem 3 (defaultsOf ⟨"", "$indexed"⟩) (ssObj exSS)
    (pairKey (.idx 0) (.list [])) = .ok R := by
  rw [generated_ss_returns_iff 0]
  rintro ⟨rows, cols, hr, hc, hq⟩
  have h1 : resolve exSS.outs (.idx 0) = .ok [(0 : Fin 2)] := by decide
  have h2 : resolve exSS.ins (.list []) = .ok [] := by decide
  rw [h1] at hr
  rw [h2] at hc
  cases hr
  cases hc
  exact hq ⟨rfl, Or.inr rfl⟩

example : ∃ e, Generated.ssGetitem 3 (defaultsOf ⟨"", "$indexed"⟩) (ssObj exSS)
    (pairKey (.name "q") (.idx 0)) = .error e :=
  generated_ss_raises_on_bad_selector 0 _ exSS _ _ (Or.inl ⟨.unknownName, by decide⟩)

example : ∃ e, Generated.ssGetitem 3 (defaultsOf ⟨"", "$indexed"⟩) (ssObj exSS)
    (pairKey (.idx 2) (.idx 0)) = .error e :=
  generated_ss_raises_on_bad_selector 0 _ exSS _ _ (Or.inl ⟨.indexRange, by decide⟩)

example : Function.Injective exSS.outs ∧ Function.Injective exSS.ins := by
  constructor <;> (intro a b; fin_cases a <;> fin_cases b <;> simp [exSS])

end CtrlVerif.C17GenItem
