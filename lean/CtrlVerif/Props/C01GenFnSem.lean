/-
Source-text tie of C01 (notes/NOTES-py2lean-bdalgfn.md), part 3: the MEANING of the n-ary wrappers as the
source text defines them.  `C01Call.sem_seriesT` / `sem_parallelT` (typed layer) are transported to
`Generated.BdalgFn.series` / `parallel`: first the model's run-time functions `seriesFn` / `parallelFn` on
systems of one shape and one timebase are proved to BE the typed folds (`seriesFn_typed`,
`parallelFn_typed`: no promotion, the shape test passes, the timebase stays), then the equality theorems of
`Props/C01GenFnFold.lean` carry the statement to the generated functions: `series(G, H1, ..., Hk, **kw)` of
well-formed square systems returns a well-formed system that represents `Hk · ... · H1 · G`, `parallel` one
that represents `G + H1 + ... + Hk`.
-/
import CtrlVerif.Props.C01GenFnFold

set_option linter.unusedSectionVars false
set_option linter.unnecessarySeqFocus false
set_option linter.unusedSimpArgs false

namespace CtrlVerif.C01GenFn
open CtrlVerif PyBdalg

variable {K : Type} [Field K] [DecidableEq K]

/-- `H * G` on square systems of one timebase is the typed product (no promotion, shapes fit). -/
theorem mulCore_square (n : Nat) (H G : TFM (Fin n) (Fin n) K) (dt : Dt) (hdt : common dt dt = .ok dt) :
    DTF.mulCore ⟨n, n, H, dt⟩ ⟨n, n, G, dt⟩ = (H.mul G >>= fun s => .ok ⟨n, n, s, dt⟩) := by
  unfold DTF.mulCore
  rcases n with _ | _ | n <;>
    (simp [DTF.isSiso, hdt, ok_bind, pure_ok] <;> rfl)

/-- `G + H` on systems of one shape and timebase is the typed sum. -/
theorem addCore_same (p m : Nat) (G H : TFM (Fin p) (Fin m) K) (dt : Dt) (hdt : common dt dt = .ok dt) :
    DTF.addCore ⟨p, m, G, dt⟩ ⟨p, m, H, dt⟩ = (G.add H >>= fun s => .ok ⟨p, m, s, dt⟩) := by
  unfold DTF.addCore
  rcases p with _ | _ | p <;> rcases m with _ | _ | m <;>
    (simp [DTF.isSiso, hdt, ok_bind, pure_ok] <;> rfl)

/-- systems of one shape and timebase as operands -/
def sysOps {p m : Nat} (dt : Dt) (xs : List (TFM (Fin p) (Fin m) K)) : List (NumKind × Operand K) :=
  xs.map fun H => (NumKind.pyInt, Operand.sys ⟨p, m, H, dt⟩)

/-- the model's `seriesFn` on square systems of one timebase is the typed `seriesT`. -/
theorem seriesFn_typed (n : Nat) (dt : Dt) (hdt : common dt dt = .ok dt)
    (xs : List (TFM (Fin n) (Fin n) K)) (G : TFM (Fin n) (Fin n) K) :
    DTF.seriesFn ⟨n, n, G, dt⟩ (ops (sysOps dt xs))
      = (C01Call.seriesT G xs >>= fun s => .ok ⟨n, n, s, dt⟩) := by
  induction xs generalizing G with
  | nil => rfl
  | cons H t ih =>
    simp only [sysOps, ops, List.map_cons, C01Call.seriesFn_cons, DTF.lmulBy, DTF.mul,
      mulCore_square n H G dt hdt, C01Call.seriesT, List.foldlM_cons]
    cases h : H.mul G with
    | error e => rfl
    | ok R => exact ih R

/-- the model's `parallelFn` on systems of one shape and timebase is the typed `parallelT`. -/
theorem parallelFn_typed (p m : Nat) (dt : Dt) (hdt : common dt dt = .ok dt)
    (xs : List (TFM (Fin p) (Fin m) K)) (G : TFM (Fin p) (Fin m) K) :
    DTF.parallelFn ⟨p, m, G, dt⟩ (ops (sysOps dt xs))
      = (C01Call.parallelT G xs >>= fun s => .ok ⟨p, m, s, dt⟩) := by
  induction xs generalizing G with
  | nil => rfl
  | cons H t ih =>
    simp only [sysOps, ops, List.map_cons, C01Call.parallelFn_cons, DTF.add,
      addCore_same p m G H dt hdt, C01Call.parallelT, List.foldlM_cons]
    cases h : G.add H with
    | error e => rfl
    | ok R => exact ih R

theorem vals_sysOps {p m : Nat} (dt : Dt) (xs : List (TFM (Fin p) (Fin m) K)) :
    vals (sysOps dt xs) = xs.map fun H => Val.tf ⟨p, m, H, dt⟩ := by
  simp [vals, sysOps, List.map_map, Function.comp_def, Val.ofOp]

/-- `C01Call.sem_seriesT` for the wrapper the source text defines: `series(G, H1, ..., Hk, **kw)` of
well-formed `n × n` systems of one timebase returns a well-formed system of that shape and timebase which
represents `Hk · ... · H1 · G` (every argument, the later one on the LEFT), with or without naming keywords. -/
theorem generated_series_sem (w : World) (kw : Kw) (n : Nat) (dt : Dt) (hdt : common dt dt = .ok dt)
    (xs : List (TFM (Fin n) (Fin n) K)) (G : TFM (Fin n) (Fin n) K)
    (hG : G.WF) (hx : ∀ H ∈ xs, H.WF) :
    ∃ R, Generated.BdalgFn.series w (.tf ⟨n, n, G, dt⟩ :: xs.map fun H => Val.tf ⟨n, n, H, dt⟩) kw
        = .ok (.tf ⟨n, n, R, dt⟩) ∧ R.WF ∧
      R.sem = xs.foldl (fun acc H => H.sem * acc) G.sem := by
  obtain ⟨R, h1, h2, h3⟩ := C01Call.sem_seriesT xs G hG hx
  refine ⟨R, ?_, h2, h3⟩
  rw [← vals_sysOps, generated_series_eq, seriesFn_typed n dt hdt, h1]; rfl

/-- `C01Call.sem_parallelT` for the wrapper the source text defines: `parallel(G, H1, ..., Hk, **kw)` of
well-formed `p × m` systems of one timebase represents `G + H1 + ... + Hk` (every argument). -/
theorem generated_parallel_sem (w : World) (kw : Kw) (p m : Nat) (dt : Dt) (hdt : common dt dt = .ok dt)
    (xs : List (TFM (Fin p) (Fin m) K)) (G : TFM (Fin p) (Fin m) K)
    (hG : G.WF) (hx : ∀ H ∈ xs, H.WF) :
    ∃ R, Generated.BdalgFn.parallel w (.tf ⟨p, m, G, dt⟩ :: xs.map fun H => Val.tf ⟨p, m, H, dt⟩) kw
        = .ok (.tf ⟨p, m, R, dt⟩) ∧ R.WF ∧
      R.sem = xs.foldl (fun acc H => acc + H.sem) G.sem := by
  obtain ⟨R, h1, h2, h3⟩ := C01Call.sem_parallelT xs G hG hx
  refine ⟨R, ?_, h2, h3⟩
  rw [← vals_sysOps, generated_parallel_eq, parallelFn_typed p m dt hdt, h1]; rfl

/-- non-vacuity: `series(g, g, g, name=...)` and `parallel(g, g)` of `g = (s+2)/(s²+3)` over `ℚ` (timebase
`None`) as the source text computes them return, and represent `g·(g·g)` and `g + g`. -/
example (w : World) : ∃ R, Generated.BdalgFn.series w
    [.tf ⟨1, 1, C01.exG1.1, .none⟩, .tf ⟨1, 1, C01.exG1.1, .none⟩, .tf ⟨1, 1, C01.exG1.1, .none⟩]
    [("name", "cube")] = .ok (.tf ⟨1, 1, R, .none⟩) ∧ R.WF ∧
    R.sem = C01.exG1.1.sem * (C01.exG1.1.sem * C01.exG1.1.sem) :=
  generated_series_sem w _ 1 .none rfl [C01.exG1.1, C01.exG1.1] _ C01.exG1.2
    (by intro H hH; simp at hH; subst hH; exact C01.exG1.2)

example (w : World) : ∃ R, Generated.BdalgFn.parallel w
    [.tf ⟨1, 1, C01.exG1.1, .none⟩, .tf ⟨1, 1, C01.exG1.1, .none⟩] [] = .ok (.tf ⟨1, 1, R, .none⟩) ∧ R.WF ∧
    R.sem = C01.exG1.1.sem + C01.exG1.1.sem :=
  generated_parallel_sem w _ 1 1 .none rfl [C01.exG1.1] _ C01.exG1.2
    (by intro H hH; simp at hH; subst hH; exact C01.exG1.2)

end CtrlVerif.C01GenFn
