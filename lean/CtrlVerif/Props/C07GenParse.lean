/-
C07, source-text tie, part 1: `_parse_spec` (control/iosys.py) as regenerated from the tree under
check (`Generated/ICParseSpec.lean`, rewritten by `harness/core/py2lean_ic.py` on every run) equals
the hand-written model `IC.parseSpec` on every signal specification the harness can tokenise
(`PyIC.tokenize`: the statement in Lean of `families/c07.py: spec_toks`; strings arrive with the
groups of the regular expressions, which the harness applies).

Proof method: symbolic evaluation of the generated function on constructor-form values (`ic_eval`),
progressively — every case split is preceded by an evaluation of what is already known, so the
deeper splits work on small terms.  Nothing refers to the text of the generated function.
-/
import CtrlVerif.Generated.ICParseSpec
import CtrlVerif.Lemmas.PyIC

namespace CtrlVerif.C07Gen

open CtrlVerif.IC CtrlVerif.PyIC

variable {K : Type} [Field K] [DecidableEq K]

/-- how `_parse_spec` returns the model's triple (Python ints). -/
def retSpec (r : Nat × List Nat × K) : Int × List Int × K :=
  ((r.1 : Int), r.2.1.map Int.ofNat, r.2.2)

/-- `getattr(sys, x)` is the label list `d` of every subsystem. -/
def DictIs (x : String) (d : IC.Dict) : Prop := ∀ S : SysSig, getattrIndex S x = .ok (S.labels d)

/-- symbolic evaluation of the generated `_parse_spec` and of the model on constructor-form data. -/
macro "ic_eval" "[" ts:Lean.Parser.Tactic.simpLemma,* "]" : tactic =>
  `(tactic| simp [Generated.icParseSpec, parseSpec, gainConflict, gainOf, sigIndices, listRange,
      forM_map_int, forM_guard, retSpec, dictGet_names, range_or_comm, $ts,*])

omit [DecidableEq K] in
theorem ret_ext (i : Int) (hi0 : 0 ≤ i) (L : List Int) (L' : List Nat) (g : K)
    (hL : L'.map Int.ofNat = L) : (i, L, g) = ((i.toNat : Int), L'.map Int.ofNat, g) := by
  simp [Int.toNat_of_nonneg hi0, hL]

omit [DecidableEq K] in
theorem ret_ext_nat (i : Int) (hi0 : 0 ≤ i) (q : List Nat) (g : K) :
    (i, q.map Int.ofNat, g)
      = ((i.toNat : Int), (List.map (Int.toNat ∘ Int.ofNat) q).map Int.ofNat, g) :=
  ret_ext i hi0 _ _ g (by rw [map_ofNat_toNat_comp])

omit [DecidableEq K] in
theorem ret_ext_int (i : Int) (hi0 : 0 ≤ i) (is : List Int) (n : Nat) (g : K)
    (h : ∀ x ∈ is, 0 ≤ x ∧ x < (n : Int)) :
    (i, is, g) = ((i.toNat : Int), (is.map Int.toNat).map Int.ofNat, g) :=
  ret_ext i hi0 _ _ g (map_toNat_ofNat is fun x hx => (h x hx).1)

/-- the two sides are `if`s over the same conditions; the returned triples agree. -/
macro "ic_finish" : tactic =>
  `(tactic| first
    | done
    | (split_ifs <;> simp_all [retSpec, Int.toNat_of_nonneg] <;>
        first
        | done
        | exact eq_map_ofNat_toNat _ _ ‹_›))

/-- the sign class of a tokenisable signal part: not a string, or a non-empty string. -/
theorem sig_sign {b : Val K} {r : SigRef × Bool} (kb : SigKind K b r) (heb : emptyStr b = false) :
    (isinstance b [.str] = false ∧ r.2 = false) ∨
    (∃ st t, b = .str st ∧ getItem (.str st : Val K) 0 = .ok t ∧ eqLit t "-" = st.neg ∧
      r = (.names [st.tok], st.neg)) := by
  cases kb with
  | name st =>
    obtain ⟨t, ht, htn⟩ := checkSign_str (K := K) st (by simpa [emptyStr] using heb)
    exact .inr ⟨st, t, rfl, ht, htn, rfl⟩
  | _ => exact .inl ⟨by simp, rfl⟩

/-- evaluation of the signal stage for every kind of signal part that is not a single string, once
the subsystem `S` is known (`hbs`: the hypothesis that the part is not a string). -/
macro "ic_sig" S:term:max d:term:max hbs:ident "[" ts:Lean.Parser.Tactic.simpLemma,* "]" : tactic =>
  `(tactic| (
    cases ‹SigKind _ _ _› with
    | all => ic_eval [$ts,*]; ic_finish
    | idx j => ic_eval [$ts,*]; ic_finish
    | idxs is => ic_eval [$ts,*]; ic_finish
    | name st => simp at $hbs:ident
    | names s ss =>
      rcases findVal_cases (K := K) (SysSig.labels $S $d) (s.tok :: ss.map Str.tok)
        with ⟨hf, hv⟩ | ⟨q, hf, hv⟩ <;> ic_eval [hf, hv, $ts,*] <;> ic_finish
    | tnames ss =>
      rcases findVal_cases (K := K) (SysSig.labels $S $d) (ss.map Str.tok)
        with ⟨hf, hv⟩ | ⟨q, hf, hv⟩ <;> ic_eval [hf, hv, $ts,*] <;> ic_finish))

/-- the same for a single string `st` (after the sign handling). -/
macro "ic_name" S:term:max d:term:max st:term:max "[" ts:Lean.Parser.Tactic.simpLemma,* "]" : tactic =>
  `(tactic| (
    rcases findVal_cases (K := K) (SysSig.labels $S $d) [Str.tok $st]
      with ⟨hf, hv⟩ | ⟨q, hf, hv⟩ <;> ic_eval [hf, hv, $ts,*] <;> ic_finish))

set_option maxHeartbeats 400000 in
/-- a tuple whose system part is an integer. -/
theorem triple_int (sigs : List SysSig) (i : Int) (b c : Val K) (r : SigRef × Bool) (g : Option K)
    (heb : emptyStr b = false) (kb : SigKind K b r) (hc : tokGain c = some g)
    (sn x : String) (d : IC.Dict) (hx : DictIs x d) :
    Generated.icParseSpec sigs (.tuple [.int i, b, c]) sn (some x)
      = (parseSpec sigs d (.mk (.idx i) false r.1 r.2 g)).map retSpec := by
  ic_eval []
  rcases tokGain_kind hc with ⟨rfl, rfl⟩ | ⟨g, rfl, hcn, hct⟩
  · -- no explicit gain
    rcases sig_sign kb heb with ⟨hbs, hr⟩ | ⟨st, t, rfl, ht, htn, rfl⟩
    · ic_eval [hbs, hr]
      by_cases hi : i < 0 ∨ (sigs.length : Int) ≤ i
      · ic_eval [hi]
      · obtain ⟨S, hS, hS'⟩ := seqGet_ok sigs i hi
        have hi0 : 0 ≤ i := by omega
        ic_eval [hi, hS, hS', hx S]
        ic_sig S d hbs [hi, hS, hS', hx S]
    · cases hneg : st.neg <;> ic_eval [ht, htn, hneg]
      all_goals
        by_cases hi : i < 0 ∨ (sigs.length : Int) ≤ i
        · ic_eval [hi]
        · obtain ⟨S, hS, hS'⟩ := seqGet_ok sigs i hi
          have hi0 : 0 ≤ i := by omega
          ic_eval [hi, hS, hS', hx S]
          ic_name S d st [hi, hS, hS', hx S]
  · -- an explicit gain
    rcases sig_sign kb heb with ⟨hbs, hr⟩ | ⟨st, t, rfl, ht, htn, rfl⟩
    · ic_eval [hbs, hr, hcn, hct]
      by_cases hi : i < 0 ∨ (sigs.length : Int) ≤ i
      · ic_eval [hi]
      · obtain ⟨S, hS, hS'⟩ := seqGet_ok sigs i hi
        have hi0 : 0 ≤ i := by omega
        ic_eval [hi, hS, hS', hx S]
        ic_sig S d hbs [hi, hS, hS', hx S, hcn, hct]
    · cases hneg : st.neg <;> ic_eval [ht, htn, hneg, hcn, hct]
      by_cases hi : i < 0 ∨ (sigs.length : Int) ≤ i
      · ic_eval [hi]
      · obtain ⟨S, hS, hS'⟩ := seqGet_ok sigs i hi
        have hi0 : 0 ≤ i := by omega
        ic_eval [hi, hS, hS', hx S]
        ic_name S d st [hi, hS, hS', hx S, hcn, hct]

set_option maxHeartbeats 400000 in
/-- a tuple whose system part is a (non-empty) string. -/
theorem triple_str (sigs : List SysSig) (sa : Str) (b c : Val K) (r : SigRef × Bool) (g : Option K)
    (hea : sa.raw.toList.isEmpty = false) (heb : emptyStr b = false) (kb : SigKind K b r)
    (hc : tokGain c = some g) (sn x : String) (d : IC.Dict) (hx : DictIs x d) :
    Generated.icParseSpec sigs (.tuple [.str sa, b, c]) sn (some x)
      = (parseSpec sigs d (.mk (.name sa.unsigned) sa.neg r.1 r.2 g)).map retSpec := by
  obtain ⟨ta, hta, htan⟩ := checkSign_str (K := K) sa hea
  ic_eval [hta, htan]
  cases hnega : sa.neg
  · -- the system part has no sign
    have hu : sa.unsigned = sa.raw := by simp [Str.unsigned, hnega]
    rcases tokGain_kind hc with ⟨rfl, rfl⟩ | ⟨g, rfl, hcn, hct⟩
    · rcases sig_sign kb heb with ⟨hbs, hr⟩ | ⟨st, t, rfl, ht, htn, rfl⟩
      · ic_eval [hbs, hr, hnega, hu]
        rcases sysIndex_name_cases (K := K) sigs sa.raw with he | ⟨k, S, hk, hS, hk0, hkl, hS'⟩
        · ic_eval [he]
        · ic_eval [hk, hS, hk0, hkl, hS', hx S]
          ic_sig S d hbs [hk, hS, hk0, hkl, hS', hx S]
      · cases hneg : st.neg <;> ic_eval [ht, htn, hneg, hnega, hu]
        all_goals
          rcases sysIndex_name_cases (K := K) sigs sa.raw with he | ⟨k, S, hk, hS, hk0, hkl, hS'⟩
          · ic_eval [he]
          · ic_eval [hk, hS, hk0, hkl, hS', hx S]
            ic_name S d st [hk, hS, hk0, hkl, hS', hx S]
    · rcases sig_sign kb heb with ⟨hbs, hr⟩ | ⟨st, t, rfl, ht, htn, rfl⟩
      · ic_eval [hbs, hr, hnega, hu, hcn, hct]
        rcases sysIndex_name_cases (K := K) sigs sa.raw with he | ⟨k, S, hk, hS, hk0, hkl, hS'⟩
        · ic_eval [he]
        · ic_eval [hk, hS, hk0, hkl, hS', hx S]
          ic_sig S d hbs [hk, hS, hk0, hkl, hS', hx S, hcn, hct]
      · cases hneg : st.neg <;> ic_eval [ht, htn, hneg, hnega, hu, hcn, hct]
        rcases sysIndex_name_cases (K := K) sigs sa.raw with he | ⟨k, S, hk, hS, hk0, hkl, hS'⟩
        · ic_eval [he]
        · ic_eval [hk, hS, hk0, hkl, hS', hx S]
          ic_name S d st [hk, hS, hk0, hkl, hS', hx S, hcn, hct]
  · -- the system part carries a '-'
    have hu : sa.unsigned = sa.tail.raw := by simp [Str.unsigned, hnega]
    rcases tokGain_kind hc with ⟨rfl, rfl⟩ | ⟨g, rfl, hcn, hct⟩
    · rcases sig_sign kb heb with ⟨hbs, hr⟩ | ⟨st, t, rfl, ht, htn, rfl⟩
      · ic_eval [hbs, hr, hnega, hu]
        rcases sysIndex_name_cases (K := K) sigs sa.tail.raw with he | ⟨k, S, hk, hS, hk0, hkl, hS'⟩
        · ic_eval [he]
        · ic_eval [hk, hS, hk0, hkl, hS', hx S]
          ic_sig S d hbs [hk, hS, hk0, hkl, hS', hx S]
      · cases hneg : st.neg <;> ic_eval [ht, htn, hneg, hnega, hu]
        rcases sysIndex_name_cases (K := K) sigs sa.tail.raw with he | ⟨k, S, hk, hS, hk0, hkl, hS'⟩
        · ic_eval [he]
        · ic_eval [hk, hS, hk0, hkl, hS', hx S]
          ic_name S d st [hk, hS, hk0, hkl, hS', hx S]
    · -- gain given twice
      ic_eval [hnega, hcn]

/-! ### the other shapes of a specification reduce to a triple -/

theorem tokSys_none {a : Val K} (h : tokSys a = none) :
    isinstance a [.int] = false ∧ isinstance a [.str] = false := by
  cases a <;> simp [tokSys] at h <;> simp

/-- a value with a sign test that evaluates: not a string, or a non-empty string. -/
theorem sign_class (b : Val K) (heb : emptyStr b = false) :
    isinstance b [.str] = false ∨
    ∃ st t, b = .str st ∧ getItem (.str st : Val K) 0 = .ok t ∧ eqLit t "-" = st.neg := by
  cases b with
  | str st =>
    obtain ⟨t, ht, htn⟩ := checkSign_str (K := K) st (by simpa [emptyStr] using heb)
    exact .inr ⟨st, t, rfl, ht, htn⟩
  | _ => exact .inl (by simp)

set_option maxHeartbeats 400000 in
/-- a system part that is neither an integer nor a string: "unknown system spec" (or, before that,
"gain specified multiple times"). -/
theorem triple_malformed (sigs : List SysSig) (a b c : Val K) (ha : tokSys a = none)
    (heb : emptyStr b = false) (sn : String) (dn : Option String) :
    Generated.icParseSpec sigs (.tuple [a, b, c]) sn dn = .error .badArg := by
  obtain ⟨hai, has⟩ := tokSys_none ha
  ic_eval [hai, has]
  rcases sign_class b heb with hbs | ⟨st, t, rfl, ht, htn⟩
  · cases hcn : isNone c <;> ic_eval [hbs, hai, has, hcn]
  · cases hneg : st.neg <;> cases hcn : isNone c <;> ic_eval [ht, htn, hneg, hcn, hai, has]

set_option maxHeartbeats 400000 in
theorem shape_int (sigs : List SysSig) (i : Int) (sn : String) (dn : Option String) :
    Generated.icParseSpec sigs (.int i : Val K) sn dn
      = Generated.icParseSpec sigs (.tuple [.int i, .none, .none]) sn dn := by
  simp [Generated.icParseSpec]

set_option maxHeartbeats 400000 in
theorem shape_tuple1 (sigs : List SysSig) (a : Val K) (sn : String) (dn : Option String) :
    Generated.icParseSpec sigs (.tuple [a]) sn dn
      = Generated.icParseSpec sigs (.tuple [a, .none, .none]) sn dn := by
  simp [Generated.icParseSpec]

set_option maxHeartbeats 400000 in
theorem shape_tuple2 (sigs : List SysSig) (a b : Val K) (sn : String) (dn : Option String) :
    Generated.icParseSpec sigs (.tuple [a, b]) sn dn
      = Generated.icParseSpec sigs (.tuple [a, b, .none]) sn dn := by
  simp [Generated.icParseSpec]

set_option maxHeartbeats 400000 in
/-- a tuple with more than three entries, a list, `None`, a float, another object. -/
theorem shape_bad (sigs : List SysSig) (v : Val K) (sn : String) (dn : Option String)
    (h : match v with
      | .tuple (_ :: _ :: _ :: _ :: _) | .list _ | .none | .num _ | .other => True
      | _ => False) :
    Generated.icParseSpec sigs v sn dn = .error .badArg := by
  cases v with
  | tuple l =>
    match l, h with
    | _ :: _ :: _ :: _ :: l, _ =>
      have : ¬ ((l.length : Int) + 1 + 1 + 1 + 1 ≤ 3) := by omega
      simp [Generated.icParseSpec, this]
  | int i => simp at h
  | str s => simp at h
  | _ => simp [Generated.icParseSpec]

set_option maxHeartbeats 400000 in
/-- a string: the pieces of `re.split(r'\.', spec)`. -/
theorem shape_str (sigs : List SysSig) (s : Str) (sn : String) (dn : Option String) :
    Generated.icParseSpec sigs (.str s : Val K) sn dn =
      match s.parts with
      | [] => Generated.icParseSpec sigs (.tuple [.str s, .none, .none]) sn dn
      | [p] => Generated.icParseSpec sigs (.tuple [.str ⟨p.1, p.2, []⟩, .none, .none]) sn dn
      | [p, q] => Generated.icParseSpec sigs (.tuple [.str ⟨p.1, p.2, []⟩, .str ⟨q.1, q.2, []⟩, .none]) sn dn
      | _ => .error .badArg := by
  match hp : s.parts with
  | [] => simp [Generated.icParseSpec, reSplitDot, hp]
  | [p] => simp [Generated.icParseSpec, reSplitDot, hp]
  | [p, q] => simp [Generated.icParseSpec, reSplitDot, hp]
  | p :: q :: r :: l =>
    have h1 : (2 : Int) < (l.length : Int) + 1 + 1 + 1 := by omega
    have h2 : ¬ ((l.length : Int) + 1 + 1 + 1 < 2) := by omega
    simp [Generated.icParseSpec, reSplitDot, hp, h1, h2]

set_option maxHeartbeats 400000 in
/-- `dictname=None` means `signame + '_index'`. -/
theorem dictname_default (sigs : List SysSig) (v : Val K) (sn : String) :
    Generated.icParseSpec sigs v sn none = Generated.icParseSpec sigs v sn (some (sn ++ "_index")) := by
  simp [Generated.icParseSpec]

/-! ### the statement over all tokenisable specifications -/

/-- a tokenisable triple. -/
theorem triple_eq (sigs : List SysSig) (a b c : Val K) (s : Spec K) (h : tokTriple a b c = some s)
    (sn x : String) (d : IC.Dict) (hx : DictIs x d) :
    Generated.icParseSpec sigs (.tuple [a, b, c]) sn (some x) = (parseSpec sigs d s).map retSpec := by
  obtain ⟨hea, heb, h⟩ := tokTriple_inv h
  rcases h with ⟨ha, rfl⟩ | ⟨sys, sneg, sig, gneg, g, ha, hb, hc, rfl⟩
  · rw [triple_malformed sigs a b c ha heb]; rfl
  · have kb := tokSig_kind hb
    cases a with
    | int i =>
      simp only [tokSys, Option.some.injEq, Prod.mk.injEq] at ha
      obtain ⟨rfl, rfl⟩ := ha
      exact triple_int sigs i b c (sig, gneg) g heb kb hc sn x d hx
    | str sa =>
      simp only [tokSys, Option.some.injEq, Prod.mk.injEq] at ha
      obtain ⟨rfl, rfl⟩ := ha
      exact triple_str sigs sa b c (sig, gneg) g (by simpa [emptyStr] using hea) heb kb hc sn x d hx
    | _ => simp [tokSys] at ha

omit [DecidableEq K] in
theorem tokTriple_none_none (a : Val K) : tokGain (.none : Val K) = some none := rfl

/-- **`_parse_spec` as the source text defines it is the model's `parseSpec`**, for every
specification the harness can tokenise and every signal dictionary: same subsystem index, same signal
indices, same gain, same exception kind. -/
theorem generated_parseSpec_of_dict (sigs : List SysSig) (v : Val K) (s : Spec K)
    (h : tokenize v = some s) (sn x : String) (d : IC.Dict) (hx : DictIs x d) :
    Generated.icParseSpec sigs v sn (some x) = (parseSpec sigs d s).map retSpec := by
  cases v with
  | int i =>
    rw [shape_int]
    exact triple_eq sigs _ _ _ s (by simpa [tokenize, tokTriple, emptyStr, tokSys, tokSig, tokGain] using h)
      sn x d hx
  | str st =>
    rw [shape_str]
    simp only [tokenize] at h
    split at h
    · next hp => simp only [hp]; exact triple_eq sigs _ _ _ s h sn x d hx
    · next p hp => simp only [hp]; exact triple_eq sigs _ _ _ s h sn x d hx
    · next p q hp => simp only [hp]; exact triple_eq sigs _ _ _ s h sn x d hx
    · next h1 h2 h3 =>
      injection h with h; subst h
      match hp : st.parts with
      | [] => exact absurd hp h1
      | [p] => exact absurd hp (h2 p)
      | [p, q] => exact absurd hp (h3 p q)
      | _ :: _ :: _ :: _ => rfl
  | tuple l =>
    match l, h with
    | [], h => simp [tokenize] at h
    | [a], h => rw [shape_tuple1]; exact triple_eq sigs a .none .none s h sn x d hx
    | [a, b], h => rw [shape_tuple2]; exact triple_eq sigs a b .none s h sn x d hx
    | [a, b, c], h => exact triple_eq sigs a b c s h sn x d hx
    | _ :: _ :: _ :: _ :: _, h =>
      simp only [tokenize, Option.some.injEq] at h; subst h
      rw [shape_bad sigs _ sn _ trivial]; rfl
  | list l =>
    simp only [tokenize, Option.some.injEq] at h; subst h
    rw [shape_bad sigs _ sn _ trivial]; rfl
  | none =>
    simp only [tokenize, Option.some.injEq] at h; subst h
    rw [shape_bad sigs _ sn _ trivial]; rfl
  | num y =>
    simp only [tokenize, Option.some.injEq] at h; subst h
    rw [shape_bad sigs _ sn _ trivial]; rfl
  | other =>
    simp only [tokenize, Option.some.injEq] at h; subst h
    rw [shape_bad sigs _ sn _ trivial]; rfl

/-- the three ways `_parse_spec` is called: `(syslist, spec, 'input')`, `(syslist, spec, 'output')`
and `(syslist, spec, 'input or output', dictname='input_index')`. -/
inductive Site | input | output | inputOrOutput
  deriving DecidableEq, Repr

def Site.signame : Site → String
  | .input => "input" | .output => "output" | .inputOrOutput => "input or output"

def Site.dictname : Site → Option String
  | .inputOrOutput => some "input_index" | _ => none

def Site.dict : Site → IC.Dict
  | .output => .output | _ => .input

theorem dictIs_input : DictIs "input_index" .input := fun _ => rfl
theorem dictIs_output : DictIs "output_index" .output := fun _ => rfl

/-- **generated = model** at the three call sites. -/
theorem generated_parseSpec_eq (sigs : List SysSig) (v : Val K) (s : Spec K)
    (h : tokenize v = some s) (c : Site) :
    Generated.icParseSpec sigs v c.signame c.dictname = (parseSpec sigs c.dict s).map retSpec := by
  cases c with
  | input =>
    show Generated.icParseSpec sigs v "input" none = _
    rw [dictname_default]
    exact generated_parseSpec_of_dict sigs v s h _ _ _ dictIs_input
  | output =>
    show Generated.icParseSpec sigs v "output" none = _
    rw [dictname_default]
    exact generated_parseSpec_of_dict sigs v s h _ _ _ dictIs_output
  | inputOrOutput => exact generated_parseSpec_of_dict sigs v s h _ _ _ dictIs_input

end CtrlVerif.C07Gen
