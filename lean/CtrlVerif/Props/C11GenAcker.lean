/-
Source-text tie of C11, part 2: `place_acker(A, B, poles)` and its alias `acker` (control/statefbk.py).
`Generated/SfbAcker.lean` is rewritten from the source text on every run
(harness/core/py2lean_sfb.py); the theorems below prove the model (`placeAcker` typed, `ackerDyn`
run-time layer) EQUAL to the generated function on single-input pairs of every order, and transport the
headline theorems of `Props/C11.lean` (`charpoly(A − bK) = p`, raises when unreachable, raises on a
wrong number of poles) to the generated function.  With several inputs both raise
(`generated_placeAcker_multi_raises`; the error kinds agree except that the source checks the number of
poles before `solve` rejects the non-square controllability matrix).
-/
import CtrlVerif.Generated.SfbAcker
import CtrlVerif.Lemmas.PySfbAcker
import CtrlVerif.Props.C11GenGram

namespace CtrlVerif.C11Gen
open Matrix CtrlVerif CtrlVerif.StateFbk
variable {K : Type} [Field K] [DecidableEq K]

theorem tab_eq {n m : Nat} (f : Fin n → Fin m → K) (i : Fin n) (j : Fin m) :
    ((Array.ofFn (n := n) fun i => Array.ofFn (n := m) fun j => f i j).getD i #[]).getD j 0 = f i j := by
  simp [Array.getD]

/-- the run-time layer of the model on a single-input pair is the typed `placeAcker` (the one-off
tabulation of the two matrices is the identity). -/
theorem ackerDyn_siso (N : Nat) (A : Matrix (Fin (N + 1)) (Fin (N + 1)) K)
    (B : Matrix (Fin (N + 1)) (Fin 1) K) (p : List K) :
    ackerDyn (N + 1) (N + 1) (N + 1) 1 A B p = (placeAcker A (fun i => B i 0) p).map List.ofFn := by
  simp only [ackerDyn, and_self, dite_true, PySfb.submatrix_cast_cols, PySfb.submatrix_cast_rows, placeAcker]
  congr 2
  · funext i j; exact tab_eq _ i j
  · funext i j; exact tab_eq _ i j

/-- **`place_acker` on a single-input pair of any order**: the function the source text defines —
`_ssmatrix` validation, `ctrb` (the generated one), the rank test, the pole count test, `np.real(np.poly(poles))`,
the loop `pmat = Σ p[n-i-1] A^i`, `np.linalg.solve(ct, pmat)`, last row — is the typed model `placeAcker`
(the function `Props/C11.lean` proves `acker_charpoly` about), for every field `K`, every type `L` of
requested poles with its real-part map `re`, every order and all entries. -/
theorem generated_placeAcker_siso {L : Type} [Field L] (re : L → K) (N : Nat)
    (A : Matrix (Fin (N + 1)) (Fin (N + 1)) K) (B : Matrix (Fin (N + 1)) (Fin 1) K) (poles : List L) :
    Generated.sfPlaceAcker re ⟨N + 1, N + 1, A⟩ ⟨N + 1, 1, B⟩ poles
      = (placeAcker A (fun i => B i 0) (PySfb.real re (PySfb.poly poles))).map List.ofFn := by
  unfold Generated.sfPlaceAcker
  simp only [bind, PySfb.ssmatrix_square (N + 1) (N + 1) A (by omega), if_true,
    Except.ok_bind', PySfb.ssmatrix_rows (N + 1) 1 (N + 1) B (by omega)]
  rw [generated_ctrb_spec (N + 1) (N + 1) (N + 1) 1 A B none (by omega) (by omega), dif_pos ⟨rfl, rfl⟩]
  have hh : horizonI (N + 1) none = ((N + 1 : Nat) : Int) := rfl
  simp only [PySfb.submatrix_cast_cols, PySfb.submatrix_cast_rows]
  rw [hh, ctrbSpec_pos, PySfb.ctrb_siso, Except.ok_bind']
  have hlen : (PySfb.real re (PySfb.poly poles)).length = poles.length + 1 := by
    rw [PySfb.real_length, PySfb.poly_length]
  generalize PySfb.real re (PySfb.poly poles) = p at hlen ⊢
  unfold placeAcker placeAckerOf
  by_cases hdet : (ctrbVec A fun i => B i 0).det = 0
  · rw [if_pos ((PMat.rank_mk_ne_iff _).mpr hdet), if_pos hdet]; rfl
  rw [if_neg (fun h => hdet ((PMat.rank_mk_ne_iff _).mp h)), if_neg hdet]
  by_cases hn : poles.length ≠ N + 1
  · rw [if_pos hn, if_pos (by omega)]; rfl
  rw [if_neg hn, if_neg (by omega)]
  have hp : 0 < p.length := by omega
  rw [PySfb.getItem_nat p _ (p.length - 1) (by omega) (by omega), Except.ok_bind',
    PySfb.matrixPower_mk _ A _ 0 (by simp), Except.ok_bind', PySfb.pmat_init A p hp]
  rw [PySfb.pmat_loop A p hp _ (fun j hj => by
      show (PyArith.getItem _ _).bind _ = _
      exact PySfb.pmat_step A p j hj _ _ (by omega) (by push_cast; ring)),
    Except.ok_bind', PMat.solve_mk, if_neg hdet, Except.ok_bind', PySfb.row_last]
  rfl

/-- **`place_acker`, run-time layer**: for 2-D arrays of any shapes (`A` with at least one row, not of
shape `(1, 0)`; `B` with one column) the generated function is the model's `ackerDyn` applied to
`p = np.real(np.poly(poles))`. -/
theorem generated_placeAcker_eq {L : Type} [Field L] (re : L → K) (ar ac br : Nat)
    (A : Matrix (Fin ar) (Fin ac) K) (B : Matrix (Fin br) (Fin 1) K) (poles : List L)
    (har : 0 < ar) (hA : ¬(ar = 1 ∧ ac = 0)) :
    Generated.sfPlaceAcker re ⟨ar, ac, A⟩ ⟨br, 1, B⟩ poles
      = ackerDyn ar ac br 1 A B (PySfb.real re (PySfb.poly poles)) := by
  obtain ⟨N, rfl⟩ : ∃ N, ar = N + 1 := ⟨ar - 1, by omega⟩
  by_cases h1 : ac = N + 1
  · subst h1
    by_cases h2 : br = N + 1
    · subst h2
      rw [generated_placeAcker_siso, ackerDyn_siso]
    · have hm : ackerDyn (N + 1) (N + 1) br 1 A B (PySfb.real re (PySfb.poly poles)) = .error .shape := by
        rw [ackerDyn, dif_neg (fun h : N + 1 = N + 1 ∧ br = N + 1 => h2 h.2)]
      rw [hm]
      unfold Generated.sfPlaceAcker
      simp only [bind, PySfb.ssmatrix_square (N + 1) (N + 1) A (by omega), if_true, Except.ok_bind',
        PySfb.ssmatrix_rows br 1 (N + 1) B (by omega), if_neg h2]
      rfl
  · have hm : ackerDyn (N + 1) ac br 1 A B (PySfb.real re (PySfb.poly poles)) = .error .shape := by
      rw [ackerDyn, dif_neg (fun h : ac = N + 1 ∧ br = N + 1 => h1 h.1)]
    rw [hm]
    unfold Generated.sfPlaceAcker
    simp only [bind, PySfb.ssmatrix_square (N + 1) ac A hA, if_neg h1]
    rfl

/-- `acker` is `place_acker` (the module-level alias). -/
theorem generated_acker_eq {L : Type} [Field L] (re : L → K) (A B : PMat K) (poles : List L) :
    Generated.sfAcker re A B poles = Generated.sfPlaceAcker re A B poles := rfl

/-! ### the headline theorems of `Props/C11.lean`, for the function the source text defines -/

section headline
variable (N : Nat) (A : Matrix (Fin (N + 1)) (Fin (N + 1)) K) (B : Matrix (Fin (N + 1)) (Fin 1) K)

/-- the generated function returns exactly when the pair is reachable and one pole per state is
requested, and then returns Ackermann's gain for `p = np.real(np.poly(poles))`. -/
theorem generated_placeAcker_ok_iff {L : Type} [Field L] (re : L → K) (poles : List L) (k : List K) :
    Generated.sfPlaceAcker re ⟨N + 1, N + 1, A⟩ ⟨N + 1, 1, B⟩ poles = .ok k ↔
      (ctrbVec A fun i => B i 0).det ≠ 0 ∧ poles.length = N + 1 ∧
        k = List.ofFn (ackerGain A (fun i => B i 0) (PySfb.real re (PySfb.poly poles))) := by
  rw [generated_placeAcker_siso]
  have hlen : (PySfb.real re (PySfb.poly poles)).length = poles.length + 1 := by
    rw [PySfb.real_length, PySfb.poly_length]
  cases h : placeAcker A (fun i => B i 0) (PySfb.real re (PySfb.poly poles)) with
  | error e =>
    simp only [Except.map, reduceCtorEq, false_iff]
    rintro ⟨h1, h2, -⟩
    have := (C11.placeAcker_ok_iff A (fun i => B i 0) (PySfb.real re (PySfb.poly poles)) _).mpr
      ⟨h1, by omega, rfl⟩
    rw [h] at this
    cases this
  | ok kv =>
    obtain ⟨h1, h2, rfl⟩ := (C11.placeAcker_ok_iff A (fun i => B i 0) _ kv).mp h
    simp only [Except.map, Except.ok.injEq]
    exact ⟨fun hk => ⟨h1, by omega, hk.symm⟩, fun hk => hk.2.2.symm⟩

/-- **Ackermann's formula, of the source text, requested poles in `K`** (`re = id`): whenever the
function the source text defines returns a gain `k` for `n` requested poles, the closed loop
`A − b k` has characteristic polynomial `∏ (X − λᵢ)` — exactly the requested eigenvalues, with
multiplicities. -/
theorem generated_placeAcker_charpoly (poles : List K) (k : List K)
    (hk : Generated.sfPlaceAcker id ⟨N + 1, N + 1, A⟩ ⟨N + 1, 1, B⟩ poles = .ok k) :
    ∃ kv : Fin (N + 1) → K, k = List.ofFn kv ∧
      (A - vecMulVec (fun i => B i 0) kv).charpoly = (poles.map fun r => Polynomial.X - Polynomial.C r).prod ∧
      (A - vecMulVec (fun i => B i 0) kv).charpoly.roots = (poles : Multiset K) := by
  obtain ⟨h1, h2, rfl⟩ := (generated_placeAcker_ok_iff N A B id poles k).mp hk
  have hp : PySfb.real id (PySfb.poly poles) = polyFromRoots poles := by
    simp [PySfb.real, PySfb.poly_eq_polyFromRoots]
  refine ⟨_, rfl, ?_⟩
  rw [hp]
  exact C11.acker_poles A (fun i => B i 0) poles h2 _
    ((C11.placeAcker_ok_iff A _ _ _).mpr ⟨h1, by rw [← hp, PySfb.real_length, PySfb.poly_length, h2], rfl⟩)

/-- **complex requested poles**: `L ⊇ K` any field extension (ℂ/ℝ, ℚ(i)/ℚ), `re : L → K` the real-part
map the source applies (`np.real`).  If the real polynomial the source computes has the requested
roots (true for pole sets closed under conjugation — the contract of `numpy.poly`), the closed loop of
the returned gain has exactly the requested eigenvalues over `L`, with multiplicities. -/
theorem generated_placeAcker_complex_poles {L : Type} [Field L] [Algebra K L] (re : L → K)
    (poles : List L) (k : List K)
    (hk : Generated.sfPlaceAcker re ⟨N + 1, N + 1, A⟩ ⟨N + 1, 1, B⟩ poles = .ok k)
    (hp : (toPoly (PySfb.real re (PySfb.poly poles))).map (algebraMap K L)
      = (poles.map fun r => Polynomial.X - Polynomial.C r).prod) :
    ∃ kv : Fin (N + 1) → K, k = List.ofFn kv ∧
      ((A - vecMulVec (fun i => B i 0) kv).map (algebraMap K L)).charpoly
        = (poles.map fun r => Polynomial.X - Polynomial.C r).prod ∧
      ((A - vecMulVec (fun i => B i 0) kv).map (algebraMap K L)).charpoly.roots = (poles : Multiset L) := by
  obtain ⟨h1, h2, rfl⟩ := (generated_placeAcker_ok_iff N A B re poles k).mp hk
  exact ⟨_, rfl, C11.acker_complex_poles A (fun i => B i 0) _ poles h1 h2 hp⟩

/-- an unreachable pair raises (`"System not reachable; pole placement invalid"`). -/
theorem generated_placeAcker_unreachable {L : Type} [Field L] (re : L → K) (poles : List L)
    (h : (ctrbVec A fun i => B i 0).det = 0) :
    Generated.sfPlaceAcker re ⟨N + 1, N + 1, A⟩ ⟨N + 1, 1, B⟩ poles = .error .illPosed := by
  rw [generated_placeAcker_siso, C11.acker_unreachable_raises A _ _ h]; rfl

/-- a number of requested poles other than the number of states raises. -/
theorem generated_placeAcker_wrong_count {L : Type} [Field L] (re : L → K) (poles : List L)
    (h : (ctrbVec A fun i => B i 0).det ≠ 0) (hn : poles.length ≠ N + 1) :
    Generated.sfPlaceAcker re ⟨N + 1, N + 1, A⟩ ⟨N + 1, 1, B⟩ poles = .error .badArg := by
  rw [generated_placeAcker_siso, C11.acker_wrong_count_raises A _ _ h
    (by rw [PySfb.real_length, PySfb.poly_length]; omega)]
  rfl

end headline

/-! ### several inputs (or none): both raise -/

section multi
variable (N m : Nat) (A : Matrix (Fin (N + 1)) (Fin (N + 1)) K) (B : Matrix (Fin (N + 1)) (Fin m) K)

/-- with `m ≠ 1` inputs the controllability matrix is `n × n·m`, not square: the source raises — "not
reachable" when its rank is deficient, else the pole-count error, else `np.linalg.solve` rejects the
non-square matrix (after `pmat` has been computed without error). -/
theorem generated_placeAcker_multi {L : Type} [Field L] (re : L → K) (poles : List L) (hm : m ≠ 1)
    (hB : ¬(N + 1 = 1 ∧ m = 0)) :
    Generated.sfPlaceAcker re ⟨N + 1, N + 1, A⟩ ⟨N + 1, m, B⟩ poles
      = .error (if (ctrb A B (N + 1)).rank ≠ N + 1 then .illPosed
                else if poles.length ≠ N + 1 then .badArg else .shape) := by
  unfold Generated.sfPlaceAcker
  simp only [bind, PySfb.ssmatrix_square (N + 1) (N + 1) A (by omega), if_true, Except.ok_bind']
  simp only [PySfb.ssmatrix_rows (N + 1) m (N + 1) B hB, if_true, Except.ok_bind']
  rw [generated_ctrb_spec (N + 1) (N + 1) (N + 1) m A B none (by omega) hB, dif_pos ⟨rfl, rfl⟩]
  have hh : horizonI (N + 1) none = ((N + 1 : Nat) : Int) := rfl
  simp only [PySfb.submatrix_cast_cols, PySfb.submatrix_cast_rows]
  rw [hh, ctrbSpec_pos, Except.ok_bind']
  have hrank : PMat.rank (⟨N + 1, (N + 1) * m, (ctrb A B (N + 1)).submatrix id finProdFinEquiv.symm⟩ : PMat K)
      = (ctrb A B (N + 1)).rank :=
    Matrix.rank_submatrix (ctrb A B (N + 1)) (Equiv.refl _) finProdFinEquiv.symm
  rw [hrank]
  by_cases hr : (ctrb A B (N + 1)).rank ≠ N + 1
  · rw [if_pos hr, if_pos hr]; rfl
  rw [if_neg hr, if_neg hr]
  by_cases hn : poles.length ≠ N + 1
  · rw [if_pos hn, if_pos hn]; rfl
  rw [if_neg hn, if_neg hn]
  have hlen : (PySfb.real re (PySfb.poly poles)).length = poles.length + 1 := by
    rw [PySfb.real_length, PySfb.poly_length]
  generalize PySfb.real re (PySfb.poly poles) = p at hlen ⊢
  have hp : 0 < p.length := by omega
  rw [PySfb.getItem_nat p _ (p.length - 1) (by omega) (by omega), Except.ok_bind',
    PySfb.matrixPower_mk _ A _ 0 (by simp), Except.ok_bind', PySfb.pmat_init A p hp]
  rw [PySfb.pmat_loop A p hp _ (fun j hj => by
      show (PyArith.getItem _ _).bind _ = _
      exact PySfb.pmat_step A p j hj _ _ (by omega) (by push_cast; ring)),
    Except.ok_bind']
  have hns : (N + 1) * m ≠ N + 1 := by
    intro h
    have : (N + 1) * m = (N + 1) * 1 := by omega
    exact hm (Nat.eq_of_mul_eq_mul_left (Nat.succ_pos N) this)
  unfold PMat.solve
  rw [dif_neg (fun h => hns h.1)]
  rfl

/-- the model raises as well (`illPosed` or `shape`). -/
theorem ackerDyn_multi (p : List K) (hm : m ≠ 1) :
    ackerDyn (N + 1) (N + 1) (N + 1) m A B p
      = .error (if (ctrb A B (N + 1) * (ctrb A B (N + 1))ᵀ).det = 0 then .illPosed else .shape) := by
  rw [ackerDyn, dif_pos ⟨rfl, rfl⟩]
  simp only [PySfb.submatrix_cast_cols, PySfb.submatrix_cast_rows]
  rw [dif_neg hm]
  split_ifs <;> rfl

/-- a `B` of shape `(1, 0)` is read as the `0 × 0` array and has the wrong number of rows. -/
theorem generated_placeAcker_emptyRow_B {L : Type} [Field L] (re : L → K) (poles : List L)
    (A : Matrix (Fin 1) (Fin 1) K) (B : Matrix (Fin 1) (Fin 0) K) :
    Generated.sfPlaceAcker re ⟨1, 1, A⟩ ⟨1, 0, B⟩ poles = .error .shape := by
  unfold Generated.sfPlaceAcker
  simp only [bind, PySfb.ssmatrix_square 1 1 A (by omega), if_true, Except.ok_bind']
  simp [PySfb.ssmatrix, PySfb.emptyRule]
  rfl

/-- **several inputs (or none): both raise.** -/
theorem generated_placeAcker_multi_raises {L : Type} [Field L] (re : L → K) (poles : List L) (hm : m ≠ 1) :
    (∃ e, Generated.sfPlaceAcker re ⟨N + 1, N + 1, A⟩ ⟨N + 1, m, B⟩ poles = .error e) ∧
      ∃ e, ackerDyn (N + 1) (N + 1) (N + 1) m A B (PySfb.real re (PySfb.poly poles)) = .error e := by
  refine ⟨?_, ⟨_, ackerDyn_multi N m A B _ hm⟩⟩
  by_cases hB : N + 1 = 1 ∧ m = 0
  · obtain ⟨hN, hm0⟩ := hB
    have hN0 : N = 0 := by omega
    subst hN0 hm0
    exact ⟨_, generated_placeAcker_emptyRow_B re poles A B⟩
  · exact ⟨_, generated_placeAcker_multi N m A B re poles hm hB⟩

end multi

/-- **several inputs over an ordered field, right number of poles: the same error** (the rank of `ct`
is full iff `det (ct ctᵀ) ≠ 0`).  PARTIAL — the full statement
`sfPlaceAcker … = ackerDyn …` for `m ≠ 1` is false when the pair is reachable and the number of poles is
wrong: the source raises the pole-count error (`badArg`) before `solve` is reached, the model says `shape`. -/
theorem generated_placeAcker_multi_eq_partial {F : Type} [Field F] [LinearOrder F] [IsStrictOrderedRing F]
    [DecidableEq F] {L : Type} [Field L] (re : L → F) (N m : Nat) (A : Matrix (Fin (N + 1)) (Fin (N + 1)) F)
    (B : Matrix (Fin (N + 1)) (Fin m) F) (poles : List L) (hm : m ≠ 1) (hB : ¬(N + 1 = 1 ∧ m = 0))
    (hn : poles.length = N + 1) :
    Generated.sfPlaceAcker re ⟨N + 1, N + 1, A⟩ ⟨N + 1, m, B⟩ poles
      = ackerDyn (N + 1) (N + 1) (N + 1) m A B (PySfb.real re (PySfb.poly poles)) := by
  rw [generated_placeAcker_multi N m A B re poles hm hB, ackerDyn_multi N m A B _ hm]
  have hiff : (ctrb A B (N + 1)).rank ≠ N + 1 ↔ (ctrb A B (N + 1) * (ctrb A B (N + 1))ᵀ).det = 0 := by
    rw [← Matrix.rank_self_mul_transpose, ← PMat.rank_mk_ne_iff]
    rfl
  by_cases h : (ctrb A B (N + 1)).rank ≠ N + 1
  · rw [if_pos h, if_pos (hiff.mp h)]
  · rw [if_neg h, if_neg (fun h' => h (hiff.mpr h')), if_neg (by omega)]

/-! ### non-vacuity -/

section examples

/-- the pair of the `place_acker` doctest / of `Props/C11.lean`. -/
def gA : Matrix (Fin 2) (Fin 2) ℚ := !![0, 1; -2, -3]
def gB : Matrix (Fin 2) (Fin 1) ℚ := !![0; 1]

example : (ctrbVec gA fun i => gB i 0).det ≠ 0 := by decide +kernel

/-- poles `-2, -5`: the function of the source text returns the gain `[8, 4]` … -/
example : Generated.sfPlaceAcker id ⟨2, 2, gA⟩ ⟨2, 1, gB⟩ [-2, -5] = .ok [8, 4] := by
  rw [generated_placeAcker_ok_iff 1 gA gB id [-2, -5] [8, 4]]
  refine ⟨by decide +kernel, rfl, ?_⟩
  have : ackerGain gA (fun i => gB i 0) (PySfb.real id (PySfb.poly [-2, -5])) = ![8, 4] := by decide +kernel
  rw [this]
  rfl

/-- … and the closed loop then has the characteristic polynomial `(X + 2)(X + 5)`. -/
example : ∃ kv : Fin 2 → ℚ, (gA - vecMulVec (fun i => gB i 0) kv).charpoly.roots = (([-2, -5] : List ℚ) : Multiset ℚ) := by
  have h : Generated.sfPlaceAcker id ⟨2, 2, gA⟩ ⟨2, 1, gB⟩ ([-2, -5] : List ℚ) = .ok [8, 4] := by
    rw [generated_placeAcker_ok_iff 1 gA gB id [-2, -5] [8, 4]]
    refine ⟨by decide +kernel, rfl, ?_⟩
    have : ackerGain gA (fun i => gB i 0) (PySfb.real id (PySfb.poly [-2, -5])) = ![8, 4] := by decide +kernel
    rw [this]
    rfl
  obtain ⟨kv, -, -, hr⟩ := generated_placeAcker_charpoly 1 gA gB _ _ h
  exact ⟨kv, hr⟩

/-- an unreachable pair, three poles for two states, two inputs: all raise. -/
example : Generated.sfPlaceAcker id ⟨2, 2, gA⟩ ⟨2, 1, (0 : Matrix (Fin 2) (Fin 1) ℚ)⟩ ([-2, -5] : List ℚ)
    = .error .illPosed :=
  generated_placeAcker_unreachable 1 gA 0 id _ (by decide +kernel)
example : Generated.sfPlaceAcker id ⟨2, 2, gA⟩ ⟨2, 1, gB⟩ ([-2, -5, -6] : List ℚ) = .error .badArg :=
  generated_placeAcker_wrong_count 1 gA gB id _ (by decide +kernel) (by decide)
example : ∃ e, Generated.sfPlaceAcker id ⟨2, 2, gA⟩ ⟨2, 2, (1 : Matrix (Fin 2) (Fin 2) ℚ)⟩ ([-2, -5] : List ℚ)
    = .error e :=
  (generated_placeAcker_multi_raises 1 2 gA 1 id _ (by decide)).1

end examples

end CtrlVerif.C11Gen
