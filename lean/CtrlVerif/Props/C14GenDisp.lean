/-
Source-text tie of the discretisation DISPATCHERS and SIGNATURES (C14; DESIGN §10.3,
notes/NOTES-py2lean-disp.md).  `Generated/DispSig.lean` and `Generated/DispCall.lean` are rewritten on
every run by `harness/core/py2lean_disp.py` from the text of `sample_system` / `c2d`
(control/dtime.py), `StateSpace.sample` (control/statesp.py), `TransferFunction.sample`
(control/xferfcn.py) and `pade` (control/delay.py) of the tree under check:

* the SIGNATURES (`ast.arguments`: names, order, kinds, defaults, `**kwargs`) are proved EQUAL to the
  documented orders the model records by hand (`sampleSystemParams`, `sampleParams`, the `pade` list of
  `Model/Discretize.lean`) with the documented defaults, and the generated bindings equal to
  `bindSampleSystem` / `bindSample` / `bindPade` for every call;
* the body of `sample_system` (= `c2d`): the continuous-time test that raises and the forwarding call
  `sysc.sample(…)`, composed with the binding of `sample`, is proved EQUAL to the model of the
  dispatcher: `sample` is invoked on `sysc` with parameter p ↦ the value of parameter p of
  `sample_system`, and the same `**kwargs` (`generated_sampleSystem_eq`, for every environment, every
  `**kwargs` and every type of values) — whether the source forwards by keyword or by position;
* end to end (`sampleSystem_route_delivers`, `c2d_route_delivers`): every value written for parameter p
  in a call of `sample_system` / `c2d` — for every split into positional and keyword arguments —
  arrives at parameter p of `sample`; an omitted one arrives as the documented default, `'zoh'` for
  `method` on all three routes (`default_method_zoh`).
-/
import CtrlVerif.Generated.DispCall
import CtrlVerif.Props.C14

namespace CtrlVerif.C14GenDisp
open CtrlVerif CtrlVerif.PySig CtrlVerif.C14
open CtrlVerif.Generated

/-! ### the hand-written side: documented signatures and the dispatcher -/

/-- the documented defaults of `method`, `alpha`, `prewarp_frequency`, `name`, `copy_names`. -/
def sampleDefaults : List (String × Const) :=
  [("method", .str "zoh"), ("alpha", .none), ("prewarp_frequency", .none), ("name", .none),
   ("copy_names", .bool true)]

/-- `def f(params…[, **kwargs])`: no positional-only / keyword-only parameters, no `*args`. -/
def plainSig (params : List String) (varkw : Bool) (defaults : List (String × Const)) : Sig :=
  { posonly := [], params := params, kwonly := [], vararg := false, varkw := varkw, defaults := defaults }

/-- the model of the dispatcher `sample_system(sysc, Ts, …, **kwargs)`: it raises unless `sysc` is a
continuous-time system, and otherwise invokes `sysc.sample` with every parameter of `sample` at the value
of the parameter of the same name of `sample_system`, and the same `**kwargs`. -/
def sampleSystemModel {α : Type} (isctime : α → Bool) (env : String → α) (kwargs : List (String × α)) :
    Except Err (Received α) :=
  if isctime (env "sysc") then .ok { self := env "sysc", vals := sampleParams.map env, extra := kwargs }
  else .error .timebase

/-! ### signatures -/

theorem generated_sampleSystemSig_eq :
    Disp.sampleSystemSig = plainSig sampleSystemParams true sampleDefaults := rfl

theorem generated_c2dSig_eq : Disp.c2dSig = plainSig sampleSystemParams true sampleDefaults := rfl

theorem generated_ssSampleSig_eq : Disp.ssSampleSig = plainSig sampleParams true sampleDefaults := rfl

theorem generated_tfSampleSig_eq : Disp.tfSampleSig = plainSig sampleParams true sampleDefaults := rfl

theorem generated_padeSig_eq :
    Disp.padeSig = plainSig ["T", "n", "numdeg"] false [("n", .int 1), ("numdeg", .none)] := rfl

theorem plain_sampleSystem_facts :
    (plainSig sampleSystemParams true sampleDefaults).simple = true ∧
    (plainSig sampleSystemParams true sampleDefaults).nreq = 2 ∧
    (plainSig sampleParams true sampleDefaults).simple = true ∧
    (plainSig sampleParams true sampleDefaults).nreq = 1 ∧
    (plainSig ["T", "n", "numdeg"] false [("n", .int 1), ("numdeg", .none)]).simple = true ∧
    (plainSig ["T", "n", "numdeg"] false [("n", .int 1), ("numdeg", .none)]).nreq = 1 := by decide

theorem plainSig_bind (params : List String) (varkw : Bool) (d : List (String × Const)) (n : Nat)
    (h1 : (plainSig params varkw d).nreq = n) (npos : Nat) (kws : List String) :
    (plainSig params varkw d).bind npos kws = bindArgs params n varkw npos kws := by
  subst h1
  simp [Sig.bind, Sig.simple, plainSig]

/-- the generated binding of `sample_system` is the model's, for every call. -/
theorem generated_bindSampleSystem_eq (npos : Nat) (kws : List String) :
    Disp.bindSampleSystem npos kws = bindSampleSystem npos kws := by
  unfold Disp.bindSampleSystem bindSampleSystem
  rw [generated_sampleSystemSig_eq]
  exact plainSig_bind _ _ _ _ plain_sampleSystem_facts.2.1 _ _

theorem generated_bindC2d_eq (npos : Nat) (kws : List String) :
    Disp.bindC2d npos kws = bindSampleSystem npos kws := by
  unfold Disp.bindC2d bindSampleSystem
  rw [generated_c2dSig_eq]
  exact plainSig_bind _ _ _ _ plain_sampleSystem_facts.2.1 _ _

theorem generated_bindSsSample_eq (npos : Nat) (kws : List String) :
    Disp.bindSsSample npos kws = bindSample npos kws := by
  unfold Disp.bindSsSample bindSample
  rw [generated_ssSampleSig_eq]
  exact plainSig_bind _ _ _ _ plain_sampleSystem_facts.2.2.2.1 _ _

theorem generated_bindTfSample_eq (npos : Nat) (kws : List String) :
    Disp.bindTfSample npos kws = bindSample npos kws := by
  unfold Disp.bindTfSample bindSample
  rw [generated_tfSampleSig_eq]
  exact plainSig_bind _ _ _ _ plain_sampleSystem_facts.2.2.2.1 _ _

theorem generated_bindPade_eq (npos : Nat) (kws : List String) :
    Disp.bindPade npos kws = bindPade npos kws := by
  unfold Disp.bindPade bindPade
  rw [generated_padeSig_eq]
  exact plainSig_bind _ _ _ _ plain_sampleSystem_facts.2.2.2.2.2 _ _

/-- the default of `method` is `'zoh'` on all three routes (and on both `sample` methods). -/
theorem default_method_zoh :
    Disp.sampleSystemSig.default "method" = .str "zoh" ∧ Disp.c2dSig.default "method" = .str "zoh" ∧
    Disp.ssSampleSig.default "method" = .str "zoh" ∧ Disp.tfSampleSig.default "method" = .str "zoh" := by
  decide

/-- the dispatcher and both methods have the same defaults: an omitted parameter of `sample_system`
is forwarded at the value `sample` would have used itself. -/
theorem defaults_agree (p : String) :
    Disp.sampleSystemSig.default p = Disp.ssSampleSig.default p ∧
    Disp.sampleSystemSig.default p = Disp.tfSampleSig.default p ∧
    Disp.c2dSig.default p = Disp.ssSampleSig.default p := ⟨rfl, rfl, rfl⟩

/-! ### transport of the headline theorems of `Props/C14.lean` (section `binding`) -/

theorem generated_bind_documented_order :
    Disp.bindSsSample 4 [] = .ok [.pos 0, .pos 1, .pos 2, .pos 3, .dflt, .dflt] ∧
    Disp.bindTfSample 1 ["prewarp_frequency", "method"] = .ok [.pos 0, .kw 1, .dflt, .kw 0, .dflt, .dflt] ∧
    Disp.bindSampleSystem 4 [] = .ok [.pos 0, .pos 1, .pos 2, .pos 3, .dflt, .dflt, .dflt] ∧
    Disp.bindC2d 5 ["copy_names"] = .ok [.pos 0, .pos 1, .pos 2, .pos 3, .pos 4, .dflt, .kw 0] ∧
    Disp.bindSampleSystem 0 ["Ts", "sysc", "alpha", "method"]
      = .ok [.kw 1, .kw 0, .kw 3, .kw 2, .dflt, .dflt, .dflt] := by
  simp only [generated_bindSsSample_eq, generated_bindTfSample_eq, generated_bindSampleSystem_eq,
    generated_bindC2d_eq]
  exact bind_documented_order

theorem generated_bind_rejected :
    Disp.bindSsSample 7 [] = .error .badArg ∧ Disp.bindSampleSystem 8 [] = .error .badArg ∧
    Disp.bindTfSample 2 ["method"] = .error .badArg ∧ Disp.bindC2d 3 ["alpha", "method"] = .error .badArg ∧
    Disp.bindSsSample 0 ["method"] = .error .badArg ∧ Disp.bindSampleSystem 1 ["method"] = .error .badArg ∧
    Disp.bindSsSample 1 ["Ts"] = .error .badArg ∧
    Disp.bindTfSample 2 ["inputs"] = .ok [.pos 0, .pos 1, .dflt, .dflt, .dflt, .dflt] := by
  simp only [generated_bindSsSample_eq, generated_bindTfSample_eq, generated_bindSampleSystem_eq,
    generated_bindC2d_eq]
  exact bind_rejected

theorem generated_bind_pade :
    Disp.bindPade 3 [] = .ok [.pos 0, .pos 1, .pos 2] ∧
    Disp.bindPade 1 ["numdeg", "n"] = .ok [.pos 0, .kw 1, .kw 0] ∧
    Disp.bindPade 0 ["T", "n"] = .ok [.kw 0, .kw 1, .dflt] ∧
    Disp.bindPade 1 ["num_deg"] = .error .badArg ∧ Disp.bindPade 4 [] = .error .badArg := by
  simp only [generated_bindPade_eq]
  exact bind_pade

/-- `bindArgs_delivers` for the signature read from the source of `sample_system`. -/
theorem generated_sampleSystem_delivers {α : Type} {npos : Nat} {kws : List String} {s : List Slot}
    (h : Disp.bindSampleSystem npos kws = .ok s) (a : String → α) {i : Nat} {p : String}
    (hp : Disp.sampleSystemSig.params[i]? = some p) :
    s[i]?.bind (Slot.value ((Disp.sampleSystemSig.params.take npos).map a) (kws.map a))
      = if i < npos ∨ p ∈ kws then some (a p) else none := by
  rw [generated_bindSampleSystem_eq] at h
  exact bindArgs_delivers h a hp

/-- `bindArgs_form_irrelevant` for the signatures read from the source of the two `sample` methods. -/
theorem generated_sample_form_irrelevant {α : Type} {n₁ n₂ : Nat} {k₁ k₂ : List String} {s₁ s₂ : List Slot}
    (h₁ : Disp.bindSsSample n₁ k₁ = .ok s₁) (h₂ : Disp.bindTfSample n₂ k₂ = .ok s₂) (a : String → α)
    (same : ∀ i p, sampleParams[i]? = some p → ((i < n₁ ∨ p ∈ k₁) ↔ (i < n₂ ∨ p ∈ k₂)))
    {i : Nat} {p : String} (hp : sampleParams[i]? = some p) :
    s₁[i]?.bind (Slot.value ((sampleParams.take n₁).map a) (k₁.map a))
      = s₂[i]?.bind (Slot.value ((sampleParams.take n₂).map a) (k₂.map a)) := by
  rw [generated_bindSsSample_eq] at h₁
  rw [generated_bindTfSample_eq] at h₂
  exact bindArgs_form_irrelevant h₁ h₂ a same hp

/-! ### binding a forwarded call: general lemmas -/

theorem any_congr_mem {l : List String} {f g : String → Bool} (h : ∀ p ∈ l, f p = g p) :
    l.any f = l.any g := by
  induction l with
  | nil => rfl
  | cons a t ih =>
    simp only [List.any_cons]
    rw [h a (by simp), ih (fun p hp => h p (by simp [hp]))]

theorem kwIndex_append_of_not_mem {p : String} {ys : List String} (h : p ∉ ys) :
    ∀ xs : List String, kwIndex p (xs ++ ys) = kwIndex p xs
  | [] => by simp [kwIndex, kwIndex_none.mpr h]
  | x :: xs => by
    simp only [List.cons_append, kwIndex, kwIndex_append_of_not_mem h xs]

theorem slotsFrom_append_extra (npos : Nat) (xs ys : List String) :
    ∀ (ps : List String) (b : Nat), (∀ p ∈ ps, p ∉ ys) →
      slotsFrom npos (xs ++ ys) b ps = slotsFrom npos xs b ps
  | [], _, _ => rfl
  | p :: ps, b, h => by
    simp only [slotsFrom, slotOf, kwIndex_append_of_not_mem (h p (by simp)) xs,
      slotsFrom_append_extra npos xs ys ps (b + 1) (fun q hq => h q (by simp [hq]))]

/-- keywords that name no parameter (they travel on in `**kwargs`) do not change the binding. -/
theorem bindArgs_append_extra {params : List String} {nreq npos : Nat} {xs ys : List String}
    (h : ∀ p ∈ params, p ∉ ys) :
    bindArgs params nreq true npos (xs ++ ys) = bindArgs params nreq true npos xs := by
  have hc : ∀ p ∈ params, (xs ++ ys).contains p = xs.contains p := by
    intro p hp
    have := h p hp
    simp [this]
  unfold bindArgs
  rw [any_congr_mem (l := params.take npos) (fun p hp => hc p (List.mem_of_mem_take hp)),
    any_congr_mem (l := (params.take nreq).drop npos)
      (f := fun p => !(xs ++ ys).contains p) (g := fun p => !xs.contains p)
      (fun p hp => by rw [hc p (List.mem_of_mem_take (List.mem_of_mem_drop hp))]),
    slotsFrom_append_extra npos xs ys params 0 h]
  simp

/-- a keyword slot of a binding points into the keyword list. -/
theorem slotsFrom_kw_lt (npos : Nat) (kws : List String) :
    ∀ (ps : List String) (b : Nat) (j : Nat), Slot.kw j ∈ slotsFrom npos kws b ps → j < kws.length
  | [], _, _, h => by simp [slotsFrom] at h
  | p :: ps, b, j, h => by
    simp only [slotsFrom, List.mem_cons] at h
    rcases h with h | h
    · unfold slotOf at h
      split_ifs at h
      cases hk : kwIndex p kws with
      | none => simp [hk] at h
      | some j' =>
        simp only [hk, Slot.kw.injEq] at h
        subst h
        have := kwIndex_some hk
        by_contra hc
        rw [List.getElem?_eq_none (by omega)] at this
        cases this
    · exact slotsFrom_kw_lt npos kws ps (b + 1) j h

/-- the value of a slot commutes with evaluating the names: values appended after the keywords of
the call (the expanded `**kwargs`) are never reached by a keyword slot that points into the call. -/
theorem value_map {α : Type} (env : String → α) (pos kwv : List String) (extra : List α) (sl : Slot)
    (h : ∀ j, sl = .kw j → j < kwv.length) :
    Slot.value (pos.map env) (kwv.map env ++ extra) sl = (Slot.value pos kwv sl).map env := by
  cases sl with
  | pos i => simp [Slot.value]
  | kw j =>
    have := h j rfl
    simp [Slot.value, List.getElem?_append_left, this]
  | dflt => simp [Slot.value]

theorem zipWith_congr_mem {β γ δ : Type} (f g : β → γ → δ) :
    ∀ (l₁ : List β) (l₂ : List γ), (∀ x, ∀ y ∈ l₂, f x y = g x y) → List.zipWith f l₁ l₂ = List.zipWith g l₁ l₂
  | [], _, _ => by simp
  | _ :: _, [], _ => by simp
  | a :: l₁, b :: l₂, h => by
    simp only [List.zipWith_cons_cons]
    rw [h a b (by simp), zipWith_congr_mem f g l₁ l₂ (fun x y hy => h x y (by simp [hy]))]

/-- **What a callee receives through a forwarding call** is determined by the names alone
(`Call.sources`): if, on the names, parameter `pᵢ` of the callee is fed from the caller's variable
`srcᵢ`, then under every environment the callee receives `env srcᵢ` (or its own default), the
receiver, and as `**kwargs` the explicit keywords that name no parameter followed by the caller's
`**kwargs`. -/
theorem receive_eval {α : Type} (s : Sig) (c : Call) (lit : Const → α) (env : String → α)
    (kwargs : List (String × α)) (srcs : List (Option String))
    (hs : s.simple = true) (hv : s.varkw = true) (hk : ∀ kv ∈ kwargs, kv.1 ∉ s.params)
    (hsrc : c.sources s = .ok srcs) :
    s.receive lit (c.eval env kwargs) = .ok
      { self := env c.recv,
        vals := List.zipWith (fun p src => (src.map env).getD (lit (s.default p))) s.params srcs,
        extra := (c.kws.filter (fun kv => !s.params.contains kv.1)).map (fun kv => (kv.1, env kv.2))
          ++ (if c.star then kwargs else []) } := by
  have hk' : ∀ kv ∈ (if c.star then kwargs else []), kv.1 ∉ s.params := by
    split_ifs
    · exact hk
    · simp
  unfold Sig.receive Call.eval
  generalize (if c.star then kwargs else []) = star at hk' ⊢
  have e1 : (c.kws.map (fun kv => (kv.1, env kv.2))).map (·.1) = c.kws.map (·.1) := by
    simp [List.map_map, Function.comp_def]
  have e2 : (c.kws.map (fun kv => (kv.1, env kv.2))).map (·.2) = (c.kws.map (·.2)).map env := by
    simp [List.map_map, Function.comp_def]
  have hd : ∀ p ∈ s.params, p ∉ star.map (·.1) := by
    intro p hp hm
    obtain ⟨kv, hkv, rfl⟩ := List.mem_map.mp hm
    exact hk' kv hkv hp
  unfold Call.sources at hsrc
  simp only [List.length_map, e1, e2]
  have hb : ∀ kws, s.bind c.pos.length kws = bindArgs s.params s.nreq true c.pos.length kws := by
    intro kws; simp [Sig.bind, hs, hv]
  rw [hb] at hsrc ⊢
  rw [bindArgs_append_extra hd]
  cases hr : bindArgs s.params s.nreq true c.pos.length (c.kws.map (·.1)) with
  | error e => rw [hr] at hsrc; cases hsrc
  | ok slots =>
    rw [hr] at hsrc
    simp only [Except.ok.injEq] at hsrc
    subst hsrc
    have hsl : slots = slotsFrom c.pos.length (c.kws.map (·.1)) 0 s.params := (bindArgs_inv hr).2.2.2
    simp only [Except.ok.injEq]
    congr 1
    · rw [List.zipWith_map_right]
      apply zipWith_congr_mem
      intro p sl hm
      rw [value_map env c.pos (c.kws.map (·.2)) (star.map (·.2)) sl]
      intro j hj
      subst hj
      rw [hsl] at hm
      simpa using slotsFrom_kw_lt _ _ _ _ _ hm
    · rw [List.filter_append, List.filter_map]
      congr 1
      rw [List.filter_eq_self]
      intro kv hkv
      simpa using hk' kv hkv

/-! ### the dispatcher `sample_system` (= `c2d`) -/

/-- the shape every supported dispatcher body has: the continuous-time test on `sysc`, then a forwarding
call (the generated `sampleSystem` / `c2d` unfold to this; a body with another test, no test, or a test
of another variable does not). -/
def dispatcherForm {α : Type} (c : Call) (isctime : α → Bool) (env : String → α)
    (kwargs : List (String × α)) : Except Err (CallForm α) :=
  if !(isctime (env "sysc")) then .error Err.timebase else .ok (c.eval env kwargs)

/-- the facts about a forwarding call, on names alone, that make it a faithful dispatch to a `sample`
with signature `sg`: every parameter of `sample` is fed from the parameter of the same name, the receiver
is `sysc`, the method is `sample`, `**kwargs` is passed on, and no explicit keyword strays into the
callee's `**kwargs`. -/
def Faithful (c : Call) (sg : Sig) : Prop :=
  c.sources sg = .ok (sampleParams.map some) ∧ c.recv = "sysc" ∧ c.attr = "sample" ∧ c.star = true ∧
    c.kws.filter (fun kv => !sampleParams.contains kv.1) = []

instance (c : Call) (sg : Sig) : Decidable (Faithful c sg) := by unfold Faithful; infer_instance

/-- on the names: through the forwarding call of `sample_system`, every parameter of `sample` is fed from
the parameter of the same name (checked against BOTH generated `sample` signatures). -/
theorem generated_sampleSystemCall_sources :
    Faithful Disp.sampleSystemCall Disp.ssSampleSig ∧ Faithful Disp.sampleSystemCall Disp.tfSampleSig := by
  decide

/-- the same for the forwarding call of `c2d` (the same call when `c2d` is an alias). -/
theorem generated_c2dCall_sources :
    Faithful Disp.c2dCall Disp.ssSampleSig ∧ Faithful Disp.c2dCall Disp.tfSampleSig := by
  decide

theorem zipWith_some_map {α : Type} (env : String → α) (d : String → α) :
    ∀ ps : List String, List.zipWith (fun p src => (Option.map env src).getD (d p)) ps (ps.map some) = ps.map env
  | [] => rfl
  | p :: ps => by simp [zipWith_some_map env d ps]

/-- **A dispatcher of the supported shape with a faithful forwarding call, composed with the binding of
`sample`, is the model of the dispatcher** — for every type of values, every environment of the caller's
parameters and every `**kwargs` (whose keys, by Python's binding of the call of the dispatcher, name none
of its parameters). -/
theorem dispatcher_eq {α : Type} (c : Call) (sg : Sig) (hsg : sg = plainSig sampleParams true sampleDefaults)
    (hc : Faithful c sg) (isctime : α → Bool) (lit : Const → α) (env : String → α)
    (kwargs : List (String × α)) (hk : ∀ kv ∈ kwargs, kv.1 ∉ sampleSystemParams) :
    (dispatcherForm c isctime env kwargs).bind (sg.receive lit) = sampleSystemModel isctime env kwargs := by
  obtain ⟨h1, h3, -, h5, h6⟩ := hc
  have e : sg.params = sampleParams := by rw [hsg]; rfl
  have hk' : ∀ kv ∈ kwargs, kv.1 ∉ sg.params := by
    intro kv hkv hm
    rw [e] at hm
    exact hk kv hkv (List.mem_cons_of_mem _ hm)
  unfold dispatcherForm sampleSystemModel
  cases hct : isctime (env "sysc") with
  | false => rfl
  | true =>
    simp only [Bool.not_true, Bool.false_eq_true, if_false, if_true]
    show sg.receive lit (c.eval env kwargs) = _
    rw [receive_eval _ _ lit env kwargs _ (by rw [hsg]; rfl) (by rw [hsg]; rfl) hk' h1, h3, h5, e, h6,
      zipWith_some_map]
    rfl

/-- **`sample_system` as the source text says it, composed with the binding of `StateSpace.sample`
read from the source, is the model of the dispatcher.** -/
theorem generated_sampleSystem_eq {α : Type} (isctime : α → Bool) (lit : Const → α) (env : String → α)
    (kwargs : List (String × α)) (hk : ∀ kv ∈ kwargs, kv.1 ∉ sampleSystemParams) :
    (Disp.sampleSystem isctime env kwargs).bind (Disp.ssSampleSig.receive lit)
      = sampleSystemModel isctime env kwargs :=
  dispatcher_eq Disp.sampleSystemCall Disp.ssSampleSig generated_ssSampleSig_eq
    generated_sampleSystemCall_sources.1 isctime lit env kwargs hk

/-- the same with the signature of `TransferFunction.sample`. -/
theorem generated_sampleSystem_tf_eq {α : Type} (isctime : α → Bool) (lit : Const → α) (env : String → α)
    (kwargs : List (String × α)) (hk : ∀ kv ∈ kwargs, kv.1 ∉ sampleSystemParams) :
    (Disp.sampleSystem isctime env kwargs).bind (Disp.tfSampleSig.receive lit)
      = sampleSystemModel isctime env kwargs :=
  dispatcher_eq Disp.sampleSystemCall Disp.tfSampleSig generated_tfSampleSig_eq
    generated_sampleSystemCall_sources.2 isctime lit env kwargs hk

/-- `c2d` — an alias of `sample_system` or a `def` of its own with its own test and forwarding call (by
keyword or by position) — is the same dispatcher. -/
theorem generated_c2d_eq {α : Type} (isctime : α → Bool) (lit : Const → α) (env : String → α)
    (kwargs : List (String × α)) (hk : ∀ kv ∈ kwargs, kv.1 ∉ sampleSystemParams) :
    (Disp.c2d isctime env kwargs).bind (Disp.ssSampleSig.receive lit) = sampleSystemModel isctime env kwargs ∧
    (Disp.c2d isctime env kwargs).bind (Disp.tfSampleSig.receive lit) = sampleSystemModel isctime env kwargs :=
  ⟨dispatcher_eq Disp.c2dCall Disp.ssSampleSig generated_ssSampleSig_eq
      generated_c2dCall_sources.1 isctime lit env kwargs hk,
   dispatcher_eq Disp.c2dCall Disp.tfSampleSig generated_tfSampleSig_eq
      generated_c2dCall_sources.2 isctime lit env kwargs hk⟩

/-- a system that is not continuous-time is rejected before anything is forwarded. -/
theorem generated_sampleSystem_raises {α : Type} (isctime : α → Bool) (env : String → α)
    (kwargs : List (String × α)) (h : isctime (env "sysc") = false) :
    Disp.sampleSystem isctime env kwargs = .error .timebase ∧ Disp.c2d isctime env kwargs = .error .timebase := by
  have h1 : Disp.sampleSystem isctime env kwargs = dispatcherForm Disp.sampleSystemCall isctime env kwargs := rfl
  have h2 : Disp.c2d isctime env kwargs = dispatcherForm Disp.c2dCall isctime env kwargs := rfl
  rw [h1, h2]
  simp [dispatcherForm, h]

/-! ### end to end: a call of `sample_system` / `c2d`, through the forwarding call, into `sample` -/

/-- the end-to-end statement for ANY dispatcher `f` with signature `sg` that (i) has the documented
signature and (ii) composed with either binding of `sample` is the model of the dispatcher. -/
theorem route_delivers_of {α : Type} (sg : Sig)
    (f : (α → Bool) → (String → α) → List (String × α) → Except Err (CallForm α))
    (hsg : sg = plainSig sampleSystemParams true sampleDefaults)
    (hss : ∀ isctime lit env kwargs, (∀ kv ∈ kwargs, kv.1 ∉ sampleSystemParams) →
      (f isctime env kwargs).bind (Disp.ssSampleSig.receive lit) = sampleSystemModel isctime env kwargs)
    (htf : ∀ isctime lit env kwargs, (∀ kv ∈ kwargs, kv.1 ∉ sampleSystemParams) →
      (f isctime env kwargs).bind (Disp.tfSampleSig.receive lit) = sampleSystemModel isctime env kwargs)
    (isctime : α → Bool) (lit : Const → α) (a : String → α)
    (npos : Nat) (kws : List String) (s : List Slot) (env : String → α) (kwargs : List (String × α))
    (hb : sg.bind npos kws = .ok s)
    (henv : ∀ (i : Nat) (p : String), sg.params[i]? = some p →
      env p = ((s[i]?.bind (Slot.value ((sg.params.take npos).map a) (kws.map a))).getD
        (lit (sg.default p))))
    (hkw : kwargs = (kws.filter (fun k => !sg.params.contains k)).map (fun k => (k, a k)))
    (hct : isctime (env "sysc") = true) :
    ∃ r, (f isctime env kwargs).bind (Disp.ssSampleSig.receive lit) = .ok r ∧
      (f isctime env kwargs).bind (Disp.tfSampleSig.receive lit) = .ok r ∧
      r.self = env "sysc" ∧ r.extra = kwargs ∧
      ∀ (i : Nat) (p : String), Disp.ssSampleSig.params[i]? = some p →
        r.vals[i]? = some (if i + 1 < npos ∨ p ∈ kws then a p else lit (Disp.ssSampleSig.default p)) := by
  subst hsg
  have hb2 : bindArgs sampleSystemParams 2 true npos kws = .ok s := by
    rw [plainSig_bind _ _ _ _ plain_sampleSystem_facts.2.1] at hb; exact hb
  have hk : ∀ kv ∈ kwargs, kv.1 ∉ sampleSystemParams := by
    subst hkw
    intro kv hkv
    obtain ⟨k, hk1, rfl⟩ := List.mem_map.mp hkv
    have h2 : k ∉ (plainSig sampleSystemParams true sampleDefaults).params := by
      simpa using (List.mem_filter.mp hk1).2
    exact h2
  refine ⟨{ self := env "sysc", vals := sampleParams.map env, extra := kwargs }, ?_, ?_, rfl, rfl, ?_⟩
  · rw [hss isctime lit env kwargs hk]
    simp [sampleSystemModel, hct]
  · rw [htf isctime lit env kwargs hk]
    simp [sampleSystemModel, hct]
  · intro i p hp
    have hi : sampleParams[i]? = some p := hp
    have hp' : sampleSystemParams[i + 1]? = some p := by
      simpa [sampleSystemParams] using hi
    simp only [List.getElem?_map, hi, Option.map_some]
    rw [henv (i + 1) p hp']
    have hdel := bindArgs_delivers hb2 a hp'
    have e : (plainSig sampleSystemParams true sampleDefaults).params = sampleSystemParams := rfl
    rw [e, hdel]
    have hd : (plainSig sampleSystemParams true sampleDefaults).default p = Disp.ssSampleSig.default p := rfl
    split_ifs <;> simp [hd]

/-- **Every value written for parameter p of `sample_system` arrives at parameter p of `sample`.**
A call of `sample_system` passes the intended values `a` of the first `npos` parameters positionally and
`a k` for each keyword `k` (any split, any keyword order; keywords that name no parameter are the
`**kwargs`).  Let the generated binding accept it with slots `s`, and let `env` be the resulting
environment (a parameter holds the value of its slot, or its default).  Then, on a continuous-time
`sysc`, the generated body followed by the generated binding of `sample` succeeds, `sample` runs on
`sysc`, receives the same `**kwargs`, and its parameter `p` holds `a p` when the call of
`sample_system` supplied `p` (positionally or by keyword) and the documented default otherwise.
(`Props/C14GenDispRoute.lean` discharges `henv` / `hkw` by computing `env` from the binding.) -/
theorem sampleSystem_route_delivers {α : Type} (isctime : α → Bool) (lit : Const → α) (a : String → α)
    (npos : Nat) (kws : List String) (s : List Slot) (env : String → α) (kwargs : List (String × α))
    (hb : Disp.bindSampleSystem npos kws = .ok s)
    (henv : ∀ (i : Nat) (p : String), Disp.sampleSystemSig.params[i]? = some p →
      env p = ((s[i]?.bind (Slot.value ((Disp.sampleSystemSig.params.take npos).map a) (kws.map a))).getD
        (lit (Disp.sampleSystemSig.default p))))
    (hkw : kwargs = (kws.filter (fun k => !Disp.sampleSystemSig.params.contains k)).map (fun k => (k, a k)))
    (hct : isctime (env "sysc") = true) :
    ∃ r, (Disp.sampleSystem isctime env kwargs).bind (Disp.ssSampleSig.receive lit) = .ok r ∧
      (Disp.sampleSystem isctime env kwargs).bind (Disp.tfSampleSig.receive lit) = .ok r ∧
      r.self = env "sysc" ∧ r.extra = kwargs ∧
      ∀ (i : Nat) (p : String), Disp.ssSampleSig.params[i]? = some p →
        r.vals[i]? = some (if i + 1 < npos ∨ p ∈ kws then a p else lit (Disp.ssSampleSig.default p)) :=
  route_delivers_of Disp.sampleSystemSig (fun i e k => Disp.sampleSystem i e k) generated_sampleSystemSig_eq
    (fun i l e k h => generated_sampleSystem_eq i l e k h) (fun i l e k h => generated_sampleSystem_tf_eq i l e k h)
    isctime lit a npos kws s env kwargs hb henv hkw hct

/-- the same for `c2d`. -/
theorem c2d_route_delivers {α : Type} (isctime : α → Bool) (lit : Const → α) (a : String → α)
    (npos : Nat) (kws : List String) (s : List Slot) (env : String → α) (kwargs : List (String × α))
    (hb : Disp.bindC2d npos kws = .ok s)
    (henv : ∀ (i : Nat) (p : String), Disp.c2dSig.params[i]? = some p →
      env p = ((s[i]?.bind (Slot.value ((Disp.c2dSig.params.take npos).map a) (kws.map a))).getD
        (lit (Disp.c2dSig.default p))))
    (hkw : kwargs = (kws.filter (fun k => !Disp.c2dSig.params.contains k)).map (fun k => (k, a k)))
    (hct : isctime (env "sysc") = true) :
    ∃ r, (Disp.c2d isctime env kwargs).bind (Disp.ssSampleSig.receive lit) = .ok r ∧
      (Disp.c2d isctime env kwargs).bind (Disp.tfSampleSig.receive lit) = .ok r ∧
      r.self = env "sysc" ∧ r.extra = kwargs ∧
      ∀ (i : Nat) (p : String), Disp.ssSampleSig.params[i]? = some p →
        r.vals[i]? = some (if i + 1 < npos ∨ p ∈ kws then a p else lit (Disp.ssSampleSig.default p)) :=
  route_delivers_of Disp.c2dSig (fun i e k => Disp.c2d i e k) generated_c2dSig_eq
    (fun i l e k h => (generated_c2d_eq i l e k h).1) (fun i l e k h => (generated_c2d_eq i l e k h).2)
    isctime lit a npos kws s env kwargs hb henv hkw hct

/-! ### non-vacuity -/

/-- `sample_system(G, 1, 'bilinear', inputs=7, prewarp_frequency=3)` over `α = Int` (`lit` maps every
default to `0`; the system is the value 5; every `sysc` is continuous-time): accepted; `sample` runs
on 5 with `Ts = 1`, `method` = the value written for it, `prewarp_frequency = 3`, the others at their
defaults, and `inputs=7` in `**kwargs` — hypotheses of `sampleSystem_route_delivers` and of
`generated_sampleSystem_eq` are satisfiable, and the conclusion is the expected concrete value. -/
example :
    Disp.bindSampleSystem 3 ["inputs", "prewarp_frequency"]
      = .ok [.pos 0, .pos 1, .pos 2, .dflt, .kw 1, .dflt, .dflt] ∧
    (Disp.sampleSystem (fun _ : Int => true)
        (fun p => if p = "sysc" then 5 else if p = "Ts" then 1 else if p = "method" then 2
          else if p = "prewarp_frequency" then 3 else 0) [("inputs", 7)]).bind
      (Disp.ssSampleSig.receive (fun _ => 0))
      = .ok { self := 5, vals := [1, 2, 0, 3, 0, 0], extra := [("inputs", 7)] } := by
  refine ⟨by decide, ?_⟩
  rw [generated_sampleSystem_eq _ _ _ _ (by decide)]
  rfl

/-- non-vacuity of `generated_sampleSystem_raises`. -/
example : Disp.sampleSystem (fun _ : Int => false) (fun _ => 0) [] = .error .timebase := rfl

/-- non-vacuity of `receive_eval` / `bindArgs_append_extra`: a label keyword after the explicit ones. -/
example : bindArgs sampleParams 1 true 1 (["method", "alpha"] ++ ["inputs"])
    = .ok [.pos 0, .kw 0, .kw 1, .dflt, .dflt, .dflt] := by decide

end CtrlVerif.C14GenDisp
