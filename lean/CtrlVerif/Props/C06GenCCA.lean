/-
Source-text tie of `control/timeresp.py:_check_convert_array` (C06; also the validation primitive
of C08 `input_output_response` and C20 `point_to_point` / `solve_flat_optimal`).

`Generated/CheckConvertArray.lean` is rewritten from the function's text on every run
(harness/core/py2lean_cca.py); the theorems here prove it equal to the hand-written specification
`CheckConvert.checkConvert` for every array, every list of legal shapes and both flags, derive the
acceptance criterion and the data-preservation facts from it, and show that the validation
primitives the other models use (`Exec.convertX0`, `PyHead.checkConvertArray`) are instances.
-/
import CtrlVerif.Model.CheckConvert
import CtrlVerif.Generated.CheckConvertArray

namespace CtrlVerif.C06GenCCA

open PyCCA CheckConvert Generated.CCA

variable {α : Type}

/-! ### the generated pieces, one by one -/

theorem generated_shapeMatchesLoop_iff (l : List (Dim × Nat)) :
    shapeMatchesLoop l = true ↔ ∀ p ∈ l, p.1 = Dim.any ∨ p.1 = Dim.n p.2 := by
  induction l with
  | nil => simp [shapeMatchesLoop]
  | cons p rest ih =>
    obtain ⟨d, k⟩ := p
    by_cases h1 : d = Dim.any
    · subst h1; simp [shapeMatchesLoop, isAny, ih]
    · by_cases h2 : d = Dim.n k
      · subst h2; simp [shapeMatchesLoop, isAny, dimNe, ih]
      · simp [shapeMatchesLoop, isAny, dimNe, h1, h2]

/-- the nested function `shape_matches` of the source text decides `Matches`. -/
theorem generated_shapeMatches_iff (s : LegalShape) (a : List Nat) :
    shapeMatches s a = true ↔ Matches s a := by
  unfold shapeMatches Matches
  by_cases h : s.length = a.length
  · simp [h, generated_shapeMatchesLoop_iff]
  · simp [h]

/-- the `for … else: raise` loop succeeds iff some legal shape matches. -/
theorem generated_loop2_eq (legal : List LegalShape) (a : Arr α) :
    loop2 legal a = if ∃ s ∈ legal, Matches s a.shape then .ok () else .error .badArg := by
  induction legal with
  | nil => simp [loop2]
  | cons s rest ih =>
    by_cases h : Matches s a.shape
    · have h' := (generated_shapeMatches_iff s a.shape).mpr h
      simp [loop2, h', h]; rfl
    · have h' : shapeMatches s a.shape = false := by
        cases hh : shapeMatches s a.shape with
        | false => rfl
        | true => exact absurd ((generated_shapeMatches_iff s a.shape).mp hh) h
      simp [loop2, h', h, ih]

/-- the scalar loop fills the first joker-free legal shape. -/
theorem generated_loop1_eq (legal : List LegalShape) (a : Arr α) :
    loop1 legal a = match firstConcrete legal with
      | some s => do let v ← item a; full s v
      | none => .ok a := by
  induction legal with
  | nil => simp [loop1, firstConcrete]; rfl
  | cons s rest ih =>
    by_cases h : Dim.any ∈ s
    · simp [loop1, firstConcrete, anyIn, h, ih]
    · simp [loop1, firstConcrete, anyIn, h]

/-! ### the whole function -/

/-- **The function the source text defines is the specification**, for every array, every list of
legal shapes and both flags. -/
theorem generated_cca_eq (x : Arr α) (legal : List LegalShape) (sq tr : Bool) :
    checkConvertArray x legal sq tr = checkConvert x legal sq tr := by
  unfold checkConvertArray checkConvert
  cases tr <;> simp only [asarray, Bool.false_eq_true, ↓reduceIte]
  · cases hk : x.kind <;> simp [fillScalar, ndim, generated_loop1_eq, generated_loop2_eq, squeezed]
    all_goals
      simp only [pure, Except.pure]
      refine bind_congr fun a => ?_
      by_cases h : ∃ s, s ∈ legal ∧ Matches s a.shape <;> simp [h, bind, Except.bind]
  · cases hk : (transpose x).kind <;> simp [fillScalar, ndim, generated_loop1_eq, generated_loop2_eq, squeezed]
    all_goals
      simp only [pure, Except.pure]
      refine bind_congr fun a => ?_
      by_cases h : ∃ s, s ∈ legal ∧ Matches s a.shape <;> simp [h, bind, Except.bind]

/-! ### what the specification says (transported to the generated function) -/

theorem transpose_kind (x : Arr α) : (transpose x).kind = x.kind := rfl

/-- non-numeric element types are rejected whatever the shapes are. -/
theorem generated_cca_rejects_nonnumeric (x : Arr α) (legal : List LegalShape) (sq tr : Bool)
    (h : x.kind = Kind.other) : checkConvertArray x legal sq tr = .error .badArg := by
  rw [generated_cca_eq]; unfold checkConvert
  cases tr <;> simp [h, transpose_kind]

/-- a joker-free legal shape matches exactly the shape it spells. -/
theorem matches_concrete (s : List Nat) (a : List Nat) : Matches (s.map Dim.n) a ↔ s = a := by
  unfold Matches
  induction s generalizing a with
  | nil => cases a <;> simp
  | cons k s ih =>
    cases a with
    | nil => simp
    | cons j a =>
      have := ih a
      simp only [List.map_cons, List.length_cons, List.zip_cons_cons, List.mem_cons, forall_eq_or_imp,
        Nat.add_right_cancel_iff, List.cons.injEq] at this ⊢
      constructor
      · rintro ⟨hl, h1, h2⟩
        refine ⟨?_, this.mp ⟨hl, h2⟩⟩
        rcases h1 with h1 | h1
        · cases h1
        · exact Dim.n.inj h1
      · rintro ⟨rfl, rfl⟩
        exact ⟨(this.mpr rfl).1, Or.inr rfl, (this.mpr rfl).2⟩

theorem concrete_map (sh : List Nat) : concrete (sh.map Dim.n) = .ok sh := by
  induction sh with
  | nil => rfl
  | cons a t ih => simp [concrete, ih, bind, Except.bind, pure, Except.pure]

/-- squeezing never fails and never yields a 0-d array. -/
theorem squeezed_ok (a : Arr α) : ∃ r, squeezed a = .ok r ∧ r.shape ≠ [] ∧ r.data = a.data ∧ r.kind = a.kind := by
  unfold squeezed
  by_cases h : (squeeze a).shape = []
  · refine ⟨{ squeeze a with shape := [1] }, ?_, by simp, rfl, rfl⟩
    simp [h, reshape]
  · exact ⟨squeeze a, by simp [h], h, rfl, rfl⟩

/-- **Acceptance criterion** (array arguments, i.e. not 0-d): the call returns iff the element
type is numeric and the shape matches one of the legal shapes; for both values of `squeeze`. -/
theorem generated_cca_accepts_iff (x : Arr α) (legal : List LegalShape) (sq : Bool)
    (hs : x.shape ≠ []) :
    (∃ r, checkConvertArray x legal sq false = .ok r) ↔
      x.kind ≠ Kind.other ∧ ∃ s ∈ legal, Matches s x.shape := by
  rw [generated_cca_eq]; unfold checkConvert fillScalar
  by_cases hk : x.kind = Kind.other
  · simp [hk]
  · by_cases hm : ∃ s ∈ legal, Matches s x.shape
    · obtain ⟨r, hr, -⟩ := squeezed_ok x
      cases sq <;> simp [hk, hs, hm, bind, Except.bind, hr]
    · simp [hk, hs, hm, bind, Except.bind]

/-- **No element is altered**: for an array argument the returned array holds the caller's
elements in the caller's order, with the caller's element type; without `squeeze` the shape is
the caller's, with `squeeze` it is never 0-d. -/
theorem generated_cca_data (x r : Arr α) (legal : List LegalShape) (sq : Bool) (hs : x.shape ≠ [])
    (h : checkConvertArray x legal sq false = .ok r) :
    r.data = x.data ∧ r.kind = x.kind ∧ (sq = false → r.shape = x.shape) ∧ (sq = true → r.shape ≠ []) := by
  rw [generated_cca_eq] at h; unfold checkConvert fillScalar at h
  by_cases hk : x.kind = Kind.other
  · simp [hk] at h
  · by_cases hm : ∃ s ∈ legal, Matches s x.shape
    · obtain ⟨r', hr, h1, h2, h3⟩ := squeezed_ok x
      cases sq
      · simp [hk, hs, hm, bind, Except.bind] at h; subst h; simp
      · simp [hk, hs, hm, bind, Except.bind, hr] at h; subst h; simp [h1, h2, h3]
    · simp [hk, hs, hm, bind, Except.bind] at h

/-- **Scalars**: a 0-d argument is accepted whenever one legal shape is joker-free; the result has
the first such shape and every element equals the scalar. -/
theorem generated_cca_scalar (v : α) (k : Kind) (hk : k ≠ Kind.other) (legal : List LegalShape)
    (sh : List Nat) (hf : firstConcrete legal = some (sh.map Dim.n)) :
    checkConvertArray ⟨[], [v], k⟩ legal false false
      = .ok ⟨sh, List.replicate sh.prod v, Kind.f⟩ := by
  have hc := concrete_map sh
  have hmem : sh.map Dim.n ∈ legal := by
    clear hc
    induction legal with
    | nil => simp [firstConcrete] at hf
    | cons s rest ih =>
      unfold firstConcrete at hf
      by_cases h : Dim.any ∈ s
      · simp [h] at hf; exact List.mem_cons_of_mem _ (ih hf)
      · simp [h] at hf; simp [hf]
  rw [generated_cca_eq]; unfold checkConvert fillScalar
  have hm : ∃ s ∈ legal, Matches s sh := ⟨_, hmem, (matches_concrete sh sh).mpr rfl⟩
  simp [hk, hf, item, full, hc, bind, Except.bind, pure, Except.pure, hm]

/-- `transpose=True` is the call on the transposed array. -/
theorem generated_cca_transpose (x : Arr α) (legal : List LegalShape) (sq : Bool) :
    checkConvertArray x legal sq true = checkConvertArray (transpose x) legal sq false := by
  rw [generated_cca_eq, generated_cca_eq]; unfold checkConvert; simp

/-- **Acceptance criterion with `transpose=True`**: the reversed shape must match a legal shape. -/
theorem generated_cca_accepts_iff_transposed (x : Arr α) (legal : List LegalShape) (sq : Bool)
    (hs : x.shape ≠ []) :
    (∃ r, checkConvertArray x legal sq true = .ok r) ↔
      x.kind ≠ Kind.other ∧ ∃ s ∈ legal, Matches s x.shape.reverse := by
  rw [generated_cca_transpose]
  have hs' : (transpose x).shape ≠ [] := by
    show x.shape.reverse ≠ []
    simpa using hs
  exact generated_cca_accepts_iff (transpose x) legal sq hs'

/-- **Validation is idempotent** on array arguments: validating the returned array again (same
legal shapes, no squeeze, no transposition) returns it unchanged. -/
theorem generated_cca_idempotent (x r : Arr α) (legal : List LegalShape) (hs : x.shape ≠ [])
    (h : checkConvertArray x legal false false = .ok r) :
    checkConvertArray r legal false false = .ok r := by
  obtain ⟨hd, hk, hsh, -⟩ := generated_cca_data x r legal false hs h
  have hsh' := hsh rfl
  have hacc := (generated_cca_accepts_iff x legal false hs).mp ⟨r, h⟩
  have hrs : r.shape ≠ [] := hsh' ▸ hs
  obtain ⟨r', hr'⟩ := (generated_cca_accepts_iff r legal false hrs).mpr ⟨hk ▸ hacc.1, hsh' ▸ hacc.2⟩
  obtain ⟨hd', hk', hsh2, -⟩ := generated_cca_data r r' legal false hrs hr'
  have : r' = r := by
    cases r; cases r'; simp_all
  rw [hr', this]

/-! ### the trusted primitive `transpose` against its specification -/

theorem filterMap_range_all_some {β : Type} (f : Nat → Option β) (n : Nat) (h : ∀ k < n, (f k).isSome = true) :
    ((List.range n).filterMap f).length = n ∧ ∀ k < n, ((List.range n).filterMap f)[k]? = f k := by
  induction n with
  | zero => simp
  | succ n ih =>
    obtain ⟨hl, hg⟩ := ih (fun k hk => h k (Nat.lt_succ_of_lt hk))
    obtain ⟨v, hv⟩ := Option.isSome_iff_exists.mp (h n (Nat.lt_succ_self n))
    rw [List.range_succ, List.filterMap_append]
    simp only [List.filterMap_cons, hv, List.filterMap_nil, List.length_append, hl, List.length_singleton,
      true_and]
    intro k hk
    by_cases hkn : k < n
    · rw [List.getElem?_append_left (by rw [hl]; exact hkn)]; exact hg k hkn
    · have : k = n := by omega
      subst this
      rw [List.getElem?_append_right (by rw [hl]; exact Nat.le_refl _)]
      simp [hl, hv]

/-- **`PyCCA.transpose` on a 2-D array is the matrix transposition**: the result has shape
`(c, r)`, as many elements, and its element `(j, i)` is element `(i, j)` of the argument
(row-major positions `j * r + i` and `i * c + j`).  This ties the trusted primitive to its
specification for the arrays `forced_response(…, transpose=True)` passes. -/
theorem transpose_2d (a : Arr α) (r c : Nat) (hsh : a.shape = [r, c]) (hlen : a.data.length = r * c) :
    (transpose a).shape = [c, r] ∧ (transpose a).data.length = r * c ∧
      ∀ i j, i < r → j < c → (transpose a).data[j * r + i]? = a.data[i * c + j]? := by
  have hr0 : ∀ k, k < c * r → 0 < r := fun k hk => Nat.pos_of_ne_zero (by rintro rfl; simp at hk)
  have hf : ∀ k, k < c * r →
      a.data[ravel a.shape (unravel a.shape.reverse k).reverse]? = a.data[(k % r) * c + k / r]? := by
    intro k _
    simp [hsh, unravel, ravel]
  have hsome : ∀ k < c * r,
      (a.data[ravel a.shape (unravel a.shape.reverse k).reverse]?).isSome = true := by
    intro k hk
    rw [hf k hk, List.getElem?_eq_some_iff.mpr ⟨?_, rfl⟩]; rfl
    rw [hlen]
    have h1 : k % r < r := Nat.mod_lt _ (hr0 k hk)
    have h2 : k / r < c := Nat.div_lt_of_lt_mul (by rw [Nat.mul_comm]; exact hk)
    calc k % r * c + k / r < k % r * c + c := by omega
      _ = (k % r + 1) * c := (Nat.succ_mul _ _).symm
      _ ≤ r * c := Nat.mul_le_mul_right c h1
  have hprod : a.shape.reverse.prod = c * r := by simp [hsh]
  obtain ⟨hl, hg⟩ := filterMap_range_all_some
    (fun k => a.data[ravel a.shape (unravel a.shape.reverse k).reverse]?) (c * r) hsome
  refine ⟨by simp [transpose, hsh], ?_, ?_⟩
  · show ((List.range a.shape.reverse.prod).filterMap _).length = r * c
    rw [hprod, hl, Nat.mul_comm]
  · intro i j hi hj
    have hk : j * r + i < c * r := by
      calc j * r + i < j * r + r := by omega
        _ = (j + 1) * r := (Nat.succ_mul _ _).symm
        _ ≤ c * r := Nat.mul_le_mul_right r hj
    show ((List.range a.shape.reverse.prod).filterMap _)[j * r + i]? = _
    rw [hprod, hg _ hk, hf _ hk]
    have h1 : (j * r + i) % r = i := by
      rw [Nat.add_comm, Nat.add_mul_mod_self_right, Nat.mod_eq_of_lt hi]
    have h2 : (j * r + i) / r = j := by
      rw [Nat.add_comm, Nat.add_mul_div_right _ _ (by omega : 0 < r), Nat.div_eq_of_lt hi, Nat.zero_add]
    rw [h1, h2]

/-- **`transpose=True` end to end** for a 2-D argument: the accepted result has the transposed
shape and its element `(j, i)` is the caller's element `(i, j)`. -/
theorem generated_cca_transposed_data (x res : Arr α) (legal : List LegalShape) (r c : Nat)
    (hsh : x.shape = [r, c]) (hlen : x.data.length = r * c)
    (h : Generated.CCA.checkConvertArray x legal false true = .ok res) :
    res.shape = [c, r] ∧ ∀ i j, i < r → j < c → res.data[j * r + i]? = x.data[i * c + j]? := by
  obtain ⟨h1, -, h3⟩ := transpose_2d x r c hsh hlen
  rw [generated_cca_transpose] at h
  obtain ⟨hd, -, hs, -⟩ := generated_cca_data (transpose x) res legal false (by rw [h1]; simp) h
  exact ⟨by rw [hs rfl, h1], fun i j hi hj => by rw [hd]; exact h3 i j hi hj⟩

example : (transpose (⟨[2, 3], [1, 2, 3, 4, 5, 6], Kind.i⟩ : Arr Nat)).data = [1, 4, 2, 5, 3, 6] := by rfl

/-- non-vacuity: `forced_response`'s `X0` check on a concrete vector and a concrete scalar. -/
example : checkConvertArray (α := Nat) ⟨[3, 1], [7, 8, 9], Kind.i⟩ [[.n 3], [.n 3, .n 1]] true false
    = .ok ⟨[3], [7, 8, 9], Kind.i⟩ := by rfl
example : checkConvertArray (α := Nat) ⟨[], [5], Kind.i⟩ [[.any], [.n 2, .n 2]] false false
    = .ok ⟨[2, 2], [5, 5, 5, 5], Kind.f⟩ := by rfl
example : checkConvertArray (α := Nat) ⟨[2, 3], [1, 2, 3, 4, 5, 6], Kind.i⟩ [[.n 3, .any]] false true
    = .ok ⟨[3, 2], [1, 4, 2, 5, 3, 6], Kind.i⟩ := by rfl
example : checkConvertArray (α := Nat) ⟨[2], [1, 2], Kind.i⟩ [[.n 3], [.n 3, .n 1]] true false
    = .error .badArg := by rfl

end CtrlVerif.C06GenCCA
