/-
Source-text tie of C16, part 1: the H2 branch of `system_norm` (control/sysnorm.py, method 'scipy').
`Generated/NormH2.lean` is rewritten from the source text on every run (harness/core/py2lean_norm.py):
`normPsdTol` is `_psd_tol`, `normH2` the matrix assignments and the whole body of `if p == 2:`.  The
theorems below prove that, for every `StateSpace` object (all sizes, zero states included, every
entry), every pole list, every Lyapunov solver, every `eigvals`, `la.norm` and value of
`sqrt(eps)`, the generated function IS the model's `Norm.h2` (`h2cont` / `h2disc`), the model's
external routines being instantiated by `h2Ext`:

* `lyap` / `dlyap` are called with `(A, B Bᵀ)` (for a system without states the code takes
  `np.zeros((0, 0))` instead — the same 0 × 0 array);
* the Gramian precaution `negEig P` of the model is the test of repair 655677a:
  `any(eigvals(P).real < -sqrt(eps) · ‖P‖_F)`;
* the radicand is `trace(C P Cᵀ)` resp. `trace(C P Cᵀ + D Dᵀ)`, a negative radicand raises.

`G.isctime()` / `G.isdtime()` are `DtPred.isctime false` / `DtPred.isdtime false` (tied to
control/iosys.py by `C05Pred`); for a valid timebase they are the model's `isCtime` and exclude
each other, so the `if … elif …` of the code is the model's `if … else …`.
-/
import CtrlVerif.Generated.NormH2
import CtrlVerif.Lemmas.PyNorm
import CtrlVerif.Props.C16

namespace CtrlVerif.C16Gen

open Matrix CtrlVerif CtrlVerif.Norm

variable {K : Type} [Field K] [LinearOrder K]

/-- the external routines of the model's H2 computation, as the source text uses them: the two
Lyapunov solvers, and the Gramian precaution `any(la.eigvals(P).real < -_psd_tol(P))` with
`_psd_tol(P) = sqrt(eps) * la.norm(P)`. -/
def h2Ext (lyap dlyap : PyNorm.LyapFun K) (eigvals : PMat K → List (Pole K)) (sqrtEps : K)
    (fro : PMat K → K) (n : Nat) : H2Ext (Fin n) K where
  lyap := lyap n
  dlyap := dlyap n
  negEig := fun P =>
    PyNorm.any (PyNorm.lt (PyNorm.real (eigvals ⟨n, n, P⟩)) (-(sqrtEps * fro ⟨n, n, P⟩)))

/-- **`_psd_tol`** is `sqrt(eps) · ‖P‖` (never raises). -/
theorem generated_psdTol_eq (sqrtEps : K) (fro : PMat K → K) (P : PMat K) :
    Generated.normPsdTol sqrtEps fro P = .ok (sqrtEps * fro P) := rfl

/-- the Gramian expression of the code: `lyap(A, B @ B.T) if nstates > 0 else zeros((0, 0))` is the
solver's answer for `(A, B Bᵀ)` at every size. -/
theorem gramian_expr (f : PyNorm.LyapFun K) (n m : Nat) (A : Matrix (Fin n) (Fin n) K)
    (B : Matrix (Fin n) (Fin m) K) :
    (if n > (0 : Nat) then
        (PMat.matmul ⟨n, m, B⟩ (PMat.T ⟨n, m, B⟩)).bind fun t => PyNorm.callLyap f ⟨n, n, A⟩ t
      else (pure (PMat.zeros (0 : Nat) (0 : Nat)) : Except Err (PMat K)))
      = .ok ⟨n, n, f n A (B * Bᵀ)⟩ := by
  rcases Nat.eq_zero_or_pos n with rfl | hn
  · rw [if_neg (by omega)]
    simp only [pure, Except.pure, PMat.zeros_def]
    congr 2
    exact Subsingleton.elim _ _
  · rw [if_pos hn]
    simp only [PMat.T_mk, PMat.matmul_mk, Except.ok_bind', PyNorm.callLyap_mk]

/-- **H2, continuous time**: the generated function on a system with `G.isctime()`. -/
theorem generated_h2cont_eq (lyap dlyap : PyNorm.LyapFun K) (eigvals : PMat K → List (Pole K))
    (sqrtEps : K) (fro : PMat K → K) (G : DSS K) (poles : List (Pole K))
    (hc : DtPred.isctime false G.dt = true) :
    Generated.normH2 lyap dlyap eigvals sqrtEps fro G poles
      = h2cont (h2Ext lyap dlyap eigvals sqrtEps fro G.n) G.sys poles := by
  obtain ⟨n, p, m, ⟨A, B, C, D⟩, dt⟩ := G
  unfold Generated.normH2 h2cont h2tail
  simp only [PySS.A, PySS.B, PySS.C, PySS.D, bind, pure, Except.pure] at hc ⊢
  rw [if_pos hc]
  simp only [PyNorm.any_isclose_real_zero, PyNorm.any_gt_real_zero, PyNorm.any_ne_flat]
  by_cases h1 : onAxis poles = true
  · simp only [h1, ↓reduceIte]
  by_cases h2 : inRhp poles = true
  · simp only [h1, h2, ↓reduceIte]
  by_cases h3 : hasDirect D = true
  · simp only [h1, h2, h3, ↓reduceIte]
  simp only [h1, h2, h3, ↓reduceIte]
  have hg := gramian_expr lyap n m A B
  simp only [bind, pure, Except.pure] at hg
  rw [hg]
  simp only [Except.bind, generated_psdTol_eq, PMat.T_mk, PMat.matmul_mk, PyNorm.trace_mk,
    PyNorm.isnan, h2Ext, decide_eq_true_eq, PyNorm.sqrt, Bool.false_eq_true, ↓reduceIte, throw, throwThe,
    MonadExceptOf.throw]
  rfl

/-- **H2, discrete time**: the generated function on a system with `G.isdtime()` and not
`G.isctime()`. -/
theorem generated_h2disc_eq (lyap dlyap : PyNorm.LyapFun K) (eigvals : PMat K → List (Pole K))
    (sqrtEps : K) (fro : PMat K → K) (G : DSS K) (poles : List (Pole K))
    (hc : DtPred.isctime false G.dt = false) (hd : DtPred.isdtime false G.dt = true) :
    Generated.normH2 lyap dlyap eigvals sqrtEps fro G poles
      = h2disc (h2Ext lyap dlyap eigvals sqrtEps fro G.n) G.sys poles := by
  obtain ⟨n, p, m, ⟨A, B, C, D⟩, dt⟩ := G
  unfold Generated.normH2 h2disc h2tail
  simp only [PySS.A, PySS.B, PySS.C, PySS.D, bind, pure, Except.pure] at hc hd ⊢
  rw [if_neg (by rw [hc]; simp), if_pos hd]
  simp only [PyNorm.any_absIsclose_one, PyNorm.any_absGt_one]
  by_cases h1 : onCircle poles = true
  · simp only [h1, ↓reduceIte]
  by_cases h2 : outsideDisc poles = true
  · simp only [h1, h2, ↓reduceIte]
  simp only [h1, h2, ↓reduceIte]
  have hg := gramian_expr dlyap n m A B
  simp only [bind, pure, Except.pure] at hg
  rw [hg]
  simp only [Except.bind, generated_psdTol_eq, PMat.T_mk, PMat.matmul_mk, PMat.add_mk, PyNorm.trace_mk,
    PyNorm.isnan, h2Ext, decide_eq_true_eq, PyNorm.sqrt, Bool.false_eq_true, ↓reduceIte, throw, throwThe,
    MonadExceptOf.throw]
  rfl

/-- on a timebase the constructors accept, `G.isctime()` is the model's `isCtime`, and a system that
is not `isctime()` is `isdtime()` (the `elif` of the code is an `else`). -/
theorem isctime_model {d : Dt} (hv : d.valid) :
    DtPred.isctime false d = isCtime d ∧ (DtPred.isctime false d = false → DtPred.isdtime false d = true) := by
  cases d with
  | disc h =>
    have h0 : 0 < h := hv
    have : h ≠ 0 := ne_of_gt h0
    simp [isCtime, DtPred.isdtime, DtPred.isctime, this, h0]
  | _ => simp [isCtime, DtPred.isdtime, DtPred.isctime]

/-- **the H2 branch of `system_norm`** (matrix assignments + body of `if p == 2:`) as the source text
says it IS the model's `h2`, for every system, pole list and external routine. -/
theorem generated_h2_eq (lyap dlyap : PyNorm.LyapFun K) (eigvals : PMat K → List (Pole K))
    (sqrtEps : K) (fro : PMat K → K) (G : DSS K) (poles : List (Pole K)) (hv : G.dt.valid) :
    Generated.normH2 lyap dlyap eigvals sqrtEps fro G poles
      = h2 (h2Ext lyap dlyap eigvals sqrtEps fro G.n) G.dt G.sys poles := by
  obtain ⟨hm, hd⟩ := isctime_model hv
  unfold h2
  rw [← hm]
  by_cases hc : DtPred.isctime false G.dt = true
  · rw [if_pos hc]
    exact generated_h2cont_eq lyap dlyap eigvals sqrtEps fro G poles hc
  · have hc' : DtPred.isctime false G.dt = false := by simpa using hc
    rw [if_neg hc]
    exact generated_h2disc_eq lyap dlyap eigvals sqrtEps fro G poles hc' (hd hc')

/-- a negative sampling time (rejected by the constructors): neither `isctime()` nor `isdtime()`,
the code falls through both branches and returns `None`; the translation makes that an error. -/
theorem generated_h2_invalid_dt (lyap dlyap : PyNorm.LyapFun K) (eigvals : PMat K → List (Pole K))
    (sqrtEps : K) (fro : PMat K → K) (G : DSS K) (poles : List (Pole K)) (h : Rat) (hh : h < 0)
    (hdt : G.dt = .disc h) :
    Generated.normH2 lyap dlyap eigvals sqrtEps fro G poles = .error .badArg := by
  unfold Generated.normH2
  have h1 : ¬ (DtPred.isctime false G.dt = true) := by
    rw [hdt]; simp [DtPred.isctime, ne_of_lt hh]
  have h2 : ¬ (DtPred.isdtime false G.dt = true) := by
    rw [hdt]; simp [DtPred.isdtime, not_lt.mpr (le_of_lt hh)]
  simp only [bind, pure, Except.pure]
  rw [if_neg h1, if_neg h2]
  rfl

/-! ### the property's case analysis, for the function the source text defines -/

/-- **H2 case analysis, continuous time, of the generated function**: unless the Gramian precaution
fires, `inf` is returned exactly when some pole is not in the open left half plane or `D ≠ 0`. -/
theorem generated_h2_cases_cont (lyap dlyap : PyNorm.LyapFun K) (eigvals : PMat K → List (Pole K))
    (sqrtEps : K) (fro : PMat K → K) (G : DSS K) (poles : List (Pole K))
    (hc : DtPred.isctime false G.dt = true)
    (hne : (h2Ext lyap dlyap eigvals sqrtEps fro G.n).negEig (lyap G.n G.sys.A (G.sys.B * G.sys.Bᵀ)) = false) :
    Generated.normH2 lyap dlyap eigvals sqrtEps fro G poles = .ok .inf
      ↔ (¬ (∀ p ∈ poles, p.re < 0) ∨ G.sys.D ≠ 0) := by
  rw [generated_h2cont_eq lyap dlyap eigvals sqrtEps fro G poles hc]
  exact C16.h2_cases_cont _ G.sys poles hne

/-- **H2 case analysis, discrete time, of the generated function**: `inf` exactly when some pole is
not in the open unit disc (a direct term is allowed). -/
theorem generated_h2_cases_disc (lyap dlyap : PyNorm.LyapFun K) (eigvals : PMat K → List (Pole K))
    (sqrtEps : K) (fro : PMat K → K) (G : DSS K) (poles : List (Pole K))
    (hc : DtPred.isctime false G.dt = false) (hd : DtPred.isdtime false G.dt = true)
    (hne : (h2Ext lyap dlyap eigvals sqrtEps fro G.n).negEig (dlyap G.n G.sys.A (G.sys.B * G.sys.Bᵀ)) = false) :
    Generated.normH2 lyap dlyap eigvals sqrtEps fro G poles = .ok .inf
      ↔ ¬ (∀ p ∈ poles, p.absSq < 1) := by
  rw [generated_h2disc_eq lyap dlyap eigvals sqrtEps fro G poles hc hd]
  exact C16.h2_cases_disc _ G.sys poles hne

/-- model: a finite value of the continuous-time branch is `sqrt(trace(C P Cᵀ))`, radicand `≥ 0`. -/
theorem h2cont_sqrt_inv {σ ι o : Type} [Fintype σ] [Fintype ι] [Fintype o] (E : H2Ext σ K)
    (G : SS σ ι o K) (poles : List (Pole K)) (q : K) (h : h2cont E G poles = .ok (.sqrt q)) :
    q = trace (G.C * E.lyap G.A (G.B * G.Bᵀ) * G.Cᵀ) ∧ 0 ≤ q := by
  simp only [h2cont, h2tail] at h
  split_ifs at h with h1 h2 h3 h4 h5
  all_goals first
    | (cases h; done)
    | (simp only [Except.ok.injEq, H2Val.sqrt.injEq] at h; exact ⟨h.symm, h ▸ not_lt.mp h5⟩)

/-- model: a finite value of the discrete-time branch is `sqrt(trace(C P Cᵀ + D Dᵀ))`. -/
theorem h2disc_sqrt_inv {σ ι o : Type} [Fintype σ] [Fintype ι] [Fintype o] (E : H2Ext σ K)
    (G : SS σ ι o K) (poles : List (Pole K)) (q : K) (h : h2disc E G poles = .ok (.sqrt q)) :
    q = trace (G.C * E.dlyap G.A (G.B * G.Bᵀ) * G.Cᵀ + G.D * G.Dᵀ) ∧ 0 ≤ q := by
  simp only [h2disc, h2tail] at h
  split_ifs at h with h1 h2 h4 h5
  all_goals first
    | (cases h; done)
    | (simp only [Except.ok.injEq, H2Val.sqrt.injEq] at h; exact ⟨h.symm, h ▸ not_lt.mp h5⟩)

/-- whatever finite value the generated function returns in continuous time, it is
`sqrt(trace(C P Cᵀ))` with `P = lyap(A, B Bᵀ)`, and that radicand is non-negative. -/
theorem generated_h2_value_cont (lyap dlyap : PyNorm.LyapFun K) (eigvals : PMat K → List (Pole K))
    (sqrtEps : K) (fro : PMat K → K) (G : DSS K) (poles : List (Pole K))
    (hc : DtPred.isctime false G.dt = true) (q : K)
    (h : Generated.normH2 lyap dlyap eigvals sqrtEps fro G poles = .ok (.sqrt q)) :
    q = trace (G.sys.C * lyap G.n G.sys.A (G.sys.B * G.sys.Bᵀ) * G.sys.Cᵀ) ∧ 0 ≤ q := by
  rw [generated_h2cont_eq lyap dlyap eigvals sqrtEps fro G poles hc] at h
  exact h2cont_sqrt_inv (h2Ext lyap dlyap eigvals sqrtEps fro G.n) G.sys poles q h

/-- … in discrete time it is `sqrt(trace(C P Cᵀ + D Dᵀ))` with `P = dlyap(A, B Bᵀ)`. -/
theorem generated_h2_value_disc (lyap dlyap : PyNorm.LyapFun K) (eigvals : PMat K → List (Pole K))
    (sqrtEps : K) (fro : PMat K → K) (G : DSS K) (poles : List (Pole K))
    (hc : DtPred.isctime false G.dt = false) (hd : DtPred.isdtime false G.dt = true) (q : K)
    (h : Generated.normH2 lyap dlyap eigvals sqrtEps fro G poles = .ok (.sqrt q)) :
    q = trace (G.sys.C * dlyap G.n G.sys.A (G.sys.B * G.sys.Bᵀ) * G.sys.Cᵀ + G.sys.D * G.sys.Dᵀ) ∧ 0 ≤ q := by
  rw [generated_h2disc_eq lyap dlyap eigvals sqrtEps fro G poles hc hd] at h
  exact h2disc_sqrt_inv (h2Ext lyap dlyap eigvals sqrtEps fro G.n) G.sys poles q h

/-- **`dgramian_sum` for the generated function**: if the solver handed to the code satisfies the
discrete Lyapunov equation on the arguments the code passes, the radicand `q` the source-text
function returns is the partial sum of the squared ℓ2 norm of the impulse response
`D, CB, CAB, …, CA^{N-1}B` plus the remainder `trace(C A^N P (Aᵀ)^N Cᵀ)`, for every `N`. -/
theorem generated_h2_disc_partial_sums (lyap dlyap : PyNorm.LyapFun K) (eigvals : PMat K → List (Pole K))
    (sqrtEps : K) (fro : PMat K → K) (G : DSS K) (poles : List (Pole K))
    (hc : DtPred.isctime false G.dt = false) (hd : DtPred.isdtime false G.dt = true) (q : K)
    (h : Generated.normH2 lyap dlyap eigvals sqrtEps fro G poles = .ok (.sqrt q))
    (hP : G.sys.A * dlyap G.n G.sys.A (G.sys.B * G.sys.Bᵀ) * G.sys.Aᵀ
      - dlyap G.n G.sys.A (G.sys.B * G.sys.Bᵀ) + G.sys.B * G.sys.Bᵀ = 0) (N : ℕ) :
    trace (G.sys.D * G.sys.Dᵀ)
        + ∑ k ∈ Finset.range N, trace ((G.sys.C * G.sys.A ^ k * G.sys.B) * (G.sys.C * G.sys.A ^ k * G.sys.B)ᵀ)
      = q - trace (G.sys.C * (G.sys.A ^ N * dlyap G.n G.sys.A (G.sys.B * G.sys.Bᵀ) * G.sys.Aᵀ ^ N) * G.sys.Cᵀ) := by
  rw [(generated_h2_value_disc lyap dlyap eigvals sqrtEps fro G poles hc hd q h).1]
  exact C16.h2_disc_partial_sums G.sys _ hP N

/-! ### non-vacuity: `x⁺ = x/2 + u`, `y = x` (H2 norm `sqrt(4/3)`), and `x' = -x + u`, `y = x + u` -/

/-- a "solver" that is right on the examples below (`P = 4/3 · Q` solves `a p a − p + q = 0` for
`a = 1/2`). -/
def exLyap (c : ℚ) : PyNorm.LyapFun ℚ := fun _ _ Q => c • Q

/-- `x⁺ = x/2 + u`, `y = x`, `dt = True`. -/
def exGd : DSS ℚ := ⟨1, 1, 1, ⟨!![1/2], !![1], !![1], !![0]⟩, .dtrue⟩

theorem exGd_value : Generated.normH2 (exLyap (1/2)) (exLyap (4/3)) (fun _ => []) 0 (fun _ => 0)
    exGd [⟨1/2, 0⟩] = .ok (.sqrt (4/3)) := by
  unfold exGd
  rw [generated_h2disc_eq _ _ _ _ _ _ _ (by decide) (by decide)]
  norm_num [h2disc, h2tail, h2Ext, exLyap, onCircle, outsideDisc, Pole.absSq, PyNorm.any, PyNorm.lt,
    PyNorm.real, Matrix.trace, Matrix.vecMul, dotProduct]

-- `generated_h2_cases_cont`, right disjunct: a continuous-time system with a direct term
example : Generated.normH2 (exLyap (1/2)) (exLyap (4/3)) (fun _ => []) 0 (fun _ => 0)
    (⟨1, 1, 1, ⟨!![-1], !![1], !![1], !![1]⟩, .cont⟩ : DSS ℚ) [⟨-1, 0⟩] = .ok .inf := by
  rw [generated_h2_cases_cont _ _ _ _ _ _ _ (by decide) (by simp [h2Ext, PyNorm.any, PyNorm.lt, PyNorm.real])]
  right
  intro h
  have := congrFun (congrFun h 0) 0
  simp at this

theorem exLyap_solves :
    (!![1/2] : Matrix (Fin 1) (Fin 1) ℚ)
        * exLyap (4/3) 1 !![1/2] ((!![1] : Matrix (Fin 1) (Fin 1) ℚ) * (!![1] : Matrix (Fin 1) (Fin 1) ℚ)ᵀ)
        * (!![1/2] : Matrix (Fin 1) (Fin 1) ℚ)ᵀ
      - exLyap (4/3) 1 !![1/2] ((!![1] : Matrix (Fin 1) (Fin 1) ℚ) * (!![1] : Matrix (Fin 1) (Fin 1) ℚ)ᵀ)
      + (!![1] : Matrix (Fin 1) (Fin 1) ℚ) * (!![1] : Matrix (Fin 1) (Fin 1) ℚ)ᵀ = 0 := by
  ext i j
  fin_cases i; fin_cases j
  norm_num [exLyap, Matrix.mul_apply, Matrix.vecMul, dotProduct]

-- `generated_h2_disc_partial_sums` applies to the example: the solver satisfies the equation there
example (N : ℕ) := generated_h2_disc_partial_sums (exLyap (1/2)) (exLyap (4/3)) (fun _ => []) 0 (fun _ => 0)
    exGd [⟨1/2, 0⟩] (by decide) (by decide) (4/3) exGd_value exLyap_solves N

-- a system without states in discrete time: `sqrt(trace(D Dᵀ))`, the solver is not consulted
example : Generated.normH2 (exLyap 7) (exLyap 7) (fun _ => []) 0 (fun _ => 0)
    (⟨0, 1, 2, ⟨0, 0, 0, !![3, 4]⟩, .disc 1⟩ : DSS ℚ) [] = .ok (.sqrt 25) := by
  rw [generated_h2disc_eq _ _ _ _ _ _ _ (by decide) (by decide)]
  norm_num [h2disc, h2tail, h2Ext, exLyap, onCircle, outsideDisc, PyNorm.any, PyNorm.lt,
    PyNorm.real, Matrix.trace, Matrix.vecMul, dotProduct, Matrix.mul_apply, Fin.sum_univ_succ]

end CtrlVerif.C16Gen
