/-
C12 — Stability margins, crossover frequencies and bandwidth are genuine and complete.

Property theorems only (helper lemmas live in `Lemmas/Margins.lean`).  `K` is an arbitrary
(ordered) field, `Cx K` the complex numbers over it, `L(z) = num(z)/den(z)` the loop transfer
function given by NumPy coefficient lists.  The root finders are parameters: a theorem that needs
their contract states it as a hypothesis (`hroots` : everything returned is a root; `hcomplete` :
every admissible real root is returned).
-/
import CtrlVerif.Lemmas.MarginsZ
import CtrlVerif.Lemmas.MarginsReal
import Mathlib.Algebra.Order.Field.Rat
import Mathlib.Algebra.Order.Ring.Rat

namespace CtrlVerif.C12

open CtrlVerif CtrlVerif.Margins Polynomial

/-! ## 1. The three test polynomials (continuous time) -/

section polys
variable {K : Type*} [Field K] [DecidableEq K]

/-- `_poly_iw`: the two lists are the real and the imaginary part of `p(jω)`. -/
theorem poly_iw (p : List K) (w : K) :
    evalC p (jw w) = (⟨polyval (polyIw p).1 w, polyval (polyIw p).2 w⟩ : Cx K) :=
  evalC_jw p w

/-- `_poly_iw_real_crossing`: for real `ω` the test polynomial is `Im(N(jω)·conj D(jω))`. -/
theorem real_crossing_poly (num den : List K) (w : K) :
    polyval (realCrossingPoly num den) w = (evalC num (jw w) * conj (evalC den (jw w))).im := by
  rw [polyval_eq_eval, realCrossingPoly, toPoly_npsub, toPoly_npmul, toPoly_npmul, evalC_jw, evalC_jw]
  simp only [eval_sub, eval_mul, ← polyval_eq_eval, conj, QuadraticAlgebra.im_mul]
  ring

/-- `_poly_iw_mag1_crossing`: the test polynomial is `|N(jω)|² − |D(jω)|²`. -/
theorem mag1_poly (num den : List K) (w : K) :
    polyval (mag1Poly num den) w = normSq (evalC num (jw w)) - normSq (evalC den (jw w)) := by
  rw [polyval_eq_eval, mag1Poly, toPoly_npsub, toPoly_iwSqr, toPoly_iwSqr, evalC_jw, evalC_jw]
  simp only [eval_sub, eval_add, eval_mul, ← polyval_eq_eval, normSq]

/-- numerator and denominator of `|1 + L(jω)|² = |N + D|²/|D|²`. -/
theorem wstab_num_den (num den : List K) (w : K) :
    polyval (wstabN num den) w = normSq (evalC num (jw w) + evalC den (jw w)) ∧
    polyval (wstabD den) w = normSq (evalC den (jw w)) := by
  constructor
  · rw [polyval_eq_eval, wstabN, toPoly_iwSqr, toPoly_cadd_fst, toPoly_cadd_snd, evalC_jw, evalC_jw]
    simp only [eval_add, eval_mul, ← polyval_eq_eval, normSq, QuadraticAlgebra.re_add,
      QuadraticAlgebra.im_add]
  · rw [polyval_eq_eval, wstabD, toPoly_iwSqr, evalC_jw]
    simp only [eval_add, eval_mul, ← polyval_eq_eval, normSq]

/-- `_poly_iw_wstab`: the test polynomial is `n'·d − d'·n`, the numerator of the derivative of
`n/d = |1 + L(jω)|²` by the quotient rule. -/
theorem wstab_poly (num den : List K) :
    toPoly (wstabPoly num den) =
      derivative (toPoly (wstabN num den)) * toPoly (wstabD den)
        - derivative (toPoly (wstabD den)) * toPoly (wstabN num den) := by
  rw [wstabPoly, toPoly_npsub, toPoly_npmul, toPoly_npmul, toPoly_polyder, toPoly_polyder]

end polys

/-! ## 2. Roots of the test polynomials are exactly the crossings -/

section crossings
variable {K : Type*} [Field K] [LinearOrder K] [IsStrictOrderedRing K]

/-- where `L(jω)` exists, `ω` is a root of the real-crossing polynomial iff `L(jω)` is real. -/
theorem real_crossing_iff {num den : List K} {w : K} {r : Cx K}
    (h : respAt num den (jw w) = some r) :
    polyval (realCrossingPoly num den) w = 0 ↔ r.im = 0 := by
  obtain ⟨h0, hr⟩ := (respAt_eq_some_iff _ _ _ _).mp h
  rw [real_crossing_poly, hr]
  simp [h0]

/-- where `L(jω)` exists, `ω` is a root of the magnitude polynomial iff `|L(jω)| = 1`. -/
theorem mag1_crossing_iff {num den : List K} {w : K} {r : Cx K}
    (h : respAt num den (jw w) = some r) :
    polyval (mag1Poly num den) w = 0 ↔ normSq r = 1 := by
  obtain ⟨hD, hr⟩ := respAt_spec h
  have h0 : normSq (evalC den (jw w)) ≠ 0 := fun h1 => hD ((normSq_eq_zero_iff _).mp h1)
  rw [mag1_poly, ← hr, normSq_mul]
  constructor
  · intro he
    have : (normSq r - 1) * normSq (evalC den (jw w)) = 0 := by linear_combination he
    rcases mul_eq_zero.mp this with h1 | h1
    · linear_combination h1
    · exact absurd h1 h0
  · intro he; rw [he]; ring

/-- the value of the stability margin: `|1 + L(jω)|² = n(ω)/d(ω)`. -/
theorem stab_value {num den : List K} {w : K} {r : Cx K} (h : respAt num den (jw w) = some r) :
    normSq (r + 1) * polyval (wstabD den) w = polyval (wstabN num den) w ∧
      polyval (wstabD den) w ≠ 0 := by
  obtain ⟨hD, hr⟩ := respAt_spec h
  obtain ⟨hn, hd⟩ := wstab_num_den num den w
  rw [hn, hd, ← normSq_mul, add_mul, one_mul, hr]
  exact ⟨rfl, fun h1 => hD ((normSq_eq_zero_iff _).mp h1)⟩

/-! ### genuine / complete / sorted: phase crossings (gain margin) -/

/-- membership in the returned list, spelled out: the selection logic of `stability_margins`. -/
theorem mem_phaseCrossings {num den : List K} {epsw : K} {roots : List (Cx K)} {w : K} {r : Cx K} :
    (w, r) ∈ phaseCrossings num den epsw roots ↔
      (∃ z ∈ roots, z.im = 0 ∧ z.re = w) ∧ epsw ≤ w ∧ respAt num den (jw w) = some r ∧
        (r.re < 0 ∨ (r.re = 0 ∧ r.im ≤ 0)) := by
  unfold phaseCrossings realAxisCandidates
  rw [mem_sortByW, List.mem_filterMap]
  constructor
  · rintro ⟨c, hc, hsel⟩
    obtain ⟨w', hw', rfl⟩ := List.mem_map.mp hc
    rw [List.mem_filter, mem_realRoots] at hw'
    cases hresp : respAt num den (jw w') with
    | none => simp [hresp] at hsel
    | some r' =>
      simp only [hresp] at hsel
      by_cases hl : lexLe0 r' = true
      · simp only [hl, if_true, Option.some.injEq, Prod.mk.injEq] at hsel
        obtain ⟨rfl, rfl⟩ := hsel
        exact ⟨hw'.1, by simpa using hw'.2, hresp, (lexLe0_iff _).mp hl⟩
      · simp [hl] at hsel
  · rintro ⟨hz, hw, hresp, hl⟩
    refine ⟨(w, some r), List.mem_map.mpr ⟨w, ?_, by rw [hresp]⟩, ?_⟩
    · rw [List.mem_filter, mem_realRoots]; exact ⟨hz, by simpa using hw⟩
    · simp [(lexLe0_iff r).mpr hl]

/-- GENUINE: if everything the root finder returned is a root of the test polynomial, every returned
pair `(ω, r)` is a frequency `ω ≥ epsw` where the loop response exists, equals `r`, is real and
non-positive (so `gm = 1/|r|` satisfies `|L(jω)| = 1/gm`). -/
theorem phase_crossing_genuine {num den : List K} {epsw : K} {roots : List (Cx K)}
    (hroots : ∀ z ∈ roots, evalC (realCrossingPoly num den) z = 0) {w : K} {r : Cx K}
    (h : (w, r) ∈ phaseCrossings num den epsw roots) :
    epsw ≤ w ∧ evalC den (jw w) ≠ 0 ∧ r * evalC den (jw w) = evalC num (jw w) ∧
      r.im = 0 ∧ r.re ≤ 0 := by
  obtain ⟨⟨z, hz, hzi, hzr⟩, hw, hresp, hl⟩ := mem_phaseCrossings.mp h
  obtain ⟨hD, hr⟩ := respAt_spec hresp
  have hzC : z = QuadraticAlgebra.C w := by ext <;> simp [hzi, hzr]
  have hroot : polyval (realCrossingPoly num den) w = 0 := by
    have := hroots z hz
    rw [hzC, evalC_real] at this
    exact QuadraticAlgebra.C_eq_zero_iff.mp this
  have him : r.im = 0 := (real_crossing_iff hresp).mp hroot
  refine ⟨hw, hD, hr, him, ?_⟩
  rcases hl with hl | hl
  · exact le_of_lt hl
  · exact le_of_eq hl.1

/-- COMPLETE (`returnall`): if the root finder returns every real root `≥ epsw` of the test
polynomial, then every frequency `ω ≥ epsw` at which the loop response exists and is real and
non-positive is reported, with that response. -/
theorem phase_crossing_complete {num den : List K} {epsw : K} {roots : List (Cx K)}
    (hcomplete : ∀ w, epsw ≤ w → polyval (realCrossingPoly num den) w = 0 →
      (QuadraticAlgebra.C w : Cx K) ∈ roots)
    {w : K} {r : Cx K} (hw : epsw ≤ w) (hD : evalC den (jw w) ≠ 0)
    (hr : r * evalC den (jw w) = evalC num (jw w)) (him : r.im = 0) (hre : r.re ≤ 0) :
    (w, r) ∈ phaseCrossings num den epsw roots := by
  have hresp := respAt_of_mul_eq hD hr
  have hroot := (real_crossing_iff hresp).mpr him
  refine mem_phaseCrossings.mpr ⟨⟨_, hcomplete w hw hroot, by simp, by simp⟩, hw, hresp, ?_⟩
  rcases lt_or_eq_of_le hre with h | h
  · exact Or.inl h
  · exact Or.inr ⟨h, le_of_eq him⟩

/-- the reported phase crossings are sorted by frequency. -/
theorem phase_crossings_sorted (num den : List K) (epsw : K) (roots : List (Cx K)) :
    (phaseCrossings num den epsw roots).Pairwise fun a b => a.1 ≤ b.1 :=
  sortByW_sorted _

/-! ### gain crossings (phase margin) -/

theorem mem_gainCrossings {num den : List K} {epsw : K} {roots : List (Cx K)} {w : K}
    {r : Option (Cx K)} :
    (w, r) ∈ gainCrossings num den epsw roots ↔
      (∃ z ∈ roots, z.im = 0 ∧ z.re = w) ∧ epsw < w ∧ respAt num den (jw w) = r := by
  unfold gainCrossings
  rw [mem_sortByW, List.mem_map]
  constructor
  · rintro ⟨w', hw', he⟩
    rw [List.mem_filter, mem_realRoots] at hw'
    simp only [Prod.mk.injEq] at he
    obtain ⟨rfl, rfl⟩ := he
    exact ⟨hw'.1, by simpa using hw'.2, rfl⟩
  · rintro ⟨hz, hw, rfl⟩
    exact ⟨w, by rw [List.mem_filter, mem_realRoots]; exact ⟨hz, by simpa using hw⟩, rfl⟩

/-- GENUINE: every returned `(ω, r)` is a frequency `ω > epsw` with `|L(jω)| = 1`, `r = L(jω)`
(the phase margin is `arg r + 180°`). -/
theorem gain_crossing_genuine {num den : List K} {epsw : K} {roots : List (Cx K)}
    (hroots : ∀ z ∈ roots, evalC (mag1Poly num den) z = 0) {w : K} {r : Cx K}
    (h : (w, some r) ∈ gainCrossings num den epsw roots) :
    epsw < w ∧ evalC den (jw w) ≠ 0 ∧ r * evalC den (jw w) = evalC num (jw w) ∧ normSq r = 1 := by
  obtain ⟨⟨z, hz, hzi, hzr⟩, hw, hresp⟩ := mem_gainCrossings.mp h
  obtain ⟨hD, hr⟩ := respAt_spec hresp
  have hzC : z = QuadraticAlgebra.C w := by ext <;> simp [hzi, hzr]
  have hroot : polyval (mag1Poly num den) w = 0 := by
    have := hroots z hz
    rw [hzC, evalC_real] at this
    exact QuadraticAlgebra.C_eq_zero_iff.mp this
  exact ⟨hw, hD, hr, (mag1_crossing_iff hresp).mp hroot⟩

/-- COMPLETE: every frequency `ω > epsw` with `|L(jω)| = 1` is reported. -/
theorem gain_crossing_complete {num den : List K} {epsw : K} {roots : List (Cx K)}
    (hcomplete : ∀ w, epsw < w → polyval (mag1Poly num den) w = 0 →
      (QuadraticAlgebra.C w : Cx K) ∈ roots)
    {w : K} {r : Cx K} (hw : epsw < w) (hD : evalC den (jw w) ≠ 0)
    (hr : r * evalC den (jw w) = evalC num (jw w)) (h1 : normSq r = 1) :
    (w, some r) ∈ gainCrossings num den epsw roots := by
  have hresp := respAt_of_mul_eq hD hr
  have hroot := (mag1_crossing_iff hresp).mpr h1
  exact mem_gainCrossings.mpr ⟨⟨_, hcomplete w hw hroot, by simp, by simp⟩, hw, hresp⟩

theorem gain_crossings_sorted (num den : List K) (epsw : K) (roots : List (Cx K)) :
    (gainCrossings num den epsw roots).Pairwise fun a b => a.1 ≤ b.1 :=
  sortByW_sorted _

/-! ### stationary points of `|1 + L(jω)|` (stability margin) -/

theorem mem_stabCrossings {num den : List K} {epsw : K} {roots : List (Cx K)} {w : K}
    {r : Option (Cx K)} :
    (w, r) ∈ stabCrossings num den epsw roots ↔
      (∃ z ∈ roots, z.im = 0 ∧ z.re = w) ∧ epsw < w ∧
        0 < polyval (polyder (wstabPoly num den)) w ∧ respAt num den (jw w) = r := by
  unfold stabCrossings
  rw [mem_sortByW, List.mem_map]
  constructor
  · rintro ⟨w', hw', he⟩
    rw [List.mem_filter, List.mem_filter, mem_realRoots] at hw'
    simp only [Prod.mk.injEq] at he
    obtain ⟨rfl, rfl⟩ := he
    exact ⟨hw'.1.1, by simpa using hw'.1.2, by simpa using hw'.2, rfl⟩
  · rintro ⟨hz, hw, hd, rfl⟩
    refine ⟨w, ?_, rfl⟩
    rw [List.mem_filter, List.mem_filter, mem_realRoots]
    exact ⟨⟨hz, by simpa using hw⟩, by simpa using hd⟩

/-- GENUINE: every returned `(ω, r)` is a stationary point of `n/d = |1+L(jω)|²` (root of
`n'd − d'n`) at which the derivative of `n'd − d'n` is positive (a strict local minimum), with
`r = L(jω)` and `|1 + r|² = n(ω)/d(ω)`. -/
theorem stab_crossing_genuine {num den : List K} {epsw : K} {roots : List (Cx K)}
    (hroots : ∀ z ∈ roots, evalC (wstabPoly num den) z = 0) {w : K} {r : Cx K}
    (h : (w, some r) ∈ stabCrossings num den epsw roots) :
    epsw < w ∧ polyval (wstabPoly num den) w = 0 ∧ 0 < polyval (polyder (wstabPoly num den)) w ∧
      r * evalC den (jw w) = evalC num (jw w) ∧
      normSq (r + 1) * polyval (wstabD den) w = polyval (wstabN num den) w := by
  obtain ⟨⟨z, hz, hzi, hzr⟩, hw, hd, hresp⟩ := mem_stabCrossings.mp h
  have hzC : z = QuadraticAlgebra.C w := by ext <;> simp [hzi, hzr]
  have hroot : polyval (wstabPoly num den) w = 0 := by
    have := hroots z hz
    rw [hzC, evalC_real] at this
    exact QuadraticAlgebra.C_eq_zero_iff.mp this
  exact ⟨hw, hroot, hd, (respAt_spec hresp).2, (stab_value hresp).1⟩

/-- COMPLETE: every stationary point `ω > epsw` with positive derivative of the test polynomial,
where the response exists, is reported. -/
theorem stab_crossing_complete {num den : List K} {epsw : K} {roots : List (Cx K)}
    (hcomplete : ∀ w, epsw < w → polyval (wstabPoly num den) w = 0 →
      (QuadraticAlgebra.C w : Cx K) ∈ roots)
    {w : K} {r : Cx K} (hw : epsw < w) (hroot : polyval (wstabPoly num den) w = 0)
    (hd : 0 < polyval (polyder (wstabPoly num den)) w) (hD : evalC den (jw w) ≠ 0)
    (hr : r * evalC den (jw w) = evalC num (jw w)) :
    (w, some r) ∈ stabCrossings num den epsw roots :=
  mem_stabCrossings.mpr ⟨⟨_, hcomplete w hw hroot, by simp, by simp⟩, hw, hd, respAt_of_mul_eq hD hr⟩

end crossings

/-! ## 3. The default return is the smallest margin of each kind -/

section defaults
variable {K : Type*} [Field K] [LinearOrder K] [IsStrictOrderedRing K] {α : Type*}

/-- default gain margin: a reported crossing with finite `GM` whose `|log GM|` (ordered by
`gmKey = max(|r|², 1/|r|²)`) is smallest among all reported crossings; the first such one. -/
theorem default_gm_min (l : List (α × Cx K)) (c : α × Cx K) (h : defaultGm l = some c) :
    c ∈ l ∧ normSq c.2 ≠ 0 ∧ ∀ c' ∈ l, gmKey c.2 ≤ gmKey c'.2 := by
  obtain ⟨hm, hmin⟩ := argminBy_min _ _ _ h
  rw [List.mem_filter] at hm
  have hc : normSq c.2 ≠ 0 := by simpa using hm.2
  refine ⟨hm.1, hc, ?_⟩
  intro c' hc'
  by_cases h0 : normSq c'.2 = 0
  · simp [gmKey, h0]
  · exact hmin c' (List.mem_filter.mpr ⟨hc', by simpa using h0⟩)

/-- the default gain margin is `inf` (with frequency `nan`) exactly when no crossing has a finite one. -/
theorem default_gm_none (l : List (α × Cx K)) :
    defaultGm l = none ↔ ∀ c ∈ l, normSq c.2 = 0 := by
  unfold defaultGm
  rw [argminBy_eq_none, List.filter_eq_nil_iff]
  simp

/-- `gmKey` orders by `|log GM|`: it is `max(GM², GM⁻²)`. -/
theorem gmKey_le_iff (r r' : Cx K) (h : normSq r ≠ 0) (h' : normSq r' ≠ 0) :
    gmKey r ≤ gmKey r' ↔ max (normSq r) (normSq r)⁻¹ ≤ max (normSq r') (normSq r')⁻¹ := by
  simp [gmKey, h, h']

/-- default phase margin: the reported gain crossing with the smallest `pmKey` (smallest `|PM|`). -/
theorem default_pm_min (l : List (α × Cx K)) (c : α × Cx K) (h : defaultPm l = some c) :
    c ∈ l ∧ ∀ c' ∈ l, pmKey c.2 ≤ pmKey c'.2 :=
  argminBy_min _ _ _ h

/-- default stability margin: the reported minimum with the smallest `|1 + r|`. -/
theorem default_sm_min (l : List (α × Cx K)) (c : α × Cx K) (h : defaultSm l = some c) :
    c ∈ l ∧ ∀ c' ∈ l, normSq (c.2 + 1) ≤ normSq (c'.2 + 1) :=
  argminBy_min _ _ _ h

/-- the default phase / stability margin is `inf` exactly when nothing was found. -/
theorem default_pm_sm_none (l : List (α × Cx K)) :
    (defaultPm l = none ↔ l = []) ∧ (defaultSm l = none ↔ l = []) :=
  ⟨argminBy_eq_none _ _, argminBy_eq_none _ _⟩

/-- on the unit circle `pmKey` is `re·|re|`: it increases with the angle between `r` and the
negative real axis, i.e. with `|PM|` (`-1 ↦ -1`, `±i ↦ 0`, `1 ↦ 1`). -/
theorem pmKey_unit (r : Cx K) (h : normSq r = 1) : pmKey r = r.re * |r.re| := by
  simp [pmKey, h]

end defaults

/-! ## 4. Bandwidth -/

section bandwidth
variable {K : Type*} [Field K] [LinearOrder K] [IsStrictOrderedRing K]

/-- `bandwidth` rejects a non-negative `dbdrop`. -/
theorem bandwidth_nonneg_dbdrop_raises (num den : List K) (p0 dbdrop thr : K) (grid : List (Cx K))
    (h : 0 ≤ dbdrop) : bandwidth num den p0 dbdrop thr grid = .error .badArg := by
  simp [bandwidth, h]

/-- `bandwidth_def`: when a bracket `k` is returned (the bisection then runs between grid points
`k-1` and `k`), the DC gain `g` is finite, sample `k` is the FIRST sample whose gain is below
`|g|·thr`, `thr = 10^(dbdrop/20)`. -/
theorem bandwidth_bracket (num den : List K) (p0 dbdrop thr : K) (grid : List (Cx K)) (k : Nat)
    (h : bandwidth num den p0 dbdrop thr grid = .ok (.bracket k)) :
    dbdrop < 0 ∧ ∃ g, dcGain num den p0 = .finite g ∧ ∃ hk : k < grid.length,
      Dropped num den ((|g| * thr) * (|g| * thr)) grid[k] ∧
      ∀ j (hj : j < k), ¬ Dropped num den ((|g| * thr) * (|g| * thr)) (grid[j]'(lt_trans hj hk)) := by
  unfold bandwidth at h
  by_cases hdb : 0 ≤ dbdrop
  · simp [hdb] at h
  · simp only [hdb, if_false] at h
    refine ⟨lt_of_not_ge hdb, ?_⟩
    cases hg : dcGain num den p0 with
    | infinite => simp [hg] at h
    | indeterminate => simp [hg] at h
    | finite g =>
      simp only [hg] at h
      cases hf : firstDrop num den ((|g| * thr) * (|g| * thr)) grid 0 with
      | none => simp [hf] at h
      | some k' =>
        simp only [hf, Except.ok.injEq, BwResult.bracket.injEq] at h
        subst h
        obtain ⟨i, hi, hlt, hd, hn⟩ := firstDrop_some _ _ _ _ _ _ hf
        have : k' = i := by omega
        subst this
        exact ⟨g, rfl, hlt, hd, hn⟩

/-- `inf` is returned only when no sample drops below the threshold (or the DC gain is `0/0`). -/
theorem bandwidth_inf (num den : List K) (p0 dbdrop thr : K) (grid : List (Cx K))
    (h : bandwidth num den p0 dbdrop thr grid = .ok .inf) :
    dcGain num den p0 = .indeterminate ∨ ∃ g, dcGain num den p0 = .finite g ∧
      ∀ z ∈ grid, ¬ Dropped num den ((|g| * thr) * (|g| * thr)) z := by
  unfold bandwidth at h
  by_cases hdb : 0 ≤ dbdrop
  · simp [hdb] at h
  · simp only [hdb, if_false] at h
    cases hg : dcGain num den p0 with
    | infinite => simp [hg] at h
    | indeterminate => exact Or.inl rfl
    | finite g =>
      simp only [hg] at h
      cases hf : firstDrop num den ((|g| * thr) * (|g| * thr)) grid 0 with
      | none => exact Or.inr ⟨g, rfl, firstDrop_none _ _ _ _ _ hf⟩
      | some k' => simp [hf] at h

/-- `nan` is returned exactly for an infinite DC gain (pole at the DC point, non-zero numerator). -/
theorem bandwidth_nan_iff (num den : List K) (p0 dbdrop thr : K) (grid : List (Cx K)) :
    bandwidth num den p0 dbdrop thr grid = .ok .nan ↔
      dbdrop < 0 ∧ polyval den p0 = 0 ∧ polyval num p0 ≠ 0 := by
  unfold bandwidth dcGain
  by_cases hdb : 0 ≤ dbdrop
  · simp [hdb, not_lt.mpr hdb]
  · simp only [hdb, if_false, lt_of_not_ge hdb, true_and]
    by_cases hd : polyval den p0 = 0
    · by_cases hn : polyval num p0 = 0
      · simp [hd, hn]
      · simp [hd, hn]
    · simp only [hd, if_false, false_and, iff_false]
      cases firstDrop num den _ grid 0 <;> simp

/-- the bandwidth does not depend on the sign of the loop gain (it is defined through the
magnitude of the DC gain). -/
theorem bandwidth_neg_num (num den : List K) (p0 dbdrop thr : K) (grid : List (Cx K)) :
    bandwidth (pneg num) den p0 dbdrop thr grid = bandwidth num den p0 dbdrop thr grid := by
  unfold bandwidth
  rw [dcGain_pneg]
  cases dcGain num den p0 with
  | infinite => rfl
  | indeterminate => rfl
  | finite g => simp only [DcGain.neg, abs_neg, firstDrop_pneg]

end bandwidth

/-! ## 5. Discrete time -/

section discrete
variable {K : Type*} [Field K] [LinearOrder K] [IsStrictOrderedRing K]

/-- `_poly_z_invz` raises for a non-proper transfer function. -/
theorem z_nonproper_raises (num den : List K) (h : den.length < num.length) :
    zProper num den = .error .nonProper := by
  simp [zProper, h]

/-- `_poly_z_real_crossing`: for `z·zi = 1` (on the unit circle `zi = conj z = 1/z`) and a proper
transfer function the test polynomial is `z^q·(N(z)D(1/z) − N(1/z)D(z))`. -/
theorem z_real_crossing_poly (z zi : Cx K) (h : z * zi = 1) (a b : K) (nt dt : List K)
    (hpq : nt.length ≤ dt.length) :
    evalC (zRealCrossingPoly (a :: nt) (b :: dt)) z =
      z ^ dt.length * (evalC (a :: nt) z * evalC (b :: dt) zi - evalC (a :: nt) zi * evalC (b :: dt) z) :=
  evalC_zRealCrossingPoly z zi h a b nt dt hpq

/-- `_poly_z_mag1_crossing`: the test polynomial is `z^q·(N(z)N(1/z) − D(z)D(1/z))`. -/
theorem z_mag1_poly (z zi : Cx K) (h : z * zi = 1) (a b : K) (nt dt : List K)
    (hpq : nt.length ≤ dt.length) :
    evalC (zMag1Poly (a :: nt) (b :: dt)) z =
      z ^ dt.length * (evalC (a :: nt) z * evalC (a :: nt) zi - evalC (b :: dt) z * evalC (b :: dt) zi) :=
  evalC_zMag1Poly z zi h a b nt dt hpq

/-- on the unit circle, where `L(z)` exists: `z` is a root of the real-crossing polynomial iff
`L(z)` is real. -/
theorem z_real_crossing_iff {z r : Cx K} (hz : normSq z = 1) {a b : K} {nt dt : List K}
    (hpq : nt.length ≤ dt.length) (h : respAt (a :: nt) (b :: dt) z = some r) :
    evalC (zRealCrossingPoly (a :: nt) (b :: dt)) z = 0 ↔ r.im = 0 := by
  have hu := mul_conj_of_normSq_one z hz
  obtain ⟨h0, hr⟩ := (respAt_eq_some_iff _ _ _ _).mp h
  rw [evalC_zRealCrossingPoly z (conj z) hu a b nt dt hpq, pow_mul_eq_zero_iff_of_unit z (conj z) _ hu,
    evalC_conj, evalC_conj, sub_conj_swap, hr]
  constructor
  · intro he
    have := congrArg QuadraticAlgebra.im he
    simp only [QuadraticAlgebra.im_zero] at this
    have h2 : (evalC (a :: nt) z * conj (evalC (b :: dt) z)).im = 0 := by
      rcases mul_eq_zero.mp this with h2 | h2
      · norm_num at h2
      · exact h2
    simp [h2]
  · intro he
    have h2 : (evalC (a :: nt) z * conj (evalC (b :: dt) z)).im = 0 := by
      simpa [h0] using he
    rw [h2]; ext <;> simp

/-- on the unit circle, where `L(z)` exists: `z` is a root of the magnitude polynomial iff `|L(z)| = 1`. -/
theorem z_mag1_crossing_iff {z r : Cx K} (hz : normSq z = 1) {a b : K} {nt dt : List K}
    (hpq : nt.length ≤ dt.length) (h : respAt (a :: nt) (b :: dt) z = some r) :
    evalC (zMag1Poly (a :: nt) (b :: dt)) z = 0 ↔ normSq r = 1 := by
  have hu := mul_conj_of_normSq_one z hz
  obtain ⟨hD, hr⟩ := respAt_spec h
  have h0 : normSq (evalC (b :: dt) z) ≠ 0 := fun h1 => hD ((normSq_eq_zero_iff _).mp h1)
  rw [evalC_zMag1Poly z (conj z) hu a b nt dt hpq, pow_mul_eq_zero_iff_of_unit z (conj z) _ hu,
    evalC_conj, evalC_conj, mul_conj_sub, QuadraticAlgebra.C_eq_zero_iff, ← hr, normSq_mul]
  constructor
  · intro he
    have : (normSq r - 1) * normSq (evalC (b :: dt) z) = 0 := by linear_combination he
    rcases mul_eq_zero.mp this with h1 | h1
    · linear_combination h1
    · exact absurd h1 h0
  · intro he; rw [he]; ring

/-- membership in the discrete phase-crossing list: the selection logic (`_z_filter`, `resp <= 0`). -/
theorem mem_zPhaseCrossings {num den : List K} {eps : K} {roots : List (Cx K)} {z r : Cx K} :
    (z, r) ∈ zPhaseCrossings num den eps roots ↔
      z ∈ roots ∧ inBand eps z = true ∧ upperHalf z = true ∧ respAt num den z = some r ∧
        (r.re < 0 ∨ (r.re = 0 ∧ r.im ≤ 0)) := by
  unfold zPhaseCrossings zRealAxisCandidates zFilter
  rw [mem_sortByAng, List.mem_filterMap]
  constructor
  · rintro ⟨c, hc, hsel⟩
    obtain ⟨z', hz', rfl⟩ := List.mem_map.mp hc
    rw [List.mem_filter, Bool.and_eq_true] at hz'
    cases hresp : respAt num den z' with
    | none => simp [hresp] at hsel
    | some r' =>
      simp only [hresp] at hsel
      by_cases hl : lexLe0 r' = true
      · simp only [hl, if_true, Option.some.injEq, Prod.mk.injEq] at hsel
        obtain ⟨rfl, rfl⟩ := hsel
        exact ⟨hz'.1, hz'.2.1, hz'.2.2, hresp, (lexLe0_iff _).mp hl⟩
      · simp [hl] at hsel
  · rintro ⟨hz, hb, hu, hresp, hl⟩
    refine ⟨(z, some r), List.mem_map.mpr ⟨z, ?_, by rw [hresp]⟩, ?_⟩
    · rw [List.mem_filter, Bool.and_eq_true]; exact ⟨hz, hb, hu⟩
    · simp [(lexLe0_iff r).mpr hl]

/-- GENUINE (discrete): a reported `(z, r)` that lies exactly on the unit circle is a point with
`0 ≤ arg z < π` where the loop response exists, equals `r`, is real and non-positive. -/
theorem z_phase_crossing_genuine {a b : K} {nt dt : List K} (hpq : nt.length ≤ dt.length) {eps : K}
    {roots : List (Cx K)}
    (hroots : ∀ z ∈ roots, evalC (zRealCrossingPoly (a :: nt) (b :: dt)) z = 0) {z r : Cx K}
    (h : (z, r) ∈ zPhaseCrossings (a :: nt) (b :: dt) eps roots) (hz : normSq z = 1) :
    upperHalf z = true ∧ r * evalC (b :: dt) z = evalC (a :: nt) z ∧ r.im = 0 ∧ r.re ≤ 0 := by
  obtain ⟨hzr, _, hu, hresp, hl⟩ := mem_zPhaseCrossings.mp h
  have him := (z_real_crossing_iff hz hpq hresp).mp (hroots z hzr)
  refine ⟨hu, (respAt_spec hresp).2, him, ?_⟩
  rcases hl with hl | hl
  · exact le_of_lt hl
  · exact le_of_eq hl.1

/-- COMPLETE (discrete): every point of the unit circle with `0 ≤ arg z < π` at which the loop
response is real and non-positive is reported, if the root finder returns every root of the
test polynomial on that arc (`0 < eps`). -/
theorem z_phase_crossing_complete {a b : K} {nt dt : List K} (hpq : nt.length ≤ dt.length) {eps : K}
    (heps : 0 < eps) {roots : List (Cx K)}
    (hcomplete : ∀ z, normSq z = 1 → upperHalf z = true →
      evalC (zRealCrossingPoly (a :: nt) (b :: dt)) z = 0 → z ∈ roots)
    {z r : Cx K} (hz : normSq z = 1) (hu : upperHalf z = true) (hD : evalC (b :: dt) z ≠ 0)
    (hr : r * evalC (b :: dt) z = evalC (a :: nt) z) (him : r.im = 0) (hre : r.re ≤ 0) :
    (z, r) ∈ zPhaseCrossings (a :: nt) (b :: dt) eps roots := by
  have hresp := respAt_of_mul_eq hD hr
  have hroot := (z_real_crossing_iff hz hpq hresp).mpr him
  refine mem_zPhaseCrossings.mpr ⟨hcomplete z hz hu hroot, ?_, hu, hresp, ?_⟩
  · simp only [inBand, hz, Bool.and_eq_true, Bool.or_eq_true, decide_eq_true_eq]
    refine ⟨⟨heps, by nlinarith⟩, ?_⟩
    by_cases h1 : 1 - eps < 0
    · exact Or.inl h1
    · right; nlinarith
  · rcases lt_or_eq_of_le hre with h | h
    · exact Or.inl h
    · exact Or.inr ⟨h, le_of_eq him⟩

/-- membership in the discrete gain-crossing list (`_z_filter`, `w > 0`, i.e. `im z > 0`). -/
theorem mem_zGainCrossings {num den : List K} {eps : K} {roots : List (Cx K)} {z : Cx K}
    {r : Option (Cx K)} :
    (z, r) ∈ zGainCrossings num den eps roots ↔
      z ∈ roots ∧ inBand eps z = true ∧ upperHalf z = true ∧ 0 < z.im ∧ respAt num den z = r := by
  unfold zGainCrossings zFilter
  rw [mem_sortByAng, List.mem_map]
  constructor
  · rintro ⟨z', hz', he⟩
    rw [List.mem_filter, List.mem_filter, Bool.and_eq_true] at hz'
    simp only [Prod.mk.injEq] at he
    obtain ⟨rfl, rfl⟩ := he
    exact ⟨hz'.1.1, hz'.1.2.1, hz'.1.2.2, by simpa using hz'.2, rfl⟩
  · rintro ⟨hz, hb, hu, him, rfl⟩
    refine ⟨z, ?_, rfl⟩
    rw [List.mem_filter, List.mem_filter, Bool.and_eq_true]
    exact ⟨⟨hz, hb, hu⟩, by simpa using him⟩

/-- GENUINE (discrete): a reported gain crossing on the unit circle has `|L(z)| = 1`, `r = L(z)`,
and lies strictly inside the upper half plane (`0 < ω < π/dt`). -/
theorem z_gain_crossing_genuine {a b : K} {nt dt : List K} (hpq : nt.length ≤ dt.length) {eps : K}
    {roots : List (Cx K)}
    (hroots : ∀ z ∈ roots, evalC (zMag1Poly (a :: nt) (b :: dt)) z = 0) {z r : Cx K}
    (h : (z, some r) ∈ zGainCrossings (a :: nt) (b :: dt) eps roots) (hz : normSq z = 1) :
    0 < z.im ∧ r * evalC (b :: dt) z = evalC (a :: nt) z ∧ normSq r = 1 := by
  obtain ⟨hzr, _, _, him, hresp⟩ := mem_zGainCrossings.mp h
  exact ⟨him, (respAt_spec hresp).2, (z_mag1_crossing_iff hz hpq hresp).mp (hroots z hzr)⟩

/-- COMPLETE (discrete): every point of the open upper unit semicircle with `|L(z)| = 1` is reported. -/
theorem z_gain_crossing_complete {a b : K} {nt dt : List K} (hpq : nt.length ≤ dt.length) {eps : K}
    (heps : 0 < eps) {roots : List (Cx K)}
    (hcomplete : ∀ z, normSq z = 1 → 0 < z.im →
      evalC (zMag1Poly (a :: nt) (b :: dt)) z = 0 → z ∈ roots)
    {z r : Cx K} (hz : normSq z = 1) (him : 0 < z.im) (hD : evalC (b :: dt) z ≠ 0)
    (hr : r * evalC (b :: dt) z = evalC (a :: nt) z) (h1 : normSq r = 1) :
    (z, some r) ∈ zGainCrossings (a :: nt) (b :: dt) eps roots := by
  have hresp := respAt_of_mul_eq hD hr
  have hroot := (z_mag1_crossing_iff hz hpq hresp).mpr h1
  refine mem_zGainCrossings.mpr ⟨hcomplete z hz him hroot, ?_, ?_, him, hresp⟩
  · simp only [inBand, hz, Bool.and_eq_true, Bool.or_eq_true, decide_eq_true_eq]
    refine ⟨⟨heps, by nlinarith⟩, ?_⟩
    by_cases h1 : 1 - eps < 0
    · exact Or.inl h1
    · right; nlinarith
  · simp [upperHalf, him]

/-- discrete crossings are reported in the order of increasing `arg z` (key `-re·|re|/|z|²`). -/
theorem z_crossings_sorted (num den : List K) (eps : K) (roots : List (Cx K)) :
    ((zPhaseCrossings num den eps roots).Pairwise fun a b => angKey a.1 ≤ angKey b.1) ∧
    ((zGainCrossings num den eps roots).Pairwise fun a b => angKey a.1 ≤ angKey b.1) :=
  ⟨sortByAng_sorted _, sortByAng_sorted _⟩

/-- membership in the witness list: exactly the candidates on the unit circle where `L` exists. -/
theorem mem_circleWitnesses {num den : List K} {ws : List (Cx K)} {z r : Cx K} :
    (z, r) ∈ circleWitnesses num den ws ↔ z ∈ ws ∧ normSq z = 1 ∧ respAt num den z = some r := by
  unfold circleWitnesses
  rw [List.mem_filterMap]
  constructor
  · rintro ⟨a, ha, h⟩
    by_cases h1 : normSq a = 1
    · simp only [h1, if_true, Option.map_eq_some_iff, Prod.mk.injEq] at h
      obtain ⟨r', hr', rfl, rfl⟩ := h
      exact ⟨ha, h1, hr'⟩
    · simp [h1] at h
  · rintro ⟨hz, h1, hr⟩
    exact ⟨z, hz, by simp [h1, hr]⟩

/-- the discrete stability margin check is exact: the reported response `r` is refuted precisely
when one of the candidates lies on the unit circle and has a strictly smaller `|1 + L|`. -/
theorem z_sm_refuted_iff (num den : List K) (ws : List (Cx K)) (r : Cx K) :
    smRefuted num den ws r = true ↔
      ∃ z ∈ ws, normSq z = 1 ∧ ∃ r', respAt num den z = some r' ∧
        normSq (r' + 1) < normSq (r + 1) := by
  unfold smRefuted bestWitness
  constructor
  · intro h
    cases hb : argminBy (fun c : Cx K × Cx K => smKey c.2) (circleWitnesses num den ws) with
    | none => simp [hb] at h
    | some w =>
      rw [hb] at h
      have hlt : smKey w.2 < smKey r := by simpa using h
      obtain ⟨hm, -⟩ := argminBy_min _ _ _ hb
      obtain ⟨hz, h1, hr⟩ := mem_circleWitnesses.mp (show (w.1, w.2) ∈ _ from hm)
      exact ⟨w.1, hz, h1, w.2, hr, hlt⟩
  · rintro ⟨z, hz, h1, r', hr, hlt⟩
    have hmem : (z, r') ∈ circleWitnesses num den ws := mem_circleWitnesses.mpr ⟨hz, h1, hr⟩
    cases hb : argminBy (fun c : Cx K × Cx K => smKey c.2) (circleWitnesses num den ws) with
    | none =>
      rw [argminBy_eq_none] at hb
      rw [hb] at hmem
      simp at hmem
    | some w =>
      obtain ⟨-, hmin⟩ := argminBy_min _ _ _ hb
      have hle : smKey w.2 ≤ smKey r' := hmin (z, r') hmem
      have : smKey w.2 < smKey r := lt_of_le_of_lt hle hlt
      simpa using this

/-- a refuted stability margin is not the minimum of `|1 + L|` over the unit circle (whatever
`scipy.optimize.minimize` returned, and whatever search range it was given). -/
theorem z_sm_refuted_not_min (num den : List K) (ws : List (Cx K)) (r : Cx K)
    (h : smRefuted num den ws r = true) : ¬ CircleMin num den r := by
  obtain ⟨z, -, h1, r', hr, hlt⟩ := (z_sm_refuted_iff num den ws r).mp h
  intro hmin
  exact absurd (hmin z r' h1 hr) (not_le.mpr hlt)

/-- conversely a genuine minimum over the unit circle is never refuted, by any candidate list:
the check cannot raise an alarm on a correct stability margin. -/
theorem z_sm_min_never_refuted (num den : List K) (r : Cx K) (hmin : CircleMin num den r)
    (ws : List (Cx K)) : smRefuted num den ws r = false := by
  by_contra h
  exact z_sm_refuted_not_min num den ws r (by simpa using h) hmin

/-- `CircleMin` is the statement of the property: `|1 + r|² ≤ |1 + L(z)|²` on all of `|z| = 1`. -/
theorem circleMin_iff (num den : List K) (r : Cx K) :
    CircleMin num den r ↔
      ∀ z r', normSq z = 1 → respAt num den z = some r' → normSq (r + 1) ≤ normSq (r' + 1) :=
  Iff.rfl

end discrete


/-! ## 6. Over `ℝ`: the stationarity polynomial is the derivative; `gmKey` orders by `|log GM|` -/

section real

/-- over `ℝ`: the stationarity polynomial over `d²` IS the derivative of `n/d = |1+L(jω)|²`. -/
theorem wstab_hasDerivAt (num den : List ℝ) (w : ℝ) (hd : polyval (wstabD den) w ≠ 0) :
    HasDerivAt (fun x => polyval (wstabN num den) x / polyval (wstabD den) x)
      (polyval (wstabPoly num den) w / (polyval (wstabD den) w) ^ 2) w := by
  have hN := (toPoly (wstabN num den)).hasDerivAt w
  have hD := (toPoly (wstabD den)).hasDerivAt w
  have hd' : eval w (toPoly (wstabD den)) ≠ 0 := by rwa [← polyval_eq_eval]
  have key := hN.fun_div hD hd'
  have hval : polyval (wstabPoly num den) w =
      eval w (derivative (toPoly (wstabN num den))) * eval w (toPoly (wstabD den))
        - eval w (toPoly (wstabN num den)) * eval w (derivative (toPoly (wstabD den))) := by
    rw [polyval_eq_eval]
    unfold wstabPoly
    rw [toPoly_npsub, toPoly_npmul, toPoly_npmul, toPoly_polyder, toPoly_polyder]
    simp only [eval_sub, eval_mul]
    ring
  have hf : (fun x => polyval (wstabN num den) x / polyval (wstabD den) x) =
      fun x => eval x (toPoly (wstabN num den)) / eval x (toPoly (wstabD den)) := by
    funext x; rw [polyval_eq_eval, polyval_eq_eval]
  rw [hf, hval, polyval_eq_eval (wstabD den)]
  exact key

/-- every interior local minimiser of `|1+L(jω)|²` (where `den(jω) ≠ 0`) is a root of the
stationarity polynomial. -/
theorem wstab_root_of_isLocalMin (num den : List ℝ) (w : ℝ) (hd : polyval (wstabD den) w ≠ 0)
    (hmin : IsLocalMin (fun x => polyval (wstabN num den) x / polyval (wstabD den) x) w) :
    polyval (wstabPoly num den) w = 0 := by
  have h := hmin.hasDerivAt_eq_zero (wstab_hasDerivAt num den w hd)
  have h2 : (polyval (wstabD den) w) ^ 2 ≠ 0 := pow_ne_zero _ hd
  exact (div_eq_zero_iff.mp h).resolve_right h2

/-- the rational key orders gain margins exactly as `|log GM|` does (`GM² = 1/|r|²`). -/
theorem gmKey_le_iff_abs_log (r r' : Cx ℝ) (h : normSq r ≠ 0) (h' : normSq r' ≠ 0)
    (g g' : ℝ) (hg : 0 < g) (hg' : 0 < g') (hgm : g ^ 2 * normSq r = 1) (hgm' : g' ^ 2 * normSq r' = 1) :
    gmKey r ≤ gmKey r' ↔ |Real.log g| ≤ |Real.log g'| := by
  have hm : 0 < normSq r := lt_of_le_of_ne (normSq_nonneg r) (Ne.symm h)
  have hm' : 0 < normSq r' := lt_of_le_of_ne (normSq_nonneg r') (Ne.symm h')
  have e : ∀ (g m : ℝ), 0 < g → 0 < m → g ^ 2 * m = 1 → |Real.log m| = 2 * |Real.log g| := by
    intro g m hg hm hgm
    have : Real.log m = - (2 * Real.log g) := by
      have := congrArg Real.log hgm
      rw [Real.log_mul (pow_ne_zero _ hg.ne') hm.ne', Real.log_pow, Real.log_one] at this
      push_cast at this; linarith
    rw [this, abs_neg, abs_mul]; simp
  simp only [gmKey, h, h', if_false, WithTop.coe_le_coe]
  have hpos : 0 < max (normSq r) (normSq r)⁻¹ := lt_max_of_lt_left hm
  have hpos' : 0 < max (normSq r') (normSq r')⁻¹ := lt_max_of_lt_left hm'
  rw [← Real.log_le_log_iff hpos hpos', ← abs_log_eq _ hm, ← abs_log_eq _ hm',
    e g _ hg hm hgm, e g' _ hg' hm' hgm']
  constructor <;> intro hh <;> linarith


/-- non-vacuity of `gmKey_le_iff_abs_log`: `r = -1/2` has `GM = 2`. -/
example : (2 : ℝ) ^ 2 * normSq (⟨-1/2, 0⟩ : Cx ℝ) = 1 := by norm_num [normSq]

end real

/-! ## 7. Non-vacuity: worked instances over `ℚ` (hypotheses of the theorems above are satisfiable,
and the model computes what the theorems say) -/

section examples

/-- worked instance `L = 1/(s(s+1)²)`: the real-crossing polynomial is `ω³ − ω`, its roots are
`1, −1, 0`; the only phase crossing is `ω = 1` with `L(j) = −1/2` (`gm = 2`). -/
private def G1roots : List (Cx ℚ) := [⟨1, 0⟩, ⟨-1, 0⟩, ⟨0, 0⟩]

example : realCrossingPoly ([1] : List ℚ) [1, 2, 1, 0] = [1, 0, -1, 0] := by decide +kernel
example : ∀ z ∈ G1roots, evalC (realCrossingPoly ([1] : List ℚ) [1, 2, 1, 0]) z = 0 := by decide +kernel
example : respAt ([1] : List ℚ) [1, 2, 1, 0] (jw 1) = some ⟨-1/2, 0⟩ := by decide +kernel
example : ((1 : ℚ), (⟨-1/2, 0⟩ : Cx ℚ)) ∈ phaseCrossings [1] [1, 2, 1, 0] 0 G1roots :=
  mem_phaseCrossings.mpr ⟨⟨⟨1, 0⟩, by decide +kernel, rfl, rfl⟩, by decide +kernel, by decide +kernel,
    Or.inl (by decide +kernel)⟩
example : ∀ w : ℚ, 0 ≤ w → polyval (realCrossingPoly ([1] : List ℚ) [1, 2, 1, 0]) w = 0 →
    (QuadraticAlgebra.C w : Cx ℚ) ∈ G1roots := by
  intro w hw h
  rw [show realCrossingPoly ([1] : List ℚ) [1, 2, 1, 0] = [1, 0, -1, 0] by decide +kernel] at h
  simp only [polyval, List.foldl_cons, List.foldl_nil] at h
  have h3 : w * (w - 1) * (w + 1) = 0 := by linear_combination h
  rcases mul_eq_zero.mp h3 with h4 | h4
  · rcases mul_eq_zero.mp h4 with h5 | h5
    · subst h5; decide +kernel
    · have : w = 1 := by linarith
      subst this; decide +kernel
  · have : w = -1 := by linarith
    subst this; decide +kernel

example : mag1Poly ([5] : List ℚ) [1, 3] = [-1, 0, 16] := by decide +kernel
example : respAt ([5] : List ℚ) [1, 3] (jw 4) = some ⟨3/5, -4/5⟩ := by decide +kernel
example : ((4 : ℚ), some (⟨3/5, -4/5⟩ : Cx ℚ)) ∈ gainCrossings [5] [1, 3] 0 [⟨4, 0⟩, ⟨-4, 0⟩] :=
  mem_gainCrossings.mpr ⟨⟨⟨4, 0⟩, by decide +kernel, rfl, rfl⟩, by decide +kernel, by decide +kernel⟩

private def G3roots : List (Cx ℚ) := [⟨0, 0⟩, ⟨2, 0⟩, ⟨-2, 0⟩, ⟨0, 1⟩, ⟨0, -1⟩]
example : wstabPoly ([1] : List ℚ) [1, 2, 1] = [0, 0, 4, 0, -12, 0, -16, 0] := by decide +kernel
example : ∀ z ∈ G3roots, evalC (wstabPoly ([1] : List ℚ) [1, 2, 1]) z = 0 := by decide +kernel
example : ((2 : ℚ), some (⟨-3/25, -4/25⟩ : Cx ℚ)) ∈ stabCrossings [1] [1, 2, 1] 0 G3roots :=
  mem_stabCrossings.mpr ⟨⟨⟨2, 0⟩, by decide +kernel, rfl, rfl⟩, by decide +kernel, by decide +kernel,
    by decide +kernel⟩
example : normSq ((⟨-3/25, -4/25⟩ : Cx ℚ) + 1) = 4/5 := by decide +kernel

example : defaultGm [((1 : ℚ), (⟨-1/2, 0⟩ : Cx ℚ)), (3, ⟨-3/2, 0⟩), (5, ⟨0, 0⟩)] = some (3, ⟨-3/2, 0⟩) := by
  decide +kernel
example : defaultPm [((1 : ℚ), (⟨3/5, -4/5⟩ : Cx ℚ)), (3, ⟨-4/5, -3/5⟩), (5, ⟨-3/5, 4/5⟩)] = some (3, ⟨-4/5, -3/5⟩) := by
  decide +kernel
example : defaultSm [((1 : ℚ), (⟨-1/2, 1/2⟩ : Cx ℚ)), (3, ⟨-3/4, -1/4⟩)] = some (3, ⟨-3/4, -1/4⟩) := by
  decide +kernel

example : bandwidth ([1] : List ℚ) [1, 1] 0 (-3) (7/10) [jw (1/2), jw 1, jw 2] = .ok (.bracket 2) := by
  decide +kernel
example : bandwidth ([-1] : List ℚ) [1, 1] 0 (-3) (7/10) [jw (1/2), jw 1, jw 2] = .ok (.bracket 2) := by
  decide +kernel
example : bandwidth ([1, 0] : List ℚ) [1, 1] 0 (-3) (7/10) [jw (1/2), jw 1, jw 2] = .ok .inf := by
  decide +kernel
example : bandwidth ([1] : List ℚ) [1, 0] 0 (-3) (7/10) [jw (1/2), jw 1, jw 2] = .ok .nan := by
  decide +kernel

private def Zroots : List (Cx ℚ) := [⟨1, 0⟩, ⟨-1, 0⟩, ⟨0, 1⟩, ⟨0, -1⟩]
example : zRealCrossingPoly ([1, 1] : List ℚ) [2, -2, 0] = [-2, 0, 0, 0, 2] := by decide +kernel
example : ∀ z ∈ Zroots, evalC (zRealCrossingPoly ([1, 1] : List ℚ) [2, -2, 0]) z = 0 := by decide +kernel
example : respAt ([1, 1] : List ℚ) [2, -2, 0] ⟨0, 1⟩ = some ⟨-1/2, 0⟩ := by decide +kernel
example : ((⟨0, 1⟩ : Cx ℚ), (⟨-1/2, 0⟩ : Cx ℚ)) ∈ zPhaseCrossings [1, 1] [2, -2, 0] (1/100) Zroots :=
  mem_zPhaseCrossings.mpr ⟨by decide +kernel, by decide +kernel, by decide +kernel, by decide +kernel,
    Or.inl (by decide +kernel)⟩
example : respAt ([1, 1] : List ℚ) [1, -1, 0] ⟨0, 1⟩ = some ⟨-1, 0⟩ ∧
    evalC (zMag1Poly ([1, 1] : List ℚ) [1, -1, 0]) ⟨0, 1⟩ = 0 := by decide +kernel

/-- the hypotheses of `phase_crossing_genuine` / `phase_crossing_complete` are satisfiable together
(exact root list of `ω³ − ω`), and the conclusions are the expected facts about `L = 1/(s(s+1)²)`. -/
example : (0 : ℚ) ≤ 1 ∧ evalC ([1, 2, 1, 0] : List ℚ) (jw 1) ≠ 0 ∧
    (⟨-1/2, 0⟩ : Cx ℚ) * evalC [1, 2, 1, 0] (jw 1) = evalC [1] (jw 1) ∧
    (⟨-1/2, 0⟩ : Cx ℚ).im = 0 ∧ (⟨-1/2, 0⟩ : Cx ℚ).re ≤ 0 :=
  phase_crossing_genuine (num := [1]) (den := [1, 2, 1, 0]) (epsw := 0) (roots := G1roots)
    (by decide +kernel)
    (mem_phaseCrossings.mpr ⟨⟨⟨1, 0⟩, by decide +kernel, rfl, rfl⟩, by decide +kernel,
      by decide +kernel, Or.inl (by decide +kernel)⟩)

example : normSq (⟨3/5, -4/5⟩ : Cx ℚ) = 1 :=
  (gain_crossing_genuine (num := [5]) (den := [1, 3]) (epsw := 0) (roots := [⟨4, 0⟩, ⟨-4, 0⟩])
    (by decide +kernel)
    (mem_gainCrossings.mpr ⟨⟨⟨4, 0⟩, by decide +kernel, rfl, rfl⟩, by decide +kernel,
      by decide +kernel⟩)).2.2.2

example : (0 : ℚ) < polyval (polyder (wstabPoly ([1] : List ℚ) [1, 2, 1])) 2 :=
  (stab_crossing_genuine (num := [1]) (den := [1, 2, 1]) (epsw := 0) (roots := G3roots)
    (w := 2) (r := ⟨-3/25, -4/25⟩)
    (by decide +kernel)
    (mem_stabCrossings.mpr ⟨⟨⟨2, 0⟩, by decide +kernel, rfl, rfl⟩, by decide +kernel,
      by decide +kernel, by decide +kernel⟩)).2.2.1

example : (⟨-1/2, 0⟩ : Cx ℚ).im = 0 :=
  (z_phase_crossing_genuine (a := 1) (b := 2) (nt := [1]) (dt := [-2, 0]) (by decide) (eps := 1/100)
    (roots := Zroots) (z := ⟨0, 1⟩) (r := ⟨-1/2, 0⟩) (by decide +kernel)
    (mem_zPhaseCrossings.mpr ⟨by decide +kernel, by decide +kernel, by decide +kernel,
      by decide +kernel, Or.inl (by decide +kernel)⟩) (by decide +kernel)).2.2.1

example : ((⟨0, 1⟩ : Cx ℚ), some (⟨-1, 0⟩ : Cx ℚ)) ∈
    zGainCrossings [1, 1] [1, -1, 0] (1/100) [⟨1, 0⟩, ⟨-1, 0⟩, ⟨0, 1⟩, ⟨0, -1⟩] :=
  mem_zGainCrossings.mpr ⟨by decide +kernel, by decide +kernel, by decide +kernel, by decide +kernel,
    by decide +kernel⟩
example : ∀ z ∈ ([⟨0, 1⟩, ⟨0, -1⟩] : List (Cx ℚ)),
    evalC (zMag1Poly ([1, 1] : List ℚ) [1, -1, 0]) z = 0 := by decide +kernel

/-- `L = 1/(z − 1/2)`: `|1+L|²` is `481/169` at `z = 3/5 + 4/5 j`, `1/9` at `z = −1` (the minimum over
the circle) and `9` at `z = 1`; the value at `3/5 + 4/5 j` is refuted by the candidate `−1`, the value
at `−1` is not refuted (the candidate `2` is not on the circle and is dropped). -/
example : respAt ([1] : List ℚ) [1, -1/2] ⟨3/5, 4/5⟩ = some ⟨2/13, -16/13⟩ ∧
    respAt ([1] : List ℚ) [1, -1/2] ⟨-1, 0⟩ = some ⟨-2/3, 0⟩ := by decide +kernel
example : smRefuted ([1] : List ℚ) [1, -1/2] [⟨1, 0⟩, ⟨-1, 0⟩] ⟨2/13, -16/13⟩ = true := by decide +kernel
example : smRefuted ([1] : List ℚ) [1, -1/2] [⟨3/5, 4/5⟩, ⟨1, 0⟩, ⟨2, 0⟩] ⟨-2/3, 0⟩ = false := by
  decide +kernel
example : ¬ CircleMin ([1] : List ℚ) [1, -1/2] ⟨2/13, -16/13⟩ :=
  z_sm_refuted_not_min _ _ [⟨1, 0⟩, ⟨-1, 0⟩] _ (by decide +kernel)
example : bestWitness ([1] : List ℚ) [1, -1/2] [⟨3/5, 4/5⟩, ⟨1, 0⟩, ⟨2, 0⟩, ⟨-1, 0⟩] =
    some (⟨-1, 0⟩, ⟨-2/3, 0⟩) := by decide +kernel

end examples

end CtrlVerif.C12
