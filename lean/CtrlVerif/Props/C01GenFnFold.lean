/-
Source-text tie of C01 (DESIGN §10.3, notes/NOTES-py2lean-bdalgfn.md): the functional wrappers of
`control/bdalg.py`, part 2: the n-ary wrappers `series(*sys, **kwargs)` (`reduce(lambda x, y: y * x,
sys[1:], sys[0])`), `parallel(*sys, **kwargs)` (the fold with `+`), `append(*sys, **kwargs)` (the loop
`s1 = s1.append(s)`).

`Generated/BdalgFnSeries.lean` / `BdalgFnParallel.lean` / `BdalgFnAppend.lean` are rewritten on every run
from the text of the wrappers of the tree under check by `harness/core/py2lean_bdalgfn.py`.  The model
(`Model/TFCall.lean`: `seriesFn`, `parallelFn`, `appendFn`) is proved EQUAL to them for a system as first
argument and ANY list of further operands (systems / scalars of any number class / arrays; any length,
also none), with and without naming keywords, whatever object identity says (the `deepcopy` branch).
-/
import CtrlVerif.Generated.BdalgFnSeries
import CtrlVerif.Generated.BdalgFnParallel
import CtrlVerif.Generated.BdalgFnAppend
import CtrlVerif.Lemmas.C01GenFn

set_option linter.unusedSectionVars false
set_option linter.unusedSimpArgs false

namespace CtrlVerif.C01GenFn
open CtrlVerif PyBdalg

variable {K : Type} [Field K] [DecidableEq K]

/-! ### `series` -/

/-- `bdalg.series(G, x1, ..., xn, **kw)` as the source text computes it is the model's
`seriesFn G [x1, ..., xn]` = `xn * (... * (x1 * G))`: every argument is used, the later one is the
LEFT factor. -/
theorem generated_series_eq (w : World) (G : DTF K) (xs : List (NumKind × Operand K)) (kw : Kw) :
    Generated.BdalgFn.series w (.tf G :: vals xs) kw = liftR (DTF.seriesFn G (ops xs)) := by
  unfold Generated.BdalgFn.series
  simp only [item_cons_zero (K := K), slice_cons_one (K := K), ok_bind, pure_ok, bind_pure, bind_ok,
    foldlM_mul (K := K)]
  exact liftR_copy_updateNames (K := K) w _ _ kw

/-- without arguments: `IndexError` (`syslist[0]`) -/
theorem generated_series_nil (w : World) (kw : Kw) :
    Generated.BdalgFn.series w ([] : List (Val K)) kw = .error .indexError := by
  unfold Generated.BdalgFn.series
  simp [item_nil (K := K), err_bind]

/-- `C01Call.seriesFn_pair` for the wrapper: `series(G, H) = H * G`. -/
theorem generated_series_pair (w : World) (kw : Kw) (G H : DTF K) :
    Generated.BdalgFn.series w [.tf G, .tf H] kw = liftR (H.mul (.sys G)) := by
  have := generated_series_eq w G [(.pyInt, .sys H)] kw
  rw [← C01Call.seriesFn_pair]
  exact this

/-- `series(G, c) = c * G` (`__rmul__`) for a number `c` of any class. -/
theorem generated_series_pair_scalar (w : World) (kw : Kw) (k : NumKind) (G : DTF K) (c : K) :
    Generated.BdalgFn.series w [.tf G, .num k c] kw = liftR (G.rmul (.scalar c)) := by
  have := generated_series_eq w G [(k, .scalar c)] kw
  rw [← C01Call.seriesFn_pair_scalar]
  exact this

/-- non-vacuity: three arguments, a keyword -/
example (w : World) (G H : DTF ℚ) :
    Generated.BdalgFn.series w [.tf G, .tf H, .num .pyFloat 2] [("name", "s")]
      = liftR (DTF.seriesFn G [.sys H, .scalar 2]) :=
  generated_series_eq w G [(.pyInt, .sys H), (.pyFloat, .scalar 2)] _

/-! ### `parallel` -/

/-- `bdalg.parallel(G, x1, ..., xn, **kw)` as the source text computes it is the model's
`parallelFn G [x1, ..., xn]` = `((G + x1) + ...) + xn`: every argument is used. -/
theorem generated_parallel_eq (w : World) (G : DTF K) (xs : List (NumKind × Operand K)) (kw : Kw) :
    Generated.BdalgFn.parallel w (.tf G :: vals xs) kw = liftR (DTF.parallelFn G (ops xs)) := by
  unfold Generated.BdalgFn.parallel
  simp only [item_cons_zero (K := K), slice_cons_one (K := K), ok_bind, pure_ok, bind_pure, bind_ok,
    foldlM_add (K := K)]
  exact liftR_copy_updateNames (K := K) w _ _ kw

theorem generated_parallel_nil (w : World) (kw : Kw) :
    Generated.BdalgFn.parallel w ([] : List (Val K)) kw = .error .indexError := by
  unfold Generated.BdalgFn.parallel
  simp [item_nil (K := K), err_bind]

/-- `C01Call.parallelFn_pair` for the wrapper: `parallel(G, x) = G + x`. -/
theorem generated_parallel_pair (w : World) (kw : Kw) (k : NumKind) (G : DTF K) (x : Operand K) :
    Generated.BdalgFn.parallel w [.tf G, Val.ofOp k x] kw = liftR (G.add x) := by
  have := generated_parallel_eq w G [(k, x)] kw
  rw [← C01Call.parallelFn_pair]
  exact this

example (w : World) (G H : DTF ℚ) :
    Generated.BdalgFn.parallel w [.tf G, .tf H, .tf G] [("name", "p")]
      = liftR (DTF.parallelFn G [.sys H, .sys G]) :=
  generated_parallel_eq w G [(.pyInt, .sys H), (.pyInt, .sys G)] _

/-! ### `append` -/

/-- `bdalg.append(G, x1, ..., xn, **kw)` as the source text computes it is the model's
`appendFn G [x1, ..., xn]`: block diagonal, left to right, every argument used. -/
theorem generated_append_eq (w : World) (G : DTF K) (xs : List (NumKind × Operand K)) (kw : Kw) :
    Generated.BdalgFn.append w (.tf G :: vals xs) kw = liftR (DTF.appendFn G (ops xs)) := by
  unfold Generated.BdalgFn.append
  simp only [item_cons_zero (K := K), slice_cons_one (K := K), ok_bind, pure_ok, bind_pure, bind_ok,
    foldlM_append (K := K)]
  exact liftR_copy_updateNames (K := K) w _ _ kw

theorem generated_append_nil (w : World) (kw : Kw) :
    Generated.BdalgFn.append w ([] : List (Val K)) kw = .error .indexError := by
  unfold Generated.BdalgFn.append
  simp [item_nil (K := K), err_bind]

/-- `C01Call.appendFn_pair` for the wrapper. -/
theorem generated_append_pair (w : World) (kw : Kw) (G H : DTF K) :
    Generated.BdalgFn.append w [.tf G, .tf H] kw = liftR (G.append H) := by
  have := generated_append_eq w G [(.pyInt, .sys H)] kw
  rw [← C01Call.appendFn_pair]
  exact this

example (w : World) (G H : DTF ℚ) :
    Generated.BdalgFn.append w [.tf G, .tf H, .num .npFloat64 3] []
      = liftR (DTF.appendFn G [.sys H, .scalar 3]) :=
  generated_append_eq w G [(.pyInt, .sys H), (.npFloat64, .scalar 3)] _

end CtrlVerif.C01GenFn
