/-
C07, source-text tie (tag py2lean-interconnect): the headline facts of `Props/C07Spell.lean`
(`spelling_equiv` and the soundness of its generators) transported to the functions regenerated from
the source text (`Generated/ICXFind.lean`, `Generated/ICXPre.lean`).  The equalities themselves are in
`C07GenXFind.lean` (`generated_findSignals_eq`, …) and `C07GenXPre.lean` (`generated_implicit_eq`,
`generated_normalize_eq`, `generated_check*_eq`, `generated_addUnused_eq`,
`generated_added_*_wired_and_named`).
-/
import CtrlVerif.Props.C07GenXFind
import CtrlVerif.Props.C07GenXPre
import CtrlVerif.Props.C07GenXConn
import CtrlVerif.Props.C07Spell

namespace CtrlVerif.C07GenX

open CtrlVerif.IC CtrlVerif.PyIC CtrlVerif.PyICX

variable {K : Type} [Field K] [DecidableEq K]

/-- generator `base_spelling`, for the source-text `_find_signals`: a base name that is not itself a
key selects exactly what the slice `name[:]` selects (same indices, same order, or both `None`). -/
theorem generated_base_spelling (labels : List Label) (hd : IsDict labels) (s s' : Str) (b : String)
    (ht : s.tok = .base b) (ht' : s'.tok = .slice b none none) (hl : lookup labels b = none) :
    Generated.icxFindSignals (.str s : Val K) labels = Generated.icxFindSignals (.str s' : Val K) labels := by
  have hr : (inRange none none) = fun _ => true := by funext n; simp [inRange]
  rw [generated_findSignals_eq labels hd, generated_findSignals_eq labels hd]
  simp only [nameList_str, map_ok, List.map_cons, List.map_nil, ht, ht', IC.findSignals_base labels b hl,
    IC.findSignals_slice, hr]

/-- generator `slice_spelling`, for the source-text `_find_signals`: `name[lo:hi]` selects the
positions `withBase` lists (increasing dictionary positions of the keys `name[n]`, `lo ≤ n < hi`). -/
theorem generated_slice_spelling (labels : List Label) (hd : IsDict labels) (s : Str) (b : String)
    (lo hi : Option Nat) (ht : s.tok = .slice b lo hi)
    (hne : (withBase labels b (inRange lo hi)).isEmpty = false) :
    Generated.icxFindSignals (.str s : Val K) labels =
      .ok (some ((withBase labels b (inRange lo hi)).map some)) := by
  rw [generated_findSignals_slice labels hd s b lo hi ht, hne]
  rfl

theorem conn_mapM (cs : List (List (Val K))) (ss : List (List (Spec K)))
    (h : cs.map (·.map tokenize) = ss.map (·.map some)) :
    (cs.map Val.list).mapM tokConn = some (ss.map ConnEntry.list) := by
  induction cs generalizing ss with
  | nil =>
    cases ss with
    | nil => rfl
    | cons b r => simp at h
  | cons c cs ih =>
    cases ss with
    | nil => simp at h
    | cons b r =>
      simp only [List.map_cons, List.cons.injEq] at h
      simp [List.mapM_cons, tokConn, mapM_of_map_eq tokenize c b h.1, ih r h.2]

/-- **generator `ConnArgEq.implicit` + `spelling_equiv`, for the source-text loop**: the explicit
connection list that the implicit-connection loop of `interconnect()` builds (tokenised) is an
alternative spelling of `connections=None`; the model resolves both calls to the same three maps, or
both raise. -/
theorem generated_implicit_spelling (a : Args K) (hc : a.conns = .implicit) (hok : NamesOK a.sigs) :
    ∃ (cs : List (List (Val K))) (es : List (ConnEntry K)),
      Generated.icxImplicit a.sigs = .ok cs ∧ (cs.map Val.list).mapM tokConn = some es ∧
      ((∃ m m', interconnect a = .ok m ∧ interconnect { a with conns := .explicit es } = .ok m' ∧
          MapsEq m m') ∨
       (∃ e e', interconnect a = .error e ∧ interconnect { a with conns := .explicit es } = .error e')) := by
  obtain ⟨cs, h1, h2⟩ := generated_implicit_eq (K := K) a.sigs hok
  refine ⟨cs, (implicitConnections a.sigs).map .list, h1, ?_, ?_⟩
  · exact conn_mapM cs _ h2
  · have := C07Spell.spelling_equiv (K := K)
      (IC.SpecEquiv.congr a.sigs a.addUnused (c := .implicit)
        (c' := .explicit ((implicitConnections a.sigs).map .list))
        (i := (a.inplistNone, a.inplist, a.inputs)) (i' := (a.inplistNone, a.inplist, a.inputs))
        (o := (a.outlistNone, a.outlist, a.outputs)) (o' := (a.outlistNone, a.outlist, a.outputs))
        .implicit (.refl _) (.refl _))
    obtain ⟨s, c, iN, il, ip, oN, ol, op, au⟩ := a
    simp only at hc
    subst hc
    exact this

end CtrlVerif.C07GenX
