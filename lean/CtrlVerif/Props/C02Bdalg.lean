/-
C02 — the block-diagram functions of `control/bdalg.py` (`series`, `parallel`, `append` with any
number of operands, `negate`, `feedback`) realise the algebra of transfer matrices.

`Model/C02Bdalg.lean` models the functions as the left folds of the binary operators they are
in the code (`reduce(lambda x, y: y * x, …)` etc.).  Here:

* `bdFoldOp_eq_eval`, `bdalg_eq_eval` : what the driver executes for `series k / parallel k /
  appendn k` (`DSS.bdalg`, a fold over evaluated operands) **is** the run-time evaluation
  (`SSTree.eval`) of the tree the fold builds — so everything proved about run-time trees
  (`C02.RT.dtree_resp`, `dtree_states`) holds for the n-ary calls;
* `SeriesSem`, `ParallelSem`, `AppendSem` : the algebra's value of an n-ary call, operand by
  operand in call order (with NumPy's broadcasting of scalars / SISO systems);
  `series_sem`, `parallel_sem`, `append_sem` : the fold tree has that value (`DSem`);
  `series_resp`, `parallel_resp`, `append_resp_n` : **whatever the run-time evaluation of
  `series(e₁, …, eₙ)` returns responds with `Yₙ ⋯ Y₂ Y₁`** (`parallel`: `Y₁ + ⋯ + Yₙ`, `append`:
  the block diagonal), for operands of any compatible — also non-square — shapes;
* `Chain`, `Chain.cons`, `series_prod` : for compatible shapes the value is independent of the
  bracketing: `series(e₁, e₂, …, eₙ)` is `series(e₂, …, eₙ)` after `e₁`, and for square operands
  it is the product of the reversed list of values — **the order of the operands matters**
  (`series_order_matters`: a concrete triple for which `Y₃ Y₂ Y₁ ≠ Y₃ Y₁ Y₂`);
  `Sum.cons`, `parallel_sum` : the value of `parallel` is the sum of the values;
* `bdSeed_sem`, `bdSeed_kind` : taking a leading constant as the static gain it stands for does not
  change its value; `bdalg_series_resp`, `bdalg_parallel_resp`, `bdalg_append_resp`: the
  operand-level statements for what the driver runs;
* `negate_resp`, `feedbackFn_resp` : the one-operand and the feedback wrappers.

Everything over an arbitrary field with decidable equality.
-/
import CtrlVerif.Props.C02GlueTree
import CtrlVerif.Model.C02Bdalg

namespace CtrlVerif.C02.Bd

open CtrlVerif Matrix DSS SSTree

variable {K : Type} [Field K] [DecidableEq K]

/-! ### the operand-level fold is the evaluation of the fold tree -/

theorem bdStep_eval_ok (f : BdFn) {t : SSTree K} {acc : SOperand K} (h : t.eval = .ok acc)
    (y : SOperand K) :
    (bdStep f t (.leaf y)).eval =
      match bdStepOp f acc y with
      | none => .error .bad
      | some (.error e) => .error (.err e)
      | some (.ok r) => .ok r := by
  cases f <;> simp only [bdStep, bdStepOp, SSTree.eval, h, Except.bind, bind] <;>
    (generalize (binop _ _ _ : Option (Except Err (SOperand K))) = o
     rcases o with _ | (_ | _) <;> rfl)

theorem bdStep_eval_error (f : BdFn) {t : SSTree K} {e : SSEvalErr} (h : t.eval = .error e)
    (y : SOperand K) : (bdStep f t (.leaf y)).eval = .error e := by
  cases f <;> simp [bdStep, SSTree.eval, h, Except.bind, bind]

theorem foldl_eval_error (f : BdFn) (l : List (SOperand K)) :
    ∀ {t : SSTree K} {e : SSEvalErr}, t.eval = .error e →
      ((l.map SSTree.leaf).foldl (bdStep f) t).eval = .error e := by
  induction l with
  | nil => intro t e h; simpa using h
  | cons y l ih =>
    intro t e h
    simp only [List.map_cons, List.foldl_cons]
    exact ih (bdStep_eval_error f h y)

/-- **The fold on evaluated operands is the evaluation of the fold tree** (accumulator `acc` =
the value of the tree `t` built so far). -/
theorem bdFoldOp_eq_eval (f : BdFn) (l : List (SOperand K)) :
    ∀ {t : SSTree K} {acc : SOperand K}, t.eval = .ok acc →
      bdFoldOp f acc l = ((l.map SSTree.leaf).foldl (bdStep f) t).eval := by
  induction l with
  | nil => intro t acc h; simpa [bdFoldOp] using h.symm
  | cons y l ih =>
    intro t acc h
    simp only [List.map_cons, List.foldl_cons, bdFoldOp]
    have hs := bdStep_eval_ok f h y
    cases hb : bdStepOp f acc y with
    | none =>
      rw [hb] at hs
      exact (foldl_eval_error f l hs).symm
    | some r =>
      cases r with
      | error e =>
        rw [hb] at hs
        exact (foldl_eval_error f l hs).symm
      | ok r =>
        rw [hb] at hs
        exact ih hs

/-- **What the driver runs for `series k / parallel k / appendn k` is the run-time evaluation of
the tree `bdalg.series / parallel / append` build** from the (seeded) operand list. -/
theorem bdalg_eq_eval (f : BdFn) (a : SOperand K) (l : List (SOperand K)) :
    ∃ t, bdFold f ((bdSeed a l :: l).map SSTree.leaf) = some t ∧ bdalg f (a :: l) = t.eval :=
  ⟨_, rfl, bdFoldOp_eq_eval f l (t := .leaf (bdSeed a l)) rfl⟩

/-! ### the fold trees -/

theorem bdFold_snoc {f : BdFn} {l : List (SSTree K)} {t : SSTree K} (h : bdFold f l = some t)
    (b : SSTree K) : bdFold f (l ++ [b]) = some (bdStep f t b) := by
  cases l with
  | nil => cases h
  | cons a l =>
    simp only [bdFold, Option.some.injEq] at h
    subst h
    simp [bdFold, List.foldl_append]

theorem bdStep_kind (f : BdFn) (x y : SSTree K) : (bdStep f x y).kind = .sys := by
  cases f <;> rfl

theorem foldl_kind (f : BdFn) (l : List (SSTree K)) :
    ∀ t : SSTree K, l ≠ [] → (l.foldl (bdStep f) t).kind = .sys := by
  induction l with
  | nil => intro t h; exact absurd rfl h
  | cons b l ih =>
    intro t _
    by_cases hl : l = []
    · subst hl; exact bdStep_kind f t b
    · exact ih _ hl

/-- the fold tree of two or more operands is a system; of one operand it is the operand. -/
theorem bdFold_kind {f : BdFn} {l : List (SSTree K)} {t : SSTree K} (h : bdFold f l = some t)
    (hl : ∀ a, l = [a] → a.kind ≠ .array) : t.kind ≠ .array := by
  cases l with
  | nil => cases h
  | cons a l =>
    simp only [bdFold, Option.some.injEq] at h
    subst h
    by_cases hl' : l = []
    · subst hl'; exact hl a rfl
    · rw [foldl_kind f l a hl']; decide

/-! ### `series` -/

/-- **The algebra's value of `series(e₁, …, eₙ)`** (operands in call order): the value of the
last operand times the value of the call without it — `Yₙ · (Yₙ₋₁ ⋯ Y₁)` — where a `1 × 1`
scalar / SISO operand (not an array) scales (`snoc_bcL`: the new operand, `snoc_bcR`: the
chain so far). -/
inductive SeriesSem : List (SSTree K) → K → (p m : Nat) → Matrix (Fin p) (Fin m) K → Prop
  | one {a : SSTree K} {s : K} {p m : Nat} {Y : Matrix (Fin p) (Fin m) K} (h : DSem a s p m Y) :
      SeriesSem [a] s p m Y
  | snoc {l : List (SSTree K)} {b : SSTree K} {s : K} {p k m : Nat} {Y : Matrix (Fin k) (Fin m) K}
      {Y' : Matrix (Fin p) (Fin k) K} (h : SeriesSem l s k m Y) (hb : DSem b s p k Y') :
      SeriesSem (l ++ [b]) s p m (Y' * Y)
  | snoc_bcL {l : List (SSTree K)} {b : SSTree K} {s : K} {p m : Nat}
      {Y : Matrix (Fin p) (Fin m) K} {y : Matrix (Fin 1) (Fin 1) K} (hk : b.kind ≠ .array)
      (h : SeriesSem l s p m Y) (hb : DSem b s 1 1 y) : SeriesSem (l ++ [b]) s p m (y 0 0 • Y)
  | snoc_bcR {l : List (SSTree K)} {b : SSTree K} {s : K} {p m : Nat}
      {y : Matrix (Fin 1) (Fin 1) K} {Y' : Matrix (Fin p) (Fin m) K}
      (hk : ∀ a, l = [a] → a.kind ≠ .array)
      (h : SeriesSem l s 1 1 y) (hb : DSem b s p m Y') : SeriesSem (l ++ [b]) s p m (y 0 0 • Y')

/-- the tree `bdalg.series` builds has the algebra's value. -/
theorem series_sem {l : List (SSTree K)} {s : K} {p m : Nat} {Y : Matrix (Fin p) (Fin m) K}
    (h : SeriesSem l s p m Y) : ∃ t, bdFold .series l = some t ∧ DSem t s p m Y := by
  induction h with
  | one h => exact ⟨_, rfl, h⟩
  | snoc _ hb ih =>
    obtain ⟨t, ht, hY⟩ := ih
    exact ⟨_, bdFold_snoc ht _, DSem.mul hb hY⟩
  | snoc_bcL hk _ hb ih =>
    obtain ⟨t, ht, hY⟩ := ih
    exact ⟨_, bdFold_snoc ht _, DSem.mul_bcL hk hb hY⟩
  | snoc_bcR hk _ hb ih =>
    obtain ⟨t, ht, hY⟩ := ih
    exact ⟨_, bdFold_snoc ht _, DSem.mul_bcR (bdFold_kind ht hk) hb hY⟩

/-- **`series(e₁, …, eₙ)` realises `Yₙ ⋯ Y₂ Y₁`.**  Whatever the run-time evaluation of the tree
`bdalg.series` builds returns has the shape of the algebra's value and responds with it, at every
point `s`, for operands of any compatible (also non-square) shapes. -/
theorem series_resp {l : List (SSTree K)} {s : K} {p m : Nat} {Y : Matrix (Fin p) (Fin m) K}
    (h : SeriesSem l s p m Y) {t : SSTree K} (ht : bdFold .series l = some t) {x : SOperand K}
    (hx : t.eval = .ok x) : (toSys x).Resp s p m Y := by
  obtain ⟨t', ht', hY⟩ := series_sem h
  rw [ht] at ht'
  cases ht'
  exact RT.dtree_resp hY x hx

/-- the chain of compatible shapes (no broadcasting): `Yₙ ⋯ Y₁`. -/
inductive Chain : List (SSTree K) → K → (p m : Nat) → Matrix (Fin p) (Fin m) K → Prop
  | one {a : SSTree K} {s : K} {p m : Nat} {Y : Matrix (Fin p) (Fin m) K} (h : DSem a s p m Y) :
      Chain [a] s p m Y
  | snoc {l : List (SSTree K)} {b : SSTree K} {s : K} {p k m : Nat} {Y : Matrix (Fin k) (Fin m) K}
      {Y' : Matrix (Fin p) (Fin k) K} (h : Chain l s k m Y) (hb : DSem b s p k Y') :
      Chain (l ++ [b]) s p m (Y' * Y)

theorem Chain.seriesSem {l : List (SSTree K)} {s : K} {p m : Nat} {Y : Matrix (Fin p) (Fin m) K}
    (h : Chain l s p m Y) : SeriesSem l s p m Y := by
  induction h with
  | one h => exact .one h
  | snoc _ hb ih => exact .snoc ih hb

/-- **`series(e₁, e₂, …, eₙ)` is `series(e₂, …, eₙ)` after `e₁`** (the value does not depend on
the bracketing of the fold: associativity of the matrix product). -/
theorem Chain.cons {l : List (SSTree K)} {s : K} {p k : Nat} {Y : Matrix (Fin p) (Fin k) K}
    (hl : Chain l s p k Y) :
    ∀ {m : Nat} {Y₁ : Matrix (Fin k) (Fin m) K} {a : SSTree K}, DSem a s k m Y₁ →
      Chain (a :: l) s p m (Y * Y₁) := by
  induction hl with
  | one h =>
    intro m Y₁ a ha
    exact Chain.snoc (l := [a]) (.one ha) h
  | snoc _ hb ih =>
    intro m Y₁ a ha
    rw [Matrix.mul_assoc, ← List.cons_append]
    exact Chain.snoc (ih ha) hb

/-- **square operands: the value of `series(e₁, …, eₙ)` is the product of the values in reverse
call order**, `Yₙ ⋯ Y₂ Y₁`. -/
theorem series_prod {n : Nat} {s : K} (es : List (SSTree K × Matrix (Fin n) (Fin n) K))
    (hne : es ≠ []) (h : ∀ e ∈ es, DSem e.1 s n n e.2) :
    Chain (es.map Prod.fst) s n n ((es.map Prod.snd).reverse.prod) := by
  induction es with
  | nil => exact absurd rfl hne
  | cons e es ih =>
    by_cases hes : es = []
    · subst hes
      simpa using Chain.one (h e (by simp))
    · have h1 := ih hes (fun e' he' => h e' (by simp [he']))
      have h2 := h1.cons (h e (by simp))
      simpa [List.prod_append] using h2

/-! ### `parallel` -/

/-- **The algebra's value of `parallel(e₁, …, eₙ)`**: `(Y₁ + ⋯ + Yₙ₋₁) + Yₙ`, a `1 × 1` scalar /
SISO operand (not an array) broadcast to every entry. -/
inductive ParallelSem : List (SSTree K) → K → (p m : Nat) → Matrix (Fin p) (Fin m) K → Prop
  | one {a : SSTree K} {s : K} {p m : Nat} {Y : Matrix (Fin p) (Fin m) K} (h : DSem a s p m Y) :
      ParallelSem [a] s p m Y
  | snoc {l : List (SSTree K)} {b : SSTree K} {s : K} {p m : Nat} {Y Y' : Matrix (Fin p) (Fin m) K}
      (h : ParallelSem l s p m Y) (hb : DSem b s p m Y') : ParallelSem (l ++ [b]) s p m (Y + Y')
  | snoc_bcL {l : List (SSTree K)} {b : SSTree K} {s : K} {p m : Nat}
      {y : Matrix (Fin 1) (Fin 1) K} {Y' : Matrix (Fin p) (Fin m) K}
      (hk : ∀ a, l = [a] → a.kind ≠ .array)
      (h : ParallelSem l s 1 1 y) (hb : DSem b s p m Y') :
      ParallelSem (l ++ [b]) s p m (bc p m y + Y')
  | snoc_bcR {l : List (SSTree K)} {b : SSTree K} {s : K} {p m : Nat}
      {Y : Matrix (Fin p) (Fin m) K} {y : Matrix (Fin 1) (Fin 1) K} (hk : b.kind ≠ .array)
      (h : ParallelSem l s p m Y) (hb : DSem b s 1 1 y) :
      ParallelSem (l ++ [b]) s p m (Y + bc p m y)

theorem parallel_sem {l : List (SSTree K)} {s : K} {p m : Nat} {Y : Matrix (Fin p) (Fin m) K}
    (h : ParallelSem l s p m Y) : ∃ t, bdFold .parallel l = some t ∧ DSem t s p m Y := by
  induction h with
  | one h => exact ⟨_, rfl, h⟩
  | snoc _ hb ih =>
    obtain ⟨t, ht, hY⟩ := ih
    exact ⟨_, bdFold_snoc ht _, DSem.add hY hb⟩
  | snoc_bcL hk _ hb ih =>
    obtain ⟨t, ht, hY⟩ := ih
    exact ⟨_, bdFold_snoc ht _, DSem.add_bcL (bdFold_kind ht hk) hY hb⟩
  | snoc_bcR hk _ hb ih =>
    obtain ⟨t, ht, hY⟩ := ih
    exact ⟨_, bdFold_snoc ht _, DSem.add_bcR hk hY hb⟩

/-- **`parallel(e₁, …, eₙ)` realises `Y₁ + ⋯ + Yₙ`.** -/
theorem parallel_resp {l : List (SSTree K)} {s : K} {p m : Nat} {Y : Matrix (Fin p) (Fin m) K}
    (h : ParallelSem l s p m Y) {t : SSTree K} (ht : bdFold .parallel l = some t) {x : SOperand K}
    (hx : t.eval = .ok x) : (toSys x).Resp s p m Y := by
  obtain ⟨t', ht', hY⟩ := parallel_sem h
  rw [ht] at ht'
  cases ht'
  exact RT.dtree_resp hY x hx

/-- operands of one shape: the running sum. -/
inductive Sum : List (SSTree K) → K → (p m : Nat) → Matrix (Fin p) (Fin m) K → Prop
  | one {a : SSTree K} {s : K} {p m : Nat} {Y : Matrix (Fin p) (Fin m) K} (h : DSem a s p m Y) :
      Sum [a] s p m Y
  | snoc {l : List (SSTree K)} {b : SSTree K} {s : K} {p m : Nat} {Y Y' : Matrix (Fin p) (Fin m) K}
      (h : Sum l s p m Y) (hb : DSem b s p m Y') : Sum (l ++ [b]) s p m (Y + Y')

theorem Sum.parallelSem {l : List (SSTree K)} {s : K} {p m : Nat} {Y : Matrix (Fin p) (Fin m) K}
    (h : Sum l s p m Y) : ParallelSem l s p m Y := by
  induction h with
  | one h => exact .one h
  | snoc _ hb ih => exact .snoc ih hb

theorem Sum.cons {l : List (SSTree K)} {s : K} {p m : Nat} {Y : Matrix (Fin p) (Fin m) K}
    (hl : Sum l s p m Y) :
    ∀ {Y₁ : Matrix (Fin p) (Fin m) K} {a : SSTree K}, DSem a s p m Y₁ →
      Sum (a :: l) s p m (Y₁ + Y) := by
  induction hl with
  | one h =>
    intro Y₁ a ha
    exact Sum.snoc (l := [a]) (.one ha) h
  | snoc _ hb ih =>
    intro Y₁ a ha
    rw [← add_assoc, ← List.cons_append]
    exact Sum.snoc (ih ha) hb

/-- **the value of `parallel(e₁, …, eₙ)` is the sum of the values.** -/
theorem parallel_sum {p m : Nat} {s : K} (es : List (SSTree K × Matrix (Fin p) (Fin m) K))
    (hne : es ≠ []) (h : ∀ e ∈ es, DSem e.1 s p m e.2) :
    Sum (es.map Prod.fst) s p m ((es.map Prod.snd).sum) := by
  induction es with
  | nil => exact absurd rfl hne
  | cons e es ih =>
    by_cases hes : es = []
    · subst hes
      simpa using Sum.one (h e (by simp))
    · have h1 := ih hes (fun e' he' => h e' (by simp [he']))
      simpa using h1.cons (h e (by simp))

/-! ### `append` -/

/-- **The algebra's value of `append(e₁, …, eₙ)`**: the block diagonal, first operand first. -/
inductive AppendSem : List (SSTree K) → K → (p m : Nat) → Matrix (Fin p) (Fin m) K → Prop
  | one {a : SSTree K} {s : K} {p m : Nat} {Y : Matrix (Fin p) (Fin m) K} (h : DSem a s p m Y) :
      AppendSem [a] s p m Y
  | snoc {l : List (SSTree K)} {b : SSTree K} {s : K} {p m p' m' : Nat}
      {Y : Matrix (Fin p) (Fin m) K} {Y' : Matrix (Fin p') (Fin m') K}
      (h : AppendSem l s p m Y) (hb : DSem b s p' m' Y') :
      AppendSem (l ++ [b]) s (p + p') (m + m') (bdiag Y Y')

theorem append_sem {l : List (SSTree K)} {s : K} {p m : Nat} {Y : Matrix (Fin p) (Fin m) K}
    (h : AppendSem l s p m Y) : ∃ t, bdFold .append l = some t ∧ DSem t s p m Y := by
  induction h with
  | one h => exact ⟨_, rfl, h⟩
  | snoc _ hb ih =>
    obtain ⟨t, ht, hY⟩ := ih
    exact ⟨_, bdFold_snoc ht _, DSem.append hY hb⟩

/-- **`append(e₁, …, eₙ)` realises `blockdiag(Y₁, …, Yₙ)`.** -/
theorem append_resp_n {l : List (SSTree K)} {s : K} {p m : Nat} {Y : Matrix (Fin p) (Fin m) K}
    (h : AppendSem l s p m Y) {t : SSTree K} (ht : bdFold .append l = some t) {x : SOperand K}
    (hx : t.eval = .ok x) : (toSys x).Resp s p m Y := by
  obtain ⟨t', ht', hY⟩ := append_sem h
  rw [ht] at ht'
  cases ht'
  exact RT.dtree_resp hY x hx

/-- the states / outputs / inputs of every n-ary call are those predicted from the leaves (the
sum of the operands' states, a broadcast SISO operand once per channel). -/
theorem bdFold_states {f : BdFn} {l : List (SSTree K)} {t : SSTree K} (_ : bdFold f l = some t)
    {x : SOperand K} (hx : t.eval = .ok x) : x.shape = t.shape :=
  RT.dtree_states t x hx

/-! ### the seeded first operand, and the operand-level statements -/

theorem bdSeed_cases (a : SOperand K) (l : List (SOperand K)) :
    bdSeed a l = a ∨ (a.kind ≠ .sys ∧ bdSeed a l = .sys (toSys a)) := by
  cases l with
  | nil => exact .inl rfl
  | cons b l =>
    by_cases hc : a.kind ≠ .sys ∧ b.kind ≠ .sys
    · exact .inr ⟨hc.1, by simp only [bdSeed, if_pos hc]⟩
    · exact .inl (by simp only [bdSeed, if_neg hc])

/-- a leading constant taken as a static gain has the value of the constant. -/
theorem bdSeed_sem {a : SOperand K} (l : List (SOperand K)) {s : K} {p m : Nat}
    {Y : Matrix (Fin p) (Fin m) K} (h : DSem (.leaf a) s p m Y) :
    DSem (.leaf (bdSeed a l)) s p m Y := by
  rcases bdSeed_cases a l with h' | ⟨_, h'⟩
  · rw [h']; exact h
  · rw [h']
    cases h with
    | sys h => exact .sys h
    | scalar c s => exact .sys ((RT.ofScalar_resp c s _).mpr rfl)
    | array p m D s => exact .sys ((RT.ofMatrix_resp _ _ _ s _).mpr rfl)

/-- … and is never an array for the broadcasting rules' side conditions unless it was one. -/
theorem bdSeed_kind {a : SOperand K} (l : List (SOperand K)) (h : a.kind ≠ .array) :
    (bdSeed a l).kind ≠ .array := by
  rcases bdSeed_cases a l with h' | ⟨_, h'⟩
  · rwa [h']
  · rw [h']; simp [SOperand.kind]

/-- **`series` as the driver runs it**: if the (seeded) operands have the chain value `Y`, the
result of `DSS.bdalg .series` responds with `Y`. -/
theorem bdalg_series_resp {a : SOperand K} {l : List (SOperand K)} {x : SOperand K} {s : K}
    {p m : Nat} {Y : Matrix (Fin p) (Fin m) K}
    (hs : SeriesSem ((bdSeed a l :: l).map SSTree.leaf) s p m Y)
    (h : bdalg .series (a :: l) = .ok x) : (toSys x).Resp s p m Y := by
  obtain ⟨t, ht, he⟩ := bdalg_eq_eval .series a l
  exact series_resp hs ht (he ▸ h)

theorem bdalg_parallel_resp {a : SOperand K} {l : List (SOperand K)} {x : SOperand K} {s : K}
    {p m : Nat} {Y : Matrix (Fin p) (Fin m) K}
    (hs : ParallelSem ((bdSeed a l :: l).map SSTree.leaf) s p m Y)
    (h : bdalg .parallel (a :: l) = .ok x) : (toSys x).Resp s p m Y := by
  obtain ⟨t, ht, he⟩ := bdalg_eq_eval .parallel a l
  exact parallel_resp hs ht (he ▸ h)

theorem bdalg_append_resp {a : SOperand K} {l : List (SOperand K)} {x : SOperand K} {s : K}
    {p m : Nat} {Y : Matrix (Fin p) (Fin m) K}
    (hs : AppendSem ((bdSeed a l :: l).map SSTree.leaf) s p m Y)
    (h : bdalg .append (a :: l) = .ok x) : (toSys x).Resp s p m Y := by
  obtain ⟨t, ht, he⟩ := bdalg_eq_eval .append a l
  exact append_resp_n hs ht (he ▸ h)

/-- an error of an n-ary call is the error of the first fold step that raises (by
`bdalg_eq_eval` and the definition of `SSTree.eval`); with one operand there is none. -/
theorem bdalg_single (f : BdFn) (a : SOperand K) : bdalg f [a] = .ok a := rfl

/-! ### `negate`, `feedback` -/

/-- `negate(e)` realises `-Y`. -/
theorem negate_resp {e : SSTree K} {s : K} {p m : Nat} {Y : Matrix (Fin p) (Fin m) K}
    (h : DSem e s p m Y) {x : SOperand K} (hx : (negate e).eval = .ok x) :
    (toSys x).Resp s p m (-Y) :=
  RT.dtree_resp (DSem.neg h) x hx

/-- `bdalg.feedback(sys1, sys2, sign)` realises `Y₁ (I - sign Y₂ Y₁)⁻¹`, also for a constant
`sys1`. -/
theorem feedbackFn_resp {a b : SOperand K} {R : DSS K} {sign s : K} {p m : Nat}
    {Y₁ : Matrix (Fin p) (Fin m) K} {Y₂ : Matrix (Fin m) (Fin p) K}
    (ha : (toSys a).Resp s p m Y₁) (hb : (toSys b).Resp s m p Y₂)
    (N : Matrix (Fin m) (Fin m) K) (hN : (1 - sign • (Y₂ * Y₁)) * N = 1)
    (hR : feedbackFn a b sign = .ok R) : R.Resp s p m (Y₁ * N) :=
  RT.feedback_resp ha hb N hN hR

/-! ### non-vacuity: the order of the operands of `series` matters -/

section examples

/-- three static 2 × 2 gains that do not commute. -/
def g1 : Matrix (Fin 2) (Fin 2) ℚ := !![1, 2; 3, 4]
def g2 : Matrix (Fin 2) (Fin 2) ℚ := !![0, 1; 1, 1]
def g3 : Matrix (Fin 2) (Fin 2) ℚ := !![1, 0; 2, 1]

/-- `series(g1, g2, g3)` has the value `g3 g2 g1` … -/
example (s : ℚ) :
    Chain [.leaf (.array 2 2 g1), .leaf (.array 2 2 g2), .leaf (.array 2 2 g3)] s 2 2
      ([g1, g2, g3].reverse.prod) :=
  series_prod [(.leaf (.array 2 2 g1), g1), (.leaf (.array 2 2 g2), g2), (.leaf (.array 2 2 g3), g3)]
    (by simp) (by
      intro e he
      simp only [List.mem_cons, List.not_mem_nil, or_false] at he
      rcases he with rfl | rfl | rfl <;> exact DSem.array _ _ _ _)

/-- … which is not `g3 g1 g2` (what a fold started from the last operand gives). -/
theorem series_order_matters : g3 * g2 * g1 ≠ g3 * g1 * g2 := by
  intro h
  have := congrFun (congrFun h 0) 0
  simp [g1, g2, g3, Matrix.mul_apply, Fin.sum_univ_two] at this

/-- a non-square chain 2 → 3 → 1: `series` of a `3 × 2` and a `1 × 3` operand is `1 × 2`. -/
example (s : ℚ) (M₁ : Matrix (Fin 3) (Fin 2) ℚ) (M₂ : Matrix (Fin 1) (Fin 3) ℚ) :
    SeriesSem [.leaf (.array 3 2 M₁), .leaf (.array 1 3 M₂)] s 1 2 (M₂ * M₁) :=
  SeriesSem.snoc (l := [_]) (.one (DSem.array _ _ _ _)) (DSem.array _ _ _ _)

/-- the driver's fold on three static gains (as systems) returns a 2 × 2 system without states. -/
example :
    (bdalg .series [.sys (ofMatrix 2 2 g1), .sys (ofMatrix 2 2 g2), .sys (ofMatrix 2 2 g3)]).toOption.map
      (fun x => ((toSys x).n, (toSys x).p, (toSys x).m)) = some (0, 2, 2) := by
  decide

end examples

end CtrlVerif.C02.Bd
