/-
C07, source-text tie (tag py2lean-interconnect), part A: `InputOutputSystem._find_signals`,
`find_input(s)`, `find_output(s)` (control/iosys.py), as regenerated from the tree under check
(`Generated/ICXFind.lean`), equal the model's `IC.findSignals` / `IC.lookup` — base names expanding to
all `name[i]` in DICTIONARY order (`withBase`), slices `name[a:b]`, exact names, the final `None` test.

Proof method: nothing refers to the text of the generated function.  The loops are rewritten by
`foldlM_names` / `foldlM_append` ("a loop whose body is pointwise `acc ++ h x` collects `flatMap h`"),
whose side conditions are discharged by evaluation of the loop body on a generic element.
-/
import CtrlVerif.Generated.ICXFind
import CtrlVerif.Lemmas.PyICX

namespace CtrlVerif.C07GenX

open CtrlVerif.IC CtrlVerif.PyIC CtrlVerif.PyICX

variable {K : Type} [Field K] [DecidableEq K]

/-- the keys of a dictionary are distinct. -/
def IsDict (labels : List Label) : Prop := (labels.map (·.raw)).Nodup

/-- selection predicate of the slice loop, as the model's `withBase` states it. -/
def selSlice (b : String) (lo hi : Option Nat) (l : Label) : Bool :=
  match l.idx with
  | some (b', n) => b' == b && inRange lo hi n
  | none => false

/-- selection predicate of the base-name loop. -/
def selBase (b : String) (l : Label) : Bool :=
  match l.idx with
  | some (b', _) => b' == b
  | none => false

theorem withBase_sel (labels : List Label) (b : String) (ok : Nat → Bool) :
    withBase labels b ok =
      labels.zipIdx.filterMap fun lk =>
        if (match lk.1.idx with | some (b', n) => b' == b && ok n | none => false) then some lk.2
        else none := by
  unfold withBase
  congr 1
  funext lk
  cases lk.1.idx with
  | none => simp
  | some p => rfl

/-- a scalar `name_list` is wrapped into a one-element list; a tuple is iterated like a list. -/
theorem generated_findSignals_wrap (labels : List Label) (v : Val K)
    (h : isinstance v [.list, .tuple] = false) :
    Generated.icxFindSignals v labels = Generated.icxFindSignals (.list [v]) labels := by
  unfold Generated.icxFindSignals
  simp [h]

theorem generated_findSignals_tuple (labels : List Label) (l : List (Val K)) :
    Generated.icxFindSignals (.tuple l) labels = Generated.icxFindSignals (.list l) labels := by
  unfold Generated.icxFindSignals
  simp [isinstance, isinstance1]

/-- **`_find_signals` on a list of names, as the source text defines it, is the model's
`findSignals`** (the values of `sigdict.get` are positions: `·.map some`); a non-string entry raises
TypeError in both. -/
theorem generated_findSignals_list (labels : List Label) (hd : IsDict labels) (l : List (Val K)) :
    Generated.icxFindSignals (.list l) labels =
      (l.mapM strOf).map fun names =>
        (IC.findSignals labels (names.map Str.tok)).map (·.map some) := by
  unfold Generated.icxFindSignals
  simp only [isinstance_list_list, List.contains_cons, List.contains_nil, Bool.or_false, Bool.not_true,
    Bool.false_eq_true, if_false, pure_eq_ok, ok_bind, iter_list]
  rw [foldlM_names (h := fun s => findOne labels s.tok)]
  · cases l.mapM strOf with
    | error e => rfl
    | ok names =>
      simp only [map_ok, ok_bind, List.nil_append, IC.findSignals]
      rw [final_none, List.flatMap_map]
  · -- a string: the three kinds of names
    intro acc s
    cases ht : s.tok with
    | slice b lo hi =>
      simp only [reSlice, reBase, ht, ok_bind, pure_eq_ok]
      rw [foldlM_append (h := fun var => if selSlice b lo hi var then [dictGet labels var] else [])]
      · rw [flatMap_dictGet labels hd (selSlice b lo hi)]
        simp only [ok_bind, findOne, withBase_sel]
        rfl
      · intro acc x _
        obtain ⟨raw, idx⟩ := x
        cases idx with
        | none => simp [reIdx, selSlice]
        | some p =>
          obtain ⟨b', n⟩ := p
          cases lo <;> cases hi <;> simp [reIdx, selSlice, inRange] <;> split <;> simp_all
    | base nm =>
      simp only [reSlice, reBase, ht, ok_bind, pure_eq_ok, dictGetVal, keyText]
      cases hl : lookup labels nm with
      | some k => simp [findOne, hl]
      | none =>
        simp only [Option.isNone_none, if_true]
        rw [foldlM_append (h := fun var => if selBase nm var then [dictGet labels var] else [])]
        · rw [flatMap_dictGet labels hd (selBase nm)]
          simp only [ok_bind, findOne, hl, withBase_sel, Bool.and_true]
          rfl
        · intro acc x _
          obtain ⟨raw, idx⟩ := x
          cases idx with
          | none => simp [reNameIdx, selBase]
          | some p =>
            obtain ⟨b', n⟩ := p
            by_cases hb : b' = nm <;> simp [reNameIdx, selBase, keyText, ht, hb]
    | exact nm =>
      simp [reSlice, reBase, ht, dictGetVal, keyText, findOne]
  · -- anything else: `re.match` raises TypeError
    intro acc x hx
    cases x with
    | str s => exact absurd rfl (hx s)
    | _ => simp [reSlice, reBase]

/-- **`generated_findSignals_eq`: `_find_signals(name_list, sigdict)` of the source text is the
model's `findSignals` on the tokens of the names**, for EVERY value of `name_list` (a string, a list
or a tuple of strings; anything else raises TypeError in both) and every dictionary. -/
theorem generated_findSignals_eq (labels : List Label) (hd : IsDict labels) (v : Val K) :
    Generated.icxFindSignals v labels =
      (nameList v).map fun names =>
        (IC.findSignals labels (names.map Str.tok)).map (·.map some) := by
  cases v with
  | list l => rw [generated_findSignals_list labels hd, nameList_list_eq]
  | tuple l =>
    rw [generated_findSignals_tuple, generated_findSignals_list labels hd, nameList_tuple_eq]
  | str s =>
    rw [generated_findSignals_wrap _ _ (by simp [isinstance, isinstance1]),
      generated_findSignals_list labels hd]
    simp [strOf, List.mapM_cons]
  | none =>
    rw [generated_findSignals_wrap _ _ (by simp), generated_findSignals_list labels hd]
    simp [strOf, List.mapM_cons, nameList]
  | int i =>
    rw [generated_findSignals_wrap _ _ (by simp [isinstance, isinstance1]),
      generated_findSignals_list labels hd]
    simp [strOf, List.mapM_cons, nameList]
  | num x =>
    rw [generated_findSignals_wrap _ _ (by simp), generated_findSignals_list labels hd]
    simp [strOf, List.mapM_cons, nameList]
  | other =>
    rw [generated_findSignals_wrap _ _ (by simp), generated_findSignals_list labels hd]
    simp [strOf, List.mapM_cons, nameList]

/-- the primitive `PyIC.findSignals` that the generated `_parse_spec` calls (trusted until now) is the
translated `_find_signals`. -/
theorem generated_findSignals_prim (labels : List Label) (hd : IsDict labels) (v : Val K) :
    PyIC.findSignals labels v =
      (Generated.icxFindSignals v labels).map fun r =>
        match r with
        | some idxs => ofInts (idxs.filterMap fun i => i.map Int.ofNat)
        | Option.none => .none := by
  rw [generated_findSignals_eq labels hd, PyIC.findSignals]
  cases nameList v with
  | error e => rfl
  | ok names =>
    simp only [map_ok, findVal]
    cases IC.findSignals labels (names.map Str.tok) with
    | none => rfl
    | some r =>
      simp [List.filterMap_map, Function.comp_def]
      rfl

/-- `find_inputs` / `find_outputs`: `_find_signals` on `input_index` / `output_index`. -/
theorem generated_findInputs_eq (ins outs : List Label) (hd : IsDict ins) (v : Val K) :
    Generated.icxFindInputs ins outs v =
      (nameList v).map fun names => (IC.findSignals ins (names.map Str.tok)).map (·.map some) := by
  unfold Generated.icxFindInputs
  rw [generated_findSignals_eq ins hd]

theorem generated_findOutputs_eq (ins outs : List Label) (hd : IsDict outs) (v : Val K) :
    Generated.icxFindOutputs ins outs v =
      (nameList v).map fun names => (IC.findSignals outs (names.map Str.tok)).map (·.map some) := by
  unfold Generated.icxFindOutputs
  rw [generated_findSignals_eq outs hd]

/-- `find_input` / `find_output`: the dictionary look-up `IC.lookup` by the text of the name. -/
theorem generated_findInput_eq (ins outs : List Label) (s : Str) :
    Generated.icxFindInput ins outs (.str s : Val K) = .ok (lookup ins (keyText s)) := rfl

theorem generated_findOutput_eq (ins outs : List Label) (s : Str) :
    Generated.icxFindOutput ins outs (.str s : Val K) = .ok (lookup outs (keyText s)) := rfl

/-! ### the model's headline facts about signal look-up, for the generated function -/

theorem mapM_id_some (q : List Nat) : (q.map some).mapM id = some q := by
  induction q with
  | nil => rfl
  | cons x q ih => simp [List.mapM_cons, ih]

/-- a base name that is not itself a key expands to ALL keys `name[i]`, in dictionary order. -/
theorem generated_findSignals_base_order (labels : List Label) (hd : IsDict labels) (s : Str) (nm : String)
    (ht : s.tok = .base nm) (hl : lookup labels nm = none)
    (hne : (withBase labels nm fun _ => true) ≠ []) :
    Generated.icxFindSignals (.str s : Val K) labels =
      .ok (some ((withBase labels nm fun _ => true).map some)) := by
  rw [generated_findSignals_eq labels hd]
  simp only [nameList_str, map_ok, List.map_cons, List.map_nil, ht, IC.findSignals, List.flatMap_cons,
    List.flatMap_nil, List.append_nil, findOne, hl]
  rw [mapM_id_some]
  cases hw : withBase labels nm fun _ => true with
  | nil => exact absurd hw hne
  | cons a r => simp

/-- a slice `name[a:b]` selects the keys `name[i]`, `a ≤ i < b`, in dictionary order; an empty
selection is `None`. -/
theorem generated_findSignals_slice (labels : List Label) (hd : IsDict labels) (s : Str) (b : String)
    (lo hi : Option Nat) (ht : s.tok = .slice b lo hi) :
    Generated.icxFindSignals (.str s : Val K) labels =
      .ok (if (withBase labels b (inRange lo hi)).isEmpty then none
           else some ((withBase labels b (inRange lo hi)).map some)) := by
  rw [generated_findSignals_eq labels hd]
  simp only [nameList_str, map_ok, List.map_cons, List.map_nil, ht, IC.findSignals, List.flatMap_cons,
    List.flatMap_nil, List.append_nil, findOne]
  rw [mapM_id_some]
  cases withBase labels b (inRange lo hi) with
  | nil => simp
  | cons a r => simp

/-- non-vacuity: the dictionary `{x[1]: 0, y: 1, x[0]: 2}`; the base name `x` gives `[0, 2]`
(dictionary order, not numeric order), the slice `x[0:1]` gives `[2]`, an unknown name `None`. -/
example :
    let labels : List Label := [⟨"x[1]", some ("x", 1)⟩, ⟨"y", none⟩, ⟨"x[0]", some ("x", 0)⟩]
    Generated.icxFindSignals (.str ⟨"x", .base "x", []⟩ : Val ℚ) labels = .ok (some [some 0, some 2]) ∧
    Generated.icxFindSignals (.str ⟨"x[0:1]", .slice "x" (some 0) (some 1), []⟩ : Val ℚ) labels
      = .ok (some [some 2]) ∧
    Generated.icxFindSignals (.tuple [.str ⟨"y", .base "y", []⟩, .str ⟨"x[1]", .exact "x[1]", []⟩] : Val ℚ) labels
      = .ok (some [some 1, some 0]) ∧
    Generated.icxFindSignals (.str ⟨"z", .base "z", []⟩ : Val ℚ) labels = .ok none ∧
    Generated.icxFindSignals (.int 3 : Val ℚ) labels = .error .badArg := by
  refine ⟨by decide, by decide, by decide, by decide, by decide⟩

end CtrlVerif.C07GenX
