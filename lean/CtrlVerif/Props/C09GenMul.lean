/-
Source-text tie of C09, part 3: `FrequencyResponseData.__mul__` and `__rmul__`.
`Generated/FRDMul.lean` is rewritten from control/frdata.py on every run (harness/core/py2lean_frd.py);
the theorems below prove the run-time model operators `DFRD.mul`, `DFRD.rmul` (`Model/FRDDyn.lean`:
scalar fast path, `mulCore` / `rmulCore` with their two different promotion sizes) EQUAL to the
generated functions for every kind of operand — including the SISO promotion
`bdalg.append(*([g] * k))` (a fold of the GENERATED `append`, proved to be the model's `diagOf`), the
size check, the loop `frdata[:, :, i] = self.frdata[:, :, i] @ other.frdata[:, :, i]` over the
frequency index, the `smooth` flag and the timebase.
-/
import CtrlVerif.Generated.FRDMul
import CtrlVerif.Props.C09GenBasic
import CtrlVerif.Lemmas.C09Expr

set_option linter.unusedSimpArgs false
set_option linter.unusedSectionVars false

namespace CtrlVerif.C09Gen

open Matrix CtrlVerif

variable {K : Type} [Field K] [DecidableEq K]

/-- `bdalg.append(*([g] * k))` with the generated `append`, for a SISO `g` and `k ≥ 1`, is the
model's `diagOf`. -/
theorem generated_appendCopies_eq (E : Env K) {n : Nat} (g : DFRD K n) (dt : Dt) (k : Nat)
    (hs : g.isSiso = true) (hwf : g.WF) (hk : 0 < k) :
    PyFRD.appendCopies (Generated.frdAppend E) (PyFRD.of g dt) k = .ok (PyFRD.of (g.diagOf k) dt) := by
  obtain ⟨p, m, ⟨w, d⟩, sm⟩ := g
  simp only [DFRD.isSiso, Bool.and_eq_true, beq_iff_eq] at hs
  obtain ⟨hp, hm⟩ := hs
  subst hp hm
  induction k using Nat.strongRecOn with
  | _ k ih =>
    match k, hk with
    | 1, _ =>
      simp only [PyFRD.appendCopies, PyFRD.of, DFRD.diagOf]
      congr 4
      funext j
      ext a b
      have ha : a = 0 := Subsingleton.elim _ _
      have hb : b = 0 := Subsingleton.elim _ _
      subst ha hb
      simp [DFRD.g00]
    | k + 2, _ =>
      rw [PyFRD.appendCopies, ih (k + 1) (by omega) (by omega), Except.ok_bind']
      have := generated_append_eq E (DFRD.diagOf ⟨1, 1, ⟨w, d⟩, sm⟩ (k + 1)) dt (.frd (PyFRD.of ⟨1, 1, ⟨w, d⟩, sm⟩ dt)) dt
        trivial trivial ⟨by simp [DFRD.diagOf], by simp [DFRD.diagOf]⟩ ⟨by simp [PyFRD.of], by simp [PyFRD.of]⟩
        hwf (common_self dt)
      rw [this]
      simp only [DFRD.append, PyOpd.erase, PyFRD.of, DFRD.convert, dite_true, bind, Except.bind, DFRD.diagOf]
      have hgm : FRD.gridMatch w w = true := by simp [FRD.gridMatch]
      simp only [FRD.castN_rfl, hgm, if_true, Except.map, pure, Except.pure, DFRD.appendCore]
      congr 4
      simp only [FRD.flatten, FRD.append]
      congr 1
      funext j
      ext a b
      simp only [submatrix_apply]
      refine Fin.addCases (fun a' => ?_) (fun a' => ?_) a <;> refine Fin.addCases (fun b' => ?_) (fun b' => ?_) b
      · simp [finSumFinEquiv_symm_apply_castAdd, diagonal_apply, Fin.ext_iff]
      · have := a'.isLt
        simp [finSumFinEquiv_symm_apply_castAdd, finSumFinEquiv_symm_apply_natAdd, diagonal_apply, Fin.ext_iff]
        omega
      · have := b'.isLt
        simp [finSumFinEquiv_symm_apply_castAdd, finSumFinEquiv_symm_apply_natAdd, diagonal_apply, Fin.ext_iff]
        omega
      · have ha : a' = 0 := Subsingleton.elim _ _
        have hb : b' = 0 := Subsingleton.elim _ _
        subst ha hb
        simp [finSumFinEquiv_symm_apply_natAdd, DFRD.g00]

theorem issiso_of {n : Nat} (G : DFRD K n) (dt : Dt) : PyFRD.issiso (PyFRD.of G dt) = G.isSiso := rfl

/-- the size check, the loop over the frequency index and the constructor call of `__mul__`. -/
theorem generated_mulCore (E : Env K) {n : Nat} (G H : DFRD K n) (dt dt' d : Dt) (hd : common dt dt' = .ok d)
    (hG : 0 < G.m) (hH : 0 < H.p) (hwfG : G.WF) (hwfH : H.WF) :
    Generated.frdMulCore E (PyFRD.of G dt) (PyFRD.of H dt') = (DFRD.mulCore G H).map fun R => PyFRD.of R d := by
  have aligned : ∀ (G' H' : DFRD K n), G'.WF →
      (if PyFRD.ninputs (PyFRD.of G' dt) ≠ PyFRD.noutputs (PyFRD.of H' dt') then (throw Err.shape : Except Err (PyFRD K))
       else do
        let dt ← common (PyFRD.of G' dt).dt (PyFRD.of H' dt').dt
        let inputs : Nat := (PyFRD.ninputs (PyFRD.of H' dt'))
        let outputs : Nat := (PyFRD.noutputs (PyFRD.of G' dt))
        let frdata : PArr3 K := (PArr3.empty outputs inputs (PyFRD.omega (PyFRD.of G' dt)).n)
        let frdata ← List.foldlM (fun (frdata : PArr3 K) (i : Nat) => (do
            let t1 ← PArr3.getFreq (PyFRD.frdata (PyFRD.of G' dt)) i
            let t2 ← PArr3.getFreq (PyFRD.frdata (PyFRD.of H' dt')) i
            let t3 ← PMat.matmul t1 t2
            let frdata ← PArr3.setFreq frdata i t3
            pure frdata
            : Except Err (PArr3 K))) frdata (List.range (PyFRD.omega (PyFRD.of G' dt)).n)
        PyFRD.ctor frdata (PyFRD.omega (PyFRD.of G' dt)) dt ((PyFRD.smooth (PyFRD.of G' dt)) && (PyFRD.smooth (PyFRD.of H' dt'))))
      = (DFRD.mulAligned G' H').map fun R => PyFRD.of R d := by
    intro G' H' hwf
    obtain ⟨p, q, ⟨w, X⟩, sm⟩ := G'
    obtain ⟨q', m, ⟨w', Y⟩, sm'⟩ := H'
    simp only [PyFRD.of, PyFRD.ninputs, PyFRD.noutputs, PyFRD.frdata, PyFRD.omega, PyFRD.smooth, DFRD.mulAligned]
    by_cases h : q = q'
    · subst h
      simp only [ne_eq, not_true_eq_false, if_false, hd, bind, Except.bind, PArr3.empty_def, dite_true,
        FRD.castShape_rfl, pure, Except.pure]
      rw [PArr3.foldlM_setFreq p m n (fun k => X k * Y k) _ (by
        intro d0 i hi
        simp [PArr3.getFreq_mk _ _ _ _ _ hi, PArr3.setFreq_mk _ _ _ _ _ hi])]
      simp only [PyFRD.ctor_mk]
      have : ¬ ((sm && sm') = true ∧ n < 2) := fun hc => by
        have := hwf (by simp only [Bool.and_eq_true] at hc; exact hc.1.1)
        omega
      simp only [this, if_false, Except.map, FRD.mul]
    · simp [h, throw, throwThe, MonadExceptOf.throw, Except.map]
  have hdiagG : ∀ k, (G.diagOf k).WF := fun k => hwfG
  simp only [Generated.frdMulCore, DFRD.mulCore, issiso_of]
  by_cases hGs : G.isSiso = true <;> by_cases hHs : H.isSiso = true <;>
    simp only [hGs, hHs, Bool.false_eq_true, not_false_eq_true, not_true_eq_false, and_true, and_false, false_and,
      true_and, and_self, if_true, if_false, Bool.not_true, Bool.not_false, Bool.and_true, Bool.and_false,
      Bool.false_and, Bool.true_and, Bool.not_eq_true, bind, Except.bind, pure, Except.pure]
  · exact aligned G H hwfG
  · rw [show PyFRD.noutputs (PyFRD.of H dt') = H.p from rfl, generated_appendCopies_eq E G dt H.p hGs hwfG hH]
    simp only [Bool.not_eq_true] at hHs
    simp only [hHs, Bool.not_false, Bool.and_true, if_true]
    exact aligned (G.diagOf H.p) H (hdiagG _)
  · rw [show PyFRD.ninputs (PyFRD.of G dt) = G.m from rfl, generated_appendCopies_eq E H dt' G.m hHs hwfH hG]
    simp only [Bool.not_eq_true] at hGs
    simp only [hGs, Bool.not_false, Bool.true_and, Bool.false_and, Bool.false_eq_true, if_true, if_false]
    exact aligned G (H.diagOf G.m) hwfG
  · exact aligned G H hwfG

/-- a converted operand satisfies the class invariant. -/
theorem convert_wf (E : Env K) {n : Nat} (omega : Fin n → ℚ) (x : PyOpd K) (p m : Nat) (H : DFRD K n)
    (h : DFRD.convert E omega p m x.erase = .ok H) (hg : GridOK omega x) (hx : x.WF) : H.WF := by
  cases x with
  | frd F =>
    obtain ⟨n', F, dt⟩ := F
    simp only [PyOpd.erase, DFRD.convert] at h
    split at h
    · rename_i hn
      subst hn
      split at h
      · injection h with h; subst h; exact hx
      · exact absurd h (by simp)
    · exact absurd h (by simp)
  | scalar c => exact fun _ => hg
  | array p' m' D => exact fun _ => hg
  | lti L => exact fun _ => hg.1

/-- **`__mul__`**: the function the source text defines is the model's `DFRD.mul`, for every kind of
right operand, with the common timebase.  Hypotheses: the grid condition of the conversion, no empty
dimension on the sides that may be promoted (`bdalg.append(*([g] * 0))` raises), the class invariant
of both operands, compatible timebases. -/
theorem generated_mul_eq (E : Env K) {n : Nat} (G : DFRD K n) (dt : Dt) (x : PyOpd K) (d : Dt)
    (hg : GridOK G.sys.omega x) (hG : 0 < G.m) (hxne : x.NonEmpty) (hwf : G.WF) (hxwf : x.WF)
    (hd : common dt x.dt = .ok d) :
    Generated.frdMul E (PyFRD.of G dt) x = (DFRD.mul E G x.erase).map fun R => PyFRD.of R d := by
  have core : ∀ H : DFRD K n, DFRD.convert E G.sys.omega 1 1 x.erase = .ok H →
      Generated.frdMulCore E (PyFRD.of G dt) (PyFRD.of H x.dt) = (DFRD.mulCore G H).map fun R => PyFRD.of R d :=
    fun H hH => generated_mulCore E G H dt x.dt d hd hG
      (convert_pos E _ x 1 1 H hH hxne Nat.one_pos Nat.one_pos).1 hwf (convert_wf E _ x 1 1 H hH hg hxwf)
  cases x with
  | scalar c =>
    obtain ⟨p, m, ⟨w, g⟩, sm⟩ := G
    have hd' : d = dt := by
      have := common_none_right dt
      simp only [PyOpd.dt] at hd
      rw [this] at hd
      injection hd with hd
      exact hd.symm
    subst hd'
    simp only [Generated.frdMul, PyFRD.of, PyFRD.frdata, PyFRD.omega, PyFRD.smooth, PArr3.mulNum_mk, PyFRD.ctor_mk,
      DFRD.mul, PyOpd.erase, Except.map]
    have : ¬ (sm = true ∧ n < 2) := fun hc => by
      have := hwf hc.1
      omega
    simp only [this, if_false]
    rfl
  | frd F => exact generated_convert_bind E G.sys.omega (.frd F) _ _ hg _ _ d core
  | array p' m' D => exact generated_convert_bind E G.sys.omega (.array p' m' D) _ _ hg _ _ d core
  | lti L => exact generated_convert_bind E G.sys.omega (.lti L) _ _ hg _ _ d core

/-- the size check, the loop over the frequency index and the constructor call of `__rmul__`. -/
theorem generated_rmulCore (E : Env K) {n : Nat} (G H : DFRD K n) (dt dt' d : Dt) (hd : common dt dt' = .ok d)
    (hG : 0 < G.p) (hH : 0 < H.m) (hwfG : G.WF) (hwfH : H.WF) :
    Generated.frdRmulCore E (PyFRD.of G dt) (PyFRD.of H dt') = (DFRD.rmulCore G H).map fun R => PyFRD.of R d := by
  have aligned : ∀ (G' H' : DFRD K n), G'.WF →
      (if PyFRD.noutputs (PyFRD.of G' dt) ≠ PyFRD.ninputs (PyFRD.of H' dt') then (throw Err.shape : Except Err (PyFRD K))
       else do
        let dt ← common (PyFRD.of G' dt).dt (PyFRD.of H' dt').dt
        let inputs : Nat := (PyFRD.ninputs (PyFRD.of G' dt))
        let outputs : Nat := (PyFRD.noutputs (PyFRD.of H' dt'))
        let frdata : PArr3 K := (PArr3.empty outputs inputs (PyFRD.omega (PyFRD.of G' dt)).n)
        let frdata ← List.foldlM (fun (frdata : PArr3 K) (i : Nat) => (do
            let t1 ← PArr3.getFreq (PyFRD.frdata (PyFRD.of H' dt')) i
            let t2 ← PArr3.getFreq (PyFRD.frdata (PyFRD.of G' dt)) i
            let t3 ← PMat.matmul t1 t2
            let frdata ← PArr3.setFreq frdata i t3
            pure frdata
            : Except Err (PArr3 K))) frdata (List.range (PyFRD.omega (PyFRD.of G' dt)).n)
        PyFRD.ctor frdata (PyFRD.omega (PyFRD.of G' dt)) dt ((PyFRD.smooth (PyFRD.of G' dt)) && (PyFRD.smooth (PyFRD.of H' dt'))))
      = (FRDTree.rmulAligned G' H' (G'.smooth && H'.smooth)).map fun R => PyFRD.of R d := by
    intro G' H' hwf
    obtain ⟨p, m, ⟨w, X⟩, sm⟩ := G'
    obtain ⟨q, p', ⟨w', Y⟩, sm'⟩ := H'
    simp only [PyFRD.of, PyFRD.ninputs, PyFRD.noutputs, PyFRD.frdata, PyFRD.omega, PyFRD.smooth, FRDTree.rmulAligned]
    by_cases h : p = p'
    · subst h
      simp only [ne_eq, not_true_eq_false, if_false, hd, bind, Except.bind, PArr3.empty_def, dite_true,
        FRD.castShape_rfl, pure, Except.pure]
      rw [PArr3.foldlM_setFreq q m n (fun k => Y k * X k) _ (by
        intro d0 i hi
        simp [PArr3.getFreq_mk _ _ _ _ _ hi, PArr3.setFreq_mk _ _ _ _ _ hi])]
      simp only [PyFRD.ctor_mk]
      have : ¬ ((sm && sm') = true ∧ n < 2) := fun hc => by
        have := hwf (by simp only [Bool.and_eq_true] at hc; exact hc.1.1)
        omega
      simp only [this, if_false, Except.map, FRD.rmul]
    · have h' : ¬ p' = p := fun e => h e.symm
      simp [h, h', throw, throwThe, MonadExceptOf.throw, Except.map]
  have hdiagG : ∀ k, (G.diagOf k).WF := fun k => hwfG
  have smG : ∀ k, (G.diagOf k).smooth = G.smooth := fun k => rfl
  have smH : ∀ k, (H.diagOf k).smooth = H.smooth := fun k => rfl
  rw [FRDTree.rmulCore_eq]
  simp only [Generated.frdRmulCore, issiso_of]
  by_cases hGs : G.isSiso = true <;> by_cases hHs : H.isSiso = true <;>
    simp only [hGs, hHs, Bool.false_eq_true, not_false_eq_true, not_true_eq_false, and_true, and_false, false_and,
      true_and, and_self, if_true, if_false, Bool.not_true, Bool.not_false, Bool.and_true, Bool.and_false,
      Bool.false_and, Bool.true_and, Bool.not_eq_true, bind, Except.bind, pure, Except.pure]
  · exact aligned G H hwfG
  · rw [show PyFRD.ninputs (PyFRD.of H dt') = H.m from rfl, generated_appendCopies_eq E G dt H.m hGs hwfG hH]
    simp only [Bool.not_eq_true] at hHs
    simp only [hHs, Bool.not_false, Bool.and_true, if_true]
    have := aligned (G.diagOf H.m) H (hdiagG _)
    rw [smG] at this
    exact this
  · rw [show PyFRD.noutputs (PyFRD.of G dt) = G.p from rfl, generated_appendCopies_eq E H dt' G.p hHs hwfH hG]
    simp only [Bool.not_eq_true] at hGs
    simp only [hGs, Bool.not_false, Bool.true_and, Bool.false_and, Bool.false_eq_true, if_true, if_false]
    have := aligned G (H.diagOf G.p) hwfG
    rw [smH] at this
    exact this
  · exact aligned G H hwfG

/-- **`__rmul__`** (`other * self`): the function the source text defines is the model's `DFRD.rmul`,
for every kind of left operand, with the common timebase (the promotion sizes are `other.ninputs`
and `self.noutputs` here). -/
theorem generated_rmul_eq (E : Env K) {n : Nat} (G : DFRD K n) (dt : Dt) (x : PyOpd K) (d : Dt)
    (hg : GridOK G.sys.omega x) (hG : 0 < G.p) (hxne : x.NonEmpty) (hwf : G.WF) (hxwf : x.WF)
    (hd : common dt x.dt = .ok d) :
    Generated.frdRmul E (PyFRD.of G dt) x = (DFRD.rmul E G x.erase).map fun R => PyFRD.of R d := by
  have core : ∀ H : DFRD K n, DFRD.convert E G.sys.omega 1 1 x.erase = .ok H →
      Generated.frdRmulCore E (PyFRD.of G dt) (PyFRD.of H x.dt) = (DFRD.rmulCore G H).map fun R => PyFRD.of R d :=
    fun H hH => generated_rmulCore E G H dt x.dt d hd hG
      (convert_pos E _ x 1 1 H hH hxne Nat.one_pos Nat.one_pos).2 hwf (convert_wf E _ x 1 1 H hH hg hxwf)
  cases x with
  | scalar c =>
    obtain ⟨p, m, ⟨w, g⟩, sm⟩ := G
    have hd' : d = dt := by
      have := common_none_right dt
      simp only [PyOpd.dt] at hd
      rw [this] at hd
      injection hd with hd
      exact hd.symm
    subst hd'
    simp only [Generated.frdRmul, PyFRD.of, PyFRD.frdata, PyFRD.omega, PyFRD.smooth, PArr3.mulNum_mk, PyFRD.ctor_mk,
      DFRD.rmul, PyOpd.erase, Except.map]
    have : ¬ (sm = true ∧ n < 2) := fun hc => by
      have := hwf hc.1
      omega
    simp only [this, if_false]
    rfl
  | frd F => exact generated_convert_bind E G.sys.omega (.frd F) _ _ hg _ _ d core
  | array p' m' D => exact generated_convert_bind E G.sys.omega (.array p' m' D) _ _ hg _ _ d core
  | lti L => exact generated_convert_bind E G.sys.omega (.lti L) _ _ hg _ _ d core

end CtrlVerif.C09Gen
