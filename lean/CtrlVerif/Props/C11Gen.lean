/-
Source-text tie of C11 (tag py2lean-statefbk, notes/NOTES-py2lean-statefbk.md): umbrella import of the
five modules that prove the hand-written model of `control/statefbk.py` / `control/stochsys.py` equal to the
functions `harness/core/py2lean_sfb.py` regenerates from the source text on every run.

* `C11GenGram`  — `ctrb`, `obsv`
* `C11GenAcker` — `place_acker`, `acker`
* `C11GenSpec`  — specifications of `lqr dlqr lqe dlqe` in terms of the model, tie to `lqrDyn` / `lqeDyn`
* `C11GenLqr`   — `lqr`, `dlqr`
* `C11GenLqe`   — `lqe`, `dlqe`
-/
import CtrlVerif.Props.C11GenGram
import CtrlVerif.Props.C11GenAcker
import CtrlVerif.Props.C11GenSpec
import CtrlVerif.Props.C11GenLqr
import CtrlVerif.Props.C11GenLqe
