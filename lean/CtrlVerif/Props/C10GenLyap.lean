/-
Source-text tie for the BODIES of `lyap` and `dlyap` (control/mateqn.py, SciPy route; DESIGN §2.5 /
§10.3, notes/NOTES-py2lean-mateqn.md): `Generated/MatEqnLyap.lean`, `Generated/MatEqnDlyap.lean` are
rewritten on every run from the text of the two functions in the tree under check by
`harness/core/py2lean_meq.py` (argument arrays are the run-time shaped `DMat K` of the model,
`_check_shape` is the generated `Generated.checkShape` tied by `Props/C10Gen.lean`, matrix expressions
are untyped `PMat K`, the SciPy solvers are the parameter `Sv : Solvers K` of the model, reached through
the wrappers of `Model/PyMeq.lean`).  The hand-written run-time model `lyapD` / `dlyapD` (validation in
the order of the code, branch structure on `C` / `E`, `solve_continuous_lyapunov(A, -Q)`,
`solve_sylvester(A, Q, -C)`, `solve_discrete_lyapunov(A, Q)`, the branches that raise under SciPy) is
proved EQUAL to the generated functions for every solver record, every array (all sizes, entries,
dtypes), every combination of `C` / `E` given or `None`, `method` `None` or `'scipy'`; the other
values of `method` raise (`generated_*_slycot`, `generated_*_other`).

The deviation found by `Props/C10Gen.lean` is inherited and stated: when `Q` must be symmetric
(`C is None`) and is the `0 × 0` array, the source raises IndexError in `_is_symmetric`
(`generated_lyap_empty`, `generated_dlyap_empty`) where the model accepts / reports a shape error; the
equalities carry the hypothesis that `Q` is not `0 × 0` in that branch.
-/
import CtrlVerif.Generated.MatEqnLyap
import CtrlVerif.Generated.MatEqnDlyap
import CtrlVerif.Lemmas.PyMeq
import CtrlVerif.Props.C10GenMethod

namespace CtrlVerif.C10Gen

open CtrlVerif MatEqn PyMeq

variable {K : Type} [Field K] [LinearOrder K]

/-- **`lyap` as written in the source is the model's `lyapD`** (SciPy route): same validation errors in
the same order, same branch on `C` / `E`, the same solver applied to the same (negated) arguments. -/
theorem generated_lyap_eq (Sv : Solvers K) (A Q : DMat K) (C E : Option (DMat K)) (method : Method)
    (hm : method = .none ∨ method = .scipy)
    (hQ : C = none → ¬ (Q.p = 0 ∧ Q.q = 0)) :
    Generated.lyap Sv A Q C E method = (lyapD Sv A Q C E).map toP := by
  have hsc := generated_slycotOrScipy_scipy method hm
  unfold Generated.lyap lyapD lyapPlan
  simp only [hsc, array2d]
  cases C <;> cases E
  · have hQ' := hQ rfl
    simp only [bind, Except.bind, pure, Except.pure,
      gcs A A.p A.p true false (by simp), gcs Q A.p A.p true true (by simp [hQ'])]
    cases hA : checkShape A A.p A.p true false with
    | error e => simp [Except.map]
    | ok A' =>
      cases hQ2 : checkShape Q A.p A.p true true with
      | error e => simp [Except.map]
      | ok Q' =>
        simp only [checkShape_toP hA, checkShape_toP hQ2, PMat.neg_mk, solveContinuousLyapunov_mk]
        rfl
  · rename_i E
    have hQ' := hQ rfl
    simp only [bind, Except.bind, pure, Except.pure, throw, throwThe, MonadExceptOf.throw,
      gcs A A.p A.p true false (by simp), gcs Q A.p A.p true true (by simp [hQ']),
      gcs E A.p A.p true false (by simp)]
    cases hA : checkShape A A.p A.p true false with
    | error e => simp [Except.map]
    | ok A' =>
      cases hQ2 : checkShape Q A.p A.p true true with
      | error e => simp [Except.map]
      | ok Q' =>
        cases hE : checkShape E A.p A.p true false <;> simp [Except.map]
  · rename_i C
    simp only [bind, Except.bind, pure, Except.pure,
      gcs A A.p A.p true false (by simp), gcs Q Q.p Q.p true false (by simp),
      gcs C A.p Q.p false false (by simp)]
    cases hA : checkShape A A.p A.p true false with
    | error e => simp [Except.map]
    | ok A' =>
      cases hQ2 : checkShape Q Q.p Q.p true false with
      | error e => simp [Except.map]
      | ok Q' =>
        cases hC : checkShape C A.p Q.p false false with
        | error e => simp [Except.map]
        | ok C' =>
          simp only [checkShape_toP hA, checkShape_toP hQ2, checkShape_toP hC, PMat.neg_mk, solveSylvester_mk]
          rfl
  · simp only [bind, Except.bind, pure, Except.pure, throw, throwThe, MonadExceptOf.throw,
      gcs A A.p A.p true false (by simp)]
    cases hA : checkShape A A.p A.p true false <;> simp [Except.map]

/-- `method='slycot'` without Slycot: ControlSlycot before anything else. -/
theorem generated_lyap_slycot (Sv : Solvers K) (A Q : DMat K) (C E : Option (DMat K)) :
    Generated.lyap Sv A Q C E .slycot = .error .notImplemented := by
  simp [Generated.lyap, generated_slycotOrScipy_eq, bind, Except.bind, throw, throwThe, MonadExceptOf.throw]

/-- any other `method`: ControlArgument ("Unknown method"). -/
theorem generated_lyap_other (Sv : Solvers K) (A Q : DMat K) (C E : Option (DMat K)) :
    Generated.lyap Sv A Q C E .other = .error .badArg := by
  simp [Generated.lyap, generated_slycotOrScipy_eq, bind, Except.bind]

/-- the inherited deviation: `lyap(A, Q)` with a `0 × 0` weight raises IndexError (`M[0, 0]` in
`_is_symmetric`) once `A` has passed its squareness check. -/
theorem generated_lyap_empty (Sv : Solvers K) (A Q : DMat K) (E : Option (DMat K)) (method : Method)
    (hm : method = .none ∨ method = .scipy) (hA : A.q = A.p) (hQ : Q.p = 0 ∧ Q.q = 0) :
    Generated.lyap Sv A Q none E method = .error .indexRange := by
  have hsc := generated_slycotOrScipy_scipy method hm
  unfold Generated.lyap
  cases E <;>
    simp [hsc, array2d, bind, Except.bind, pure, Except.pure, gcs A A.p A.p true false (by simp),
      checkShape_square A hA, Except.map, generated_checkShape_empty_sym Q hQ.1 hQ.2]

/-- **`dlyap` as written in the source is the model's `dlyapD`** (SciPy route): `Q` is handed over
unchanged; with `C` or `E` it raises after the validation of that branch. -/
theorem generated_dlyap_eq (Sv : Solvers K) (A Q : DMat K) (C E : Option (DMat K)) (method : Method)
    (hm : method = .none ∨ method = .scipy)
    (hQ : C = none → ¬ (Q.p = 0 ∧ Q.q = 0)) :
    Generated.dlyap Sv A Q C E method = (dlyapD Sv A Q C E).map toP := by
  have hsc := generated_slycotOrScipy_scipy method hm
  unfold Generated.dlyap dlyapD dlyapPlan
  simp only [hsc, array2d]
  cases C <;> cases E
  · have hQ' := hQ rfl
    simp only [bind, Except.bind, pure, Except.pure,
      gcs A A.p A.p true false (by simp), gcs Q A.p A.p true true (by simp [hQ'])]
    cases hA : checkShape A A.p A.p true false with
    | error e => simp [Except.map]
    | ok A' =>
      cases hQ2 : checkShape Q A.p A.p true true with
      | error e => simp [Except.map]
      | ok Q' =>
        simp only [checkShape_toP hA, checkShape_toP hQ2, solveDiscreteLyapunov_mk]
        rfl
  · rename_i E
    have hQ' := hQ rfl
    simp only [bind, Except.bind, pure, Except.pure, throw, throwThe, MonadExceptOf.throw,
      gcs A A.p A.p true false (by simp), gcs Q A.p A.p true true (by simp [hQ']),
      gcs E A.p A.p true false (by simp)]
    cases hA : checkShape A A.p A.p true false with
    | error e => simp [Except.map]
    | ok A' =>
      cases hQ2 : checkShape Q A.p A.p true true with
      | error e => simp [Except.map]
      | ok Q' =>
        cases hE : checkShape E A.p A.p true false <;> simp [Except.map]
  · rename_i C
    simp only [bind, Except.bind, pure, Except.pure, throw, throwThe, MonadExceptOf.throw,
      gcs A A.p A.p true false (by simp), gcs Q Q.p Q.p true false (by simp),
      gcs C A.p Q.p false false (by simp)]
    cases hA : checkShape A A.p A.p true false with
    | error e => simp [Except.map]
    | ok A' =>
      cases hQ2 : checkShape Q Q.p Q.p true false with
      | error e => simp [Except.map]
      | ok Q' =>
        cases hC : checkShape C A.p Q.p false false <;> simp [Except.map]
  · simp only [bind, Except.bind, pure, Except.pure, throw, throwThe, MonadExceptOf.throw,
      gcs A A.p A.p true false (by simp)]
    cases hA : checkShape A A.p A.p true false <;> simp [Except.map]

theorem generated_dlyap_slycot (Sv : Solvers K) (A Q : DMat K) (C E : Option (DMat K)) :
    Generated.dlyap Sv A Q C E .slycot = .error .notImplemented := by
  simp [Generated.dlyap, generated_slycotOrScipy_eq, bind, Except.bind, throw, throwThe, MonadExceptOf.throw]

theorem generated_dlyap_other (Sv : Solvers K) (A Q : DMat K) (C E : Option (DMat K)) :
    Generated.dlyap Sv A Q C E .other = .error .badArg := by
  simp [Generated.dlyap, generated_slycotOrScipy_eq, bind, Except.bind]

theorem generated_dlyap_empty (Sv : Solvers K) (A Q : DMat K) (E : Option (DMat K)) (method : Method)
    (hm : method = .none ∨ method = .scipy) (hA : A.q = A.p) (hQ : Q.p = 0 ∧ Q.q = 0) :
    Generated.dlyap Sv A Q none E method = .error .indexRange := by
  have hsc := generated_slycotOrScipy_scipy method hm
  unfold Generated.dlyap
  cases E <;>
    simp [hsc, array2d, bind, Except.bind, pure, Except.pure, gcs A A.p A.p true false (by simp),
      checkShape_square A hA, Except.map, generated_checkShape_empty_sym Q hQ.1 hQ.2]

end CtrlVerif.C10Gen
