/-
Source-text tie of C01 (DESIGN §10.3, notes/NOTES-py2lean-bdalgfn.md): the functional wrappers of
`control/bdalg.py`, part 1: `feedback(sys1, sys2=1, sign=-1, **kwargs)` and `negate(sys, **kwargs)`.

`Generated/BdalgFnFeedback.lean` / `BdalgFnNegate.lean` are rewritten on every run from the text of the
wrappers of the tree under check by `harness/core/py2lean_bdalgfn.py` (trusted object layer:
`Model/PyBdalg.lean`).  The hand-written model `Model/TFCall.lean` is proved EQUAL to them: for every
operand kind on either side (system / scalar of any number class / array), every `sign`, passed or
defaulted, `sys2` passed or defaulted, with and without naming keywords (the keyword path goes through
the `except (AttributeError, TypeError)` branch), whichever object-identity / TypeError oracle `w`.
-/
import CtrlVerif.Generated.BdalgFnFeedback
import CtrlVerif.Generated.BdalgFnNegate
import CtrlVerif.Lemmas.C01GenFn

set_option linter.unusedSectionVars false
set_option linter.unusedSimpArgs false

namespace CtrlVerif.C01GenFn
open CtrlVerif PyBdalg

variable {K : Type} [Field K] [DecidableEq K]

/-! ### `feedback` -/

/-- `bdalg.feedback(a, b, sign, **kw)` as the source text computes it is the model's `feedbackFn a b sign`:
the first argument converted when it is a scalar / array, the method of the result **with the sign
that was passed**, on the path without naming keywords (the `try`) and on the path with them (the
`except` branch, `update_names`). -/
theorem generated_feedback_eq (w : World) (ka kb : NumKind) (a b : Operand K) (sign : K) (kw : Kw) :
    Generated.BdalgFn.feedback w (Val.ofOp ka a) (some (Val.ofOp kb b)) (some sign) kw
      = liftR (DTF.feedbackFn a b sign) := by
  have hb := toOperand_ofOp kb b
  have hb1 := isinstance_ofOp_any kb b
  have hb2 := isinstance_ofOp_tf kb b
  generalize Val.ofOp kb b = vb at hb hb1 hb2
  unfold Generated.BdalgFn.feedback
  cases a with
  | sys G =>
    simp only [ofOp_sys, Option.getD_some, feedbackM_tf _ _ _ hb, DTF.feedbackFn, DTF.Operand.toSys, hb1]
    cases kw with
    | nil =>
      cases h : G.feedback b sign with
      | ok R => simp [liftR, pure_ok]
      | error e =>
        simp [liftR, excMatches, isinstance, Val.isinstance1, h, pure_ok, ok_bind, err_bind,
          feedbackM_tf _ _ _ hb]
    | cons x xs =>
      simp [liftR, excMatches, isinstance, Val.isinstance1, pure_ok, ok_bind, err_bind,
        feedbackM_tf _ _ _ hb]
      exact liftR_updateNames _ _
  | scalar c =>
    simp only [ofOp_scalar, Option.getD_some, DTF.feedbackFn, DTF.Operand.toSys, hb1, hb2]
    simp [feedbackM_num, excMatches, pure_ok, ok_bind, err_bind, isinstance_num_any, isinstance_num_num,
      convertToTF, feedbackM_tf _ _ _ hb, liftR_updateNames]
  | array p m D =>
    simp only [ofOp_array, Option.getD_some, DTF.feedbackFn, DTF.Operand.toSys, hb1, hb2]
    simp [feedbackM_arr, excMatches, pure_ok, ok_bind, err_bind, isinstance, Val.isinstance1,
      convertToTF, feedbackM_tf _ _ _ hb, liftR_updateNames]

/-- the default of `sys2` is the integer `1` -/
theorem generated_feedback_default_sys2 (w : World) (va : Val K) (sign : Option K) (kw : Kw) :
    Generated.BdalgFn.feedback w va none sign kw
      = Generated.BdalgFn.feedback w va (some (.num .pyInt 1)) sign kw := by
  unfold Generated.BdalgFn.feedback
  simp only [Option.getD_none, Option.getD_some]

/-- the default of `sign` is `-1` -/
theorem generated_feedback_default_sign (w : World) (va : Val K) (vb : Option (Val K)) (kw : Kw) :
    Generated.BdalgFn.feedback w va vb none kw
      = Generated.BdalgFn.feedback w va vb (some (-1)) kw := by
  unfold Generated.BdalgFn.feedback
  simp only [Option.getD_none, Option.getD_some]

/-- every calling convention at once: `sys2` and `sign` passed or left to their defaults. -/
theorem generated_feedback_full_eq (w : World) (ka : NumKind) (a : Operand K)
    (b : Option (NumKind × Operand K)) (sign : Option K) (kw : Kw) :
    Generated.BdalgFn.feedback w (Val.ofOp ka a) (b.map fun p => Val.ofOp p.1 p.2) sign kw
      = liftR (DTF.feedbackFn a ((b.map Prod.snd).getD (.scalar 1)) (sign.getD (-1))) := by
  cases b with
  | none =>
    rw [Option.map_none, generated_feedback_default_sys2]
    cases sign with
    | none => rw [generated_feedback_default_sign]; exact generated_feedback_eq w ka .pyInt a (.scalar 1) (-1) kw
    | some s => exact generated_feedback_eq w ka .pyInt a (.scalar 1) s kw
  | some p =>
    cases sign with
    | none => rw [generated_feedback_default_sign]; exact generated_feedback_eq w ka p.1 a p.2 (-1) kw
    | some s => exact generated_feedback_eq w ka p.1 a p.2 s kw

/-- non-vacuity / the calling convention of C01-m8: sign `+1`, a naming keyword, `sys2` defaulted. -/
example (w : World) (G : DTF ℚ) :
    Generated.BdalgFn.feedback w (.tf G) none (some 1) [("name", "loop")]
      = liftR (DTF.feedbackFn (.sys G) (.scalar 1) 1) :=
  generated_feedback_full_eq w .pyInt (.sys G) none (some 1) _

/-- the routes that leave C01: a number as first argument with an FRD / a state-space system in the
feedback path is converted to THAT class (and the method of that class is called). -/
theorem generated_feedback_route_frd (w : World) (k : NumKind) (c : K) (t : Nat) (sign : Option K) (kw : Kw) :
    Generated.BdalgFn.feedback w (.num k c) (some (.frd t)) sign kw
      = .error (.outside "FrequencyResponseData.feedback") := by
  unfold Generated.BdalgFn.feedback
  cases k <;> simp [Val.feedbackM, excMatches, pure_ok, ok_bind, err_bind, isinstance, Val.isinstance1,
    NumKind.isinstance, convertToFRD, Val.omega]

theorem generated_feedback_route_ss (w : World) (k : NumKind) (c : K) (t : Nat) (sign : Option K) (kw : Kw) :
    Generated.BdalgFn.feedback w (.num k c) (some (.ss t)) sign kw
      = .error (.outside "StateSpace.feedback") := by
  unfold Generated.BdalgFn.feedback
  cases k <;> simp [Val.feedbackM, excMatches, pure_ok, ok_bind, err_bind, isinstance, Val.isinstance1,
    NumKind.isinstance, convertToSS]

/-- something that is neither a system nor a number nor an array: `TypeError`, on either side. -/
theorem generated_feedback_other_left (w : World) (vb : Option (Val K)) (sign : Option K) (kw : Kw) :
    Generated.BdalgFn.feedback w .other vb sign kw = .error .typeError := by
  unfold Generated.BdalgFn.feedback
  simp [Val.feedbackM, excMatches, isinstance, Val.isinstance1, pure_ok, ok_bind, err_bind]

theorem generated_feedback_other_right (w : World) (k : NumKind) (c : K) (sign : Option K) (kw : Kw) :
    Generated.BdalgFn.feedback w (.num k c) (some .other) sign kw = .error .typeError := by
  unfold Generated.BdalgFn.feedback
  simp [feedbackM_num, excMatches, isinstance_num_any, isinstance, Val.isinstance1, pure_ok, ok_bind, err_bind]

/-! #### the headline theorems of `Props/C01Call.lean` hold of the function the source text defines -/

/-- `C01Call.feedbackFn_siso_value`: on SISO systems the wrapper returns a well-formed system with
`⟦R⟧ = g / (1 - sign·h·g)`, **the sign that was asked for**, with or without naming keywords. -/
theorem generated_feedback_siso_value (w : World) (kw : Kw) (G H : DTF K) (sign : K)
    (hG : G.isSiso = true) (hH : H.isSiso = true)
    (wG : (TFM.siso G.frac00).WF) (wH : (TFM.siso H.frac00).WF)
    (hne : 1 - RatFunc.C sign * (TFM.siso H.frac00).sem 0 0 * (TFM.siso G.frac00).sem 0 0 ≠ 0)
    (dt : Dt) (hdt : common G.dt H.dt = .ok dt) :
    ∃ s : TFM (Fin 1) (Fin 1) K,
      Generated.BdalgFn.feedback w (.tf G) (some (.tf H)) (some sign) kw = .ok (.tf ⟨1, 1, s, dt⟩) ∧ s.WF ∧
      s.sem 0 0 = (TFM.siso G.frac00).sem 0 0 /
        (1 - RatFunc.C sign * (TFM.siso H.frac00).sem 0 0 * (TFM.siso G.frac00).sem 0 0) := by
  obtain ⟨s, h1, h2, h3⟩ := C01Call.feedbackFn_siso_value G H sign hG hH wG wH hne dt hdt
  refine ⟨s, ?_, h2, h3⟩
  have := generated_feedback_eq w .pyInt .pyInt (.sys G) (.sys H) sign kw
  rw [ofOp_sys, ofOp_sys] at this
  rw [this, h1]; rfl

/-- `C01Call.feedbackFn_siso_singular`: the wrapper raises when the loop does not exist. -/
theorem generated_feedback_siso_singular (w : World) (kw : Kw) (G H : DTF K) (sign : K)
    (hG : G.isSiso = true) (hH : H.isSiso = true)
    (wG : (TFM.siso G.frac00).WF) (wH : (TFM.siso H.frac00).WF)
    (hz : 1 - RatFunc.C sign * (TFM.siso H.frac00).sem 0 0 * (TFM.siso G.frac00).sem 0 0 = 0)
    (dt : Dt) (hdt : common G.dt H.dt = .ok dt) :
    Generated.BdalgFn.feedback w (.tf G) (some (.tf H)) (some sign) kw = .error (.err .zeroDen) := by
  have := generated_feedback_eq w .pyInt .pyInt (.sys G) (.sys H) sign kw
  rw [ofOp_sys, ofOp_sys] at this
  rw [this, C01Call.feedbackFn_siso_singular G H sign hG hH wG wH hz dt hdt]; rfl

/-- `C01Call.feedbackFn_mimo`: a MIMO operand on either side is `NotImplemented`. -/
theorem generated_feedback_mimo (w : World) (kw : Kw) (ka : NumKind) (a : Operand K) (H : DTF K) (sign : K)
    (h : (DTF.Operand.toSys a).isSiso = false ∨ H.isSiso = false) :
    Generated.BdalgFn.feedback w (Val.ofOp ka a) (some (.tf H)) (some sign) kw
      = .error (.err .notImplemented) := by
  have := generated_feedback_eq w ka .pyInt a (.sys H) sign kw
  rw [ofOp_sys] at this
  rw [this, C01Call.feedbackFn_mimo a H sign h]; rfl

/-- non-vacuity of the MIMO statement: a `2 × 2` gain in the forward path. -/
example (w : World) : Generated.BdalgFn.feedback w (.tf (DTF.ofScalar (1 : ℚ) 2 2))
    (some (.tf (DTF.ofScalar 1 1 1))) (some (-1)) [("inputs", "u")] = .error (.err .notImplemented) :=
  generated_feedback_mimo w _ .pyInt (.sys (DTF.ofScalar 1 2 2)) (DTF.ofScalar 1 1 1) (-1) (Or.inl rfl)

/-! ### `negate` -/

/-- `bdalg.negate(G, **kw)` as the source text computes it is the model's `negateFn G`. -/
theorem generated_negate_eq (w : World) (G : DTF K) (kw : Kw) :
    Generated.BdalgFn.negate w (.tf G) kw = liftR (DTF.negateFn G) := by
  unfold Generated.BdalgFn.negate DTF.negateFn
  simp only [Val.neg, pure_ok]
  exact liftR_updateNames (K := K) _ _

/-- `C01.sem_neg` for the wrapper: negating a well-formed system returns a well-formed system of the
same shape and timebase that denotes `-⟦G⟧`, with or without naming keywords. -/
theorem generated_negate_sem (w : World) (kw : Kw) (G : DTF K) (hG : G.sys.WF) :
    ∃ s, Generated.BdalgFn.negate w (.tf G) kw = .ok (.tf ⟨G.p, G.m, s, G.dt⟩) ∧ s.WF ∧
      s.sem = - G.sys.sem := by
  obtain ⟨R, h1, h2, h3⟩ := C01.sem_neg G.sys hG
  refine ⟨R, ?_, h2, h3⟩
  rw [generated_negate_eq]
  simp [DTF.negateFn, DTF.neg, h1, bind, Except.bind, pure, Except.pure, liftR]

/-- non-vacuity -/
example (w : World) : ∃ s, Generated.BdalgFn.negate w (.tf (⟨1, 1, C01.exG1.1, .cont⟩ : DTF ℚ)) [("name", "n")]
    = .ok (.tf ⟨1, 1, s, .cont⟩) ∧ s.WF :=
  let ⟨s, h1, h2, _⟩ := generated_negate_sem w [("name", "n")] (⟨1, 1, C01.exG1.1, .cont⟩ : DTF ℚ) C01.exG1.2
  ⟨s, h1, h2⟩

end CtrlVerif.C01GenFn
