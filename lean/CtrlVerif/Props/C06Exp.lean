/-
C06 (continuous time) — the time responses are the exact solution of `x' = A x + B u`, over `ℝ`,
with Mathlib's matrix exponential `NormedSpace.exp`.

Given `scipy.linalg.expm = exp` (contract; floating point aside) nothing else is assumed:

* `aug_solution`, `ode_unique`   `exp(t [[A, B], [0, 0]]) (x0, u)` solves the augmented system; its
  lower block is `u`, its upper block solves `x' = A x + B u`, `x(0) = x0`; solutions are unique;
* `foh_solution`, `foh_exact`    the code's `M = [[A dt, B dt, 0], [0, 0, I], [0, 0, 0]]`:
  `x(t) = [exp(((t - a)/dt) M) (x0, u0, u1 - u0)]₁` solves `x' = A x + B (u0 + ((t-a)/dt)(u1-u0))`,
  and ANY solution on `[a, a + dt]` arrives at `Ad x(a) + Bd0 u0 + Bd1 u1` with
  `Ad, Bd0, Bd1` cut out of `exp(M)` as the code does;
* `forced_response_exact`, `forced_response_solution_exists`   for every grid `t0 + k dt`, every
  list of input samples, every initial state: what the model's `simFOH` returns when fed the blocks
  of `exp(M)` are the samples `x(t0 + k dt)` of THE solution of the ODE driven by the piecewise
  linear interpolation of the samples, and the outputs are `C x + D u` there;
* `initial_response_exact`, `step_response_exact`, `impulse_response_exact`   the three derived
  responses as the model derives them from `forced_response`;
* `foh_blocks_hasSum`, `foh_blocks_tendsto`, `foh_blocks_nilpotent`, `exp_nilpotent`   the blocks of
  `exp(M)` are the limits of the block series of `C06.foh_blocks_partial`; for nilpotent `A` they
  are the finite rational sums the harness hands to the driver;
* `integrator_blocks`, `double_integrator_blocks` and the examples: non-vacuity.

`SolvesOn A B u x a b` (Lemmas/C06Exp.lean): `x` is continuous on `[a, b]` and has the right
derivative `A x(t) + B u(t)` at every `t ∈ [a, b)`.
-/
import CtrlVerif.Lemmas.C06Exp
import CtrlVerif.Props.C06
import Mathlib.LinearAlgebra.Matrix.Notation

namespace CtrlVerif.C06Exp

open CtrlVerif Matrix TimeResp NormedSpace Set ExpODE Filter Topology

variable {σ ι o : Type*} [Fintype σ] [Fintype ι] [DecidableEq σ] [DecidableEq ι]

/-! ### The augmented system of zero-order hold -/

/-- `z(t) = exp(t Maug) (x0 ⊕ u)`, `Maug = [[A, B], [0, 0]]`, solves `z' = Maug z`; its lower block
is constantly `u`; its upper block `x(t)` solves `x' = A x + B u` with `x(0) = x0`. -/
theorem aug_solution (A : Matrix σ σ ℝ) (B : Matrix σ ι ℝ) (x0 : σ → ℝ) (u : ι → ℝ) (t : ℝ) :
    let z : ℝ → σ ⊕ ι → ℝ := fun s => exp (s • fromBlocks A B 0 0) *ᵥ Sum.elim x0 u
    HasDerivAt z (fromBlocks A B 0 0 *ᵥ z t) t ∧
    z t ∘ Sum.inr = u ∧
    HasDerivAt (fun s => z s ∘ Sum.inl) (A *ᵥ (z t ∘ Sum.inl) + B *ᵥ u) t ∧
    z 0 ∘ Sum.inl = x0 :=
  ⟨augTraj_hasDerivAt A B x0 u t, augTraj_inr A B x0 u t, augTraj_inl_hasDerivAt A B x0 u t,
    by simp⟩

/-- **Uniqueness** for `x' = A x + B u(t)`: two solutions on `[a, b]` (any input function, same
initial value) agree on `[a, b]`. -/
theorem ode_unique (A : Matrix σ σ ℝ) (B : Matrix σ ι ℝ) (u : ℝ → ι → ℝ) (x y : ℝ → σ → ℝ) (a b : ℝ)
    (hx : SolvesOn A B u x a b) (hy : SolvesOn A B u y a b) (h0 : x a = y a) :
    EqOn x y (Icc a b) :=
  hx.unique hy h0

/-! ### One grid interval of `forced_response` -/

/-- the explicit solution over one interval: with the code's block matrix `M = fohM A B dt`,
`x(t) = ` the state block of `exp(((t - a)/dt) M) (xa, u0, u1 - u0)` has derivative
`A x(t) + B (u0 + ((t - a)/dt)(u1 - u0))` at EVERY `t`, starts at `xa`, and at `t = a + dt` equals
`Ad xa + Bd0 u0 + Bd1 u1` with `Ad = expM[:n,:n]`, `Bd1 = expM[:n,n+m:]`,
`Bd0 = expM[:n,n:n+m] - Bd1`, `expM = exp(M)`. -/
theorem foh_solution (A : Matrix σ σ ℝ) (B : Matrix σ ι ℝ) (dt a : ℝ) (hdt : dt ≠ 0) (xa : σ → ℝ)
    (u0 u1 : ι → ℝ) :
    let x : ℝ → σ → ℝ := fun t =>
      ((exp (((t - a) / dt) • fohM A B dt) *ᵥ Sum.elim (Sum.elim xa u0) (u1 - u0)) ∘ Sum.inl) ∘ Sum.inl
    (∀ t, HasDerivAt x (A *ᵥ x t + B *ᵥ (u0 + ((t - a) / dt) • (u1 - u0))) t) ∧
    x a = xa ∧
    x (a + dt) = fohAd (exp (fohM A B dt)) *ᵥ xa + fohBd0 (exp (fohM A B dt)) *ᵥ u0
      + fohBd1 (exp (fohM A B dt)) *ᵥ u1 :=
  ⟨fohSol_hasDerivAt A B dt a hdt xa u0 u1, fohSol_init A B dt a xa u0 u1,
    fohSol_end A B dt a hdt xa u0 u1⟩

/-- **`foh_exact`**: the update of the loop of `forced_response`,
`x1 = Ad x0 + Bd0 u0 + Bd1 u1` with the blocks of `exp(M)`, is the value at `t = a + dt` of THE
solution of `x' = A x + B u(t)`, `u(t) = u0 + ((t - a)/dt)(u1 - u0)`: every solution on
`[a, a + dt]` arrives there. -/
theorem foh_exact (A : Matrix σ σ ℝ) (B : Matrix σ ι ℝ) (dt a : ℝ) (hdt : 0 < dt) (u0 u1 : ι → ℝ)
    (u : ℝ → ι → ℝ) (hu : ∀ t ∈ Ico a (a + dt), u t = u0 + ((t - a) / dt) • (u1 - u0))
    (x : ℝ → σ → ℝ) (hx : SolvesOn A B u x a (a + dt)) :
    x (a + dt) = fohAd (exp (fohM A B dt)) *ᵥ x a + fohBd0 (exp (fohM A B dt)) *ᵥ u0
      + fohBd1 (exp (fohM A B dt)) *ᵥ u1 :=
  foh_step A B dt a hdt u0 u1 u hu x hx

/-! ### The whole response -/

/-- the piecewise-linear interpolation `pwlInput` of the samples (what `forced_response` assumes
between the grid points) is linear on every grid interval and takes the sample values at the grid
points. -/
theorem pwlInput_interpolates (t0 dt : ℝ) (hdt : 0 < dt) (us : List (ι → ℝ)) :
    (∀ k (hk : k + 1 < us.length), ∀ t ∈ Icc (grid t0 dt k) (grid t0 dt (k + 1)),
      pwlInput t0 dt us t = us[k] + ((t - grid t0 dt k) / dt) • (us[k + 1] - us[k])) ∧
    (∀ k (hk : k < us.length), 2 ≤ us.length → pwlInput t0 dt us (grid t0 dt k) = us[k]) := by
  refine ⟨fun k hk t ht => pwlInput_eq hdt us k hk ht, fun k hk h2 => ?_⟩
  have hm := grid_mono t0 hdt.le
  by_cases hlast : k + 1 < us.length
  · rw [pwlInput_eq hdt us k hlast ⟨le_rfl, hm (Nat.le_succ k)⟩]; simp
  · obtain ⟨j, rfl⟩ : ∃ j, k = j + 1 := ⟨k - 1, by omega⟩
    rw [pwlInput_eq hdt us j hk ⟨hm (Nat.le_succ j), le_rfl⟩, grid_succ, add_sub_cancel_left,
      div_self hdt.ne', one_smul]
    abel

/-- **`forced_response_exact`**.  For every time grid `t0, t0 + dt, …` (`dt > 0`), every list of
input samples `us` (one per grid point) and every trajectory `x` that solves `x' = A x + B u(t)`
on `[t0, t_last]`, where `u` is the piecewise-linear interpolation of the samples (`hu`; satisfied
by `pwlInput`, `pwlInput_interpolates`): the continuous-time branch of the model's
`forced_response` (`simFOH`), fed with the blocks of `exp(M)` and started at `x(t0)`, returns
exactly the samples `x(t0 + k dt)`, and the outputs `C x(t0 + k dt) + D us[k]`.  Together with
`forced_response_solution_exists` (there is such an `x` for every initial state) and `ode_unique`:
the returned states are the samples of THE solution. -/
theorem forced_response_exact (G : SS σ ι o ℝ) (dt : ℝ) (hdt : 0 < dt) (t0 : ℝ) (us : List (ι → ℝ))
    (u : ℝ → ι → ℝ) (x : ℝ → σ → ℝ)
    (hu : ∀ k (hk : k + 1 < us.length), ∀ t ∈ Icc (grid t0 dt k) (grid t0 dt (k + 1)),
      u t = us[k] + ((t - grid t0 dt k) / dt) • (us[k + 1] - us[k]))
    (hx : SolvesOn G.A G.B u x t0 (grid t0 dt (us.length - 1))) :
    (simFOH G (fohAd (exp (fohM G.A G.B dt))) (fohBd0 (exp (fohM G.A G.B dt)))
        (fohBd1 (exp (fohM G.A G.B dt))) (x t0) us).1
      = (List.range us.length).map (fun k => x (grid t0 dt k)) ∧
    ∀ k (hk : k < us.length),
      (simFOH G (fohAd (exp (fohM G.A G.B dt))) (fohBd0 (exp (fohM G.A G.B dt)))
        (fohBd1 (exp (fohM G.A G.B dt))) (x t0) us).2[k]?
      = some (G.C *ᵥ x (grid t0 dt k) + G.D *ᵥ us[k]) := by
  have hx' := (solvesOn_grid_iff t0 hdt.le (us.length - 1)).1 hx
  have hs := fohStates_samples G.A G.B dt hdt us t0 u x
    (fun k hk t ht => hu k hk t ⟨ht.1, ht.2.le⟩) (fun k hk => hx' k (by omega))
  refine ⟨hs, fun k hk => ?_⟩
  simp only [simFOH, outputs]
  rw [hs, List.getElem?_zipWith]
  simp [hk, out]

/-- **Existence**: for every grid, input samples and initial state `x0` there is a trajectory with
`x(t0) = x0` that solves `x' = A x + B u(t)` on `[t0, t_last]` for the piecewise-linear
interpolation `u = pwlInput t0 dt us` of the samples — so the hypotheses of
`forced_response_exact` are satisfiable for every input of the model. -/
theorem forced_response_solution_exists (A : Matrix σ σ ℝ) (B : Matrix σ ι ℝ) (dt : ℝ) (hdt : 0 < dt)
    (t0 : ℝ) (us : List (ι → ℝ)) (x0 : σ → ℝ) :
    ∃ x : ℝ → σ → ℝ, x t0 = x0 ∧
      SolvesOn A B (pwlInput t0 dt us) x t0 (grid t0 dt (us.length - 1)) := by
  obtain ⟨x, h0, hx⟩ := exists_foh_solution A B dt hdt us t0 x0
  exact ⟨x, h0, (solvesOn_grid_iff t0 hdt.le _).2 fun k hk => hx k (by omega)⟩

/-- the two together, for the model's call: started at `x0`, `simFOH` with the blocks of `exp(M)`
returns the samples of a solution from `x0`, and of every other one (uniqueness). -/
theorem forced_response_is_the_solution (G : SS σ ι o ℝ) (dt : ℝ) (hdt : 0 < dt) (t0 : ℝ)
    (us : List (ι → ℝ)) (x0 : σ → ℝ) :
    ∃ x : ℝ → σ → ℝ, x t0 = x0 ∧
      SolvesOn G.A G.B (pwlInput t0 dt us) x t0 (grid t0 dt (us.length - 1)) ∧
      (∀ y : ℝ → σ → ℝ, y t0 = x0 →
        SolvesOn G.A G.B (pwlInput t0 dt us) y t0 (grid t0 dt (us.length - 1)) →
        EqOn y x (Icc t0 (grid t0 dt (us.length - 1)))) ∧
      (simFOH G (fohAd (exp (fohM G.A G.B dt))) (fohBd0 (exp (fohM G.A G.B dt)))
        (fohBd1 (exp (fohM G.A G.B dt))) x0 us).1
        = (List.range us.length).map (fun k => x (grid t0 dt k)) := by
  obtain ⟨x, h0, hx⟩ := forced_response_solution_exists G.A G.B dt hdt t0 us x0
  refine ⟨x, h0, hx, fun y hy0 hy => hy.unique hx (by rw [hy0, h0]), ?_⟩
  have := (forced_response_exact G dt hdt t0 us _ x (pwlInput_interpolates t0 dt hdt us).1 hx).1
  rwa [h0] at this

/-! ### The derived responses -/

/-- `initial_response` / zero input (the fast path `xout[i] = expm(A dt) xout[i-1]`, `y = C x`):
with `expm = exp`, the returned states are the samples of any solution of `x' = A x`, the outputs
`C x`.  (`B`, `u` arbitrary with `B u(t) = 0`, e.g. `u = 0`.) -/
theorem initial_response_exact (G : SS σ ι o ℝ) (dt : ℝ) (hdt : 0 < dt) (t0 : ℝ) (n : ℕ)
    (x : ℝ → σ → ℝ) (hx : SolvesOn G.A G.B (fun _ => 0) x t0 (grid t0 dt (n - 1))) :
    simFree G (exp (dt • G.A)) (x t0) n =
      ((List.range n).map (fun k => x (grid t0 dt k)),
       (List.range n).map (fun k => G.C *ᵥ x (grid t0 dt k))) := by
  have h := forced_response_exact G dt hdt t0 (List.replicate n 0) (fun _ => 0) x
    (fun k hk t _ => by simp) (by simpa using hx)
  have h1 := h.1
  simp only [simFOH, fohStates_zero_input, List.length_replicate, fohAd_exp] at h1
  simp only [simFree, h1, List.map_map]
  rfl

/-- `step_response` (a constant input `v`, e.g. the unit vector of one channel, at every sample):
the returned states are the samples of any solution of `x' = A x + B v`, the outputs `C x + D v`. -/
theorem step_response_exact (G : SS σ ι o ℝ) (dt : ℝ) (hdt : 0 < dt) (t0 : ℝ) (n : ℕ) (v : ι → ℝ)
    (x : ℝ → σ → ℝ) (hx : SolvesOn G.A G.B (fun _ => v) x t0 (grid t0 dt (n - 1))) :
    (simFOH G (fohAd (exp (fohM G.A G.B dt))) (fohBd0 (exp (fohM G.A G.B dt)))
        (fohBd1 (exp (fohM G.A G.B dt))) (x t0) (List.replicate n v)).1
      = (List.range n).map (fun k => x (grid t0 dt k)) ∧
    ∀ k, k < n →
      (simFOH G (fohAd (exp (fohM G.A G.B dt))) (fohBd0 (exp (fohM G.A G.B dt)))
        (fohBd1 (exp (fohM G.A G.B dt))) (x t0) (List.replicate n v)).2[k]?
      = some (G.C *ᵥ x (grid t0 dt k) + G.D *ᵥ v) := by
  have h := forced_response_exact G dt hdt t0 (List.replicate n v) (fun _ => v) x
    (fun k hk t _ => by simp) (by simpa using hx)
  refine ⟨by simpa using h.1, fun k hk => ?_⟩
  have := h.2 k (by simpa using hk)
  simpa using this

/-- continuous-time `impulse_response` for input channel `i`: the model takes the free response
from `x0 = B e_i`; it returns the samples of `x(t) = exp((t - t0) A) B e_i`, the solution of
`x' = A x`, `x(t0) = B e_i`, and `y = C x`. -/
theorem impulse_response_exact (G : SS σ ι o ℝ) (dt : ℝ) (hdt : 0 < dt) (t0 : ℝ) (n : ℕ) (i : ι) :
    let x : ℝ → σ → ℝ := fun t => exp ((t - t0) • G.A) *ᵥ (G.B *ᵥ Pi.single i 1)
    (∀ t, HasDerivAt x (G.A *ᵥ x t) t) ∧ x t0 = G.B *ᵥ Pi.single i 1 ∧
    simFree G (exp (dt • G.A)) (G.B *ᵥ Pi.single i 1) n =
      ((List.range n).map (fun k => x (grid t0 dt k)),
       (List.range n).map (fun k => G.C *ᵥ x (grid t0 dt k))) := by
  intro x
  have hd : ∀ t, HasDerivAt x (G.A *ᵥ x t) t := fun t => by
    have h1 := hasDerivAt_exp_mulVec G.A (G.B *ᵥ Pi.single i 1) (t - t0)
    have h2 : HasDerivAt (fun s : ℝ => s - t0) 1 t := (hasDerivAt_id t).sub_const t0
    have := HasDerivAt.scomp t h1 h2
    rw [one_smul] at this
    exact this
  have h0 : x t0 = G.B *ᵥ Pi.single i 1 := by simp [x, NormedSpace.exp_zero]
  refine ⟨hd, h0, ?_⟩
  rw [← h0]
  exact initial_response_exact G dt hdt t0 n x
    (solvesOn_of_hasDerivAt fun t => by simpa using hd t)

/-! ### The blocks of `exp(M)` and the series of `C06.foh_blocks_partial` -/

/-- the blocks the code cuts out of `exp(M)` are the sums of the first-order-hold series:
`Ad = Σ (A dt)^k / k! = exp(A dt)`, `Bd0 + Bd1 = Σ (A dt)^k B dt / (k+1)!`,
`Bd1 = Σ (A dt)^k B dt / (k+2)!`. -/
theorem foh_blocks_hasSum (A : Matrix σ σ ℝ) (B : Matrix σ ι ℝ) (dt : ℝ) :
    HasSum (fun k : ℕ => ((k.factorial : ℝ)⁻¹) • (dt • A) ^ k) (fohAd (exp (fohM A B dt))) ∧
    fohAd (exp (fohM A B dt)) = exp (dt • A) ∧
    HasSum (fun k : ℕ => (((k + 1).factorial : ℝ)⁻¹) • ((dt • A) ^ k * (dt • B)))
      (fohBd0 (exp (fohM A B dt)) + fohBd1 (exp (fohM A B dt))) ∧
    HasSum (fun k : ℕ => (((k + 2).factorial : ℝ)⁻¹) • ((dt • A) ^ k * (dt • B)))
      (fohBd1 (exp (fohM A B dt))) := by
  refine ⟨hasSum_fohAd A B dt, fohAd_exp A B dt, ?_, hasSum_fohBd1 A B dt⟩
  rw [fohBd0, sub_add_cancel]
  exact hasSum_fohMid A B dt

/-- the truncated series `expSum N M = Σ_{k ≤ N} M^k / k!` whose blocks `C06.foh_blocks_partial`
computes for every `N` converge to `exp(M)`, and so do their blocks (block extraction is
continuous linear): the partial theorem describes the approximants of exactly these blocks. -/
theorem foh_blocks_tendsto (A : Matrix σ σ ℝ) (B : Matrix σ ι ℝ) (dt : ℝ) :
    Tendsto (fun N => expSum N (fohM A B dt)) atTop (𝓝 (exp (fohM A B dt))) ∧
    Tendsto (fun N => fohAd (expSum N (fohM A B dt))) atTop (𝓝 (fohAd (exp (fohM A B dt)))) ∧
    Tendsto (fun N => fohBd0 (expSum N (fohM A B dt))) atTop (𝓝 (fohBd0 (exp (fohM A B dt)))) ∧
    Tendsto (fun N => fohBd1 (expSum N (fohM A B dt))) atTop (𝓝 (fohBd1 (exp (fohM A B dt)))) := by
  have hmid := tendsto_linear_expSum fohMidL (fohM A B dt)
  have hbd1 := tendsto_linear_expSum fohBd1L (fohM A B dt)
  exact ⟨tendsto_expSum _, tendsto_linear_expSum fohAdL _, hmid.sub hbd1, hbd1⟩

/-- for a nilpotent matrix the exponential IS the finite sum (`X^(N+1) = 0`). -/
theorem exp_nilpotent {τ : Type*} [Fintype τ] [DecidableEq τ] (X : Matrix τ τ ℝ) (N : ℕ)
    (h : X ^ (N + 1) = 0) : exp X = expSum N X :=
  exp_eq_expSum_of_pow_eq_zero X N h

/-- nilpotent `A` (`A^n = 0`; the exact stream of the correspondence check): `exp(M)` is the finite
sum `Σ_{k ≤ n+1} M^k / k!` the harness computes in rational arithmetic, `exp(A dt)` is
`Σ_{k < n} (A dt)^k / k!`, and the blocks are the finite first-order-hold sums. -/
theorem foh_blocks_nilpotent (A : Matrix σ σ ℝ) (B : Matrix σ ι ℝ) (dt : ℝ) (n : ℕ) (hA : A ^ n = 0) :
    exp (fohM A B dt) = expSum (n + 1) (fohM A B dt) ∧
    exp (dt • A) = ∑ k ∈ Finset.range n, ((k.factorial : ℝ)⁻¹) • (dt • A) ^ k ∧
    fohAd (exp (fohM A B dt)) = ∑ k ∈ Finset.range n, ((k.factorial : ℝ)⁻¹) • (dt • A) ^ k ∧
    fohBd0 (exp (fohM A B dt)) + fohBd1 (exp (fohM A B dt)) =
      ∑ k ∈ Finset.range n, (((k + 1).factorial : ℝ)⁻¹) • ((dt • A) ^ k * (dt • B)) ∧
    fohBd1 (exp (fohM A B dt)) =
      ∑ k ∈ Finset.range n, (((k + 2).factorial : ℝ)⁻¹) • ((dt • A) ^ k * (dt • B)) := by
  obtain ⟨h1, h2, h3⟩ := ExpODE.foh_blocks_nilpotent A B dt n hA
  refine ⟨exp_fohM_nilpotent A B dt n hA, ?_, h1, ?_, h3⟩
  · rw [← fohAd_exp A B dt, h1]
  · rw [fohBd0, sub_add_cancel, h2]

/-! ### The exact stream: rational arithmetic of the model = samples of the real solution -/

/-- the system with real coefficients. -/
noncomputable def realSS (G : SS σ ι o ℚ) : SS σ ι o ℝ :=
  ⟨G.A.map (Rat.castHom ℝ), G.B.map (Rat.castHom ℝ), G.C.map (Rat.castHom ℝ), G.D.map (Rat.castHom ℝ)⟩

/-- **nilpotent `A`, rational data** (the exact stream of the correspondence check: `A^n = 0`,
`expM` replaced by the finite rational sum `Σ_{k ≤ N} M^k / k!`, `N ≥ n + 1`, computed by the
harness).  What `simFOH` computes over `ℚ` from these blocks, read in `ℝ`, are the samples of THE
solution of `x' = A x + B u(t)`, `x(t0) = x0`, `u` the piecewise-linear interpolation of the
(rational) input samples — no hypothesis on `expm` is left. -/
theorem forced_response_exact_nilpotent (G : SS σ ι o ℚ) (n : ℕ) (hA : G.A ^ n = 0) (dt : ℚ)
    (hdt : 0 < dt) (t0 : ℝ) (us : List (ι → ℚ)) (x0 : σ → ℚ) (N : ℕ) (hN : n + 1 ≤ N) :
    ∃ x : ℝ → σ → ℝ, x t0 = Rat.castHom ℝ ∘ x0 ∧
      SolvesOn (realSS G).A (realSS G).B (pwlInput t0 dt (us.map fun v => Rat.castHom ℝ ∘ v)) x t0
        (grid t0 dt (us.length - 1)) ∧
      (∀ y : ℝ → σ → ℝ, y t0 = Rat.castHom ℝ ∘ x0 →
        SolvesOn (realSS G).A (realSS G).B (pwlInput t0 dt (us.map fun v => Rat.castHom ℝ ∘ v)) y t0
          (grid t0 dt (us.length - 1)) →
        EqOn y x (Icc t0 (grid t0 dt (us.length - 1)))) ∧
      (simFOH G (fohAd (expSum N (fohM G.A G.B dt))) (fohBd0 (expSum N (fohM G.A G.B dt)))
          (fohBd1 (expSum N (fohM G.A G.B dt))) x0 us).1.map (fun v => Rat.castHom ℝ ∘ v)
        = (List.range us.length).map (fun k => x (grid t0 dt k)) ∧
      ∀ k (hk : k < us.length),
        ((simFOH G (fohAd (expSum N (fohM G.A G.B dt))) (fohBd0 (expSum N (fohM G.A G.B dt)))
          (fohBd1 (expSum N (fohM G.A G.B dt))) x0 us).2.map (fun v => Rat.castHom ℝ ∘ v))[k]?
        = some ((realSS G).C *ᵥ x (grid t0 dt k) + (realSS G).D *ᵥ (Rat.castHom ℝ ∘ us[k])) := by
  have hdt' : (0 : ℝ) < (dt : ℝ) := by exact_mod_cast hdt
  have hA' : (realSS G).A ^ n = 0 := map_pow_eq_zero _ G.A n hA
  -- the real exponential is the cast of the rational sum
  have hE : exp (fohM (realSS G).A (realSS G).B (dt : ℝ)) =
      (expSum N (fohM G.A G.B dt)).map (Rat.castHom ℝ) := by
    have hpow : fohM G.A G.B dt ^ (n + 1 + 1) = 0 := by
      have h0 : ∀ j, (dt • G.A) ^ (n + j) = 0 := fun j => by
        rw [smul_pow, pow_add G.A, hA, Matrix.zero_mul, smul_zero]
      have h00 := h0 0
      rw [add_zero] at h00
      rw [fohM_pow, h0 2, h0 1, h00, Matrix.zero_mul]
      ext ((i | j) | k) ((i' | j') | k') <;> simp [powShape]
    rw [expSum_eq_of_pow_eq_zero _ (n + 1) N hpow hN, expSum_map, fohM_map,
      exp_fohM_nilpotent _ _ _ n hA']
    rfl
  obtain ⟨x, h0, hx, huniq, hs⟩ := forced_response_is_the_solution (realSS G) (dt : ℝ) hdt' t0
    (us.map fun v => Rat.castHom ℝ ∘ v) (Rat.castHom ℝ ∘ x0)
  simp only [List.length_map] at hx huniq hs
  refine ⟨x, h0, hx, huniq, ?_, fun k hk => ?_⟩
  · simp only [simFOH] at hs ⊢
    rw [fohStates_map, fohAd_map, fohBd0_map, fohBd1_map, ← hE]
    exact hs
  · have ho := (forced_response_exact (realSS G) (dt : ℝ) hdt' t0
      (us.map fun v => Rat.castHom ℝ ∘ v) _ x
      (pwlInput_interpolates t0 (dt : ℝ) hdt' _).1 (by simpa using hx)).2 k (by simpa using hk)
    rw [← h0] at hs
    simp only [simFOH] at ho ⊢
    rw [outputs_map, fohStates_map, fohAd_map, fohBd0_map, fohBd1_map, ← hE]
    simpa [realSS, h0] using ho


/-- an accepted time grid of the model (`gridStep T = .ok dt`) is the grid `T[0] + k dt`. -/
theorem grid_of_gridStep (T : List ℚ) (dt : ℚ) (h : gridStep T = .ok dt) (k : ℕ) (hk : k < T.length) :
    ((T[k] : ℚ) : ℝ) = grid ((T.getD 0 0 : ℚ) : ℝ) (dt : ℝ) k := by
  obtain ⟨h2, hstep⟩ := C06.gridStep_ok T dt h
  have h0 : T.getD 0 0 = T[0] := by simp [List.getD_eq_getElem?_getD, List.getElem?_eq_getElem (show 0 < T.length by omega)]
  have : ∀ k (hk : k < T.length), T[k] = T[0] + k * dt := by
    intro k
    induction k with
    | zero => intro _; simp
    | succ k ih =>
      intro hk
      have := hstep k hk
      rw [ih (by omega)] at this
      push_cast
      linarith
  rw [h0, this k hk, grid]
  push_cast
  ring

/-- **the model's `forced_response` on the exact stream** (continuous time, `A` nilpotent, `expA`,
`expM` the finite rational sums): the call returns, at the requested times `T[k] = T[0] + k dt`, and
the returned states, read in `ℝ`, are the samples at those times of THE solution of
`x' = A x + B u(t)`, `x(T[0]) = X0`, `u` the piecewise-linear interpolation of the given input
samples.  (Zero and non-zero inputs alike: `C06.forced_cont_any_input`.) -/
theorem forced_model_exact_nilpotent (G : DSS ℚ) (T : List ℚ) (U X0 : Arr) (e : ExpmVals G.n G.m)
    (hdt : G.dt = .cont) (dt : ℚ) (x0 : Vector ℚ G.n) (us : List (Vector ℚ G.m))
    (hg : gridStep T = .ok dt) (hx : convertX0 G.n X0 = .ok x0)
    (hu : convertU G.m T.length U = .ok us) (hpos : 0 < dt) (hA : G.sys.A ^ G.n = 0)
    (N : ℕ) (hN : G.n + 1 ≤ N) (heA : e.expA = expSum N (dt • G.sys.A))
    (heM : e.expM = expSum N (fohMFin G.sys.A G.sys.B dt)) :
    ∃ r, forced G (some T) U X0 (some e) = .ok r ∧ r.t = T ∧ r.u = us ∧
      (∀ k (hk : k < T.length), ((T[k] : ℚ) : ℝ) = grid ((T.getD 0 0 : ℚ) : ℝ) (dt : ℝ) k) ∧
      ∃ x : ℝ → Fin G.n → ℝ, x ((T.getD 0 0 : ℚ) : ℝ) = Rat.castHom ℝ ∘ x0.get ∧
        SolvesOn (realSS G.sys).A (realSS G.sys).B
          (pwlInput ((T.getD 0 0 : ℚ) : ℝ) dt (us.map fun v => Rat.castHom ℝ ∘ v.get)) x
          ((T.getD 0 0 : ℚ) : ℝ) (grid ((T.getD 0 0 : ℚ) : ℝ) dt (T.length - 1)) ∧
        r.x.map (fun v => Rat.castHom ℝ ∘ v.get)
          = (List.range T.length).map (fun k => x (grid ((T.getD 0 0 : ℚ) : ℝ) dt k)) := by
  have hblocks := fohBlocksFin_expSum G.sys.A G.sys.B dt N
  obtain ⟨N', rfl⟩ : ∃ N', N = N' + 1 := ⟨N - 1, by omega⟩
  have hAd : e.expA = (fohBlocksFin e.expM).1 := by
    rw [heM, hblocks, heA]
    exact ((C06.foh_blocks_partial G.sys.A G.sys.B dt).2 N').1.symm
  obtain ⟨r, hr, ht, hru, hsim⟩ := C06.forced_cont_any_input G T U X0 e hdt dt x0 us hg hx hu hAd
  have hlen := convertU_length G.m T.length U us hu
  obtain ⟨x, h0, hsol, _, hs, _⟩ := forced_response_exact_nilpotent G.sys G.n hA dt hpos
    ((T.getD 0 0 : ℚ) : ℝ) (us.map Vector.get) x0.get (N' + 1) hN
  refine ⟨r, hr, ht, hru, grid_of_gridStep T dt hg, x, h0, ?_, ?_⟩
  · simpa [hlen, List.map_map, Function.comp_def] using hsol
  · have h1 : r.x.map Vector.get =
        (simFOH G.sys (fohBlocksFin e.expM).1 (fohBlocksFin e.expM).2.1 (fohBlocksFin e.expM).2.2
          x0.get (us.map Vector.get)).1 := (congrArg Prod.fst hsim)
    rw [heM, hblocks] at h1
    have : r.x.map (fun v => Rat.castHom ℝ ∘ v.get) =
        (r.x.map Vector.get).map (fun v => Rat.castHom ℝ ∘ v) := by
      rw [List.map_map]; rfl
    rw [this, h1, hs]
    simp [hlen]

/-- non-vacuity of `forced_model_exact_nilpotent`: the integrator `x' = u` on the grid `[0, 1]`
with the ramp samples `0, 1`, exponentials as finite sums: all hypotheses hold, so the model's
call returns and its states are the samples of the real solution. -/
example : ∃ (r : Trace 1 1 1) (x : ℝ → Fin 1 → ℝ), forced (⟨1, 1, 1, ⟨!![0], !![1], !![1], !![0]⟩, .cont⟩ : DSS ℚ) (some [0, 1])
      (.d1 [0, 1]) (.scalar 0)
      (some ⟨expSum 2 ((1 : ℚ) • (!![0] : Matrix (Fin 1) (Fin 1) ℚ)),
        expSum 2 (fohMFin (!![0] : Matrix (Fin 1) (Fin 1) ℚ) (!![1] : Matrix (Fin 1) (Fin 1) ℚ) 1)⟩)
      = .ok r ∧
    r.x.map (fun v => Rat.castHom ℝ ∘ v.get)
      = (List.range 2).map (fun k => x (grid ((0 : ℚ) : ℝ) ((1 : ℚ) : ℝ) k)) := by
  obtain ⟨r, hr, _, _, _, x, _, _, hx⟩ := forced_model_exact_nilpotent
    (⟨1, 1, 1, ⟨!![0], !![1], !![1], !![0]⟩, .cont⟩ : DSS ℚ) [0, 1] (.d1 [0, 1]) (.scalar 0)
    ⟨expSum 2 ((1 : ℚ) • (!![0] : Matrix (Fin 1) (Fin 1) ℚ)),
      expSum 2 (fohMFin (!![0] : Matrix (Fin 1) (Fin 1) ℚ) (!![1] : Matrix (Fin 1) (Fin 1) ℚ) 1)⟩
    rfl 1 (Vector.replicate 1 0) [Vector.replicate 1 0, Vector.replicate 1 1]
    (by decide +kernel) rfl (by decide +kernel) one_pos
    (by ext i j; fin_cases i; fin_cases j; simp) 2 (by norm_num) rfl rfl
  exact ⟨r, x, hr, hx⟩

/-! ### Non-vacuity: integrators -/

/-- the integrator `A = 0` (any sizes, any `B`): `exp(M)` is the finite sum `1 + M + M²/2`,
`Ad = 1`, `Bd0 = Bd1 = (dt/2) B` — the trapezoidal rule, exact for a linearly interpolated input. -/
theorem integrator_blocks (B : Matrix σ ι ℝ) (dt : ℝ) :
    exp (fohM (0 : Matrix σ σ ℝ) B dt) = expSum 2 (fohM 0 B dt) ∧
    fohAd (exp (fohM (0 : Matrix σ σ ℝ) B dt)) = 1 ∧
    fohBd0 (exp (fohM (0 : Matrix σ σ ℝ) B dt)) = (dt / 2) • B ∧
    fohBd1 (exp (fohM (0 : Matrix σ σ ℝ) B dt)) = (dt / 2) • B := by
  obtain ⟨h0, _, h1, h2, h3⟩ := foh_blocks_nilpotent (0 : Matrix σ σ ℝ) B dt 1 (pow_one 0)
  have h3' : fohBd1 (exp (fohM (0 : Matrix σ σ ℝ) B dt)) = (dt / 2) • B := by
    rw [h3]; simp [smul_smul]; congr 1; ring
  refine ⟨h0, by rw [h1]; simp, ?_, h3'⟩
  have : fohBd0 (exp (fohM (0 : Matrix σ σ ℝ) B dt)) + (dt / 2) • B = dt • B := by
    rw [← h3', h2]; simp
  rw [eq_sub_of_add_eq this, ← sub_smul]
  congr 1; ring

/-- the integrator `x' = u` driven by the ramp `u(t) = t` on `[0, 1]` (samples `0, 1`): the
solution is `x(t) = t²/2`; it satisfies the hypotheses of `forced_response_exact`, and the loop
returns `x(0) = 0`, `x(1) = 1/2`. -/
example :
    (fohStates (fohAd (exp (fohM (0 : Matrix (Fin 1) (Fin 1) ℝ) (1 : Matrix (Fin 1) (Fin 1) ℝ) 1)))
        (fohBd0 (exp (fohM (0 : Matrix (Fin 1) (Fin 1) ℝ) (1 : Matrix (Fin 1) (Fin 1) ℝ) 1)))
        (fohBd1 (exp (fohM (0 : Matrix (Fin 1) (Fin 1) ℝ) (1 : Matrix (Fin 1) (Fin 1) ℝ) 1))) (fun _ => 0)
        [fun _ => 0, fun _ => 1]) = [fun _ => 0, fun _ => 1 / 2] := by
  let G : SS (Fin 1) (Fin 1) (Fin 1) ℝ := ⟨0, 1, 1, 0⟩
  let x : ℝ → Fin 1 → ℝ := fun t _ => t ^ 2 / 2
  have hx : SolvesOn G.A G.B (fun t _ => t) x 0 (grid 0 1 1) :=
    solvesOn_of_hasDerivAt fun t => by
      have h : HasDerivAt (fun s : ℝ => s ^ 2 / 2) t t := by
        have := ((hasDerivAt_pow 2 t).div_const 2)
        simpa using this
      have : G.A *ᵥ x t + G.B *ᵥ (fun _ => t) = fun _ => t := by
        ext i; simp [G]
      rw [this]
      exact hasDerivAt_pi.2 fun _ => h
  have := (forced_response_exact G 1 one_pos 0 [fun _ => 0, fun _ => 1] (fun t _ => t) x
    (fun k hk t ht => by
      have hk0 : k = 0 := by simpa using hk
      subst hk0
      ext i; simp [grid]) hx).1
  simp only [simFOH, G] at this
  have hx0 : x 0 = fun _ => 0 := by ext; simp [x]
  rw [hx0] at this
  rw [this]
  simp [List.range_succ, grid, x]

/-- a 2-state nilpotent chain (double integrator `A = [[0, 1], [0, 0]]`, `A² = 0`): `exp(M)` is a
finite sum and `Bd1 = (dt/2) B + (dt²/6) A B`. -/
theorem double_integrator_blocks (B : Matrix (Fin 2) ι ℝ) (dt : ℝ) :
    exp (fohM (!![0, 1; 0, 0] : Matrix (Fin 2) (Fin 2) ℝ) B dt)
      = expSum 3 (fohM (!![0, 1; 0, 0] : Matrix (Fin 2) (Fin 2) ℝ) B dt) ∧
    fohBd1 (exp (fohM (!![0, 1; 0, 0] : Matrix (Fin 2) (Fin 2) ℝ) B dt))
      = (dt / 2) • B + (dt ^ 2 / 6) • ((!![0, 1; 0, 0] : Matrix (Fin 2) (Fin 2) ℝ) * B) := by
  have hA : (!![0, 1; 0, 0] : Matrix (Fin 2) (Fin 2) ℝ) ^ 2 = 0 := by
    ext i j; fin_cases i <;> fin_cases j <;> simp [pow_two, Matrix.mul_apply, Fin.sum_univ_two]
  obtain ⟨h0, _, _, _, h3⟩ := foh_blocks_nilpotent _ B dt 2 hA
  refine ⟨h0, ?_⟩
  rw [h3, Finset.sum_range_succ, Finset.sum_range_one]
  simp only [pow_zero, Matrix.one_mul, pow_one, Matrix.smul_mul, Matrix.mul_smul, smul_smul]
  congr 1
  · congr 1; norm_num [Nat.factorial]; ring
  · congr 1; norm_num [Nat.factorial]; ring

/-- non-vacuity of `ode_unique` / `foh_exact`: the hypotheses hold for the explicit solution. -/
example (A : Matrix σ σ ℝ) (B : Matrix σ ι ℝ) (xa : σ → ℝ) (u0 u1 : ι → ℝ) :
    SolvesOn A B (fun t => u0 + ((t - 0) / 1) • (u1 - u0)) (fohSol A B 1 0 xa u0 u1) 0 (0 + 1) :=
  fohSol_solvesOn A B 1 0 one_ne_zero 0 (0 + 1) xa u0 u1

end CtrlVerif.C06Exp
