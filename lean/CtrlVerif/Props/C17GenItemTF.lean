/-
Source-text tie for C17, part 2 (tag py2lean-getitem): `Generated/GetitemTF.lean` is rewritten on
every run from the text of `TransferFunction.__getitem__` in /repo/control/xferfcn.py by
`harness/core/py2lean_getitem.py` (key validation, `NamedSignal(np.empty(...))._parse_key`, the two
`_process_subsys_index(..., slice_to_list=True)` calls, `_create_poly_array`, the double loop
`for row, i in enumerate(outdx): for col, j in enumerate(inpdx): num[row, col] = self.num_array[i, j] …`,
the name, the constructor call).  The hand-written model `getitem tfCtor` is proved EQUAL to the
generated method for every system (any shape incl. empty ones, any coefficient lists over any field,
labels, timebase, name), every configuration and every pair of selectors, and the headline theorems
of C17 are transported to the generated method.
-/
import CtrlVerif.Generated.GetitemTF
import CtrlVerif.Lemmas.PyGet
import CtrlVerif.Props.C17

set_option linter.unusedSimpArgs false

namespace CtrlVerif.C17GenItem

open CtrlVerif Index C17Gen PyGet PyTF

variable {K : Type} [Field K] [DecidableEq K]

/-- a transfer-function system of the model as the Python object: entries and timebase (`DTF`),
the name, the two label lists. -/
def tfObj (S : Sys (TFB K)) : TFObj K :=
  ⟨⟨S.p, S.m, S.body, S.dt⟩, S.name, pyLabels S.ins, pyLabels S.outs⟩

/-- **`TransferFunction.__getitem__` as the source text says it is the model**: for every system,
configuration, pair of selectors and recursion budget ≥ 3, the generated method raises exactly when
`getitem tfCtor` raises, with the same error kind, and otherwise returns the object of the system
the model returns.  Inside: after the two `_process_subsys_index` calls the double loop fills
`num[r, c]`, `den[r, c]` with the entry `(rows[r], cols[c])` of the original arrays (loop invariant:
after `k` rows and `j` columns the arrays are `fillTo … k j`), negative list entries are read with
NumPy's wrap-around, and the constructor (which cannot build an empty system) normalises the copied
entries: the model's `TFM.reindex`. -/
theorem generated_tfGetitem_eq (fuel : Nat) (cfg : Cfg) (S : Sys (TFB K)) (kr kc : Sel) :
    Generated.tfGetitem (fuel + 3) (defaultsOf cfg) (tfObj S) (pairKey kr kc)
      = (getitem tfCtor cfg S kr kc).map tfObj := by
  unfold Generated.tfGetitem getitem
  simp only [isIterable_pairKey, len_pairKey, namedSignal, tfObj, bind, Except.bind, pure, Except.pure]
  have hshape : npEmptyShape (noutputs (⟨S.p, S.m, S.body, S.dt⟩ : DTF K)) (ninputs (⟨S.p, S.m, S.body, S.dt⟩ : DTF K))
      = .ok (.tuple [.int S.p, .int S.m]) := by
    have : ¬ ((S.p : Int) < 0 ∨ (S.m : Int) < 0) := by omega
    simp [npEmptyShape, noutputs, ninputs, this]
  simp only [hshape, pairKey, generated_parseKey_pair, Bool.not_true, Bool.false_eq_true, if_false, ne_eq,
    not_true_eq_false, decide_false]
  cases hr : parseSel S.outs kr with
  | error e => simp [Except.bind, Except.map]
  | ok r =>
    cases hc : parseSel S.ins kc with
    | error e => simp [Except.bind, Except.map]
    | ok c =>
      simp only [Except.bind, Except.map, getitem_pair0, getitem_pair1]
      rcases psi_spec S.outs r true with ⟨e, h1, h2⟩ | ⟨rows, ri, h1, h2, h3⟩
      · simp [h1, h2]
      · rcases psi_spec S.ins c true with ⟨e, g1, g2⟩ | ⟨cols, ci, g1, g2, g3⟩
        · simp [h1, h2, g1, g2]
        · simp only [IdxFor, if_true] at h3 g3
          obtain ⟨ri', hri, hrows⟩ := h3
          obtain ⟨ci', hci, hcols⟩ := g3
          simp only [h1, h2, g1, g2, len_pyLabelList, List.length_map, createPolyArray_nat, newArr_p, newArr_m,
            enumerate_ints _ _ hri, enumerate_ints _ _ hci]
          obtain ⟨hlr, hkr⟩ := mapM_ok_inv _ _ _ hrows
          obtain ⟨hlc, hkc⟩ := mapM_ok_inv _ _ _ hcols
          let fn : Nat → Nat → List K := fun a b =>
            if h : a < rows.length ∧ b < cols.length then (S.body.e rows[a] cols[b]).num else []
          let fd : Nat → Nat → List K := fun a b =>
            if h : a < rows.length ∧ b < cols.length then (S.body.e rows[a] cols[b]).den else []
          rw [foldlM_list_eq (enumInts ri') _ (fun k =>
            (fillTo (newArr rows.length cols.length none) fn k 0,
             fillTo (newArr rows.length cols.length none) fd k 0))]
          · simp only [enumInts_length, ← hlr, defaultsOf_pre, defaultsOf_suf]
            unfold mkTransferFunction tfCtor
            simp only [fillTo_p, fillTo_m, newArr_p, newArr_m, bind, Except.bind, pure, Except.pure]
            by_cases hq : rows.length = 0 ∨ cols.length = 0
            · simp only [List.length_eq_zero_iff] at hq
              simp [hq, throw, throwThe, MonadExceptOf.throw]
            · have hq' : ¬ (rows = [] ∨ cols = []) := by simpa only [List.length_eq_zero_iff] using hq
              simp only [List.length_eq_zero_iff, if_neg hq']
              have hmk : mkTF (fillTo (newArr rows.length cols.length none) fn rows.length 0)
                  (fillTo (newArr rows.length cols.length none) fd rows.length 0) S.dt
                  = (do let s ← TFM.mk' (o := Fin rows.length) (ι := Fin cols.length)
                          (fun i j => S.body.e (rows.get i) (cols.get j))
                        pure (⟨rows.length, cols.length, s, S.dt⟩ : DTF K)) :=
                mkTF_of_get (fillTo (newArr rows.length cols.length none) fn rows.length 0)
                (fillTo (newArr rows.length cols.length none) fd rows.length 0) S.dt
                (fun i j => S.body.e (rows.get i) (cols.get j)) rfl rfl
                (by
                  intro i j
                  have hi : (i : Nat) < rows.length := i.isLt
                  have hj : (j : Nat) < cols.length := j.isLt
                  rw [fillTo_get_done (newArr rows.length cols.length none) fn rows.length 0 i j hi hi hj]
                  simp [fn, hi, hj]
                  rfl)
                (by
                  intro i j
                  have hi : (i : Nat) < rows.length := i.isLt
                  have hj : (j : Nat) < cols.length := j.isLt
                  rw [fillTo_get_done (newArr rows.length cols.length none) fd rows.length 0 i j hi hi hj]
                  simp [fd, hi, hj]
                  rfl)
              rw [hmk]
              simp only [TFM.reindex, bind, Except.bind, pure, Except.pure, fillTo_p, fillTo_m, newArr_p, newArr_m]
              cases TFM.mk' (fun (i : Fin rows.length) (j : Fin cols.length) => S.body.e (rows.get i) (cols.get j)) with
              | error e => rfl
              | ok s => simp only [labelCount_pyLabelList, List.length_map, and_self, if_true, tfObj, pyLabels_select]
          · simp [fillTo_zero]
          · intro k hk
            have hk' : k < rows.length := by simpa [hlr] using hk
            rw [enumInts_getElem]
            simp only []
            rw [foldlM_list_eq (enumInts ci') _ (fun j =>
              (fillTo (newArr rows.length cols.length none) fn k j,
               fillTo (newArr rows.length cols.length none) fd k j))]
            · simp only [enumInts_length, ← hlc]
              have := fillTo_row_end (newArr rows.length cols.length none) fn k
              have := fillTo_row_end (newArr rows.length cols.length none) fd k
              simp_all
            · rfl
            · intro j hj
              have hj' : j < cols.length := by simpa [hlc] using hj
              rw [enumInts_getElem]
              have e1 := hkr k (by omega) hk'
              have e2 := hkc j (by omega) hj'
              have hvn : (S.body.e rows[k] cols[j]).num = fn k j := by simp [fn, hk', hj']
              have hvd : (S.body.e rows[k] cols[j]).den = fd k j := by simp [fd, hk', hj']
              simp only [asIndex_int,
                numArray_getItem_norm (⟨S.p, S.m, S.body, S.dt⟩ : DTF K) e1 e2,
                denArray_getItem_norm (⟨S.p, S.m, S.body, S.dt⟩ : DTF K) e1 e2, hvn, hvd,
                fillTo_setItem _ _ (show k < (newArr rows.length cols.length (none : Option (List K))).p from hk')
                  (show j < (newArr rows.length cols.length (none : Option (List K))).m from hj')]

/-- a key that is not iterable is rejected (`IOError`). -/
theorem generated_tfGetitem_not_iterable (fuel : Nat) (d : Defaults) (self : TFObj K) (key : PyVal)
    (h : isIterable key = .ok false) : Generated.tfGetitem fuel d self key = .error .badArg := by
  simp [Generated.tfGetitem, h, bind, Except.bind, pure, Except.pure, throw, throwThe, MonadExceptOf.throw]

/-- an iterable key whose length is not 2 is rejected. -/
theorem generated_tfGetitem_wrong_length (fuel : Nat) (d : Defaults) (self : TFObj K) (key : PyVal)
    (l : Int) (h : isIterable key = .ok true) (hl : Py.len key = .ok l) (h2 : l ≠ 2) :
    Generated.tfGetitem fuel d self key = .error .badArg := by
  simp [Generated.tfGetitem, h, hl, h2, bind, Except.bind, pure, Except.pure, throw, throwThe,
    MonadExceptOf.throw]

/-! ### the headline theorems of C17, for the generated method -/

/-- `select_submatrix` for the function the source text defines: whatever
`TransferFunction.__getitem__` returns for `sys[kr, kc]` on a well-formed system is the object of a
well-formed system whose rational-matrix semantics is the sub-matrix of the original one on the
rows / columns the selectors resolve to, in the selected order, with the selected labels, the same
timebase and the name `prefix + name + suffix`. -/
theorem generated_tf_select_submatrix (fuel : Nat) (cfg : Cfg) (S : Sys (TFB K)) (hS : TFM.WF S.body)
    (kr kc : Sel) (R : TFObj K)
    (h : Generated.tfGetitem (fuel + 3) (defaultsOf cfg) (tfObj S) (pairKey kr kc) = .ok R) :
    ∃ (rows : List (Fin S.p)) (cols : List (Fin S.m)) (body : TFB K rows.length cols.length),
      resolve S.outs kr = .ok rows ∧ resolve S.ins kc = .ok cols ∧
      R = tfObj { p := rows.length, m := cols.length, body := body,
                  outs := fun i => S.outs (rows.get i), ins := fun j => S.ins (cols.get j),
                  dt := S.dt, name := cfg.pre ++ S.name ++ cfg.suf } ∧
      TFM.WF body ∧
      TFM.sem body = (TFM.sem S.body).submatrix (fun i => rows.get i) (fun j => cols.get j) := by
  rw [generated_tfGetitem_eq] at h
  cases hg : getitem tfCtor cfg S kr kc with
  | error e => rw [hg] at h; cases h
  | ok R' =>
    rw [hg] at h
    obtain ⟨rows, cols, body, hr, hc, rfl, hwf, hsem⟩ := C17.tf_select_submatrix cfg S hS kr kc R' hg
    cases h
    exact ⟨rows, cols, body, hr, hc, rfl, hwf, hsem⟩

/-- `labels_selected` for the generated method (no well-formedness needed). -/
theorem generated_tf_labels_selected (fuel : Nat) (cfg : Cfg) (S : Sys (TFB K)) (kr kc : Sel)
    (R : TFObj K)
    (h : Generated.tfGetitem (fuel + 3) (defaultsOf cfg) (tfObj S) (pairKey kr kc) = .ok R) :
    ∃ rows cols, resolve S.outs kr = .ok rows ∧ resolve S.ins kc = .ok cols ∧
      R.sys.p = rows.length ∧ R.sys.m = cols.length ∧
      R.output_labels = pyLabelList (rows.map S.outs) ∧ R.input_labels = pyLabelList (cols.map S.ins) ∧
      R.sys.dt = S.dt ∧ R.name = cfg.pre ++ S.name ++ cfg.suf := by
  rw [generated_tfGetitem_eq] at h
  cases hg : getitem tfCtor cfg S kr kc with
  | error e => rw [hg] at h; cases h
  | ok R' =>
    rw [hg] at h
    obtain ⟨rows, cols, body, hr, hc, -, rfl⟩ := (C17.getitem_spec tfCtor cfg S kr kc R').mp hg
    cases h
    exact ⟨rows, cols, hr, hc, rfl, rfl, pyLabels_select _ _, pyLabels_select _ _, rfl, rfl⟩

/-- the generated method returns exactly when both selectors resolve to non-empty selections. -/
theorem generated_tf_returns_iff (fuel : Nat) (cfg : Cfg) (S : Sys (TFB K)) (hS : TFM.WF S.body)
    (kr kc : Sel) :
    (∃ R, Generated.tfGetitem (fuel + 3) (defaultsOf cfg) (tfObj S) (pairKey kr kc) = .ok R) ↔
      ∃ rows cols, resolve S.outs kr = .ok rows ∧ resolve S.ins kc = .ok cols ∧
        rows ≠ [] ∧ cols ≠ [] := by
  rw [← C17.tf_returns_iff cfg S hS kr kc, generated_tfGetitem_eq]
  cases getitem tfCtor cfg S kr kc <;> simp [Except.map]

/-- a selector that does not resolve makes the generated method raise. -/
theorem generated_tf_raises_on_bad_selector (fuel : Nat) (cfg : Cfg) (S : Sys (TFB K)) (kr kc : Sel)
    (h : (∃ e, resolve S.outs kr = .error e) ∨ (∃ e, resolve S.ins kc = .error e)) :
    ∃ e, Generated.tfGetitem (fuel + 3) (defaultsOf cfg) (tfObj S) (pairKey kr kc) = .error e := by
  obtain ⟨e, he⟩ := C17.getitem_raises_on_bad_selector tfCtor cfg S kr kc h
  exact ⟨e, by rw [generated_tfGetitem_eq, he]; rfl⟩

/-- selecting by name is selecting by the index of the name, for the generated method. -/
theorem generated_tf_name_eq_index (fuel : Nat) (cfg : Cfg) (S : Sys (TFB K))
    (ho : Function.Injective S.outs) (hi : Function.Injective S.ins) (i : Fin S.p) (j : Fin S.m)
    (k : Sel) :
    Generated.tfGetitem (fuel + 3) (defaultsOf cfg) (tfObj S) (pairKey (.name (S.outs i)) k)
      = Generated.tfGetitem (fuel + 3) (defaultsOf cfg) (tfObj S) (pairKey (.idx (i.val : Int)) k) ∧
    Generated.tfGetitem (fuel + 3) (defaultsOf cfg) (tfObj S) (pairKey k (.name (S.ins j)))
      = Generated.tfGetitem (fuel + 3) (defaultsOf cfg) (tfObj S) (pairKey k (.idx (j.val : Int))) := by
  obtain ⟨h1, h2⟩ := C17.getitem_name_eq_index tfCtor cfg S ho hi i j k
  simp only [generated_tfGetitem_eq, h1, h2, and_self]

/-! ### non-vacuity: a concrete 2 × 2 transfer matrix over ℚ -/

/-- `[[1/(s+1), 2/(s+3)], [(s+1)/(s^2+2), 5/1]]` -/
def exTF : Sys (TFB ℚ) where
  p := 2
  m := 2
  body := ⟨fun i j => match i, j with
    | 0, 0 => ⟨[1], [1, 1]⟩
    | 0, 1 => ⟨[2], [1, 3]⟩
    | 1, 0 => ⟨[1, 1], [1, 0, 2]⟩
    | 1, 1 => ⟨[5], [1]⟩⟩
  outs := !["y0", "y1"]
  ins := !["u0", "u1"]
  dt := .disc (1 / 10)
  name := "H"

theorem exTF_wf : TFM.WF exTF.body := by
  intro i j
  fin_cases i <;> fin_cases j <;> (rw [Frac.wf_iff]; simp [exTF, isZero])

/-- `H[::-1, 'u1']` returns; `H[[], 0]` and `H[0, 5]` raise. -/
example : ∃ R, Generated.tfGetitem 3 (defaultsOf ⟨"", "$indexed"⟩) (tfObj exTF)
    (pairKey (.slice none none (some (-1))) (.name "u1")) = .ok R :=
  (generated_tf_returns_iff 0 _ exTF exTF_wf _ _).mpr
    ⟨[(1 : Fin 2), (0 : Fin 2)], [(1 : Fin 2)], by decide, by decide, by simp, by simp⟩

example : ¬ ∃ R, Generated.tfGetitem 3 (defaultsOf ⟨"", "$indexed"⟩) (tfObj exTF)
    (pairKey (.list []) (.idx 0)) = .ok R := by
  rw [generated_tf_returns_iff 0 _ exTF exTF_wf]
  rintro ⟨rows, cols, hr, hc, h1, h2⟩
  have : resolve exTF.outs (.list []) = .ok [] := by decide
  rw [this] at hr
  cases hr
  exact h1 rfl

example : ∃ e, Generated.tfGetitem 3 (defaultsOf ⟨"", "$indexed"⟩) (tfObj exTF)
    (pairKey (.idx 0) (.idx 5)) = .error e :=
  generated_tf_raises_on_bad_selector 0 _ exTF _ _ (Or.inr ⟨.indexRange, by decide⟩)

/-- key validation is not vacuous: `H[0]` and `H[0, 1, 0]` raise `IOError`. -/
example : Generated.tfGetitem 3 (defaultsOf ⟨"", "$indexed"⟩) (tfObj exTF) (.int 0) = .error .badArg :=
  generated_tfGetitem_not_iterable _ _ _ _ rfl
example : Generated.tfGetitem 3 (defaultsOf ⟨"", "$indexed"⟩) (tfObj exTF) (.tuple [.int 0, .int 1, .int 0])
    = .error .badArg :=
  generated_tfGetitem_wrong_length _ _ _ _ 3 rfl rfl (by decide)

/-- the labels of `exTF` are pairwise distinct (hypotheses of `generated_tf_name_eq_index`). -/
example : Function.Injective exTF.outs ∧ Function.Injective exTF.ins := by
  constructor <;> (intro a b; fin_cases a <;> fin_cases b <;> simp [exTF])

end CtrlVerif.C17GenItem
