/-
C09 — FRD arithmetic is pointwise complex-matrix arithmetic at the stored frequencies.

Property theorems only (helper lemmas live in `Lemmas/FRD.lean`).  `K` is an arbitrary field
(the driver runs the same definitions over `ℚ(i)`), the shapes `o ι κ …` are arbitrary finite
index types, the grid has an arbitrary length `n`.  `G.data k` is the response matrix stored
with the `k`-th frequency `G.omega k`.

Every operator theorem says: the operator returns a system on the stated grid whose matrix at
every grid index is the corresponding matrix operation on the operands' matrices at that index;
where the mathematical result does not exist (zero divisor, singular loop, frequency not
stored, shape or grid mismatch) the operator returns an error.
-/
import CtrlVerif.Lemmas.FRD
import CtrlVerif.Model.FRDExpr

namespace CtrlVerif.C09

open CtrlVerif Matrix

variable {K : Type*} [Field K]
variable {n : Nat} {o ι κ o₂ ι₂ : Type*}

/-! ### the typed operators, index by index -/

/-- `-G` -/
theorem neg_pointwise (G : FRD n o ι K) (k : Fin n) :
    G.neg.data k = - G.data k ∧ G.neg.omega k = G.omega k := ⟨rfl, rfl⟩

/-- `G + H`: the sum of the response matrices, on the grid of `H`. -/
theorem add_pointwise (G H : FRD n o ι K) (k : Fin n) :
    (G.add H).data k = G.data k + H.data k ∧ (G.add H).omega k = H.omega k := ⟨rfl, rfl⟩

/-- `G - H` is `G + (-H)` in the code. -/
theorem sub_pointwise (G H : FRD n o ι K) (k : Fin n) :
    (G.add H.neg).data k = G.data k - H.data k ∧ (G.add H.neg).omega k = H.omega k :=
  ⟨(sub_eq_add_neg _ _).symm, rfl⟩

/-- `G * H`: the matrix product, on the grid of `G`. -/
theorem mul_pointwise [Fintype κ] (G : FRD n o κ K) (H : FRD n κ ι K) (k : Fin n) :
    (G.mul H).data k = G.data k * H.data k ∧ (G.mul H).omega k = G.omega k := ⟨rfl, rfl⟩

/-- `other * self` (`__rmul__`): `other` is the left factor; on the grid of `self`. -/
theorem rmul_pointwise [Fintype κ] (self : FRD n κ ι K) (other : FRD n o κ K) (k : Fin n) :
    (self.rmul other).data k = other.data k * self.data k ∧
      (self.rmul other).omega k = self.omega k := ⟨rfl, rfl⟩

/-- scalar fast path: `c * G`, `G * c`. -/
theorem smul_pointwise (c : K) (G : FRD n o ι K) (k : Fin n) :
    (G.smul c).data k = c • G.data k ∧ (G.smul c).omega k = G.omega k := ⟨rfl, rfl⟩

/-- the scalar fast path agrees with multiplication by the constant response `c I` on either
side (what the general path would compute). -/
theorem smul_eq_mul_const [Fintype ι] [DecidableEq ι] [Fintype o] [DecidableEq o]
    (c : K) (G : FRD n o ι K) (k : Fin n) :
    (G.smul c).data k = (G.mul (FRD.const G.omega (c • (1 : Matrix ι ι K)))).data k ∧
    (G.smul c).data k = (G.rmul (FRD.const G.omega (c • (1 : Matrix o o K)))).data k := by
  constructor <;> simp [FRD.smul, FRD.mul, FRD.rmul, FRD.const]

/-- constants act as constant responses. -/
theorem const_pointwise (w : Fin n → ℚ) (D : Matrix o ι K) (k : Fin n) :
    (FRD.const w D).data k = D ∧ (FRD.const w D).omega k = w k := ⟨rfl, rfl⟩

/-- `G / h` for a SISO `h` whose response vanishes nowhere on the grid: every entry divided by
the scalar response at the same index. -/
theorem divSiso_pointwise [DecidableEq K] (G : FRD n o ι K) (h : Fin n → K) (hh : ∀ k, h k ≠ 0) :
    ∃ R, G.divSiso h = .ok R ∧ R.omega = G.omega ∧
      ∀ k i j, R.data k i j = G.data k i j / h k := by
  refine ⟨⟨G.omega, fun k => (h k)⁻¹ • G.data k⟩, ?_, rfl, ?_⟩
  · unfold FRD.divSiso
    rw [if_neg]
    rintro ⟨k, hk⟩
    exact hh k hk
  · intro k i j
    simp [div_eq_inv_mul]

/-- … and a zero of the divisor on the grid is an error. -/
theorem divSiso_zero_raises [DecidableEq K] (G : FRD n o ι K) (h : Fin n → K) (hz : ∃ k, h k = 0) :
    G.divSiso h = .error .zeroDen := by
  unfold FRD.divSiso
  rw [if_pos hz]

/-- `c / g` for a SISO `g` (`__rtruediv__`, scalar branch). -/
theorem rdivScalar_pointwise [DecidableEq K] (c : K) (g : Fin n → K) (w : Fin n → ℚ)
    (hg : ∀ k, g k ≠ 0) :
    ∃ R, FRD.rdivScalar c g w = .ok R ∧ R.omega = w ∧ ∀ k, R.data k 0 0 = c / g k := by
  refine ⟨⟨w, fun k => Matrix.of fun _ _ => c * (g k)⁻¹⟩, ?_, rfl, ?_⟩
  · unfold FRD.rdivScalar
    rw [if_neg]
    rintro ⟨k, hk⟩
    exact hg k hk
  · intro k
    simp [div_eq_mul_inv]

theorem rdivScalar_zero_raises [DecidableEq K] (c : K) (g : Fin n → K) (w : Fin n → ℚ)
    (hz : ∃ k, g k = 0) : FRD.rdivScalar c g w = .error .zeroDen := by
  unfold FRD.rdivScalar
  rw [if_pos hz]

/-- `append`: block diagonal. -/
theorem append_pointwise (G : FRD n o ι K) (H : FRD n o₂ ι₂ K) (k : Fin n) :
    (G.append H).data k = fromBlocks (G.data k) 0 0 (H.data k) ∧
      (G.append H).omega k = G.omega k := ⟨rfl, rfl⟩

/-- SISO promotion (`bdalg.append(*[g] * r)`) is the scalar matrix `g I`. -/
theorem diag_pointwise (g : FRD n (Fin 1) (Fin 1) K) (r : Nat) (k : Fin n) :
    (g.diag r).data k = g.data k 0 0 • (1 : Matrix (Fin r) (Fin r) K) := by
  simp [FRD.diag, Matrix.smul_one_eq_diagonal]

/-- indexing selects the sub-matrix. -/
theorem select_pointwise {o' ι' : Type*} (G : FRD n o ι K) (r : o' → o) (c : ι' → ι) (k : Fin n) :
    (G.select r c).data k = (G.data k).submatrix r c ∧ (G.select r c).omega k = G.omega k :=
  ⟨rfl, rfl⟩

/-! ### feedback -/

section feedback
variable [Fintype o] [Fintype ι] [DecidableEq ι] [DecidableEq K]

/-- `feedback(H, sign)`: when `I - sign H G` is invertible at every grid index, the result `T`
exists, lives on the grid of `H`, and `T_k (I - sign H_k G_k) = G_k`, i.e.
`T_k = G_k (I - sign H_k G_k)⁻¹`. -/
theorem feedback_pointwise (G : FRD n o ι K) (H : FRD n ι o K) (sign : K)
    (hdet : ∀ k, (1 - sign • (H.data k * G.data k)).det ≠ 0) :
    ∃ T, G.feedback H sign = .ok T ∧ T.omega = H.omega ∧
      (∀ k, T.data k * (1 - sign • (H.data k * G.data k)) = G.data k) ∧
      (∀ k, T.data k = G.data k * (1 - sign • (H.data k * G.data k))⁻¹) := by
  refine ⟨⟨H.omega, fun k => G.data k * SS.invQ (FRD.loopMat G H sign k)⟩, ?_, rfl, ?_, ?_⟩
  · unfold FRD.feedback
    rw [if_neg]
    rintro ⟨k, hk⟩
    exact hdet k hk
  · intro k
    show G.data k * SS.invQ (FRD.loopMat G H sign k) * _ = _
    rw [Matrix.mul_assoc]
    have := invQ_mul_self (FRD.loopMat G H sign k) (hdet k)
    unfold FRD.loopMat at this ⊢
    rw [this, Matrix.mul_one]
  · intro k
    show G.data k * SS.invQ (1 - sign • (H.data k * G.data k)) = _
    rw [invQ_eq_inv _ (hdet k)]

/-- the same closed loop written from the other side: `(I - sign G_k H_k) T_k = G_k`. -/
theorem feedback_pointwise_left [DecidableEq o] (G : FRD n o ι K) (H : FRD n ι o K) (sign : K)
    (hdet : ∀ k, (1 - sign • (H.data k * G.data k)).det ≠ 0) :
    ∃ T, G.feedback H sign = .ok T ∧
      ∀ k, (1 - sign • (G.data k * H.data k)) * T.data k = G.data k := by
  obtain ⟨T, hT, _, _, hinv⟩ := feedback_pointwise G H sign hdet
  refine ⟨T, hT, fun k => ?_⟩
  rw [hinv k, ← Matrix.mul_assoc, push_through, Matrix.mul_assoc,
    Matrix.mul_nonsing_inv _ ((isUnit_iff_ne_zero).mpr (hdet k)), Matrix.mul_one]

/-- the closed loop is determined by its equation: any `T'` with `T' (I - sign H G) = G` is
the returned matrix. -/
theorem feedback_unique (G : FRD n o ι K) (H : FRD n ι o K) (sign : K)
    (hdet : ∀ k, (1 - sign • (H.data k * G.data k)).det ≠ 0) {T : FRD n o ι K}
    (hT : G.feedback H sign = .ok T) (k : Fin n) (T' : Matrix o ι K)
    (h' : T' * (1 - sign • (H.data k * G.data k)) = G.data k) : T' = T.data k := by
  obtain ⟨T₀, hT₀, _, _, hinv⟩ := feedback_pointwise G H sign hdet
  rw [hT₀] at hT
  cases hT
  calc T' = T' * ((1 - sign • (H.data k * G.data k)) * (1 - sign • (H.data k * G.data k))⁻¹) := by
        rw [Matrix.mul_nonsing_inv _ ((isUnit_iff_ne_zero).mpr (hdet k)), Matrix.mul_one]
    _ = G.data k * (1 - sign • (H.data k * G.data k))⁻¹ := by rw [← Matrix.mul_assoc, h']
    _ = T.data k := (hinv k).symm

/-- a singular loop matrix at some grid index is an error (`LinAlgError`). -/
theorem feedback_singular_raises (G : FRD n o ι K) (H : FRD n ι o K) (sign : K)
    (hs : ∃ k, (1 - sign • (H.data k * G.data k)).det = 0) :
    G.feedback H sign = .error .illPosed := by
  unfold FRD.feedback
  exact if_pos hs

end feedback

/-- the sign matters: with `g = h = 1` on a one-point grid, negative feedback gives `1/2`
and positive feedback does not exist.  (The unrepaired code returns `1/2` for both signs.) -/
theorem feedback_sign_distinguishes :
    let g : FRD 1 (Fin 1) (Fin 1) ℚ := FRD.const (fun _ => 1) 1
    (∃ T, g.feedback g (-1) = .ok T ∧ T.data 0 0 0 = 1 / 2) ∧
      g.feedback g 1 = .error .illPosed := by
  intro g
  have hneg : ∀ k : Fin 1, (1 - (-1 : ℚ) • (g.data k * g.data k)).det ≠ 0 := by
    intro k; simp [g, FRD.const]
  obtain ⟨T, hT, _, heq, _⟩ := feedback_pointwise g g (-1) hneg
  refine ⟨⟨T, hT, ?_⟩, feedback_singular_raises g g 1 ⟨0, by simp [g, FRD.const]⟩⟩
  have h0 := congrFun (congrFun (heq 0) 0) 0
  simp [g, FRD.const, Matrix.mul_apply, Matrix.sub_apply] at h0
  linarith

/-! ### evaluation at stored frequencies -/

/-- `eval` at a stored frequency returns the matrix stored with its first occurrence … -/
theorem evalAt_stored (G : FRD n o ι K) (k : Fin n) (w : ℚ) (hk : G.omega k = w)
    (hfirst : ∀ k' : Fin n, k' < k → G.omega k' ≠ w) : G.evalAt w = .ok (G.data k) := by
  unfold FRD.evalAt
  rw [(FRD.find?_some_iff G w k).mpr ⟨hk, hfirst⟩]

/-- … which on a grid without repeated frequencies is *the* matrix stored with it. -/
theorem evalAt_stored_injective (G : FRD n o ι K) (hinj : Function.Injective G.omega) (k : Fin n) :
    G.evalAt (G.omega k) = .ok (G.data k) := by
  unfold FRD.evalAt
  rw [FRD.find?_of_injective G hinj k]

/-- a request for any list of stored frequencies — in any order, with repeats — is answered
with the stored matrices in the order of the request. -/
theorem eval_stored (G : FRD n o ι K) (hinj : Function.Injective G.omega) (ks : List (Fin n)) :
    G.eval (ks.map G.omega) = .ok (ks.map G.data) := by
  unfold FRD.eval
  have := mapM_except_ok G.evalAt (fun w => match G.find? w with
      | some k => G.data k
      | none => 0) (ks.map G.omega) (by
    intro w hw
    obtain ⟨k, _, rfl⟩ := List.mem_map.mp hw
    rw [evalAt_stored_injective G hinj k, FRD.find?_of_injective G hinj k])
  rw [this, List.map_map]
  congr 1
  apply List.map_congr_left
  intro k _
  simp [FRD.find?_of_injective G hinj k]

/-- a frequency that is not stored raises. -/
theorem evalAt_missing_raises (G : FRD n o ι K) (w : ℚ) (hw : ∀ k, G.omega k ≠ w) :
    G.evalAt w = .error .missing := by
  unfold FRD.evalAt
  rw [(FRD.find?_none_iff G w).mpr hw]

/-- a request containing a frequency that is not stored raises as a whole. -/
theorem eval_missing_raises (G : FRD n o ι K) (ws : List ℚ) (w : ℚ) (hmem : w ∈ ws)
    (hw : ∀ k, G.omega k ≠ w) : G.eval ws = .error .missing := by
  unfold FRD.eval
  apply mapM_except_error
  · exact ⟨w, hmem, evalAt_missing_raises G w hw⟩
  · intro a _ e' he
    unfold FRD.evalAt at he
    split at he <;> cases he
    rfl

/-! ### operand conversion (`_convert_to_frd`) -/

section convert
variable {K : Type} [Field K] [DecidableEq K] {n : Nat}

/-- a scalar becomes the constant `p × m` response with every entry equal to it. -/
theorem convert_scalar (E : Env K) (w : Fin n → ℚ) (p m : Nat) (c : K) :
    ∃ F, DFRD.convert E w p m (.scalar c) = .ok F ∧ F.p = p ∧ F.m = m ∧ F.sys.omega = w ∧
      ∀ k i j, F.sys.data k i j = c :=
  ⟨_, rfl, rfl, rfl, rfl, fun _ _ _ => rfl⟩

/-- a constant matrix becomes the constant response. -/
theorem convert_array (E : Env K) (w : Fin n → ℚ) (p m p' m' : Nat) (D : Matrix (Fin p') (Fin m') K) :
    DFRD.convert E w p m (.array p' m' D) = .ok ⟨p', m', FRD.const w D, true⟩ := rfl

/-- an FRD operand on a matching grid (same length, frequencies within `1e-8`) is used as it is. -/
theorem convert_frd_match (E : Env K) (w : Fin n → ℚ) (p m : Nat) (H : DFRD K n)
    (hgrid : ∀ k, |w k - H.sys.omega k| < 1 / 100000000) :
    DFRD.convert E w p m (.frd n H) = .ok H := by
  have : FRD.gridMatch w (FRD.castN rfl H.sys).omega = true := by
    unfold FRD.gridMatch
    exact decide_eq_true hgrid
  simp only [DFRD.convert, dif_pos, this, if_true]
  rfl

/-- an FRD operand on a different grid is rejected (`NotImplementedError`). -/
theorem convert_frd_mismatch_raises (E : Env K) (w : Fin n → ℚ) (p m : Nat) (n' : Nat)
    (H : DFRD K n')
    (hbad : n' ≠ n ∨ ∃ h : n' = n, ∃ k, ¬ |w k - H.sys.omega (Fin.cast h.symm k)| < 1 / 100000000) :
    DFRD.convert E w p m (.frd n' H) = .error .notImplemented := by
  by_cases h : n' = n
  · rcases hbad with hne | ⟨h', k, hk⟩
    · exact absurd h hne
    · have : FRD.gridMatch w (FRD.castN h H.sys).omega = false := by
        unfold FRD.gridMatch
        apply decide_eq_false
        intro hall
        exact hk (hall k)
      simp only [DFRD.convert, dif_pos h, this]
      rfl
  · simp only [DFRD.convert, dif_neg h]

/-- a state-space operand is evaluated on the grid: at every grid index the stored matrix is
the value of its transfer matrix at `jω` (continuous) or `exp(jω·dt)` (discrete), in the sense
of `SS.Resp` (`(sI - A) X = B`, `Y = C X + D`); a pole on the grid is an error. -/
theorem convert_ss_resp (E : Env K) (w : Fin n → ℚ) (p₀ m₀ : Nat) (ns p m : Nat)
    (G : SS (Fin ns) (Fin m) (Fin p) K) (dt : Dt) (F : DFRD K n)
    (h : DFRD.convert E w p₀ m₀ (.lti (.ss ns p m G dt)) = .ok F) :
    ∃ (hp : F.p = p) (hm : F.m = m), F.sys.omega = w ∧
      ∀ k, G.Resp (freqPoint E dt (w k))
        ((F.sys.data k).submatrix (Fin.cast hp.symm) (Fin.cast hm.symm)) := by
  simp only [DFRD.convert] at h
  unfold DFRD.ofLTI at h
  split at h
  · cases h
  · rename_i hns
    cases h
    refine ⟨rfl, rfl, rfl, fun k => ?_⟩
    have hk : ((freqPoint E dt (w k)) • (1 : Matrix (Fin ns) (Fin ns) K) - G.A).det ≠ 0 := by
      intro hz
      exact hns ⟨k, by simp [LTI.singularAt, LTI.dt, hz]⟩
    refine ⟨SS.invQ (freqPoint E dt (w k) • (1 : Matrix (Fin ns) (Fin ns) K) - G.A) * G.B, ?_, ?_⟩
    · rw [← Matrix.mul_assoc, self_mul_invQ _ hk, Matrix.one_mul]
    · ext i j
      rfl

/-- a transfer-function operand is evaluated on the grid: every stored entry is
`num(s) / den(s)` (as polynomials, `toPoly`) at `s = jω` or `exp(jω·dt)`, and no denominator
vanishes there. -/
theorem convert_tf_eval (E : Env K) (w : Fin n → ℚ) (p₀ m₀ : Nat) (p m : Nat)
    (e : Fin p → Fin m → Frac K) (dt : Dt) (F : DFRD K n)
    (h : DFRD.convert E w p₀ m₀ (.lti (.tf p m e dt)) = .ok F) :
    ∃ (hp : F.p = p) (hm : F.m = m), F.sys.omega = w ∧
      ∀ k i j, (toPoly (e i j).den).eval (freqPoint E dt (w k)) ≠ 0 ∧
        F.sys.data k (Fin.cast hp.symm i) (Fin.cast hm.symm j) =
          (toPoly (e i j).num).eval (freqPoint E dt (w k)) /
            (toPoly (e i j).den).eval (freqPoint E dt (w k)) := by
  simp only [DFRD.convert] at h
  unfold DFRD.ofLTI at h
  split at h
  · cases h
  · rename_i hns
    cases h
    refine ⟨rfl, rfl, rfl, fun k i j => ⟨?_, ?_⟩⟩
    · intro hz
      apply hns
      refine ⟨k, ?_⟩
      show decide (∃ i j, polyval (e i j).den (freqPoint E dt (w k)) = 0) = true
      exact decide_eq_true ⟨i, j, by rw [polyval_eq_eval]; exact hz⟩
    · show polyval (e i j).num (freqPoint E dt (w k)) / polyval (e i j).den (freqPoint E dt (w k)) = _
      rw [polyval_eq_eval, polyval_eq_eval]

/-- a pole of the operand on the grid is an error. -/
theorem convert_lti_pole_raises (E : Env K) (w : Fin n → ℚ) (p₀ m₀ : Nat) (L : LTI K)
    (hpole : ∃ k, L.singularAt (freqPoint E L.dt (w k)) = true) :
    DFRD.convert E w p₀ m₀ (.lti L) = .error .zeroDen := by
  simp only [DFRD.convert]
  unfold DFRD.ofLTI
  rw [if_pos hpole]

end convert

/-! ### tree theorem

Full statement (DESIGN §3.5): for every expression tree over FRD / LTI / scalar / array leaves of
arbitrary shapes with the operators `+ - * / neg pow feedback append index`,
`evalModel e = .ok F → ∀ k, evalSem k e = some (F.data k)` and `evalModel e = .error _ ↔` the
pointwise expression does not exist (shape or grid mismatch, zero divisor, singular loop).
Proved here for trees of one square shape on one grid with `neg + - * (scalar *) feedback`
(`tree_sound_partial`, `tree_error_partial`); missing: the run-time-shaped dispatch (SISO
promotion, shape and grid checks, `/`, `pow`, `append`, indexing), which is covered operator by
operator above and by the correspondence runs.

The FULL theorem over run-time shapes is now proved in `Props/C09Tree.lean` (`tree_spec`,
`tree_sound`, `tree_error`, `tree_error_kind`, `tree_complete`, `tree_returns_iff` over
`Model/C09Expr.lean`: leaves of any shape, scalar / array / LTI / off-grid FRD operands on either
side, `+ - * / neg ** feedback append index`, through the dispatching run-time layer
`Model/FRDDyn.lean`).  The two partial theorems below are kept as they are. -/

section tree
variable {ι : Type*} [Fintype ι] [DecidableEq ι] [DecidableEq K]

/-- a returned closed loop certifies that every loop matrix was invertible. -/
theorem feedback_ok_det (G H : FRD n ι ι K) (s : K) (R : FRD n ι ι K)
    (h : G.feedback H s = .ok R) : ∀ k, (1 - s • (H.data k * G.data k)).det ≠ 0 := by
  intro k hz
  rw [feedback_singular_raises G H s ⟨k, hz⟩] at h
  cases h

theorem tree_sound_partial (e : FExpr n ι K) :
    ∀ R, e.evalModel = .ok R → ∀ k, e.evalSem k = some (R.data k) := by
  induction e with
  | leaf F => intro R h k; cases h; rfl
  | neg a ih =>
    intro R h k
    cases ha : a.evalModel with
    | error e => simp [FExpr.evalModel, ha, bind, Except.bind] at h
    | ok x =>
      simp [FExpr.evalModel, ha, bind, Except.bind, pure, Except.pure] at h
      subst h
      simp [FExpr.evalSem, ih x ha k, FRD.neg]
  | smul c a ih =>
    intro R h k
    cases ha : a.evalModel with
    | error e => simp [FExpr.evalModel, ha, bind, Except.bind] at h
    | ok x =>
      simp [FExpr.evalModel, ha, bind, Except.bind, pure, Except.pure] at h
      subst h
      simp [FExpr.evalSem, ih x ha k, FRD.smul]
  | add a b iha ihb =>
    intro R h k
    cases ha : a.evalModel with
    | error e => simp [FExpr.evalModel, ha, bind, Except.bind] at h
    | ok x =>
      cases hb : b.evalModel with
      | error e => simp [FExpr.evalModel, ha, hb, bind, Except.bind] at h
      | ok y =>
        simp [FExpr.evalModel, ha, hb, bind, Except.bind, pure, Except.pure] at h
        subst h
        simp [FExpr.evalSem, iha x ha k, ihb y hb k, FRD.add]
  | sub a b iha ihb =>
    intro R h k
    cases ha : a.evalModel with
    | error e => simp [FExpr.evalModel, ha, bind, Except.bind] at h
    | ok x =>
      cases hb : b.evalModel with
      | error e => simp [FExpr.evalModel, ha, hb, bind, Except.bind] at h
      | ok y =>
        simp [FExpr.evalModel, ha, hb, bind, Except.bind, pure, Except.pure] at h
        subst h
        simp [FExpr.evalSem, iha x ha k, ihb y hb k, FRD.add, FRD.neg, sub_eq_add_neg]
  | mul a b iha ihb =>
    intro R h k
    cases ha : a.evalModel with
    | error e => simp [FExpr.evalModel, ha, bind, Except.bind] at h
    | ok x =>
      cases hb : b.evalModel with
      | error e => simp [FExpr.evalModel, ha, hb, bind, Except.bind] at h
      | ok y =>
        simp [FExpr.evalModel, ha, hb, bind, Except.bind, pure, Except.pure] at h
        subst h
        simp [FExpr.evalSem, iha x ha k, ihb y hb k, FRD.mul]
  | fb a b s iha ihb =>
    intro R h k
    cases ha : a.evalModel with
    | error e => simp [FExpr.evalModel, ha, bind, Except.bind] at h
    | ok x =>
      cases hb : b.evalModel with
      | error e => simp [FExpr.evalModel, ha, hb, bind, Except.bind] at h
      | ok y =>
        simp [FExpr.evalModel, ha, hb, bind, Except.bind] at h
        have hdet := feedback_ok_det x y s R h
        obtain ⟨T, hT, _, _, hinv⟩ := feedback_pointwise x y s hdet
        rw [hT] at h
        cases h
        simp [FExpr.evalSem, iha x ha k, ihb y hb k, hdet k, hinv k]

/-- the model raises only where the pointwise expression does not exist at some grid index
(for these trees: a singular loop matrix). -/
theorem tree_error_partial (e : FExpr n ι K) :
    ∀ err, e.evalModel = .error err → ∃ k, e.evalSem k = none := by
  induction e with
  | leaf F => intro err h; cases h
  | neg a ih =>
    intro err h
    cases ha : a.evalModel with
    | error e' => obtain ⟨k, hk⟩ := ih e' ha; exact ⟨k, by simp [FExpr.evalSem, hk]⟩
    | ok x => simp [FExpr.evalModel, ha, bind, Except.bind, pure, Except.pure] at h
  | smul c a ih =>
    intro err h
    cases ha : a.evalModel with
    | error e' => obtain ⟨k, hk⟩ := ih e' ha; exact ⟨k, by simp [FExpr.evalSem, hk]⟩
    | ok x => simp [FExpr.evalModel, ha, bind, Except.bind, pure, Except.pure] at h
  | add a b iha ihb =>
    intro err h
    cases ha : a.evalModel with
    | error e' => obtain ⟨k, hk⟩ := iha e' ha; exact ⟨k, by simp [FExpr.evalSem, hk]⟩
    | ok x =>
      cases hb : b.evalModel with
      | error e' =>
        obtain ⟨k, hk⟩ := ihb e' hb
        exact ⟨k, by simp [FExpr.evalSem, hk, tree_sound_partial a x ha k]⟩
      | ok y => simp [FExpr.evalModel, ha, hb, bind, Except.bind, pure, Except.pure] at h
  | sub a b iha ihb =>
    intro err h
    cases ha : a.evalModel with
    | error e' => obtain ⟨k, hk⟩ := iha e' ha; exact ⟨k, by simp [FExpr.evalSem, hk]⟩
    | ok x =>
      cases hb : b.evalModel with
      | error e' =>
        obtain ⟨k, hk⟩ := ihb e' hb
        exact ⟨k, by simp [FExpr.evalSem, hk, tree_sound_partial a x ha k]⟩
      | ok y => simp [FExpr.evalModel, ha, hb, bind, Except.bind, pure, Except.pure] at h
  | mul a b iha ihb =>
    intro err h
    cases ha : a.evalModel with
    | error e' => obtain ⟨k, hk⟩ := iha e' ha; exact ⟨k, by simp [FExpr.evalSem, hk]⟩
    | ok x =>
      cases hb : b.evalModel with
      | error e' =>
        obtain ⟨k, hk⟩ := ihb e' hb
        exact ⟨k, by simp [FExpr.evalSem, hk, tree_sound_partial a x ha k]⟩
      | ok y => simp [FExpr.evalModel, ha, hb, bind, Except.bind, pure, Except.pure] at h
  | fb a b s iha ihb =>
    intro err h
    cases ha : a.evalModel with
    | error e' => obtain ⟨k, hk⟩ := iha e' ha; exact ⟨k, by simp [FExpr.evalSem, hk]⟩
    | ok x =>
      cases hb : b.evalModel with
      | error e' =>
        obtain ⟨k, hk⟩ := ihb e' hb
        exact ⟨k, by simp [FExpr.evalSem, hk, tree_sound_partial a x ha k]⟩
      | ok y =>
        simp [FExpr.evalModel, ha, hb, bind, Except.bind] at h
        by_cases hs : ∃ k, (1 - s • (y.data k * x.data k)).det = 0
        · obtain ⟨k, hk⟩ := hs
          exact ⟨k, by simp [FExpr.evalSem, tree_sound_partial a x ha k, tree_sound_partial b y hb k, hk]⟩
        · have hdet : ∀ k, (1 - s • (y.data k * x.data k)).det ≠ 0 := fun k hk => hs ⟨k, hk⟩
          obtain ⟨T, hT, _⟩ := feedback_pointwise x y s hdet
          rw [hT] at h
          cases h

end tree

/-! ### the run-time-shaped dispatch layer: SISO promotion -/

section promote
variable {K : Type} [Field K] [DecidableEq K] {n : Nat}

/-- `G * h` for a MIMO `G` and a SISO `h` (`other = append(*[other] * self.ninputs)`): every
entry of `G_k` is multiplied by the scalar response `h_k`; shape and grid are those of `G`. -/
theorem mulCore_promote_right (G H : DFRD K n) (hG : G.isSiso = false) (hH : H.isSiso = true) :
    ∃ R, G.mulCore H = .ok R ∧ R.sys.omega = G.sys.omega ∧ ∃ (hp : R.p = G.p) (hm : R.m = G.m),
      ∀ k i j, R.sys.data k (Fin.cast hp.symm i) (Fin.cast hm.symm j) = G.sys.data k i j * H.g00 k := by
  unfold DFRD.mulCore
  simp only [hG, hH, Bool.false_and, Bool.not_false, Bool.not_true, Bool.and_true, Bool.and_false,
    if_false, if_true, Bool.true_and, Bool.false_eq_true]
  unfold DFRD.mulAligned
  rw [dif_pos (by rfl)]
  refine ⟨_, rfl, rfl, rfl, rfl, fun k i j => ?_⟩
  show (G.sys.data k * (Matrix.diagonal fun _ : Fin G.m => H.g00 k)) i j = _
  rw [Matrix.mul_diagonal]

/-- `g * H` for a SISO `g` and a MIMO `H` (`self = append(*[self] * other.noutputs)`). -/
theorem mulCore_promote_left (G H : DFRD K n) (hG : G.isSiso = true) (hH : H.isSiso = false) :
    ∃ R, G.mulCore H = .ok R ∧ R.sys.omega = G.sys.omega ∧ ∃ (hp : R.p = H.p) (hm : R.m = H.m),
      ∀ k i j, R.sys.data k (Fin.cast hp.symm i) (Fin.cast hm.symm j) = G.g00 k * H.sys.data k i j := by
  unfold DFRD.mulCore
  simp only [hG, hH, Bool.false_and, Bool.not_false, Bool.not_true, Bool.and_true, Bool.and_false,
    if_false, if_true, Bool.true_and, Bool.false_eq_true]
  unfold DFRD.mulAligned
  rw [dif_pos (by rfl)]
  refine ⟨_, rfl, rfl, rfl, rfl, fun k i j => ?_⟩
  show ((Matrix.diagonal fun _ : Fin H.p => G.g00 k) * H.sys.data k) i j = _
  rw [Matrix.diagonal_mul]

/-- incompatible inner dimensions raise (no promotion applies). -/
theorem mulCore_shape_raises (G H : DFRD K n) (hG : G.isSiso = false) (hH : H.isSiso = false)
    (hne : G.m ≠ H.p) : G.mulCore H = .error .shape := by
  unfold DFRD.mulCore
  simp only [hG, hH, Bool.false_and, Bool.not_false, Bool.and_false, if_false, Bool.false_eq_true]
  unfold DFRD.mulAligned
  rw [dif_neg hne]

end promote

/-! ### non-vacuity -/

/-- a 2×2 non-commuting instance on a two-point grid: `G * H ≠ H * G` at index 0, and the
product theorem pins down which one the operator returns. -/
example :
    let G : FRD 2 (Fin 2) (Fin 2) ℚ := ⟨fun k => k.val + 1, fun _ => !![1, 2; 0, 1]⟩
    let H : FRD 2 (Fin 2) (Fin 2) ℚ := ⟨fun k => k.val + 1, fun _ => !![1, 0; 3, 1]⟩
    (G.mul H).data 0 = !![7, 2; 3, 1] ∧ (H.mul G).data 0 = !![1, 2; 3, 7] := by
  constructor <;> (ext i j; fin_cases i <;> fin_cases j <;> simp [FRD.mul, Matrix.mul_apply, Fin.sum_univ_two] <;> norm_num)

/-- `feedback_pointwise` is not vacuous: a 1×1 loop with `g = 2`, `h = 3`, `sign = 1` has
`1 - 6 = -5 ≠ 0`. -/
example : ∀ k : Fin 1, ((1 : Matrix (Fin 1) (Fin 1) ℚ) - (1 : ℚ) •
    ((FRD.const (fun _ => 1) (Matrix.of fun _ _ => 3) : FRD 1 (Fin 1) (Fin 1) ℚ).data k *
     (FRD.const (fun _ => 1) (Matrix.of fun _ _ => 2) : FRD 1 (Fin 1) (Fin 1) ℚ).data k)).det ≠ 0 := by
  intro k
  simp [FRD.const, Matrix.det_fin_one, Matrix.mul_apply]
  norm_num

/-- the tree theorems are not vacuous: a tree that evaluates, and one whose loop is singular. -/
example :
    let g : FRD 1 (Fin 1) (Fin 1) ℚ := FRD.const (fun _ => 1) 1
    (∃ R, (FExpr.mul (.leaf g) (.add (.leaf g) (.neg (.leaf g)))).evalModel = .ok R) ∧
    (∃ err, (FExpr.fb (.leaf g) (.leaf g) (1 : ℚ)).evalModel = .error err) := by
  intro g
  refine ⟨⟨_, rfl⟩, ⟨.illPosed, ?_⟩⟩
  show g.feedback g 1 = _
  exact feedback_singular_raises g g 1 ⟨0, by simp [g, FRD.const]⟩

/-- `eval_stored` is not vacuous: an injective grid and a request in reverse order with a repeat. -/
example :
    let G : FRD 3 (Fin 1) (Fin 1) ℚ := ⟨fun k => k.val + 1, fun k => Matrix.of fun _ _ => 10 * k.val⟩
    G.eval [3, 1, 1] = .ok [G.data 2, G.data 0, G.data 0] := by
  intro G
  have hinj : Function.Injective G.omega := by
    intro a b hab
    have : (a.val : ℚ) + 1 = b.val + 1 := hab
    exact Fin.ext (by exact_mod_cast add_right_cancel this)
  have hreq : ([3, 1, 1] : List ℚ) = ([2, 0, 0] : List (Fin 3)).map G.omega := by
    simp [G]; norm_num
  rw [hreq, eval_stored G hinj]
  rfl

/-- `eval_missing_raises` is not vacuous. -/
example :
    let G : FRD 2 (Fin 1) (Fin 1) ℚ := ⟨fun k => k.val + 1, fun _ => 1⟩
    G.eval [1, 5] = .error .missing := by
  intro G
  apply eval_missing_raises G [1, 5] 5 (by simp)
  intro k
  fin_cases k <;> simp [G] <;> norm_num

end CtrlVerif.C09
