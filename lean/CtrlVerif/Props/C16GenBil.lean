/-
Source-text tie of C16, part 3: the inverse bilinear transformation of `system_norm`
(control/sysnorm.py), i.e. the body of the `if G.isdtime():` that precedes the nested function:
the `z = 0` test, `In`, `Adinv = la.inv(Ad + In)` and the four formulas.  `Generated/NormBil.lean` is
rewritten from the source text on every run (harness/core/py2lean_norm.py).  The theorem below proves
that on a system of any size the block raises `ControlArgument` exactly when `la.eigvals(Ad)` has an
entry at the origin, `LinAlgError` exactly when `Ad + I` is singular, and otherwise re-binds
`(A, B, C, D)` to the model's `invBilinear G (Ad + I)⁻¹`:
`A = 2 (Ad − I)(Ad + I)⁻¹`, `B = 2 (Ad + I)⁻¹ Bd`, `C = 2 Cd (Ad + I)⁻¹`, `D = Dd − Cd (Ad + I)⁻¹ Bd`
(the code computes `(2 (Ad − I)) (Ad + I)⁻¹`, `(2 (Ad + I)⁻¹) Bd`, `(2 Cd) (Ad + I)⁻¹`: Python's `*` and
`@` have the same precedence).  Consequence: `C16.inv_bilinear_resp` for the matrices the source-text
block returns.
-/
import CtrlVerif.Generated.NormBil
import CtrlVerif.Props.C16GenHam

namespace CtrlVerif.C16Gen

open Matrix CtrlVerif CtrlVerif.Norm

variable {K : Type} [Field K] [LinearOrder K]

/-- the four matrices of a typed system as the untyped arrays the code handles. -/
def quad {n m p : Nat} (G : SS (Fin n) (Fin m) (Fin p) K) : PMat K × PMat K × PMat K × PMat K :=
  (⟨n, n, G.A⟩, ⟨n, m, G.B⟩, ⟨p, n, G.C⟩, ⟨p, m, G.D⟩)

/-- **the inverse bilinear block**: the function the source text defines is the model's `atOrigin`
test on `la.eigvals(Ad)`, `la.inv(Ad + I)` and `invBilinear`, for every size and every entry. -/
theorem generated_bilinear_eq (eigvals : PMat K → List (Pole K)) {n m p : Nat}
    (G : SS (Fin n) (Fin m) (Fin p) K) :
    Generated.normLinfBilinear eigvals ⟨n, n, G.A⟩ ⟨n, m, G.B⟩ ⟨p, n, G.C⟩ ⟨p, m, G.D⟩
      = if atOrigin (eigvals ⟨n, n, G.A⟩) = true then .error .badArg
        else if (G.A + 1).det = 0 then .error .illPosed
        else .ok (quad (invBilinear G (PMat.inverse (G.A + 1)))) := by
  unfold Generated.normLinfBilinear
  simp only [PyNorm.any_iscloseC_zero, bind, pure, Except.pure]
  by_cases h0 : atOrigin (eigvals ⟨n, n, G.A⟩) = true
  · simp only [h0, ↓reduceIte]
    rfl
  · simp only [h0, Bool.false_eq_true, ↓reduceIte, PMat.eye_def, PMat.add_mk, Except.bind, PMat.inv_mk]
    by_cases hd : (G.A + 1).det = 0
    · simp only [hd, ↓reduceIte]
    · simp only [hd, ↓reduceIte, PMat.sub_mk, PMat.smul_mk, PMat.matmul_mk]
      simp only [quad, invBilinear, Matrix.smul_mul]

/-- **`inv_bilinear_resp` for the generated block**: whatever matrices `(A, B, C, D)` the source-text
block returns for a discrete-time system `Gd`, the continuous-time system they form responds at `s`
with what `Gd` responds with at `z = (2 + s)/(2 − s)`. -/
theorem generated_inv_bilinear_resp (eigvals : PMat K → List (Pole K)) {n m p : Nat}
    (Gd Gc : SS (Fin n) (Fin m) (Fin p) K)
    (hret : Generated.normLinfBilinear eigvals ⟨n, n, Gd.A⟩ ⟨n, m, Gd.B⟩ ⟨p, n, Gd.C⟩ ⟨p, m, Gd.D⟩
      = .ok (quad Gc))
    (h2 : (2 : K) ≠ 0) (s : K) (hs : s ≠ 2) {Y : Matrix (Fin p) (Fin m) K}
    (h : Gd.Resp ((2 + s) / (2 - s)) Y) : Gc.Resp s Y := by
  rw [generated_bilinear_eq] at hret
  by_cases h0 : atOrigin (eigvals ⟨n, n, Gd.A⟩) = true
  · rw [if_pos h0] at hret
    cases hret
  rw [if_neg h0] at hret
  by_cases hd : (Gd.A + 1).det = 0
  · rw [if_pos hd] at hret
    cases hret
  · rw [if_neg hd] at hret
    simp only [Except.ok.injEq, quad, Prod.mk.injEq, PMat.mk.injEq, heq_eq_eq, true_and] at hret
    obtain ⟨hA, hB, hC, hD⟩ := hret
    have : Gc = invBilinear Gd (PMat.inverse (Gd.A + 1)) := by
      cases Gc
      simp only [invBilinear, SS.mk.injEq]
      exact ⟨hA.symm, hB.symm, hC.symm, hD.symm⟩
    rw [this]
    exact C16.inv_bilinear_resp Gd _ (mul_inverse _ hd) h2 s hs h

/-- non-vacuity: `1/(z − 1/2)` (`Ad + I = 3/2`): `A = −2/3`, `B = C = 4/3`, `D = −2/3`. -/
example : Generated.normLinfBilinear (fun _ => [⟨1/2, 0⟩]) ⟨1, 1, !![(1/2 : ℚ)]⟩ ⟨1, 1, !![1]⟩ ⟨1, 1, !![1]⟩
    ⟨1, 1, !![0]⟩ = .ok (quad ⟨!![-2/3], !![4/3], !![4/3], !![-2/3]⟩) := by
  rw [generated_bilinear_eq _ ⟨!![1/2], !![1], !![1], !![0]⟩]
  have hi : PMat.inverse ((!![1/2] : Matrix (Fin 1) (Fin 1) ℚ) + 1) = !![2/3] := by
    ext i j; fin_cases i; fin_cases j
    norm_num [PMat.inverse, Matrix.det_fin_one, Matrix.adjugate_fin_one]
  have hdet : ((!![1/2] : Matrix (Fin 1) (Fin 1) ℚ) + 1).det ≠ 0 := by
    norm_num [Matrix.det_fin_one]
  simp only [atOrigin, List.any_cons, List.any_nil, hdet, hi]
  norm_num
  simp only [quad, invBilinear, Prod.mk.injEq, PMat.mk.injEq, heq_eq_eq, true_and]
  refine ⟨?_, ?_, ?_, ?_⟩ <;> ext i j <;> fin_cases i <;> fin_cases j <;>
    norm_num [Matrix.mul_apply, Matrix.vecMul, dotProduct, Matrix.vecHead]

-- a pole at `z = 0` raises `ControlArgument`, a pole at `z = −1` makes `Ad + I` singular (`LinAlgError`)
example : Generated.normLinfBilinear (fun _ => [⟨0, 0⟩]) ⟨1, 1, !![(0 : ℚ)]⟩ ⟨1, 1, !![1]⟩ ⟨1, 1, !![1]⟩
    ⟨1, 1, !![0]⟩ = .error .badArg := by
  rw [generated_bilinear_eq _ ⟨!![0], !![1], !![1], !![0]⟩]
  simp [atOrigin]

example : Generated.normLinfBilinear (fun _ => [⟨-1, 0⟩]) ⟨1, 1, !![(-1 : ℚ)]⟩ ⟨1, 1, !![1]⟩ ⟨1, 1, !![1]⟩
    ⟨1, 1, !![0]⟩ = .error .illPosed := by
  rw [generated_bilinear_eq _ ⟨!![-1], !![1], !![1], !![0]⟩]
  have hdet : ((!![-1] : Matrix (Fin 1) (Fin 1) ℚ) + 1).det = 0 := by
    norm_num [Matrix.det_fin_one]
  simp [atOrigin, hdet]

end CtrlVerif.C16Gen
