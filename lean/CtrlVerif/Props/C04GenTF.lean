/-
Source-text tie of C04 (DESIGN §10.3, notes/NOTES-py2lean-eval.md), part 1:
`TransferFunction.horner`.

`Generated/EvalTF.lean` is rewritten on every run from the text of `horner` in control/xferfcn.py of
the tree under check by `harness/core/py2lean_eval.py` (the argument made a 1-D complex array, the
1-D check, `empty`, two nested counted loops `out[i][j] = polyval(num[i, j], x) / polyval(den[i, j], x)`
with IEEE division).  The model of C04 is proved EQUAL to it: for every system (all shapes, also
empty ones; all coefficient lists, real or complex), every argument (scalar or 1-D array of any
length), any field with any component structure `P`, the returned array holds, entry by entry and
point by point, the model's `tfHornerCx` (component patterns) and hence `tfHorner` (outcome classes).
The headline theorems `C04.tf_call_sem`, the pole conventions and `tf_finite_iff` are transported to
the generated function.
-/
import CtrlVerif.Generated.EvalTF
import CtrlVerif.Lemmas.PyEval
import CtrlVerif.Props.C04

set_option linter.unusedSimpArgs false
set_option linter.unusedSectionVars false

namespace CtrlVerif.C04Gen
open CtrlVerif CtrlVerif.Eval CtrlVerif.PyEval Polynomial

variable {K : Type} [Field K] [DecidableEq K]

/-- the array of the values of the model's `tfHornerCx` at the points `xs`. -/
def tfTarget (P : Parts K) (G : DTF K) (xs : List K) : Arr3 K :=
  NArr.ofFn G.p G.m xs.length fun i j k => tfHornerCx P G.sys.e (xs.get k) i j

/-- **`TransferFunction.horner` as the source text computes it is the model**: the array of the
values `tfHornerCx` at the points of `x`, for all systems, arguments and `warn_infinite`. -/
theorem generated_tfHorner_eq (P : Parts K) (G : DTF K) (x : XArg K) (w : Bool) :
    Generated.tfHorner P G x w = .ok (tfTarget P G (atleast1dComplex x)) := by
  unfold Generated.tfHorner
  generalize atleast1dComplex x = xs
  have hnd : ¬ (ndim xs > 1) := by simp [ndim]
  simp only [hnd, if_false]
  unfold tfTarget
  set f : Fin G.p → Fin G.m → Fin xs.length → Cx K :=
    fun i j k => tfHornerCx P G.sys.e (xs.get k) i j with hf
  rw [PyTF.foldlM_range_eq G.p _ (fun i => fillTo (NArr.ofFn G.p G.m xs.length f) i 0) _
    (fillTo_zero f).symm]
  · rw [fillTo_all]
  · intro i hi
    rw [PyTF.foldlM_range_eq G.m _ (fun j => fillTo (NArr.ofFn G.p G.m xs.length f) i j) _ rfl]
    · rw [fillTo_row_end]
    · intro j hj
      rw [PyTF.numArray_getItem G hi hj, PyArith.ok_bind, PyTF.denArray_getItem G hi hj,
        PyArith.ok_bind, cdivArr_polyval, PyArith.ok_bind]
      rw [fillTo_setRow f hi hj _ (by simp)]
      · intro k hk
        simp [hf, tfHornerCx, List.getElem?_eq_getElem hk]

/-- the entry `(i, j)` at the `k`-th point of what the generated function returns. -/
theorem generated_tfHorner_entry (P : Parts K) (G : DTF K) (x : XArg K) (w : Bool)
    (i : Fin G.p) (j : Fin G.m) (k : Fin (atleast1dComplex x).length) :
    ∃ R, Generated.tfHorner P G x w = .ok R ∧
      R.get i j k = some (tfHornerCx P G.sys.e ((atleast1dComplex x).get k) i j) :=
  ⟨_, generated_tfHorner_eq P G x w, ofFn_get _ i.isLt j.isLt k.isLt⟩

/-- … and its outcome class is the model's `tfHorner` (`sys(x)` of `Eval.call`). -/
theorem generated_tfHorner_cls (P : Parts K) (G : DTF K) (x : XArg K) (w : Bool)
    (i : Fin G.p) (j : Fin G.m) (k : Fin (atleast1dComplex x).length) :
    ∃ R, Generated.tfHorner P G x w = .ok R ∧
      (R.get i j k).map Cx.cls = some (tfHorner G.sys.e ((atleast1dComplex x).get k) i j) := by
  obtain ⟨R, h1, h2⟩ := generated_tfHorner_entry P G x w i j k
  refine ⟨R, h1, ?_⟩
  rw [h2]
  simp only [Option.map_some, tfHornerCx, tfHorner, Matrix.of_apply]
  rw [C04.ieeeDivCx_cls]

/-- the list of points is the list `Eval.call` maps over: a scalar is one point. -/
theorem atleast1d_scalar (z : K) : atleast1dComplex (.scalar z) = [z] := rfl
theorem atleast1d_arr (xs : List K) : atleast1dComplex (.arr xs) = xs := rfl

/-- **`C04.tf_call_sem` holds of the function the source text defines**: off the roots of the
denominator of an entry the returned value is finite and is `num(x) / den(x)`, the quotient of the
polynomials the coefficient arrays denote. -/
theorem generated_tf_call_sem (P : Parts K) (G : DTF K) (x : XArg K) (w : Bool)
    (i : Fin G.p) (j : Fin G.m) (k : Fin (atleast1dComplex x).length)
    (h : (toPoly (G.sys.e i j).den).eval ((atleast1dComplex x).get k) ≠ 0) :
    ∃ R, Generated.tfHorner P G x w = .ok R ∧
      R.get i j k = some (.fin ((toPoly (G.sys.e i j).num).eval ((atleast1dComplex x).get k)
        / (toPoly (G.sys.e i j).den).eval ((atleast1dComplex x).get k))) := by
  obtain ⟨R, h1, h2⟩ := generated_tfHorner_entry P G x w i j k
  refine ⟨R, h1, ?_⟩
  rw [h2]
  simp only [tfHornerCx, Matrix.of_apply, ieeeDivCx, polyval_eq_eval]
  rw [if_neg h]

/-- **pole convention** (`C04.tf_pole_inf`) of the generated function: `den(x) = 0`, `num(x) ≠ 0`
gives an infinite value … -/
theorem generated_tf_pole_inf (P : Parts K) (G : DTF K) (x : XArg K) (w : Bool)
    (i : Fin G.p) (j : Fin G.m) (k : Fin (atleast1dComplex x).length)
    (hd : (toPoly (G.sys.e i j).den).eval ((atleast1dComplex x).get k) = 0)
    (hn : (toPoly (G.sys.e i j).num).eval ((atleast1dComplex x).get k) ≠ 0) :
    ∃ R, Generated.tfHorner P G x w = .ok R ∧ (R.get i j k).map Cx.cls = some .inf := by
  obtain ⟨R, h1, h2⟩ := generated_tfHorner_cls P G x w i j k
  exact ⟨R, h1, by rw [h2, C04.tf_pole_inf _ _ _ _ hd hn]⟩

/-- … and `den(x) = 0 = num(x)` gives `nan` (`C04.tf_pole_nan`). -/
theorem generated_tf_pole_nan (P : Parts K) (G : DTF K) (x : XArg K) (w : Bool)
    (i : Fin G.p) (j : Fin G.m) (k : Fin (atleast1dComplex x).length)
    (hd : (toPoly (G.sys.e i j).den).eval ((atleast1dComplex x).get k) = 0)
    (hn : (toPoly (G.sys.e i j).num).eval ((atleast1dComplex x).get k) = 0) :
    ∃ R, Generated.tfHorner P G x w = .ok R ∧ (R.get i j k).map Cx.cls = some .nan := by
  obtain ⟨R, h1, h2⟩ := generated_tfHorner_cls P G x w i j k
  exact ⟨R, h1, by rw [h2, C04.tf_pole_nan _ _ _ _ hd hn]⟩

/-- the generated function returns a finite value exactly off the roots of the denominator
(`C04.tf_finite_iff`). -/
theorem generated_tf_finite_iff (P : Parts K) (G : DTF K) (x : XArg K) (w : Bool)
    (i : Fin G.p) (j : Fin G.m) (k : Fin (atleast1dComplex x).length) :
    ∃ R, Generated.tfHorner P G x w = .ok R ∧
      ((∃ z, R.get i j k = some (.fin z)) ↔
        ¬ (toPoly (G.sys.e i j).den).IsRoot ((atleast1dComplex x).get k)) := by
  obtain ⟨R, h1, h2⟩ := generated_tfHorner_entry P G x w i j k
  refine ⟨R, h1, ?_⟩
  rw [← C04.tf_finite_iff G.sys.e _ i j, h2]
  generalize (atleast1dComplex x).get k = xk
  simp only [Option.some.injEq, tfHornerCx, tfHorner, Matrix.of_apply, ieeeDivCx, ieeeDiv]
  by_cases hd : polyval (G.sys.e i j).den xk = 0
  · simp only [hd, if_true]
    constructor
    · rintro ⟨z, hz⟩; cases hz
    · rintro ⟨z, hz⟩; split at hz <;> cases hz
  · simp [hd]

/-- `TransferFunction.horner` never raises (1-D arguments). -/
theorem generated_tfHorner_ok (P : Parts K) (G : DTF K) (x : XArg K) (w : Bool) :
    ∃ R, Generated.tfHorner P G x w = .ok R ∧ R.p = G.p ∧ R.m = G.m ∧
      R.n = (atleast1dComplex x).length :=
  ⟨_, generated_tfHorner_eq P G x w, rfl, rfl, rfl⟩

/-- non-vacuity: `(s + 1) / s^2` and `s / s^2` at the points `[0, 2]` over `ℚ` (all numbers real):
`inf`, `3/4`; `nan`, `1/2`. -/
example :
    let P : Parts ℚ := ⟨id, fun _ => true, fun z => decide (z = 0), fun _ _ => rfl,
      fun z => by simp⟩
    let G : DTF ℚ := ⟨1, 2, ⟨fun _ j => if j = 0 then ⟨[1, 1], [1, 0, 0]⟩ else ⟨[1, 0], [1, 0, 0]⟩⟩, .cont⟩
    ∃ R, Generated.tfHorner P G (.arr [0, 2]) true = .ok R ∧
      R.get 0 0 0 = some (.div0 true false) ∧ R.get 0 0 1 = some (.fin (3 / 4)) ∧
      R.get 0 1 0 = some (.div0 false false) ∧ R.get 0 1 1 = some (.fin (1 / 2)) := by
  intro P G
  refine ⟨_, generated_tfHorner_eq P G _ true, ?_, ?_, ?_, ?_⟩ <;> decide +kernel

end CtrlVerif.C04Gen
