/-
The primitive `PySfb.ssmatrix` — what the C11 ties of `ctrb`, `obsv`, `place_acker`, `lqr`, … use
for `_ssmatrix(X, square=…, rows=…, cols=…)` on a 2-D array — follows the function regenerated
from the source text of `_ssmatrix`: same acceptance, same resulting shape.
-/
import CtrlVerif.Props.C11GenSsMat
import CtrlVerif.Model.PySfb

namespace CtrlVerif.C11GenSsMat

open PyCCA PySS Generated.SsMat

variable {α K : Type} [Field K]

/-- the shape a call returns, `none` when it raises. -/
def shapeOf (r : Except Err (Arr α)) : Option (List Nat) :=
  match r with
  | .ok a => some a.shape
  | .error _ => none

def pshapeOf (r : Except Err (PMat K)) : Option (List Nat) :=
  match r with
  | .ok Y => some [Y.r, Y.c]
  | .error _ => none

/-- **`PySfb.ssmatrix` is the generated `_ssmatrix` at the level of shapes**: for a 2-D array of
the shape of `X` (any elements, any `axis`), both raise or both return the same shape. -/
theorem pysfb_ssmatrix_generated (X : PMat K) (data : List α) (k : Kind) (axis : Int) (sq : Bool)
    (rows cols : Option Nat) :
    shapeOf (ssmatrix ⟨[X.r, X.c], data, k⟩ axis (some sq) rows cols)
      = pshapeOf (PySfb.ssmatrix X sq rows cols) := by
  rw [generated_ssmatrix_eq]
  unfold ssmatrixSpec ssShape PySfb.ssmatrix PySfb.emptyRule
  by_cases h10 : X.r = 1 ∧ X.c = 0
  · obtain ⟨h1, h0⟩ := h10
    rcases sq with _ | _ <;> rcases rows with _ | r0 <;> rcases cols with _ | c0 <;>
      simp [h1, h0, bind, Except.bind, reshape, arrayFloat, apply_ite shapeOf, apply_ite pshapeOf,
        shapeOf, pshapeOf, eq_comm] <;> (try (split_ifs <;> rfl))
  · rcases sq with _ | _ <;> rcases rows with _ | r0 <;> rcases cols with _ | c0 <;>
      simp [h10, bind, Except.bind, reshape, arrayFloat, apply_ite shapeOf, apply_ite pshapeOf,
        shapeOf, pshapeOf, eq_comm] <;> (try (split_ifs <;> rfl))

end CtrlVerif.C11GenSsMat
