/-
Source-text tie of C09, part 2: `FrequencyResponseData.__neg__` and `append`.
`Generated/FRDBasic.lean` is rewritten from control/frdata.py on every run
(harness/core/py2lean_frd.py); the theorems below prove the run-time model operators `DFRD.neg`,
`DFRD.append` (`Model/FRDDyn.lean`) EQUAL to the generated functions.  The C09 model does not carry
the timebase: the Python object is `PyFRD.of G dt`, and the equalities say that the generated method
returns the model's result with the timebase `common_timebase` gives (hypothesis `common … = .ok d`;
`generated_append_timebase_raises`: otherwise the method raises).
-/
import CtrlVerif.Generated.FRDBasic
import CtrlVerif.Props.C09GenConvert

set_option linter.unusedSimpArgs false

namespace CtrlVerif.C09Gen

open Matrix CtrlVerif

variable {K : Type} [Field K] [DecidableEq K]

/-- **`__neg__`**: `FRD(-self.frdata, self.omega, dt=self.dt)` is the model's `neg`; same timebase. -/
theorem generated_neg_eq {n : Nat} (G : DFRD K n) (dt : Dt) :
    Generated.frdNeg (PyFRD.of G dt) = .ok (PyFRD.of G.neg dt) := by
  obtain ⟨p, m, ⟨w, d⟩, sm⟩ := G
  simp only [Generated.frdNeg, PyFRD.of, PyFRD.frdata, PyFRD.omega, PArr3.neg_mk, PyFRD.ctor_mk_false]
  rfl

/-- the part of `append` after the conversion: zeros, two slice assignments, the constructor. -/
theorem generated_appendCore (E : Env K) {n : Nat} (G H : DFRD K n) (dt dt' d : Dt) (hd : common dt dt' = .ok d)
    (hG : 0 < G.p ∧ 0 < G.m) (hH : 0 < H.p ∧ 0 < H.m) (hwf : G.WF) :
    Generated.frdAppendCore E (PyFRD.of G dt) (PyFRD.of H dt') = .ok (PyFRD.of (G.appendCore H) d) := by
  obtain ⟨p, m, ⟨w, g⟩, sm⟩ := G
  obtain ⟨p', m', ⟨w', h⟩, sm'⟩ := H
  simp only [Generated.frdAppendCore, PyFRD.of, PyFRD.frdata, PyFRD.omega, PyFRD.noutputs, PyFRD.ninputs,
    PyFRD.smooth, hd, bind, Except.bind, PArr3.reshape_mk _ _ _ _ hG.1 hG.2, PArr3.reshape_mk _ _ _ _ hH.1 hH.2]
  have := PArr3.setBlock_diag p p' m m' n g h
  simp only [Except.bind] at this
  split at this
  · exact absurd this (by simp)
  · simp only [this, PyFRD.ctor_mk]
    have : ¬ (sm = true ∧ n < 2) := fun hc => by
      have := hwf hc.1
      omega
    simp only [this, if_false]
    rfl

/-- **`append`** for a system operand (an FRD object or a TransferFunction / StateSpace): the function
the source text defines is the model's `DFRD.append` — conversion on the grid of `self`, block
diagonal at every grid index, `smooth` of `self`, and the common timebase.  Hypotheses: the grid
condition of the conversion, no empty dimension (`np.reshape(…, (p, m, -1))` cannot infer `-1`), the
class invariant of `self`, compatible timebases. -/
theorem generated_append_eq (E : Env K) {n : Nat} (G : DFRD K n) (dt : Dt) (x : PyOpd K) (d : Dt)
    (hx : x.IsSys) (hg : GridOK G.sys.omega x) (hG : 0 < G.p ∧ 0 < G.m) (hxne : x.NonEmpty) (hwf : G.WF)
    (hd : common dt x.dt = .ok d) :
    Generated.frdAppend E (PyFRD.of G dt) x = (DFRD.append E G x.erase).map fun R => PyFRD.of R d := by
  have core : ∀ H : DFRD K n, (0 < H.p ∧ 0 < H.m) →
      Generated.frdAppendCore E (PyFRD.of G dt) (PyFRD.of H x.dt) = (pure (G.appendCore H) : Except Err _).map
        fun R => PyFRD.of R d := fun H hH => generated_appendCore E G H dt x.dt d hd hG hH hwf
  cases x with
  | scalar c => exact absurd hx (by simp [PyOpd.IsSys])
  | array p m D => exact absurd hx (by simp [PyOpd.IsSys])
  | frd F =>
    refine generated_convert_bind E G.sys.omega (.frd F) _ _ hg _ _ d fun H hH => core H ?_
    have := convert_shape E G.sys.omega (.frd F) _ _ H hH
    simp only [Prod.mk.injEq] at this
    rw [this.1, this.2]
    exact hxne
  | lti L =>
    refine generated_convert_bind E G.sys.omega (.lti L) _ _ hg _ _ d fun H hH => core H ?_
    have := convert_shape E G.sys.omega (.lti L) _ _ H hH
    simp only [Prod.mk.injEq] at this
    rw [this.1, this.2]
    exact hxne

/-- `append` with a number or an array raises (`other.ninputs`: `AttributeError`) — the model's
`DFRD.append` is only claimed for system operands. -/
theorem generated_append_const_raises (E : Env K) (self : PyFRD K) (x : PyOpd K) (hx : ¬ x.IsSys) :
    Generated.frdAppend E self x = .error .badArg := by
  cases x with
  | frd F => exact absurd trivial hx
  | lti L => exact absurd trivial hx
  | scalar c => rfl
  | array p m D => rfl

/-- `append` raises when the timebases are incompatible. -/
theorem generated_append_timebase_raises (E : Env K) {n : Nat} (G : DFRD K n) (dt : Dt) (x : PyOpd K) (e : Err)
    (hd : common dt x.dt = .error e) : ∃ e', Generated.frdAppend E (PyFRD.of G dt) x = .error e' := by
  have core : ∀ H : PyFRD K, H.dt = x.dt → Generated.frdAppendCore E (PyFRD.of G dt) H = .error e := by
    intro H hH
    simp [Generated.frdAppendCore, PyFRD.of, hH, hd, bind, Except.bind]
  have conv := generated_convert_dt E
  cases x with
  | scalar c => exact ⟨_, rfl⟩
  | array p m D => exact ⟨_, rfl⟩
  | frd F =>
    simp only [Generated.frdAppend, bind, Except.bind]
    split
    · exact ⟨_, rfl⟩
    · rename_i H hH
      exact ⟨_, core H (conv _ _ _ _ H hH)⟩
  | lti L =>
    simp only [Generated.frdAppend, bind, Except.bind]
    split
    · exact ⟨_, rfl⟩
    · rename_i H hH
      exact ⟨_, core H (conv _ _ _ _ H hH)⟩

end CtrlVerif.C09Gen
