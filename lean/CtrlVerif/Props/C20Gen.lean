/-
Source-text tie for the basis functions of C20 (DESIGN §2.5, notes/NOTES-py2lean-arith.md):
`Generated/PolyEvalDeriv.lean` and `Generated/BezierEvalDeriv.lean` are rewritten on every run from
the text of `PolyFamily.eval_deriv` (control/flatsys/poly.py) and `BezierFamily.eval_deriv`
(control/flatsys/bezier.py) of the tree under check by `harness/core/py2lean_arith.py`
(`scipy.special.binom`, `scipy.special.factorial`, `np.power`, `**`, `/` are the primitives of
`Model/PyArith.lean`); the hand-written model `Basis.evalDeriv?` (the one `basis_deriv`,
`basis_deriv_real`, `feasible` … of `Props/C20.lean` are about) is proved EQUAL to them for every
non-zero horizon `T` of every linearly ordered field and all natural `N`, `i`, `k`.
-/
import CtrlVerif.Generated.PolyEvalDeriv
import CtrlVerif.Generated.BezierEvalDeriv
import CtrlVerif.Lemmas.PyArith
import CtrlVerif.Props.C20

namespace CtrlVerif.C20Gen
open CtrlVerif

section
variable {K : Type} [Field K] [LinearOrder K] [IsStrictOrderedRing K]

/-- `PolyFamily.eval_deriv` as written in the source is the model's `evalDeriv?` on the polynomial
family, for every horizon `T ≠ 0`, all indices `i`, derivative orders `k`, times `t`. -/
theorem generated_poly_eq (N : Nat) (T : K) (hT : T ≠ 0) (i k : Nat) (t : K) :
    Generated.polyEvalDeriv T (i : Int) (k : Int) t = (Basis.poly N T).evalDeriv? i k t := by
  unfold Generated.polyEvalDeriv Basis.evalDeriv? Basis.polyDeriv
  by_cases h : i < k
  · have h' : (i : Int) < (k : Int) := by exact_mod_cast h
    simp only [h, h', if_true]
    rfl
  · have h' : ¬ (i : Int) < (k : Int) := by exact_mod_cast h
    have e : (i : Int) - (k : Int) = ((i - k : Nat) : Int) := by omega
    have f0 : ((i - k).factorial : K) ≠ 0 := Nat.cast_ne_zero.2 (Nat.factorial_ne_zero _)
    simp only [h, h', if_false, e, PyArith.factorial_nat]
    rw [PyArith.div_ok _ f0, PyArith.ok_bind, PyArith.div_ok _ hT, PyArith.ok_bind, PyArith.pow_nat,
      PyArith.ok_bind, PyArith.pow_nat, PyArith.ok_bind, PyArith.div_ok _ (pow_ne_zero k hT)]

omit [LinearOrder K] [IsStrictOrderedRing K] in
theorem sum_Ico_eq (a b : Nat) (f : Nat → K) :
    ∑ j ∈ Finset.Ico a b, f j = ((List.range' a (b - a)).map f).sum := by
  rw [Finset.sum_eq_multiset_sum]
  rfl

/-- `BezierFamily.eval_deriv` as written in the source (including the raising branch `i >= N`, the
zero branch `k >= N`, the `k == 0` shortcut and the list-comprehension sum) is the model's
`evalDeriv?` on the Bezier family, for every `N`, `T ≠ 0`, `i`, `k`, `t`. -/
theorem generated_bezier_eq (N : Nat) (T : K) (hT : T ≠ 0) (i k : Nat) (t : K) :
    Generated.bezierEvalDeriv (N : Int) T (i : Int) (k : Int) t = (Basis.bezier N T).evalDeriv? i k t := by
  unfold Generated.bezierEvalDeriv Basis.evalDeriv? Basis.bezierDeriv
  by_cases h1 : N ≤ i
  · have h1' : (N : Int) ≤ (i : Int) := by exact_mod_cast h1
    simp only [h1, h1', if_true]
  · have h1' : ¬ (N : Int) ≤ (i : Int) := by exact_mod_cast h1
    simp only [h1, h1', if_false]
    by_cases h2 : N ≤ k
    · have h2' : (N : Int) ≤ (k : Int) := by exact_mod_cast h2
      simp only [h2, h2', if_true]
      rfl
    · have h2' : ¬ (N : Int) ≤ (k : Int) := by exact_mod_cast h2
      have en : (N : Int) - 1 = ((N - 1 : Nat) : Int) := by omega
      simp only [h2, h2', if_false, en]
      rw [PyArith.div_ok _ hT, PyArith.ok_bind]
      by_cases h3 : k = 0
      · subst h3
        have e1 : ((N - 1 : Nat) : Int) - (i : Int) = ((N - 1 - i : Nat) : Int) := by omega
        simp only [Nat.cast_zero, if_true, e1]
        rw [PyArith.binom_nat, PyArith.ok_bind, PyArith.pow_nat, PyArith.ok_bind, PyArith.pow_nat,
          PyArith.ok_bind]
        rfl
      · have h3' : ¬ ((k : Int) = 0) := by exact_mod_cast h3
        simp only [h3, h3', if_false]
        have e1 : max (i : Int) (k : Int) = ((max i k : Nat) : Int) := by push_cast; rfl
        have e2 : ((N - 1 : Nat) : Int) + 1 = ((N - 1 + 1 : Nat) : Int) := by push_cast; rfl
        rw [PyArith.binom_nat, PyArith.ok_bind, e1, e2,
          PyArith.mapM_range_nat (max i k) (N - 1 + 1) _
            (fun j => (-1 : K) ^ (j - i) * ((N - 1 - i).choose (j - i) : K) * ((j.factorial : K) / ((j - k).factorial : K))
              * (t / T) ^ (j - k) / T ^ k), PyArith.ok_bind, sum_Ico_eq]
        · rfl
        · intro j hj1 hj2
          have a1 : (j : Int) - (i : Int) = ((j - i : Nat) : Int) := by omega
          have a2 : (j : Int) - (k : Int) = ((j - k : Nat) : Int) := by omega
          have a3 : ((N - 1 : Nat) : Int) - (i : Int) = ((N - 1 - i : Nat) : Int) := by omega
          have f0 : ((j - k).factorial : K) ≠ 0 := Nat.cast_ne_zero.2 (Nat.factorial_ne_zero _)
          rw [a1, a2, a3, PyArith.pow_nat, PyArith.ok_bind, PyArith.binom_nat, PyArith.ok_bind,
            PyArith.factorial_nat, PyArith.factorial_nat, PyArith.div_ok _ f0, PyArith.ok_bind,
            PyArith.pow_nat, PyArith.ok_bind, PyArith.pow_nat, PyArith.ok_bind,
            PyArith.div_ok _ (pow_ne_zero k hT)]
          congr 1
          ring

/-- with the horizon `T = 0` the source divides by zero (`t/self.T`) wherever it computes a value:
an error, not a number. -/
theorem generated_poly_T0 (i k : Nat) (h : k ≤ i) (t : K) :
    Generated.polyEvalDeriv (0 : K) (i : Int) (k : Int) t = .error .zeroDen := by
  unfold Generated.polyEvalDeriv
  have h' : ¬ (i : Int) < (k : Int) := by omega
  have e : (i : Int) - (k : Int) = ((i - k : Nat) : Int) := by omega
  have f0 : ((i - k).factorial : K) ≠ 0 := Nat.cast_ne_zero.2 (Nat.factorial_ne_zero _)
  simp only [h', if_false, e, PyArith.factorial_nat]
  rw [PyArith.div_ok _ f0, PyArith.ok_bind, PyArith.div_zero]
  rfl

theorem generated_bezier_T0 (N i k : Nat) (hi : i < N) (hk : k < N) (t : K) :
    Generated.bezierEvalDeriv (N : Int) (0 : K) (i : Int) (k : Int) t = .error .zeroDen := by
  unfold Generated.bezierEvalDeriv
  have h1 : ¬ (N : Int) ≤ (i : Int) := by omega
  have h2 : ¬ (N : Int) ≤ (k : Int) := by omega
  simp only [h1, h2, if_false]
  rw [PyArith.div_zero]
  rfl

/-- the generated code of the family `bs`. -/
def genEvalDeriv (bs : Basis K) (i k : Nat) (t : K) : Except Err K :=
  match bs with
  | .poly _ T => Generated.polyEvalDeriv T (i : Int) (k : Int) t
  | .bezier N T => Generated.bezierEvalDeriv (N : Int) T (i : Int) (k : Int) t

theorem generated_evalDeriv_eq (bs : Basis K) (hT : bs.T ≠ 0) (i k : Nat) (t : K) :
    genEvalDeriv bs i k t = bs.evalDeriv? i k t := by
  cases bs with
  | poly N T => exact generated_poly_eq N T hT i k t
  | bezier N T => exact generated_bezier_eq N T hT i k t

end

/-- **the derivative property holds of the functions the source text defines**: over the reals,
for `T ≠ 0` and a basis-function index in range, the generated `eval_deriv(j, k, ·)` returns a value
for every `k`, `t`, and the value for `k + 1` is the derivative of the value for `k`
(`C20.basis_deriv_real` transported along `generated_evalDeriv_eq`). -/
theorem generated_basis_deriv_real (bs : Basis ℝ) (hT : bs.T ≠ 0) (j : Fin bs.N) :
    ∃ v : Nat → ℝ → ℝ, (∀ k s, genEvalDeriv bs j.val k s = .ok (v k s)) ∧
      ∀ k t, HasDerivAt (v k) (v (k + 1) t) t :=
  ⟨fun k s => bs.evalD j k s,
    fun k s => by rw [generated_evalDeriv_eq bs hT, C20.evalDeriv_ok],
    fun k t => C20.basis_deriv_real bs hT j k t⟩

/-! non-vacuity: the generated functions compute. -/
example : Generated.polyEvalDeriv (2 : ℚ) 3 1 1 = .ok (3 / 8) := by decide +kernel
example : Generated.polyEvalDeriv (2 : ℚ) 1 3 1 = .ok 0 := by decide +kernel
example : Generated.bezierEvalDeriv 4 (2 : ℚ) 1 0 1 = .ok (3 / 8) := by decide +kernel
example : Generated.bezierEvalDeriv ((4 : ℕ) : Int) (2 : ℚ) ((1 : ℕ) : Int) ((2 : ℕ) : Int) 1 = .ok (-3 / 4) := by
  rw [generated_bezier_eq 4 2 (by norm_num)]
  norm_num [Basis.evalDeriv?, Basis.bezierDeriv, Finset.sum_Ico_eq_sum_range, Finset.sum_range_succ,
    Nat.choose, Nat.factorial]
example : Generated.bezierEvalDeriv 4 (2 : ℚ) 4 0 1 = .error .badArg := by decide +kernel
example : Generated.bezierEvalDeriv 4 (0 : ℚ) 1 1 1 = .error .zeroDen := by decide +kernel

end CtrlVerif.C20Gen
