/-
Source-text tie for the test polynomials of C12 (DESIGN §2.5, notes/NOTES-py2lean-arith.md):
`Generated/Poly{ZInvz,ZRealCrossing,ZMag1Crossing,IwRealCrossing,IwSqr,IwMag1Crossing,IwWstab}.lean`
are rewritten on every run from the text of the corresponding `_poly_*` functions of
control/margins.py of the tree under check by `harness/core/py2lean_arith.py`; each function is
translated up to its call of `np.roots` (the polynomial whose roots are taken is the result; the
filtering of the roots is tied by the C12 correspondence only).  `np.polymul / polysub / polyadd /
polyder` are the model's `npmul / npsub / polyadd / polyder`, complex arrays are pairs
(`Model/PyNumpy.lean`).  The hand-written test polynomials of `Model/Margins.lean` (the ones the
C12 theorems are about) are proved EQUAL to what the source text builds, for all coefficient lists
over every linearly ordered field.
-/
import CtrlVerif.Generated.PolyZInvz
import CtrlVerif.Generated.PolyZRealCrossing
import CtrlVerif.Generated.PolyZMag1Crossing
import CtrlVerif.Generated.PolyIwRealCrossing
import CtrlVerif.Generated.PolyIwSqr
import CtrlVerif.Generated.PolyIwMag1Crossing
import CtrlVerif.Generated.PolyIwWstab
import CtrlVerif.Lemmas.PyArith
import CtrlVerif.Lemmas.PyNumpy
import CtrlVerif.Props.C12

namespace CtrlVerif.C12Gen
open CtrlVerif CtrlVerif.Margins

section
variable {K : Type} [Field K] [LinearOrder K] [IsStrictOrderedRing K]

/-- `_poly_z_invz` as written: the properness check (`ValueError` for `len(num) > len(den)`), the
reversed coefficient arrays, `p_q = len(num) - len(den)`, `sys.dt` passed through. -/
theorem generated_zinvz_eq (num den : List K) (dt : K) :
    Generated.polyZInvz num den dt =
      (zProper num den).map (fun _ =>
        (num, den, num.reverse, den.reverse, (num.length : Int) - (den.length : Int), dt)) := by
  unfold Generated.polyZInvz zProper
  by_cases h : num.length > den.length
  · have h' : (0 : Int) < (num.length : Int) - (den.length : Int) := by omega
    simp only [h, h', if_true]
    rfl
  · have h' : ¬ (0 : Int) < (num.length : Int) - (den.length : Int) := by omega
    simp only [h, h', if_false]
    rfl

theorem shift_cast (n : Nat) :
    List.map (fun (c : Int) => (c : K)) (([1] : List Int) ++ List.replicate n 0) = shiftPoly n := by
  simp [shiftPoly]

/-- the polynomial whose roots `_poly_z_real_crossing` takes (and `p2`, whose length sets the
`|z| = 1` tolerance), on the arguments `_poly_z_invz` produces, is the model's
`zRealCrossingPoly` (`zRealP2`) — for all coefficient lists. -/
theorem generated_zreal_eq (num den : List K) :
    Generated.polyZRealCrossing num den num.reverse den.reverse ((num.length : Int) - (den.length : Int))
      = .ok (zRealCrossingPoly num den, zRealP2 num den) := by
  unfold Generated.polyZRealCrossing zRealCrossingPoly zRealP2
  by_cases h : num.length < den.length
  · have h' : (num.length : Int) - (den.length : Int) < 0 := by omega
    have e : (-((num.length : Int) - (den.length : Int))).toNat = den.length - num.length := by omega
    simp only [h, h', if_true, e, shift_cast]
    rfl
  · have h' : ¬ (num.length : Int) - (den.length : Int) < 0 := by omega
    simp only [h, h', if_false]
    rfl

/-- the same for `_poly_z_mag1_crossing`. -/
theorem generated_zmag1_eq (num den : List K) :
    Generated.polyZMag1Crossing num den num.reverse den.reverse ((num.length : Int) - (den.length : Int))
      = .ok (zMag1Poly num den, zMag1P2 den) := by
  unfold Generated.polyZMag1Crossing zMag1Poly zMag1P1 zMag1P2
  by_cases h : num.length < den.length
  · have h' : (num.length : Int) - (den.length : Int) < 0 := by omega
    have e : (-((num.length : Int) - (den.length : Int))).toNat = den.length - num.length := by omega
    simp only [h, h', if_true, e, shift_cast]
    rfl
  · have h' : ¬ (num.length : Int) - (den.length : Int) < 0 := by omega
    simp only [h, h', if_false]
    rfl

/-- the polynomial whose roots `_poly_iw_real_crossing` takes, on `_poly_iw(sys)`, is the model's
`realCrossingPoly`. -/
theorem generated_iwreal_eq (num den : List K) :
    Generated.polyIwRealCrossing (polyIw num) (polyIw den) = .ok (realCrossingPoly num den) := rfl


/-- the way `stability_margins` chains them (`zargs = _poly_z_invz(sys)`;
`_poly_z_real_crossing(*zargs, …)`, `_poly_z_mag1_crossing(*zargs, …)`): a non-proper system is
rejected, otherwise the two test polynomials of the model. -/
theorem generated_z_pipeline (num den : List K) (dt : K) :
    ((Generated.polyZInvz num den dt).bind fun r =>
        (Generated.polyZRealCrossing r.1 r.2.1 r.2.2.1 r.2.2.2.1 r.2.2.2.2.1).bind fun a =>
          (Generated.polyZMag1Crossing r.1 r.2.1 r.2.2.1 r.2.2.2.1 r.2.2.2.2.1).map fun b => (a, b))
      = (zProper num den).map fun _ =>
          ((zRealCrossingPoly num den, zRealP2 num den), (zMag1Poly num den, zMag1P2 den)) := by
  rw [generated_zinvz_eq]
  unfold zProper
  by_cases h : num.length > den.length
  · simp only [h, if_true]; rfl
  · simp only [h, if_false]
    show (Generated.polyZRealCrossing num den num.reverse den.reverse _).bind _ = _
    rw [generated_zreal_eq]
    show (Generated.polyZMag1Crossing num den num.reverse den.reverse _).map _ = _
    rw [generated_zmag1_eq]
    rfl

/-- `_poly_iw_sqr` as written (`np.real(np.polymul(p, p.conj()))`) is the model's `iwSqr`. -/
theorem generated_iwsqr_eq (p : List K × List K) : Generated.polyIwSqr p = .ok (iwSqr p) := by
  unfold Generated.polyIwSqr
  rw [PyNumpy.cpolymul_conj_re]
  rfl

/-- the polynomial whose roots `_poly_iw_mag1_crossing` takes is the model's `mag1Poly`. -/
theorem generated_iwmag1_eq (num den : List K) :
    Generated.polyIwMag1Crossing (polyIw num) (polyIw den) = .ok (mag1Poly num den) := by
  unfold Generated.polyIwMag1Crossing mag1Poly
  rw [generated_iwsqr_eq, PyArith.ok_bind, generated_iwsqr_eq, PyArith.ok_bind]
  rfl

/-- the polynomial whose roots `_poly_iw_wstab` takes (`n'·d - d'·n` with `n = |num + den|²`,
`d = |den|²`) is the model's `wstabPoly`. -/
theorem generated_iwwstab_eq (num den : List K) :
    Generated.polyIwWstab (polyIw num) (polyIw den) = .ok (wstabPoly num den) := by
  unfold Generated.polyIwWstab wstabPoly wstabN wstabD
  rw [generated_iwsqr_eq, PyArith.ok_bind, generated_iwsqr_eq, PyArith.ok_bind]
  rfl

/-- **what the polynomial built by the source text means** (`C12.real_crossing_poly`,
`C12.mag1_poly` transported along the equalities): its value at a real `ω` is `Im(N(jω)·conj D(jω))`,
resp. `|N(jω)|² − |D(jω)|²`. -/
theorem generated_iwreal_meaning (num den : List K) :
    ∃ p, Generated.polyIwRealCrossing (polyIw num) (polyIw den) = .ok p ∧
      ∀ w, polyval p w = (evalC num (jw w) * conj (evalC den (jw w))).im :=
  ⟨_, generated_iwreal_eq num den, C12.real_crossing_poly num den⟩

theorem generated_iwmag1_meaning (num den : List K) :
    ∃ p, Generated.polyIwMag1Crossing (polyIw num) (polyIw den) = .ok p ∧
      ∀ w, polyval p w = normSq (evalC num (jw w)) - normSq (evalC den (jw w)) :=
  ⟨_, generated_iwmag1_eq num den, C12.mag1_poly num den⟩

end

/-! non-vacuity: the generated functions compute (L = (x + 2)/(x² + 3x + 1)). -/
example : Generated.polyZInvz [(1 : ℚ), 2] [1, 3, 1] 1 = .ok ([1, 2], [1, 3, 1], [2, 1], [1, 3, 1], -1, 1) := by
  rw [generated_zinvz_eq]; rfl
example : Generated.polyZInvz [(1 : ℚ), 2, 3] [1, 3] 1 = .error .nonProper := by
  rw [generated_zinvz_eq]; rfl
example : Generated.polyZRealCrossing [(1 : ℚ), 2] [1, 3, 1] [2, 1] [1, 3, 1] (-1)
    = .ok ([-2, -6, 0, 6, 2], [2, 7, 5, 1, 0]) := by decide +kernel
example : Generated.polyZMag1Crossing [(1 : ℚ), 2] [1, 3, 1] [2, 1] [1, 3, 1] (-1)
    = .ok ([-1, -4, -6, -4, -1], [1, 6, 11, 6, 1]) := by decide +kernel
example : Generated.polyIwRealCrossing (polyIw [(1 : ℚ), 2]) (polyIw [1, 3, 1]) = .ok [-1, 0, -5, 0] := by
  decide +kernel
example : Generated.polyIwMag1Crossing (polyIw [(1 : ℚ), 2]) (polyIw [1, 3, 1]) = .ok [-1, 0, -6, 0, 3] := by
  decide +kernel
example : Generated.polyIwWstab (polyIw [(1 : ℚ)]) (polyIw [1, 2, 1]) = .ok [0, 0, 4, 0, -12, 0, -16, 0] := by
  decide +kernel

end CtrlVerif.C12Gen
