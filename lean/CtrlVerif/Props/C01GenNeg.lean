/-
Source-text tie of C01 (DESIGN §10.3, notes/NOTES-py2lean-tf.md), part 1: `TransferFunction.__neg__`.

`Generated/TFNeg.lean` is rewritten on every run from the text of `__neg__` in control/xferfcn.py of
the tree under check by `harness/core/py2lean_tf.py` (a deep copy of `num_array`, two nested counted
loops `num[i, j] *= -1`, the constructor).  The run-time operator of the model is proved EQUAL to
it for every system: all shapes (also empty ones), all coefficient lists, every timebase, any field.
-/
import CtrlVerif.Generated.TFNeg
import CtrlVerif.Lemmas.C01Gen
import CtrlVerif.Props.C01

namespace CtrlVerif.C01Gen
open CtrlVerif

variable {K : Type} [Field K] [DecidableEq K]

/-- `-G` as the source text computes it is the model's `DTF.neg`. -/
theorem generated_neg_eq (G : DTF K) : Generated.TF.neg G = DTF.neg G := by
  unfold Generated.TF.neg DTF.neg TFM.neg
  simp only [PyTF.noutputs, PyTF.ninputs]
  let f : Nat → Nat → List K := fun r c =>
    match PyTF.entry? G r c with
    | some e => pneg e.num
    | none => []
  rw [PyTF.foldlM_range_eq G.p _ (fun i => PyTF.fillTo (PyTF.numArray G) f i 0) _
    (PyTF.fillTo_zero _ _).symm]
  · rw [PyArith.ok_bind, PyTF.mkTF_of_get (PyTF.fillTo (PyTF.numArray G) f G.p 0) (PyTF.denArray G) G.dt
      (fun i j => (G.sys.e i j).neg) rfl rfl]
    · rfl
    · intro (i : Fin G.p) (j : Fin G.m)
      rw [PyTF.fillTo_get_done _ _ _ _ _ _ i.isLt i.isLt j.isLt]
      simp [f, PyTF.entry?_lt G i.isLt j.isLt, Frac.neg]
    · intro (i : Fin G.p) (j : Fin G.m)
      simp [PyTF.denArray, PyTF.entry?_lt G i.isLt j.isLt, Frac.neg]
  · intro i hi
    rw [PyTF.foldlM_range_eq G.m _ (fun j => PyTF.fillTo (PyTF.numArray G) f i j) _ rfl]
    · exact congrArg _ (PyTF.fillTo_row_end _ _ _)
    · intro j hj
      rw [PyTF.PolyArr.getItem_nat _ hi hj (v := (G.sys.e ⟨i, hi⟩ ⟨j, hj⟩).num)
        (by rw [PyTF.fillTo_get_here]; simp [PyTF.numArray, PyTF.entry?_lt G hi hj])]
      have hf : scale (-1 : K) (G.sys.e ⟨i, hi⟩ ⟨j, hj⟩).num = f i j := by
        simp [f, PyTF.entry?_lt G hi hj, PyTF.scale_neg_one]
      rw [PyArith.ok_bind, hf]
      exact PyTF.fillTo_setItem _ _ hi hj

/-- the headline theorem `C01.sem_neg` holds of the function the source text defines: negating a
well-formed system returns a well-formed system of the same shape and timebase that denotes
`-⟦G⟧`. -/
theorem generated_neg_sem (G : DTF K) (hG : G.sys.WF) :
    ∃ s, Generated.TF.neg G = .ok ⟨G.p, G.m, s, G.dt⟩ ∧ s.WF ∧ s.sem = - G.sys.sem := by
  obtain ⟨R, h1, h2, h3⟩ := C01.sem_neg G.sys hG
  refine ⟨R, ?_, h2, h3⟩
  rw [generated_neg_eq]
  simp [DTF.neg, h1, bind, Except.bind, pure, Except.pure]

/-- non-vacuity: a concrete well-formed system. -/
example : ∃ s, Generated.TF.neg (⟨1, 1, C01.exG1.1, .cont⟩ : DTF ℚ) = .ok ⟨1, 1, s, .cont⟩ ∧ s.WF :=
  let ⟨s, h1, h2, _⟩ := generated_neg_sem (⟨1, 1, C01.exG1.1, .cont⟩ : DTF ℚ) C01.exG1.2
  ⟨s, h1, h2⟩

end CtrlVerif.C01Gen
