/-
Source-text tie of C09, part 5: `FrequencyResponseData.__truediv__` and `__rtruediv__`.
`Generated/FRDDiv.lean` is rewritten from control/frdata.py on every run (harness/core/py2lean_frd.py);
the theorems below prove the run-time model operators `DFRD.truediv`, `DFRD.rtruediv`
(`Model/FRDDyn.lean`) EQUAL to the generated functions: scalar fast paths (`1/other` raises for zero),
"only a SISO divisor" (`NotImplemented`), NumPy's broadcast division `self.frdata / other.frdata`
by the `(1, 1, n)` response (a zero of the divisor on the grid is an error in exact arithmetic), the
`smooth` flag and the timebase.  For `__rtruediv__` the code tests "`self` is SISO" BEFORE converting
the operand, the model after: the equality is stated for a SISO `self`; for a MIMO `self` both raise
(`generated_rtruediv_mimo`; the code always with `NotImplemented`).
-/
import CtrlVerif.Generated.FRDDiv
import CtrlVerif.Props.C09GenMul

set_option linter.unusedSimpArgs false
set_option linter.unusedSectionVars false

namespace CtrlVerif.C09Gen

open Matrix CtrlVerif

variable {K : Type} [Field K] [DecidableEq K]

/-- the part of `__truediv__` after the conversion: only a SISO divisor, entry-wise division by its
response, a zero of the divisor on the grid raises. -/
theorem generated_truedivCore (E : Env K) {n : Nat} (G H : DFRD K n) (dt dt' d : Dt) (hd : common dt dt' = .ok d)
    (hH : 0 < H.p ∧ 0 < H.m) (hwf : G.WF) :
    Generated.frdTruedivCore E (PyFRD.of G dt) (PyFRD.of H dt')
      = (DFRD.truedivCore G H).map fun R => PyFRD.of R d := by
  obtain ⟨p, m, ⟨w, X⟩, sm⟩ := G
  obtain ⟨p', m', ⟨w', Y⟩, sm'⟩ := H
  simp only at hH
  simp only [Generated.frdTruedivCore, DFRD.truedivCore, PyFRD.of, PyFRD.ninputs, PyFRD.noutputs, PyFRD.frdata,
    PyFRD.omega, PyFRD.smooth, DFRD.isSiso]
  by_cases hs : p' = 1 ∧ m' = 1
  · obtain ⟨h1, h2⟩ := hs
    subst h1 h2
    simp only [gt_iff_lt, lt_irrefl, or_self, if_false, hd, bind, Except.bind, beq_self_eq_true, Bool.and_self,
      Bool.not_true, Bool.false_eq_true, PArr3.div, and_self, dite_true, FRD.divSiso, DFRD.g00, Fin.cast_eq_self,
      Nat.lt_one_iff, pos_of_gt, Fin.zero_eta]
    split_ifs with hz
    · rfl
    · simp only [pure, Except.pure, PyFRD.ctor_mk, Except.map]
      have : ¬ ((sm && sm') = true ∧ n < 2) := fun hc => by
        have := hwf (by simp only [Bool.and_eq_true] at hc; exact hc.1.1)
        omega
      simp only [this, if_false]
      congr 6
      funext k
      ext i j
      simp [div_eq_inv_mul]
  · have h1 : (m' > 1 ∨ p' > 1) := by omega
    have h2 : (p' == 1 && m' == 1) = false := by
      simp only [Bool.and_eq_false_iff, beq_eq_false_iff_ne]
      omega
    simp [h1, h2, throw, throwThe, MonadExceptOf.throw, Except.map]

/-- **`__truediv__`**: the function the source text defines is the model's `DFRD.truediv`: the scalar
fast path `self.frdata * (1/other)` (a zero scalar raises), otherwise conversion and entry-wise
division by a SISO response. -/
theorem generated_truediv_eq (E : Env K) {n : Nat} (G : DFRD K n) (dt : Dt) (x : PyOpd K) (d : Dt)
    (hg : GridOK G.sys.omega x) (hxne : x.NonEmpty) (hwf : G.WF) (hd : common dt x.dt = .ok d) :
    Generated.frdTruediv E (PyFRD.of G dt) x = (DFRD.truediv E G x.erase).map fun R => PyFRD.of R d := by
  have core : ∀ H : DFRD K n, DFRD.convert E G.sys.omega 1 1 x.erase = .ok H →
      Generated.frdTruedivCore E (PyFRD.of G dt) (PyFRD.of H x.dt)
        = (DFRD.truedivCore G H).map fun R => PyFRD.of R d :=
    fun H hH => generated_truedivCore E G H dt x.dt d hd
      (convert_pos E _ x 1 1 H hH hxne Nat.one_pos Nat.one_pos) hwf
  cases x with
  | scalar c =>
    obtain ⟨p, m, ⟨w, g⟩, sm⟩ := G
    have hd' : d = dt := by
      have := common_none_right dt
      simp only [PyOpd.dt] at hd
      rw [this] at hd
      injection hd with hd
      exact hd.symm
    subst hd'
    simp only [Generated.frdTruediv, PyFRD.of, PyFRD.frdata, PyFRD.omega, PyFRD.smooth, PArr3.mulNum_mk,
      PyFRD.ctor_mk, DFRD.truediv, PyOpd.erase, PyNum.div, bind, Except.bind]
    by_cases hc : c = 0
    · simp [hc, Except.map]
    · have : ¬ (sm = true ∧ n < 2) := fun hc => by
        have := hwf hc.1
        omega
      simp only [hc, this, if_false, Except.map, Int.cast_one, one_div]
      rfl
  | frd F => exact generated_convert_bind E G.sys.omega (.frd F) _ _ hg _ _ d core
  | array p' m' D => exact generated_convert_bind E G.sys.omega (.array p' m' D) _ _ hg _ _ d core
  | lti L => exact generated_convert_bind E G.sys.omega (.lti L) _ _ hg _ _ d core

/-- the grid of a converted operand matches the grid it was converted on. -/
theorem convert_gridMatch (E : Env K) {n : Nat} (omega : Fin n → ℚ) (x : PyOpd K) (p m : Nat) (H : DFRD K n)
    (h : DFRD.convert E omega p m x.erase = .ok H) : FRD.gridMatch H.sys.omega omega = true := by
  have self_match : FRD.gridMatch omega omega = true := by simp [FRD.gridMatch]
  cases x with
  | frd F =>
    obtain ⟨n', F, dt⟩ := F
    simp only [PyOpd.erase, DFRD.convert] at h
    split at h
    · rename_i hn
      subst hn
      split at h
      · rename_i hgm
        injection h with h; subst h
        simp [FRD.gridMatch] at hgm ⊢
        intro k
        rw [abs_sub_comm]
        exact hgm k
      · exact absurd h (by simp)
    · exact absurd h (by simp)
  | scalar c => simp only [PyOpd.erase, DFRD.convert] at h; injection h with h; subst h; exact self_match
  | array p' m' D => simp only [PyOpd.erase, DFRD.convert] at h; injection h with h; subst h; exact self_match
  | lti L =>
    simp only [PyOpd.erase, DFRD.convert, DFRD.ofLTI] at h
    split at h
    · exact absurd h (by simp)
    · injection h with h; subst h; exact self_match

/-- **`__rtruediv__`** (`other / self` for a non-FRD `other`) on a SISO `self`: the function the source
text defines is the model's `DFRD.rtruediv` — `other / self.frdata` for a number, otherwise the
converted operand's `__truediv__` with `self` as divisor; the timebase is
`common_timebase(other.dt, self.dt)`. -/
theorem generated_rtruediv_eq (E : Env K) {n : Nat} (G : DFRD K n) (dt : Dt) (x : PyOpd K) (d : Dt)
    (hs : G.isSiso = true)
    (hg : GridOK G.sys.omega x) (hxne : x.NonEmpty) (hwf : G.WF) (hxwf : x.WF) (hd : common x.dt dt = .ok d) :
    Generated.frdRtruediv E (PyFRD.of G dt) x = (DFRD.rtruediv E G x.erase).map fun R => PyFRD.of R d := by
  have hpm : G.p = 1 ∧ G.m = 1 := by simpa [DFRD.isSiso] using hs
  have hnot : ¬ (PyFRD.ninputs (PyFRD.of G dt) > 1 ∨ PyFRD.noutputs (PyFRD.of G dt) > 1) := by
    simp only [PyFRD.ninputs, PyFRD.noutputs, PyFRD.of]
    omega
  have core : ∀ H : DFRD K n, DFRD.convert E G.sys.omega 1 1 x.erase = .ok H →
      Generated.frdTruediv E (PyFRD.of H x.dt) (.frd (PyFRD.of G dt))
        = (if !G.isSiso then .error .notImplemented else DFRD.truedivCore H G).map fun R => PyFRD.of R d := by
    intro H hH
    have := generated_truediv_eq E H x.dt (.frd (PyFRD.of G dt)) d trivial
      (show 0 < G.p ∧ 0 < G.m by omega)
      (convert_wf E _ x 1 1 H hH hg hxwf) hd
    rw [this]
    simp only [DFRD.truediv, PyOpd.erase, PyFRD.of, DFRD.convert, dite_true, FRD.castN_rfl,
      convert_gridMatch E _ x 1 1 H hH, if_true, bind, Except.bind, hs, Bool.not_true, Bool.false_eq_true, if_false]
  cases x with
  | scalar c =>
    obtain ⟨p, m, ⟨w, g⟩, sm⟩ := G
    simp only at hpm
    obtain ⟨h1, h2⟩ := hpm
    subst h1 h2
    have hd' : d = dt := by
      simp only [PyOpd.dt, common] at hd
      injection hd with hd
      exact hd.symm
    subst hd'
    simp only [Generated.frdRtruediv, hnot, if_false, PyFRD.of, PyFRD.frdata, PyFRD.omega, PyFRD.smooth,
      DFRD.rtruediv, PyOpd.erase, hs, Bool.not_true, Bool.false_eq_true, PArr3.rdivNum, FRD.rdivScalar, DFRD.g00,
      bind, Except.bind, PyFRD.ninputs, PyFRD.noutputs, gt_iff_lt, lt_irrefl, or_self, if_false]
    have hz : (∃ k, ∃ ij : Fin 1 × Fin 1, g k ij.1 ij.2 = 0) ↔ ∃ k, g k 0 0 = 0 := by
      constructor
      · rintro ⟨k, ⟨i, j⟩, h⟩
        exact ⟨k, by rwa [Subsingleton.elim i 0, Subsingleton.elim j 0] at h⟩
      · rintro ⟨k, h⟩
        exact ⟨k, (0, 0), h⟩
    by_cases hzero : ∃ k, g k 0 0 = 0
    · simp [hz, hzero, Except.map]
    · have : ¬ (sm = true ∧ n < 2) := fun hc => by
        have := hwf hc.1
        omega
      have this' : ¬ (sm = true ∧ n ≤ 1) := fun hc => this ⟨hc.1, by omega⟩
      simp [hz, hzero, Except.map, PyFRD.ctor_mk, this', pure, Except.pure]
      funext k
      ext i j
      rw [Subsingleton.elim i 0, Subsingleton.elim j 0]
      simp [div_eq_mul_inv]
      rfl
  | frd F =>
    simp only [Generated.frdRtruediv, hnot, if_false]
    exact generated_convert_bind E G.sys.omega (.frd F) _ _ hg
      (fun o => Generated.frdTruediv E o (.frd (PyFRD.of G dt)))
      (fun H => if !G.isSiso then .error .notImplemented else DFRD.truedivCore H G) d core
  | array p' m' D =>
    simp only [Generated.frdRtruediv, hnot, if_false]
    exact generated_convert_bind E G.sys.omega (.array p' m' D) _ _ hg
      (fun o => Generated.frdTruediv E o (.frd (PyFRD.of G dt)))
      (fun H => if !G.isSiso then .error .notImplemented else DFRD.truedivCore H G) d core
  | lti L =>
    simp only [Generated.frdRtruediv, hnot, if_false]
    exact generated_convert_bind E G.sys.omega (.lti L) _ _ hg
      (fun o => Generated.frdTruediv E o (.frd (PyFRD.of G dt)))
      (fun H => if !G.isSiso then .error .notImplemented else DFRD.truedivCore H G) d core


/-- `other / self` for a `self` that is not SISO: the code returns `NotImplemented`, the model raises
too (possibly with the error of the conversion, which it tries first). -/
theorem generated_rtruediv_mimo (E : Env K) {n : Nat} (G : DFRD K n) (dt : Dt) (x : PyOpd K)
    (hG : 0 < G.p ∧ 0 < G.m) (hs : G.isSiso = false) :
    Generated.frdRtruediv E (PyFRD.of G dt) x = .error .notImplemented
      ∧ ∃ e, DFRD.rtruediv E G x.erase = .error e := by
  have hyes : (PyFRD.ninputs (PyFRD.of G dt) > 1 ∨ PyFRD.noutputs (PyFRD.of G dt) > 1) := by
    simp only [PyFRD.ninputs, PyFRD.noutputs, PyFRD.of]
    simp only [DFRD.isSiso, Bool.and_eq_false_iff, beq_eq_false_iff_ne] at hs
    omega
  constructor
  · cases x <;> simp only [Generated.frdRtruediv, hyes, if_true] <;> rfl
  · cases x with
    | scalar c => exact ⟨.notImplemented, by simp [DFRD.rtruediv, PyOpd.erase, hs]⟩
    | frd F =>
      simp only [DFRD.rtruediv, PyOpd.erase, hs, bind, Except.bind]
      split
      · exact ⟨_, rfl⟩
      · exact ⟨_, rfl⟩
    | array p m D =>
      simp only [DFRD.rtruediv, PyOpd.erase, hs, bind, Except.bind]
      split
      · exact ⟨_, rfl⟩
      · exact ⟨_, rfl⟩
    | lti L =>
      simp only [DFRD.rtruediv, PyOpd.erase, hs, bind, Except.bind]
      split
      · exact ⟨_, rfl⟩
      · exact ⟨_, rfl⟩

end CtrlVerif.C09Gen
