/-
Source-text tie of C08, part 3: `find_operating_point` (control/nlsys.py), general branch — the
root function assembled from the index lists and the unpacking of the root.
`Generated/NLRootfun.lean`, `Generated/NLOpUnpack.lean` are rewritten from the source text on every
run; the model (`OpSpec.rootfun`, `OpSpec.result`) is proved EQUAL to them.  `scipy.optimize.root`
is not part of either: a parameter.
-/
import CtrlVerif.Generated.NLRootfun
import CtrlVerif.Generated.NLOpUnpack
import CtrlVerif.Lemmas.PyNLOp
import CtrlVerif.Props.C08

namespace CtrlVerif.C08Gen

open CtrlVerif IOSys PyNL

variable {n m p : Nat}

/-- the requested update values as the array `dx0` of the source text (`np.zeros` when not given). -/
def dxArr (S : OpSpec n m p) : List Q :=
  List.ofFn fun i => match S.dx0 with | some d => d i | none => 0

/-- the root function of the source text on the data of an operating-point problem. -/
abbrev genRootfun (S : OpSpec n m p) (G : IOSys (Fin n) (Fin m) (Fin p) Q) (z : List Q) :=
  Generated.nlRootfun (listFun G.f) (listFun G.h) S.t S.discrete (S.y0.map List.ofFn)
    (ints S.idx.stateVars) (ints S.idx.inputVars) (ints S.idx.outputVars) (ints S.idx.derivVars)
    (List.ofFn S.x0) (List.ofFn S.u0) (dxArr S) (S.idx.stateVars.length : Int) z

/-- the unpacking statements of the source text on the same data. -/
abbrev genUnpack (S : OpSpec n m p) (G : IOSys (Fin n) (Fin m) (Fin p) Q) (z : List Q) :=
  Generated.nlOpUnpack (listFun G.f) (listFun G.h) S.t
    (ints S.idx.stateVars) (ints S.idx.inputVars) (ints S.idx.outputVars) (ints S.idx.derivVars)
    (List.ofFn S.x0) (List.ofFn S.u0) (dxArr S) (S.idx.stateVars.length : Int) z

/-- the hypotheses under which `root` calls the root function: one free variable per varying state
and input, the varying indices distinct (they are: `np.delete` of a range). -/
structure OpDomain (S : OpSpec n m p) (z : List Q) : Prop where
  len : z.length = S.idx.stateVars.length + S.idx.inputVars.length
  svNodup : S.idx.stateVars.Nodup
  ivNodup : S.idx.inputVars.Nodup

theorem generated_op_state (S : OpSpec n m p) (z : List Q) (hd : OpDomain S z) :
    PyNL.scatter (List.ofFn S.x0) (ints S.idx.stateVars)
        (PyNL.sliceTo z (S.idx.stateVars.length : Int)) = .ok (List.ofFn (S.xOf z)) := by
  rw [sliceTo_natCast, scatter_ofFn _ _ _ (by simp; have := hd.len; omega) hd.svNodup]
  rfl

theorem generated_op_input (S : OpSpec n m p) (z : List Q) (hd : OpDomain S z) :
    PyNL.scatter (List.ofFn S.u0) (ints S.idx.inputVars)
        (PyNL.sliceFrom z (S.idx.stateVars.length : Int)) = .ok (List.ofFn (S.uOf z)) := by
  rw [sliceFrom_natCast, scatter_ofFn _ _ _ (by simp; have := hd.len; omega) hd.ivNodup]
  rfl

/-- **generated_rootfun_eq**: the nested `rootfun` of the source text IS the model's `rootfun`:
the free variables are written into the varying states and inputs, the constrained entries of
`f(x, u) - dx0` (minus `x` exactly when the system is discrete-time in the strict sense) are
returned, followed — when `y0` is given — by the constrained entries of `h(x, u) - y0`; for every
system, every index lists, every `z` of the domain. -/
theorem generated_rootfun_eq (S : OpSpec n m p) (G : IOSys (Fin n) (Fin m) (Fin p) Q) (z : List Q)
    (hd : OpDomain S z) : genRootfun S G z = S.rootfun G z := by
  unfold genRootfun Generated.nlRootfun OpSpec.rootfun
  simp only [generated_op_state S z hd, generated_op_input S z hd, listFun_ofFn, bind, Except.bind]
  cases hf : G.f S.t (S.xOf z) (S.uOf z) with
  | error e => simp [Except.map]
  | ok fx =>
    simp only [Except.map, dxArr, vsub_ofFn]
    have htarget : ∀ i, S.target (S.xOf z) i
        = (match S.dx0 with | some d => d i | none => 0) + (if S.discrete then S.xOf z i else 0) := by
      intro i
      unfold OpSpec.target
      cases S.dx0 <;> rfl
    have hres : (if S.discrete = true then
          (pure (List.ofFn fun i => (fx i - match S.dx0 with | some d => d i | none => 0) - S.xOf z i)
            : Except Err (List Q))
        else pure (List.ofFn fun i => fx i - match S.dx0 with | some d => d i | none => 0))
        = .ok (List.ofFn fun i => fx i - S.target (S.xOf z) i) := by
      cases hb : S.discrete with
      | true =>
        simp only [if_true, pure, Except.pure]
        congr 2; funext i; rw [htarget]; simp only [hb, if_true]; ring
      | false =>
        simp only [Bool.false_eq_true, if_false, pure, Except.pure]
        congr 2; funext i; rw [htarget]; simp [hb]
    rw [hres]
    simp only []
    cases hy0 : S.y0 with
    | none =>
      simp only [Option.map_none, gather_ofFn, bind, Except.bind, pure, Except.pure]
    | some y0 =>
      simp only [Option.map_some, listFun_ofFn]
      cases hh : G.h S.t (S.xOf z) (S.uOf z) with
      | error e => simp [Except.map, bind, Except.bind]
      | ok y =>
        simp only [Except.map, vsub_ofFn, gather_ofFn, bind, Except.bind, pure, Except.pure]

/-- **generated_opUnpack_eq**: the statements after the `root` call write the root into the varying
states and inputs and evaluate the output there — the model's `result`. -/
theorem generated_opUnpack_eq (S : OpSpec n m p) (G : IOSys (Fin n) (Fin m) (Fin p) Q) (z : List Q)
    (hd : OpDomain S z) :
    genUnpack S G z = (S.result G z).map fun r => (List.ofFn r.1, List.ofFn r.2.1, List.ofFn r.2.2) := by
  unfold genUnpack Generated.nlOpUnpack OpSpec.result
  simp only [generated_op_state S z hd, generated_op_input S z hd, listFun_ofFn, bind, Except.bind]
  cases hh : G.h S.t (S.xOf z) (S.uOf z) with
  | error e => simp [Except.map]
  | ok y => simp [Except.map, pure, Except.pure]

/-- transported **opPoint_sound**: if `root` returns `z` at which the root function OF THE SOURCE
TEXT vanishes, the point the unpacking statements OF THE SOURCE TEXT assemble attains exactly the
requested update values (`dx0`, plus `x` itself in discrete time) at the constrained indices, the
requested outputs at the constrained output indices, `y` is the output at `(x, u)`, and the states /
inputs that were declared fixed keep their given values. -/
theorem generated_opPoint_sound (S : OpSpec n m p) (G : IOSys (Fin n) (Fin m) (Fin p) Q)
    (z r xl ul yl : List Q) (hd : OpDomain S z)
    (hr : genRootfun S G z = .ok r) (h0 : ∀ e ∈ r, e = 0)
    (hres : genUnpack S G z = .ok (xl, ul, yl)) :
    ∃ (x : Fin n → Q) (u : Fin m → Q) (y : Fin p → Q),
      xl = List.ofFn x ∧ ul = List.ofFn u ∧ yl = List.ofFn y ∧
      G.h S.t x u = .ok y ∧
      (∃ fx, G.f S.t x u = .ok fx ∧ ∀ i ∈ S.idx.derivVars, fx i = S.target x i) ∧
      (∀ y0, S.y0 = some y0 → ∀ j ∈ S.idx.outputVars, y j = y0 j) ∧
      (∀ i, i ∉ S.idx.stateVars → x i = S.x0 i) ∧ (∀ i, i ∉ S.idx.inputVars → u i = S.u0 i) := by
  rw [generated_rootfun_eq S G z hd] at hr
  rw [generated_opUnpack_eq S G z hd] at hres
  cases hm : S.result G z with
  | error e => simp [hm, Except.map] at hres
  | ok res =>
    obtain ⟨x, u, y⟩ := res
    simp only [hm, Except.map, Except.ok.injEq, Prod.mk.injEq] at hres
    obtain ⟨h1, h2, h3⟩ := hres
    exact ⟨x, u, y, h1.symm, h2.symm, h3.symm, C08.opPoint_sound S G z r x u y hr h0 hm⟩

/-- non-vacuity: the discrete-time system `x⁺ = x + u - 1` with the state free, the input fixed at
`u = 1`: every `z` is a fixed point, the root function of the source text returns `[0]`. -/
example : Generated.nlRootfun (K := ℚ) (fun _ x u => .ok [x.headD 0 + u.headD 0 - 1]) (fun _ x _ => .ok x)
    0 true none [0] [] [0] [0] [5] [1] [0] 1 [7] = .ok [0] := by decide +kernel
/-- the same in continuous time (`disc = false`): the residual is `f - dx0 = 7`. -/
example : Generated.nlRootfun (K := ℚ) (fun _ x u => .ok [x.headD 0 + u.headD 0 - 1]) (fun _ x _ => .ok x)
    0 false none [0] [] [0] [0] [5] [1] [0] 1 [7] = .ok [7] := by decide +kernel
example : Generated.nlOpUnpack (K := ℚ) (fun _ x u => .ok [x.headD 0 + u.headD 0 - 1]) (fun _ x _ => .ok x)
    0 [0] [] [0] [0] [5] [1] [0] 1 [7] = .ok ([7], [1], [7]) := by decide +kernel

end CtrlVerif.C08Gen
