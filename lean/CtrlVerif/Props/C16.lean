/-
C16 — System norms equal their definitions (control/sysnorm.py, method 'scipy').

The model is `Model/Norm.lean`.  What is proved here (over an arbitrary ordered field, arbitrary
finite index types, so every shape, non-square included):

H2 norm
* `h2_cases_cont`, `h2_cases_disc` (with `h2cont_eq_inf_iff`, `h2cont_value`, `h2cont_nan`, … ):
  the function returns `inf` exactly when the system is not asymptotically stable (pole list) or,
  in continuous time, has a direct term (or the Gramian precaution fires), and otherwise the
  square root of `trace(C P Cᵀ [+ D Dᵀ])`, `P` being what the Lyapunov solver returned for
  `(A, B Bᵀ)`.
* `dgramian_sum`, `h2_disc_partial_sums`, `frobenius_sq`: if `P` satisfies the discrete Lyapunov
  equation the code hands to `dlyap`, the partial sums of the squared Frobenius norms of the
  impulse response `D, CB, CAB, …` equal the returned radicand minus `trace(C A^N P (Aᵀ)^N Cᵀ)`.
  (PARTIAL: that the remainder tends to 0 for a stable `A`, and the continuous-time integral, are
  analysis and not proved; `cgramian_spectral` is the algebraic identity behind the
  continuous-time formula.)

L∞ norm
* `inv_bilinear_resp`: the inverse bilinear map used for discrete-time systems preserves the
  frequency response: `Gd` at `z = (2+s)/(2−s)` ↦ `invBilinear Gd` at `s`.
* `hamiltonian_det`: `det(sI − H(γ)) · det R = det(sI − A) · det(sI + Aᵀ) · det(γ²I − G(−s)ᵀ G(s))`
  for every `D` (Schur complements); `imag_eig_iff_singular_value`: away from the poles, `s` is an
  eigenvalue of `H(γ)` iff `γ²I − G(−s)ᵀG(s)` is singular — the algebraic core of the bisection
  test.  (PARTIAL: `G(−jω)ᵀ = G(jω)ᴴ` for real systems and the monotonicity of the test in `γ`
  are not formalised; the eigenvalue routine is external.)
* `upper_loop_spec`, `bisection_invariant`, `linf_within_tol`: the doubling and bisection loops;
  if the eigenvalue test is the threshold test at `γ*` above `‖D‖₂ ≤ γ*`, the returned value `g`
  satisfies `(1 − tol) γ* ≤ g` and `(1 − tol) g ≤ γ*`.
* error / infinite branches: `linf_boundary_inf_cont`, `linf_boundary_inf_disc`,
  `linf_origin_raises`, `linf_disc_unfold`, `bisect_unbound`.
-/
import CtrlVerif.Lemmas.Norm
import Mathlib.Tactic.LinearCombination
import Mathlib.Algebra.BigOperators.Ring.Finset
import Mathlib.LinearAlgebra.Matrix.Notation
import Mathlib.Tactic.FinCases

namespace CtrlVerif.C16

open CtrlVerif Matrix SS Norm

/-! ## H2 -/

section H2
variable {K : Type} [Field K] [LinearOrder K]
variable {σ ι o : Type} [Fintype σ] [Fintype ι] [Fintype o]

/-- the two continuous-time pole tests together: "not asymptotically stable". -/
theorem stable_cont_iff (poles : List (Pole K)) :
    (onAxis poles = false ∧ inRhp poles = false) ↔ ∀ p ∈ poles, p.re < 0 := by
  simp only [onAxis, inRhp, List.any_eq_false, decide_eq_true_eq]
  constructor
  · rintro ⟨h1, h2⟩ p hp
    exact lt_of_le_of_ne (not_lt.mp (h2 p hp)) (h1 p hp)
  · intro h
    exact ⟨fun p hp => ne_of_lt (h p hp), fun p hp => not_lt.mpr (le_of_lt (h p hp))⟩

/-- the two discrete-time pole tests together. -/
theorem stable_disc_iff (poles : List (Pole K)) :
    (onCircle poles = false ∧ outsideDisc poles = false) ↔ ∀ p ∈ poles, p.absSq < 1 := by
  simp only [onCircle, outsideDisc, List.any_eq_false, decide_eq_true_eq]
  constructor
  · rintro ⟨h1, h2⟩ p hp
    exact lt_of_le_of_ne (not_lt.mp (h2 p hp)) (h1 p hp)
  · intro h
    exact ⟨fun p hp => ne_of_lt (h p hp), fun p hp => not_lt.mpr (le_of_lt (h p hp))⟩

/-- `any(D.flat != 0)` is `D ≠ 0`. -/
theorem hasDirect_iff (D : Matrix o ι K) : hasDirect D = true ↔ D ≠ 0 := by
  simp only [hasDirect, decide_eq_true_eq, ne_eq]
  constructor
  · rintro ⟨⟨i, j⟩, h⟩ h0
    exact h (by rw [h0]; rfl)
  · intro h
    by_contra hc
    apply h
    ext i j
    by_contra hij
    exact hc ⟨(i, j), hij⟩

/-- continuous time: exactly when `inf` is returned. -/
theorem h2cont_eq_inf_iff (E : H2Ext σ K) (G : SS σ ι o K) (poles : List (Pole K)) :
    h2cont E G poles = .ok .inf ↔
      (onAxis poles = true ∨ inRhp poles = true ∨ hasDirect G.D = true ∨
        E.negEig (E.lyap G.A (G.B * G.Bᵀ)) = true) := by
  unfold h2cont h2tail
  cases h1 : onAxis poles <;> cases h2 : inRhp poles <;> cases h3 : hasDirect G.D <;>
    cases h4 : E.negEig (E.lyap G.A (G.B * G.Bᵀ)) <;> simp <;> split_ifs <;> simp [h4]

/-- continuous time: the finite value. -/
theorem h2cont_value (E : H2Ext σ K) (G : SS σ ι o K) (poles : List (Pole K))
    (h1 : onAxis poles = false) (h2 : inRhp poles = false) (h3 : hasDirect G.D = false)
    (h4 : E.negEig (E.lyap G.A (G.B * G.Bᵀ)) = false)
    (h5 : 0 ≤ trace (G.C * E.lyap G.A (G.B * G.Bᵀ) * G.Cᵀ)) :
    h2cont E G poles = .ok (.sqrt (trace (G.C * E.lyap G.A (G.B * G.Bᵀ) * G.Cᵀ))) := by
  unfold h2cont h2tail
  simp [h1, h2, h3, h4, not_lt.mpr h5]

/-- continuous time: a negative radicand (`sqrt` gives NaN) raises. -/
theorem h2cont_nan (E : H2Ext σ K) (G : SS σ ι o K) (poles : List (Pole K))
    (h1 : onAxis poles = false) (h2 : inRhp poles = false) (h3 : hasDirect G.D = false)
    (h4 : E.negEig (E.lyap G.A (G.B * G.Bᵀ)) = false)
    (h5 : trace (G.C * E.lyap G.A (G.B * G.Bᵀ) * G.Cᵀ) < 0) :
    h2cont E G poles = .error .badArg := by
  unfold h2cont h2tail
  simp [h1, h2, h3, h4, h5]

/-- discrete time: exactly when `inf` is returned. -/
theorem h2disc_eq_inf_iff (E : H2Ext σ K) (G : SS σ ι o K) (poles : List (Pole K)) :
    h2disc E G poles = .ok .inf ↔
      (onCircle poles = true ∨ outsideDisc poles = true ∨
        E.negEig (E.dlyap G.A (G.B * G.Bᵀ)) = true) := by
  unfold h2disc h2tail
  cases h1 : onCircle poles <;> cases h2 : outsideDisc poles <;>
    cases h4 : E.negEig (E.dlyap G.A (G.B * G.Bᵀ)) <;> simp <;> split_ifs <;> simp [h4]

/-- discrete time: the finite value (note the `D Dᵀ` term). -/
theorem h2disc_value (E : H2Ext σ K) (G : SS σ ι o K) (poles : List (Pole K))
    (h1 : onCircle poles = false) (h2 : outsideDisc poles = false)
    (h4 : E.negEig (E.dlyap G.A (G.B * G.Bᵀ)) = false)
    (h5 : 0 ≤ trace (G.C * E.dlyap G.A (G.B * G.Bᵀ) * G.Cᵀ + G.D * G.Dᵀ)) :
    h2disc E G poles =
      .ok (.sqrt (trace (G.C * E.dlyap G.A (G.B * G.Bᵀ) * G.Cᵀ + G.D * G.Dᵀ))) := by
  unfold h2disc h2tail
  rw [Matrix.trace_add] at h5
  simp only [h1, h2, h4]
  simp [not_lt.mpr h5]

/-- **H2 case analysis, continuous time**: unless the Gramian precaution fires, the result is
infinite exactly when some pole is not in the open left half plane or `D ≠ 0`. -/
theorem h2_cases_cont (E : H2Ext σ K) (G : SS σ ι o K) (poles : List (Pole K))
    (hne : E.negEig (E.lyap G.A (G.B * G.Bᵀ)) = false) :
    h2cont E G poles = .ok .inf ↔ (¬ (∀ p ∈ poles, p.re < 0) ∨ G.D ≠ 0) := by
  rw [h2cont_eq_inf_iff, ← stable_cont_iff, ← hasDirect_iff, hne]
  cases onAxis poles <;> cases inRhp poles <;> simp

/-- **H2 case analysis, discrete time**: infinite exactly when some pole is not in the open unit
disc (a direct term is allowed). -/
theorem h2_cases_disc (E : H2Ext σ K) (G : SS σ ι o K) (poles : List (Pole K))
    (hne : E.negEig (E.dlyap G.A (G.B * G.Bᵀ)) = false) :
    h2disc E G poles = .ok .inf ↔ ¬ (∀ p ∈ poles, p.absSq < 1) := by
  rw [h2disc_eq_inf_iff, ← stable_disc_iff, hne]
  cases onCircle poles <;> cases outsideDisc poles <;> simp

/-- `system_norm(G, 2)` dispatches on `isctime()` (so `dt = None` is treated as continuous). -/
theorem h2_dispatch (E : H2Ext σ K) (dt : Dt) (G : SS σ ι o K) (poles : List (Pole K)) :
    h2 E dt G poles = (match dt with
      | .none => h2cont E G poles
      | .cont => h2cont E G poles
      | _ => h2disc E G poles) := by
  cases dt <;> simp [h2, isCtime]

/-- a system without states: continuous time gives `0` for `D = 0`; discrete time gives
`sqrt(trace(D Dᵀ))` (the Frobenius norm of `D`). -/
theorem h2_static_disc [IsEmpty σ] (E : H2Ext σ K) (G : SS σ ι o K)
    (hne : E.negEig (E.dlyap G.A (G.B * G.Bᵀ)) = false) (h5 : 0 ≤ trace (G.D * G.Dᵀ)) :
    h2disc E G [] = .ok (.sqrt (trace (G.D * G.Dᵀ))) := by
  have hz : G.C * E.dlyap G.A (G.B * G.Bᵀ) * G.Cᵀ = 0 := by
    ext i j; simp [Matrix.mul_apply]
  unfold h2disc h2tail
  simp [onCircle, outsideDisc, hne, hz, not_lt.mpr h5]

theorem h2_static_cont [IsEmpty σ] (E : H2Ext σ K) (G : SS σ ι o K) (hD : G.D = 0)
    (hne : E.negEig (E.lyap G.A (G.B * G.Bᵀ)) = false) :
    h2cont E G [] = .ok (.sqrt 0) := by
  have hz : G.C * E.lyap G.A (G.B * G.Bᵀ) * G.Cᵀ = 0 := by
    ext i j; simp [Matrix.mul_apply]
  have hd : hasDirect G.D = false := by
    rw [Bool.eq_false_iff, ne_eq, hasDirect_iff]; simp [hD]
  unfold h2cont h2tail
  simp [onAxis, inRhp, hne, hz, hd]

end H2

/-! ### the Gramian expression is the ℓ2 norm of the impulse response (algebraic part) -/

section Gramian
variable {K : Type} [Field K]
variable {σ ι o : Type} [Fintype σ] [DecidableEq σ] [Fintype ι] [Fintype o]

/-- **telescoping**: if `P` solves the equation handed to `dlyap` (`A P Aᵀ − P + B Bᵀ = 0`), the
partial sums of `h_k h_kᵀ`, `h_k = C A^k B`, are `C (P − A^N P (Aᵀ)^N) Cᵀ`. -/
theorem dgramian_sum (A : Matrix σ σ K) (B : Matrix σ ι K) (C : Matrix o σ K) (P : Matrix σ σ K)
    (hP : A * P * Aᵀ - P + B * Bᵀ = 0) (N : ℕ) :
    ∑ k ∈ Finset.range N, (C * A ^ k * B) * (C * A ^ k * B)ᵀ
      = C * (P - A ^ N * P * Aᵀ ^ N) * Cᵀ := by
  have hB : B * Bᵀ = P - A * P * Aᵀ := by
    rw [eq_sub_iff_add_eq, ← sub_eq_zero, ← hP]; abel
  induction N with
  | zero => simp
  | succ n ih =>
    rw [Finset.sum_range_succ, ih]
    have e : (C * A ^ n * B) * (C * A ^ n * B)ᵀ = C * (A ^ n * (B * Bᵀ) * Aᵀ ^ n) * Cᵀ := by
      simp only [Matrix.transpose_mul, Matrix.transpose_pow, Matrix.mul_assoc]
    rw [e, hB, pow_succ, pow_succ]
    simp only [Matrix.mul_sub, Matrix.sub_mul, Matrix.mul_assoc]
    have c1 : Aᵀ * (Aᵀ ^ n * Cᵀ) = Aᵀ ^ n * (Aᵀ * Cᵀ) := by
      rw [← Matrix.mul_assoc, ← Matrix.mul_assoc, ← pow_succ', pow_succ]
    rw [c1]
    abel

/-- squared Frobenius norm as a trace. -/
theorem frobenius_sq (M : Matrix o ι K) : trace (M * Mᵀ) = ∑ i, ∑ j, M i j ^ 2 := by
  simp [Matrix.trace, Matrix.mul_apply, sq]

/-- partial sums of the squared ℓ2 norm of the impulse response `D, CB, CAB, …` against the value
returned by the discrete-time branch: the difference is `trace(C A^N P (Aᵀ)^N Cᵀ)`. -/
theorem h2_disc_partial_sums (G : SS σ ι o K) (P : Matrix σ σ K)
    (hP : G.A * P * G.Aᵀ - P + G.B * G.Bᵀ = 0) (N : ℕ) :
    trace (G.D * G.Dᵀ) + ∑ k ∈ Finset.range N, trace ((G.C * G.A ^ k * G.B) * (G.C * G.A ^ k * G.B)ᵀ)
      = trace (G.C * P * G.Cᵀ + G.D * G.Dᵀ) - trace (G.C * (G.A ^ N * P * G.Aᵀ ^ N) * G.Cᵀ) := by
  rw [← Matrix.trace_sum, dgramian_sum G.A G.B G.C P hP N, Matrix.trace_add]
  simp only [Matrix.mul_sub, Matrix.sub_mul, Matrix.trace_sub]
  ring

/-- continuous time, algebraic core of `‖G‖₂² = trace(C P Cᵀ)`: if `P` solves the equation handed
to `lyap` (`A P + P Aᵀ + B Bᵀ = 0`) then `B Bᵀ = (sI − A) P + P (−sI − A)ᵀ` for every `s`. -/
theorem cgramian_factor (A : Matrix σ σ K) (B : Matrix σ ι K) (P : Matrix σ σ K)
    (hP : A * P + P * Aᵀ + B * Bᵀ = 0) (s : K) :
    B * Bᵀ = (s • (1 : Matrix σ σ K) - A) * P + P * ((-s) • (1 : Matrix σ σ K) - A)ᵀ := by
  have h : B * Bᵀ = -(A * P) - P * Aᵀ := by
    have := eq_neg_of_add_eq_zero_right hP
    rw [this]; abel
  have e : ((-s) • (1 : Matrix σ σ K) - A)ᵀ = (-s) • (1 : Matrix σ σ K) - Aᵀ := by
    rw [Matrix.transpose_sub, Matrix.transpose_smul, Matrix.transpose_one]
  rw [h, e, Matrix.sub_mul, Matrix.mul_sub, Matrix.smul_mul, Matrix.mul_smul, Matrix.one_mul,
    Matrix.mul_one, neg_smul]
  abel

/-- … hence `(sI−A)⁻¹ B Bᵀ (−sI−Aᵀ)⁻¹ = P (−sI−Aᵀ)⁻¹ + (sI−A)⁻¹ P`: the integrand
`G₀(s) G₀(−s)ᵀ` of the H2 norm splits into a part analytic in the right and a part analytic in the
left half plane, each contributing `C P Cᵀ / 2` (the contour integrals are not formalised). -/
theorem cgramian_spectral (A : Matrix σ σ K) (B : Matrix σ ι K) (P : Matrix σ σ K)
    (hP : A * P + P * Aᵀ + B * Bᵀ = 0) (s : K)
    (hu : IsUnit (s • (1 : Matrix σ σ K) - A).det)
    (hv : IsUnit (((-s) • (1 : Matrix σ σ K) - A)ᵀ).det) :
    (s • (1 : Matrix σ σ K) - A)⁻¹ * (B * Bᵀ) * (((-s) • (1 : Matrix σ σ K) - A)ᵀ)⁻¹
      = P * (((-s) • (1 : Matrix σ σ K) - A)ᵀ)⁻¹ + (s • (1 : Matrix σ σ K) - A)⁻¹ * P := by
  rw [cgramian_factor A B P hP s, Matrix.mul_add, Matrix.add_mul,
    Matrix.nonsing_inv_mul_cancel_left _ _ hu, Matrix.mul_assoc, Matrix.mul_assoc,
    Matrix.mul_nonsing_inv _ hv, Matrix.mul_one]

end Gramian

/-! ## L∞ -/

section Bilinear
variable {K : Type} [Field K]
variable {σ ι o : Type} [Fintype σ] [DecidableEq σ]

/-- **the inverse bilinear map preserves the frequency response**: if the discrete-time system
`Gd` responds with `Y` at `z = (2+s)/(2−s)`, the continuous-time system the code builds
(`A = 2(Ad−I)(Ad+I)⁻¹`, `B = 2(Ad+I)⁻¹Bd`, `C = 2Cd(Ad+I)⁻¹`, `D = Dd − Cd(Ad+I)⁻¹Bd`) responds
with the same `Y` at `s`.  (`s = jω` ↦ `z` on the unit circle, so the suprema coincide.) -/
theorem inv_bilinear_resp (G : SS σ ι o K) (Ai : Matrix σ σ K)
    (hAi : (G.A + 1) * Ai = 1) (h2 : (2 : K) ≠ 0) (s : K) (hs : s ≠ 2) {Y : Matrix o ι K}
    (h : G.Resp ((2 + s) / (2 - s)) Y) : (invBilinear G Ai).Resp s Y := by
  obtain ⟨Xd, hXd, rfl⟩ := h
  have hs' : (2 - s) ≠ 0 := sub_ne_zero.mpr (Ne.symm hs)
  obtain ⟨z, hz⟩ : ∃ z : K, z = (2 + s) / (2 - s) := ⟨_, rfl⟩
  rw [← hz] at hXd
  obtain ⟨c, hc⟩ : ∃ c : K, c = (z + 1) / 2 := ⟨_, rfl⟩
  have hc2 : z = 2 * c - 1 := by rw [hc]; field_simp; ring
  have hcs : c * s = 2 * c - 2 := by
    rw [hc, hz]; field_simp; ring
  have hAi' : Ai * (G.A + 1) = 1 := mul_eq_one_comm.mp hAi
  have hAiA : Ai * G.A = 1 - Ai := by
    rw [Matrix.mul_add, Matrix.mul_one] at hAi'
    exact eq_sub_of_add_eq hAi'
  have hAAi : G.A * Ai = 1 - Ai := by
    rw [Matrix.add_mul, Matrix.one_mul] at hAi
    exact eq_sub_of_add_eq hAi
  -- Ai B = 2c Ai Xd - Xd
  have hB : Ai * G.B = (2 * c) • (Ai * Xd) - Xd := by
    have e : (z • (1 : Matrix σ σ K) - G.A) * Xd = z • Xd - G.A * Xd := by
      simp [Matrix.sub_mul]
    rw [← hXd, e, Matrix.mul_sub, ← Matrix.mul_assoc Ai G.A, hAiA, hc2]
    simp only [Matrix.mul_smul, Matrix.sub_mul, Matrix.one_mul]
    module

  refine ⟨c • Xd, ?_, ?_⟩
  · simp only [invBilinear]
    have e1 : (G.A - 1) * Ai = 1 - (2 : K) • Ai := by
      rw [Matrix.sub_mul, Matrix.one_mul, hAAi, two_smul]; abel
    rw [e1, hB]
    simp only [Matrix.sub_mul, Matrix.smul_mul, Matrix.mul_smul, Matrix.one_mul, smul_sub,
      smul_smul]
    rw [hcs]
    module
  · simp only [invBilinear]
    rw [Matrix.mul_assoc G.C Ai G.B, hB]
    simp only [Matrix.smul_mul, Matrix.mul_smul, Matrix.mul_sub, Matrix.mul_assoc, smul_smul]
    module


end Bilinear

section Ham
variable {K : Type} [Field K]
variable {σ ι o : Type} [Fintype σ] [DecidableEq σ] [Fintype ι] [DecidableEq ι] [Fintype o]
  [DecidableEq o]

/-- the transposed response at `−s` in terms of a solution `Z` of `(sI + Aᵀ) Z = Cᵀ`. -/
theorem resp_neg_transpose (G : SS σ ι o K) (s : K) {Yn : Matrix o ι K} (hn : G.Resp (-s) Yn)
    (Z : Matrix σ o K) (hZ : (s • (1 : Matrix σ σ K) + G.Aᵀ) * Z = G.Cᵀ) :
    Ynᵀ = G.Dᵀ - G.Bᵀ * Z := by
  obtain ⟨Xn, hXn, rfl⟩ := hn
  have h1 : Xnᵀ * (s • (1 : Matrix σ σ K) + G.Aᵀ) = -G.Bᵀ := by
    have := congrArg Matrix.transpose hXn
    rw [Matrix.transpose_mul, Matrix.transpose_sub, Matrix.transpose_smul, Matrix.transpose_one]
      at this
    rw [← this, ← Matrix.mul_neg]
    congr 1
    rw [neg_smul]
    abel
  rw [Matrix.transpose_add, Matrix.transpose_mul, ← hZ, ← Matrix.mul_assoc, h1]
  simp only [Matrix.neg_mul]
  abel

/-- **Hamiltonian determinant identity** (every `D`, every shape): with `R = γ²I − DᵀD` invertible,
`Y = G(s)` and `Yn = G(−s)`,
`det(sI − H(γ)) · det R = det(sI − A) · det(sI + Aᵀ) · det(γ²I − G(−s)ᵀ G(s))`. -/
theorem hamiltonian_det (G : SS σ ι o K) (γ s : K) (Ri : Matrix ι ι K)
    (hR : Rmat G γ * Ri = 1) {Y Yn : Matrix o ι K} (h : G.Resp s Y) (hn : G.Resp (-s) Yn)
    (hu : IsUnit (s • (1 : Matrix σ σ K) + G.Aᵀ).det) :
    det (s • (1 : Matrix (σ ⊕ σ) (σ ⊕ σ) K) - hamiltonian G Ri) * det (Rmat G γ) =
      det (s • (1 : Matrix σ σ K) - G.A) * det (s • (1 : Matrix σ σ K) + G.Aᵀ) *
        det ((γ ^ 2) • (1 : Matrix ι ι K) - Ynᵀ * Y) := by
  obtain ⟨X, hX, rfl⟩ := h
  have hZ : (s • (1 : Matrix σ σ K) + G.Aᵀ) * ((s • (1 : Matrix σ σ K) + G.Aᵀ)⁻¹ * G.Cᵀ) = G.Cᵀ := by
    rw [← Matrix.mul_assoc, Matrix.mul_nonsing_inv _ hu, Matrix.one_mul]
  rw [resp_neg_transpose G s hn _ hZ]
  exact hamiltonian_det_aux G γ s Ri hR X hX _ hZ

/-- away from the poles of `G(s)` and `G(−s)ᵀ`, `s` is an eigenvalue of `H(γ)` (root of the
characteristic polynomial) iff `γ² I − G(−s)ᵀ G(s)` is singular.  For `s = jω` and a real system
`G(−jω)ᵀ = G(jω)ᴴ`: `γ` is a singular value of `G(jω)`. -/
theorem imag_eig_iff_singular_value (G : SS σ ι o K) (γ s : K) (Ri : Matrix ι ι K)
    (hR : Rmat G γ * Ri = 1) {Y Yn : Matrix o ι K} (h : G.Resp s Y) (hn : G.Resp (-s) Yn)
    (hp : (s • (1 : Matrix σ σ K) - G.A).det ≠ 0)
    (hq : (s • (1 : Matrix σ σ K) + G.Aᵀ).det ≠ 0) :
    det (s • (1 : Matrix (σ ⊕ σ) (σ ⊕ σ) K) - hamiltonian G Ri) = 0 ↔
      det ((γ ^ 2) • (1 : Matrix ι ι K) - Ynᵀ * Y) = 0 := by
  have hdet := hamiltonian_det G γ s Ri hR h hn (isUnit_iff_ne_zero.mpr hq)
  have hRdet : det (Rmat G γ) ≠ 0 := by
    intro h0
    have := congrArg det hR
    rw [det_mul, h0, zero_mul, det_one] at this
    exact zero_ne_one this
  constructor
  · intro h0
    rw [h0, zero_mul] at hdet
    have := mul_eq_zero.mp hdet.symm
    rcases this with h1 | h1
    · exact absurd h1 (mul_ne_zero hp hq)
    · exact h1
  · intro h0
    rw [h0, mul_zero] at hdet
    exact (mul_eq_zero.mp hdet).resolve_right hRdet

end Ham

section Loops
variable {K : Type} [Field K] [LinearOrder K] [IsStrictOrderedRing K]

/-- the doubling loop `while test(gamu): gamu *= 2`: what it returns fails the test, is `2^k` times
the start value, and every earlier candidate passed. -/
theorem upper_loop_spec (test : K → Except Err Bool) (fuel : Nat) (u0 u : K)
    (h : upperLoop test fuel u0 = .ok (some u)) :
    test u = .ok false ∧ ∃ k : ℕ, u = 2 ^ k * u0 ∧ ∀ j < k, test (2 ^ j * u0) = .ok true :=
  upperLoop_spec test fuel u0 u h

/-- **bisection invariant**: started with `l0 ≤ gaml ≤ γ* < gamu` and a test that is the threshold
test at `γ*` above `l0`, the loop keeps `gaml ≤ γ* < gamu`, never widens the interval, ends with
`(gamu − gaml)/gamu ≤ tol`, and returns the last midpoint, which is one of the two end points. -/
theorem bisection_invariant (test : K → Except Err Bool) (tol γs l0 : K)
    (htest : ∀ γ, l0 < γ → test γ = .ok (decide (γ ≤ γs)))
    (fuel : Nat) (l u g' l' u' : K) (h0 : l0 ≤ l) (hl : l ≤ γs) (hu : γs < u)
    (h : bisectLoop test tol fuel none l u = .ok (some (g', l', u'))) :
    l ≤ l' ∧ u' ≤ u ∧ l' ≤ γs ∧ γs < u' ∧ (u' - l') / u' ≤ tol ∧ (g' = l' ∨ g' = u') :=
  bisectLoop_spec test tol γs l0 htest fuel none l u g' l' u' h0 hl hu (Or.inl rfl) h

/-- leaving the bisection loop without having entered it is an error (`UnboundLocalError`). -/
theorem bisect_unbound (test : K → Except Err Bool) (tol l u : K) (fuel : Nat)
    (h : ¬ tol < (u - l) / u) : bisectLoop test tol (fuel + 1) none l u = .error .badArg := by
  simp [bisectLoop, h]

/-- **the returned L∞ value is within the relative tolerance of the threshold `γ*` of the
eigenvalue test**: `(1 − tol) γ* ≤ g` and `(1 − tol) g ≤ γ*`; in particular `g` is never smaller
than `(1 − tol) σ` for any `σ ≤ γ*`. -/
theorem linf_within_tol (test : K → Except Err Bool) (tol γs gaml : K) (fuel : Nat) (g : K)
    (h0 : 0 ≤ gaml) (hs : gaml ≤ γs) (htol0 : 0 ≤ tol) (htol1 : tol ≤ 1)
    (htest : ∀ γ, gaml < γ → test γ = .ok (decide (γ ≤ γs)))
    (h : linfLoops test tol gaml fuel = .ok (.val g)) :
    gaml ≤ g ∧ (1 - tol) * γs ≤ g ∧ (1 - tol) * g ≤ γs :=
  linfLoops_spec test tol γs gaml fuel g h0 hs htol0 htol1 htest h

/-- … hence never smaller than `(1 − tol)` times the largest singular value at any frequency. -/
theorem linf_not_below (test : K → Except Err Bool) (tol γs gaml : K) (fuel : Nat) (g sv : K)
    (h0 : 0 ≤ gaml) (hs : gaml ≤ γs) (htol0 : 0 ≤ tol) (htol1 : tol ≤ 1)
    (htest : ∀ γ, gaml < γ → test γ = .ok (decide (γ ≤ γs)))
    (h : linfLoops test tol gaml fuel = .ok (.val g)) (hsv : sv ≤ γs) :
    (1 - tol) * sv ≤ g := by
  obtain ⟨_, h2, _⟩ := linf_within_tol test tol γs gaml fuel g h0 hs htol0 htol1 htest h
  have : (1 - tol) * sv ≤ (1 - tol) * γs := mul_le_mul_of_nonneg_left hsv (by linarith)
  linarith

-- non-vacuity: the threshold test at γ* over ℚ.  Note the second value: 317/64 < 5 = γ*, the
-- returned value can be *below* the supremum (by less than tol · γ*).
example : linfLoops (fun γ : ℚ => .ok (decide (γ ≤ 1))) (1 / 4) 0 8 = .ok (.val (5 / 4)) := by
  norm_num [linfLoops, upperLoop, bisectLoop]

example : linfLoops (fun γ : ℚ => .ok (decide (γ ≤ 5))) (1 / 16) (1 / 2) 12
    = .ok (.val (317 / 64)) := by
  norm_num [linfLoops, upperLoop, bisectLoop]

end Loops

section Branches
variable {K : Type} [Field K] [LinearOrder K]
variable {σ ι o : Type} [Fintype σ] [Fintype ι] [Fintype o]
  [DecidableEq σ] [DecidableEq ι] [DecidableEq o]

/-- continuous time: a pole on the imaginary axis gives `inf`. -/
theorem linf_boundary_inf_cont (E : LinfExt σ ι o K) (tol : K) (fuel : Nat) (G : SS σ ι o K)
    (poles : List (Pole K)) (h : onAxis poles = true) :
    linf E tol fuel .cont G poles = .ok .inf := by
  simp [linf, isDtime, h]

/-- discrete time (`dt = True`, a number, or `None`): a pole on the unit circle gives `inf`. -/
theorem linf_boundary_inf_disc (E : LinfExt σ ι o K) (tol : K) (fuel : Nat) (dt : Dt)
    (hdt : isDtime dt = true) (G : SS σ ι o K) (poles : List (Pole K))
    (h : onCircle poles = true) : linf E tol fuel dt G poles = .ok .inf := by
  simp [linf, hdt, h]

/-- discrete time: a pole at `z = 0` raises (`ControlArgument`). -/
theorem linf_origin_raises (E : LinfExt σ ι o K) (tol : K) (fuel : Nat) (dt : Dt)
    (hdt : isDtime dt = true) (G : SS σ ι o K) (poles : List (Pole K))
    (h1 : onCircle poles = false) (h : atOrigin poles = true) :
    linf E tol fuel dt G poles = .error .badArg := by
  simp [linf, hdt, h1, h]

/-- discrete time otherwise: the continuous-time computation on the inverse bilinear image (this is
the form the driver executes, on the tabulated image). -/
theorem linf_disc_unfold (E : LinfExt σ ι o K) (tol : K) (fuel : Nat) (dt : Dt)
    (hdt : isDtime dt = true) (G : SS σ ι o K) (poles : List (Pole K))
    (h1 : onCircle poles = false) (h2 : atOrigin poles = false) (Ai : Matrix σ σ K)
    (hi : E.invS (G.A + 1) = some Ai) :
    linf E tol fuel dt G poles = linfCont E tol fuel (invBilinear G Ai) := by
  simp [linf, hdt, h1, h2, hi]

/-- continuous time without boundary poles. -/
theorem linf_cont_unfold (E : LinfExt σ ι o K) (tol : K) (fuel : Nat) (G : SS σ ι o K)
    (poles : List (Pole K)) (h1 : onAxis poles = false) :
    linf E tol fuel .cont G poles = linfCont E tol fuel G := by
  simp [linf, isDtime, h1]

/-- a singular `R(γ)` raises (`LinAlgError`). -/
theorem eigTest_singular (inv : Matrix ι ι K → Option (Matrix ι ι K))
    (imagEig : Matrix (σ ⊕ σ) (σ ⊕ σ) K → Bool) (G : SS σ ι o K) (γ : K)
    (h : inv (Rmat G γ) = none) : eigTest inv imagEig G γ = .error .illPosed := by
  simp [eigTest, h]

end Branches

/-! ## concrete instances -/

section Concrete

/-- **counterexample for the snapshot code** (1 output, 2 inputs, `D = 0`): it forms
`R = Ip*γ² − DᵀD` with the 1×1 `Ip = eye(len(D))`, which NumPy broadcasts to `γ²·ones(2,2)`; that
matrix is singular for every `γ`, so `la.inv(R)` raises `LinAlgError` … -/
theorem nonsquare_counterexample (γ : ℚ) :
    det ((Matrix.of fun (_ _ : Fin 2) => γ ^ 2) - (0 : Matrix (Fin 2) (Fin 2) ℚ)) = 0 := by
  simp [Matrix.det_fin_two]

/-- … whereas the correct `R = γ² I₂ − DᵀD` of the model is invertible for `γ ≠ 0`. -/
theorem nonsquare_model_ok (γ : ℚ) (hγ : γ ≠ 0) (A : Matrix (Fin 1) (Fin 1) ℚ)
    (B : Matrix (Fin 1) (Fin 2) ℚ) (C : Matrix (Fin 1) (Fin 1) ℚ) :
    det (Rmat (⟨A, B, C, 0⟩ : SS (Fin 1) (Fin 2) (Fin 1) ℚ) γ) ≠ 0 := by
  simp [Rmat, Matrix.det_fin_two, hγ]

/-- `1/(z − 1/2)` at `z = 1` and its inverse bilinear image at `s = 0`: both respond with `2`. -/
def Gd1 : SS (Fin 1) (Fin 1) (Fin 1) ℚ := ⟨!![1/2], !![1], !![1], !![0]⟩

example : (invBilinear Gd1 !![2/3]).Resp 0 !![2] := by
  refine inv_bilinear_resp Gd1 !![2/3] ?_ (by norm_num) 0 (by norm_num) ⟨!![2], ?_, ?_⟩
  · ext i j; fin_cases i; fin_cases j; simp [Gd1, Matrix.mul_apply]; norm_num
  · ext i j; fin_cases i; fin_cases j; simp [Gd1, Matrix.mul_apply]; norm_num
  · ext i j; fin_cases i; fin_cases j; simp [Gd1]

/-- `1/(s + 1)`, `γ = 2`, `s = 2`: the hypotheses of `hamiltonian_det` are satisfiable
(`G(2) = 1/3`, `G(−2) = −1`, `R = 4`). -/
def G1 : SS (Fin 1) (Fin 1) (Fin 1) ℚ := ⟨!![-1], !![1], !![1], !![0]⟩

example := hamiltonian_det G1 2 2 !![1/4]
  (by ext i j; fin_cases i; fin_cases j; simp [G1, Rmat, Matrix.mul_apply, Matrix.sub_apply, Matrix.smul_apply]; norm_num)
  (Y := !![1/3]) (Yn := !![-1])
  ⟨!![1/3], by ext i j; fin_cases i; fin_cases j; simp [G1, Matrix.mul_apply, Matrix.sub_apply, Matrix.smul_apply]; norm_num,
    by ext i j; fin_cases i; fin_cases j; simp [G1]⟩
  ⟨!![-1], by ext i j; fin_cases i; fin_cases j; simp [G1, Matrix.mul_apply, Matrix.sub_apply, Matrix.smul_apply]; norm_num,
    by ext i j; fin_cases i; fin_cases j; simp [G1]⟩
  (by simp [G1]; norm_num)

end Concrete

end CtrlVerif.C16
