/-
Source-text tie of C08, part 3c: `find_operating_point` (control/nlsys.py), the two short-cut
branches (no index lists given): the functions handed to `root` (`state_rhs` when `y0` is omitted,
the `np.split` root function otherwise; each defined twice, for discrete time with `- z` / `- x`).
`Generated/NLOpShort.lean` is rewritten from the source text on every run; the model's `rootfun` on
the index lists `opIndexing` returns for this case is proved EQUAL to it.
-/
import CtrlVerif.Generated.NLOpShort
import CtrlVerif.Lemmas.PyNLOp
import CtrlVerif.Props.C08
import Mathlib.Data.List.FinRange

namespace CtrlVerif.C08Gen

open CtrlVerif IOSys PyNL

variable {n m p : Nat}

theorem lookup_zip_getElem {α : Type} [DecidableEq α] : ∀ (l : List α) (z : List Q) (k : Nat)
    (h1 : k < l.length) (h2 : k < z.length), l.Nodup → (l.zip z).lookup l[k] = some z[k] := by
  intro l
  induction l with
  | nil => intro z k h1; simp at h1
  | cons a l ih =>
    intro z k h1 h2 hnd
    cases z with
    | nil => simp at h2
    | cons b z =>
      cases k with
      | zero => simp
      | succ k =>
        have ha : a ∉ l := (List.nodup_cons.mp hnd).1
        have hk : k < l.length := by simpa using h1
        have hne : l[k] ≠ a := fun h => ha (h ▸ List.getElem_mem hk)
        have : (l[k] == a) = false := by simpa using hne
        simp only [List.getElem_cons_succ, List.zip_cons_cons, List.lookup_cons, this]
        exact ih z k hk (by simpa using h2) (List.nodup_cons.mp hnd).2

/-- writing a full-length vector into ALL components gives that vector. -/
theorem scatter_finRange {k : Nat} (base : Fin k → Q) (z : List Q) (hz : z.length = k) :
    List.ofFn (scatter base (List.finRange k) z) = z := by
  apply List.ext_getElem
  · simp [hz]
  · intro i h1 h2
    have hi : i < k := by simpa using h1
    simp only [List.getElem_ofFn, scatter]
    have := lookup_zip_getElem (List.finRange k) z i (by simpa using hi) h2 (List.nodup_finRange k)
    simp only [List.getElem_finRange] at this
    have e : (Fin.cast (List.length_finRange) ⟨i, by simpa using hi⟩ : Fin k) = ⟨i, hi⟩ := rfl
    rw [e] at this
    rw [this]

theorem scatter_nil {k : Nat} (base : Fin k → Q) (z : List Q) : scatter base [] z = base := by
  funext i; simp [scatter]

/-- the index lists `opIndexing` returns when no list is given. -/
def shortIdx (n m p : Nat) (hasY0 : Bool) : OpIdx n m p :=
  if hasY0 then ⟨List.finRange n, List.finRange m, List.finRange n, List.finRange p⟩
  else ⟨List.finRange n, [], List.finRange n, []⟩

theorem opIndexing_short (n m p : Nat) (b : Bool) :
    opIndexing n m p none none none none b = .ok (shortIdx n m p b) := by
  cases b <;> rfl

/-- an omitted requested derivative is the zero vector. -/
theorem generated_opShort_default (rhs out : Q → List Q → List Q → Except Err (List Q)) (t : Q)
    (disc : Bool) (y0 : Option (List Q)) (n : Nat) (u0 z : List Q) :
    Generated.nlOpShort rhs out t disc y0 (n : Int) u0 none z
      = Generated.nlOpShort rhs out t disc y0 (n : Int) u0 (some (List.ofFn fun (_ : Fin n) => (0 : Q))) z := by
  unfold Generated.nlOpShort
  simp [PyNL.vzeros, List.ofFn_const]

/-- the short-cut root functions for a requested derivative `dxv`. -/
theorem generated_opShort_core (S : OpSpec n m p) (G : IOSys (Fin n) (Fin m) (Fin p) Q) (z : List Q)
    (dxv : Fin n → Q)
    (htarget : ∀ (x : Fin n → Q) i, S.target x i = dxv i + (if S.discrete then x i else 0))
    (hidx : S.idx = shortIdx n m p S.y0.isSome)
    (hz : z.length = n + (if S.y0.isSome then m else 0)) :
    Generated.nlOpShort (listFun G.f) (listFun G.h) S.t S.discrete (S.y0.map List.ofFn) (n : Int)
        (List.ofFn S.u0) (some (List.ofFn dxv)) z
      = S.rootfun G z := by
  unfold Generated.nlOpShort OpSpec.rootfun
  simp only []
  cases hy : S.y0 with
  | none =>
    simp only [hy, Option.isSome_none, Bool.false_eq_true, if_false, Nat.add_zero, shortIdx] at hidx hz
    have hx : List.ofFn (S.xOf z) = z := by
      unfold OpSpec.xOf
      rw [hidx, List.length_finRange, List.take_of_length_le (by omega)]
      exact scatter_finRange _ _ hz
    have hu : S.uOf z = S.u0 := by
      unfold OpSpec.uOf
      rw [hidx]
      exact scatter_nil _ _
    have hdv : S.idx.derivVars = List.finRange n := by rw [hidx]
    simp only [Option.map_none, hu, hdv, ← List.ofFn_eq_map]
    generalize S.xOf z = xz at hx ⊢
    subst hx
    simp only [listFun_ofFn, bind, Except.bind]
    cases hf : G.f S.t xz S.u0 with
    | error e => cases S.discrete <;> simp [Except.map]
    | ok fx =>
      cases hb : S.discrete with
      | true =>
        simp only [if_true, Except.map, vsub_ofFn, bind, Except.bind, pure, Except.pure]
        congr 2; funext i; rw [htarget]; simp only [hb, if_true]; ring
      | false =>
        simp only [Bool.false_eq_true, if_false, Except.map, vsub_ofFn, bind, Except.bind, pure, Except.pure]
        congr 2; funext i; rw [htarget]; simp [hb]
  | some y0 =>
    simp only [hy, Option.isSome_some, if_true, shortIdx] at hidx hz
    have hx : PyNL.sliceTo z (n : Int) = List.ofFn (S.xOf z) := by
      rw [sliceTo_natCast]
      unfold OpSpec.xOf
      rw [hidx, List.length_finRange]
      exact (scatter_finRange _ _ (by simp; omega)).symm
    have hu : PyNL.sliceFrom z (n : Int) = List.ofFn (S.uOf z) := by
      rw [sliceFrom_natCast]
      unfold OpSpec.uOf
      rw [hidx, List.length_finRange]
      exact (scatter_finRange _ _ (by simp; omega)).symm
    have hdv : S.idx.derivVars = List.finRange n := by rw [hidx]
    have hov : S.idx.outputVars = List.finRange p := by rw [hidx]
    simp only [Option.map_some, hx, hu, listFun_ofFn, bind, Except.bind, hdv, hov, ← List.ofFn_eq_map]
    cases hf : G.f S.t (S.xOf z) (S.uOf z) with
    | error e => cases S.discrete <;> simp [Except.map]
    | ok fx =>
      cases hh : G.h S.t (S.xOf z) (S.uOf z) with
      | error e => cases S.discrete <;> simp [Except.map, vsub_ofFn, bind, Except.bind]
      | ok y =>
        cases hb : S.discrete with
        | true =>
          simp only [if_true, Except.map, vsub_ofFn, bind, Except.bind, pure, Except.pure]
          congr 3; funext i; rw [htarget]; simp only [hb, if_true]; ring
        | false =>
          simp only [Bool.false_eq_true, if_false, Except.map, vsub_ofFn, bind, Except.bind, pure, Except.pure]
          congr 3; funext i; rw [htarget]; simp [hb]

/-- **generated_opShort_eq**: in the two short-cut branches of `find_operating_point` the function
handed to `root` — `state_rhs(z) = f(z, u0) - dxdes [- z]` when `y0` is omitted, the root function
`(f(x, u) - dxdes [- x], h(x, u) - y0)` with `x, u = np.split(z, [nstates])` otherwise, `- z` / `- x`
exactly for a system that is discrete-time in the strict sense — IS the model's `rootfun` on the
index lists the model uses for this case (`opIndexing_short`), for every system, every requested
derivative (also omitted: zeros) and every `z` of the right length. -/
theorem generated_opShort_eq (S : OpSpec n m p) (G : IOSys (Fin n) (Fin m) (Fin p) Q) (z : List Q)
    (hidx : S.idx = shortIdx n m p S.y0.isSome)
    (hz : z.length = n + (if S.y0.isSome then m else 0)) :
    Generated.nlOpShort (listFun G.f) (listFun G.h) S.t S.discrete (S.y0.map List.ofFn) (n : Int)
        (List.ofFn S.u0) (S.dx0.map List.ofFn) z
      = S.rootfun G z := by
  cases hdx : S.dx0 with
  | none =>
    rw [Option.map_none, generated_opShort_default]
    exact generated_opShort_core S G z (fun _ => 0)
      (fun x i => by simp [OpSpec.target, hdx]) hidx hz
  | some d =>
    rw [Option.map_some]
    exact generated_opShort_core S G z d (fun x i => by simp [OpSpec.target, hdx]) hidx hz

/-- non-vacuity: `x⁺ = x + u - 1`, `u0 = 1`, discrete time, `y0` omitted: every state is a fixed
point; continuous time: the residual is `f`. -/
example : Generated.nlOpShort (K := ℚ) (fun _ x u => .ok [x.headD 0 + u.headD 0 - 1]) (fun _ x _ => .ok x)
    0 true none 1 [1] none [7] = .ok [0] := by decide +kernel
example : Generated.nlOpShort (K := ℚ) (fun _ x u => .ok [x.headD 0 + u.headD 0 - 1]) (fun _ x _ => .ok x)
    0 false none 1 [1] (some [2]) [7] = .ok [5] := by decide +kernel
/-- `y0 = 3` given: `z = (x, u)`; residuals `f - x` and `h - y0`. -/
example : Generated.nlOpShort (K := ℚ) (fun _ x u => .ok [x.headD 0 + u.headD 0 - 1]) (fun _ x _ => .ok x)
    0 true (some [3]) 1 [1] none [7, 4] = .ok [3, 4] := by decide +kernel

end CtrlVerif.C08Gen
