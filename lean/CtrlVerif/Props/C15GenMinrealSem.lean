/-
Semantic theorems of `TransferFunction.minreal` transported to the function the source text
defines (C15): through `generated_entryBody_eq` the statements of `Props/C15.lean` about the model
`minrealEntry` hold of `Generated.Minreal.entryBody`.
-/
import CtrlVerif.Props.C15GenMinreal
import CtrlVerif.Props.C15

namespace CtrlVerif.C15GenMinreal

open PyMin Generated.Minreal

variable {K R : Type} [Field K] [DecidableEq K] [Field R] [LinearOrder R] [DecidableEq R]

/-- **The per-entry body of the source text keeps the rational function** — whenever `roots`
returned the roots (contract of `numpy.roots`: the polynomial is its leading coefficient times
`∏ (X - r)`) and the tolerance test of the source text identifies only equal roots among them (the
computable check the driver certifies on every call): the stored coefficient arrays, after the
constructor's normalisation, are well-formed and denote `num / den`. -/
theorem generated_entryBody_sem (X : Ext K R) (tol : Option R) (sqrt_eps : R)
    (hreal : ∀ l, X.real l = l) (f : Frac K)
    (n0 d0 : K) (nt dt : List K) (hn : f.num = n0 :: nt) (hd : f.den = d0 :: dt) (hd0 : d0 ≠ 0)
    (hzeros : toPoly f.num = Polynomial.C n0 * prodRoots (X.roots f.num))
    (hpoles : toPoly f.den = Polynomial.C d0 * prodRoots (X.roots f.den))
    (hsep : rootsSeparated (closeOf X tol sqrt_eps) (X.roots f.num) (X.roots f.den) = true) :
    ∃ g, (entryBody X tol sqrt_eps f.num f.den >>= fun nd => pure (Frac.norm ⟨nd.1, nd.2⟩)) = .ok g
      ∧ g.WF ∧ g.sem = f.sem := by
  rw [generated_entryBody_eq X tol sqrt_eps hreal f]
  exact C15.minreal_sem_certified (closeOf X tol sqrt_eps) f (X.roots f.num) (X.roots f.den)
    n0 d0 nt dt hn hd hd0 hzeros hpoles hsep

/-- whatever the tolerance test does, the loop of the source text removes as many poles as zeros
(the relative degree is unchanged). -/
theorem generated_zLoop_relative_degree (X : Ext K R) (tol : Option R) (sqrt_eps : R)
    (zs ps nz ps' : List K) (h : zLoop X tol sqrt_eps zs ([], ps) = .ok (nz, ps')) :
    nz.length + ps.length = ps'.length + zs.length := by
  rw [generated_zLoop_eq] at h
  simp only [List.nil_append, Except.ok.injEq, Prod.mk.injEq] at h
  obtain ⟨rfl, rfl⟩ := h
  exact (C15.minreal_only_cancels (closeOf X tol sqrt_eps) zs ps).2.2

end CtrlVerif.C15GenMinreal
