/-
Source-text tie of C08, part 1a: the input function `ufun` of `input_output_response`
(control/nlsys.py).  `Generated/NLUfun.lean` is rewritten from the source text of the tree under
check on every run (harness/core/py2lean_nl.py); the model `IOSys.ufun` is proved EQUAL to it.
-/
import CtrlVerif.Generated.NLUfun
import CtrlVerif.Lemmas.PyNL
import CtrlVerif.Props.C08

namespace CtrlVerif.C08Gen

open CtrlVerif IOSys PyNL

variable {K : Type} [Field K] [LinearOrder K]

/-- the clipped index of the source text (Python ints) is the model's clipped index. -/
theorem generated_clip_eq (s L : Nat) (hL : 1 ≤ L) :
    PyNL.clip (s : Int) 1 ((L : Int) - 1) = ((clipIdx s 1 (L - 1) : Nat) : Int) := by
  unfold PyNL.clip clipIdx
  omega

/-- **generated_ufun_eq**: the function the source text of `ufun` defines IS the model's `ufun`, for
every time vector (any length, sorted or not), every input array with one column per time point,
every number of inputs and every `t` — including the inputs both reject (no time point: index
error; one time point or two equal neighbours: division by zero). -/
theorem generated_ufun_eq {m : Nat} (T : List K) (U : List (Fin m → K)) (hU : U.length = T.length)
    (t : K) :
    Generated.nlUfun T (U.map List.ofFn) t = (IOSys.ufun T U t).map List.ofFn := by
  unfold Generated.nlUfun IOSys.ufun
  have hs : PyNL.searchsortedLeft T t = ((searchLeft T t : Nat) : Int) := rfl
  rw [hs]
  rcases Nat.lt_or_ge T.length 2 with hL | hL
  · -- fewer than two time points
    match T, U, hU, hL with
    | [], [], _, _ =>
      simp [PyNL.clip, clipIdx, searchLeft, PyArith.getItem, PyArith.normIdx, bind, Except.bind, Except.map]
    | [a], [u], _, _ =>
      have hc : PyNL.clip ((searchLeft [a] t : Nat) : Int) 1 ((([a] : List K).length : Int) - 1) = 0 := by
        simp only [PyNL.clip, List.length_singleton]; omega
      have hc' : clipIdx (searchLeft [a] t) 1 (([a] : List K).length - 1) = 0 := by
        simp only [clipIdx, List.length_singleton]; omega
      rw [hc, hc']
      simp [PyArith.getItem, PyArith.normIdx, PyArith.div, bind, Except.bind, Except.map]
  · -- the regular case
    have h1 : 1 ≤ T.length := by omega
    rw [generated_clip_eq _ _ h1]
    generalize hi : clipIdx (searchLeft T t) 1 (T.length - 1) = i
    have hi1 : 1 ≤ i := by rw [← hi]; unfold clipIdx; omega
    have hi2 : i < T.length := by rw [← hi]; unfold clipIdx; omega
    have hcast : ((i : Nat) : Int) - 1 = ((i - 1 : Nat) : Int) := by omega
    have hU1 : i - 1 < (U.map (List.ofFn (n := m))).length := by simp; omega
    have hU2 : i < (U.map (List.ofFn (n := m))).length := by simp; omega
    have hT1 : i - 1 < T.length := by omega
    simp only []
    rw [hcast]
    simp only [getItem_lt _ _ hT1, getItem_lt _ _ hi2, getItem_lt _ _ hU1, getItem_lt _ _ hU2,
      bind, Except.bind, PyArith.div]
    have e1 : T[i - 1]? = some T[i - 1] := List.getElem?_eq_getElem hT1
    have e2 : T[i]? = some T[i] := List.getElem?_eq_getElem hi2
    have e3 : U[i - 1]? = some (U[i - 1]'(by omega)) := List.getElem?_eq_getElem (by omega)
    have e4 : U[i]? = some (U[i]'(by omega)) := List.getElem?_eq_getElem (by omega)
    rw [e1, e2, e3, e4]
    dsimp only
    by_cases hz : T[i] - T[i - 1] = 0
    · simp [hz, Except.map]
    · simp only [hz, if_false, List.getElem_map, vadd_vscale_ofFn, pure, Except.pure, Except.map]

/-- transported **ufun_grid**: on a strictly increasing grid the function of the source text returns
the stored column at every grid point. -/
theorem generated_ufun_grid {m : Nat} (T : List K) (U : List (Fin m → K))
    (hT : T.Pairwise (· < ·)) (h2 : 2 ≤ T.length) (hU : U.length = T.length) (k : Nat)
    (hk : k < T.length) :
    Generated.nlUfun T (U.map List.ofFn) T[k] = .ok (List.ofFn (U[k]'(hU ▸ hk))) := by
  rw [generated_ufun_eq T U hU, C08.ufun_grid T U hT h2 hU k hk]
  rfl

/-- non-vacuity: the grid `0, 2, 4` with samples `1, 5, -3`: half way and at a grid point. -/
example : Generated.nlUfun [(0 : ℚ), 2, 4] [[1], [5], [-3]] 1 = .ok [3] := by decide +kernel
example : Generated.nlUfun [(0 : ℚ), 2, 4] [[1], [5], [-3]] 2 = .ok [5] := by decide +kernel
/-- one time point: division by zero, as in the model. -/
example : Generated.nlUfun [(0 : ℚ)] [[1]] 1 = .error .zeroDen := by decide +kernel

end CtrlVerif.C08Gen
