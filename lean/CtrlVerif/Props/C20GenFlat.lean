/-
Source-text tie of C20 (tag py2lean-flat): the headline theorems of the property transported to the
functions `harness/core/py2lean_flat.py` regenerates from the source text of control/flatsys/linflat.py,
flatsys.py, basis.py, systraj.py on every run (`Generated/Flat*.lean`).  The equality theorems
(`generated_<function>_eq`) are in `Props/C20GenFlatInit.lean` (`LinearFlatSystem.__init__`),
`C20GenFlatMaps.lean` (`forward`, `reverse`), `C20GenFlatMat.lean` (`var_ncoefs`, `_basis_flag_matrix`),
`C20GenFlatP2P.lean` (the boundary-condition statements of `point_to_point`, `lstsq` a parameter) and
`C20GenFlatEval.lean` (`SystemTrajectory.eval`).  Here: whatever the constructor DEFINED BY THE SOURCE TEXT
returns has mutually inverse flat maps (`flat_inverse_code` transported), the trajectory the generated
`point_to_point` statements build meets both end points when evaluated by the generated
`SystemTrajectory.eval` (`point_to_point_endpoints_code` transported), and over ℝ it satisfies the
dynamics (`feasible_code` transported).
-/
import CtrlVerif.Props.C20GenFlatInit
import CtrlVerif.Props.C20GenFlatEval

namespace CtrlVerif.C20GenFlat

open Matrix CtrlVerif PyFlat

variable {K : Type} [Field K] [DecidableEq K]

/-- **what a successful `LinearFlatSystem(linsys)` of the source text returns**: `linsys` is SISO with at
least one state, and the object is the Python form of a structure `L` that satisfies the
chain-of-integrators equations (`Valid`) for the pair `(A, b)` of `linsys` — no run-time check involved. -/
theorem generated_init_ok [CharZero K] {G : DSS K} (hv : G.dt.valid) {P : PyLinFlat K}
    (h : Generated.linflatInit G = .ok P) :
    ∃ (hp : G.p = 1) (hm : G.m = 1) (L : LinFlat G.n K), 0 < G.n ∧ L.Valid
      ∧ L.A = (G.sys.castIO hp hm).A ∧ L.b = (fun i => (G.sys.castIO hp hm).B i 0)
      ∧ P = L.toPy (G.sys.castIO hp hm).C (G.sys.castIO hp hm).D G.dt := by
  have he := generated_init_eq G hv
  rw [h] at he
  simp only [Except.mapError, initModel] at he
  split at he
  · exact absurd he (by simp)
  · split at he
    · rename_i hs
      cases hc : LinFlat.construct (G.sys.castIO hs.1 hs.2).A (fun i => (G.sys.castIO hs.1 hs.2).B i 0) with
      | error e => rw [hc] at he; exact absurd he (by simp [Except.map])
      | ok L =>
        rw [hc] at he
        obtain ⟨hval, hn, hA, hb⟩ := C20.construct_valid hc
        exact ⟨hs.1, hs.2, L, hn, hval, hA, hb, Except.ok.inj he⟩
    · exact absurd he (by simp)

/-- **`flat_inverse_code` for the functions the source text defines**: whenever the generated constructor
returns an object `P`, the generated `forward` returns a flag for every state `x` and input `u`, the
generated `reverse` maps that flag back to `(x, u)`, and `forward` after `reverse` gives back every flag
with `n + 1` entries. -/
theorem generated_flat_inverse [CharZero K] {G : DSS K} (hv : G.dt.valid) {P : PyLinFlat K}
    (h : Generated.linflatInit G = .ok P) :
    (∀ (x : Fin G.n → K) (u : K), ∃ zf, Generated.linflatForward P (List.ofFn x) [u] = .ok zf
        ∧ Generated.linflatReverse P zf = .ok (List.ofFn x, [u]))
    ∧ (∀ z : Fin (G.n + 1) → K, ∃ xs us, Generated.linflatReverse P [List.ofFn z] = .ok (xs, us)
        ∧ Generated.linflatForward P xs us = .ok [List.ofFn z]) := by
  obtain ⟨hp, hm, L, hn, hval, -, -, rfl⟩ := generated_init_ok hv h
  constructor
  · intro x u
    refine ⟨_, generated_forward_eq L _ _ _ x u, ?_⟩
    rw [generated_reverse_eq, C20.flat_inverse_left L hval hn]
  · intro z
    refine ⟨_, _, generated_reverse_eq L _ _ _ z [], ?_⟩
    rw [generated_forward_eq, C20.flat_inverse_right L hval hn]

section ordered

variable [LinearOrder K] [IsStrictOrderedRing K]

/-- **`point_to_point_endpoints_code` for the functions the source text defines**: for an object `P` returned
by the generated constructor, a polynomial or Bezier basis with `T ≠ 0` and at least `2(n+1)` functions,
`T0 ≠ Tf`, `lstsq` under its minimum-norm contract, and any boundary data, the generated boundary-condition
statements of `point_to_point` return a trajectory object, and the generated `SystemTrajectory.eval` of it
at `[T0, Tf]` returns exactly `(x0, u0)` in the first and `(xf, uf)` in the second column. -/
theorem generated_point_to_point_endpoints {G : DSS K} (hv : G.dt.valid) {P : PyLinFlat K}
    (h : Generated.linflatInit G = .ok P) (lstsq : LstsqFn K) (hl : LstsqMinNorm lstsq) (bs : Basis K)
    (hT : bs.T ≠ 0) (hN : 2 * (G.n + 1) ≤ bs.N) (T0 Tf : K) (h0f : T0 ≠ Tf)
    (x0 : Fin G.n → K) (u0 : K) (xf : Fin G.n → K) (uf : K) :
    ∃ traj, Generated.pointToPointBlock lstsq G.n 1 (Generated.linflatForward P) bs
        (List.ofFn x0) [u0] (List.ofFn xf) [uf] T0 Tf = .ok traj
      ∧ Generated.systrajEval (Generated.linflatReverse P) traj [T0, Tf]
        = .ok (⟨G.n, 2, Matrix.of fun i j => if j.val = 0 then x0 i else xf i⟩,
            ⟨1, 2, Matrix.of fun _ j => if j.val = 0 then u0 else uf⟩) := by
  obtain ⟨hp, hm, L, hn, hval, -, -, rfl⟩ := generated_init_ok hv h
  obtain ⟨hb, hsol⟩ := generated_p2p_eq lstsq hl L _ _ G.dt bs hT hN T0 Tf h0f x0 u0 xf uf
  obtain ⟨e0, ef⟩ := C20.endpoints_of_solution L hval hn bs _ T0 Tf x0 u0 xf uf hsol
  refine ⟨_, hb, ?_⟩
  rw [generated_trajEval_eq L _ _ G.dt bs hT]
  show Except.ok ((⟨G.n, 2, _⟩ : PMat K), (⟨1, 2, _⟩ : PMat K)) = _
  congr 3
  · funext i j
    refine Fin.cases ?_ (fun j' => ?_) j
    · simp [e0]
    · have hj : j' = ⟨0, Nat.zero_lt_one⟩ := by
        apply Fin.ext
        have h1 : j'.val < 1 := j'.isLt
        show j'.val = 0
        omega
      subst hj
      simp [ef]
  · funext i j
    refine Fin.cases ?_ (fun j' => ?_) j
    · simp [e0]
    · have hj : j' = ⟨0, Nat.zero_lt_one⟩ := by
        apply Fin.ext
        have h1 : j'.val < 1 := j'.isLt
        show j'.val = 0
        omega
      subst hj
      simp [ef]

end ordered

/-- **`feasible_code` for the functions the source text defines** (over ℝ): for an object `P` returned by the
generated constructor, every basis with `T ≠ 0` and EVERY coefficient vector, the generated
`SystemTrajectory.eval` returns at each time `s` a state `x(s)` and an input `u(s)`, and
`d/dt x(t) = A x(t) + b u(t)` at every `t`, with `A`, `b` the matrices of the `StateSpace` object the
constructor was called with. -/
theorem generated_feasible {G : DSS ℝ} (hv : G.dt.valid) {P : PyLinFlat ℝ}
    (h : Generated.linflatInit G = .ok P) (bs : Basis ℝ) (hT : bs.T ≠ 0) (α : Fin bs.N → ℝ) :
    ∃ (hp : G.p = 1) (hm : G.m = 1) (x : ℝ → Fin G.n → ℝ) (u : ℝ → ℝ),
      (∀ s, Generated.systrajEval (Generated.linflatReverse P) (trajOf G.n bs α) [s]
        = .ok (⟨G.n, 1, Matrix.of fun i _ => x s i⟩, ⟨1, 1, Matrix.of fun _ _ => u s⟩))
      ∧ ∀ t i, HasDerivAt (fun s => x s i)
          (((G.sys.castIO hp hm).A *ᵥ x t + u t • fun l => (G.sys.castIO hp hm).B l 0) i) t := by
  obtain ⟨hp, hm, L, hn, hval, hA, hb, rfl⟩ := generated_init_ok hv h
  refine ⟨hp, hm, fun s => (trajEval L bs α s).1, fun s => (trajEval L bs α s).2, fun s => ?_, fun t i => ?_⟩
  · rw [generated_trajEval_eq L _ _ G.dt bs hT]
    have hg : ∀ j : Fin [s].length, [s].get j = s := fun j =>
      match j with
      | ⟨0, _⟩ => rfl
    show Except.ok ((⟨G.n, 1, _⟩ : PMat ℝ), (⟨1, 1, _⟩ : PMat ℝ)) = _
    congr 3
    · funext i j
      simp only [Matrix.of_apply, hg]
    · funext i j
      simp only [Matrix.of_apply, hg]
  · have := C20.feasible L hval hn bs hT α t i
    rwa [hA, hb] at this

/-! non-vacuity: the third-order chain `G3` (ℚ) and the same system over ℝ -/

/-- the hypotheses of `generated_flat_inverse` and `generated_point_to_point_endpoints` are satisfiable: the
generated constructor returns on `G3`, the contract of `lstsq` is inhabited, eight monomials on `[0, 2]`. -/
example : ∃ P, Generated.linflatInit G3 = .ok P
    ∧ (∀ (x : Fin 3 → ℚ) (u : ℚ), ∃ zf, Generated.linflatForward P (List.ofFn x) [u] = .ok zf
        ∧ Generated.linflatReverse P zf = .ok (List.ofFn x, [u])) := by
  obtain ⟨P, h⟩ := G3_returns
  exact ⟨P, h, (generated_flat_inverse (G := G3) trivial h).1⟩

example : ∃ (P : PyLinFlat ℚ) (lstsq : LstsqFn ℚ) (traj : PyTraj ℚ), Generated.linflatInit G3 = .ok P
    ∧ Generated.pointToPointBlock lstsq 3 1 (Generated.linflatForward P) (.poly 8 2)
        (List.ofFn ![1, 0, -1]) [1] (List.ofFn ![0, 2, 0]) [0] 0 2 = .ok traj
    ∧ Generated.systrajEval (Generated.linflatReverse P) traj [0, 2]
        = .ok (⟨3, 2, Matrix.of fun i j => if j.val = 0 then ![1, 0, -1] i else ![0, 2, 0] i⟩,
            ⟨1, 2, Matrix.of fun _ j => if j.val = 0 then 1 else 0⟩) := by
  obtain ⟨P, h⟩ := G3_returns
  obtain ⟨lstsq, hl⟩ := lstsqMinNorm_nonvacuous (K := ℚ)
  obtain ⟨traj, h1, h2⟩ := generated_point_to_point_endpoints (G := G3) trivial h lstsq hl (.poly 8 2)
    (by decide +kernel) (by decide) 0 2 (by decide +kernel) ![1, 0, -1] 1 ![0, 2, 0] 0
  exact ⟨P, lstsq, traj, h, h1, h2⟩

/-- the same chain over ℝ: the generated constructor returns, so `generated_feasible` applies. -/
noncomputable def G3R : DSS ℝ := ⟨3, 1, 1, ⟨C20Cert.A3R, colMat C20Cert.b3R, !![1, 0, 0], !![0]⟩, .cont⟩

example : ∃ P, Generated.linflatInit G3R = .ok P := by
  refine (generated_init_ok_iff G3R trivial).mpr ⟨rfl, ⟨rfl, rfl⟩, by decide, ?_⟩
  show (ctrb C20Cert.A3R C20Cert.b3R).det ≠ 0
  have : (ctrb C20Cert.A3R C20Cert.b3R).det = -8 := by
    simp [ctrb, C20Cert.A3R, C20Cert.b3R, Matrix.det_fin_three, pow_succ, Matrix.mulVec, dotProduct,
      Fin.sum_univ_three, Matrix.mul_apply]
    norm_num
  rw [this]
  norm_num

end CtrlVerif.C20GenFlat
