/-
Source-text tie for the argument plumbing of C10, part 2 (DESIGN §2.5 / §10.3,
notes/NOTES-py2lean-mateqn.md): the headline theorems of the property, TRANSPORTED to the functions
the source text of control/mateqn.py defines.

`Props/C10GenLyap.lean`, `C10GenCare.lean`, `C10GenDare.lean` prove `Generated.lyap = lyapD`,
`Generated.dlyap = dlyapD`, `Generated.care = careD`, `Generated.dare = dareD` (run-time shaped model,
validation included).  Here
* the run-time model is connected to the typed functions the theorems of `Props/C10.lean` /
  `Props/C10Stable.lean` are about (`sylvD_typed`, `dlyapD_typed`, `careD_typed`, `dareD_typed` — the
  bridges `Props/C10.lean` had only for `lyap`), hence `generated_*_typed`: on correctly shaped arrays
  with weights that pass the symmetry test the generated function IS the typed `lyap` / `sylv` /
  `dlyap` / `care` / `dare` applied to the solver of that size, and the eigenvalue routine applied to
  the closed-loop pencil the model records;
* `lyap_residual`, `sylvester_residual`, `dlyap_residual`, `care_residual`, `care_gain`,
  `care_closed_loop_pencil`, `care_raises_iff`, `care_stable` and the `dare` counterparts are restated
  for what the generated functions return.
-/
import CtrlVerif.Props.C10GenLyap
import CtrlVerif.Props.C10GenDare
import CtrlVerif.Props.C10Stable

namespace CtrlVerif.C10Gen

open CtrlVerif MatEqn PyMeq Matrix

section bridges

variable {K : Type} [Field K] [LinearOrder K]

/-- an optional typed array as an optional run-time array. -/
def optD {p q : Nat} (M : Option (Matrix (Fin p) (Fin q) K)) (tol : Option K) : Option (DMat K) :=
  M.map fun M => DMat.of M tol

/-- on well-shaped data the run-time `lyap(A, Q, C)` is the typed Sylvester call. -/
theorem sylvD_typed (Sv : Solvers K) {n m : Nat} (A : Matrix (Fin n) (Fin n) K) (Q : Matrix (Fin m) (Fin m) K)
    (C : Matrix (Fin n) (Fin m) K) (tA tQ tC : Option K) :
    lyapD Sv (DMat.of A tA) (DMat.of Q tQ) (some (DMat.of C tC)) none
      = .ok (DMat.of (sylv (Sv.sylv n m) A Q C) none) := by
  have hA' : checkShape (DMat.of A tA) (DMat.of A tA).p (DMat.of A tA).p true false = .ok A :=
    checkShape_of' A tA true false (fun _ => rfl) (by simp)
  have hQ' : checkShape (DMat.of Q tQ) (DMat.of Q tQ).p (DMat.of Q tQ).p true false = .ok Q :=
    checkShape_of' Q tQ true false (fun _ => rfl) (by simp)
  have hC' : checkShape (DMat.of C tC) (DMat.of A tA).p (DMat.of Q tQ).p false false = .ok C :=
    checkShape_of' C tC false false (by simp) (by simp)
  simp only [lyapD, lyapPlan, hA', hQ', hC', bind, Except.bind, pure, Except.pure]
  rfl

/-- on well-shaped data with symmetric `Q` the run-time `dlyap` is the typed one. -/
theorem dlyapD_typed (Sv : Solvers K) {n : Nat} (A Q : Matrix (Fin n) (Fin n) K) (tA tQ : Option K)
    (hQ : isSymD (DMat.of Q tQ) = .ok true) :
    dlyapD Sv (DMat.of A tA) (DMat.of Q tQ) none none
      = .ok (DMat.of (dlyap (Sv.dlyap n) A Q) none) := by
  have hA' : checkShape (DMat.of A tA) (DMat.of A tA).p (DMat.of A tA).p true false = .ok A :=
    checkShape_of' A tA true false (fun _ => rfl) (by simp)
  have hQ' : checkShape (DMat.of Q tQ) (DMat.of A tA).p (DMat.of A tA).p true true = .ok Q :=
    checkShape_of' Q tQ true true (fun _ => rfl) (fun _ => hQ)
  simp only [dlyapD, dlyapPlan, hA', hQ', bind, Except.bind, pure, Except.pure]
  rfl

/-- `C10.lyapD_typed` without the ordered-ring instance of its section. -/
theorem lyapD_typed_plain (Sv : Solvers K) {n : Nat} (A Q : Matrix (Fin n) (Fin n) K) (tA tQ : Option K)
    (hQ : isSymD (DMat.of Q tQ) = .ok true) :
    lyapD Sv (DMat.of A tA) (DMat.of Q tQ) none none
      = .ok (DMat.of (lyap (Sv.clyap n) A Q) none) := by
  have hA' : checkShape (DMat.of A tA) (DMat.of A tA).p (DMat.of A tA).p true false = .ok A :=
    checkShape_of' A tA true false (fun _ => rfl) (by simp)
  have hQ' : checkShape (DMat.of Q tQ) (DMat.of A tA).p (DMat.of A tA).p true true = .ok Q :=
    checkShape_of' Q tQ true true (fun _ => rfl) (fun _ => hQ)
  simp only [lyapD, lyapPlan, hA', hQ', bind, Except.bind, pure, Except.pure]
  rfl

variable [DecidableEq K]

/-- on well-shaped data with `Q`, `R` passing the symmetry test, `stabilizing=True`: the run-time
`care` is the typed one (both branches, every combination of `S` / `E`). -/
theorem careD_typed (Sv : Solvers K) (eps : K) {n m : Nat} (A : Matrix (Fin n) (Fin n) K)
    (B : Matrix (Fin n) (Fin m) K) (Q : Matrix (Fin n) (Fin n) K) (R : Matrix (Fin m) (Fin m) K)
    (S : Option (Matrix (Fin n) (Fin m) K)) (E : Option (Matrix (Fin n) (Fin n) K))
    (tA tB tQ tR tS tE : Option K)
    (hQ : isSymD (DMat.of Q tQ) = .ok true) (hR : isSymD (DMat.of R tR) = .ok true) :
    careD Sv eps true (DMat.of A tA) (DMat.of B tB) (DMat.of Q tQ) (some (DMat.of R tR)) (optD S tS) (optD E tE)
      = (care (Sv.care n m) A B Q R S E).map fun r => ⟨n, m, r⟩ := by
  have hA' : checkShape (DMat.of A tA) (DMat.of A tA).p (DMat.of A tA).p true false = .ok A :=
    checkShape_of' A tA true false (fun _ => rfl) (by simp)
  have hB' : checkShape (DMat.of B tB) (DMat.of A tA).p (DMat.of B tB).q false false = .ok B :=
    checkShape_of' B tB false false (by simp) (by simp)
  have hQ' : checkShape (DMat.of Q tQ) (DMat.of A tA).p (DMat.of A tA).p true true = .ok Q :=
    checkShape_of' Q tQ true true (fun _ => rfl) (fun _ => hQ)
  have hR' : checkShape (DMat.of R tR) (DMat.of B tB).q (DMat.of B tB).q true true = .ok R :=
    checkShape_of' R tR true true (fun _ => rfl) (fun _ => hR)
  have hE' : ∀ E : Matrix (Fin n) (Fin n) K,
      checkShape (DMat.of E tE) (DMat.of A tA).p (DMat.of A tA).p true false = .ok E :=
    fun E => checkShape_of' E tE true false (fun _ => rfl) (by simp)
  have hS' : ∀ S : Matrix (Fin n) (Fin m) K,
      checkShape (DMat.of S tS) (DMat.of A tA).p (DMat.of B tB).q false false = .ok S :=
    fun S => checkShape_of' S tS false false (by simp) (by simp)
  unfold careD carePlan
  cases S <;> cases E <;>
    simp only [optD, Option.map_none, Option.map_some, rOf, hA', hB', hQ', hR', hE', hS', pure_bind,
      bind_assoc, Bool.not_true, Bool.false_eq_true, if_false, map_eq_bind] <;> rfl

/-- the same for `dare`. -/
theorem dareD_typed (Sv : Solvers K) (eps : K) {n m : Nat} (A : Matrix (Fin n) (Fin n) K)
    (B : Matrix (Fin n) (Fin m) K) (Q : Matrix (Fin n) (Fin n) K) (R : Matrix (Fin m) (Fin m) K)
    (S : Option (Matrix (Fin n) (Fin m) K)) (E : Option (Matrix (Fin n) (Fin n) K))
    (tA tB tQ tR tS tE : Option K)
    (hQ : isSymD (DMat.of Q tQ) = .ok true) (hR : isSymD (DMat.of R tR) = .ok true) :
    dareD Sv eps true (DMat.of A tA) (DMat.of B tB) (DMat.of Q tQ) (some (DMat.of R tR)) (optD S tS) (optD E tE)
      = (dare (Sv.dare n m) A B Q R S E).map fun r => ⟨n, m, r⟩ := by
  have hA' : checkShape (DMat.of A tA) (DMat.of A tA).p (DMat.of A tA).p true false = .ok A :=
    checkShape_of' A tA true false (fun _ => rfl) (by simp)
  have hB' : checkShape (DMat.of B tB) (DMat.of A tA).p (DMat.of B tB).q false false = .ok B :=
    checkShape_of' B tB false false (by simp) (by simp)
  have hQ' : checkShape (DMat.of Q tQ) (DMat.of A tA).p (DMat.of A tA).p true true = .ok Q :=
    checkShape_of' Q tQ true true (fun _ => rfl) (fun _ => hQ)
  have hR' : checkShape (DMat.of R tR) (DMat.of B tB).q (DMat.of B tB).q true true = .ok R :=
    checkShape_of' R tR true true (fun _ => rfl) (fun _ => hR)
  have hE' : ∀ E : Matrix (Fin n) (Fin n) K,
      checkShape (DMat.of E tE) (DMat.of A tA).p (DMat.of A tA).p true false = .ok E :=
    fun E => checkShape_of' E tE true false (fun _ => rfl) (by simp)
  have hS' : ∀ S : Matrix (Fin n) (Fin m) K,
      checkShape (DMat.of S tS) (DMat.of A tA).p (DMat.of B tB).q false false = .ok S :=
    fun S => checkShape_of' S tS false false (by simp) (by simp)
  unfold dareD darePlan
  cases S <;> cases E <;>
    simp only [optD, Option.map_none, Option.map_some, rOf, hA', hB', hQ', hR', hE', hS', pure_bind,
      bind_assoc, Bool.not_true, Bool.false_eq_true, if_false, map_eq_bind] <;> rfl

end bridges

/-! ## the generated functions on typed data -/

section typed

variable {K : Type} [Field K] [LinearOrder K]

/-- `lyap(A, Q)` as written in the source, on `n × n` arrays (`n ≥ 1`) with `Q` passing the symmetry
test: the SciPy solver of that size applied to `(A, -Q)`. -/
theorem generated_lyap_typed (Sv : Solvers K) {n : Nat} (hn : 0 < n) (A Q : Matrix (Fin n) (Fin n) K)
    (tA tQ : Option K) (hQ : isSymD (DMat.of Q tQ) = .ok true) (method : Method)
    (hm : method = .none ∨ method = .scipy) :
    Generated.lyap Sv (DMat.of A tA) (DMat.of Q tQ) none none method
      = .ok ⟨n, n, lyap (Sv.clyap n) A Q⟩ := by
  rw [generated_lyap_eq Sv _ _ none none method hm (fun _ h => by simp [DMat.of] at h; omega),
    lyapD_typed_plain Sv A Q tA tQ hQ]
  rfl

/-- `lyap(A, Q, C)` as written in the source, on well-shaped arrays: the Sylvester solver applied to
`(A, Q, -C)`. -/
theorem generated_sylv_typed (Sv : Solvers K) {n m : Nat} (A : Matrix (Fin n) (Fin n) K)
    (Q : Matrix (Fin m) (Fin m) K) (C : Matrix (Fin n) (Fin m) K) (tA tQ tC : Option K) (method : Method)
    (hm : method = .none ∨ method = .scipy) :
    Generated.lyap Sv (DMat.of A tA) (DMat.of Q tQ) (some (DMat.of C tC)) none method
      = .ok ⟨n, m, sylv (Sv.sylv n m) A Q C⟩ := by
  rw [generated_lyap_eq Sv _ _ _ none method hm (fun h => by cases h), sylvD_typed Sv A Q C tA tQ tC]
  rfl

/-- `dlyap(A, Q)` as written in the source: the discrete solver applied to `(A, Q)`. -/
theorem generated_dlyap_typed (Sv : Solvers K) {n : Nat} (hn : 0 < n) (A Q : Matrix (Fin n) (Fin n) K)
    (tA tQ : Option K) (hQ : isSymD (DMat.of Q tQ) = .ok true) (method : Method)
    (hm : method = .none ∨ method = .scipy) :
    Generated.dlyap Sv (DMat.of A tA) (DMat.of Q tQ) none none method
      = .ok ⟨n, n, dlyap (Sv.dlyap n) A Q⟩ := by
  rw [generated_dlyap_eq Sv _ _ none none method hm (fun _ h => by simp [DMat.of] at h; omega),
    dlyapD_typed Sv A Q tA tQ hQ]
  rfl

variable [DecidableEq K]

/-- what the typed `care` / `dare` return, as Python sees it. -/
def resPy {L : Type} (ev : EigFun K L) {n m : Nat} (r : AreResult (Fin n) (Fin m) K) : PMat K × L × PMat K :=
  (⟨n, n, r.X⟩, ev n r.Acl r.Ecl, ⟨m, n, r.G⟩)

/-- **`care` as written in the source, on typed data** (`n, m ≥ 1`, `Q`, `R` passing the symmetry test,
`stabilizing=True`): the typed model `care` with the SciPy solver of that size; the eigenvalues are
those of the pencil the model records. -/
theorem generated_care_typed {L : Type} (Sv : Solvers K) (ev : EigFun K L) (eps : K) {n m : Nat}
    (hn : 0 < n) (hm' : 0 < m) (A : Matrix (Fin n) (Fin n) K) (B : Matrix (Fin n) (Fin m) K)
    (Q : Matrix (Fin n) (Fin n) K) (R : Matrix (Fin m) (Fin m) K)
    (S : Option (Matrix (Fin n) (Fin m) K)) (E : Option (Matrix (Fin n) (Fin n) K))
    (tA tB tQ tR tS tE : Option K)
    (hQ : isSymD (DMat.of Q tQ) = .ok true) (hR : isSymD (DMat.of R tR) = .ok true)
    (method : Method) (hm : method = .none ∨ method = .scipy) (nA nB nQ nR nS nE : String) :
    Generated.care Sv ev eps (DMat.of A tA) (DMat.of B tB) (DMat.of Q tQ) (some (DMat.of R tR)) (optD S tS)
        (optD E tE) true method nA nB nQ nR nS nE
      = (care (Sv.care n m) A B Q R S E).map (resPy ev) := by
  rw [generated_care_eq Sv ev eps _ _ _ _ _ _ true method nA nB nQ nR nS nE hm
      (fun h => by simp [DMat.of] at h; omega) (fun h => by simp [DMat.of, rOf] at h; omega),
    careD_typed Sv eps A B Q R S E tA tB tQ tR tS tE hQ hR]
  cases care (Sv.care n m) A B Q R S E <;> rfl

/-- **`dare` as written in the source, on typed data.** -/
theorem generated_dare_typed {L : Type} (Sv : Solvers K) (ev : EigFun K L) (eps : K) {n m : Nat}
    (hn : 0 < n) (hm' : 0 < m) (A : Matrix (Fin n) (Fin n) K) (B : Matrix (Fin n) (Fin m) K)
    (Q : Matrix (Fin n) (Fin n) K) (R : Matrix (Fin m) (Fin m) K)
    (S : Option (Matrix (Fin n) (Fin m) K)) (E : Option (Matrix (Fin n) (Fin n) K))
    (tA tB tQ tR tS tE : Option K)
    (hQ : isSymD (DMat.of Q tQ) = .ok true) (hR : isSymD (DMat.of R tR) = .ok true)
    (method : Method) (hm : method = .none ∨ method = .scipy) (nA nB nQ nR nS nE : String) :
    Generated.dare Sv ev eps (DMat.of A tA) (DMat.of B tB) (DMat.of Q tQ) (some (DMat.of R tR)) (optD S tS)
        (optD E tE) true method nA nB nQ nR nS nE
      = (dare (Sv.dare n m) A B Q R S E).map (resPy ev) := by
  rw [generated_dare_eq Sv ev eps _ _ _ _ _ _ true method nA nB nQ nR nS nE hm
      (fun h => by simp [DMat.of] at h; omega) (fun h => by simp [DMat.of, rOf] at h; omega),
    dareD_typed Sv eps A B Q R S E tA tB tQ tR tS tE hQ hR]
  cases dare (Sv.dare n m) A B Q R S E <;> rfl

/-- whenever the generated `care` returns `(X, L, G)`, the typed model returned the `AreResult` they
come from. -/
theorem generated_care_ok {L : Type} (Sv : Solvers K) (ev : EigFun K L) (eps : K) {n m : Nat}
    (hn : 0 < n) (hm' : 0 < m) (A : Matrix (Fin n) (Fin n) K) (B : Matrix (Fin n) (Fin m) K)
    (Q : Matrix (Fin n) (Fin n) K) (R : Matrix (Fin m) (Fin m) K)
    (S : Option (Matrix (Fin n) (Fin m) K)) (E : Option (Matrix (Fin n) (Fin n) K))
    (tA tB tQ tR tS tE : Option K)
    (hQ : isSymD (DMat.of Q tQ) = .ok true) (hR : isSymD (DMat.of R tR) = .ok true)
    (method : Method) (hm : method = .none ∨ method = .scipy) (nA nB nQ nR nS nE : String)
    {out : PMat K × L × PMat K}
    (h : Generated.care Sv ev eps (DMat.of A tA) (DMat.of B tB) (DMat.of Q tQ) (some (DMat.of R tR)) (optD S tS)
        (optD E tE) true method nA nB nQ nR nS nE = .ok out) :
    ∃ r, care (Sv.care n m) A B Q R S E = .ok r ∧ out = resPy ev r := by
  rw [generated_care_typed Sv ev eps hn hm' A B Q R S E tA tB tQ tR tS tE hQ hR method hm] at h
  cases hc : care (Sv.care n m) A B Q R S E with
  | error e => rw [hc] at h; cases h
  | ok r =>
    rw [hc] at h
    simp only [Except.map, Except.ok.injEq] at h
    exact ⟨r, rfl, h.symm⟩

theorem generated_dare_ok {L : Type} (Sv : Solvers K) (ev : EigFun K L) (eps : K) {n m : Nat}
    (hn : 0 < n) (hm' : 0 < m) (A : Matrix (Fin n) (Fin n) K) (B : Matrix (Fin n) (Fin m) K)
    (Q : Matrix (Fin n) (Fin n) K) (R : Matrix (Fin m) (Fin m) K)
    (S : Option (Matrix (Fin n) (Fin m) K)) (E : Option (Matrix (Fin n) (Fin n) K))
    (tA tB tQ tR tS tE : Option K)
    (hQ : isSymD (DMat.of Q tQ) = .ok true) (hR : isSymD (DMat.of R tR) = .ok true)
    (method : Method) (hm : method = .none ∨ method = .scipy) (nA nB nQ nR nS nE : String)
    {out : PMat K × L × PMat K}
    (h : Generated.dare Sv ev eps (DMat.of A tA) (DMat.of B tB) (DMat.of Q tQ) (some (DMat.of R tR)) (optD S tS)
        (optD E tE) true method nA nB nQ nR nS nE = .ok out) :
    ∃ r, dare (Sv.dare n m) A B Q R S E = .ok r ∧ out = resPy ev r := by
  rw [generated_dare_typed Sv ev eps hn hm' A B Q R S E tA tB tQ tR tS tE hQ hR method hm] at h
  cases hc : dare (Sv.dare n m) A B Q R S E with
  | error e => rw [hc] at h; cases h
  | ok r =>
    rw [hc] at h
    simp only [Except.map, Except.ok.injEq] at h
    exact ⟨r, rfl, h.symm⟩

end typed

/-! ## the headline theorems of C10, for the functions the source text defines -/

section transport

variable {K : Type} [Field K] [LinearOrder K]

/-- `C10.lyap_residual` transported: what `lyap(A, Q)` — the function in the source text — returns
satisfies `A X + X Aᵀ + Q = 0`, whenever that equation has exactly one solution (SciPy's contract). -/
theorem generated_lyap_residual (Sv : Solvers K) {n : Nat} (hn : 0 < n) (Sc : CLyapSolver (Fin n) K)
    (hSc : Sv.clyap n = Sc.solve) (A Q : Matrix (Fin n) (Fin n) K) (tA tQ : Option K)
    (hQ : isSymD (DMat.of Q tQ) = .ok true) (method : Method) (hm : method = .none ∨ method = .scipy)
    (h : ∃! X : Matrix (Fin n) (Fin n) K, A * X + X * Aᵀ + Q = 0) :
    ∃ X : Matrix (Fin n) (Fin n) K,
      Generated.lyap Sv (DMat.of A tA) (DMat.of Q tQ) none none method = .ok ⟨n, n, X⟩ ∧
        A * X + X * Aᵀ + Q = 0 ∧ ∀ Y, A * Y + Y * Aᵀ + Q = 0 → Y = X := by
  refine ⟨lyap (Sv.clyap n) A Q, generated_lyap_typed Sv hn A Q tA tQ hQ method hm, ?_, ?_⟩
  · rw [hSc]; exact C10.lyap_residual Sc A Q h
  · intro Y hY
    rw [hSc]; exact (C10.lyap_unique Sc A Q h Y hY).symm

/-- `C10.sylvester_residual` transported: `lyap(A, Q, C)` returns `X` with `A X + X Q + C = 0`. -/
theorem generated_sylvester_residual (Sv : Solvers K) {n m : Nat} (Sc : SylvSolver (Fin n) (Fin m) K)
    (hSc : Sv.sylv n m = Sc.solve) (A : Matrix (Fin n) (Fin n) K) (Q : Matrix (Fin m) (Fin m) K)
    (C : Matrix (Fin n) (Fin m) K) (tA tQ tC : Option K) (method : Method)
    (hm : method = .none ∨ method = .scipy)
    (h : ∃! X : Matrix (Fin n) (Fin m) K, A * X + X * Q + C = 0) :
    ∃ X : Matrix (Fin n) (Fin m) K,
      Generated.lyap Sv (DMat.of A tA) (DMat.of Q tQ) (some (DMat.of C tC)) none method = .ok ⟨n, m, X⟩ ∧
        A * X + X * Q + C = 0 := by
  refine ⟨sylv (Sv.sylv n m) A Q C, generated_sylv_typed Sv A Q C tA tQ tC method hm, ?_⟩
  rw [hSc]; exact C10.sylvester_residual Sc A Q C h

/-- `C10.dlyap_residual` transported: `dlyap(A, Q)` returns `X` with `A X Aᵀ − X + Q = 0`. -/
theorem generated_dlyap_residual (Sv : Solvers K) {n : Nat} (hn : 0 < n) (Sc : DLyapSolver (Fin n) K)
    (hSc : Sv.dlyap n = Sc.solve) (A Q : Matrix (Fin n) (Fin n) K) (tA tQ : Option K)
    (hQ : isSymD (DMat.of Q tQ) = .ok true) (method : Method) (hm : method = .none ∨ method = .scipy)
    (h : ∃! X : Matrix (Fin n) (Fin n) K, A * X * Aᵀ - X + Q = 0) :
    ∃ X : Matrix (Fin n) (Fin n) K,
      Generated.dlyap Sv (DMat.of A tA) (DMat.of Q tQ) none none method = .ok ⟨n, n, X⟩ ∧
        A * X * Aᵀ - X + Q = 0 := by
  refine ⟨dlyap (Sv.dlyap n) A Q, generated_dlyap_typed Sv hn A Q tA tQ hQ method hm, ?_⟩
  rw [hSc]; exact C10.dlyap_residual Sc A Q h

/-- `C10.dlyap_extra_raises` transported: through SciPy `dlyap` with `C` or `E` never returns (when a
symmetric `Q` is demanded it must not be the `0 × 0` array, where the source raises IndexError —
also an exception). -/
theorem generated_dlyap_extra_raises (Sv : Solvers K) (A Q : DMat K) (C E : Option (DMat K)) (method : Method)
    (h : C ≠ none ∨ E ≠ none) : ∃ e, Generated.dlyap Sv A Q C E method = .error e := by
  cases method with
  | slycot => exact ⟨_, generated_dlyap_slycot Sv A Q C E⟩
  | other => exact ⟨_, generated_dlyap_other Sv A Q C E⟩
  | none =>
    cases C <;> cases E
    · simp at h
    all_goals
      simp only [Generated.dlyap, generated_slycotOrScipy_eq, array2d, bind, Except.bind, pure, Except.pure, throw, throwThe,
        MonadExceptOf.throw]
      repeat' split
      all_goals exact ⟨_, rfl⟩
  | scipy =>
    cases C <;> cases E
    · simp at h
    all_goals
      simp only [Generated.dlyap, generated_slycotOrScipy_eq, array2d, bind, Except.bind, pure, Except.pure, throw, throwThe,
        MonadExceptOf.throw]
      repeat' split
      all_goals exact ⟨_, rfl⟩

variable [DecidableEq K]

/-- `C10.care_raises_iff` transported: on validated data the generated `care` raises exactly when `R`
is singular (the gain solve), and then with LinAlgError. -/
theorem generated_care_raises_iff {L : Type} (Sv : Solvers K) (ev : EigFun K L) (eps : K) {n m : Nat}
    (hn : 0 < n) (hm' : 0 < m) (A : Matrix (Fin n) (Fin n) K) (B : Matrix (Fin n) (Fin m) K)
    (Q : Matrix (Fin n) (Fin n) K) (R : Matrix (Fin m) (Fin m) K)
    (S : Option (Matrix (Fin n) (Fin m) K)) (E : Option (Matrix (Fin n) (Fin n) K))
    (tA tB tQ tR tS tE : Option K)
    (hQ : isSymD (DMat.of Q tQ) = .ok true) (hR : isSymD (DMat.of R tR) = .ok true)
    (method : Method) (hm : method = .none ∨ method = .scipy) (nA nB nQ nR nS nE : String) :
    (Generated.care Sv ev eps (DMat.of A tA) (DMat.of B tB) (DMat.of Q tQ) (some (DMat.of R tR)) (optD S tS)
        (optD E tE) true method nA nB nQ nR nS nE = .error .illPosed ↔ R.det = 0) ∧
    (∀ e, Generated.care Sv ev eps (DMat.of A tA) (DMat.of B tB) (DMat.of Q tQ) (some (DMat.of R tR)) (optD S tS)
        (optD E tE) true method nA nB nQ nR nS nE = .error e → e = .illPosed) := by
  rw [generated_care_typed Sv ev eps hn hm' A B Q R S E tA tB tQ tR tS tE hQ hR method hm]
  obtain ⟨h1, h2⟩ := C10.care_raises_iff (Sv.care n m) A B Q R S E
  cases hc : care (Sv.care n m) A B Q R S E with
  | error e =>
    rw [hc] at h1 h2
    refine ⟨?_, fun e' he' => ?_⟩
    · simpa [Except.map] using h1
    · simp only [Except.map, Except.error.injEq] at he'
      subst he'
      exact h2 _ rfl
  | ok r =>
    rw [hc] at h1
    refine ⟨?_, fun e' he' => ?_⟩
    · simpa [Except.map] using h1
    · simp [Except.map] at he'

/-- **`C10.care_residual` transported**: the `X` returned by `care` — the function in the source text —
satisfies the documented generalised equation, is symmetric and stabilising, whenever a symmetric
stabilising solution exists and the SciPy solver of that size keeps its contract. -/
theorem generated_care_residual {L : Type} (Sv : Solvers K) (ev : EigFun K L) (eps : K) {n m : Nat}
    (hn : 0 < n) (hm' : 0 < m) {St : Matrix (Fin n) (Fin n) K → Matrix (Fin n) (Fin n) K → Prop}
    (Sc : CareSolver (Fin n) (Fin m) K St) (hSc : Sv.care n m = Sc.solve)
    (A : Matrix (Fin n) (Fin n) K) (B : Matrix (Fin n) (Fin m) K)
    (Q : Matrix (Fin n) (Fin n) K) (R : Matrix (Fin m) (Fin m) K)
    (S : Option (Matrix (Fin n) (Fin m) K)) (E : Option (Matrix (Fin n) (Fin n) K))
    (tA tB tQ tR tS tE : Option K)
    (hQ : isSymD (DMat.of Q tQ) = .ok true) (hR : isSymD (DMat.of R tR) = .ok true)
    (method : Method) (hm : method = .none ∨ method = .scipy) (nA nB nQ nR nS nE : String)
    (hsol : ∃ X, IsCareSol St A B Q R (sOf S) (eOf E) X)
    {X G : PMat K} {Lv : L}
    (h : Generated.care Sv ev eps (DMat.of A tA) (DMat.of B tB) (DMat.of Q tQ) (some (DMat.of R tR)) (optD S tS)
        (optD E tE) true method nA nB nQ nR nS nE = .ok (X, Lv, G)) :
    ∃ X' : Matrix (Fin n) (Fin n) K, X = ⟨n, n, X'⟩ ∧ IsCareSol St A B Q R (sOf S) (eOf E) X' := by
  obtain ⟨r, hr, hout⟩ := generated_care_ok Sv ev eps hn hm' A B Q R S E tA tB tQ tR tS tE hQ hR method hm
    nA nB nQ nR nS nE h
  rw [hSc] at hr
  simp only [resPy, Prod.mk.injEq] at hout
  exact ⟨r.X, hout.1, C10.care_residual Sc A B Q R S E hsol hr⟩

/-- **`C10.care_gain` / `care_closed_loop_pencil` transported**: the returned `G` solves
`R G = BᵀXE + Sᵀ` in the returned `X` (it is the documented gain), and the returned eigenvalues are
those the eigenvalue routine computes for the pencil `(A − B G, E)` (`E` absent or the identity: the
standard problem). -/
theorem generated_care_gain {L : Type} (Sv : Solvers K) (ev : EigFun K L) (eps : K) {n m : Nat}
    (hn : 0 < n) (hm' : 0 < m) (A : Matrix (Fin n) (Fin n) K) (B : Matrix (Fin n) (Fin m) K)
    (Q : Matrix (Fin n) (Fin n) K) (R : Matrix (Fin m) (Fin m) K)
    (S : Option (Matrix (Fin n) (Fin m) K)) (E : Option (Matrix (Fin n) (Fin n) K))
    (tA tB tQ tR tS tE : Option K)
    (hQ : isSymD (DMat.of Q tQ) = .ok true) (hR : isSymD (DMat.of R tR) = .ok true)
    (method : Method) (hm : method = .none ∨ method = .scipy) (nA nB nQ nR nS nE : String)
    {X G : PMat K} {Lv : L}
    (h : Generated.care Sv ev eps (DMat.of A tA) (DMat.of B tB) (DMat.of Q tQ) (some (DMat.of R tR)) (optD S tS)
        (optD E tE) true method nA nB nQ nR nS nE = .ok (X, Lv, G)) :
    ∃ (X' : Matrix (Fin n) (Fin n) K) (G' : Matrix (Fin m) (Fin n) K) (Ecl : Option (Matrix (Fin n) (Fin n) K)),
      X = ⟨n, n, X'⟩ ∧ G = ⟨m, n, G'⟩ ∧
      R * G' = Bᵀ * X' * eOf E + (sOf S)ᵀ ∧ G' = careGainDoc B R (sOf S) (eOf E) X' ∧
      Lv = ev n (A - B * G') Ecl ∧ eOf Ecl = eOf E := by
  obtain ⟨r, hr, hout⟩ := generated_care_ok Sv ev eps hn hm' A B Q R S E tA tB tQ tR tS tE hQ hR method hm
    nA nB nQ nR nS nE h
  simp only [resPy, Prod.mk.injEq] at hout
  obtain ⟨g1, g2⟩ := C10.care_gain (Sv.care n m) A B Q R S E hr
  obtain ⟨p1, p2⟩ := C10.care_closed_loop_pencil (Sv.care n m) A B Q R S E hr
  exact ⟨r.X, r.G, r.Ecl, hout.1, hout.2.2, g1, g2, by rw [hout.2.1, p1], p2⟩

/-- `C10.dare_raises_iff` transported: on validated data the generated `dare` raises exactly when
`BᵀXB + R` is singular for the solver's `X` (the gain solve), and then with LinAlgError. -/
theorem generated_dare_raises_iff {L : Type} (Sv : Solvers K) (ev : EigFun K L) (eps : K) {n m : Nat}
    (hn : 0 < n) (hm' : 0 < m) (A : Matrix (Fin n) (Fin n) K) (B : Matrix (Fin n) (Fin m) K)
    (Q : Matrix (Fin n) (Fin n) K) (R : Matrix (Fin m) (Fin m) K)
    (S : Option (Matrix (Fin n) (Fin m) K)) (E : Option (Matrix (Fin n) (Fin n) K))
    (tA tB tQ tR tS tE : Option K)
    (hQ : isSymD (DMat.of Q tQ) = .ok true) (hR : isSymD (DMat.of R tR) = .ok true)
    (method : Method) (hm : method = .none ∨ method = .scipy) (nA nB nQ nR nS nE : String) :
    (Generated.dare Sv ev eps (DMat.of A tA) (DMat.of B tB) (DMat.of Q tQ) (some (DMat.of R tR)) (optD S tS)
        (optD E tE) true method nA nB nQ nR nS nE = .error .illPosed ↔
      (Bᵀ * Sv.dare n m (dareCall A B Q R S E) * B + R).det = 0) ∧
    (∀ e, Generated.dare Sv ev eps (DMat.of A tA) (DMat.of B tB) (DMat.of Q tQ) (some (DMat.of R tR)) (optD S tS)
        (optD E tE) true method nA nB nQ nR nS nE = .error e → e = .illPosed) := by
  rw [generated_dare_typed Sv ev eps hn hm' A B Q R S E tA tB tQ tR tS tE hQ hR method hm]
  obtain ⟨h1, h2⟩ := C10.dare_raises_iff (Sv.dare n m) A B Q R S E
  cases hc : dare (Sv.dare n m) A B Q R S E with
  | error e =>
    rw [hc] at h1 h2
    refine ⟨?_, fun e' he' => ?_⟩
    · simpa [Except.map] using h1
    · simp only [Except.map, Except.error.injEq] at he'
      subst he'
      exact h2 _ rfl
  | ok r =>
    rw [hc] at h1
    refine ⟨?_, fun e' he' => ?_⟩
    · simpa [Except.map] using h1
    · simp [Except.map] at he'

/-- `C10.dare_residual` transported. -/
theorem generated_dare_residual {L : Type} (Sv : Solvers K) (ev : EigFun K L) (eps : K) {n m : Nat}
    (hn : 0 < n) (hm' : 0 < m) {St : Matrix (Fin n) (Fin n) K → Matrix (Fin n) (Fin n) K → Prop}
    (Sc : DareSolver (Fin n) (Fin m) K St) (hSc : Sv.dare n m = Sc.solve)
    (A : Matrix (Fin n) (Fin n) K) (B : Matrix (Fin n) (Fin m) K)
    (Q : Matrix (Fin n) (Fin n) K) (R : Matrix (Fin m) (Fin m) K)
    (S : Option (Matrix (Fin n) (Fin m) K)) (E : Option (Matrix (Fin n) (Fin n) K))
    (tA tB tQ tR tS tE : Option K)
    (hQ : isSymD (DMat.of Q tQ) = .ok true) (hR : isSymD (DMat.of R tR) = .ok true)
    (method : Method) (hm : method = .none ∨ method = .scipy) (nA nB nQ nR nS nE : String)
    (hsol : ∃ X, IsDareSol St A B Q R (sOf S) (eOf E) X)
    {X G : PMat K} {Lv : L}
    (h : Generated.dare Sv ev eps (DMat.of A tA) (DMat.of B tB) (DMat.of Q tQ) (some (DMat.of R tR)) (optD S tS)
        (optD E tE) true method nA nB nQ nR nS nE = .ok (X, Lv, G)) :
    ∃ X' : Matrix (Fin n) (Fin n) K, X = ⟨n, n, X'⟩ ∧ IsDareSol St A B Q R (sOf S) (eOf E) X' := by
  obtain ⟨r, hr, hout⟩ := generated_dare_ok Sv ev eps hn hm' A B Q R S E tA tB tQ tR tS tE hQ hR method hm
    nA nB nQ nR nS nE h
  rw [hSc] at hr
  simp only [resPy, Prod.mk.injEq] at hout
  exact ⟨r.X, hout.1, C10.dare_residual Sc A B Q R S E hsol hr⟩

/-- `C10.dare_gain` / `dare_closed_loop_pencil` transported: `(BᵀXB + R) G = BᵀXA + Sᵀ`, and the
eigenvalues are those of the pencil `(A − B G, E)` with `E` exactly as given. -/
theorem generated_dare_gain {L : Type} (Sv : Solvers K) (ev : EigFun K L) (eps : K) {n m : Nat}
    (hn : 0 < n) (hm' : 0 < m) (A : Matrix (Fin n) (Fin n) K) (B : Matrix (Fin n) (Fin m) K)
    (Q : Matrix (Fin n) (Fin n) K) (R : Matrix (Fin m) (Fin m) K)
    (S : Option (Matrix (Fin n) (Fin m) K)) (E : Option (Matrix (Fin n) (Fin n) K))
    (tA tB tQ tR tS tE : Option K)
    (hQ : isSymD (DMat.of Q tQ) = .ok true) (hR : isSymD (DMat.of R tR) = .ok true)
    (method : Method) (hm : method = .none ∨ method = .scipy) (nA nB nQ nR nS nE : String)
    {X G : PMat K} {Lv : L}
    (h : Generated.dare Sv ev eps (DMat.of A tA) (DMat.of B tB) (DMat.of Q tQ) (some (DMat.of R tR)) (optD S tS)
        (optD E tE) true method nA nB nQ nR nS nE = .ok (X, Lv, G)) :
    ∃ (X' : Matrix (Fin n) (Fin n) K) (G' : Matrix (Fin m) (Fin n) K),
      X = ⟨n, n, X'⟩ ∧ G = ⟨m, n, G'⟩ ∧
      (Bᵀ * X' * B + R) * G' = Bᵀ * X' * A + (sOf S)ᵀ ∧ G' = dareGainDoc A B R (sOf S) X' ∧
      Lv = ev n (A - B * G') E := by
  obtain ⟨r, hr, hout⟩ := generated_dare_ok Sv ev eps hn hm' A B Q R S E tA tB tQ tR tS tE hQ hR method hm
    nA nB nQ nR nS nE h
  simp only [resPy, Prod.mk.injEq] at hout
  obtain ⟨g1, g2⟩ := C10.dare_gain (Sv.dare n m) A B Q R S E hr
  obtain ⟨p1, p2⟩ := C10.dare_closed_loop_pencil (Sv.dare n m) A B Q R S E hr
  exact ⟨r.X, r.G, hout.1, hout.2.2, g1, g2, by rw [hout.2.1, p1, p2]⟩

end transport

/-! ## stability (over ℝ) -/

section stable

/-- **`C10.care_stable` transported**: for what `care` — the function in the source text — returns on
real data, if the returned `X` solves the documented equation, `X ≻ 0` and the closed-loop weight
`Q + GᵀRG − SG − GᵀSᵀ` with the returned gain is positive definite (`R` symmetric), then every
eigenvalue of the pencil `(A − B G, E)` handed to the eigenvalue routine has negative real part. -/
theorem generated_care_stable {L : Type} (Sv : Solvers ℝ) (ev : EigFun ℝ L) (eps : ℝ) {n m : Nat}
    (hn : 0 < n) (hm' : 0 < m) (A : Matrix (Fin n) (Fin n) ℝ) (B : Matrix (Fin n) (Fin m) ℝ)
    (Q : Matrix (Fin n) (Fin n) ℝ) (R : Matrix (Fin m) (Fin m) ℝ)
    (S : Option (Matrix (Fin n) (Fin m) ℝ)) (E : Option (Matrix (Fin n) (Fin n) ℝ))
    (tA tB tQ tR tS tE : Option ℝ)
    (hQ : isSymD (DMat.of Q tQ) = .ok true) (hRs : isSymD (DMat.of R tR) = .ok true)
    (method : Method) (hm : method = .none ∨ method = .scipy) (nA nB nQ nR nS nE : String)
    (hR : Rᵀ = R) {X G : PMat ℝ} {Lv : L}
    (h : Generated.care Sv ev eps (DMat.of A tA) (DMat.of B tB) (DMat.of Q tQ) (some (DMat.of R tR)) (optD S tS)
        (optD E tE) true method nA nB nQ nR nS nE = .ok (X, Lv, G)) :
    ∃ (X' : Matrix (Fin n) (Fin n) ℝ) (G' : Matrix (Fin m) (Fin n) ℝ),
      X = ⟨n, n, X'⟩ ∧ G = ⟨m, n, G'⟩ ∧
      (CareEq A B Q R (sOf S) (eOf E) X' → X'.PosDef → (C10.clWeight Q R (sOf S) G').PosDef →
        C10.Hurwitz (A - B * G') (eOf E)) := by
  obtain ⟨r, hr, hout⟩ := generated_care_ok Sv ev eps hn hm' A B Q R S E tA tB tQ tR tS tE hQ hRs method hm
    nA nB nQ nR nS nE h
  simp only [resPy, Prod.mk.injEq] at hout
  refine ⟨r.X, r.G, hout.1, hout.2.2, fun hEq hX hW => ?_⟩
  obtain ⟨p1, p2⟩ := C10.care_closed_loop_pencil (Sv.care n m) A B Q R S E hr
  have := C10.care_stable (Sv.care n m) A B Q R S E hR hr hEq hX hW
  rwa [p1, p2] at this

/-- **`C10.dare_stable` transported** (discrete time: eigenvalues in the open unit disc). -/
theorem generated_dare_stable {L : Type} (Sv : Solvers ℝ) (ev : EigFun ℝ L) (eps : ℝ) {n m : Nat}
    (hn : 0 < n) (hm' : 0 < m) (A : Matrix (Fin n) (Fin n) ℝ) (B : Matrix (Fin n) (Fin m) ℝ)
    (Q : Matrix (Fin n) (Fin n) ℝ) (R : Matrix (Fin m) (Fin m) ℝ)
    (S : Option (Matrix (Fin n) (Fin m) ℝ)) (E : Option (Matrix (Fin n) (Fin n) ℝ))
    (tA tB tQ tR tS tE : Option ℝ)
    (hQ : isSymD (DMat.of Q tQ) = .ok true) (hRs : isSymD (DMat.of R tR) = .ok true)
    (method : Method) (hm : method = .none ∨ method = .scipy) (nA nB nQ nR nS nE : String)
    {X G : PMat ℝ} {Lv : L}
    (h : Generated.dare Sv ev eps (DMat.of A tA) (DMat.of B tB) (DMat.of Q tQ) (some (DMat.of R tR)) (optD S tS)
        (optD E tE) true method nA nB nQ nR nS nE = .ok (X, Lv, G)) :
    ∃ (X' : Matrix (Fin n) (Fin n) ℝ) (G' : Matrix (Fin m) (Fin n) ℝ),
      X = ⟨n, n, X'⟩ ∧ G = ⟨m, n, G'⟩ ∧
      (DareEq A B Q R (sOf S) (eOf E) X' → X'.PosDef → (C10.clWeight Q R (sOf S) G').PosDef →
        C10.Schur (A - B * G') (eOf E)) := by
  obtain ⟨r, hr, hout⟩ := generated_dare_ok Sv ev eps hn hm' A B Q R S E tA tB tQ tR tS tE hQ hRs method hm
    nA nB nQ nR nS nE h
  simp only [resPy, Prod.mk.injEq] at hout
  refine ⟨r.X, r.G, hout.1, hout.2.2, fun hEq hX hW => ?_⟩
  obtain ⟨p1, p2⟩ := C10.dare_closed_loop_pencil (Sv.dare n m) A B Q R S E hr
  have := C10.dare_stable (Sv.dare n m) A B Q R S E hr hEq hX hW
  rwa [p1, p2] at this

end stable

/-! ## Non-vacuity: concrete instances meeting the hypotheses -/

section nonvacuity

open ComplexOrder

/-- a solver record with constant entries (the Riccati entries return the identity). -/
def constSolvers (K : Type) [Field K] : Solvers K :=
  ⟨fun _ _ => 1, fun _ _ => 1, fun _ _ _ => 0, fun _ _ _ => 1, fun _ _ _ => 1⟩

/-- `generated_lyap_eq` / `generated_lyap_typed`: on a 2 × 2 problem the generated `lyap` hands
`(A, -Q)` to the solver, whatever the solver -/
example (Sv : Solvers ℚ) :
    Generated.lyap Sv (DMat.of !![-1, 0; 0, -2] none) (DMat.of !![2, 3; 3, 4] none) none none .none
      = .ok ⟨2, 2, Sv.clyap 2 ⟨!![-1, 0; 0, -2], -!![2, 3; 3, 4]⟩⟩ :=
  generated_lyap_typed Sv (by norm_num) _ _ none none (by decide +kernel) .none (Or.inl rfl)

/-- … `-C` to the Sylvester solver (non-square `C`, `Q` of another size) -/
example (Sv : Solvers ℚ) :
    Generated.lyap Sv (DMat.of !![-1, 0; 0, -2] none) (DMat.of !![3] none) (some (DMat.of !![1; 2] none)) none .scipy
      = .ok ⟨2, 1, Sv.sylv 2 1 ⟨!![-1, 0; 0, -2], !![3], -!![1; 2]⟩⟩ :=
  generated_sylv_typed Sv _ _ _ none none none .scipy (Or.inr rfl)

/-- … `Q` unchanged to the discrete solver -/
example (Sv : Solvers ℚ) :
    Generated.dlyap Sv (DMat.of !![1/2, 0; 0, 1/3] none) (DMat.of !![2, 3; 3, 4] none) none none .none
      = .ok ⟨2, 2, Sv.dlyap 2 ⟨!![1/2, 0; 0, 1/3], !![2, 3; 3, 4]⟩⟩ :=
  generated_dlyap_typed Sv (by norm_num) _ _ none none (by decide +kernel) .none (Or.inl rfl)

/-- the generated functions reject: a non-symmetric `Q` (ControlArgument), a non-square `A`
(ControlDimension), `C` and `E` together (ControlArgument), `dlyap` with `C` (ControlArgument) -/
example : errOf (Generated.lyap (constSolvers ℚ) (DMat.of !![-1, 0; 0, -2] none) (DMat.of !![2, -1; 1, 3] none)
    none none .none) = some .badArg := by decide +kernel
example : errOf (Generated.lyap (constSolvers ℚ) (DMat.of !![-1, 0] none) (DMat.of !![2, 1; 1, 3] none)
    none none .none) = some .shape := by decide +kernel
example : errOf (Generated.lyap (constSolvers ℚ) (DMat.of !![-1, 0; 0, -2] none) (DMat.of !![2, 1; 1, 3] none)
    (some (DMat.of !![1, 0; 0, 1] none)) (some (DMat.of !![1, 0; 0, 1] none)) .scipy) = some .badArg := by
  decide +kernel
example : errOf (Generated.dlyap (constSolvers ℚ) (DMat.of !![-1, 0; 0, -2] none) (DMat.of !![2, 1; 1, 3] none)
    (some (DMat.of !![1, 0; 0, 1] none)) none .none) = some .badArg := by decide +kernel

/-- `generated_lyap_residual`: the 2 × 2 problem of `Props/C10.lean` has exactly one solution, and a
contract-keeping solver record exists -/
example : ∃! X : Matrix (Fin 2) (Fin 2) ℚ,
    !![-1, 0; 0, -2] * X + X * (!![-1, 0; 0, -2] : Matrix (Fin 2) (Fin 2) ℚ)ᵀ + !![2, 3; 3, 4] = 0 := by
  refine ⟨!![1, 1; 1, 1], ?_, ?_⟩
  · ext i j
    fin_cases i <;> fin_cases j <;>
      simp [Matrix.mul_apply, Fin.sum_univ_two, Matrix.vecMul, dotProduct, Matrix.vecHead,
        Matrix.vecTail] <;> norm_num
  · intro y hy
    ext i j
    have h := congrFun (congrFun hy i) j
    fin_cases i <;> fin_cases j <;>
      simp [Matrix.mul_apply, Fin.sum_univ_two, Matrix.vecMul, dotProduct, Matrix.vecHead,
        Matrix.vecTail] at h ⊢ <;> linarith
noncomputable example : ∃ (Sv : Solvers ℚ) (Sc : CLyapSolver (Fin 2) ℚ), Sv.clyap 2 = Sc.solve :=
  ⟨⟨fun _ => CLyapSolver.ofChoice.solve, fun _ _ => 1, fun _ _ _ => 0, fun _ _ _ => 1, fun _ _ _ => 1⟩,
    CLyapSolver.ofChoice, rfl⟩

/-- `generated_care_eq` / `generated_care_typed` / `generated_care_ok`: `A = 0`, `B = Q = R = I`
(standard branch): the generated `care` returns `X` = the solver's matrix, `G = R⁻¹BᵀX = I`, and the
eigenvalues of `(A − B G, none)` -/
example (ev : EigFun ℚ (List ℚ)) :
    ∃ out, Generated.care (constSolvers ℚ) ev (1/4503599627370496) (DMat.of (0 : Matrix (Fin 2) (Fin 2) ℚ) none)
      (DMat.of (1 : Matrix (Fin 2) (Fin 2) ℚ) none) (DMat.of (1 : Matrix (Fin 2) (Fin 2) ℚ) none)
      (some (DMat.of (1 : Matrix (Fin 2) (Fin 2) ℚ) none)) none none true .none "A" "B" "Q" "R" "S" "E" = .ok out := by
  have h := generated_care_typed (constSolvers ℚ) ev (1/4503599627370496) (n := 2) (m := 2) (by norm_num)
    (by norm_num) 0 1 1 1 none none none none none none none none
    (isSymD_of_transpose_eq _ (by simp)) (isSymD_of_transpose_eq _ (by simp)) .none (Or.inl rfl) "A" "B" "Q" "R" "S" "E"
  simp only [optD, Option.map_none] at h
  rw [h]
  simp [care, Except.map]

/-- … the generalised branch (`E` given, `S` defaulted) returns as well -/
example (ev : EigFun ℚ (List ℚ)) :
    ∃ out, Generated.care (constSolvers ℚ) ev (1/4503599627370496) (DMat.of (0 : Matrix (Fin 2) (Fin 2) ℚ) none)
      (DMat.of (1 : Matrix (Fin 2) (Fin 2) ℚ) none) (DMat.of (1 : Matrix (Fin 2) (Fin 2) ℚ) none)
      (some (DMat.of (1 : Matrix (Fin 2) (Fin 2) ℚ) none)) none
      (some (DMat.of (!![1, -1; 1, 0] : Matrix (Fin 2) (Fin 2) ℚ) none)) true .scipy "A" "B" "Q" "R" "S" "E" = .ok out := by
  have h := generated_care_typed (constSolvers ℚ) ev (1/4503599627370496) (n := 2) (m := 2) (by norm_num)
    (by norm_num) 0 1 1 1 none (some !![1, -1; 1, 0]) none none none none none none
    (isSymD_of_transpose_eq _ (by simp)) (isSymD_of_transpose_eq _ (by simp)) .scipy (Or.inr rfl) "A" "B" "Q" "R" "S" "E"
  simp only [optD, Option.map_none, Option.map_some] at h
  rw [h]
  simp [care, Except.map]

/-- `generated_care_raises_iff`: a singular `R` (here `R = 0`) raises LinAlgError; `stabilizing=False`
raises ControlArgument; a non-symmetric `R` raises ControlArgument; `method='slycot'` ControlSlycot -/
example : errOf (Generated.care (constSolvers ℚ) (fun _ _ _ => ([] : List ℚ)) (1/4503599627370496)
    (DMat.of (0 : Matrix (Fin 2) (Fin 2) ℚ) none) (DMat.of (1 : Matrix (Fin 2) (Fin 2) ℚ) none)
    (DMat.of (1 : Matrix (Fin 2) (Fin 2) ℚ) none) (some (DMat.of (0 : Matrix (Fin 2) (Fin 2) ℚ) none)) none none
    true .none "A" "B" "Q" "R" "S" "E") = some .illPosed := by decide +kernel
example : errOf (Generated.care (constSolvers ℚ) (fun _ _ _ => ([] : List ℚ)) (1/4503599627370496)
    (DMat.of (0 : Matrix (Fin 2) (Fin 2) ℚ) none) (DMat.of (1 : Matrix (Fin 2) (Fin 2) ℚ) none)
    (DMat.of (1 : Matrix (Fin 2) (Fin 2) ℚ) none) none none none
    false .none "A" "B" "Q" "R" "S" "E") = some .badArg := by decide +kernel
example : errOf (Generated.dare (constSolvers ℚ) (fun _ _ _ => ([] : List ℚ)) (1/4503599627370496)
    (DMat.of (0 : Matrix (Fin 2) (Fin 2) ℚ) none) (DMat.of (1 : Matrix (Fin 2) (Fin 2) ℚ) none)
    (DMat.of (1 : Matrix (Fin 2) (Fin 2) ℚ) none) (some (DMat.of (!![1, 2; 0, 1] : Matrix (Fin 2) (Fin 2) ℚ) none))
    none none true .none "A" "B" "Q" "R" "S" "E") = some .badArg := by decide +kernel
example : errOf (Generated.dare (constSolvers ℚ) (fun _ _ _ => ([] : List ℚ)) (1/4503599627370496)
    (DMat.of (0 : Matrix (Fin 2) (Fin 2) ℚ) none) (DMat.of (1 : Matrix (Fin 2) (Fin 2) ℚ) none)
    (DMat.of (1 : Matrix (Fin 2) (Fin 2) ℚ) none) none none none
    true .slycot "A" "B" "Q" "R" "S" "E") = some .notImplemented := by decide +kernel
/-- … and on well-posed data the generated `dare` returns (no error) -/
example : errOf (Generated.dare (constSolvers ℚ) (fun _ _ _ => ([] : List ℚ)) (1/4503599627370496)
    (DMat.of (0 : Matrix (Fin 2) (Fin 2) ℚ) none) (DMat.of (1 : Matrix (Fin 2) (Fin 2) ℚ) none)
    (DMat.of (1 : Matrix (Fin 2) (Fin 2) ℚ) none) none (some (DMat.of (!![1, 2; 0, 1] : Matrix (Fin 2) (Fin 2) ℚ) none))
    (some (DMat.of (!![1, -1; 1, 0] : Matrix (Fin 2) (Fin 2) ℚ) none)) true .scipy "A" "B" "Q" "R" "S" "E") = none := by
  decide +kernel

/-- `generated_care_residual`: a contract-keeping Riccati solver exists for every `Stab` and size
(`CareSolver.ofChoice`), and `A = 0`, `B = Q = R = I` has a symmetric stabilising solution for the
`Stab` of `Props/C10.lean` -/
noncomputable example (St : ∀ n : Nat, Matrix (Fin n) (Fin n) ℚ → Matrix (Fin n) (Fin n) ℚ → Prop) :
    ∃ (Sv : Solvers ℚ) (Sc : CareSolver (Fin 2) (Fin 2) ℚ (St 2)), Sv.care 2 2 = Sc.solve :=
  ⟨⟨fun _ _ => 1, fun _ _ => 1, fun _ _ _ => 0, fun n _ => (CareSolver.ofChoice (St n)).solve, fun _ _ _ => 1⟩,
    CareSolver.ofChoice (St 2), rfl⟩

/-- `generated_care_stable`: over ℝ, `A = 0`, `B = Q = R = I` with the solver returning `X = I`: the
generated `care` returns `(I, ev(−I), I)` and every hypothesis of the theorem holds -/
example (ev : EigFun ℝ (List ℝ)) : ∃ (X' G' : Matrix (Fin 2) (Fin 2) ℝ) (Lv : List ℝ),
    Generated.care (constSolvers ℝ) ev (1/4503599627370496) (DMat.of (0 : Matrix (Fin 2) (Fin 2) ℝ) none)
      (DMat.of (1 : Matrix (Fin 2) (Fin 2) ℝ) none) (DMat.of (1 : Matrix (Fin 2) (Fin 2) ℝ) none)
      (some (DMat.of (1 : Matrix (Fin 2) (Fin 2) ℝ) none)) (optD (none : Option (Matrix (Fin 2) (Fin 2) ℝ)) none)
      (optD (none : Option (Matrix (Fin 2) (Fin 2) ℝ)) none) true .none
      "A" "B" "Q" "R" "S" "E" = .ok (⟨2, 2, X'⟩, Lv, ⟨2, 2, G'⟩) ∧
    CareEq (0 : Matrix (Fin 2) (Fin 2) ℝ) (1 : Matrix (Fin 2) (Fin 2) ℝ) 1 1 (sOf none) (eOf none) X' ∧
    X'.PosDef ∧ (C10.clWeight (1 : Matrix (Fin 2) (Fin 2) ℝ) (1 : Matrix (Fin 2) (Fin 2) ℝ) (sOf none) G').PosDef := by
  refine ⟨1, 1, ev 2 (0 - 1 * 1) none, ?_, by simp [CareEq, sOf, eOf], Matrix.PosDef.one, ?_⟩
  · rw [generated_care_typed (constSolvers ℝ) ev (1/4503599627370496) (n := 2) (m := 2) (by norm_num)
      (by norm_num) 0 1 1 1 none none none none none none none none
      (isSymD_of_transpose_eq _ (by simp)) (isSymD_of_transpose_eq _ (by simp)) .none (Or.inl rfl)]
    simp [care, Except.map, resPy, careFinish, careGainRhs, carePencilE, constSolvers, SS.invQ]
  · have h : C10.clWeight (1 : Matrix (Fin 2) (Fin 2) ℝ) (1 : Matrix (Fin 2) (Fin 2) ℝ) (sOf none) 1 = 1 + 1 := by
      simp [C10.clWeight, sOf]
    rw [h]
    exact Matrix.PosDef.one.add Matrix.PosDef.one

end nonvacuity

end CtrlVerif.C10Gen
