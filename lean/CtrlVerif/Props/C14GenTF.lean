/-
Source-text tie of C14, discretisation, part 2: `TransferFunction.sample` and `_c2d_matched`
(control/xferfcn.py).  `Generated/C2dTF.lean` is rewritten from the source text of the tree under
check on every run (harness/core/py2lean_c2d.py); the theorems below prove the hand-written model of
`Model/Discretize.lean` EQUAL to the generated functions:

* `tfMatched` (= `_c2d_matched`: `tf2zpk`, the two `enumerate` loops that map zeros / poles through
  `exp(s Ts)` and collect `1 - z`, `np.multiply.reduce`, gain from the DC match, `zpk2tf`, the
  constructor with `Ts`) is `c2dMatchedP` on the roots `tf2zpk` returns (`generated_matched_eq_partial`);
* `tfSample` (= `TransferFunction.sample`: continuous-time and SISO tests, the `matched` branch, the
  prewarp decision, `cont2discrete((num, den), Twarp, method, alpha)`, row 0 of the numerator, the
  constructor with `Ts`, name / label statements) is `tfSampleP` + `sampleNames` on the generalised
  bilinear family (`generated_tfsample_eq`) and `c2dMatchedP` + `sampleNames` for `'matched'`
  (`generated_tfsample_matched_eq_partial`);
and transport `tfSampleP_dt`, `tfGbt_eval`, `matched_dcgain`, `matched_roots`, `matchedP_inv` to them.
`cont2discrete`, `numpy.tan`, `numpy.exp`, `scipy.signal.tf2zpk` are PARAMETERS; the timebase theorems
(`generated_tfsample_dt_any`, `generated_matched_dt_any`) hold for arbitrary ones.
Not covered by an equality (no model meaning): zero-order hold / foh / impulse on the transfer-function
path (the timebase theorem still applies).
-/
import CtrlVerif.Generated.C2dTF
import CtrlVerif.Lemmas.C2dTie

namespace CtrlVerif.C14GenSample

open CtrlVerif Matrix

/-- rewrite the next two-list loop of `_c2d_matched` by `enum_loop`, whichever of the two lists comes
first in the loop state (the translator orders the state tuple by variable name, so a renaming can
exchange the roles), and discharge the step hypothesis from the meaning of `xs[i] = v`. -/
macro "enum_loops" E:term "," T:term : tactic => `(tactic| first
  | (rw [enum_loop (fun s => $E (s * $T)) (fun s => 1 - $E (s * $T))]; swap
     focus (intro a b i s hi hj
            simp [PyArith.setItem, PyArith.normIdx, hi, hj, bind, Except.bind, pure, Except.pure]
            done))
  | (rw [enum_loop (fun s => 1 - $E (s * $T)) (fun s => $E (s * $T))]; swap
     focus (intro a b i s hi hj
            simp [PyArith.setItem, PyArith.normIdx, hi, hj, bind, Except.bind, pure, Except.pure]
            done)))

section matched

variable {K : Type} [Field K] [DecidableEq K]

/-- **`_c2d_matched`**: the function the source text defines — `tf2zpk`, the two loops through `exp`
that fill `zzeros / zpoles / pregainnum / pregainden`, `np.multiply.reduce`, the DC-gain match,
`zpk2tf`, the constructor with `Ts` — is the model's `c2dMatchedP` on the roots `tf2zpk` returns,
for every SISO continuous-time system with `num(0) ≠ 0`, every period `> 0`, every `exp` and
`tf2zpk`, up to the tag of the error (`matchedErr`).
PARTIAL with respect to `num(0) = 0`: there the full equation needs that `tf2zpk` returns a zero at
`0` and `exp 0 = 1` (then both raise, `generated_matched_origin`); for an arbitrary `tf2zpk` the
code returns gain `0` where the model raises. -/
theorem generated_matched_eq_partial (tf2zpk : PyC2d.Tf2zpk K) (E : K → K) (S : PyC2d.NamedTF K)
    (P : Period) (kw : PyC2d.LabelKw) (zeros poles : List K) (k : K)
    (hs : IsSiso S) (hct : S.dt.isCt = true)
    (hz : tf2zpk S.num00 S.den00 = .ok (zeros, poles, k)) (hP : 0 < P.val)
    (hn : polyval S.num00 0 ≠ 0) :
    Generated.tfMatched tf2zpk E S P kw =
      (match c2dMatchedP S.num00 S.den00 zeros poles E P with
        | .error e => .error (matchedErr e)
        | .ok r => PyC2d.mkTF r.1 r.2.1 r.2.2 kw) := by
  obtain ⟨h1, h2⟩ := hs
  unfold Generated.tfMatched c2dMatchedP c2dMatched
  simp only [PyC2d.tfIssiso, h1, h2, beq_self_eq_true, Bool.and_self, not_true_eq_false, if_false,
    PyC2d.tfNum00, PyC2d.tfDen00, one_ne_zero, or_self, bind, Except.bind, hz, periodNum_eq, periodDt_eq,
    PyC2d.tfDcgain, isctime_eq, hct, if_true, hP]
  enum_loops E, ((P.val : ℚ) : K)
  simp only []
  enum_loops E, ((P.val : ℚ) : K)
  simp only [prod_eq, List.map_map, Function.comp_def, PyNum.div, PyC2d.zpk2tf, poly_eq]
  generalize (List.map (fun s => 1 - E (s * ((P.val : ℚ) : K))) zeros).prod = gn
  generalize (List.map (fun s => 1 - E (s * ((P.val : ℚ) : K))) poles).prod = gd
  generalize polyval S.den00 0 = d0
  by_cases hgd : gd = 0
  · simp [hgd, matchedErr]
  by_cases hd0 : d0 = 0
  · simp [hgd, hd0, matchedErr]
  by_cases hgn : gn = 0
  · simp [hgd, hd0, hgn, matchedErr]
  · simp [hgd, hd0, hgn, hn, matchedErr]

end matched

/-! ### timebase of the result, for ANY external routines -/

section dtany

variable {K : Type} [Field K] [DecidableEq K]

/-- whatever `_c2d_matched` (as the source text defines it) returns has the timebase `Ts` — for any
`tf2zpk` and `exp`. -/
theorem generated_matched_dt_any (tf2zpk : PyC2d.Tf2zpk K) (E : K → K) (S : PyC2d.NamedTF K)
    (P : Period) (kw : PyC2d.LabelKw) {R : PyC2d.NamedTF K}
    (hR : Generated.tfMatched tf2zpk E S P kw = .ok R) : R.dt = P.dt := by
  unfold Generated.tfMatched at hR
  split at hR
  · exact absurd hR (by simp [throw, throwThe, MonadExceptOf.throw])
  obtain ⟨_, _, hR⟩ := bind_ok hR
  obtain ⟨_, _, hR⟩ := bind_ok hR
  obtain ⟨_, _, hR⟩ := bind_ok hR
  obtain ⟨_, _, hR⟩ := bind_ok hR
  obtain ⟨_, _, hR⟩ := bind_ok hR
  obtain ⟨_, _, hR⟩ := bind_ok hR
  obtain ⟨_, _, hR⟩ := bind_ok hR
  obtain ⟨_, _, hR⟩ := bind_ok hR
  rw [(mkTF_dt hR).1, periodDt_eq]

/-- **Timebase of `TransferFunction.sample`, for ANY `cont2discrete`, `tan`, `tf2zpk`, `exp`** and
every method (zero-order hold and `matched` included): whatever the generated function returns has
the period argument itself as its timebase, never the warped step. -/
theorem generated_tfsample_dt_any (c2d : PyC2d.C2dTF K) (tan : K → K) (tf2zpk : PyC2d.Tf2zpk K) (E : K → K)
    (S : PyC2d.NamedTF K) (P : Period) (method : String) (alpha pwf : Option K) (name : Option String)
    (copy : Bool) (kw : PyC2d.LabelKw) {R : PyC2d.NamedTF K}
    (hR : Generated.tfSample c2d tan tf2zpk E S P method alpha pwf name copy kw = .ok R) :
    R.dt = P.dt := by
  unfold Generated.tfSample at hR
  split at hR
  · exact absurd hR (by simp [throw, throwThe, MonadExceptOf.throw])
  split at hR
  · exact absurd hR (by simp [throw, throwThe, MonadExceptOf.throw])
  split at hR
  · obtain ⟨s1, h1, hR⟩ := bind_ok hR
    obtain ⟨s2, h2, hR⟩ := bind_ok hR
    have hd1 := generated_matched_dt_any _ _ _ _ _ h1
    have hd2 : s2.dt = s1.dt := by
      cases copy <;> simp only [Bool.false_eq_true, if_false, if_true, pure, Except.pure, Except.ok.injEq] at h2 <;>
        subst h2 <;> rfl
    rw [(copyTF_dt hR).1, hd2, hd1]
  · obtain ⟨_, _, hR⟩ := bind_ok hR
    obtain ⟨_, _, hR⟩ := bind_ok hR
    obtain ⟨_, _, hR⟩ := bind_ok hR
    obtain ⟨_, _, hR⟩ := bind_ok hR
    obtain ⟨_, _, hR⟩ := bind_ok hR
    obtain ⟨s1, h1, hR⟩ := bind_ok hR
    obtain ⟨s2, h2, hR⟩ := bind_ok hR
    have hd1 : s1.dt = P.dt := by rw [(mkTF_dt h1).1, periodDt_eq]
    have hd2 : s2.dt = s1.dt := by
      cases copy <;> cases name <;>
        simp only [Bool.false_eq_true, if_false, if_true, pure, Except.pure, bind, Except.bind,
          Except.ok.injEq] at h2 <;> subst h2 <;> rfl
    rw [(copyTF_dt hR).1, hd2, hd1]

end dtany

section matched2

variable {K : Type} [Field K] [DecidableEq K]

/-- what `_c2d_matched` (as the source text defines it) returns, read through the equality. -/
theorem generated_matched_inv (tf2zpk : PyC2d.Tf2zpk K) (E : K → K) (S : PyC2d.NamedTF K)
    (P : Period) (kw : PyC2d.LabelKw) (zeros poles : List K) (k : K)
    (hs : IsSiso S) (hct : S.dt.isCt = true)
    (hz : tf2zpk S.num00 S.den00 = .ok (zeros, poles, k)) (hP : 0 < P.val)
    (hn : polyval S.num00 0 ≠ 0) {R : PyC2d.NamedTF K}
    (hR : Generated.tfMatched tf2zpk E S P kw = .ok R) :
    c2dMatchedP S.num00 S.den00 zeros poles E P = .ok (R.num00, R.den00, R.dt) := by
  rw [generated_matched_eq_partial tf2zpk E S P kw zeros poles k hs hct hz hP hn] at hR
  cases h : c2dMatchedP S.num00 S.den00 zeros poles E P with
  | error e => simp [h] at hR
  | ok r =>
    simp only [h] at hR
    obtain ⟨h1, h2, h3⟩ := mkTF_dt hR
    rw [h1, h2, h3]

/-- **transport of `matched_dcgain`, `matched_roots`, `matchedP_inv`**: whatever the generated
`_c2d_matched` returns has the timebase `Ts`, its value at `z = 1` is the DC gain `num(0)/den(0)` of
the continuous system, and the roots of its denominator / numerator are exactly the images
`exp(p Ts)` / `exp(s Ts)` of the poles / zeros `tf2zpk` returned. -/
theorem generated_matched_spec (tf2zpk : PyC2d.Tf2zpk K) (E : K → K) (S : PyC2d.NamedTF K)
    (P : Period) (kw : PyC2d.LabelKw) (zeros poles : List K) (k : K)
    (hs : IsSiso S) (hct : S.dt.isCt = true)
    (hz : tf2zpk S.num00 S.den00 = .ok (zeros, poles, k)) (hP : 0 < P.val)
    (hn : polyval S.num00 0 ≠ 0) {R : PyC2d.NamedTF K}
    (hR : Generated.tfMatched tf2zpk E S P kw = .ok R) :
    R.dt = P.dt ∧ polyval R.den00 1 ≠ 0 ∧
      polyval R.num00 1 / polyval R.den00 1 = polyval S.num00 0 / polyval S.den00 0 ∧
      ∀ z : K, (polyval R.den00 z = 0 ↔ ∃ p ∈ poles, z = E (p * ((P.val : ℚ) : K))) ∧
        (polyval R.num00 z = 0 ↔ ∃ s ∈ zeros, z = E (s * ((P.val : ℚ) : K))) := by
  have h := generated_matched_inv tf2zpk E S P kw zeros poles k hs hct hz hP hn hR
  obtain ⟨hd, hm⟩ := C14.matchedP_inv _ _ _ _ _ _ h
  obtain ⟨g1, g2, -⟩ := C14.matched_dcgain _ _ _ _ _ _ hm
  exact ⟨hd, g1, g2, fun z => C14.matched_roots _ _ _ _ _ _ hm z⟩

/-- **Known finding `C14-matched-origin-nan`, as a theorem about the source text**: a zero at
`s = 0` that `tf2zpk` reports (with `exp 0 = 1`) makes `zgain = 0`, the gain `dcgain / 0`: the
generated function raises `zeroDen` (NumPy: `nan` coefficients, silently returned) where the model
raises `illPosed` (`C14.matched_origin_raises`). -/
theorem generated_matched_origin (tf2zpk : PyC2d.Tf2zpk K) (E : K → K) (S : PyC2d.NamedTF K)
    (P : Period) (kw : PyC2d.LabelKw) (zeros poles : List K) (k : K)
    (hs : IsSiso S) (hz : tf2zpk S.num00 S.den00 = .ok (zeros, poles, k))
    (h0 : (0 : K) ∈ zeros) (hE : E 0 = 1) :
    Generated.tfMatched tf2zpk E S P kw = .error .zeroDen := by
  obtain ⟨h1, h2⟩ := hs
  unfold Generated.tfMatched
  simp only [PyC2d.tfIssiso, h1, h2, beq_self_eq_true, Bool.and_self, not_true_eq_false, if_false,
    PyC2d.tfNum00, PyC2d.tfDen00, one_ne_zero, or_self, bind, Except.bind, hz, periodNum_eq, periodDt_eq,
    PyC2d.tfDcgain]
  enum_loops E, ((P.val : ℚ) : K)
  simp only []
  enum_loops E, ((P.val : ℚ) : K)
  have hgn : (List.map (fun s => 1 - E (s * ((P.val : ℚ) : K))) zeros).prod = 0 := by
    apply List.prod_eq_zero
    exact List.mem_map.mpr ⟨0, h0, by simp [hE]⟩
  simp only [prod_eq, hgn, PyNum.div, zero_div]
  generalize (List.map (fun s => 1 - E (s * ((P.val : ℚ) : K))) poles).prod = gd
  by_cases hgd : gd = 0
  · simp [hgd]
  · simp only [hgd, if_false]
    generalize polyval S.den00 (if PyC2d.isctime S.dt = true then 0 else 1) = d0
    generalize polyval S.num00 (if PyC2d.isctime S.dt = true then 0 else 1) = n0
    by_cases hd0 : d0 = 0 <;> simp [hd0]

/-- a MIMO transfer function is rejected by `_c2d_matched`. -/
theorem generated_matched_mimo_raises (tf2zpk : PyC2d.Tf2zpk K) (E : K → K) (S : PyC2d.NamedTF K)
    (P : Period) (kw : PyC2d.LabelKw) (hs : ¬ IsSiso S) :
    Generated.tfMatched tf2zpk E S P kw = .error .notImplemented := by
  unfold Generated.tfMatched
  have : PyC2d.tfIssiso S = false := by
    unfold IsSiso at hs
    simp only [PyC2d.tfIssiso, Bool.and_eq_false_iff, beq_eq_false_iff_ne]
    tauto
  simp [this, throw, throwThe, MonadExceptOf.throw]

end matched2

section tfsample

variable {K : Type} [Field K] [LinearOrder K] [IsStrictOrderedRing K]

/-- **`TransferFunction.sample`, generalised bilinear family**: the function the source text
defines is the model — `tfSampleP` (continuous-time test, prewarp decision, `cont2discrete` on
`(num, den)` with the WARPED step, row 0 of the returned numerator, timebase = the period argument)
and `sampleNames` — for every SISO system, period `> 0`, method string of the family (or one SciPy
rejects), `alpha`, prewarp frequency `≠ 0` where it applies, name, `copy_names`, label keywords,
every `tan`, `tf2zpk`, `exp` and every `cont2discrete` with the model's meaning. -/
theorem generated_tfsample_eq (c2d : PyC2d.C2dTF K) (tan : K → K) (tf2zpk : PyC2d.Tf2zpk K) (E : K → K)
    (S : PyC2d.NamedTF K) (P : Period) (method : String) (alpha pwf : Option K) (name : Option String)
    (copy : Bool) (kw : PyC2d.LabelKw)
    (hs : IsSiso S) (hm : GbtFamily (methodOf method)) (hc : C2dTFMeaning c2d S.num00 S.den00)
    (hP : 0 < P.val) (hN : NamesFitTF S.names)
    (hw : pwf = some 0 → prewarpApplies (methodOf method) alpha = false) :
    Generated.tfSample c2d tan tf2zpk E S P method alpha pwf name copy kw =
      tfSampleModel tan S P method alpha pwf name copy kw := by
  obtain ⟨s1, s2⟩ := hs
  have hnm : method ≠ "matched" := by
    intro h
    have : methodOf method = .matched := (methodOf_matched method).mpr h
    rcases hm with h' | h' | h' | h' | h' | h' | h' <;> rw [this] at h' <;> exact C2dMethod.noConfusion h'
  unfold Generated.tfSample tfSampleModel tfSampleP
  rw [tfSample_family _ _ _ _ _ _ _ hm]
  simp only [isctime_eq, periodNum_eq, periodDt_eq, PyC2d.tfIssiso, s1, s2, beq_self_eq_true, Bool.and_self,
    not_true_eq_false, if_false, hnm, PyC2d.tfNum00, PyC2d.tfDen00, one_ne_zero, or_self]
  by_cases hct : S.dt.isCt = true
  swap
  · simp [hct, throw, throwThe, MonadExceptOf.throw]
  simp only [hct, not_true_eq_false, if_false, hP]
  have key : ∀ h : K, twarp (methodOf method) alpha P.val (prewarpOf tan P pwf) = .ok h →
      (do
        let t4 ← c2d (S.num00, S.den00) h method alpha
        let numd : List (List K) := t4.1
        let dend : List K := t4.2.1
        let t5 ← PyC2d.row0 numd
        let sysd ← PyC2d.mkTF t5 dend P.dt PyC2d.LabelKw.empty
        let sysd ← (do
          if (copy = true) then
            let sysd : PyC2d.NamedTF K := (PyC2d.copyNamesTF sysd S)
            let sysd ← (do
              match name with
              | some name =>
                let sysd : PyC2d.NamedTF K := (PyC2d.setNameTF sysd name)
                pure sysd
              | none =>
                pure sysd
              : Except Err (PyC2d.NamedTF K))
            pure sysd
          else
            pure sysd
          : Except Err (PyC2d.NamedTF K))
        PyC2d.copyTF sysd name kw) =
      (match (match tfGbtCore S.num00 S.den00 P.val h (methodOf method) alpha with
          | .error e => .error e
          | .ok r => .ok (r.1, r.2.1, P.dt) : Except Err (List K × List K × Dt)) with
        | .error e => .error e
        | .ok r =>
          match sampleNames S.names copy name kw.inputs kw.outputs kw.states with
          | .error e => .error e
          | .ok N => .ok ⟨1, 1, r.1, r.2.1, r.2.2, N⟩) := by
    intro h _
    rw [hc h method alpha hm, tfGbtCore_period S.num00 S.den00 P.val h]
    cases hR : tfGbtCore S.num00 S.den00 0 h (methodOf method) alpha with
    | error e => rfl
    | ok r =>
      have hrow : PyC2d.row0 [r.1] = .ok r.1 := by
        simp [PyC2d.row0, PyArith.getItem, PyArith.normIdx]
      simp only [bind, Except.bind, hrow]
      exact names_steps_tf S.names hN r.1 r.2.1 P.dt S rfl name copy kw
  cases pwf with
  | none =>
    simp only [prewarpOf, Option.map_none, twarp, bind, Except.bind, pure, Except.pure]
    exact key _ rfl
  | some w =>
    by_cases hp : prewarpApplies (methodOf method) alpha = true
    · have hw0 : w ≠ 0 := by
        intro h0
        subst h0
        rw [hw rfl] at hp
        exact Bool.false_ne_true hp
      have htw : twarp (methodOf method) alpha P.val (prewarpOf tan P (some w))
          = .ok (2 * tan (w * ((P.val : ℚ) : K) / 2) / w) := by
        simp [twarp, prewarpOf, hp, hw0]
      simp only [(prewarp_test_iff method alpha).mpr hp, if_true, PyNum.div, hw0, if_false, bind,
        Except.bind, pure, Except.pure, htw]
      exact key _ htw
    · have hp' : prewarpApplies (methodOf method) alpha = false := by simpa using hp
      have htw : twarp (methodOf method) alpha P.val (prewarpOf tan P (some w)) = .ok ((P.val : ℚ) : K) := by
        simp [twarp, prewarpOf, hp']
      have hno : ¬ (method = "bilinear" ∨ method = "tustin" ∨ (method = "gbt" ∧ alpha = some ((1 : K) / (2 : K)))) :=
        fun h => hp ((prewarp_test_iff method alpha).mp h)
      simp only [hno, if_false, bind, Except.bind, pure, Except.pure, htw]
      exact key _ htw

/-- **`TransferFunction.sample(method='matched')`**: the generated function is the model's
`c2dMatchedP` on the roots `tf2zpk` returns, then `sampleNames` — whatever `alpha` and the prewarp
frequency are (ignored with a warning), for every `cont2discrete` and `tan` (not called).
PARTIAL as `generated_matched_eq_partial` (`num(0) ≠ 0`, error tag). -/
theorem generated_tfsample_matched_eq_partial (c2d : PyC2d.C2dTF K) (tan : K → K) (tf2zpk : PyC2d.Tf2zpk K)
    (E : K → K) (S : PyC2d.NamedTF K) (P : Period) (alpha pwf : Option K) (name : Option String)
    (copy : Bool) (kw : PyC2d.LabelKw) (zeros poles : List K) (k : K)
    (hs : IsSiso S) (hct : S.dt.isCt = true)
    (hz : tf2zpk S.num00 S.den00 = .ok (zeros, poles, k)) (hP : 0 < P.val)
    (hn : polyval S.num00 0 ≠ 0) (hN : NamesFitTF S.names) :
    Generated.tfSample c2d tan tf2zpk E S P "matched" alpha pwf name copy kw =
      (match c2dMatchedP S.num00 S.den00 zeros poles E P with
        | .error e => .error (matchedErr e)
        | .ok r =>
          match sampleNames S.names copy name kw.inputs kw.outputs kw.states with
          | .error e => .error e
          | .ok N => .ok ⟨1, 1, r.1, r.2.1, r.2.2, N⟩) := by
  unfold Generated.tfSample
  simp only [isctime_eq, hct, PyC2d.tfIssiso, hs.1, hs.2, beq_self_eq_true, Bool.and_self, not_true_eq_false,
    if_false, if_true]
  rw [generated_matched_eq_partial tf2zpk E S P .empty zeros poles k hs hct hz hP hn]
  cases c2dMatchedP S.num00 S.den00 zeros poles E P with
  | error e => rfl
  | ok r => exact names_steps_matched S.names hN r.1 r.2.1 r.2.2 S rfl name copy kw

/-- a MIMO transfer function is rejected (`ControlMIMONotImplemented`), whatever the method. -/
theorem generated_tfsample_mimo_raises (c2d : PyC2d.C2dTF K) (tan : K → K) (tf2zpk : PyC2d.Tf2zpk K)
    (E : K → K) (S : PyC2d.NamedTF K) (P : Period) (method : String) (alpha pwf : Option K)
    (name : Option String) (copy : Bool) (kw : PyC2d.LabelKw) (hct : S.dt.isCt = true)
    (hs : ¬ IsSiso S) :
    Generated.tfSample c2d tan tf2zpk E S P method alpha pwf name copy kw = .error .notImplemented := by
  unfold Generated.tfSample
  have : PyC2d.tfIssiso S = false := by
    unfold IsSiso at hs
    simp only [PyC2d.tfIssiso, Bool.and_eq_false_iff, beq_eq_false_iff_ne]
    tauto
  simp [isctime_eq, hct, this, throw, throwThe, MonadExceptOf.throw]

/-- a discrete-time transfer function is rejected. -/
theorem generated_tfsample_not_continuous_raises (c2d : PyC2d.C2dTF K) (tan : K → K)
    (tf2zpk : PyC2d.Tf2zpk K) (E : K → K) (S : PyC2d.NamedTF K) (P : Period) (method : String)
    (alpha pwf : Option K) (name : Option String) (copy : Bool) (kw : PyC2d.LabelKw)
    (hct : S.dt.isCt = false) :
    Generated.tfSample c2d tan tf2zpk E S P method alpha pwf name copy kw = .error .timebase := by
  unfold Generated.tfSample
  simp [isctime_eq, hct, throw, throwThe, MonadExceptOf.throw]

/-- **transport of `tfSampleP_dt` and `tfGbt_eval`**: whatever the generated function returns for a
method of the family is a SISO system with timebase `Ts` whose coefficients are `tfGbt α h num den`
(`α` from the method, `h = Ts` or the prewarped step), hence `nd(z)/dd(z) = num(s)/den(s)` at
`s = (z-1)/(h(αz+1-α))` wherever that is defined. -/
theorem generated_tfsample_eval (c2d : PyC2d.C2dTF K) (tan : K → K) (tf2zpk : PyC2d.Tf2zpk K) (E : K → K)
    (S : PyC2d.NamedTF K) (P : Period) (method : String) (alpha pwf : Option K) (name : Option String)
    (copy : Bool) (kw : PyC2d.LabelKw)
    (hs : IsSiso S) (hm : GbtFamily (methodOf method)) (hc : C2dTFMeaning c2d S.num00 S.den00)
    (hP : 0 < P.val) (hN : NamesFitTF S.names)
    (hw : pwf = some 0 → prewarpApplies (methodOf method) alpha = false) {R : PyC2d.NamedTF K}
    (hR : Generated.tfSample c2d tan tf2zpk E S P method alpha pwf name copy kw = .ok R) :
    R.dt = P.dt ∧ R.noutputs = 1 ∧ R.ninputs = 1 ∧
      ∃ a h, gbtAlpha (methodOf method) alpha = .ok a ∧
        twarp (methodOf method) alpha P.val (prewarpOf tan P pwf) = .ok h ∧
        tfGbt a h S.num00 S.den00 = .ok (R.num00, R.den00) ∧
        ∀ z : K, h * (a * z + 1 - a) ≠ 0 → polyval S.den00 ((z - 1) / (h * (a * z + 1 - a))) ≠ 0 →
          polyval R.den00 z ≠ 0 ∧
          polyval R.num00 z / polyval R.den00 z =
            polyval S.num00 ((z - 1) / (h * (a * z + 1 - a))) / polyval S.den00 ((z - 1) / (h * (a * z + 1 - a))) := by
  rw [generated_tfsample_eq c2d tan tf2zpk E S P method alpha pwf name copy kw hs hm hc hP hN hw] at hR
  unfold tfSampleModel at hR
  cases h1 : tfSampleP S.num00 S.den00 S.dt P (methodOf method) alpha (prewarpOf tan P pwf) with
  | error e => simp [h1] at hR
  | ok r =>
    obtain ⟨nd, dd, d⟩ := r
    cases h2 : sampleNames S.names copy name kw.inputs kw.outputs kw.states with
    | error e => simp [h1, h2] at hR
    | ok N =>
      simp only [h1, h2, Except.ok.injEq] at hR
      subst hR
      obtain ⟨hd, -, a, h, ha, htw, ht⟩ := C14.tfSampleP_dt _ _ _ _ _ _ _ h1
      exact ⟨hd, rfl, rfl, a, h, ha, htw, ht, fun z hq hden => C14.tfGbt_eval a h _ _ _ _ ht z hq hden⟩

end tfsample

/-! ### non-vacuity -/

section examples

/-- `1/(s+1)` and `(s+2)/((s+1)(s+3))` as named SISO transfer-function objects. -/
def exTF1 : PyC2d.NamedTF ℚ := ⟨1, 1, [1], [1, 1], .cont, ⟨some "lag", ["u"], ["y"], []⟩⟩
def exTF2 : PyC2d.NamedTF ℚ := ⟨1, 1, [1, 2], [1, 4, 3], .cont, ⟨some "pz", ["u"], ["y"], []⟩⟩

/-- the generated `TransferFunction.sample` RETURNS on `1/(s+1)`, Tustin, `Ts = True`, with the
model's `cont2discrete`: coefficients `(z+1)/(3z-1)` normalised, timebase `True` (not `1.0`), name
`lag$sampled` — every hypothesis of `generated_tfsample_eq / _eval` is met. -/
example : Generated.tfSample c2dTFOfModel (fun _ => 0) (fun _ _ => .error .missing) (fun x => x) exTF1 .btrue
      "bilinear" none none none true .empty
    = .ok ⟨1, 1, [1 / 3, 1 / 3], [1, -1 / 3], .dtrue, ⟨some "lag$sampled", ["u"], ["y"], []⟩⟩ := by
  rw [generated_tfsample_eq _ _ _ _ _ _ _ _ _ _ _ _ ⟨rfl, rfl⟩ (Or.inr (Or.inl (by decide)))
    (c2dTFOfModel_meaning _ _) (by decide +kernel) ⟨rfl, rfl, rfl⟩ (by intro h; exact absurd h (by simp))]
  have hm : methodOf "bilinear" = .bilinear := by decide
  have h : tfSampleP (K := ℚ) [1] [1, 1] .cont .btrue .bilinear none none
      = .ok ([1 / 3, 1 / 3], [1, -1 / 3], .dtrue) := by decide +kernel
  unfold tfSampleModel
  simp only [exTF1, hm, prewarpOf, Option.map_none, h]
  rfl

/-- the generated `_c2d_matched` RETURNS on `(s+2)/((s+1)(s+3))` with the roots `-2 | -1, -3`
and a stand-in `exp` (`x ↦ 1/(1-x)`), timebase 1: hypotheses of `generated_matched_eq_partial /
_spec` are met; a reported zero at the origin raises (`generated_matched_origin`). -/
example : ∃ R, Generated.tfMatched (fun _ _ => .ok ([-2], [-1, -3], (1 : ℚ))) (fun x => 1 / (1 - x)) exTF2
      (.num 1) .empty = .ok R ∧ R.dt = .disc 1 := by
  have hm := generated_matched_eq_partial (fun _ _ => .ok ([-2], [-1, -3], (1 : ℚ))) (fun x => 1 / (1 - x))
    exTF2 (.num 1) .empty [-2] [-1, -3] 1 ⟨rfl, rfl⟩ rfl rfl (by decide +kernel) (by decide +kernel)
  obtain ⟨r, h1, h2⟩ := okAnd_spec
    (r := c2dMatchedP (K := ℚ) [1, 2] [1, 4, 3] [-2] [-1, -3] (fun x => 1 / (1 - x)) (.num 1))
    (p := fun r => decide (r.2.2 = .disc 1)) (by decide +kernel)
  have h1' : c2dMatchedP exTF2.num00 exTF2.den00 [-2] [-1, -3] (fun x => 1 / (1 - x)) (.num 1) = .ok r := h1
  rw [h1'] at hm
  refine ⟨⟨1, 1, r.1, r.2.1, r.2.2, ⟨none, ["u[0]"], ["y[0]"], []⟩⟩, ?_, of_decide_eq_true h2⟩
  rw [hm]
  rfl
example : Generated.tfMatched (fun _ _ => .ok ([0], [-1], (1 : ℚ))) (fun _ => 1)
      ⟨1, 1, [1, 0], [1, 1], .cont, ⟨none, ["u"], ["y"], []⟩⟩ (.num 1) .empty = .error .zeroDen :=
  generated_matched_origin _ _ _ _ _ [0] [-1] 1 ⟨rfl, rfl⟩ rfl (by simp) rfl
/-- a 2×1 transfer function and a discrete-time one are rejected. -/
example : Generated.tfSample (K := ℚ) c2dTFOfModel (fun _ => 0) (fun _ _ => .error .missing) (fun x => x)
      { exTF1 with noutputs := 2 } (.num 1) "zoh" none none none true .empty = .error .notImplemented :=
  generated_tfsample_mimo_raises _ _ _ _ _ _ _ _ _ _ _ _ rfl (by simp [IsSiso, exTF1])
example : Generated.tfSample (K := ℚ) c2dTFOfModel (fun _ => 0) (fun _ _ => .error .missing) (fun x => x)
      { exTF1 with dt := .disc 1 } (.num 1) "zoh" none none none true .empty = .error .timebase :=
  generated_tfsample_not_continuous_raises _ _ _ _ _ _ _ _ _ _ _ _ rfl

end examples

end CtrlVerif.C14GenSample
