/-
Source-text tie of C01 (DESIGN §10.3, notes/NOTES-py2lean-tf.md), part 5: `TransferFunction.feedback`.

`Generated/TFFeedback.lean` is rewritten on every run from the text of `feedback` in
control/xferfcn.py of the tree under check by `harness/core/py2lean_tf.py` (conversion of the
operand, the MIMO test raising `ControlMIMONotImplemented`, `common_timebase`, and
`num = n1·d2`, `den = d2·d1 + (-sign)·(n2·n1)`, the constructor; defaults `other=1, sign=-1`
checked by the translator).  The run-time operator `DTF.feedback` of the model is proved EQUAL to it
for every operand kind, all non-empty shapes (see `Props/C01GenDiv.lean` for why non-empty), all
coefficient lists, every `sign` and every pair of timebases, over any field.
-/
import CtrlVerif.Generated.TFFeedback
import CtrlVerif.Lemmas.C01Gen
import CtrlVerif.Props.C01

namespace CtrlVerif.C01Gen
open CtrlVerif

variable {K : Type} [Field K] [DecidableEq K]

/-- `self.feedback(other, sign)` for a `TransferFunction` operand. -/
theorem generated_feedback_tf (G H : DTF K) (sign : K) (hG : 0 < G.p ∧ 0 < G.m)
    (hH : 0 < H.p ∧ 0 < H.m) :
    Generated.TF.feedback G (.tf H) sign = DTF.feedbackCore G H sign := by
  unfold Generated.TF.feedback DTF.feedbackCore
  simp only [convert_tf, PyArith.ok_bind]
  by_cases hGs : G.isSiso = true
  · by_cases hHs : H.isSiso = true
    · obtain ⟨hGp, hGm⟩ := (isSiso_iff G).mp hGs
      obtain ⟨hHp, hHm⟩ := (isSiso_iff H).mp hHs
      have c : ¬ (1 < PyTF.ninputs G ∨ 1 < PyTF.noutputs G ∨ 1 < PyTF.ninputs H ∨ 1 < PyTF.noutputs H) := by
        simp [PyTF.ninputs, PyTF.noutputs, hGp, hGm, hHp, hHm]
      rw [if_neg c]
      simp only [hGs, hHs, Bool.not_true, Bool.or_false, Bool.false_eq_true, if_false]
      refine PyTF.bind_congr' rfl ?_
      intro dt
      rw [numArray_getItem_zero G hG.1 hG.2, denArray_getItem_zero G hG.1 hG.2,
        numArray_getItem_zero H hH.1 hH.2, denArray_getItem_zero H hH.1 hH.2]
      rfl
    · have c : 1 < PyTF.ninputs G ∨ 1 < PyTF.noutputs G ∨ 1 < PyTF.ninputs H ∨ 1 < PyTF.noutputs H := by
        rcases not_siso_gt H hH hHs with h | h
        · exact Or.inr (Or.inr (Or.inl h))
        · exact Or.inr (Or.inr (Or.inr h))
      rw [if_pos c]
      simp [hHs]
  · have c : 1 < PyTF.ninputs G ∨ 1 < PyTF.noutputs G ∨ 1 < PyTF.ninputs H ∨ 1 < PyTF.noutputs H := by
      rcases not_siso_gt G hG hGs with h | h
      · exact Or.inl h
      · exact Or.inr (Or.inl h)
    rw [if_pos c]
    simp [hGs]

/-- **`feedback` as the source text says it is the model's `DTF.feedback`.** -/
theorem generated_feedback_eq (G : DTF K) (x : Operand K) (sign : K) (hG : 0 < G.p ∧ 0 < G.m)
    (hx : opNonempty x) :
    Generated.TF.feedback G (PyTF.ofOperand x) sign = DTF.feedback G x sign := by
  cases x with
  | sys H => exact generated_feedback_tf G H sign hG hx
  | scalar c =>
    have e : Generated.TF.feedback G (.scalar c) sign
        = Generated.TF.feedback G (.tf (DTF.ofScalar c 1 1)) sign := by
      unfold Generated.TF.feedback
      rfl
    exact e.trans (generated_feedback_tf G _ sign hG ⟨Nat.one_pos, Nat.one_pos⟩)
  | array p m D =>
    have e : Generated.TF.feedback G (.array p m D) sign
        = Generated.TF.feedback G (.tf (DTF.ofArray p m D)) sign := by
      unfold Generated.TF.feedback
      rfl
    exact e.trans (generated_feedback_tf G _ sign hG hx)

theorem generated_feedback_foreign (G : DTF K) (sign : K) :
    Generated.TF.feedback G .foreign sign = .error .notImplemented := by
  unfold Generated.TF.feedback
  rfl

/-- on a system without inputs or outputs (no such object exists) the text and the model both raise
— the model `notImplemented`, the text whatever comes first (`notImplemented`, a timebase error, or
the `IndexError` of `num_array[0, 0]`); so "returns" and "raises" agree for ALL shapes. -/
theorem generated_feedback_empty_raises (G H : DTF K) (sign : K)
    (h : (G.p = 0 ∨ G.m = 0) ∨ (H.p = 0 ∨ H.m = 0)) :
    (∃ e, Generated.TF.feedback G (.tf H) sign = .error e) ∧
      DTF.feedbackCore G H sign = .error .notImplemented := by
  constructor
  · unfold Generated.TF.feedback
    simp only [convert_tf, PyArith.ok_bind]
    split
    · exact ⟨_, rfl⟩
    · cases common G.dt H.dt with
      | error e => exact ⟨e, rfl⟩
      | ok dt =>
        rw [PyArith.ok_bind]
        by_cases hG : G.p = 0 ∨ G.m = 0
        · by_cases hH : H.p = 0 ∨ H.m = 0
          · simp only [numArray_getItem_zero_empty G hG, denArray_getItem_zero_empty G hG,
              numArray_getItem_zero_empty H hH, denArray_getItem_zero_empty H hH, PyArith.error_bind]
            exact ⟨_, rfl⟩
          · have hH' : 0 < H.p ∧ 0 < H.m := by omega
            simp only [numArray_getItem_zero_empty G hG, denArray_getItem_zero_empty G hG,
              numArray_getItem_zero H hH'.1 hH'.2, denArray_getItem_zero H hH'.1 hH'.2,
              PyArith.error_bind, PyArith.ok_bind]
            exact ⟨_, rfl⟩
        · have hG' : 0 < G.p ∧ 0 < G.m := by omega
          have hH : H.p = 0 ∨ H.m = 0 := by rcases h with h | h; exact absurd h hG; exact h
          simp only [numArray_getItem_zero G hG'.1 hG'.2, denArray_getItem_zero G hG'.1 hG'.2,
            numArray_getItem_zero_empty H hH, denArray_getItem_zero_empty H hH,
            PyArith.error_bind, PyArith.ok_bind]
          exact ⟨_, rfl⟩
  · unfold DTF.feedbackCore
    have : G.isSiso = false ∨ H.isSiso = false := by
      simp only [DTF.isSiso]
      rcases h with (h | h) | (h | h) <;> simp [h]
    rcases this with h | h <;> simp [h]

end CtrlVerif.C01Gen
