/-
Source-text tie of C08, part 1b: the discrete-time simulation loop of `input_output_response`
(control/nlsys.py).  `Generated/NLDiscLoop.lean` is rewritten from the source text of the tree under
check on every run (harness/core/py2lean_nl.py); the model `IOSys.simulate` is proved EQUAL to it.
-/
import CtrlVerif.Generated.NLDiscLoop
import CtrlVerif.Lemmas.PyNL
import CtrlVerif.Props.C08

namespace CtrlVerif.C08Gen

open CtrlVerif IOSys PyNL

variable {K : Type} [Field K] [DecidableEq K]

/-- **generated_discLoop_eq**: the statements of the discrete-time branch (initialisation, the loop
`for t in t_eval`, the conversion of the collected lists) compute exactly the model's `simulate`,
for every system (all sizes, arbitrary update and output maps, which may raise), every input
function, every list of evaluation times and every initial state: the block returns
`(t_eval, outputs, states, inputs)` of the model's trajectory and raises the model's error. -/
theorem generated_discLoop_eq {n m p : Nat} (G : IOSys (Fin n) (Fin m) (Fin p) K)
    (uf : K → Except Err (Fin m → K)) (ts : List K) (x0 : Fin n → K) :
    Generated.nlDiscLoop (listFun G.f) (listFun G.h) (fun t => (uf t).map List.ofFn) ts (List.ofFn x0)
      = (simulate G uf ts x0).map fun tr =>
          (ts, (tr.map (·.2.2)).map List.ofFn, (tr.map (·.1)).map List.ofFn,
            (tr.map (·.2.1)).map List.ofFn) := by
  unfold Generated.nlDiscLoop
  simp only []
  refine (foldlM_simulate_bind G uf _ ?_ _ ?_ ts [] [] [] x0).trans ?_
  · intro ys sy us x t
    cases hu : uf t with
    | error e => simp [hu, Except.map, bind, Except.bind]
    | ok u =>
      simp only [hu, Except.map, bind, Except.bind, getItem_append_singleton_neg_one, listFun_ofFn]
      cases hy : G.h t x u with
      | error e => simp
      | ok y =>
        cases hx : G.f t x u with
        | error e => simp
        | ok x' => simp [pure, Except.pure]
  · intro a b c x x'
    rfl
  · cases simulate G uf ts x0 with
    | error e => rfl
    | ok tr =>
      simp only [List.nil_append, transposeStack_ofFn, bind, Except.bind, pure, Except.pure, Except.map]

/-- transported **discrete_recursion**: whenever the block of the source text returns, the returned
arrays are those of a trajectory `tr` with `u[k] = ufun(t_k)`, `y[k] = h(t_k, x[k], u[k])`,
`x[k+1] = f(t_k, x[k], u[k])` and `x[0] = X0` — for every system, input function and time list. -/
theorem generated_discrete_recursion {n m p : Nat} (G : IOSys (Fin n) (Fin m) (Fin p) K)
    (uf : K → Except Err (Fin m → K)) (ts : List K) (x0 : Fin n → K)
    (tout : List K) (yout xout uout : List (List K))
    (h : Generated.nlDiscLoop (listFun G.f) (listFun G.h) (fun t => (uf t).map List.ofFn) ts
      (List.ofFn x0) = .ok (tout, yout, xout, uout)) :
    ∃ tr : List ((Fin n → K) × (Fin m → K) × (Fin p → K)),
      tout = ts ∧ tr.length = ts.length ∧
      yout = (tr.map (·.2.2)).map List.ofFn ∧ xout = (tr.map (·.1)).map List.ofFn ∧
      uout = (tr.map (·.2.1)).map List.ofFn ∧
      (∀ (h0 : 0 < tr.length), tr[0].1 = x0) ∧
      ∀ (k : Nat) (hk : k < ts.length) (hk' : k < tr.length),
        uf ts[k] = .ok tr[k].2.1 ∧ G.h ts[k] tr[k].1 tr[k].2.1 = .ok tr[k].2.2 ∧
        ∀ (h1 : k + 1 < tr.length), G.f ts[k] tr[k].1 tr[k].2.1 = .ok tr[k + 1].1 := by
  rw [generated_discLoop_eq] at h
  cases hs : simulate G uf ts x0 with
  | error e => simp [hs, Except.map] at h
  | ok tr =>
    simp only [hs, Except.map, Except.ok.injEq, Prod.mk.injEq] at h
    obtain ⟨h1, h2, h3, h4⟩ := h
    exact ⟨tr, h1.symm, C08.simulate_length G uf ts x0 tr hs, h2.symm, h3.symm, h4.symm,
      fun h0 => C08.simulate_init G uf ts x0 tr hs h0, C08.discrete_recursion G uf ts x0 tr hs⟩

/-- non-vacuity: the accumulator `x⁺ = x + u`, `y = 2x`, input `u(t) = t`, three steps. -/
example :
    Generated.nlDiscLoop (K := ℚ)
      (fun _ x u => (PyNL.vadd x u)) (fun _ x _ => .ok (x.map (2 * ·))) (fun t => .ok [t])
      [0, 1, 2] [5] = .ok ([0, 1, 2], [[10], [10], [12]], [[5], [5], [6]], [[0], [1], [2]]) := by
  decide +kernel

end CtrlVerif.C08Gen
