/-
Source-text tie of C20, argument processing at the head of `point_to_point` / `solve_flat_optimal`
(control/flatsys/flatsys.py; tag py2lean-p2phead).  `Generated/P2PHead{Params,Time,Basis,Route,Boundary}.lean`
are rewritten from the source text on every run by `harness/core/py2lean_p2phead.py`; the hand-written model
(`Model/FlatParams.lean: p2pParams`, `Model/FlatHead.lean`) is proved EQUAL to them, for all arguments.

* `generated_p2pParams_eq`, `generated_sfoParams_eq` — the parameter resolution statement IS `p2pParams`
  (= `dynParams`, what `NonlinearIOSystem._update_params` hands to the dynamics), for every stored dict and every
  argument (`None`, `{}`, partial, full); `generated_params_eq_update_params` (= the GENERATED `_update_params`
  of nlsys.py); `generated_params_lookup`, `generated_params_none`,
  `generated_params_empty`, `generated_params_read` — what a read of the user's callables sees;
* `generated_p2pTime_eq`, `generated_sfoTime_eq` — the `timepts` statements are `timeSel` / `sfoTime`;
  `generated_p2pTime_array` (`T0 = timepts[0]`, `Tf = timepts[-1]` for every sequence with at least two entries),
  `generated_p2pTime_scalar`, `generated_p2pTime_single`, `generated_p2pTime_empty`;
* `checkConvert_eq`, `generated_p2pBoundary_eq`, `generated_p2pBoundary_zero` — boundary values;
* `generated_p2pBasis_eq`, `generated_sfoBasis_eq`, `generated_default_basis_size`;
* `generated_p2pRoute_eq`, `generated_route_direct_iff`;
* `p2pParGen`, `trajEvalParGen`, `p2pCallGen` — the planning call with the GENERATED head in front of the model of
  the rest; `p2pParGen_eq`, `trajEvalParGen_eq`, `generated_call_eq`; transported headline theorems
  `generated_par_endpoints`, `generated_par_feasible`, `generated_call_endpoints`.
-/
import CtrlVerif.Generated.P2PHeadParams
import CtrlVerif.Generated.P2PHeadTime
import CtrlVerif.Generated.P2PHeadBasis
import CtrlVerif.Generated.P2PHeadRoute
import CtrlVerif.Generated.P2PHeadBoundary
import CtrlVerif.Generated.NLUpdateLeaf
import CtrlVerif.Model.FlatHead
import CtrlVerif.Props.C20Params

namespace CtrlVerif.C20GenHead

open CtrlVerif FlatHead

variable {K : Type}

/-! ### the Python values the model's arguments stand for -/

def TimeSpec.toPy : TimeSpec K → PyHead.TimeArg K
  | .final v => .scalar v
  | .grid ts => .array ts

def Bnd.toPy : Bnd K → PyHead.BVal K
  | .all v => .scalar v
  | .vec xs => .vec xs

/-- the route as the truth value of the test that guards the optimisation. -/
def Route.ofBool : Bool → Route
  | true => .optimize
  | false => .direct

/-! ### parameter resolution -/

/-- **generated_p2pParams_eq**: `params = sys.params if params is None else {**sys.params, **params}` of
`point_to_point`, as the source text says it, is the model's resolution — the dict `sys.dynamics(…, params=arg)`
reads — for every stored dict `d` and every argument. -/
theorem generated_p2pParams_eq (d : PDict K) (arg : Option (PDict K)) :
    Generated.p2pHeadParams d arg = .ok (p2pParams d arg) := by
  cases arg <;>
    simp [Generated.p2pHeadParams, PyHead.dictDisplay, PyNL.Dict.update, p2pParams, dynParams, PDict.update,
      bind, Except.bind, pure, Except.pure]

/-- the same statement in `solve_flat_optimal`. -/
theorem generated_sfoParams_eq (d : PDict K) (arg : Option (PDict K)) :
    Generated.sfoHeadParams d arg = .ok (p2pParams d arg) := by
  cases arg <;>
    simp [Generated.sfoHeadParams, PyHead.dictDisplay, PyNL.Dict.update, p2pParams, dynParams, PDict.update,
      bind, Except.bind, pure, Except.pure]

/-- **generated_params_eq_update_params**: the resolution statement of `point_to_point` (flatsys.py) and
`NonlinearIOSystem._update_params` (nlsys.py; `Generated/NLUpdateLeaf.lean`, re-generated from the same tree, tied
to the model of C08 by `C08Gen.generated_updateLeaf_eq`), BOTH as their source texts say them, produce the same dict
— what `forward` / `reverse` receive is what `sys.dynamics(…, params=arg)` hands to the update function — for every
stored dict and every argument, any key and value types. -/
theorem generated_params_eq_update_params {κ ν : Type} (d : PyNL.Dict κ ν) (arg : Option (PyNL.Dict κ ν)) :
    Generated.p2pHeadParams d arg = Generated.nlUpdateLeaf d arg := by
  unfold Generated.p2pHeadParams Generated.nlUpdateLeaf
  rcases arg with _ | _ | ⟨a, as⟩ <;>
    simp [PyHead.dictDisplay, PyNL.Dict.truthy, PyNL.Dict.updateOpt, PyNL.Dict.update, bind, Except.bind, pure,
      Except.pure]

/-- a key of the generated resolution: the argument's entry when there is one, else the stored one
(replacing instead of merging, or merging in the other order, cannot satisfy this). -/
theorem generated_params_lookup (d o : PDict K) (k : Nat) :
    (Generated.p2pHeadParams d (some o)).map (·.lookup k) = .ok ((o.lookup k).or (d.lookup k)) := by
  rw [generated_p2pParams_eq]
  simp [Except.map, p2pParams, dynParams, C20Params.lookup_update]

theorem generated_params_none (d : PDict K) : Generated.p2pHeadParams d none = .ok d := by
  rw [generated_p2pParams_eq]; rfl

theorem generated_params_empty (d : PDict K) : Generated.p2pHeadParams d (some []) = .ok d := by
  rw [generated_p2pParams_eq, p2pParams, C20Params.dynParams_empty]

/-- every read of the user's callables sees under the generated resolution what it sees in the dynamics. -/
theorem generated_params_read (r : PRead K) (d : PDict K) (arg : Option (PDict K)) :
    (Generated.p2pHeadParams d arg).map r.val = .ok (r.val (dynParams d arg)) := by
  rw [generated_p2pParams_eq]; rfl

/-! ### time handling -/

theorem getItem_neg_one {α : Type} (xs : List α) (h : xs ≠ []) :
    PyArith.getItem xs (-1) = .ok (xs.getLast h) := by
  have hl : 0 < xs.length := List.length_pos_iff.mpr h
  have h1 : PyArith.normIdx xs.length (-1) = .ok (xs.length - 1) := by
    unfold PyArith.normIdx
    rw [if_neg (by omega), if_pos (by omega)]
    congr 1
    omega
  unfold PyArith.getItem
  rw [h1]
  simp only []
  rw [List.getElem?_eq_getElem (by omega), List.getLast_eq_getElem]

theorem getItem_zero {α : Type} (x : α) (xs : List α) : PyArith.getItem (x :: xs) 0 = .ok x := by
  have h1 : PyArith.normIdx (x :: xs).length 0 = .ok 0 := by
    unfold PyArith.normIdx
    rw [if_pos (by simp)]
    rfl
  unfold PyArith.getItem
  rw [h1]
  rfl

theorem getItem_nil {α : Type} (i : Int) : PyArith.getItem ([] : List α) i = .error .indexRange := by
  have h1 : PyArith.normIdx ([] : List α).length i = .error .indexRange := by
    unfold PyArith.normIdx
    rw [if_neg (by simp), if_neg (by simp)]
  unfold PyArith.getItem
  rw [h1]

variable [Field K]

/-- **generated_p2pTime_eq**: the `timepts` statements of `point_to_point`, as the source text says them, are
`timeSel` — for a scalar, for every sequence (empty, one entry, more), every `T0` argument. -/
theorem generated_p2pTime_eq (tp : TimeSpec K) (T0 : K) :
    Generated.p2pHeadTime (TimeSpec.toPy tp) T0 = timeSel tp T0 := by
  unfold Generated.p2pHeadTime
  cases tp with
  | final v =>
    have := getItem_neg_one [v] (by simp)
    simp [TimeSpec.toPy, PyHead.atleast1d, this, timeSel, bind, Except.bind, pure, Except.pure]
  | grid ts =>
    match ts with
    | [] => simp [TimeSpec.toPy, PyHead.atleast1d, getItem_nil, timeSel, bind, Except.bind, pure, Except.pure]
    | [t] =>
      have := getItem_neg_one [t] (by simp)
      simp [TimeSpec.toPy, PyHead.atleast1d, this, timeSel, bind, Except.bind, pure, Except.pure]
    | t0 :: t1 :: rest =>
      have h1 := getItem_neg_one (t0 :: t1 :: rest) (by simp)
      have h0 := getItem_zero t0 (t1 :: rest)
      simp [TimeSpec.toPy, PyHead.atleast1d, h1, h0, timeSel, bind, Except.bind, pure, Except.pure]

/-- a sequence with at least two entries: `T0 = timepts[0]`, `Tf = timepts[-1]`, whatever `T0` argument. -/
theorem generated_p2pTime_array (ts : List K) (h : 2 ≤ ts.length) (T0 : K) :
    Generated.p2pHeadTime (.array ts) T0 =
      .ok (ts.head (by intro e; simp [e] at h), ts.getLast (by intro e; simp [e] at h)) := by
  match ts, h with
  | t0 :: t1 :: rest, _ =>
    have := generated_p2pTime_eq (.grid (t0 :: t1 :: rest)) T0
    simp only [TimeSpec.toPy] at this
    rw [this]
    simp [timeSel]

/-- a scalar: the `T0` argument and the value itself. -/
theorem generated_p2pTime_scalar (v T0 : K) : Generated.p2pHeadTime (.scalar v) T0 = .ok (T0, v) :=
  generated_p2pTime_eq (.final v) T0

/-- a one-entry sequence behaves like the scalar. -/
theorem generated_p2pTime_single (v T0 : K) : Generated.p2pHeadTime (.array [v]) T0 = .ok (T0, v) :=
  generated_p2pTime_eq (.grid [v]) T0

/-- an empty sequence: `IndexError`. -/
theorem generated_p2pTime_empty (T0 : K) : Generated.p2pHeadTime (.array []) T0 = .error .indexRange :=
  generated_p2pTime_eq (.grid []) T0

/-- **generated_sfoTime_eq**: the `timepts` statements of `solve_flat_optimal`. -/
theorem generated_sfoTime_eq (tp : TimeSpec K) :
    Generated.sfoHeadTime (TimeSpec.toPy tp) = .ok (sfoTime tp) := by
  unfold Generated.sfoHeadTime
  cases tp with
  | final v => simp [TimeSpec.toPy, PyHead.atleast1d, sfoTime, bind, Except.bind, pure, Except.pure]
  | grid ts =>
    match ts with
    | [] => simp [TimeSpec.toPy, PyHead.atleast1d, sfoTime, bind, Except.bind, pure, Except.pure]
    | [t] => simp [TimeSpec.toPy, PyHead.atleast1d, sfoTime, bind, Except.bind, pure, Except.pure]
    | t0 :: t1 :: rest =>
      have h0 := getItem_zero t0 (t1 :: rest)
      simp [TimeSpec.toPy, PyHead.atleast1d, h0, sfoTime, bind, Except.bind, pure, Except.pure]

/-! ### boundary values -/

/-- `_check_convert_array(x, [(n,), (n, 1)], msg, squeeze=True)` (the trusted primitive) is `broadcast n`. -/
theorem checkConvert_eq (n : Nat) (x : Bnd K) :
    PyHead.checkConvertArray (Bnd.toPy x) [[n], [n, 1]] = broadcast n x := by
  cases x with
  | all v => simp [Bnd.toPy, PyHead.checkConvertArray, broadcast]
  | vec xs =>
    by_cases h : xs.length = n <;> simp [Bnd.toPy, PyHead.checkConvertArray, broadcast, h]

/-- **generated_p2pBoundary_eq**: the four conversion statements use the state size for `x0`, `xf` and the
input size for `u0`, `uf`. -/
theorem generated_p2pBoundary_eq (n m : Nat) (x0 u0 xf uf : Bnd K) :
    Generated.p2pHeadBoundary n m (Bnd.toPy x0) (Bnd.toPy u0) (Bnd.toPy xf) (Bnd.toPy uf)
      = boundaries n m x0 u0 xf uf := by
  unfold Generated.p2pHeadBoundary boundaries
  simp only [checkConvert_eq]

/-- the defaults `x0 = u0 = xf = uf = 0`: zero vectors of the system's sizes. -/
theorem generated_p2pBoundary_zero (n m : Nat) :
    Generated.p2pHeadBoundary (K := K) n m (.scalar 0) (.scalar 0) (.scalar 0) (.scalar 0)
      = .ok (List.replicate n 0, List.replicate m 0, List.replicate n 0, List.replicate m 0) := by
  have := generated_p2pBoundary_eq (K := K) n m (.all 0) (.all 0) (.all 0) (.all 0)
  simp only [Bnd.toPy] at this
  rw [this]
  rfl

/-! ### default basis, route -/

/-- **generated_p2pBasis_eq**: the basis statements of `point_to_point`. -/
theorem generated_p2pBasis_eq (n m : Nat) (b : Option (Basis K)) :
    Generated.p2pHeadBasis n m b = .ok (headBasis n m b) := by
  cases b <;>
    simp [Generated.p2pHeadBasis, PyHead.basisNvars, PyHead.polyFamily, headBasis, bind, Except.bind, pure,
      Except.pure]

theorem generated_sfoBasis_eq (n m : Nat) (b : Option (Basis K)) :
    Generated.sfoHeadBasis n m b = .ok (headBasis n m b) := by
  cases b <;>
    simp [Generated.sfoHeadBasis, PyHead.basisNvars, PyHead.polyFamily, headBasis, bind, Except.bind, pure,
      Except.pure]

/-- the default basis has `2 (nstates + ninputs)` coefficients. -/
theorem generated_default_basis_size (n m : Nat) :
    (Generated.p2pHeadBasis (K := K) n m none).map Basis.N = .ok (2 * (n + m)) := by
  rw [generated_p2pBasis_eq]; rfl

omit [Field K] in
/-- **generated_p2pRoute_eq**: the size test and the test that guards the optimisation, as the source text says
them, are `p2pRoute` — for all sizes and every combination of cost / constraints given or not. -/
theorem generated_p2pRoute_eq (n m ncoefs : Nat) (cost cons : Option Unit) :
    (Generated.p2pHeadRoute n m ncoefs cost cons).map Route.ofBool
      = p2pRoute n m ncoefs cost.isSome cons.isSome := by
  unfold Generated.p2pHeadRoute p2pRoute
  by_cases h1 : ncoefs < 2 * (n + m)
  · simp [h1, bind, Except.bind, Except.map, throw, throwThe, MonadExceptOf.throw]
  · by_cases h2 : ncoefs = 2 * (n + m)
    · cases cost <;> cases cons <;>
        simp [h2, bind, Except.bind, Except.map, pure, Except.pure, Route.ofBool]
    · cases cost <;> cases cons <;>
        simp [h1, h2, bind, Except.bind, Except.map, pure, Except.pure, Route.ofBool]

omit [Field K] in
/-- the direct linear solve is taken exactly when the basis is large enough and either minimal or neither a cost
nor constraints are given. -/
theorem generated_route_direct_iff (n m ncoefs : Nat) (cost cons : Option Unit) :
    Generated.p2pHeadRoute n m ncoefs cost cons = .ok false ↔
      2 * (n + m) ≤ ncoefs ∧ (ncoefs = 2 * (n + m) ∨ (cost = none ∧ cons = none)) := by
  have h := generated_p2pRoute_eq n m ncoefs cost cons
  unfold p2pRoute at h
  cases hg : Generated.p2pHeadRoute n m ncoefs cost cons with
  | error e =>
    rw [hg] at h
    simp only [Except.map] at h
    constructor
    · intro h'; exact absurd h' (by simp)
    · rintro ⟨h1, h2⟩
      rw [if_neg (by omega)] at h
      split at h <;> (try split at h) <;> exact absurd h (by simp)
  | ok b =>
    rw [hg] at h
    simp only [Except.map] at h
    by_cases h1 : ncoefs < 2 * (n + m)
    · rw [if_pos h1] at h; exact absurd h (by simp)
    · rw [if_neg h1] at h
      by_cases h2 : ncoefs = 2 * (n + m)
      · rw [if_pos h2] at h
        cases b <;> simp_all [Route.ofBool]
      · rw [if_neg h2] at h
        cases cost <;> cases cons <;> cases b <;> simp_all [Route.ofBool]

/-! ### the planning call with the generated head -/

variable [DecidableEq K] {n m np : Nat} {len : Fin m → Nat}

/-- `p2pPar` with the GENERATED parameter resolution in place of the model's. -/
def p2pParGen (S : ParFlatSys n m len np K) (arg : Option (PDict K)) (bs : Basis K) (T0 Tf : K)
    (x0 : Fin n → K) (u0 : Fin m → K) (xf : Fin n → K) (uf : Fin m → K) :
    Except FlatErr (Option (Fin (m * bs.N) → K)) :=
  match Generated.p2pHeadParams S.sysP arg with
  | .error e => .error (.py e)
  | .ok d =>
    match readAll S.reads d with
    | none => if m * bs.N < 2 * (n + m) then .error (.py .badArg) else .error (.py .unknownName)
    | some ρ => p2pM (S.maps ρ) bs T0 Tf x0 u0 xf uf

/-- `trajEvalPar` with the generated resolution (the trajectory keeps the dict it was planned with). -/
def trajEvalParGen (S : ParFlatSys n m len np K) (arg : Option (PDict K)) (bs : Basis K)
    (α : Fin (m * bs.N) → K) (t : K) : Option ((Fin n → K) × (Fin m → K)) :=
  match Generated.p2pHeadParams S.sysP arg with
  | .error _ => none
  | .ok d => (readAll S.reads d).map fun ρ => trajEvalM (S.maps ρ) bs α t

theorem p2pParGen_eq (S : ParFlatSys n m len np K) (arg : Option (PDict K)) (bs : Basis K) (T0 Tf : K)
    (x0 : Fin n → K) (u0 : Fin m → K) (xf : Fin n → K) (uf : Fin m → K) :
    p2pParGen S arg bs T0 Tf x0 u0 xf uf = p2pPar S arg bs T0 Tf x0 u0 xf uf := by
  unfold p2pParGen p2pPar
  rw [generated_p2pParams_eq]
  rfl

omit [DecidableEq K] in
theorem trajEvalParGen_eq (S : ParFlatSys n m len np K) (arg : Option (PDict K)) (bs : Basis K)
    (α : Fin (m * bs.N) → K) (t : K) : trajEvalParGen S arg bs α t = trajEvalPar S arg bs α t := by
  unfold trajEvalParGen trajEvalPar
  rw [generated_p2pParams_eq]

/-- **generated_par_endpoints**: `C20Params.par_endpoints` for the generated resolution. -/
theorem generated_par_endpoints {S : ParFlatSys n m len np K}
    (hinv : ∀ ρ x u, (S.maps ρ).reverse ((S.maps ρ).forward x u) = (x, u))
    {arg : Option (PDict K)} {bs : Basis K} {T0 Tf : K} {x0 : Fin n → K} {u0 : Fin m → K}
    {xf : Fin n → K} {uf : Fin m → K} {α : Fin (m * bs.N) → K}
    (h : p2pParGen S arg bs T0 Tf x0 u0 xf uf = .ok (some α)) :
    trajEvalParGen S arg bs α T0 = some (x0, u0) ∧ trajEvalParGen S arg bs α Tf = some (xf, uf) := by
  rw [p2pParGen_eq] at h
  rw [trajEvalParGen_eq, trajEvalParGen_eq]
  exact C20Params.par_endpoints hinv h

/-- the whole call: generated time statements, generated basis statements, generated resolution, then the
model of the planner. -/
def p2pCallGen (S : ParFlatSys n m len np K) (timepts : PyHead.TimeArg K) (T0arg : K)
    (basis : Option (Basis K)) (arg : Option (PDict K))
    (x0 : Fin n → K) (u0 : Fin m → K) (xf : Fin n → K) (uf : Fin m → K) :
    Except FlatErr (K × K × (Σ bs : Basis K, Option (Fin (m * bs.N) → K))) :=
  match Generated.p2pHeadTime timepts T0arg with
  | .error e => .error (.py e)
  | .ok (T0, Tf) =>
    match Generated.p2pHeadBasis n m basis with
    | .error e => .error (.py e)
    | .ok bs =>
      match p2pParGen S arg bs T0 Tf x0 u0 xf uf with
      | .error e => .error e
      | .ok r => .ok (T0, Tf, ⟨bs, r⟩)

/-- **generated_call_eq**: the call with the generated head is the model's call, for every argument. -/
theorem generated_call_eq (S : ParFlatSys n m len np K) (tp : TimeSpec K) (T0arg : K)
    (basis : Option (Basis K)) (arg : Option (PDict K))
    (x0 : Fin n → K) (u0 : Fin m → K) (xf : Fin n → K) (uf : Fin m → K) :
    p2pCallGen S (TimeSpec.toPy tp) T0arg basis arg x0 u0 xf uf
      = p2pCallPar S tp T0arg basis arg x0 u0 xf uf := by
  unfold p2pCallGen p2pCallPar
  rw [generated_p2pTime_eq, generated_p2pBasis_eq]
  cases timeSel tp T0arg with
  | error e => rfl
  | ok v =>
    obtain ⟨T0, Tf⟩ := v
    simp only [p2pParGen_eq]
    cases p2pPar S arg (headBasis n m basis) T0 Tf x0 u0 xf uf <;> rfl

/-- **generated_call_endpoints**: a successful call `point_to_point(sys, timepts, x0, u0, xf, uf, T0arg,
basis=basis, params=arg)` returns a trajectory that is at `(x0, u0)` at the initial time and at `(xf, uf)` at
the final time the head selected from `timepts`, on the basis the head selected. -/
theorem generated_call_endpoints {S : ParFlatSys n m len np K}
    (hinv : ∀ ρ x u, (S.maps ρ).reverse ((S.maps ρ).forward x u) = (x, u))
    {tp : TimeSpec K} {T0arg : K} {basis : Option (Basis K)} {arg : Option (PDict K)}
    {x0 : Fin n → K} {u0 : Fin m → K} {xf : Fin n → K} {uf : Fin m → K} {T0 Tf : K}
    {α : Fin (m * (headBasis n m basis).N) → K}
    (h : p2pCallGen S (TimeSpec.toPy tp) T0arg basis arg x0 u0 xf uf
      = .ok (T0, Tf, ⟨headBasis n m basis, some α⟩)) :
    timeSel tp T0arg = .ok (T0, Tf) ∧
      trajEvalParGen S arg (headBasis n m basis) α T0 = some (x0, u0) ∧
      trajEvalParGen S arg (headBasis n m basis) α Tf = some (xf, uf) := by
  rw [generated_call_eq] at h
  unfold p2pCallPar at h
  cases ht : timeSel tp T0arg with
  | error e => rw [ht] at h; exact absurd h (by simp)
  | ok v =>
    obtain ⟨a, b⟩ := v
    rw [ht] at h
    simp only [] at h
    cases hp : p2pPar S arg (headBasis n m basis) a b x0 u0 xf uf with
    | error e => rw [hp] at h; exact absurd h (by simp)
    | ok r =>
      rw [hp] at h
      simp only [Except.ok.injEq, Prod.mk.injEq, Sigma.mk.injEq, heq_eq_eq, true_and] at h
      obtain ⟨rfl, rfl, rfl⟩ := h
      rw [trajEvalParGen_eq, trajEvalParGen_eq]
      exact ⟨rfl, C20Params.par_endpoints hinv hp⟩

/-- **generated_par_feasible** (ℝ): `C20Params.par_feasible` for the generated resolution — the trajectory
planned with `params=arg` satisfies the dynamics at the parameter values read from the GENERATED dict. -/
theorem generated_par_feasible {S : ParFlatSys n m len np ℝ}
    (hinv : ∀ ρ x u, (S.maps ρ).reverse ((S.maps ρ).forward x u) = (x, u))
    (f : (Fin np → ℝ) → (Fin n → ℝ) → (Fin m → ℝ) → (Fin n → ℝ))
    (D : (Fin np → ℝ) → Flags m len ℝ → (Flags m len ℝ →L[ℝ] (Fin n → ℝ)))
    (hD : ∀ ρ z, HasFDerivAt (fun z => ((S.maps ρ).reverse z).1) (D ρ z) z)
    (hflat : ∀ ρ z w, D ρ z (C20Multi.shiftFlag z w) =
      f ρ ((S.maps ρ).reverse z).1 ((S.maps ρ).reverse z).2)
    {arg : Option (PDict ℝ)} {bs : Basis ℝ} {T0 Tf : ℝ} {x0 : Fin n → ℝ} {u0 : Fin m → ℝ}
    {xf : Fin n → ℝ} {uf : Fin m → ℝ} {α : Fin (m * bs.N) → ℝ}
    (h : p2pParGen S arg bs T0 Tf x0 u0 xf uf = .ok (some α)) :
    ∃ ρ, (Generated.p2pHeadParams S.sysP arg).map (readAll S.reads) = .ok (some ρ) ∧
      trajEvalParGen S arg bs α T0 = some (x0, u0) ∧ trajEvalParGen S arg bs α Tf = some (xf, uf) ∧
      ∀ t, trajEvalParGen S arg bs α t = some (trajEvalM (S.maps ρ) bs α t) ∧
        HasDerivAt (fun s => (trajEvalM (S.maps ρ) bs α s).1)
          (f ρ (trajEvalM (S.maps ρ) bs α t).1 (trajEvalM (S.maps ρ) bs α t).2) t := by
  rw [p2pParGen_eq] at h
  obtain ⟨ρ, hρ, h0, hf, ht⟩ := C20Params.par_feasible hinv f D hD hflat h
  refine ⟨ρ, ?_, ?_, ?_, ?_⟩
  · rw [generated_p2pParams_eq]; simp [Except.map, p2pParams, hρ]
  · rw [trajEvalParGen_eq]; exact h0
  · rw [trajEvalParGen_eq]; exact hf
  · intro t
    rw [trajEvalParGen_eq]
    exact ht t

/-! ### non-vacuity (the example system of `C20Params`: `x' = -p x + u`, `sys.params = {0: 3}`) -/

section example_

open C20Params

/-- hypothesis of `generated_par_endpoints` / `generated_call_endpoints`: the generated call succeeds on the
example, with a list of times, the default basis (4 coefficients), a `T0` argument that is ignored. -/
example : (match p2pCallGen exSys (.array [0, 1/2, 1]) 5 none (some [(0, 9/2)]) (fun _ => 1) (fun _ => 0)
    (fun _ => 0) (fun _ => 1) with
    | .ok (T0, Tf, ⟨bs, r⟩) => decide (T0 = 0 ∧ Tf = 1 ∧ bs.N = 4) && r.isSome
    | .error _ => false) = true := by decide +kernel

example : ((p2pParGen exSys (some [(0, 9/2)]) (.poly 4 1) 0 1 (fun _ => 1) (fun _ => 0) (fun _ => 0)
    (fun _ => 1)).toOption.bind id).isSome = true := by decide +kernel

/-- the generated resolution on a partial override: the overridden key from the call, the other one from the
system (the replaced dict would read the fallback 2, the reversed merge 3 for key 0). -/
example : Generated.p2pHeadParams [(0, (3 : ℚ)), (1, 5)] (some [(0, 4)]) = .ok [(0, 4), (0, 3), (1, 5)] := by
  decide +kernel
example : ((Generated.p2pHeadParams [(0, (3 : ℚ)), (1, 5)] (some [(0, 4)])).map
    fun d => ((⟨0, some 2⟩ : PRead ℚ).val d, (⟨1, some 2⟩ : PRead ℚ).val d)) = .ok (some 4, some 5) := by
  decide +kernel
example : Generated.p2pHeadTime (.array [(2 : ℚ), 3, 7]) 5 = .ok (2, 7) := by decide +kernel
example : Generated.p2pHeadTime (.scalar (7 : ℚ)) 5 = .ok (5, 7) := by decide +kernel
example : Generated.sfoHeadTime (.array [(2 : ℚ), 3, 7]) = .ok 2 := by decide +kernel
example : Generated.p2pHeadRoute 2 1 7 (some ()) none = .ok true := by decide
example : Generated.p2pHeadRoute 2 1 6 (some ()) none = .ok false := by decide
example : Generated.p2pHeadRoute 2 1 5 none none = .error .badArg := by decide
example : Generated.p2pHeadBoundary 2 1 (.scalar (0 : ℚ)) (.vec [1]) (.vec [1, 2]) (.scalar 3)
    = .ok ([0, 0], [1], [1, 2], [3]) := by decide +kernel
example : Generated.p2pHeadBoundary 2 1 (.vec [(0 : ℚ)]) (.vec [1]) (.vec [1, 2]) (.scalar 3)
    = .error .shape := by decide +kernel

end example_

end CtrlVerif.C20GenHead
