/-
Source-text tie of C13 (DESIGN §10.3, notes/NOTES-py2lean-unwrap.md).

`Generated/NyqUnwrap.lean` and `Generated/NyqCount.lean` are rewritten on every run of `check.py C13`
by `harness/core/py2lean_nyq.py` from the text of `control/ctrlutil.py:unwrap` and of the statements
of `control/freqplot.py:nyquist_response` that compute `count` (backward slice of the unique assignment
to `count`) in the tree under check.  The NumPy operations are the primitives of `Model/PyNyq.lean`
(`np.diff` = `a[1:] - a[:-1]`, `np.cumsum` = running sums by `scanl`, `%` with the sign of the divisor
and an error for a zero divisor, broadcasting `-` of two arrays, the slice update `a[1:] += c`,
`np.round` = nearest of floor / ceiling with ties to even, `int` = truncation).

This file proves the hand-written model of `Model/Nyquist.lean` — the one every theorem of
`Props/C13.lean`, `C13Arg.lean` is about — EQUAL to the generated functions for all arguments in their
domain (every ordered field with floor, every list, every non-zero period / `pi`; with a zero divisor
the source text divides by zero, stated as theorems), and transports the headline theorems of C13 to
the functions the source text defines.  A semantic edit of the source breaks an equality.
-/
import CtrlVerif.Generated.NyqUnwrap
import CtrlVerif.Generated.NyqCount
import CtrlVerif.Lemmas.PyNyq
import CtrlVerif.Props.C13

namespace CtrlVerif.C13Gen

open CtrlVerif CtrlVerif.Nyquist

variable {K : Type} [Field K] [LinearOrder K] [IsStrictOrderedRing K] [FloorRing K]

/-! ## `ctrlutil.unwrap` -/

/-- the default `period=2*math.pi` of the source text is the period the model's `encirclements`
passes. -/
theorem generated_defaultPeriod_eq (pi : K) : Generated.unwrapDefaultPeriod pi = 2 * pi := rfl

/-- the vectorised body up to the slice update: wrapped increments minus increments, summed up. -/
theorem generated_unwrap_core (angle : List K) (period : K)
    (h : period ≠ 0 ∨ angle.length ≤ 1) :
    Generated.unwrap angle period =
      PyNyq.iaddFrom 1 angle (cumsumFrom 0 (List.zipWith (fun a b => a - b)
        ((diff angle).map (desired period)) (diff angle))) := by
  unfold Generated.unwrap
  simp only [PyNyq.arrayCopy, PyNyq.diff_eq]
  have hm : PyNyq.modS (List.map (fun x => x + period / (2 : K)) (diff angle)) period =
      .ok (((diff angle).map fun x => x + period / 2).map fun x => pmod x period) := by
    rcases h with h | h
    · rw [PyNyq.modS_ok _ h]
    · have hd : diff angle = [] := by
        match angle, h with
        | [], _ => rfl
        | [_], _ => rfl
      rw [hd]
      rfl
  simp only [hm, PyArith.ok_bind, bind_pure]
  rw [PyNyq.zipB_ok _ (by simp), PyArith.ok_bind, PyNyq.cumsum_eq]
  simp only [List.map_map]
  rfl

/-- **`unwrap` of the source text is the model's `unwrap`**: every array, every period `≠ 0` of every
ordered field with floor (negative periods included: `%` follows the sign of the divisor). -/
theorem generated_unwrap_eq (angle : List K) {period : K} (hp : period ≠ 0) :
    Generated.unwrap angle period = .ok (unwrap period angle) := by
  rw [generated_unwrap_core angle period (Or.inl hp)]
  cases angle with
  | nil => exact PyNyq.iaddFrom_one_nil
  | cons a t =>
    rw [PyNyq.iaddFrom_one_ok]
    · rfl
    · simp [PyNyq.cumsumFrom_length, diff_length]

/-- period `0` on at most one sample: nothing is divided, the array is returned (as the model does). -/
theorem generated_unwrap_zero_short (angle : List K) (h : angle.length ≤ 1) :
    Generated.unwrap angle 0 = .ok (unwrap 0 angle) := by
  rw [generated_unwrap_core angle 0 (Or.inr h)]
  match angle, h with
  | [], _ => exact PyNyq.iaddFrom_one_nil
  | [a], _ => rfl

/-- period `0` on two or more samples: the source text computes `x % 0` (NumPy: `nan`); this is why
`generated_unwrap_eq` needs `period ≠ 0` (the model's `pmod x 0` is Lean's `x - 0 * ⌊x / 0⌋ = x`). -/
theorem generated_unwrap_zero_raises (a b : K) (t : List K) :
    Generated.unwrap (a :: b :: t) 0 = .error .zeroDen := by
  unfold Generated.unwrap
  simp only [PyNyq.arrayCopy, PyNyq.diff_eq, diff_cons_cons, List.map_cons, PyNyq.modS_cons_zero]
  rfl

/-- for ALL arguments: the source text returns exactly when `period ≠ 0` or there is nothing to
unwrap, and then it returns the model's value. -/
theorem generated_unwrap_ok_iff (angle : List K) (period : K) (out : List K) :
    Generated.unwrap angle period = .ok out ↔
      ((period ≠ 0 ∨ angle.length ≤ 1) ∧ out = unwrap period angle) := by
  by_cases hp : period = 0
  · subst hp
    match angle with
    | [] => rw [generated_unwrap_zero_short [] (by simp)]; simp [eq_comm]
    | [a] => rw [generated_unwrap_zero_short [a] (by simp)]; simp [eq_comm]
    | a :: b :: t => rw [generated_unwrap_zero_raises]; simp
  · rw [generated_unwrap_eq angle hp]
    simp [hp, eq_comm]

/-! ### the theorems of C13 about `unwrap`, for the function the source text defines -/

/-- shape and congruence: the source-text `unwrap` returns an array of the same length whose entries
differ from the inputs by integer multiples of the period. -/
theorem generated_unwrap_congr (angle : List K) {period : K} (hp : period ≠ 0) :
    ∃ out, Generated.unwrap angle period = .ok out ∧ out.length = angle.length ∧
      List.Forall₂ (fun o i => ∃ k : ℤ, o = i + k * period) out angle :=
  ⟨_, generated_unwrap_eq angle hp, C13.unwrap_length period angle, C13.unwrap_congr period angle⟩

/-- no output step exceeds half a period. -/
theorem generated_unwrap_step_abs (angle : List K) {period : K} (hp : 0 < period) :
    ∃ out, Generated.unwrap angle period = .ok out ∧ ∀ d ∈ diff out, |d| ≤ period / 2 :=
  ⟨_, generated_unwrap_eq angle hp.ne', C13.unwrap_step_abs hp angle⟩

/-- discrete winding: measured angles congruent to a true phase whose increments stay below half a
period are unwrapped to the true phase (up to the constant offset of the first sample). -/
theorem generated_unwrap_recovers {period : K} (hp : 0 < period) (a b : K) (t u : List K)
    (hθ : List.Forall₂ (fun t f => ∃ k : ℤ, t = f + k * period) (a :: t) (b :: u))
    (hδ : ∀ δ ∈ diff (b :: u), |δ| < period / 2) :
    Generated.unwrap (a :: t) period = .ok ((b :: u).map fun x => x + (a - b)) := by
  rw [generated_unwrap_eq _ hp.ne', C13.unwrap_recovers hp a b t u hθ hδ]

/-- an already continuous signal is returned unchanged. -/
theorem generated_unwrap_noop {period : K} (hp : 0 < period) (l : List K)
    (hδ : ∀ δ ∈ diff l, |δ| < period / 2) : Generated.unwrap l period = .ok l := by
  rw [generated_unwrap_eq _ hp.ne', C13.unwrap_noop hp l hδ]

/-- non-vacuity: the docstring example of `unwrap` (scaled to period 2) through the generated
function; a zero period raises; a negative period is accepted. -/
example : Generated.unwrap [1, 3/2, 0, 1/2, (1 : ℚ)] 2 = .ok [1, 3/2, 2, 5/2, 3] := by decide +kernel
example : Generated.unwrap [1, 3/2, 0, 1/2, (1 : ℚ)] 0 = .error .zeroDen := by decide +kernel
example : Generated.unwrap [0, 3/2, (1 : ℚ)] (-2) = .ok [0, -1/2, -1] := by decide +kernel
example : unwrap (-2 : ℚ) [0, 3/2, 1] = [0, -1/2, -1] := by decide +kernel

/-! ## the encirclement count -/

/-- the `+ 1` of `np.angle(resp + 1)` in the source text is the model's `addOne`. -/
theorem generated_angleArg_eq (resp : List (K × K)) :
    Generated.nyquistAngleArg resp = resp.map addOne := rfl

/-- **the count statements of `nyquist_response` are the model's `count`**: every list of angles,
every `pi ≠ 0` (`phase = -unwrap(..)` with the default period `2*pi`, `np.sum(np.diff(phase)) / np.pi`,
`int(np.round(., 0))`; `int ∘ np.round` = round-half-even). -/
theorem generated_count_eq {pi : K} (hpi : pi ≠ 0) (angles : List K) :
    Generated.nyquistCount pi angles = .ok (count pi angles) := by
  unfold Generated.nyquistCount
  have h2 : (2 : K) * pi ≠ 0 := mul_ne_zero two_ne_zero hpi
  simp only [generated_defaultPeriod_eq, generated_unwrap_eq angles h2, PyArith.ok_bind, PyNyq.diff_eq,
    PyArith.div_ok _ hpi, PyNyq.toInt_round0]
  rfl

/-- `pi = 0`: the source text divides by zero (`unwrap`'s `% (2*pi)` when there are two or more
samples, `/ np.pi` in any case). -/
theorem generated_count_pi_zero (angles : List K) :
    Generated.nyquistCount (0 : K) angles = .error .zeroDen := by
  unfold Generated.nyquistCount
  simp only [generated_defaultPeriod_eq, mul_zero]
  match angles with
  | [] => rw [generated_unwrap_zero_short [] (by simp)]; simp only [PyArith.ok_bind, PyArith.div_zero]; rfl
  | [a] => rw [generated_unwrap_zero_short [a] (by simp)]; simp only [PyArith.ok_bind, PyArith.div_zero]; rfl
  | a :: b :: t => rw [generated_unwrap_zero_raises]; rfl

/-- for ALL arguments: a count is returned exactly for `pi ≠ 0`, and it is the model's. -/
theorem generated_count_ok_iff (pi : K) (angles : List K) (n : ℤ) :
    Generated.nyquistCount pi angles = .ok n ↔ (pi ≠ 0 ∧ n = count pi angles) := by
  by_cases hpi : pi = 0
  · subst hpi; rw [generated_count_pi_zero]; simp
  · rw [generated_count_eq hpi]; simp [hpi, eq_comm]

/-! ### the count theorems of C13, for the statements of the source text -/

/-- `C13.count_partial` for the source text: GIVEN (H1) measured angles congruent to the true phase
modulo `2·pi`, (H2) true phase steps below `pi`, (H3) the argument principle up to a closure error
below `pi/2`, the statements of `nyquist_response` compute `count = Z - P`. -/
theorem generated_count_partial {pi : K} (hpi : 0 < pi) {θ φ : List K} (a b : K) (t u : List K)
    (hθe : θ = a :: t) (hφe : φ = b :: u)
    (H1 : List.Forall₂ (fun t f => ∃ k : ℤ, t = f + k * (2 * pi)) θ φ)
    (H2 : ∀ δ ∈ diff φ, |δ| < pi)
    (P Z : ℤ)
    (H3 : |((b :: u).getLast (by simp) - b) - pi * ((P : K) - Z)| < pi / 2) :
    Generated.nyquistCount pi θ = .ok (Z - P) := by
  rw [generated_count_eq hpi.ne', C13.count_partial hpi a b t u hθe hφe H1 H2 P Z H3]

/-- the exactly closed case. -/
theorem generated_count_partial_exact {pi : K} (hpi : 0 < pi) (a b : K) (t u : List K)
    (H1 : List.Forall₂ (fun t f => ∃ k : ℤ, t = f + k * (2 * pi)) (a :: t) (b :: u))
    (H2 : ∀ δ ∈ diff (b :: u), |δ| < pi)
    (P Z : ℤ)
    (H3 : (b :: u).getLast (by simp) - b = pi * ((P : K) - Z)) :
    Generated.nyquistCount pi (a :: t) = .ok (Z - P) := by
  rw [generated_count_eq hpi.ne', C13.count_partial_exact hpi a b t u H1 H2 P Z H3]

/-- `C13.count_real_polygon` for the source text, at `ℝ` / `Complex.arg` / `Real.pi`: if the total
turning angle of the polygon through the non-zero samples is within `π/2` of `π (P - Z)` (no edge
turning by exactly half a turn), the statements of `nyquist_response` compute `Z - P`. -/
theorem generated_count_real_polygon (a : ℂ) (t : List ℂ) (hw : ∀ z ∈ a :: t, z ≠ 0)
    (hstep : ∀ δ ∈ polygonIncr (a :: t), δ ≠ Real.pi) (P Z : ℤ)
    (H3 : |(polygonIncr (a :: t)).sum - Real.pi * ((P : ℝ) - Z)| < Real.pi / 2) :
    Generated.nyquistCount Real.pi ((a :: t).map Complex.arg) = .ok (Z - P) := by
  rw [generated_count_eq Real.pi_ne_zero, C13.count_real_polygon a t hw hstep P Z H3]

/-- non-vacuity: one clockwise turn, `pi := 1` (the example of `count_partial`), through the generated
statements; and `pi = 0` raises. -/
example : Generated.nyquistCount (1 : ℚ) [0, -3/4, 1/2, 0] = .ok 2 := by decide +kernel
example : Generated.nyquistCount (0 : ℚ) [0, -3/4, 1/2, 0] = .error .zeroDen := by decide +kernel
example : Generated.nyquistAngleArg [((1 : ℚ), 2), (-1, 0)] = [(2, 2), (0, 0)] := by decide +kernel

end CtrlVerif.C13Gen
