/-
C12 — the sampled-data (FRD) route of `stability_margins` and histories of calls on data the caller
keeps.  Property theorems about `Model/MarginsFrd.lean`.

* the brackets handed to the root finder are exactly the grid intervals on which the data change sign
  (`mem_signChangeIdx`, `mem_frdGainBrackets`, `mem_frdPhaseBrackets`, `mem_frdStabBrackets`);
* GENUINE: over `ℝ`, for a response that is continuous on the bracket, every bracket contains a
  frequency where the defining equation holds (`frd_gain_bracket_genuine`: `|L| = 1`,
  `frd_phase_bracket_genuine`: `Im L = 0`, with `Re L ≤ 0` at the left sample), and the middle sample of
  a stability bracket is a minimum of the sampled `|1+L|` (`frd_stab_bracket_grid_min`);
* COMPLETE on the data: two samples of different sign are separated by a reported bracket
  (`sign_change_complete`); no bracket ⇒ all samples have one sign (`no_sign_change_const`);
* HISTORY: if a call leaves the caller's data as they were, every later call on the same data returns
  what the first returned (`runCalls_pure`), and conversely a call that returns something else on the
  second use has changed the data (`second_call_differs_mutates`).
-/
import CtrlVerif.Model.MarginsFrd
import Mathlib.Topology.Order.IntermediateValue
import Mathlib.Topology.Algebra.Order.Field
import Mathlib.Analysis.SpecificLimits.Basic
import Mathlib.Algebra.Order.Field.Rat
import Mathlib.Algebra.Order.Ring.Rat

namespace CtrlVerif.C12

open CtrlVerif CtrlVerif.Margins

section data
variable {K : Type*} [Field K] [LinearOrder K]

/-- membership in `np.where(np.diff(np.sign(xs)))[0]`. -/
theorem mem_signChangeIdx {xs : List K} {i : Nat} :
    i ∈ signChangeIdx xs ↔ ∃ a b, xs[i]? = some a ∧ xs[i + 1]? = some b ∧ sgn a ≠ sgn b := by
  unfold signChangeIdx
  simp only [List.mem_filter, List.mem_range, List.size_toArray, List.length_map,
    List.getElem?_toArray, List.getElem?_map, decide_eq_true_eq]
  constructor
  · rintro ⟨hi, hne⟩
    have h1 : i < xs.length := by omega
    have h2 : i + 1 < xs.length := by omega
    refine ⟨xs[i], xs[i + 1], List.getElem?_eq_getElem h1, List.getElem?_eq_getElem h2, ?_⟩
    intro h
    apply hne
    rw [List.getElem?_eq_getElem h1, List.getElem?_eq_getElem h2]
    simp [h]
  · rintro ⟨a, b, ha, hb, hne⟩
    have h2 : i + 1 < xs.length := (List.getElem?_eq_some_iff.mp hb).1
    refine ⟨by omega, ?_⟩
    rw [ha, hb]
    simpa using hne

/-- gain-crossover brackets: the sampled `|L|² − 1` changes sign across the interval. -/
theorem mem_frdGainBrackets {rs : List (Cx K)} {i : Nat} :
    i ∈ frdGainBrackets rs ↔ ∃ r s, rs[i]? = some r ∧ rs[i + 1]? = some s ∧
      sgn (normSq r - 1) ≠ sgn (normSq s - 1) := by
  unfold frdGainBrackets
  rw [mem_signChangeIdx]
  simp only [List.getElem?_map, Option.map_eq_some_iff]
  constructor
  · rintro ⟨a, b, ⟨r, hr, rfl⟩, ⟨s, hs, rfl⟩, h⟩
    exact ⟨r, s, hr, hs, h⟩
  · rintro ⟨r, s, hr, hs, h⟩
    exact ⟨_, _, ⟨r, hr, rfl⟩, ⟨s, hs, rfl⟩, h⟩

/-- phase-crossover brackets: `Im L` changes sign across the interval and `Re L ≤ 0` at its left end. -/
theorem mem_frdPhaseBrackets {rs : List (Cx K)} {l : List Nat} (h : frdPhaseBrackets rs = some l)
    {i : Nat} :
    i ∈ l ↔ ∃ r s, rs[i]? = some r ∧ rs[i + 1]? = some s ∧ sgn (-r.im) ≠ sgn (-s.im) ∧ r.re ≤ 0 := by
  unfold frdPhaseBrackets at h
  split at h
  · cases h
  · cases h
    rw [List.mem_filter, mem_signChangeIdx]
    simp only [List.getElem?_map, Option.map_eq_some_iff]
    constructor
    · rintro ⟨⟨a, b, ⟨r, hr, rfl⟩, ⟨s, hs, rfl⟩, hne⟩, hre⟩
      rw [hr] at hre
      exact ⟨r, s, hr, hs, hne, by simpa using hre⟩
    · rintro ⟨r, s, hr, hs, hne, hre⟩
      refine ⟨⟨_, _, ⟨r, hr, rfl⟩, ⟨s, hs, rfl⟩, hne⟩, ?_⟩
      rw [hr]
      simpa using hre

/-- data with a sample exactly on the real axis are rejected by the model, and only those. -/
theorem frdPhaseBrackets_none_iff {rs : List (Cx K)} :
    frdPhaseBrackets rs = none ↔ ∃ r ∈ rs, r.im = 0 := by
  unfold frdPhaseBrackets
  split
  · rename_i h
    simp only [List.any_eq_true, decide_eq_true_eq] at h
    simpa using h
  · rename_i h
    simp only [List.any_eq_true, decide_eq_true_eq] at h
    simp only [reduceCtorEq, false_iff]
    exact h

theorem diffs_getElem_eq : ∀ (xs : List K) (i : Nat) (a b : K), xs[i]? = some a → xs[i + 1]? = some b →
    (diffs xs)[i]? = some (b - a)
  | [], _, _, _, h, _ => by simp at h
  | [_], i, _, _, _, h => by simp at h
  | x :: y :: t, 0, a, b, ha, hb => by
    simp only [List.getElem?_cons_zero, Option.some.injEq, zero_add, List.getElem?_cons_succ] at ha hb
    subst ha; subst hb; simp [diffs]
  | x :: y :: t, i + 1, a, b, ha, hb => by
    simp only [List.getElem?_cons_succ] at ha hb
    simp only [diffs, List.getElem?_cons_succ]
    exact diffs_getElem_eq (y :: t) i a b ha (by simpa using hb)

theorem diffs_length : ∀ (xs : List K), (diffs xs).length = xs.length - 1
  | [] => rfl
  | [_] => rfl
  | x :: y :: t => by simp [diffs, diffs_length (y :: t)]

theorem mem_risesIdx {e : List Int} {i : Nat} :
    i ∈ risesIdx e ↔ ∃ x y, e[i]? = some x ∧ e[i + 1]? = some y ∧ x < y := by
  unfold risesIdx
  simp only [List.mem_filter, List.mem_range, List.size_toArray, List.getElem?_toArray]
  constructor
  · rintro ⟨_, h⟩
    split at h
    · rename_i x y hx hy
      exact ⟨x, y, hx, hy, by simpa using h⟩
    · cases h
  · rintro ⟨x, y, hx, hy, hlt⟩
    have h2 : i + 1 < e.length := (List.getElem?_eq_some_iff.mp hy).1
    refine ⟨by omega, ?_⟩
    rw [hx, hy]
    simpa using hlt

/-- stability brackets: index `i` is reported iff the slope sign of the sampled `|1+L|²` rises from the
interval `[ω_i, ω_{i+1}]` to `[ω_{i+1}, ω_{i+2}]`. -/
theorem mem_frdStabBrackets {rs : List (Cx K)} {i : Nat} :
    i ∈ frdStabBrackets rs ↔ ∃ r0 r1 r2, rs[i]? = some r0 ∧ rs[i + 1]? = some r1 ∧ rs[i + 2]? = some r2 ∧
      sgn (normSq (r1 + 1) - normSq (r0 + 1)) < sgn (normSq (r2 + 1) - normSq (r1 + 1)) := by
  unfold frdStabBrackets
  rw [mem_risesIdx]
  constructor
  · rintro ⟨x, y, hx, hy, hlt⟩
    have hl := diffs_length (rs.map fun r => normSq (r + 1))
    have h2 : i + 1 < ((diffs (rs.map fun r => normSq (r + 1))).map sgn).length :=
      (List.getElem?_eq_some_iff.mp hy).1
    simp only [List.length_map] at h2 hl
    have h3 : i + 2 < rs.length := by omega
    have e0 : rs[i]? = some rs[i] := List.getElem?_eq_getElem (by omega)
    have e1 : rs[i + 1]? = some rs[i + 1] := List.getElem?_eq_getElem (by omega)
    have e2 : rs[i + 2]? = some rs[i + 2] := List.getElem?_eq_getElem h3
    refine ⟨rs[i], rs[i + 1], rs[i + 2], e0, e1, e2, ?_⟩
    have d0 := diffs_getElem_eq (rs.map fun r => normSq (r + 1)) i _ _
      (by rw [List.getElem?_map, e0]; rfl) (by rw [List.getElem?_map, e1]; rfl)
    have d1 := diffs_getElem_eq (rs.map fun r => normSq (r + 1)) (i + 1) _ _
      (by rw [List.getElem?_map, e1]; rfl) (by rw [List.getElem?_map, e2]; rfl)
    rw [List.getElem?_map, d0] at hx
    rw [List.getElem?_map, d1] at hy
    simp only [Option.map_some, Option.some.injEq] at hx hy
    rw [hx, hy]
    exact hlt
  · rintro ⟨r0, r1, r2, e0, e1, e2, hlt⟩
    have d0 := diffs_getElem_eq (rs.map fun r => normSq (r + 1)) i _ _
      (by rw [List.getElem?_map, e0]; rfl) (by rw [List.getElem?_map, e1]; rfl)
    have d1 := diffs_getElem_eq (rs.map fun r => normSq (r + 1)) (i + 1) _ _
      (by rw [List.getElem?_map, e1]; rfl) (by rw [List.getElem?_map, e2]; rfl)
    refine ⟨_, _, ?_, ?_, hlt⟩
    · rw [List.getElem?_map, d0]; rfl
    · rw [List.getElem?_map, d1]; rfl

end data

section ordered
variable {K : Type*} [Field K] [LinearOrder K] [IsStrictOrderedRing K]

theorem sgn_pos_iff {x : K} : sgn x = 1 ↔ 0 < x := by
  unfold sgn; split_ifs <;> simp_all

theorem sgn_neg_iff {x : K} : sgn x = -1 ↔ x < 0 := by
  unfold sgn
  split_ifs with h1 h2
  · simp only [Int.reduceNeg, reduceCtorEq, false_iff, not_lt]
    · exact le_of_lt h1
  · simp [h2]
  · simp [h2]

theorem sgn_zero_iff {x : K} : sgn x = 0 ↔ x = 0 := by
  unfold sgn
  split_ifs with h1 h2
  · simp [ne_of_gt h1]
  · simp [ne_of_lt h2]
  · simp only [true_iff]; exact le_antisymm (not_lt.mp h1) (not_lt.mp h2)

theorem sgn_cases (x : K) : sgn x = -1 ∨ sgn x = 0 ∨ sgn x = 1 := by
  unfold sgn; split_ifs <;> simp

/-- the middle sample of a stability bracket is a minimum of the sampled `|1+L|²` among its
neighbours, strictly on at least one side. -/
theorem frd_stab_bracket_grid_min {rs : List (Cx K)} {i : Nat} (h : i ∈ frdStabBrackets rs) :
    ∃ r0 r1 r2, rs[i]? = some r0 ∧ rs[i + 1]? = some r1 ∧ rs[i + 2]? = some r2 ∧
      normSq (r1 + 1) ≤ normSq (r0 + 1) ∧ normSq (r1 + 1) ≤ normSq (r2 + 1) ∧
      (normSq (r1 + 1) < normSq (r0 + 1) ∨ normSq (r1 + 1) < normSq (r2 + 1)) := by
  obtain ⟨r0, r1, r2, e0, e1, e2, hlt⟩ := mem_frdStabBrackets.mp h
  refine ⟨r0, r1, r2, e0, e1, e2, ?_⟩
  set a := normSq (r1 + 1) - normSq (r0 + 1) with ha
  set b := normSq (r2 + 1) - normSq (r1 + 1) with hb
  rcases sgn_cases a with h1 | h1 | h1 <;> rcases sgn_cases b with h2 | h2 | h2 <;>
    rw [h1, h2] at hlt <;> try omega
  · have := sgn_neg_iff.mp h1; have := sgn_zero_iff.mp h2
    refine ⟨by linarith, by linarith, Or.inl (by linarith)⟩
  · have := sgn_neg_iff.mp h1; have := sgn_pos_iff.mp h2
    refine ⟨by linarith, by linarith, Or.inl (by linarith)⟩
  · have := sgn_zero_iff.mp h1; have := sgn_pos_iff.mp h2
    refine ⟨by linarith, by linarith, Or.inr (by linarith)⟩

end ordered

section complete
variable {K : Type*} [Field K] [LinearOrder K]

/-- COMPLETE on the data: two samples of different sign are separated by a reported bracket. -/
theorem sign_change_complete {xs : List K} : ∀ (n i : Nat) {a b : K}, xs[i]? = some a →
    xs[i + n]? = some b → sgn a ≠ sgn b → ∃ k ∈ signChangeIdx xs, i ≤ k ∧ k < i + n
  | 0, i, a, b, ha, hb, hne => by
    rw [Nat.add_zero, ha] at hb
    cases hb
    exact absurd rfl hne
  | n + 1, i, a, b, ha, hb, hne => by
    have hlen : i + (n + 1) < xs.length := (List.getElem?_eq_some_iff.mp hb).1
    have hc : xs[i + 1]? = some xs[i + 1] := List.getElem?_eq_getElem (by omega)
    by_cases h : sgn a = sgn xs[i + 1]
    · have hb' : xs[i + 1 + n]? = some b := by rw [← hb]; congr 1; omega
      obtain ⟨k, hk, h1, h2⟩ := sign_change_complete n (i + 1) hc hb' (by rw [← h]; exact hne)
      exact ⟨k, hk, by omega, by omega⟩
    · exact ⟨i, mem_signChangeIdx.mpr ⟨a, _, ha, hc, h⟩, le_refl _, by omega⟩

/-- no bracket reported ⇒ all samples have the same sign. -/
theorem no_sign_change_const {xs : List K} (h : signChangeIdx xs = []) {i j : Nat} {a b : K}
    (ha : xs[i]? = some a) (hb : xs[j]? = some b) : sgn a = sgn b := by
  by_contra hne
  rcases le_total i j with hij | hij
  · obtain ⟨n, rfl⟩ := Nat.exists_eq_add_of_le hij
    obtain ⟨k, hk, _⟩ := sign_change_complete n i ha hb hne
    rw [h] at hk; cases hk
  · obtain ⟨n, rfl⟩ := Nat.exists_eq_add_of_le hij
    obtain ⟨k, hk, _⟩ := sign_change_complete n j hb ha (Ne.symm hne)
    rw [h] at hk; cases hk

end complete

/-! ## Over ℝ: a bracket contains a frequency where the defining equation holds -/

section real

/-- Intermediate value theorem in the form the FRD route relies on (`brentq` is started on it). -/
theorem bracket_has_root {g : ℝ → ℝ} {a b : ℝ} (hab : a ≤ b) (hg : ContinuousOn g (Set.Icc a b))
    (h : sgn (g a) ≠ sgn (g b)) : ∃ c ∈ Set.Icc a b, g c = 0 := by
  rcases lt_trichotomy (g a) 0 with ha | ha | ha
  · rcases lt_trichotomy (g b) 0 with hb | hb | hb
    · exact absurd (by rw [sgn_neg_iff.mpr ha, sgn_neg_iff.mpr hb]) h
    · exact ⟨b, ⟨hab, le_refl _⟩, hb⟩
    · exact intermediate_value_Icc hab hg ⟨ha.le, hb.le⟩
  · exact ⟨a, ⟨le_refl _, hab⟩, ha⟩
  · rcases lt_trichotomy (g b) 0 with hb | hb | hb
    · exact intermediate_value_Icc' hab hg ⟨hb.le, ha.le⟩
    · exact ⟨b, ⟨hab, le_refl _⟩, hb⟩
    · exact absurd (by rw [sgn_pos_iff.mpr ha, sgn_pos_iff.mpr hb]) h

variable {L : ℝ → Cx ℝ} {ws : List ℝ} {i : Nat} {a b : ℝ}

/-- GENUINE (gain crossover): the data are samples of `L` on the grid `ws`; every reported bracket
`[ω_i, ω_{i+1}]` on which `|L|²` is continuous contains a frequency with `|L|² = 1`. -/
theorem frd_gain_bracket_genuine (hi : i ∈ frdGainBrackets (ws.map L))
    (ha : ws[i]? = some a) (hb : ws[i + 1]? = some b) (hab : a ≤ b)
    (hc : ContinuousOn (fun w => normSq (L w)) (Set.Icc a b)) :
    ∃ c ∈ Set.Icc a b, normSq (L c) = 1 := by
  obtain ⟨r, s, hr, hs, hne⟩ := mem_frdGainBrackets.mp hi
  rw [List.getElem?_map, ha] at hr
  rw [List.getElem?_map, hb] at hs
  cases hr; cases hs
  obtain ⟨c, hc1, hc2⟩ := bracket_has_root (g := fun w => normSq (L w) - 1) hab
    (hc.sub continuousOn_const) hne
  exact ⟨c, hc1, by linarith⟩

/-- GENUINE (phase crossover): every reported bracket on which `Im L` is continuous contains a
frequency where `L` is real; at the left end of the bracket `Re L ≤ 0`. -/
theorem frd_phase_bracket_genuine {l : List Nat} (hl : frdPhaseBrackets (ws.map L) = some l)
    (hi : i ∈ l) (ha : ws[i]? = some a) (hb : ws[i + 1]? = some b) (hab : a ≤ b)
    (hc : ContinuousOn (fun w => (L w).im) (Set.Icc a b)) :
    (∃ c ∈ Set.Icc a b, (L c).im = 0) ∧ (L a).re ≤ 0 := by
  obtain ⟨r, s, hr, hs, hne, hre⟩ := (mem_frdPhaseBrackets hl).mp hi
  rw [List.getElem?_map, ha] at hr
  rw [List.getElem?_map, hb] at hs
  cases hr; cases hs
  obtain ⟨c, hc1, hc2⟩ := bracket_has_root (g := fun w => -(L w).im) hab hc.neg hne
  exact ⟨⟨c, hc1, by linarith⟩, hre⟩

end real

/-! ## Histories of calls on data the caller keeps -/

section history
variable {σ ρ : Type*}

/-- if a call leaves the caller's data as they were, every call of a history on the same data returns
what the first call returns. -/
theorem runCalls_pure (f : σ → σ × ρ) (hpure : ∀ s, (f s).1 = s) (n : Nat) (s : σ) :
    runCalls f n s = List.replicate n (f s).2 := by
  induction n with
  | zero => rfl
  | succ n ih => rw [runCalls, hpure s, ih, List.replicate_succ]

/-- conversely: a second call on the same data that returns something else shows that the first call
changed the caller's data. -/
theorem second_call_differs_mutates (f : σ → σ × ρ) (s : σ) {r1 r2 : ρ}
    (h : runCalls f 2 s = [r1, r2]) (hne : r1 ≠ r2) : (f s).1 ≠ s := by
  intro hs
  simp only [runCalls, hs, List.cons.injEq, and_true] at h
  exact hne (h.1.symm.trans h.2)

end history

/-! ## Worked instances (non-vacuity) -/

section examples

/-- samples of `L = 4/(s+1)³` at `ω = 1, 3/2, 2` (`L(j) = −1 − j`, `L(2j) = −44/125 + 8/125 j`, and the
value at `3/2`): `Im L` changes sign between `3/2` and `2` (the phase crossover `√3`), `|L|` crosses 1
between `1` and `3/2`. -/
def Lsamples : List (Cx ℚ) := [⟨-1, -1⟩, ⟨-1472/2197, -288/2197⟩, ⟨-44/125, 8/125⟩]

example : frdPhaseBrackets Lsamples = some [1] := by decide +kernel
example : frdGainBrackets Lsamples = [0] := by decide +kernel
example : frdGainBrackets ([⟨-2, -1⟩, ⟨-1, -1⟩, ⟨-1/2, 1/4⟩, ⟨-1/4, 1/8⟩] : List (Cx ℚ)) = [1] := by
  decide +kernel
example : frdPhaseBrackets ([⟨-2, -1⟩, ⟨-1, -1⟩, ⟨-1/2, 1/4⟩, ⟨-1/4, 1/8⟩] : List (Cx ℚ)) = some [1] := by
  decide +kernel
/-- a sign change of `Im L` at positive real part (the branch cut of `angle(−L)`) is dropped. -/
example : frdPhaseBrackets ([⟨2, -1⟩, ⟨1, 1⟩] : List (Cx ℚ)) = some [] := by decide +kernel
example : frdPhaseBrackets ([⟨2, -1⟩, ⟨1, 0⟩] : List (Cx ℚ)) = none := by decide +kernel
/-- `|1+L|²` sampled as `4, 1, 1/4, 1, 9`: one grid minimum, reported with the index of its left neighbour. -/
example : frdStabBrackets ([⟨1, 0⟩, ⟨0, 0⟩, ⟨-1/2, 0⟩, ⟨-2, 0⟩, ⟨2, 0⟩] : List (Cx ℚ)) = [1] := by
  decide +kernel
example : (1 : ℕ) ∈ frdStabBrackets ([⟨1, 0⟩, ⟨0, 0⟩, ⟨-1/2, 0⟩, ⟨-2, 0⟩, ⟨2, 0⟩] : List (Cx ℚ)) := by
  decide +kernel
/-- a call that scales the caller's phase in place (state = the phase, result = the phase it used):
the second result differs from the first, so the data were changed. -/
example : runCalls (fun p : ℚ => (p / 2, p)) 2 180 = [180, 90] := by decide +kernel
example : ((fun p : ℚ => (p / 2, p)) 180).1 ≠ 180 :=
  second_call_differs_mutates (fun p : ℚ => (p / 2, p)) 180 (r1 := 180) (r2 := 90) (by decide +kernel)
    (by decide)
example : runCalls (fun p : ℚ => (p, p / 2)) 3 180 = List.replicate 3 (90 : ℚ) := by
  rw [runCalls_pure (fun p : ℚ => (p, p / 2)) (fun _ => rfl) 3 180]
  decide +kernel

end examples

end CtrlVerif.C12
