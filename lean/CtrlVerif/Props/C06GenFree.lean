/-
Source-text tie of C06, part 2: the zero-input fast path of the continuous-time branch of
`forced_response` (`expAdt = expm(A * dt)`, `xout[:, i] = expAdt @ xout[:, i-1]`, `yout = C @ xout`).
`Generated/TimeRespFree.lean` is rewritten from control/timeresp.py on every run
(harness/core/py2lean_tr.py); the model's `simFree` is proved EQUAL to what it computes.
-/
import CtrlVerif.Generated.TimeRespFree
import CtrlVerif.Lemmas.PyTR

namespace CtrlVerif.C06Gen

open Matrix CtrlVerif TimeResp

variable {K : Type} [Field K] [DecidableEq K]

/-- **the zero-input fast path** (`frFree`): for every external `expm`, every system, step, initial
state and number `k ≥ 1` of time points the function the source text defines returns the time vector
and the input unchanged, and states / outputs EQUAL to the model's `simFree` run with `expm(dt • A)`
(the input array is not read). -/
theorem generated_free_eq (expm : SqFun K) (G : DSS K) (dt : K) (T : List K) (x0 : Fin G.n → K)
    (U : PSig K) (k : Nat) (hk : 0 < k) :
    Generated.frFree expm (PySS.A G) (PySS.B G) (PySS.C G) (PySS.D G) dt k T ⟨G.n, x0⟩ U
      = .ok (T, ⟨G.p, (simFree G.sys (expm G.n (dt • G.sys.A)) x0 k).2⟩,
          ⟨G.n, (simFree G.sys (expm G.n (dt • G.sys.A)) x0 k).1⟩, U) := by
  obtain ⟨n, p, m, ⟨A, B, C, D⟩, dtG⟩ := G
  simp only [PySS.A, PySS.B, PySS.C, PySS.D, simFree]
  generalize hE : expm n (dt • A) = E
  set L := freeStates E x0 k with hL
  have hlen : L.length = k := freeStates_length _ _ _
  have h0 : L[0]'(by omega) = x0 := freeStates_getElem_zero' _ _ _ _
  unfold Generated.frFree
  simp only [PMat.mulNum_mk, PMat.smul_mk, PMat.zeros_def, bind, Except.bind, pure, Except.pure]
  have hset : (PSig.zeros n k).setCol 0 ⟨n, x0⟩ = .ok (PSig.partial n L 1) := by
    have := PSig.partial_one n L (by omega)
    rwa [h0, hlen] at this
  simp only [hset, PMat.applySq_mk, hE]
  rw [foldlM_fill n L _ ?step (by omega) _ (by rw [hlen])]
  case step =>
    intro j hj
    have e1 : ((j + 1 : Nat) : Int) - 1 = (j : Int) := by omega
    simp only [e1]
    rw [PSig.partial_getCol n L (j + 1) j (by omega) (by omega) _ rfl]
    simp only [PMat.matvec_mk]
    exact PSig.partial_setCol n L (j + 1) hj _ rfl _
      (freeStates_getElem_succ' _ _ _ j (by rw [freeStates_length]; omega)).symm
  simp only [PMat.matsig_mk]

/-- without time points `xout[:, 0] = X0` raises. -/
theorem generated_free_no_steps (expm : SqFun K) (A B C D : PMat K) (dt : K) (T : List K) (X0 : PVec K)
    (U : PSig K) : Generated.frFree expm A B C D dt 0 T X0 U = .error .indexRange := by
  unfold Generated.frFree
  simp [PSig.setCol, PSig.zeros, PyArith.normIdx, bind, Except.bind]

/-- non-vacuity: `x' = 0` from `x(0) = 3` with `expm` the first-order truncation (exact here): three
time points, the state stays 3. -/
example : ∃ R, Generated.frFree (K := ℚ) (fun _ M => expSum 1 M) ⟨1, 1, !![0]⟩ ⟨1, 1, !![1]⟩ ⟨1, 1, !![1]⟩
    ⟨1, 1, !![0]⟩ 1 3 [0, 1, 2] ⟨1, ![3]⟩ ⟨1, [![0], ![0], ![0]]⟩ = .ok R ∧ R.2.2.1.cols.length = 3 := by
  have := generated_free_eq (K := ℚ) (fun _ M => expSum 1 M) ⟨1, 1, 1, ⟨!![0], !![1], !![1], !![0]⟩, .cont⟩ 1
    [0, 1, 2] ![3] ⟨1, [![0], ![0], ![0]]⟩ 3 (by norm_num)
  exact ⟨_, this, by simp [simFree, freeStates_length]⟩

end CtrlVerif.C06Gen
