/-
Source-text tie for the BODY of `care` (control/mateqn.py, SciPy route; DESIGN §2.5 / §10.3,
notes/NOTES-py2lean-mateqn.md): `Generated/MatEqnCare.lean` is rewritten on every run from the text of
the function in the tree under check by `harness/core/py2lean_meq.py`.  The hand-written run-time
model `careD` (= `carePlan`: the `R = eye` default, the four `_check_shape` calls in the order of the
code, the branch on `S` / `E`, the `eye` / `zeros` defaults of the generalised branch and their checks,
`stabilizing`; then the typed `care`: `solve_continuous_are(A, B, Q, R)` resp. `(…, s=S, e=E)`, the
gain `solve(R, B.T @ X)` resp. `solve(R, B.T @ X @ E + S.T)`, the eigenvalue call on `A - B @ K`
resp. `(A - B @ K, E)`, the returned triple) is proved EQUAL to the generated function for every
solver record, every eigenvalue routine, every array (all sizes, entries, dtypes), every combination
of `R` / `S` / `E` given or `None`, both values of `stabilizing`, `method` `None` or `'scipy'`.

Inherited deviation (`Props/C10Gen.lean`): a `0 × 0` weight that must be symmetric raises IndexError
in the source; the equality carries the hypotheses that `Q` and `R` (or the identity standing in for
it) are not `0 × 0`.
-/
import CtrlVerif.Generated.MatEqnCare
import CtrlVerif.Lemmas.PyMeq
import CtrlVerif.Props.C10GenMethod

namespace CtrlVerif.C10Gen

open CtrlVerif MatEqn PyMeq

variable {K : Type} [Field K] [LinearOrder K] [DecidableEq K]

/-- what `care` / `dare` return, as Python sees it: `(X, eigenvalues of the closed-loop pencil, G)` —
the eigenvalue routine `ev` applied to the pencil the model records. -/
def areOutPy {L : Type} (ev : EigFun K L) (o : AreOut K) : PMat K × L × PMat K :=
  (⟨o.n, o.n, o.res.X⟩, ev o.n o.res.Acl o.res.Ecl, ⟨o.m, o.n, o.res.G⟩)

/-- **`care` as written in the source is the model's `careD`** (SciPy route). -/
theorem generated_care_eq {L : Type} (Sv : Solvers K) (ev : EigFun K L) (eps : K) (A B Q : DMat K)
    (R S E : Option (DMat K)) (stabilizing : Bool) (method : Method) (nA nB nQ nR nS nE : String)
    (hm : method = .none ∨ method = .scipy)
    (hQ : ¬ (Q.p = 0 ∧ Q.q = 0)) (hR : ¬ ((rOf B eps R).p = 0 ∧ (rOf B eps R).q = 0)) :
    Generated.care Sv ev eps A B Q R S E stabilizing method nA nB nQ nR nS nE
      = (careD Sv eps stabilizing A B Q R S E).map (areOutPy ev) := by
  have hsc := generated_slycotOrScipy_scipy method hm
  unfold Generated.care careD carePlan
  simp only [hsc, array2d, ifNone_rOf, ok_bind, map_eq_bind]
  cases S <;> cases E
  · -- standard problem
    simp only [pure_bind, bind_assoc, gcs_bind A A.p A.p true false nA (by simp),
      gcs_bind B A.p B.q false false nB (by simp), gcs_bind Q A.p A.p true true nQ (by simp [hQ]),
      gcs_bind (rOf B eps R) B.q B.q true true nR (by simp [hR])]
    refine bind_congr_ok fun A' hA => ?_
    refine bind_congr_ok fun B' hB => ?_
    refine bind_congr_ok fun Q' hQ2 => ?_
    refine bind_congr_ok fun R' hR2 => ?_
    cases stabilizing
    · simp [throw, throwThe, MonadExceptOf.throw, error_bind]
    · simp only [checkShape_toP hA, checkShape_toP hB, checkShape_toP hQ2, checkShape_toP hR2]
      simp only [solveContinuousAre_mk' Sv _ _ _ _ _ _ none none none none rfl rfl, PMat.T_mk, PMat.matmul_mk,
        PMat.solve_mk, ok_bind, if_true, not_true_eq_false, if_false, Bool.not_true, Bool.false_eq_true, pure_bind,
        care]
      by_cases hdet : R'.det = 0
      · simp only [hdet, if_true, error_bind]
      · simp only [hdet, if_false, ok_bind, PMat.matmul_mk, PMat.sub_mk, eig_mk' ev _ _ none none rfl]
        rfl
  · -- `E` given, `S` defaulted to zeros
    rename_i E
    simp only [ifNone_none, ifNone_some, pure_bind, bind_assoc, gcs_bind A A.p A.p true false nA (by simp),
      gcs_bind B A.p B.q false false nB (by simp), gcs_bind Q A.p A.p true true nQ (by simp [hQ]),
      gcs_bind (rOf B eps R) B.q B.q true true nR (by simp [hR]),
      gcs_bind E A.p A.p true false nE (by simp), gcs_bind (zeros eps A.p B.q) A.p B.q false false nS (by simp),
      checkShape_zeros, ok_bind]
    refine bind_congr_ok fun A' hA => ?_
    refine bind_congr_ok fun B' hB => ?_
    refine bind_congr_ok fun Q' hQ2 => ?_
    refine bind_congr_ok fun R' hR2 => ?_
    refine bind_congr_ok fun E' hE => ?_
    cases stabilizing
    · simp [throw, throwThe, MonadExceptOf.throw, error_bind]
    · simp only [checkShape_toP hA, checkShape_toP hB, checkShape_toP hQ2, checkShape_toP hR2, checkShape_toP hE,
        toP_zeros]
      simp only [solveContinuousAre_mk' Sv _ _ _ _ _ _ _ _ _ _ (optTyped_some _ _ _) (optTyped_some _ _ _),
        PMat.T_mk, PMat.matmul_mk, PMat.add_mk,
        PMat.solve_mk, ok_bind, if_true, not_true_eq_false, if_false, Bool.not_true, Bool.false_eq_true, pure_bind,
        care]
      by_cases hdet : R'.det = 0
      · simp only [hdet, if_true, error_bind]
      · simp only [hdet, if_false, ok_bind, PMat.matmul_mk, PMat.sub_mk, eig_mk' ev _ _ _ _ (optTyped_some _ _ _)]
        rfl
  · -- `S` given, `E` defaulted to the identity
    rename_i S
    simp only [ifNone_none, ifNone_some, pure_bind, bind_assoc, gcs_bind A A.p A.p true false nA (by simp),
      gcs_bind B A.p B.q false false nB (by simp), gcs_bind Q A.p A.p true true nQ (by simp [hQ]),
      gcs_bind (rOf B eps R) B.q B.q true true nR (by simp [hR]),
      gcs_bind (eye eps A.p) A.p A.p true false nE (by simp), gcs_bind S A.p B.q false false nS (by simp),
      checkShape_eye, ok_bind]
    refine bind_congr_ok fun A' hA => ?_
    refine bind_congr_ok fun B' hB => ?_
    refine bind_congr_ok fun Q' hQ2 => ?_
    refine bind_congr_ok fun R' hR2 => ?_
    refine bind_congr_ok fun S' hS => ?_
    cases stabilizing
    · simp [throw, throwThe, MonadExceptOf.throw, error_bind]
    · simp only [checkShape_toP hA, checkShape_toP hB, checkShape_toP hQ2, checkShape_toP hR2, checkShape_toP hS,
        toP_eye]
      simp only [solveContinuousAre_mk' Sv _ _ _ _ _ _ _ _ _ _ (optTyped_some _ _ _) (optTyped_some _ _ _),
        PMat.T_mk, PMat.matmul_mk, PMat.add_mk,
        PMat.solve_mk, ok_bind, if_true, not_true_eq_false, if_false, Bool.not_true, Bool.false_eq_true, pure_bind,
        care]
      by_cases hdet : R'.det = 0
      · simp only [hdet, if_true, error_bind]
      · simp only [hdet, if_false, ok_bind, PMat.matmul_mk, PMat.sub_mk, eig_mk' ev _ _ _ _ (optTyped_some _ _ _)]
        rfl
  · -- `S` and `E` given
    rename_i S E
    simp only [ifNone_none, ifNone_some, pure_bind, bind_assoc, gcs_bind A A.p A.p true false nA (by simp),
      gcs_bind B A.p B.q false false nB (by simp), gcs_bind Q A.p A.p true true nQ (by simp [hQ]),
      gcs_bind (rOf B eps R) B.q B.q true true nR (by simp [hR]),
      gcs_bind E A.p A.p true false nE (by simp), gcs_bind S A.p B.q false false nS (by simp), ok_bind]
    refine bind_congr_ok fun A' hA => ?_
    refine bind_congr_ok fun B' hB => ?_
    refine bind_congr_ok fun Q' hQ2 => ?_
    refine bind_congr_ok fun R' hR2 => ?_
    refine bind_congr_ok fun E' hE => ?_
    refine bind_congr_ok fun S' hS => ?_
    cases stabilizing
    · simp [throw, throwThe, MonadExceptOf.throw, error_bind]
    · simp only [checkShape_toP hA, checkShape_toP hB, checkShape_toP hQ2, checkShape_toP hR2, checkShape_toP hS,
        checkShape_toP hE]
      simp only [solveContinuousAre_mk' Sv _ _ _ _ _ _ _ _ _ _ (optTyped_some _ _ _) (optTyped_some _ _ _),
        PMat.T_mk, PMat.matmul_mk, PMat.add_mk,
        PMat.solve_mk, ok_bind, if_true, not_true_eq_false, if_false, Bool.not_true, Bool.false_eq_true, pure_bind,
        care]
      by_cases hdet : R'.det = 0
      · simp only [hdet, if_true, error_bind]
      · simp only [hdet, if_false, ok_bind, PMat.matmul_mk, PMat.sub_mk, eig_mk' ev _ _ _ _ (optTyped_some _ _ _)]
        rfl

/-- the inherited deviation: `care` with a `0 × 0` weight `Q` raises IndexError (`M[0, 0]` in
`_is_symmetric`) once `A` and `B` have passed their checks. -/
theorem generated_care_empty {L : Type} (Sv : Solvers K) (ev : EigFun K L) (eps : K) (A B Q : DMat K)
    (R S E : Option (DMat K)) (stabilizing : Bool) (method : Method) (nA nB nQ nR nS nE : String)
    (hm : method = .none ∨ method = .scipy) (hA : A.q = A.p) (hB : B.p = A.p) (hQ : Q.p = 0 ∧ Q.q = 0) :
    Generated.care Sv ev eps A B Q R S E stabilizing method nA nB nQ nR nS nE = .error .indexRange := by
  have hsc := generated_slycotOrScipy_scipy method hm
  unfold Generated.care
  simp only [hsc, array2d, ok_bind]
  cases S <;> cases E <;>
    simp [pure_bind, bind_assoc, gcs_bind A A.p A.p true false nA (by simp),
      gcs_bind B A.p B.q false false nB (by simp), checkShape_square A hA, checkShape_plain B hB rfl, ok_bind,
      error_bind, generated_checkShape_empty_sym Q hQ.1 hQ.2]

/-- any other `method`: ControlArgument ("Unknown method"), before anything else. -/
theorem generated_care_other {L : Type} (Sv : Solvers K) (ev : EigFun K L) (eps : K) (A B Q : DMat K)
    (R S E : Option (DMat K)) (stabilizing : Bool) (nA nB nQ nR nS nE : String) :
    Generated.care Sv ev eps A B Q R S E stabilizing .other nA nB nQ nR nS nE = .error .badArg := by
  simp [Generated.care, generated_slycotOrScipy_eq, bind, Except.bind]

/-- `method='slycot'` without Slycot: the whole validation of the model (whatever `stabilizing` is),
then ControlSlycot — `care` never returns. -/
theorem generated_care_slycot {L : Type} (Sv : Solvers K) (ev : EigFun K L) (eps : K) (A B Q : DMat K)
    (R S E : Option (DMat K)) (stabilizing : Bool) (nA nB nQ nR nS nE : String)
    (hQ : ¬ (Q.p = 0 ∧ Q.q = 0)) (hR : ¬ ((rOf B eps R).p = 0 ∧ (rOf B eps R).q = 0)) :
    Generated.care Sv ev eps A B Q R S E stabilizing .slycot nA nB nQ nR nS nE
      = (carePlan eps true A B Q R S E) >>= fun _ => .error .notImplemented := by
  unfold Generated.care carePlan
  simp only [generated_slycotOrScipy_eq, array2d, ifNone_rOf, ok_bind]
  cases S <;> cases E
  · simp only [pure_bind, bind_assoc, gcs_bind A A.p A.p true false nA (by simp),
      gcs_bind B A.p B.q false false nB (by simp), gcs_bind Q A.p A.p true true nQ (by simp [hQ]),
      gcs_bind (rOf B eps R) B.q B.q true true nR (by simp [hR])]
    refine bind_congr_ok fun A' hA => ?_
    refine bind_congr_ok fun B' hB => ?_
    refine bind_congr_ok fun Q' hQ2 => ?_
    refine bind_congr_ok fun R' hR2 => ?_
    simp [throw, throwThe, MonadExceptOf.throw, ok_bind]
  · rename_i E
    simp only [ifNone_none, ifNone_some, pure_bind, bind_assoc, gcs_bind A A.p A.p true false nA (by simp),
      gcs_bind B A.p B.q false false nB (by simp), gcs_bind Q A.p A.p true true nQ (by simp [hQ]),
      gcs_bind (rOf B eps R) B.q B.q true true nR (by simp [hR]),
      gcs_bind E A.p A.p true false nE (by simp), gcs_bind (zeros eps A.p B.q) A.p B.q false false nS (by simp),
      checkShape_zeros, ok_bind]
    refine bind_congr_ok fun A' hA => ?_
    refine bind_congr_ok fun B' hB => ?_
    refine bind_congr_ok fun Q' hQ2 => ?_
    refine bind_congr_ok fun R' hR2 => ?_
    refine bind_congr_ok fun E' hE => ?_
    simp [throw, throwThe, MonadExceptOf.throw, ok_bind]
  · rename_i S
    simp only [ifNone_none, ifNone_some, pure_bind, bind_assoc, gcs_bind A A.p A.p true false nA (by simp),
      gcs_bind B A.p B.q false false nB (by simp), gcs_bind Q A.p A.p true true nQ (by simp [hQ]),
      gcs_bind (rOf B eps R) B.q B.q true true nR (by simp [hR]),
      gcs_bind (eye eps A.p) A.p A.p true false nE (by simp), gcs_bind S A.p B.q false false nS (by simp),
      checkShape_eye, ok_bind]
    refine bind_congr_ok fun A' hA => ?_
    refine bind_congr_ok fun B' hB => ?_
    refine bind_congr_ok fun Q' hQ2 => ?_
    refine bind_congr_ok fun R' hR2 => ?_
    refine bind_congr_ok fun S' hS => ?_
    simp [throw, throwThe, MonadExceptOf.throw, ok_bind]
  · rename_i S E
    simp only [ifNone_none, ifNone_some, pure_bind, bind_assoc, gcs_bind A A.p A.p true false nA (by simp),
      gcs_bind B A.p B.q false false nB (by simp), gcs_bind Q A.p A.p true true nQ (by simp [hQ]),
      gcs_bind (rOf B eps R) B.q B.q true true nR (by simp [hR]),
      gcs_bind E A.p A.p true false nE (by simp), gcs_bind S A.p B.q false false nS (by simp), ok_bind]
    refine bind_congr_ok fun A' hA => ?_
    refine bind_congr_ok fun B' hB => ?_
    refine bind_congr_ok fun Q' hQ2 => ?_
    refine bind_congr_ok fun R' hR2 => ?_
    refine bind_congr_ok fun E' hE => ?_
    refine bind_congr_ok fun S' hS => ?_
    simp [throw, throwThe, MonadExceptOf.throw, ok_bind]

end CtrlVerif.C10Gen
