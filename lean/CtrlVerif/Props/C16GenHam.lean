/-
Source-text tie of C16, part 2: the nested function `_Hamilton_matrix(gamma)` of `system_norm`
(control/sysnorm.py).  `Generated/NormHam.lean` is rewritten from the source text on every run
(harness/core/py2lean_norm.py); the free variables of the nested function (`Im, D, A, B, C, Ip` in the
order of their first occurrence) are its leading parameters.  The theorem below proves that, called as
the code calls it — `Im = np.eye(D.shape[1])`, `Ip = np.eye(D.shape[0])` (the identities of repair
c2eff4a) — on a system of ANY shape, it raises `LinAlgError` exactly when `R = γ² I_m − DᵀD` is
singular and otherwise returns the model's `hamiltonian G R⁻¹` (the 2n × 2n array of the four blocks
`A + B R⁻¹ Dᵀ C`, `B R⁻¹ Bᵀ`, `−Cᵀ (I_p + D R⁻¹ Dᵀ) C`, `−(A + B R⁻¹ Dᵀ C)ᵀ`).  Consequences: the
model's `eigTest`, and the determinant identity `C16.hamiltonian_det` for the array the source-text
function returns.
-/
import CtrlVerif.Generated.NormHam
import CtrlVerif.Lemmas.PyNorm
import CtrlVerif.Props.C16

namespace CtrlVerif.C16Gen

open Matrix CtrlVerif CtrlVerif.Norm

variable {K : Type} [Field K] [LinearOrder K]

/-- `la.inv` as the model's parameter `inv` (`none` = `LinAlgError`). -/
def invOpt {k : Nat} (M : Matrix (Fin k) (Fin k) K) : Option (Matrix (Fin k) (Fin k) K) :=
  if M.det = 0 then none else some (PMat.inverse M)

/-- a `2n × 2n` block matrix as the untyped array `np.block` builds. -/
def flat2 {n : Nat} (H : Matrix (Fin n ⊕ Fin n) (Fin n ⊕ Fin n) K) : PMat K :=
  ⟨n + n, n + n, H.submatrix finSumFinEquiv.symm finSumFinEquiv.symm⟩

theorem mul_inverse {k : Nat} (M : Matrix (Fin k) (Fin k) K) (h : M.det ≠ 0) : M * PMat.inverse M = 1 := by
  unfold PMat.inverse
  rw [Matrix.mul_smul, Matrix.mul_adjugate, smul_smul, inv_mul_cancel₀ h, one_smul]

/-- **`_Hamilton_matrix`**: the function the source text defines, with the identities the code passes,
is the model's `Rmat` / `la.inv` / `hamiltonian`, for every shape `(p, m)`, order `n` and `γ`. -/
theorem generated_hamilton_eq {n m p : Nat} (G : SS (Fin n) (Fin m) (Fin p) K) (γ : K) :
    Generated.normHamilton (PMat.eye m) ⟨p, m, G.D⟩ ⟨n, n, G.A⟩ ⟨n, m, G.B⟩ ⟨p, n, G.C⟩ (PMat.eye p) γ
      = match invOpt (Rmat G γ) with
        | none => .error .illPosed
        | some Ri => .ok (flat2 (hamiltonian G Ri)) := by
  unfold Generated.normHamilton invOpt
  simp only [PMat.eye_def, PMat.T_mk, PMat.matmul_mk, PMat.mulNum_mk, PMat.sub_mk, bind, Except.bind,
    PMat.inv_mk]
  have hR : γ ^ 2 • (1 : Matrix (Fin m) (Fin m) K) - G.Dᵀ * G.D = Rmat G γ := rfl
  rw [hR]
  by_cases hd : (Rmat G γ).det = 0
  · simp only [hd, ↓reduceIte]
  · simp only [hd, ↓reduceIte, PMat.matmul_mk, PMat.add_mk, PMat.neg_mk', PMat.T_mk, PMat.block22_mk]
    simp only [flat2, hamiltonian, Matrix.neg_mul]

/-- the loop test of the code, `any(np.isclose(la.eigvals(_Hamilton_matrix(γ)).real, 0.0))`, as the
model's parameter `imagEig`. -/
def imagEigOf (eigvals : PMat K → List (Pole K)) {n : Nat}
    (H : Matrix (Fin n ⊕ Fin n) (Fin n ⊕ Fin n) K) : Bool :=
  PyNorm.any (PyNorm.isclose (PyNorm.real (eigvals (flat2 H))) 0)

/-- **the eigenvalue test of both loops** is the model's `eigTest`. -/
theorem generated_eigTest_eq (eigvals : PMat K → List (Pole K)) {n m p : Nat}
    (G : SS (Fin n) (Fin m) (Fin p) K) (γ : K) :
    ((Generated.normHamilton (PMat.eye m) ⟨p, m, G.D⟩ ⟨n, n, G.A⟩ ⟨n, m, G.B⟩ ⟨p, n, G.C⟩ (PMat.eye p) γ).bind
        fun t => .ok (decide (PyNorm.any (PyNorm.isclose (PyNorm.real (eigvals t)) (0 : K)) = true)))
      = eigTest invOpt (imagEigOf eigvals) G γ := by
  rw [generated_hamilton_eq]
  unfold eigTest imagEigOf
  cases invOpt (Rmat G γ) with
  | none => rfl
  | some Ri => simp only [Except.bind, Bool.decide_eq_true]

/-- **`hamiltonian_det` for the generated function**: whatever array `H` the source-text function
returns satisfies `det(sI − H) · det R = det(sI − A) · det(sI + Aᵀ) · det(γ²I − G(−s)ᵀ G(s))`
(every `D`, every shape). -/
theorem generated_hamiltonian_det {n m p : Nat} (G : SS (Fin n) (Fin m) (Fin p) K) (γ s : K)
    (H : Matrix (Fin (n + n)) (Fin (n + n)) K)
    (hH : Generated.normHamilton (PMat.eye m) ⟨p, m, G.D⟩ ⟨n, n, G.A⟩ ⟨n, m, G.B⟩ ⟨p, n, G.C⟩ (PMat.eye p) γ
      = .ok ⟨n + n, n + n, H⟩)
    {Y Yn : Matrix (Fin p) (Fin m) K} (h : G.Resp s Y) (hn : G.Resp (-s) Yn)
    (hu : IsUnit (s • (1 : Matrix (Fin n) (Fin n) K) + G.Aᵀ).det) :
    det (s • (1 : Matrix (Fin (n + n)) (Fin (n + n)) K) - H) * det (Rmat G γ) =
      det (s • (1 : Matrix (Fin n) (Fin n) K) - G.A) * det (s • (1 : Matrix (Fin n) (Fin n) K) + G.Aᵀ) *
        det ((γ ^ 2) • (1 : Matrix (Fin m) (Fin m) K) - Ynᵀ * Y) := by
  rw [generated_hamilton_eq] at hH
  unfold invOpt at hH
  by_cases hd : (Rmat G γ).det = 0
  · simp [hd] at hH
  · simp only [hd, ↓reduceIte, flat2, Except.ok.injEq, PMat.mk.injEq, heq_eq_eq, true_and] at hH
    subst hH
    have e : s • (1 : Matrix (Fin (n + n)) (Fin (n + n)) K)
          - (hamiltonian G (PMat.inverse (Rmat G γ))).submatrix finSumFinEquiv.symm finSumFinEquiv.symm
        = (s • (1 : Matrix (Fin n ⊕ Fin n) (Fin n ⊕ Fin n) K)
          - hamiltonian G (PMat.inverse (Rmat G γ))).submatrix finSumFinEquiv.symm finSumFinEquiv.symm := by
      ext i j
      simp [Matrix.one_apply, Matrix.sub_apply, Matrix.smul_apply]
    rw [e, Matrix.det_submatrix_equiv_self]
    exact C16.hamiltonian_det G γ s _ (mul_inverse _ hd) h hn hu

/-- non-vacuity: `1/(s+1)`, `γ = 2`: `R = 4`, `H = [[-1, 1/4], [-1, 1]]`. -/
example : Generated.normHamilton (PMat.eye 1) ⟨1, 1, !![(0 : ℚ)]⟩ ⟨1, 1, !![-1]⟩ ⟨1, 1, !![1]⟩ ⟨1, 1, !![1]⟩
    (PMat.eye 1) 2
    = .ok (flat2 (fromBlocks !![-1] !![1/4] !![-1] !![1])) := by
  rw [generated_hamilton_eq ⟨!![-1], !![1], !![1], !![0]⟩ 2]
  have hR : Rmat (⟨!![-1], !![1], !![1], !![0]⟩ : SS (Fin 1) (Fin 1) (Fin 1) ℚ) 2 = !![4] := by
    ext i j; fin_cases i; fin_cases j; norm_num [Rmat, Matrix.mul_apply]
  have hi : PMat.inverse (!![4] : Matrix (Fin 1) (Fin 1) ℚ) = !![1/4] := by
    ext i j; fin_cases i; fin_cases j; norm_num [PMat.inverse, Matrix.det_fin_one, Matrix.adjugate_fin_one]
  simp only [invOpt, hR, Matrix.det_fin_one_of, hi]
  norm_num
  congr 1
  ext i j
  fin_cases i <;> fin_cases j <;>
    norm_num [hamiltonian, Matrix.mul_apply, Matrix.vecMul, dotProduct, Matrix.vecHead]

-- a non-square system (1 output, 2 inputs) with `D ≠ 0`: `R = γ² I_2 − DᵀD` is 2 × 2 and a singular `R`
-- raises `LinAlgError` (`γ = 0`, `D = 0`)
example : Generated.normHamilton (PMat.eye 2) ⟨1, 2, (0 : Matrix (Fin 1) (Fin 2) ℚ)⟩ ⟨1, 1, !![-1]⟩ ⟨1, 2, !![1, 2]⟩
    ⟨1, 1, !![1]⟩ (PMat.eye 1) 0 = .error .illPosed := by
  rw [generated_hamilton_eq ⟨!![-1], !![1, 2], !![1], 0⟩ 0]
  have hR : (Rmat (⟨!![-1], !![1, 2], !![1], 0⟩ : SS (Fin 1) (Fin 2) (Fin 1) ℚ) 0).det = 0 := by
    simp [Rmat]
  simp [invOpt, hR]

end CtrlVerif.C16Gen
