/-
Source-text tie of C11, parts 3 and 4, the part that does NOT depend on the generated files: what
`lqr` / `dlqr` / `lqe` / `dlqe` do, written with the pieces of the hand-written model (`route`, `intBlock`,
`augA`, `augB`, the re-orderings of the typed `lqr` / `lqe`) as `lqSpec` / `lqeSpec`; the bodies of the four
functions from the keyword dispatch on (`lq_tail`, `lqe_tail`); and the tie of these specifications to the
run-time model: whenever `lqrDyn` / `lqeDyn` say "routine `rt` is called with arguments `a`", the specification
IS that call of `care` / `dare` (`lqrDyn_reaches`, `lqeDyn_reaches`).  `Props/C11GenLqr.lean` /
`C11GenLqe.lean` prove the generated functions equal to these specifications.
-/
import CtrlVerif.Lemmas.PySfb
import CtrlVerif.Model.StateFbkDyn
import CtrlVerif.Props.C05PredUses
import CtrlVerif.Props.C11

namespace CtrlVerif.C11Gen
open Matrix CtrlVerif CtrlVerif.StateFbk
variable {K : Type} [Field K] [DecidableEq K] {ε : Type}

/-- a typed matrix over `Fin n ⊕ Fin q` (rows and columns) as a run-time array of size `n + q`. -/
def sumSq {n q : Nat} (M : Matrix (Fin n ⊕ Fin q) (Fin n ⊕ Fin q) K) : PMat K :=
  ⟨n + q, n + q, M.submatrix finSumFinEquiv.symm finSumFinEquiv.symm⟩

/-- a typed matrix with rows over `Fin n ⊕ Fin q` as a run-time array. -/
def sumRowsP {n q m : Nat} (M : Matrix (Fin n ⊕ Fin q) (Fin m) K) : PMat K :=
  ⟨n + q, m, M.submatrix finSumFinEquiv.symm id⟩

/-- the routine reached. -/
def ricOf (care dare : PySfb.RicFn K ε) : Routine → PySfb.RicFn K ε
  | .care => care
  | .dare => dare

/-- the cross weight handed over: `lqr` passes `N` or `None`, `dlqr` passes `N` or `zeros`. -/
def crossOf (rt : Routine) (Q R : PMat K) (N : Option (PMat K)) : Option (PMat K) :=
  match rt with
  | .care => N
  | .dare => some (N.getD (PMat.zeros Q.r R.c))

/-- `X, L, G = care(…); return G, X, L` (the reordering of the typed model `lqr`). -/
def finish (r : Except Err (PMat K × ε × PMat K)) : Except Err (PMat K × PMat K × ε) :=
  r.map fun r => (r.2.2, r.1, r.2.1)

/-- what `lqr` / `dlqr` do once the routine `rt` and the matrices are known, in terms of the typed
model: `augA A C (intBlock rt)`, `augB B`. -/
def lqSpec (care dare : PySfb.RicFn K ε) (rt : Routine) {n m : Nat} (A : Matrix (Fin n) (Fin n) K)
    (B : Matrix (Fin n) (Fin m) K) (Q R : PMat K) (N : Option (PMat K)) (kw : PySfb.Kw K) :
    Except Err (PMat K × PMat K × ε) :=
  match kw.integralAction with
  | none =>
    if PySfb.Kw.rest kw true true = true then .error .badArg
    else finish (ricOf care dare rt ⟨n, n, A⟩ ⟨n, m, B⟩ Q R (crossOf rt Q R N))
  | some .notArray => .error .badArg
  | some (.arr C) =>
    if h : C.c = n then
      if PySfb.Kw.rest kw true true = true then .error .badArg
      else finish (ricOf care dare rt
        (sumSq (augA A (PMat.retype rfl h C.M) (intBlock (q := Fin C.r) rt)))
        (sumRowsP (augB (q := Fin C.r) B)) Q R (crossOf rt Q R N))
    else .error .badArg

/-- the positional arguments of a call with a system. -/
def sysArgs (G : DSS K) (Q R : PMat K) (N : Option (PMat K)) : List (PySfb.Arg K) :=
  .ss G :: .arr Q :: .arr R :: N.toList.map .arr

theorem argAt_zero (a : PySfb.Arg K) (l : List (PySfb.Arg K)) : PySfb.argAt (a :: l) 0 = .ok a := rfl
theorem argAt_succ (a : PySfb.Arg K) (l : List (PySfb.Arg K)) (i : Nat) :
    PySfb.argAt (a :: l) (i + 1) = PySfb.argAt l i := by
  simp [PySfb.argAt]
theorem argAt_nil (i : Nat) : PySfb.argAt ([] : List (PySfb.Arg K)) i = .error .indexRange := by
  simp [PySfb.argAt]
theorem toArray_arr (X : PMat K) : PySfb.Arg.toArray (.arr X) = .ok X := rfl

theorem route_dlqr (d : Dt) :
    route .dlqr (some d) = if DtPred.isctime true d = true then .error .badArg else .ok .dare := by
  rw [← (C05Pred.statefbk_preds d).2.1]; rfl

theorem route_lqr (d : Dt) :
    route .lqr (some d) = if DtPred.isdtime true d = true then .ok .dare else .ok .care := by
  rw [← (C05Pred.statefbk_preds d).1]; rfl

/-- the augmentation `np.block([[A, 0], [C, J]])`, `np.vstack([B, 0])` is the model's `augA`, `augB`. -/
theorem block_aug {n q : Nat} (A : Matrix (Fin n) (Fin n) K) (C : Matrix (Fin q) (Fin n) K)
    (J : Matrix (Fin q) (Fin q) K) :
    PMat.block [[⟨n, n, A⟩, ⟨n, q, 0⟩], [⟨q, n, C⟩, ⟨q, q, J⟩]] = .ok (sumSq (augA A C J)) :=
  PMat.block22_mk A 0 C J

theorem vcat_aug {n q m : Nat} (B : Matrix (Fin n) (Fin m) K) :
    PMat.vcat ⟨n, m, B⟩ ⟨q, m, 0⟩ = .ok (sumRowsP (augB (q := Fin q) B)) :=
  PMat.vcat_mk n q m B 0

/-- the body of `lqr` / `dlqr` after the matrices, the weights and the routine are known. -/
theorem lq_tail (care dare : PySfb.RicFn K ε) (rt : Routine) {n m : Nat} (A : Matrix (Fin n) (Fin n) K)
    (B : Matrix (Fin n) (Fin m) K) (Q R : PMat K) (N : Option (PMat K)) (kw : PySfb.Kw K)
    (J : Nat → PMat K) (hJ : ∀ q, J q = ⟨q, q, intBlock (q := Fin q) rt⟩) :
    (match kw.integralAction with
      | none =>
        if PySfb.Kw.rest kw true true = true then (.error .badArg : Except Err (PMat K × PMat K × ε))
        else (ricOf care dare rt ⟨n, n, A⟩ ⟨n, m, B⟩ Q R (crossOf rt Q R N)).bind fun t =>
          .ok (t.2.2, t.1, t.2.1)
      | some (.arr ia) =>
        if ia.c ≠ n then .error .badArg
        else (PMat.block [[⟨n, n, A⟩, PMat.zeros n ia.r], [ia, J ia.r]]).bind fun A' =>
          (PMat.vcat ⟨n, m, B⟩ (PMat.zeros ia.r m)).bind fun B' =>
            if PySfb.Kw.rest kw true true = true then .error .badArg
            else (ricOf care dare rt A' B' Q R (crossOf rt Q R N)).bind fun t => .ok (t.2.2, t.1, t.2.1)
      | some .notArray => .error .badArg)
    = lqSpec care dare rt A B Q R N kw := by
  unfold lqSpec
  cases hk : kw.integralAction with
  | none =>
    simp only []
    split_ifs
    · rfl
    · simp only [finish, Except.map]
      cases ricOf care dare rt ⟨n, n, A⟩ ⟨n, m, B⟩ Q R (crossOf rt Q R N) <;> rfl
  | some v =>
    cases v with
    | notArray => rfl
    | arr ia =>
      obtain ⟨q, c, CM⟩ := ia
      simp only []
      by_cases hc : c = n
      · subst hc
        rw [if_neg (by simp), dif_pos rfl, hJ, PMat.zeros_def, PMat.zeros_def, block_aug, Except.ok_bind',
          vcat_aug, Except.ok_bind']
        simp only [PMat.retype_rfl]
        split_ifs
        · rfl
        · simp only [finish, Except.map]
          cases ricOf care dare rt (sumSq (augA A CM (intBlock rt))) (sumRowsP (augB B)) Q R (crossOf rt Q R N) <;> rfl
      · rw [if_pos hc, dif_neg hc]

/-- the positional arguments of a call with matrices. -/
def matArgs {n m : Nat} (A : Matrix (Fin n) (Fin n) K) (B : Matrix (Fin n) (Fin m) K) (Q R : PMat K)
    (N : Option (PMat K)) : List (PySfb.Arg K) :=
  .arr ⟨n, n, A⟩ :: .arr ⟨n, m, B⟩ :: .arr Q :: .arr R :: N.toList.map .arr

theorem isctime_of_isdtime (d : Dt) (h : DtPred.isdtime true d = true) : ¬ DtPred.isctime true d = true := by
  cases d with
  | disc x =>
    simp only [DtPred.isdtime, DtPred.isctime, decide_eq_true_eq] at h ⊢
    exact ne_of_gt h
  | _ => simp_all [DtPred.isdtime, DtPred.isctime]

/-! ### the tie to the run-time model `lqrDyn` -/

/-- a run-time shaped matrix of the model as the Python value. -/
def dmP (X : DM K) : PMat K := ⟨X.r, X.c, X.m⟩

/-- the keywords of a call as the model's `lqrDyn` describes it. -/
def kwOf (hasMethod : Bool) (Ci : Option (DM K)) (isArr : Bool) : PySfb.Kw K :=
  ⟨hasMethod, Ci.map fun C => if isArr then .arr (dmP C) else .notArray, false⟩

theorem sumSq_sumBoth {n q : Nat} (Q : DM K) (h1 : Q.r = n + q) (h2 : Q.c = n + q) :
    sumSq (sumBoth h1 h2 Q.m) = dmP Q := by
  obtain ⟨r, c, M⟩ := Q
  simp only at h1 h2
  subst h1 h2
  simp only [sumSq, sumBoth, dmP]
  congr 1
  ext i j
  simp

theorem sumRowsP_sumRows {n q m : Nat} (S : DM K) (h1 : S.r = n + q) (h2 : S.c = m) :
    sumRowsP ((sumRows h1 S.m).submatrix id (Fin.cast h2.symm)) = dmP S := by
  obtain ⟨r, c, M⟩ := S
  simp only at h1 h2
  subst h1 h2
  simp only [sumRowsP, sumRows, dmP]
  congr 1
  ext i j
  simp

theorem dmP_cast {m : Nat} (R : DM K) (h1 : R.r = m) (h2 : R.c = m) :
    (⟨m, m, R.m.submatrix (Fin.cast h1.symm) (Fin.cast h2.symm)⟩ : PMat K) = dmP R := by
  obtain ⟨r, c, M⟩ := R
  simp only at h1 h2
  subst h1 h2
  rfl

theorem sumSq_aug_zero {n : Nat} (A : Matrix (Fin n) (Fin n) K) (C : Matrix (Fin 0) (Fin n) K)
    (J : Matrix (Fin 0) (Fin 0) K) : sumSq (augA A C J) = ⟨n, n, A⟩ := by
  refine PMat.ext' rfl rfl ?_
  ext (i : Fin n) (j : Fin n)
  show (fromBlocks A 0 C J) (finSumFinEquiv.symm (Fin.castAdd 0 i)) (finSumFinEquiv.symm (Fin.castAdd 0 j)) = A i j
  rw [finSumFinEquiv_symm_apply_castAdd, finSumFinEquiv_symm_apply_castAdd]
  rfl

theorem sumRowsP_aug_zero {n m : Nat} (B : Matrix (Fin n) (Fin m) K) :
    sumRowsP (augB (q := Fin 0) B) = ⟨n, m, B⟩ := by
  refine PMat.ext' rfl rfl ?_
  ext (i : Fin n) (j : Fin m)
  show (fromRows B (0 : Matrix (Fin 0) (Fin m) K)) (finSumFinEquiv.symm (Fin.castAdd 0 i)) j = B i j
  rw [finSumFinEquiv_symm_apply_castAdd]
  rfl

/-- **the tie to `lqrDyn`**: whenever the run-time model says "the call reaches routine `rt` with the
arguments `a`", the plumbing of the source text (`lqSpec` after `route`) IS that call of `care` / `dare`,
with whatever the routine returns re-ordered as `(G, X, L)`. -/
theorem lqrDyn_reaches (care dare : PySfb.RicFn K ε) (f : Fn) (sysdt : Option Dt) (n m : Nat)
    (A : Matrix (Fin n) (Fin n) K) (B : Matrix (Fin n) (Fin m) K) (Q R : DM K) (Nc Ci : Option (DM K))
    (isArr hm : Bool) (res : Routine × (Σ q : Nat, RicArgs (Fin n ⊕ Fin q) (Fin m) K))
    (h : lqrDyn f sysdt n m A B Q R Nc Ci isArr = .ok res) :
    ((route f sysdt).bind fun rt =>
        lqSpec care dare rt A B (dmP Q) (dmP R) (Nc.map dmP) (kwOf hm Ci isArr))
      = finish (ricOf care dare res.1 (sumSq res.2.2.A) (sumRowsP res.2.2.B) (sumSq res.2.2.Q)
          ⟨m, m, res.2.2.R⟩ (res.2.2.S.map sumRowsP)) := by
  unfold lqrDyn at h
  cases hr : route f sysdt with
  | error e => rw [hr] at h; cases h
  | ok rt =>
    rw [hr] at h
    simp only [bind, Except.bind, pure, Except.pure] at h
    rw [Except.ok_bind']
    have hrest : PySfb.Kw.rest (kwOf hm Ci isArr) true true = false := by
      simp [PySfb.Kw.rest, kwOf]
    cases Ci with
    | none =>
      simp only [dite_true] at h
      split_ifs at h with h1 h2 hQ hR h5 h6
      have hN : ∃ N'' : Option (Matrix (Fin n ⊕ Fin 0) (Fin m) K),
          res = (rt, ⟨0, ⟨augA A (submatrix 0 id (Fin.cast rfl)) (intBlock rt), augB B,
            sumBoth hQ.1 hQ.2 Q.m, R.m.submatrix (Fin.cast hR.1.symm) (Fin.cast hR.2.symm), N''⟩⟩) ∧
          N''.map sumRowsP = crossOf rt (dmP Q) (dmP R) (Nc.map dmP) := by
        cases rt <;> cases Nc <;> simp only [] at h
        all_goals first
          | (split_ifs at h with hS
             simp only [lqrInt, lqr, recRic, Except.map] at h
             cases h
             refine ⟨_, rfl, ?_⟩
             simp only [crossOf, Option.map, Option.getD, PMat.zeros]
             first
               | exact congrArg some (sumRowsP_sumRows _ hS.1 hS.2)
               | exact congrArg some (sumRowsP_sumRows ⟨Q.r, R.c, 0⟩ hS.1 hS.2))
          | (simp only [lqrInt, lqr, recRic, Except.map] at h
             cases h
             refine ⟨_, rfl, ?_⟩
             simp [crossOf])
      obtain ⟨N'', rfl, hN''⟩ := hN
      have hia : (kwOf hm (none : Option (DM K)) isArr).integralAction = none := rfl
      unfold lqSpec
      rw [hia]
      simp only [hrest, Bool.false_eq_true, if_false]
      rw [← hN'', sumSq_aug_zero, sumRowsP_aug_zero, sumSq_sumBoth, dmP_cast R hR.1 hR.2]
    | some C =>
      dsimp only at h
      by_cases h0 : (!isArr) = true
      · rw [if_pos h0] at h; cases h
      rw [if_neg h0] at h
      by_cases hc : C.c = n
      swap
      · rw [if_pos hc] at h; cases h
      rw [if_neg (not_not.mpr hc), dif_pos hc] at h
      split_ifs at h with h1 h2 hQ hR h5 h6
      have hN : ∃ N'' : Option (Matrix (Fin n ⊕ Fin C.r) (Fin m) K),
          res = (rt, ⟨C.r, ⟨augA A (C.m.submatrix id (Fin.cast hc.symm)) (intBlock rt), augB B,
            sumBoth hQ.1 hQ.2 Q.m, R.m.submatrix (Fin.cast hR.1.symm) (Fin.cast hR.2.symm), N''⟩⟩) ∧
          N''.map sumRowsP = crossOf rt (dmP Q) (dmP R) (Nc.map dmP) := by
        cases rt <;> cases Nc <;> simp only [] at h
        all_goals first
          | (split_ifs at h with hS
             simp only [lqrInt, lqr, recRic, Except.map] at h
             cases h
             refine ⟨_, rfl, ?_⟩
             simp only [crossOf, Option.map, Option.getD, PMat.zeros]
             first
               | exact congrArg some (sumRowsP_sumRows _ hS.1 hS.2)
               | exact congrArg some (sumRowsP_sumRows ⟨Q.r, R.c, 0⟩ hS.1 hS.2))
          | (simp only [lqrInt, lqr, recRic, Except.map] at h
             cases h
             refine ⟨_, rfl, ?_⟩
             simp [crossOf])
      obtain ⟨N'', rfl, hN''⟩ := hN
      have hb : isArr = true := by simpa using h0
      subst hb
      have hia : (kwOf hm (some C) true).integralAction = some (.arr (dmP C)) := rfl
      unfold lqSpec
      rw [hia]
      simp only [hrest, Bool.false_eq_true, if_false]
      rw [dif_pos (show (dmP C).c = n from hc), ← hN'', sumSq_sumBoth, dmP_cast R hR.1 hR.2]
      rfl


/-! ### `lqe` / `dlqe` -/

/-- `P, E, LT = care(…); return LT.T, P, E` (the re-ordering of the typed model `lqe`). -/
def finishE (r : Except Err (PMat K × ε × PMat K)) : Except Err (PMat K × PMat K × ε) :=
  r.map fun r => (PMat.T r.2.2, r.1, r.2.1)

/-- what `lqe` / `dlqe` do once the routine `rt` and the matrices are known, in terms of the typed
model `lqe`: the dual data `Aᵀ, Cᵀ, G QN Gᵀ, RN`. -/
def lqeSpec (care dare : PySfb.RicFn K ε) (rt : Routine) {n g o : Nat} (A : Matrix (Fin n) (Fin n) K)
    (G : Matrix (Fin n) (Fin g) K) (C : Matrix (Fin o) (Fin n) K) (QN RN : PMat K) (extra : Bool)
    (kw : PySfb.Kw K) : Except Err (PMat K × PMat K × ε) :=
  if PySfb.Kw.rest kw true false = true then .error .badArg
  else if extra = true then .error .notImplemented
  else if h : QN.r = g ∧ QN.c = g then
    finishE (ricOf care dare rt ⟨n, n, Aᵀ⟩ ⟨n, o, Cᵀ⟩ ⟨n, n, G * PMat.retype h.1 h.2 QN.M * Gᵀ⟩ RN none)
  else .error .shape

theorem route_dlqe (d : Dt) :
    route .dlqe (some d) = if DtPred.isctime true d = true then .error .badArg else .ok .dare := by
  rw [← (C05Pred.statefbk_preds d).2.1]; rfl

theorem route_lqe (d : Dt) :
    route .lqe (some d) = if DtPred.isdtime true d = true then .ok .dare else .ok .care := by
  rw [← (C05Pred.statefbk_preds d).1]; rfl

/-- the body of `lqe` / `dlqe` from `_check_shape` on. -/
theorem lqe_tail (care dare : PySfb.RicFn K ε) (rt : Routine) {n g o : Nat} (A : Matrix (Fin n) (Fin n) K)
    (G : Matrix (Fin n) (Fin g) K) (C : Matrix (Fin o) (Fin n) K) (QN RN : PMat K) :
    ((PySfb.checkShape QN g g).bind fun _ => (PMat.matmul ⟨n, g, G⟩ QN).bind fun t3 =>
      (PMat.matmul t3 (PMat.T ⟨n, g, G⟩)).bind fun t4 =>
        (ricOf care dare rt (PMat.T ⟨n, n, A⟩) (PMat.T ⟨o, n, C⟩) t4 RN none).bind fun t5 =>
          (.ok (PMat.T t5.2.2, t5.1, t5.2.1) : Except Err (PMat K × PMat K × ε)))
    = if h : QN.r = g ∧ QN.c = g then
        finishE (ricOf care dare rt ⟨n, n, Aᵀ⟩ ⟨n, o, Cᵀ⟩ ⟨n, n, G * PMat.retype h.1 h.2 QN.M * Gᵀ⟩ RN none)
      else .error .shape := by
  obtain ⟨r, c, M⟩ := QN
  by_cases h : r = g ∧ c = g
  · obtain ⟨rfl, rfl⟩ := h
    rw [dif_pos ⟨rfl, rfl⟩]
    simp only [PySfb.checkShape, ne_eq, not_true_eq_false, or_self, if_false, Except.ok_bind', PMat.matmul_mk,
      PMat.T_mk, PMat.retype_rfl, finishE, Except.map]
    cases ricOf care dare rt ⟨n, n, Aᵀ⟩ ⟨n, o, Cᵀ⟩ ⟨n, n, G * M * Gᵀ⟩ RN none <;> rfl
  · rw [dif_neg h]
    have : r ≠ g ∨ c ≠ g := by omega
    simp only [PySfb.checkShape, ne_eq, this, if_true]
    rfl

/-- the positional arguments of a call with a system (anything after `RN` is the cross covariance). -/
def sysArgsE (S : DSS K) (QN RN : PMat K) (extra : List (PySfb.Arg K)) : List (PySfb.Arg K) :=
  .ss S :: .arr QN :: .arr RN :: extra

/-- the positional arguments of a call with matrices. -/
def matArgsE {n g o : Nat} (A : Matrix (Fin n) (Fin n) K) (G : Matrix (Fin n) (Fin g) K)
    (C : Matrix (Fin o) (Fin n) K) (QN RN : PMat K) (extra : List (PySfb.Arg K)) : List (PySfb.Arg K) :=
  .arr ⟨n, n, A⟩ :: .arr ⟨n, g, G⟩ :: .arr ⟨o, n, C⟩ :: .arr QN :: .arr RN :: extra

/-! ### the tie to the run-time model `lqeDyn` -/

/-- the keywords of an estimator call: only `method` may be given. -/
def kwE (hasMethod : Bool) : PySfb.Kw K := ⟨hasMethod, none, false⟩

/-- **the tie to `lqeDyn`**: whenever the run-time model says "the call reaches routine `rt` with the
arguments `a`", the plumbing of the source text IS that call, re-ordered as `(LTᵀ, P, E)`. -/
theorem lqeDyn_reaches (care dare : PySfb.RicFn K ε) (f : Fn) (sysdt : Option Dt) (n g o : Nat)
    (A : Matrix (Fin n) (Fin n) K) (G : Matrix (Fin n) (Fin g) K) (C : Matrix (Fin o) (Fin n) K)
    (QN RN : DM K) (hm : Bool) (res : Routine × RicArgs (Fin n) (Fin o) K)
    (h : lqeDyn f sysdt n g o A G C QN RN false = .ok res) :
    ((route f sysdt).bind fun rt => lqeSpec care dare rt A G C (dmP QN) (dmP RN) false (kwE hm))
      = finishE (ricOf care dare res.1 ⟨n, n, res.2.A⟩ ⟨n, o, res.2.B⟩ ⟨n, n, res.2.Q⟩ ⟨o, o, res.2.R⟩ none) := by
  unfold lqeDyn at h
  cases hr : route f sysdt with
  | error e => rw [hr] at h; cases h
  | ok rt =>
    rw [hr] at h
    simp only [bind, Except.bind, pure, Except.pure, Bool.false_eq_true, if_false] at h
    rw [Except.ok_bind']
    simp only [lqe, recRic, Except.map] at h
    split_ifs at h with hQ h2 hR h5 h6
    cases h
    have hrest : PySfb.Kw.rest (kwE (K := K) hm) true false = false := by simp [PySfb.Kw.rest, kwE]
    unfold lqeSpec
    simp only [hrest, Bool.false_eq_true, if_false]
    rw [dif_pos (show (dmP QN).r = g ∧ (dmP QN).c = g from hQ), dmP_cast RN hR.1 hR.2]
    rfl


/-! ### typed Riccati routines as routines on arrays -/

/-- a typed Riccati routine of the model (`Riccati (Fin n) (Fin m) ε K`, the parameter of the typed
`lqr` / `lqe`) as a routine on run-time arrays: arrays of the wrong shape are rejected (`care` / `dare`
check every shape), the others are handed over and the results returned as arrays. -/
def liftRic {n m : Nat} (ric : Riccati (Fin n) (Fin m) ε K) : PySfb.RicFn K ε := fun A B Q R S =>
  if h : (A.r = n ∧ A.c = n) ∧ (B.r = n ∧ B.c = m) ∧ (Q.r = n ∧ Q.c = n) ∧ (R.r = m ∧ R.c = m) then
    match S with
    | none =>
      (ric (PMat.retype h.1.1 h.1.2 A.M) (PMat.retype h.2.1.1 h.2.1.2 B.M) (PMat.retype h.2.2.1.1 h.2.2.1.2 Q.M)
        (PMat.retype h.2.2.2.1 h.2.2.2.2 R.M) none).map fun r => (⟨n, n, r.1⟩, r.2.1, ⟨m, n, r.2.2⟩)
    | some S =>
      if hS : S.r = n ∧ S.c = m then
        (ric (PMat.retype h.1.1 h.1.2 A.M) (PMat.retype h.2.1.1 h.2.1.2 B.M)
          (PMat.retype h.2.2.1.1 h.2.2.1.2 Q.M) (PMat.retype h.2.2.2.1 h.2.2.2.2 R.M)
          (some (PMat.retype hS.1 hS.2 S.M))).map fun r => (⟨n, n, r.1⟩, r.2.1, ⟨m, n, r.2.2⟩)
      else .error .shape
  else .error .shape

theorem liftRic_mk {n m : Nat} (ric : Riccati (Fin n) (Fin m) ε K) (A : Matrix (Fin n) (Fin n) K)
    (B : Matrix (Fin n) (Fin m) K) (Q : Matrix (Fin n) (Fin n) K) (R : Matrix (Fin m) (Fin m) K)
    (S : Option (Matrix (Fin n) (Fin m) K)) :
    liftRic ric ⟨n, n, A⟩ ⟨n, m, B⟩ ⟨n, n, Q⟩ ⟨m, m, R⟩ (S.map fun S => ⟨n, m, S⟩)
      = (ric A B Q R S).map fun r => (⟨n, n, r.1⟩, r.2.1, ⟨m, n, r.2.2⟩) := by
  unfold liftRic
  rw [dif_pos ⟨⟨rfl, rfl⟩, ⟨rfl, rfl⟩, ⟨rfl, rfl⟩, ⟨rfl, rfl⟩⟩]
  cases S with
  | none => simp only [Option.map, PMat.retype_rfl]
  | some S => simp only [Option.map, PMat.retype_rfl, and_self, dite_true]

/-! ### stand-ins for `care` / `dare` used by the non-vacuity examples -/

/-- a routine that records nothing and returns fixed `1 × 1` data: enough to see the plumbing return. -/
def okRic : PySfb.RicFn ℚ Unit := fun _ _ _ _ _ => .ok (⟨1, 1, !![7]⟩, (), ⟨1, 1, !![3]⟩)
/-- a routine that always fails (to tell `care` from `dare`). -/
def badRic : PySfb.RicFn ℚ Unit := fun _ _ _ _ _ => .error .illPosed

/-- a typed routine that knows one scalar problem (`A = 0`, `B = Q = R = 1`: `X = G = 1`), as in
`C11.exRic`, on `Fin 1`. -/
def exRic1 : Riccati (Fin 1) (Fin 1) Unit ℚ := fun A B Q R S =>
  if A = 0 ∧ B = 1 ∧ Q = 1 ∧ R = 1 ∧ S = none then .ok (1, (), 1) else .error .illPosed

theorem exRic1_careSpec : C11.CareSpec exRic1 := by
  constructor <;>
  · intro A B Q R S X L G h
    simp only [exRic1] at h
    split_ifs at h with hc
    obtain ⟨rfl, rfl, rfl, rfl, rfl⟩ := hc
    cases h
    simp [C11.S0]

end CtrlVerif.C11Gen
