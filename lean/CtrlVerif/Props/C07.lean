/-
C07 — `interconnect()` realises the solution of the signal-flow equations.

Model: `Model/Interconnect.lean` (spec parsing, the pre-processing loops of `interconnect`,
`InterconnectedSystem.__init__`, `_compute_static_io`, the matrices `LinearICSystem` stores).
`K` is an arbitrary field, all index types arbitrary finite types (all sizes).

Part 1: the propagation loop returns only solutions of the flow equations, it is the iteration
        started at `input_map @ u`, it succeeds exactly when an iterate within the budget is a
        fixed point, and for an acyclic feedthrough structure (`Kc D` strictly raises a level
        function with fewer than `nsys` levels above 0 … i.e. nilpotent of index ≤ nsys) it does.
Part 2: for linear subsystems the fixed point is unique, what `linearize` reads off is the closed
        form `linearIC`, `linearIC` responds with the block-diagram expression, and for the
        series / parallel / feedback wirings it is literally C02's operator.
Part 3: spec parsing: unknown names and out-of-range indices raise; different spellings of the
        same signals parse to the same `(subsystem, indices, gain)` and therefore to the same maps.
-/
import CtrlVerif.Lemmas.Interconnect
import CtrlVerif.Lemmas.ICOps
import CtrlVerif.Props.C02
import Mathlib.Algebra.Field.Rat
import Mathlib.Algebra.Ring.GeomSum
import Mathlib.LinearAlgebra.Matrix.Notation
import Mathlib.Tactic.FinCases

namespace CtrlVerif.C07

open CtrlVerif CtrlVerif.IC Matrix

/-! ## Part 1 — `_compute_static_io` -/

section loop

variable {V : Type*} [DecidableEq V]

/-- the loop only returns fixed points of one propagation cycle (its exit test *is* the
fixed-point equation). -/
theorem staticLoop_sound (step : V → V) (c : Nat) (u₀ u : V)
    (h : staticLoop step c u₀ = .ok u) : step u = u :=
  staticLoop_fixed step c u₀ u h

/-- what it returns is an iterate of the cycle, reached within the budget. -/
theorem staticLoop_is_iterate (step : V → V) (c : Nat) (u₀ u : V)
    (h : staticLoop step c u₀ = .ok u) : ∃ k, k < c ∧ u = step^[k] u₀ :=
  staticLoop_iterate step c u₀ u h

/-- completeness: if some iterate within the budget is a fixed point, the loop returns it. -/
theorem staticLoop_finds (step : V → V) (c k : Nat) (u₀ : V) (hk : k < c)
    (hfix : step (step^[k] u₀) = step^[k] u₀) : staticLoop step c u₀ = .ok (step^[k] u₀) :=
  staticLoop_complete step c k u₀ hk hfix

/-- "algebraic loop detected" is raised exactly when no iterate within the budget is fixed. -/
theorem staticLoop_raises_iff (step : V → V) (c : Nat) (u₀ : V) :
    staticLoop step c u₀ = .error .illPosed ↔
      ∀ k, k < c → step (step^[k] u₀) ≠ step^[k] u₀ := by
  constructor
  · intro h k hk hfix
    rw [staticLoop_complete step c k u₀ hk hfix] at h
    cases h
  · exact staticLoop_error step c u₀

/-- `_compute_static_io`: whatever the subsystem output maps `h` (linear or not), a returned
pair `(ulist, ylist)` solves the signal-flow equations `y = h(u)`, `u = Kc y + input_map w`. -/
theorem staticIO_sound {U Y : Type*} [DecidableEq U] (nsys : Nat) (h : U → Y) (Kc : Y → U)
    (add : U → U → U) (r u : U) (y : Y) (hr : staticIO nsys h Kc add r = .ok (u, y)) :
    y = h u ∧ u = add (Kc y) r := by
  unfold staticIO at hr
  cases hs : staticLoop (fun u => add (Kc (h u)) r) (nsys + 1) r with
  | error e => rw [hs] at hr; cases hr
  | ok u' =>
    rw [hs] at hr
    simp only [Except.map] at hr
    injection hr with hr
    injection hr with h1 h2
    subst h1; subst h2
    exact ⟨rfl, (staticLoop_fixed _ _ _ _ hs).symm⟩

example : staticIO (U := Int) (Y := Int) 2 (fun u => 3 * u + 1) (fun y => 0 * y) (· + ·) 5
    = .ok (5, 16) := by decide

example : staticIO (U := Int) (Y := Int) 2 (fun u => u) (fun y => y) (· + ·) 1
    = .error .illPosed := by decide

end loop

/-! ## Part 2 — linear subsystems -/

section linear

variable {K : Type*} [Field K]
variable {σ σ₁ σ₂ ι ι₁ o o₁ o₂ w z κ : Type*}
variable [Fintype σ] [DecidableEq σ] [Fintype ι] [DecidableEq ι] [Fintype o] [Fintype w]

/-- acyclic feedthrough ⇒ nilpotent loop gain: if `Kc D` only feeds subsystem inputs of a
strictly higher level and there are at most `n` levels, then `(Kc D)^n = 0`. -/
theorem feedthrough_nilpotent (N : Matrix ι ι K) (lvl : ι → Nat) (n : Nat)
    (h : ∀ i j, N i j ≠ 0 → lvl j < lvl i) (hb : ∀ i, lvl i < n) : N ^ n = 0 :=
  Wiring.nilpotent_of_levels N lvl n h hb

/-- `staticIO_complete`: for linear (affine in `u`) subsystems with acyclic feedthrough over at
most `nsys` levels the loop of `_compute_static_io` (budget `nsys + 1`) does not raise and
returns `Σ_{j<nsys} (Kc D)^j (Kc C x + M w)`, from any starting value. -/
theorem staticIO_complete [DecidableEq (Matrix ι κ K)]
    (W : Wiring ι o w z K) (G : SS σ ι o K) (Xs : Matrix σ κ K) (Ws : Matrix w κ K)
    (lvl : ι → Nat) (nsys : Nat)
    (hacyc : ∀ i j, (W.Kc * G.D) i j ≠ 0 → lvl j < lvl i) (hb : ∀ i, lvl i < nsys)
    (U₀ : Matrix ι κ K) :
    staticLoop (W.step G Xs Ws) (nsys + 1) U₀ =
      .ok ((∑ j ∈ Finset.range nsys, (W.Kc * G.D) ^ j) * (W.Kc * (G.C * Xs) + W.M * Ws)) := by
  have hN := Wiring.nilpotent_of_levels (W.Kc * G.D) lvl nsys hacyc hb
  have hstep : W.step G Xs Ws
      = Wiring.stepN (W.Kc * G.D) (W.Kc * (G.C * Xs) + W.M * Ws) := by
    funext U; exact Wiring.step_eq_stepN W G Xs Ws U
  rw [hstep]
  have hfix := Wiring.stepN_fixed_of_nilpotent (W.Kc * G.D)
    (W.Kc * (G.C * Xs) + W.M * Ws) U₀ nsys hN
  rw [staticLoop_complete _ (nsys + 1) nsys U₀ (Nat.lt_succ_self _) hfix,
    Wiring.stepN_iterate, hN]
  simp

/-- the flow equations of a well-posed linear interconnection have one solution:
a fixed point of the cycle is `E (Kc C x + M w)` for any left inverse `E` of `I - Kc D`. -/
theorem flow_unique (W : Wiring ι o w z K) (G : SS σ ι o K) (Xs : Matrix σ κ K)
    (Ws : Matrix w κ K) (E : Matrix ι ι K) (hE : E * (1 - W.Kc * G.D) = 1)
    (U : Matrix ι κ K) (hU : W.step G Xs Ws U = U) :
    U = E * (W.Kc * (G.C * Xs) + W.M * Ws) := by
  rw [Wiring.step_eq_stepN, Wiring.stepN] at hU
  have h1 : (1 - W.Kc * G.D) * U = W.Kc * (G.C * Xs) + W.M * Ws := by
    rw [Matrix.sub_mul, Matrix.one_mul]
    nth_rewrite 1 [← hU]
    abel
  rw [← h1, ← Matrix.mul_assoc, hE, Matrix.one_mul]

/-- what `linearize` computes from the propagated signals is the closed form: for every batch of
states `Xs` and external inputs `Ws`, at the fixed point `U`, `_rhs = A x + B w` and
`_out = C x + D w` with the matrices of `linearIC` (take `Xs = [I 0]`, `Ws = [0 I]` to read
off the columns, as `LinearICSystem` does). -/
theorem linearize_closed_form (W : Wiring ι o w z K) (G : SS σ ι o K) (Xs : Matrix σ κ K)
    (Ws : Matrix w κ K) (E : Matrix ι ι K) (hE : E * (1 - W.Kc * G.D) = 1)
    (U : Matrix ι κ K) (hU : W.step G Xs Ws U = U) :
    Wiring.rhs G Xs U = (W.linearIC G E).A * Xs + (W.linearIC G E).B * Ws ∧
    W.out G Xs U = (W.linearIC G E).C * Xs + (W.linearIC G E).D * Ws := by
  have hu := flow_unique W G Xs Ws E hE U hU
  constructor
  · rw [Wiring.rhs]
    conv_lhs => rw [hu]
    simp only [Wiring.linearIC, Matrix.mul_add, Matrix.add_mul, Matrix.mul_assoc]
    abel
  · rw [Wiring.out]
    conv_lhs => rw [hu]
    simp only [Wiring.linearIC, Matrix.mul_add, Matrix.add_mul, Matrix.mul_assoc]
    abel

/-- `linearIC_resp` (block-diagram semantics): if the stacked subsystem responds at `s` with
`Y` and `U` solves the flow equations in the frequency domain, `U = Kc (Y U) + M`, then the
interconnected system responds at `s` with `Oy (Y U) + Ou U` — subsystem outputs `Y U` and
subsystem inputs `U`, weighted by `output_map`. -/
theorem linearIC_resp (W : Wiring ι o w z K) (G : SS σ ι o K) (E : Matrix ι ι K)
    (hE : E * (1 - W.Kc * G.D) = 1) (s : K) {Y : Matrix o ι K} (hY : G.Resp s Y)
    (U : Matrix ι w K) (hU : U = W.Kc * (Y * U) + W.M) :
    (W.linearIC G E).Resp s (W.Oy * (Y * U) + W.Ou * U) := by
  obtain ⟨X, hX, rfl⟩ := hY
  -- the loop equation solved for the subsystem inputs
  have hsol : U = E * (W.Kc * (G.C * (X * U)) + W.M) := by
    have h1 : (1 - W.Kc * G.D) * U = W.Kc * (G.C * (X * U)) + W.M := by
      rw [Matrix.sub_mul, Matrix.one_mul]
      nth_rewrite 1 [hU]
      simp only [Matrix.add_mul, Matrix.mul_add, Matrix.mul_assoc]
      abel
    rw [← h1, ← Matrix.mul_assoc, hE, Matrix.one_mul]
  refine ⟨X * U, ?_, ?_⟩
  · simp only [Wiring.linearIC]
    have e1 : (s • (1 : Matrix σ σ K) - (G.A + G.B * (E * (W.Kc * G.C)))) * (X * U)
        = (s • (1 : Matrix σ σ K) - G.A) * X * U - G.B * (E * (W.Kc * (G.C * (X * U)))) := by
      simp only [Matrix.sub_mul, Matrix.add_mul, Matrix.mul_assoc]
      abel
    rw [e1, hX]
    nth_rewrite 1 [hsol]
    simp only [Matrix.mul_add, Matrix.mul_assoc]
    abel
  · simp only [Wiring.linearIC]
    have e2 : W.Oy * ((G.C * X + G.D) * U) + W.Ou * U
        = W.Oy * (G.C * (X * U)) + (W.Oy * G.D + W.Ou) * U := by
      simp only [Matrix.add_mul, Matrix.mul_add, Matrix.mul_assoc]
      abel
    have h3 : (W.Oy * G.D + W.Ou) * U
        = (W.Oy * G.D + W.Ou) * (E * (W.Kc * (G.C * (X * U)) + W.M)) := by rw [← hsol]
    rw [e2, h3]
    simp only [Matrix.add_mul, Matrix.mul_add, Matrix.mul_assoc]
    abel

end linear

/-! ### `linearIC_eq_bdalg`: the series / parallel / feedback wirings give C02's operators -/

section bdalg

variable {K : Type*} [Field K]
variable {σ₁ σ₂ ι ι₁ o o₁ o₂ : Type*}
variable [Fintype ι] [DecidableEq ι] [Fintype o] [DecidableEq o]
variable [Fintype ι₁] [DecidableEq ι₁] [Fintype o₁] [DecidableEq o₁] [Fintype o₂] [DecidableEq o₂]

/-- series wiring = `G₂ * G₁` (`StateSpace.__mul__`), literally the same four matrices. -/
theorem linearIC_series (G₁ : SS σ₁ ι₁ o₁ K) (G₂ : SS σ₂ o₁ o₂ K) :
    (Wiring.series (K := K)).linearIC (G₁.append G₂) (fromBlocks 1 0 G₁.D 1) = G₂.mul G₁ := by
  simp only [Wiring.linearIC, SS.append, SS.mul, Wiring.series]
  congr 1
  · simp [fromBlocks_multiply, fromBlocks_add]
  · simp [fromBlocks_mul_fromRows]
  · simp [fromBlocks_multiply, fromCols_mul_fromBlocks, Wiring.fromCols_add_fromCols]
  · simp [fromBlocks_mul_fromRows, fromCols_mul_fromBlocks, fromCols_mul_fromRows]

/-- … and `fromBlocks 1 0 D₁ 1` is the inverse the closed form asks for. -/
theorem series_E_spec (D₁ : Matrix o₁ ι₁ K) (D₂ : Matrix o₂ o₁ K) :
    (fromBlocks 1 0 D₁ 1 : Matrix (ι₁ ⊕ o₁) (ι₁ ⊕ o₁) K)
      * (1 - (Wiring.series (K := K) (ι₁ := ι₁) (o₁ := o₁) (o₂ := o₂)).Kc * fromBlocks D₁ 0 0 D₂) = 1 := by
  have hN : (1 : Matrix (ι₁ ⊕ o₁) (ι₁ ⊕ o₁) K) - fromBlocks 0 0 D₁ 0
      = fromBlocks 1 0 (-D₁) 1 := by
    have := SS.smul_one_sub_fromBlocks (1 : K) (0 : Matrix ι₁ ι₁ K) (0 : Matrix ι₁ o₁ K) D₁
      (0 : Matrix o₁ o₁ K)
    simpa using this
  simp only [Wiring.series, fromBlocks_multiply]
  simp only [Matrix.zero_mul, Matrix.mul_zero, Matrix.one_mul, add_zero]
  rw [hN, fromBlocks_multiply, ← fromBlocks_one]
  congr 1 <;> simp

/-- parallel wiring = `G₁ + G₂` (`StateSpace.__add__`). -/
theorem linearIC_parallel (G₁ : SS σ₁ ι o K) (G₂ : SS σ₂ ι o K) :
    (Wiring.parallel (K := K)).linearIC (G₁.append G₂) 1 = G₁.add G₂ := by
  simp only [Wiring.linearIC, SS.append, SS.add, Wiring.parallel]
  congr 1
  · simp
  · simp [fromBlocks_mul_fromRows]
  · simp [fromCols_mul_fromBlocks]
  · simp [fromCols_mul_fromBlocks, fromCols_mul_fromRows]

/-- feedback wiring = `feedback(G₁, G₂, sign)` as `StateSpace.feedback` builds it, for a
well-posed loop (`E = (I - sign D₂ D₁)⁻¹`). -/
theorem linearIC_feedback (G₁ : SS σ₁ ι o K) (G₂ : SS σ₂ o ι K) (sign : K) (E : Matrix ι ι K)
    (hE : E * (1 - sign • (G₂.D * G₁.D)) = 1) :
    (Wiring.feedback sign).linearIC (G₁.append G₂) (Wiring.feedbackE G₁.D G₂.D sign E)
      = G₁.feedback G₂ sign E := by
  have hT2 := C02.T2_eq_E G₁.D G₂.D sign E hE
  simp only [Wiring.linearIC, SS.append, SS.feedback, Wiring.feedback, Wiring.feedbackE, hT2]
  congr 1
  · simp [fromBlocks_multiply, fromBlocks_add, Matrix.mul_assoc, Matrix.add_mul, Matrix.mul_add]
  · simp [fromBlocks_mul_fromRows, Matrix.mul_assoc]
  · simp [fromBlocks_multiply, fromCols_mul_fromBlocks, Wiring.fromCols_add_fromCols,
      Matrix.mul_assoc, Matrix.add_mul]
  · simp [fromBlocks_mul_fromRows, fromCols_mul_fromBlocks, fromCols_mul_fromRows]

/-- `feedbackE` is the inverse of `I - Kc D` of the feedback wiring (so `flow_unique`,
`linearize_closed_form`, `linearIC_resp` apply to it). -/
theorem feedbackE_spec (D₁ : Matrix o ι K) (D₂ : Matrix ι o K) (sign : K) (E : Matrix ι ι K)
    (hE : E * (1 - sign • (D₂ * D₁)) = 1) :
    Wiring.feedbackE D₁ D₂ sign E
      * (1 - (Wiring.feedback (ι := ι) (o := o) sign).Kc * fromBlocks D₁ 0 0 D₂) = 1 := by
  have h1 : E - sign • (E * D₂ * D₁) = 1 := by
    rw [← hE, Matrix.mul_sub, Matrix.mul_one, Matrix.mul_smul, Matrix.mul_assoc]
  have hN : (1 : Matrix (ι ⊕ o) (ι ⊕ o) K) - fromBlocks 0 (sign • D₂) D₁ 0
      = fromBlocks 1 (-(sign • D₂)) (-D₁) 1 := by
    have := SS.smul_one_sub_fromBlocks (1 : K) (0 : Matrix ι ι K) (sign • D₂) D₁ (0 : Matrix o o K)
    simpa using this
  simp only [Wiring.feedbackE, Wiring.feedback, fromBlocks_multiply]
  simp only [Matrix.zero_mul, Matrix.mul_zero, Matrix.one_mul, add_zero, zero_add,
    Matrix.smul_mul]
  rw [hN, fromBlocks_multiply, ← fromBlocks_one]
  congr 1
  · have : E * 1 + sign • (E * D₂) * -D₁ = E - sign • (E * D₂ * D₁) := by
      simp [Matrix.smul_mul, sub_eq_add_neg]
    rw [this, h1]
  · simp [Matrix.mul_smul]
  · have : D₁ * E * (1 : Matrix ι ι K) + ((1 : Matrix o o K) + sign • (D₁ * (E * D₂))) * -D₁
        = D₁ * (E - sign • (E * D₂ * D₁)) - D₁ := by
      simp only [Matrix.mul_one, Matrix.mul_neg, Matrix.add_mul, Matrix.one_mul, Matrix.smul_mul,
        Matrix.mul_sub, Matrix.mul_smul, Matrix.mul_assoc]
      abel
    rw [this, h1]; simp
  · simp [Matrix.mul_smul, Matrix.mul_assoc]

end bdalg

/-! ## Part 3 — spec parsing: errors and spellings -/

section parse

variable {K : Type} [Field K] [DecidableEq K]

/-- `mapM` in `Except` fails as soon as one element fails. -/
theorem mapM_error {α β : Type} (f : α → Except Err β) (l : List α) (x : α) (hx : x ∈ l)
    (e : Err) (h : f x = .error e) : ∃ e', l.mapM f = .error e' := by
  induction l with
  | nil => cases hx
  | cons a l ih =>
    rw [List.mapM_cons]
    cases hfa : f a with
    | error e1 => exact ⟨e1, rfl⟩
    | ok b =>
      have hx' : x ∈ l := by
        rcases List.mem_cons.mp hx with rfl | h'
        · rw [h] at hfa; cases hfa
        · exact h'
      obtain ⟨e', he'⟩ := ih hx'
      exact ⟨e', by simp [he', bind, Except.bind]⟩

theorem sysIndex_unknown (sigs : List SysSig) (s : String) (h : ∀ S ∈ sigs, S.name ≠ s) :
    sysIndex sigs (.name s) = .error .unknownName := by
  have : (sigs.zipIdx.filter fun Sk => Sk.1.name == s) = [] := by
    rw [List.filter_eq_nil_iff]
    intro Sk hSk
    have := h Sk.1 (List.fst_mem_of_mem_zipIdx hSk)
    simpa using this
  simp [sysIndex, this]

/-- `unknown_raises` (system): a system name that no subsystem carries is an error. -/
theorem unknown_system_raises (sigs : List SysSig) (d : Dict) (s : String) (sneg gneg : Bool)
    (sig : SigRef) (gain : Option K) (h : ∀ S ∈ sigs, S.name ≠ s) :
    ∃ e, parseSpec sigs d (.mk (.name s) sneg sig gneg gain) = .error e := by
  simp only [parseSpec]
  split
  · exact ⟨_, rfl⟩
  · rw [sysIndex_unknown sigs s h]; exact ⟨_, rfl⟩

/-- `index_range_raises` (system): a system index outside `0 … nsys-1` is an error (the
unrepaired code indexes `syslist` with it: negative values wrap around). -/
theorem system_index_range_raises (sigs : List SysSig) (d : Dict) (i : Int) (sneg gneg : Bool)
    (sig : SigRef) (gain : Option K) (h : i < 0 ∨ (sigs.length : Int) ≤ i) :
    ∃ e, parseSpec sigs d (.mk (.idx i) sneg sig gneg gain) = .error e := by
  simp only [parseSpec]
  split
  · exact ⟨_, rfl⟩
  · simp [sysIndex, h]

/-- a successful parse names an existing subsystem and existing signals of it, only. -/
theorem parseSpec_ok_inrange (sigs : List SysSig) (d : Dict) (s : Spec K) (si : Nat)
    (idxs : List Nat) (g : K) (h : parseSpec sigs d s = .ok (si, idxs, g)) :
    ∃ S, sigs[si]? = some S ∧ ∀ i ∈ idxs, i < (S.labels d).length := by
  cases s with
  | malformed => simp [parseSpec] at h
  | mk sys sneg sig gneg gain =>
    simp only [parseSpec] at h
    split at h
    · cases h
    · split at h
      · cases h
      · next si' hsi =>
        split at h
        · cases h
        · next S hS =>
          split at h
          · cases h
          · next l hl =>
            split at h
            · cases h
            · next hany =>
              injection h with h
              injection h with h1 h2
              injection h2 with h2 h3
              subst h1
              refine ⟨S, hS, ?_⟩
              intro i hi
              rw [← h2] at hi
              obtain ⟨j, hj, rfl⟩ := List.mem_map.mp hi
              have hb : idxBad (S.labels d).length j = false := by
                have := hany
                simp only [Bool.not_eq_true, List.any_eq_false] at this
                simpa using this j hj
              simp only [idxBad, Bool.or_eq_false_iff, decide_eq_false_iff_not, not_lt, not_le] at hb
              omega

/-- `index_range_raises` (signal): an explicit signal index (or one of a list of indices) outside
the subsystem's signals is an error, whatever the rest of the spec. -/
theorem signal_index_range_raises (sigs : List SysSig) (d : Dict) (sys : SysRef) (sneg gneg : Bool)
    (l : List Int) (gain : Option K)
    (h : ∀ S ∈ sigs, ∃ i ∈ l, i < 0 ∨ ((S.labels d).length : Int) ≤ i) :
    ∃ e, parseSpec sigs d (.mk sys sneg (.idxs l) gneg gain) = .error e := by
  cases hp : parseSpec sigs d (.mk sys sneg (.idxs l) gneg gain) with
  | error e => exact ⟨e, rfl⟩
  | ok r =>
    exfalso
    obtain ⟨si, idxs, g⟩ := r
    simp only [parseSpec] at hp
    split at hp
    · cases hp
    · split at hp
      · cases hp
      · split at hp
        · cases hp
        · next S hS =>
          simp only [sigIndices] at hp
          split at hp
          · cases hp
          · next hany =>
            obtain ⟨i, hi, hbad⟩ := h S (List.mem_of_getElem? hS)
            apply hany
            rw [List.any_eq_true]
            exact ⟨i, hi, by simp only [idxBad, Bool.or_eq_true, decide_eq_true_eq]; exact hbad⟩

/-- `unknown_raises` (signal): a name that is neither a label nor the base of an indexed label. -/
theorem findSignals_unknown (labels : List Label) (nm : String)
    (h1 : ∀ l ∈ labels, l.raw ≠ nm) (h2 : ∀ l ∈ labels, ∀ b k, l.idx = some (b, k) → b ≠ nm) :
    findSignals labels [.exact nm] = none ∧ findSignals labels [.base nm] = none := by
  have hl : lookup labels nm = none := by
    simp only [lookup, List.findIdx?_eq_none_iff]
    intro l hl
    simpa using h1 l hl
  have hb : withBase labels nm (fun _ => true) = [] := by
    simp only [withBase, List.filterMap_eq_nil_iff]
    intro lk hlk
    have hmem := List.fst_mem_of_mem_zipIdx hlk
    cases hidx : lk.1.idx with
    | none => rfl
    | some bk =>
      obtain ⟨b, k⟩ := bk
      have := h2 lk.1 hmem b k hidx
      simp [this]
  constructor
  · simp [findSignals, findOne, hl]
  · simp [findSignals, findOne, hl, hb]

theorem unknown_signal_raises (sigs : List SysSig) (d : Dict) (sys : SysRef) (sneg gneg : Bool)
    (names : List NameTok) (gain : Option K)
    (h : ∀ S ∈ sigs, findSignals (S.labels d) names = none) :
    ∃ e, parseSpec sigs d (.mk sys sneg (.names names) gneg gain) = .error e := by
  simp only [parseSpec]
  split
  · exact ⟨_, rfl⟩
  · split
    · exact ⟨_, rfl⟩
    · split
      · exact ⟨_, rfl⟩
      · next S hS =>
        simp [sigIndices, h S (List.mem_of_getElem? hS)]

/-! spellings -/

/-- `'-sys.sig'`, `'sys.-sig'` and an explicit gain `-1` are the same spec. -/
theorem spelling_neg (sigs : List SysSig) (d : Dict) (sys : SysRef) (sig : SigRef) :
    parseSpec sigs d (.mk sys true sig false none : Spec K)
      = parseSpec sigs d (.mk sys false sig false (some (-1))) ∧
    parseSpec sigs d (.mk sys false sig true none : Spec K)
      = parseSpec sigs d (.mk sys false sig false (some (-1))) := by
  constructor <;> simp [parseSpec, gainConflict, gainOf]

/-- no gain and gain `1` are the same spec. -/
theorem spelling_gain_one (sigs : List SysSig) (d : Dict) (sys : SysRef) (sig : SigRef) :
    parseSpec sigs d (.mk sys false sig false none : Spec K)
      = parseSpec sigs d (.mk sys false sig false (some 1)) := by
  simp [parseSpec, gainConflict, gainOf]

theorem sysIndex_name_lt (sigs : List SysSig) (s : String) (k : Nat)
    (h : sysIndex sigs (.name s) = .ok k) : k < sigs.length := by
  simp only [sysIndex] at h
  split at h
  · next Sk hSk =>
    injection h with h
    subst h
    have hm := List.mem_of_getLast? hSk
    have hm' := (List.mem_filter.mp hm).1
    simpa using List.snd_lt_of_mem_zipIdx hm'
  · cases h

/-- a subsystem may be named or given by its position. -/
theorem spelling_sysname (sigs : List SysSig) (d : Dict) (s : String) (k : Nat)
    (h : sysIndex sigs (.name s) = .ok k) (sneg gneg : Bool) (sig : SigRef) (gain : Option K) :
    parseSpec sigs d (.mk (.name s) sneg sig gneg gain)
      = parseSpec sigs d (.mk (.idx k) sneg sig gneg gain) := by
  have hk := sysIndex_name_lt sigs s k h
  have : sysIndex sigs (.idx (k : Int)) = .ok k := by
    simp [sysIndex, hk]
  simp only [parseSpec, h, this]

/-- a signal may be named by its label or given by its position … -/
theorem spelling_label (labels : List Label) (nm : String) (i : Nat)
    (h : lookup labels nm = some i) :
    sigIndices labels (.names [.exact nm]) = sigIndices labels (.idx i) ∧
    sigIndices labels (.names [.base nm]) = sigIndices labels (.idx i) := by
  constructor <;> simp [sigIndices, findSignals, findOne, h]

/-- … an index is the one-element list of indices, no signal part is the list of all. -/
theorem spelling_list (labels : List Label) (i : Int) :
    sigIndices labels (.idx i) = sigIndices labels (.idxs [i]) ∧
    sigIndices labels .all
      = sigIndices labels (.idxs ((List.range labels.length).map Int.ofNat)) := by
  constructor <;> rfl

/-- `'sig[:]'` and the base name `'sig'` (when `sig` itself is not a label) are the same. -/
theorem spelling_slice_base (labels : List Label) (b : String) (h : lookup labels b = none) :
    findSignals labels [.slice b none none] = findSignals labels [.base b] := by
  have : (inRange none none) = fun _ => true := by funext n; simp [inRange]
  simp [findSignals, findOne, h, this]

/-- duplicate entries accumulate: a list that sums several sources is the same as several
connections to the same input (`connect_map[i, j] += gain`). -/
theorem toMat_append (r c : Nat) (es₁ es₂ : List (Entry K)) :
    toMat r c (es₁ ++ es₂) = toMat r c es₁ + toMat r c es₂ := by
  ext i j
  simp [toMat, List.filter_append, List.map_append, List.sum_append]

/-- the maps depend on a spec only through `parseSpec`: specs that parse alike wire alike. -/
theorem parse_congr (sigs : List SysSig) (s s' : Spec K)
    (h : ∀ d, parseSpec sigs d s = parseSpec sigs d s') :
    parseInputSpec sigs s = parseInputSpec sigs s' ∧
    parseOutputSpec sigs s = parseOutputSpec sigs s' := by
  constructor
  · simp only [parseInputSpec, h]
  · simp only [parseOutputSpec, h]

/-- a bad spec on the input side of any explicit connection makes `interconnect` raise,
whatever the rest of the call. -/
theorem interconnect_raises_of_bad_connection (a : Args K) (cs : List (ConnEntry K))
    (hc : a.conns = .explicit cs) (css : List (List (Spec K))) (hn : normConns cs = .ok css)
    (inp : Spec K) (outs : List (Spec K)) (hmem : (inp :: outs) ∈ css) (e : Err)
    (hbad : parseSpec a.sigs .input inp = .error e) :
    ∃ e', interconnect a = .error e' := by
  have h1 : preConnection a.sigs (inp :: outs) = .error e := by
    simp [preConnection, hbad]
  obtain ⟨e', he'⟩ := mapM_error (preConnection a.sigs) css (inp :: outs) hmem e h1
  refine ⟨e', ?_⟩
  simp [interconnect, preConnections, hc, hn, he']

/-- a bad spec on the output side of an explicit connection makes `interconnect` raise. -/
theorem interconnect_raises_of_bad_source (a : Args K) (cs : List (ConnEntry K))
    (hc : a.conns = .explicit cs) (css : List (List (Spec K))) (hn : normConns cs = .ok css)
    (inp : Spec K) (outs : List (Spec K)) (hmem : (inp :: outs) ∈ css) (o : Spec K)
    (ho : o ∈ outs) (e : Err) (hbad : parseSpec a.sigs .output o = .error e) :
    ∃ e', interconnect a = .error e' := by
  have h1 : ∃ e1, preConnection a.sigs (inp :: outs) = .error e1 := by
    simp only [preConnection]
    cases parseSpec a.sigs .input inp with
    | error e0 => exact ⟨e0, rfl⟩
    | ok r =>
      obtain ⟨si, idxs, g⟩ := r
      obtain ⟨e2, he2⟩ := mapM_error (preSource a.sigs) outs o ho e (by simp [preSource, hbad])
      exact ⟨e2, by simp [he2]⟩
  obtain ⟨e1, he1⟩ := h1
  obtain ⟨e', he'⟩ := mapM_error (preConnection a.sigs) css (inp :: outs) hmem e1 he1
  refine ⟨e', ?_⟩
  simp [interconnect, preConnections, hc, hn, he']

/-- a bad single spec in `inplist` makes `interconnect` raise. -/
theorem interconnect_raises_of_bad_inplist (a : Args K) (s : Spec K)
    (hmem : IOEntry.single s ∈ a.inplist) (e : Err)
    (hbad : parseSpec a.sigs .input s = .error e) :
    ∃ e', interconnect a = .error e' := by
  have h1 : preInEntry a.sigs (.single s) = .error e := by simp [preInEntry, hbad]
  obtain ⟨e1, he1⟩ := mapM_error (preInEntry a.sigs) a.inplist _ hmem e h1
  simp only [interconnect]
  cases preConnections a.sigs a.conns with
  | error e0 => exact ⟨e0, rfl⟩
  | ok c => exact ⟨e1, by simp [preList, he1]⟩

theorem normConns_lists (cs : List (List (Spec K))) :
    normConns (cs.map ConnEntry.list) = .ok cs := by
  cases cs with
  | nil => rfl
  | cons c cs =>
    have hall : ((c :: cs).map (ConnEntry.list (K := K))).all ConnEntry.isAtom = false := by
      simp [ConnEntry.isAtom]
    have hm : ∀ l : List (List (Spec K)),
        (l.map (ConnEntry.list (K := K))).mapM ConnEntry.asList = .ok l := by
      intro l
      induction l with
      | nil => rfl
      | cons x l ih =>
        rw [List.map_cons, List.mapM_cons, ih]
        rfl
    simp only [normConns, hall]
    exact hm (c :: cs)

/-- implicit connection by matching names is the explicit wiring `'sys.sig'` ← all
`'sys'.sig'` with the same label. -/
theorem implicit_eq_explicit (sigs : List SysSig) :
    preConnections (K := K) sigs .implicit
      = preConnections sigs (.explicit ((implicitConnections sigs).map ConnEntry.list)) := by
  simp only [preConnections, normConns_lists]

end parse

/-! ## Part 4 — operator forms on I/O systems (`+`, `-`, `*`, unary `-`, `feedback`)

`NonlinearIOSystem.__add__` … `feedback` build an `InterconnectedSystem` from index-tuple lists
(`opParallel`, `opSeries`, `opNeg`, `opFeedback` in the model evaluate exactly those lists with
`buildMaps`).  For operands of any sizes: incompatible sizes raise; otherwise the three maps have
the closed forms below (in particular the sum has as many outputs as the operands — not as many
as they have inputs), and these maps *are* the parallel / series / negation / feedback wirings of
Part 2, so that for linear operands the result is C02's `add` / `mul` / `neg` / `feedback`. -/

section operators

variable {K : Type} [Field K] [DecidableEq K]

/-- `sys1 + sys2`, `sys1 - sys2` with different numbers of inputs or of outputs raise. -/
theorem opParallel_shape_raises (S₁ S₂ : SysSig) (g : Option K)
    (h : S₁.nin ≠ S₂.nin ∨ S₁.nout ≠ S₂.nout) : opParallel S₁ S₂ g = .error .shape := by
  simp [opParallel, h]

/-- `sys2 * sys1` raises unless `sys1` has as many outputs as `sys2` has inputs. -/
theorem opSeries_shape_raises (S₁ S₂ : SysSig) (h : S₁.nout ≠ S₂.nin) :
    opSeries (K := K) S₁ S₂ = .error .shape := by
  simp [opSeries, h]

/-- `sys1.feedback(sys2)` raises unless the two fit head to tail both ways. -/
theorem opFeedback_shape_raises (S₁ S₂ : SysSig) (sign : K)
    (h : S₁.nout ≠ S₂.nin ∨ S₂.nout ≠ S₁.nin) : opFeedback S₁ S₂ sign = .error .shape := by
  simp [opFeedback, h]

/-- the maps of `sys1 + sys2` (`g = none`) and `sys1 - sys2` (`g = some (-1)`) for operands with
`m` inputs and `p` outputs, any `m`, `p`: `m` inputs, **`p` outputs**, no connections, input `i`
to input `i` of both, output `i` = output `i` of the first + `g` × output `i` of the second. -/
theorem opParallel_maps (S₁ S₂ : SysSig) (m p : Nat) (h1 : S₁.nin = m) (h2 : S₂.nin = m)
    (h3 : S₁.nout = p) (h4 : S₂.nout = p) (g : Option K) :
    opParallel S₁ S₂ g = .ok ⟨m + m, p + p, m, p, [], parInp m, parOut p (g.getD 1)⟩ :=
  opParallel_ok S₁ S₂ m p h1 h2 h3 h4 g

/-- the maps of the series form (`S₁ : m → q` first, then `S₂ : q → p`). -/
theorem opSeries_maps (S₁ S₂ : SysSig) (m q p : Nat) (h1 : S₁.nin = m) (h2 : S₁.nout = q)
    (h3 : S₂.nin = q) (h4 : S₂.nout = p) :
    opSeries (K := K) S₁ S₂ = .ok ⟨m + q, q + p, m, p, eyeEntries m 0 q 1, eyeEntries 0 0 m 1,
      eyeEntries 0 q p 1⟩ :=
  opSeries_ok S₁ S₂ m q p h1 h2 h3 h4

/-- the maps of `-sys`. -/
theorem opNeg_maps (S : SysSig) (m p : Nat) (h1 : S.nin = m) (h3 : S.nout = p) :
    opNeg (K := K) S = .ok ⟨m, p, m, p, [], eyeEntries 0 0 m 1, eyeEntries 0 0 p (-1)⟩ :=
  opNeg_ok S m p h1 h3

/-- the maps of `sys1.feedback(sys2, sign)` (`S₁ : m → p`, `S₂ : p → m`). -/
theorem opFeedback_maps (S₁ S₂ : SysSig) (m p : Nat) (sign : K) (h1 : S₁.nin = m)
    (h2 : S₁.nout = p) (h3 : S₂.nin = p) (h4 : S₂.nout = m) :
    opFeedback S₁ S₂ sign = .ok ⟨m + p, p + m, m, p,
      eyeEntries 0 p m sign ++ eyeEntries m 0 p 1, eyeEntries 0 0 m 1, eyeEntries 0 0 p 1⟩ :=
  opFeedback_ok S₁ S₂ m p sign h1 h2 h3 h4

/-- `Maps.wiring` of a literal is `wiringOf` of its fields (the form the next theorems use). -/
theorem wiring_mk (nu ny nin nout : Nat) (c i o : List (Entry K)) :
    (⟨nu, ny, nin, nout, c, i, o⟩ : Maps K).wiring = wiringOf nu ny nin nout c i o := rfl

/-- the maps of `sys1 + g sys2`, with the stacked signals split back into the two subsystems,
are the parallel wiring. -/
theorem par_wiring (m p : Nat) (g : K) :
    (wiringOf (m + m) (p + p) m p [] (parInp m) (parOut p g)).reindex
        finSumFinEquiv finSumFinEquiv (Equiv.refl _) (Equiv.refl _)
      = Wiring.parallelGain (ι := Fin m) (o := Fin p) g := by
  apply Wiring.ext'
  · simp [Wiring.reindex, wiringOf, Wiring.parallelGain, toMat_nil]
  · ext i j
    have hj := j.isLt
    simp only [Wiring.reindex, wiringOf, Wiring.parallelGain, submatrix_apply]
    rcases i with a | a
    · have ha := a.isLt
      rw [toMat_parInp, Matrix.add_apply,
        toMat_eye_val _ _ _ _ _ _ _ _ a.val j.val (by fin_val) (by fin_val),
        toMat_eye_val _ _ _ _ _ _ _ _ a.val j.val (by fin_val) (by fin_val),
        if_neg (by omega : ¬ (m ≤ a.val ∧ a.val < m + m ∧ j.val + m = 0 + a.val)), add_zero,
        fromRows_apply_inl, Matrix.one_apply]
      exact if_congr (by rw [Fin.ext_iff]; omega) rfl rfl
    · have ha := a.isLt
      rw [toMat_parInp, Matrix.add_apply,
        toMat_eye_val _ _ _ _ _ _ _ _ (m + a.val) j.val (by fin_val) (by fin_val),
        toMat_eye_val _ _ _ _ _ _ _ _ (m + a.val) j.val (by fin_val) (by fin_val),
        if_neg (by omega : ¬ (0 ≤ m + a.val ∧ m + a.val < 0 + m ∧ j.val + 0 = 0 + (m + a.val))), zero_add,
        fromRows_apply_inr, Matrix.one_apply]
      exact if_congr (by rw [Fin.ext_iff]; omega) rfl rfl
  · ext i j
    have hi := i.isLt
    simp only [Wiring.reindex, wiringOf, Wiring.parallelGain, Matrix.submatrix, Matrix.of_apply]
    rcases j with b | b
    · have hb := b.isLt
      rw [toMat_parOut, Matrix.add_apply,
        toMat_eye_val _ _ _ _ _ _ _ _ i.val b.val (by fin_val) (by fin_val),
        toMat_eye_val _ _ _ _ _ _ _ _ i.val b.val (by fin_val) (by fin_val),
        if_neg (by omega : ¬ (0 ≤ i.val ∧ i.val < 0 + p ∧ b.val + 0 = p + i.val)), add_zero,
        fromCols_apply_inl, Matrix.one_apply]
      exact if_congr (by rw [Fin.ext_iff]; omega) rfl rfl
    · have hb := b.isLt
      rw [toMat_parOut, Matrix.add_apply,
        toMat_eye_val _ _ _ _ _ _ _ _ i.val (p + b.val) (by fin_val) (by fin_val),
        toMat_eye_val _ _ _ _ _ _ _ _ i.val (p + b.val) (by fin_val) (by fin_val),
        if_neg (by omega : ¬ (0 ≤ i.val ∧ i.val < 0 + p ∧ p + b.val + 0 = 0 + i.val)), zero_add,
        fromCols_apply_inr, Matrix.smul_apply, Matrix.one_apply, smul_eq_mul, mul_ite, mul_one, mul_zero]
      exact if_congr (by rw [Fin.ext_iff]; omega) rfl rfl
  · ext i j
    have hi := i.isLt
    simp only [Wiring.reindex, wiringOf, Wiring.parallelGain, Matrix.submatrix, Matrix.of_apply]
    rw [toMat_parOut, Matrix.add_apply,
      toMat_eye_val _ _ _ _ _ _ _ _ i.val (p + p + (finSumFinEquiv j).val) (by fin_val) (by fin_val),
      toMat_eye_val _ _ _ _ _ _ _ _ i.val (p + p + (finSumFinEquiv j).val) (by fin_val) (by fin_val),
      if_neg (by omega), if_neg (by omega)]
    simp
/-- the maps of the series form are the series wiring. -/
theorem series_wiring (m q p : Nat) :
    (wiringOf (K := K) (m + q) (q + p) m p (eyeEntries m 0 q 1) (eyeEntries 0 0 m 1)
        (eyeEntries 0 q p 1)).reindex finSumFinEquiv finSumFinEquiv (Equiv.refl _) (Equiv.refl _)
      = Wiring.series (ι₁ := Fin m) (o₁ := Fin q) (o₂ := Fin p) := by
  apply Wiring.ext'
  · ext i j
    simp only [Wiring.reindex, wiringOf, Wiring.series, Matrix.submatrix, Matrix.of_apply]
    rcases i with a | a <;> rcases j with b | b <;> have ha := a.isLt <;> have hb := b.isLt
    · rw [toMat_eye_val _ _ _ _ _ _ _ _ a.val b.val (by fin_val) (by fin_val), fromBlocks_apply₁₁, Matrix.zero_apply]
      eye_close
    · rw [toMat_eye_val _ _ _ _ _ _ _ _ a.val (q + b.val) (by fin_val) (by fin_val), fromBlocks_apply₁₂,
        Matrix.zero_apply]
      eye_close
    · rw [toMat_eye_val _ _ _ _ _ _ _ _ (m + a.val) b.val (by fin_val) (by fin_val), fromBlocks_apply₂₁,
        Matrix.one_apply]
      eye_close
    · rw [toMat_eye_val _ _ _ _ _ _ _ _ (m + a.val) (q + b.val) (by fin_val) (by fin_val),
        fromBlocks_apply₂₂, Matrix.zero_apply]
      eye_close
  · ext i j
    have hj := j.isLt
    simp only [Wiring.reindex, wiringOf, Wiring.series, Matrix.submatrix, Matrix.of_apply]
    rcases i with a | a <;> have ha := a.isLt
    · rw [toMat_eye_val _ _ _ _ _ _ _ _ a.val j.val (by fin_val) (by fin_val), fromRows_apply_inl, Matrix.one_apply]
      eye_close
    · rw [toMat_eye_val _ _ _ _ _ _ _ _ (m + a.val) j.val (by fin_val) (by fin_val), fromRows_apply_inr,
        Matrix.zero_apply]
      eye_close
  · ext i j
    have hi := i.isLt
    simp only [Wiring.reindex, wiringOf, Wiring.series, Matrix.submatrix, Matrix.of_apply]
    rcases j with b | b <;> have hb := b.isLt
    · rw [toMat_eye_val _ _ _ _ _ _ _ _ i.val b.val (by fin_val) (by fin_val), fromCols_apply_inl, Matrix.zero_apply]
      eye_close
    · rw [toMat_eye_val _ _ _ _ _ _ _ _ i.val (q + b.val) (by fin_val) (by fin_val), fromCols_apply_inr,
        Matrix.one_apply]
      eye_close
  · ext i j
    have hi := i.isLt
    simp only [Wiring.reindex, wiringOf, Wiring.series, Matrix.submatrix, Matrix.of_apply]
    rw [toMat_eye_val _ _ _ _ _ _ _ _ i.val (q + p + (finSumFinEquiv j).val) (by fin_val) (by fin_val), Matrix.zero_apply]
    eye_close
/-- the maps of `-sys` are the negation wiring. -/
theorem neg_wiring (m p : Nat) :
    wiringOf (K := K) m p m p [] (eyeEntries 0 0 m 1) (eyeEntries 0 0 p (-1))
      = Wiring.negate (ι := Fin m) (o := Fin p) := by
  apply Wiring.ext'
  · simp [wiringOf, Wiring.negate, toMat_nil]
  · ext i j
    have hi := i.isLt
    have hj := j.isLt
    simp only [wiringOf, Wiring.negate]
    rw [toMat_eye_val _ _ _ _ _ _ _ _ i.val j.val rfl rfl, Matrix.one_apply]
    eye_close
  · ext i j
    have hi := i.isLt
    have hj := j.isLt
    simp only [wiringOf, Wiring.negate]
    rw [toMat_eye_val _ _ _ _ _ _ _ _ i.val j.val rfl (by fin_val), Matrix.neg_apply, Matrix.one_apply,
      apply_ite Neg.neg, neg_zero]
    eye_close
  · ext i j
    have hi := i.isLt
    simp only [wiringOf, Wiring.negate]
    rw [toMat_eye_val _ _ _ _ _ _ _ _ i.val (p + j.val) rfl (by fin_val), Matrix.zero_apply]
    eye_close
/-- the maps of `sys1.feedback(sys2, sign)` are the feedback wiring. -/
theorem feedback_wiring (m p : Nat) (sign : K) :
    (wiringOf (m + p) (p + m) m p (eyeEntries 0 p m sign ++ eyeEntries m 0 p 1) (eyeEntries 0 0 m 1)
        (eyeEntries 0 0 p 1)).reindex finSumFinEquiv finSumFinEquiv (Equiv.refl _) (Equiv.refl _)
      = Wiring.feedback (ι := Fin m) (o := Fin p) sign := by
  apply Wiring.ext'
  · ext i j
    simp only [Wiring.reindex, wiringOf, Wiring.feedback, Matrix.submatrix, Matrix.of_apply]
    rw [toMat_append', Matrix.add_apply]
    rcases i with a | a <;> rcases j with b | b <;> have ha := a.isLt <;> have hb := b.isLt
    · rw [toMat_eye_val _ _ _ _ _ _ _ _ a.val b.val (by fin_val) (by fin_val),
        toMat_eye_val _ _ _ _ _ _ _ _ a.val b.val (by fin_val) (by fin_val), fromBlocks_apply₁₁,
        Matrix.zero_apply, if_neg (by omega), if_neg (by omega), add_zero]
    · rw [toMat_eye_val _ _ _ _ _ _ _ _ a.val (p + b.val) (by fin_val) (by fin_val),
        toMat_eye_val _ _ _ _ _ _ _ _ a.val (p + b.val) (by fin_val) (by fin_val), fromBlocks_apply₁₂,
        if_neg (by omega : ¬ (m ≤ a.val ∧ a.val < m + p ∧ p + b.val + m = 0 + a.val)), add_zero,
        Matrix.smul_apply, Matrix.one_apply, smul_eq_mul, mul_ite, mul_one, mul_zero]
      eye_close
    · rw [toMat_eye_val _ _ _ _ _ _ _ _ (m + a.val) b.val (by fin_val) (by fin_val),
        toMat_eye_val _ _ _ _ _ _ _ _ (m + a.val) b.val (by fin_val) (by fin_val), fromBlocks_apply₂₁,
        if_neg (by omega : ¬ (0 ≤ m + a.val ∧ m + a.val < 0 + m ∧ b.val + 0 = p + (m + a.val))), zero_add,
        Matrix.one_apply]
      eye_close
    · rw [toMat_eye_val _ _ _ _ _ _ _ _ (m + a.val) (p + b.val) (by fin_val) (by fin_val),
        toMat_eye_val _ _ _ _ _ _ _ _ (m + a.val) (p + b.val) (by fin_val) (by fin_val), fromBlocks_apply₂₂,
        Matrix.zero_apply, if_neg (by omega), if_neg (by omega), add_zero]
  · ext i j
    have hj := j.isLt
    simp only [Wiring.reindex, wiringOf, Wiring.feedback, Matrix.submatrix, Matrix.of_apply]
    rcases i with a | a <;> have ha := a.isLt
    · rw [toMat_eye_val _ _ _ _ _ _ _ _ a.val j.val (by fin_val) (by fin_val), fromRows_apply_inl,
        Matrix.one_apply]
      eye_close
    · rw [toMat_eye_val _ _ _ _ _ _ _ _ (m + a.val) j.val (by fin_val) (by fin_val), fromRows_apply_inr,
        Matrix.zero_apply]
      eye_close
  · ext i j
    have hi := i.isLt
    simp only [Wiring.reindex, wiringOf, Wiring.feedback, Matrix.submatrix, Matrix.of_apply]
    rcases j with b | b <;> have hb := b.isLt
    · rw [toMat_eye_val _ _ _ _ _ _ _ _ i.val b.val (by fin_val) (by fin_val), fromCols_apply_inl,
        Matrix.one_apply]
      eye_close
    · rw [toMat_eye_val _ _ _ _ _ _ _ _ i.val (p + b.val) (by fin_val) (by fin_val), fromCols_apply_inr,
        Matrix.zero_apply]
      eye_close
  · ext i j
    have hi := i.isLt
    simp only [Wiring.reindex, wiringOf, Wiring.feedback, Matrix.submatrix, Matrix.of_apply]
    rw [toMat_eye_val _ _ _ _ _ _ _ _ i.val (p + m + (finSumFinEquiv j).val) (by fin_val) (by fin_val),
      Matrix.zero_apply]
    eye_close
theorem parallelGain_one {ι o : Type*} [DecidableEq ι] [DecidableEq o] :
    Wiring.parallelGain (K := K) (ι := ι) (o := o) 1 = Wiring.parallel := by
  simp [Wiring.parallelGain, Wiring.parallel]

variable {σ σ₁ σ₂ : Type*}

/-- `sys1 + sys2` on linear operands is `StateSpace.__add__` (C02's `add`). -/
theorem opAdd_linear (m p : Nat) (G₁ : SS σ₁ (Fin m) (Fin p) K) (G₂ : SS σ₂ (Fin m) (Fin p) K) :
    ((wiringOf (m + m) (p + p) m p [] (parInp m) (parOut p 1)).reindex
        finSumFinEquiv finSumFinEquiv (Equiv.refl _) (Equiv.refl _)).linearIC (G₁.append G₂) 1
      = G₁.add G₂ := by
  rw [par_wiring, parallelGain_one]
  exact linearIC_parallel G₁ G₂

/-- the difference wiring on linear operands is `G₁ + (-G₂)`. -/
theorem linearIC_parallelNeg {ι o : Type*} [Fintype ι] [DecidableEq ι] [Fintype o] [DecidableEq o]
    (G₁ : SS σ₁ ι o K) (G₂ : SS σ₂ ι o K) :
    (Wiring.parallelGain (K := K) (-1)).linearIC (G₁.append G₂) 1 = G₁.add G₂.neg := by
  simp only [Wiring.linearIC, SS.append, SS.add, SS.neg, Wiring.parallelGain]
  congr 1
  · simp
  · simp [fromBlocks_mul_fromRows]
  · simp [fromCols_mul_fromBlocks]
  · simp [fromCols_mul_fromBlocks, fromCols_mul_fromRows, sub_eq_add_neg]

/-- `sys1 - sys2` on linear operands is `sys1 + (-sys2)`. -/
theorem opSub_linear (m p : Nat) (G₁ : SS σ₁ (Fin m) (Fin p) K) (G₂ : SS σ₂ (Fin m) (Fin p) K) :
    ((wiringOf (m + m) (p + p) m p [] (parInp m) (parOut p (-1))).reindex
        finSumFinEquiv finSumFinEquiv (Equiv.refl _) (Equiv.refl _)).linearIC (G₁.append G₂) 1
      = G₁.add G₂.neg := by
  rw [par_wiring]
  exact linearIC_parallelNeg G₁ G₂

/-- `sys2 * sys1` on linear operands is `StateSpace.__mul__` (C02's `mul`). -/
theorem opSeries_linear (m q p : Nat) (G₁ : SS σ₁ (Fin m) (Fin q) K) (G₂ : SS σ₂ (Fin q) (Fin p) K) :
    ((wiringOf (K := K) (m + q) (q + p) m p (eyeEntries m 0 q 1) (eyeEntries 0 0 m 1)
        (eyeEntries 0 q p 1)).reindex finSumFinEquiv finSumFinEquiv (Equiv.refl _)
        (Equiv.refl _)).linearIC (G₁.append G₂) (fromBlocks 1 0 G₁.D 1)
      = G₂.mul G₁ := by
  rw [series_wiring]
  exact linearIC_series G₁ G₂

/-- `-sys` on a linear operand is `StateSpace.__neg__`. -/
theorem opNeg_linear (m p : Nat) (G : SS σ (Fin m) (Fin p) K) :
    (wiringOf (K := K) m p m p [] (eyeEntries 0 0 m 1) (eyeEntries 0 0 p (-1))).linearIC G 1
      = G.neg := by
  rw [neg_wiring]
  simp [Wiring.linearIC, Wiring.negate, SS.neg]

/-- `sys1.feedback(sys2, sign)` on linear operands is `StateSpace.feedback` (well-posed loop,
`E = (I - sign D₂ D₁)⁻¹`). -/
theorem opFeedback_linear (m p : Nat) (sign : K) (G₁ : SS σ₁ (Fin m) (Fin p) K)
    (G₂ : SS σ₂ (Fin p) (Fin m) K) (E : Matrix (Fin m) (Fin m) K)
    (hE : E * (1 - sign • (G₂.D * G₁.D)) = 1) :
    ((wiringOf (m + p) (p + m) m p (eyeEntries 0 p m sign ++ eyeEntries m 0 p 1)
        (eyeEntries 0 0 m 1) (eyeEntries 0 0 p 1)).reindex finSumFinEquiv finSumFinEquiv
        (Equiv.refl _) (Equiv.refl _)).linearIC (G₁.append G₂) (Wiring.feedbackE G₁.D G₂.D sign E)
      = G₁.feedback G₂ sign E := by
  rw [feedback_wiring]
  exact linearIC_feedback G₁ G₂ sign E hE

end operators

/-! ## Part 5 — explicit gains (a zero included), evaluation at a point, discrete-time runs -/

section gains

variable {K : Type} [Field K] [DecidableEq K]

/-- an explicitly given gain is the gain of the parsed spec — whatever its value, `0` included
(the default `1` is for an *omitted* gain only). -/
theorem explicit_gain_kept (sigs : List SysSig) (d : Dict) (sys : SysRef) (sig : SigRef) (g : K)
    (si : Nat) (idxs : List Nat) (g' : K)
    (h : parseSpec sigs d (.mk sys false sig false (some g)) = .ok (si, idxs, g')) : g' = g := by
  simp only [parseSpec, gainConflict, gainOf] at h
  split at h
  · cases h
  · split at h
    · cases h
    · split at h
      · cases h
      · split at h
        · cases h
        · split at h
          · cases h
          · injection h with h
            simp only [Prod.mk.injEq] at h
            simpa using h.2.2.symm

/-- … and it differs from the omitted gain exactly when it is not `1`: `(sys, sig, 0)` is not
`(sys, sig)`. -/
theorem explicit_zero_ne_default (sigs : List SysSig) (d : Dict) (sys : SysRef) (sig : SigRef)
    (si : Nat) (idxs : List Nat) (g' : K)
    (h : parseSpec sigs d (.mk sys false sig false (some (0 : K))) = .ok (si, idxs, g')) :
    parseSpec sigs d (.mk sys false sig false (none : Option K)) = .ok (si, idxs, 1) ∧ g' = 0 := by
  have hg := explicit_gain_kept sigs d sys sig 0 si idxs g' h
  subst hg
  refine ⟨?_, rfl⟩
  simp only [parseSpec, gainConflict, gainOf] at h ⊢
  split at h
  · cases h
  · split at h
    · cases h
    · rename_i si' hs
      split at h
      · cases h
      · rename_i S hS
        split at h
        · cases h
        · rename_i ix hix
          split at h
          · cases h
          · rename_i hbad
            injection h with h
            simp only [Prod.mk.injEq] at h
            simp [hs, hS, hix, hbad, h.1, h.2.1]

/-- entries of gain zero contribute nothing to a map: a source listed with gain `0` may as well be
left out. -/
theorem toMat_zero_gain (r c : Nat) (es₁ zs es₂ : List (Entry K)) (hz : ∀ e ∈ zs, e.2.2 = 0) :
    toMat r c (es₁ ++ zs ++ es₂) = toMat r c (es₁ ++ es₂) := by
  have h0 : toMat r c zs = 0 := by
    ext i j
    simp only [toMat, Matrix.zero_apply]
    apply List.sum_eq_zero
    intro x hx
    obtain ⟨e, he, rfl⟩ := List.mem_map.1 hx
    exact hz e (List.mem_filter.1 he).1
  rw [toMat_append, toMat_append, toMat_append, h0, add_zero]

/-- a connection source with an explicit zero gain yields zero-gain entries only. -/
theorem connPart_zero_gain (sigs : List SysSig) (iidx : List Nat) (sys : SysRef) (sig : SigRef)
    (es : List (Entry K))
    (h : connPart sigs iidx (.mk sys false sig false (some (0 : K))) = .ok es) :
    ∀ e ∈ es, e.2.2 = 0 := by
  unfold connPart at h
  split at h
  · cases h
  · rename_i oidx g hp
    have hg : g = 0 := by
      unfold parseOutputSpec at hp
      split at hp
      · rename_i si idxs g₀ hps
        injection hp with hp
        simp only [Prod.mk.injEq] at hp
        rw [← hp.2]
        exact explicit_gain_kept sigs .output sys sig 0 si idxs g₀ hps
      · split at hp
        · rename_i si idxs g₀ hps
          injection hp with hp
          simp only [Prod.mk.injEq] at hp
          rw [← hp.2]
          exact explicit_gain_kept sigs .input sys sig 0 si idxs g₀ hps
        · cases hp
    split at h
    · cases h
    · injection h with h
      subst h
      intro e he
      obtain ⟨ij, _, rfl⟩ := List.mem_map.1 he
      exact hg

end gains

section evaluation

variable {K : Type*} [Field K]
variable {σ ι o w z κ : Type*}
variable [Fintype σ] [DecidableEq σ] [Fintype ι] [DecidableEq ι] [Fintype o] [Fintype w]

/-- `dynamics` / `output` of the interconnection (`Wiring.eval`, any batch of points): what is
returned are `_rhs` and `_out` at a solution `U` of the flow equations. -/
theorem eval_sound [DecidableEq (Matrix ι κ K)] (W : Wiring ι o w z K) (G : SS σ ι o K)
    (nsys : Nat) (Xs : Matrix σ κ K) (Ws : Matrix w κ K) (F : Matrix σ κ K) (H : Matrix z κ K)
    (h : W.eval G nsys Xs Ws = .ok (F, H)) :
    ∃ U, W.step G Xs Ws U = U ∧ F = Wiring.rhs G Xs U ∧ H = W.out G Xs U := by
  unfold Wiring.eval at h
  cases hs : staticLoop (W.step G Xs Ws) (nsys + 1) (W.M * Ws) with
  | error e => rw [hs] at h; cases h
  | ok U =>
    rw [hs] at h
    simp only [Except.map] at h
    injection h with h
    injection h with h1 h2
    exact ⟨U, staticLoop_fixed _ _ _ _ hs, h1.symm, h2.symm⟩

/-- … hence the closed form: at **every** point `(x, w)` (a column of `Xs`, `Ws`) the value is
`A x + B w`, `C x + D w` with the matrices of `linearIC` — the same matrices `linearize` reads
off at the unit perturbations.  The field elements `x`, `w` are what the caller's numbers denote;
nothing depends on the number type they were held in. -/
theorem eval_closed_form [DecidableEq (Matrix ι κ K)] (W : Wiring ι o w z K) (G : SS σ ι o K)
    (nsys : Nat) (Xs : Matrix σ κ K) (Ws : Matrix w κ K) (E : Matrix ι ι K)
    (hE : E * (1 - W.Kc * G.D) = 1) (F : Matrix σ κ K) (H : Matrix z κ K)
    (h : W.eval G nsys Xs Ws = .ok (F, H)) :
    F = (W.linearIC G E).A * Xs + (W.linearIC G E).B * Ws ∧
    H = (W.linearIC G E).C * Xs + (W.linearIC G E).D * Ws := by
  obtain ⟨U, hU, rfl, rfl⟩ := eval_sound W G nsys Xs Ws F H h
  exact linearize_closed_form W G Xs Ws E hE U hU

/-- for an acyclic feedthrough structure the geometric sum inverts `I - Kc D`. -/
theorem geom_inverse (N : Matrix ι ι K) (n : Nat) (hN : N ^ n = 0) :
    (∑ j ∈ Finset.range n, N ^ j) * (1 - N) = 1 := by
  rw [geom_sum_mul_neg, hN, sub_zero]

/-- completeness: with acyclic feedthrough over at most `nsys` levels the evaluation does not
raise, at any point, and returns the closed form with `E = Σ_{j<nsys} (Kc D)^j`. -/
theorem eval_complete [DecidableEq (Matrix ι κ K)] (W : Wiring ι o w z K) (G : SS σ ι o K)
    (nsys : Nat) (Xs : Matrix σ κ K) (Ws : Matrix w κ K) (lvl : ι → Nat)
    (hacyc : ∀ i j, (W.Kc * G.D) i j ≠ 0 → lvl j < lvl i) (hb : ∀ i, lvl i < nsys) :
    W.eval G nsys Xs Ws = .ok
      ((W.linearIC G (∑ j ∈ Finset.range nsys, (W.Kc * G.D) ^ j)).A * Xs
        + (W.linearIC G (∑ j ∈ Finset.range nsys, (W.Kc * G.D) ^ j)).B * Ws,
       (W.linearIC G (∑ j ∈ Finset.range nsys, (W.Kc * G.D) ^ j)).C * Xs
        + (W.linearIC G (∑ j ∈ Finset.range nsys, (W.Kc * G.D) ^ j)).D * Ws) := by
  have hloop := staticIO_complete W G Xs Ws lvl nsys hacyc hb (W.M * Ws)
  have hN := Wiring.nilpotent_of_levels (W.Kc * G.D) lvl nsys hacyc hb
  have hE := geom_inverse (W.Kc * G.D) nsys hN
  have hfix := staticLoop_fixed _ _ _ _ hloop
  obtain ⟨h1, h2⟩ := linearize_closed_form W G Xs Ws _ hE _ hfix
  unfold Wiring.eval
  rw [hloop]
  simp only [Except.map, h1, h2]

/-- the discrete-time stepping loop over total maps: the `k`-th recorded state is the fold of the
first `k` input samples, the `k`-th output is read there. -/
theorem dtTrajLin_append {X Wt Z : Type*} (next : X → Wt → X) (outp : X → Wt → Z) (x : X)
    (ws : List Wt) (w : Wt) :
    dtTrajLin next outp x (ws ++ [w])
      = dtTrajLin next outp x ws ++ [(ws.foldl next x, outp (ws.foldl next x) w)] := by
  induction ws generalizing x with
  | nil => simp [dtTrajLin]
  | cons a ws ih => simp [dtTrajLin, ih]

theorem dtTrajLin_length {X Wt Z : Type*} (next : X → Wt → X) (outp : X → Wt → Z) (x : X)
    (ws : List Wt) : (dtTrajLin next outp x ws).length = ws.length := by
  induction ws generalizing x with
  | nil => simp [dtTrajLin]
  | cons a ws ih => simp [dtTrajLin, ih]

/-- if the step never raises and is given by `next` / `outp`, the run is the total one. -/
theorem dtTraj_of_total {X Wt Z ε : Type*} (f : X → Wt → Except ε (X × Z)) (next : X → Wt → X)
    (outp : X → Wt → Z) (hf : ∀ x w, f x w = .ok (next x w, outp x w)) (x : X) (ws : List Wt) :
    dtTraj f x ws = .ok (dtTrajLin next outp x ws) := by
  induction ws generalizing x with
  | nil => simp [dtTraj, dtTrajLin]
  | cons a ws ih => simp [dtTraj, dtTrajLin, hf, ih, Except.map]

/-- a raising step ends the run with that error. -/
theorem dtTraj_raises {X Wt Z ε : Type*} (f : X → Wt → Except ε (X × Z)) (x : X) (w : Wt)
    (ws : List Wt) (e : ε) (h : f x w = .error e) : dtTraj f x (w :: ws) = .error e := by
  simp [dtTraj, h]

/-- `input_output_response` of a discrete-time interconnection of linear subsystems with acyclic
feedthrough: the simulated states and outputs are those of `x⁺ = A x + B w`, `y = C x + D w` with
the matrices of `linearIC` — from any initial state, integer-valued or not. -/
theorem simulate_closed_form [DecidableEq (Matrix ι κ K)] (W : Wiring ι o w z K)
    (G : SS σ ι o K) (nsys : Nat) (lvl : ι → Nat)
    (hacyc : ∀ i j, (W.Kc * G.D) i j ≠ 0 → lvl j < lvl i) (hb : ∀ i, lvl i < nsys)
    (x₀ : Matrix σ κ K) (ws : List (Matrix w κ K)) :
    dtTraj (fun x w => W.eval G nsys x w) x₀ ws = .ok
      (dtTrajLin
        (fun x w => (W.linearIC G (∑ j ∈ Finset.range nsys, (W.Kc * G.D) ^ j)).A * x
          + (W.linearIC G (∑ j ∈ Finset.range nsys, (W.Kc * G.D) ^ j)).B * w)
        (fun x w => (W.linearIC G (∑ j ∈ Finset.range nsys, (W.Kc * G.D) ^ j)).C * x
          + (W.linearIC G (∑ j ∈ Finset.range nsys, (W.Kc * G.D) ^ j)).D * w) x₀ ws) :=
  dtTraj_of_total _ _ _ (fun x w => eval_complete W G nsys x w lvl hacyc hb) x₀ ws

end evaluation

/-! non-vacuity for Part 5: the sampled loop `x⁺ = x/2 + u`, `y = x`, `u = w - y/2` (one
subsystem, one connection with gain `-1/2`), evaluated at the integer state `3`. -/
def loopW : Wiring (Fin 1) (Fin 1) (Fin 1) (Fin 1) ℚ := ⟨!![-1/2], !![1], !![1], !![0]⟩

def loopG : SS (Fin 1) (Fin 1) (Fin 1) ℚ := ⟨!![1/2], !![1], !![1], !![0]⟩

example : ∀ i j : Fin 1, (loopW.Kc * loopG.D) i j ≠ 0 → (fun _ => 0 : Fin 1 → Nat) j < 0 := by
  intro i j; fin_cases i; fin_cases j; simp [loopW, loopG]

example : dtTrajLin (fun x w : ℚ => x / 4 + w) (fun x _ => x) 3 [1, 1, 1]
    = [(3, 3), (7/4, 7/4), (23/16, 23/16)] := by
  norm_num [dtTrajLin]

example : dtTraj (ε := Err) (fun x w : Int => if x = 0 then .error .illPosed else .ok (x - w, x))
    2 [1, 1, 1] = .error .illPosed := by decide

example : toMat 1 2 ([(0, 0, (2 : ℚ))] ++ [(0, 1, 0)] ++ []) = toMat 1 2 ([(0, 0, 2)] ++ []) :=
  toMat_zero_gain 1 2 _ _ _ (by simp)

/-! non-vacuity on a concrete instance: `P` (input `u`, output `y`), `C` (inputs `e0`, `e1`,
output `v`) — the failing input of the unrepaired code. -/
def sigsPC : List SysSig :=
  [⟨"P", [⟨"u", none⟩], [⟨"y", none⟩]⟩, ⟨"C", [⟨"e0", none⟩, ⟨"e1", none⟩], [⟨"v", none⟩]⟩]

def ownedArgs : Args ℚ :=
  { sigs := sigsPC
    conns := .explicit [.list [pairSpec 0 1, pairSpec 1 0]]
    inplistNone := false, inplist := [.single (pairSpec 1 0)], inputs := none
    outlistNone := false, outlist := [.single (pairSpec 0 0)], outputs := none
    addUnused := false }

/-- `interconnect([P, C], connections=[[(0, 1), (1, 0)]], …)`: `P` has one input, so `(0, 1)`
is out of range and the call raises (the unrepaired code wires `C.e0`). -/
theorem owned_defect_raises : interconnect ownedArgs = .error .indexRange := by decide +kernel

example : interconnect { ownedArgs with conns := .explicit [.list [pairSpec 0 0, pairSpec 1 0]] }
    = .ok ⟨3, 2, 1, 1, [(0, 1, 1)], [(1, 0, 1)], [(0, 0, 1)]⟩ := by decide +kernel


example : ∀ S ∈ sigsPC, S.name ≠ "Q" := by decide

example : sysIndex sigsPC (.name "C") = .ok 1 := by decide

example : lookup [⟨"e0", none⟩, ⟨"e1", none⟩] "e1" = some 1 := by decide

/-! non-vacuity for Part 4: a 1-input / 2-output pair (the sum keeps both outputs), a 2-input /
1-output pair, a size mismatch, a series and a feedback form. -/
def sig12 (n : String) : SysSig := ⟨n, [⟨"u", none⟩], [⟨"y[0]", some ("y", 0)⟩, ⟨"y[1]", some ("y", 1)⟩]⟩

def sig21 (n : String) : SysSig := ⟨n, [⟨"u[0]", some ("u", 0)⟩, ⟨"u[1]", some ("u", 1)⟩], [⟨"y", none⟩]⟩

example : opAdd (K := ℚ) (sig12 "f") (sig12 "g")
    = .ok ⟨2, 4, 1, 2, [], [(0, 0, 1), (1, 0, 1)], [(0, 0, 1), (0, 2, 1), (1, 1, 1), (1, 3, 1)]⟩ := by
  decide +kernel

example : opSub (K := ℚ) (sig21 "f") (sig21 "g")
    = .ok ⟨4, 2, 2, 1, [], [(0, 0, 1), (2, 0, 1), (1, 1, 1), (3, 1, 1)], [(0, 0, 1), (0, 1, -1)]⟩ := by
  decide +kernel

example : opAdd (K := ℚ) (sig12 "f") (sig21 "g") = .error .shape := by decide +kernel

example : opSeries (K := ℚ) (sig12 "f") (sig21 "g")
    = .ok ⟨3, 3, 1, 1, [(1, 0, 1), (2, 1, 1)], [(0, 0, 1)], [(0, 2, 1)]⟩ := by decide +kernel

example : opFeedback (K := ℚ) (sig12 "f") (sig21 "g") (-1)
    = .ok ⟨3, 3, 1, 2, [(0, 2, -1), (1, 0, 1), (2, 1, 1)], [(0, 0, 1)], [(0, 0, 1), (1, 1, 1)]⟩ := by
  decide +kernel

example : opNeg (K := ℚ) (sig12 "f") = .ok ⟨1, 2, 1, 2, [], [(0, 0, 1)], [(0, 0, -1), (1, 1, -1)]⟩ := by
  decide +kernel

example : (sig12 "f").nin = 1 ∧ (sig12 "f").nout = 2 := by decide

/-! ## Part 6 — `add_unused` names every appended signal after the port it is wired to; base names
and ranges of a vector signal list its channels in dictionary order, for any number of channels -/

section unused

variable {K : Type} [Field K] [DecidableEq K]

/-- a flat index that `unflat` resolves is a port of an existing subsystem, at that flat index. -/
theorem unflat_spec (sigs : List SysSig) (d : Dict) (k si i : Nat)
    (h : unflat sigs d k = some (si, i)) :
    ∃ S, sigs[si]? = some S ∧ i < (S.labels d).length ∧ k = offset sigs d si + i := by
  unfold unflat at h
  have hm := List.mem_of_mem_head? (Option.mem_def.mpr h)
  rcases List.mem_filterMap.mp hm with ⟨Sj, hSj, hk⟩
  have hget := List.mem_zipIdx_iff_getElem?.mp hSj
  split at hk
  · next hc =>
    injection hk with hk
    injection hk with h1 h2
    subst h1
    exact ⟨Sj.1, hget, by omega, by omega⟩
  · cases hk

/-- what `unused_signals()` reports as an unused input is an existing subsystem input whose row
is zero in `input_map` and in `connect_map`. -/
theorem unusedInputs_spec (sigs : List SysSig) (m : Maps K) (p : Nat × Nat)
    (hp : p ∈ unusedInputs sigs m) :
    ∃ S, sigs[p.1]? = some S ∧ p.2 < S.inputs.length ∧
      rowUsed m.inp (offset sigs .input p.1 + p.2) = false ∧
      rowUsed m.connect (offset sigs .input p.1 + p.2) = false := by
  unfold unusedInputs at hp
  rcases List.mem_filterMap.mp hp with ⟨r, _, hr⟩
  split at hr
  · cases hr
  · next hu =>
    obtain ⟨S, hS, hi, hk⟩ := unflat_spec sigs .input r p.1 p.2 hr
    simp only [Bool.or_eq_true, not_or, Bool.not_eq_true] at hu
    exact ⟨S, hS, hi, hk ▸ hu.1, hk ▸ hu.2⟩

/-- idem for outputs: the column is zero in `output_map` and in `connect_map`. -/
theorem unusedOutputs_spec (sigs : List SysSig) (m : Maps K) (p : Nat × Nat)
    (hp : p ∈ unusedOutputs sigs m) :
    ∃ S, sigs[p.1]? = some S ∧ p.2 < S.outputs.length ∧
      colUsed m.out (offset sigs .output p.1 + p.2) = false ∧
      colUsed m.connect (offset sigs .output p.1 + p.2) = false := by
  unfold unusedOutputs at hp
  rcases List.mem_filterMap.mp hp with ⟨r, _, hr⟩
  split at hr
  · cases hr
  · next hu =>
    obtain ⟨S, hS, hi, hk⟩ := unflat_spec sigs .output r p.1 p.2 hr
    simp only [Bool.or_eq_true, not_or, Bool.not_eq_true] at hu
    exact ⟨S, hS, hi, hk ▸ hu.1, hk ▸ hu.2⟩

theorem unusedLabels_cons (sigs : List SysSig) (d : Dict) (p : Nat × Nat) (ps : List (Nat × Nat))
    (S : SysSig) (l : Label) (hS : sigs[p.1]? = some S) (hl : (S.labels d)[p.2]? = some l) :
    unusedLabels sigs d (p :: ps) = l.raw :: unusedLabels sigs d ps := by
  simp [unusedLabels, List.filterMap_cons, hS, hl]

/-- the label list `add_unused` appends is aligned with the list entries it appends: the `k`-th
label is the label of the `k`-th appended port (no label is dropped or shifted), whatever the
order in which the ports are enumerated. -/
theorem unusedLabels_aligned (sigs : List SysSig) (d : Dict) (ps : List (Nat × Nat))
    (hv : ∀ p ∈ ps, ∃ S, sigs[p.1]? = some S ∧ p.2 < (S.labels d).length) :
    List.Forall₂ (fun p name => ∃ S l, sigs[p.1]? = some S ∧ (S.labels d)[p.2]? = some l ∧
      name = l.raw) ps (unusedLabels sigs d ps) := by
  induction ps with
  | nil => exact List.Forall₂.nil
  | cons p ps ih =>
    obtain ⟨S, hS, hi⟩ := hv p (List.mem_cons_self ..)
    have hl : (S.labels d)[p.2]? = some (S.labels d)[p.2] := List.getElem?_eq_getElem hi
    rw [unusedLabels_cons sigs d p ps S _ hS hl]
    exact List.Forall₂.cons ⟨S, _, hS, hl, rfl⟩ (ih fun q hq => hv q (List.mem_cons_of_mem _ hq))

/-- `add_unused`, inputs: the entry `(isys, isig)` appended to `inplist` at position `k` for an
unused subsystem input writes exactly one `1` into `input_map` — column `k`, the row of that
subsystem input, a row that was zero in `input_map` and `connect_map` — and the label appended to
`inputs` for it is the label of that same subsystem input: the new external input is wired to
the port it is named after. -/
theorem added_input_wired_and_named (sigs : List SysSig) (m : Maps K) (p : Nat × Nat)
    (hp : p ∈ unusedInputs sigs m) (k : Nat) :
    ∃ S l, sigs[p.1]? = some S ∧ S.inputs[p.2]? = some l ∧
      inpEntries (K := K) sigs k [pairSpec p.1 p.2]
        = .ok [(offset sigs .input p.1 + p.2, k, 1)] ∧
      unusedLabels sigs .input [p] = [l.raw] ∧
      rowUsed m.inp (offset sigs .input p.1 + p.2) = false ∧
      rowUsed m.connect (offset sigs .input p.1 + p.2) = false := by
  obtain ⟨S, hS, hi, h1, h2⟩ := unusedInputs_spec sigs m p hp
  have hl : S.inputs[p.2]? = some S.inputs[p.2] := List.getElem?_eq_getElem hi
  refine ⟨S, _, hS, hl, inpEntries_pair sigs k p.1 p.2 S hS hi, ?_, h1, h2⟩
  rw [unusedLabels_cons sigs .input p [] S _ hS hl]
  rfl

/-- `add_unused`, outputs: the appended `outlist` entry at position `k` reads exactly the unused
subsystem output (gain 1, row `k`), and is named by that output's label. -/
theorem added_output_wired_and_named (sigs : List SysSig) (m : Maps K) (p : Nat × Nat)
    (hp : p ∈ unusedOutputs sigs m) (k : Nat) :
    ∃ S l, sigs[p.1]? = some S ∧ S.outputs[p.2]? = some l ∧
      outEntries (K := K) sigs k [pairSpec p.1 p.2]
        = .ok [(k, offset sigs .output p.1 + p.2, 1)] ∧
      unusedLabels sigs .output [p] = [l.raw] ∧
      colUsed m.out (offset sigs .output p.1 + p.2) = false ∧
      colUsed m.connect (offset sigs .output p.1 + p.2) = false := by
  obtain ⟨S, hS, hi, h1, h2⟩ := unusedOutputs_spec sigs m p hp
  have hl : S.outputs[p.2]? = some S.outputs[p.2] := List.getElem?_eq_getElem hi
  refine ⟨S, _, hS, hl, outEntries_pair sigs k p.1 p.2 S hS hi, ?_, h1, h2⟩
  rw [unusedLabels_cons sigs .output p [] S _ hS hl]
  rfl

/-- the names `addedLabels` reports are aligned with the appended ports `addedSignals` reports
(same length, `k`-th name = label of the `k`-th port). -/
theorem addedLabels_aligned (a : Args K) (di dout : List (Nat × Nat))
    (h : addedSignals a = .ok (di, dout)) :
    ∃ li lo, addedLabels a = .ok (li, lo) ∧
      List.Forall₂ (fun p name => ∃ S l, a.sigs[p.1]? = some S ∧ S.inputs[p.2]? = some l ∧
        name = l.raw) di li ∧
      List.Forall₂ (fun p name => ∃ S l, a.sigs[p.1]? = some S ∧ S.outputs[p.2]? = some l ∧
        name = l.raw) dout lo := by
  refine ⟨unusedLabels a.sigs .input di, unusedLabels a.sigs .output dout,
    by simp [addedLabels, h], ?_, ?_⟩
  · refine unusedLabels_aligned a.sigs .input di fun p hp => ?_
    unfold addedSignals at h
    split at h
    · injection h with h; injection h with h1 h2; subst h1; cases hp
    · split at h
      · cases h
      · next m hm =>
        injection h with h; injection h with h1 h2; subst h1
        obtain ⟨S, hS, hi, _⟩ := unusedInputs_spec a.sigs m p hp
        exact ⟨S, hS, hi⟩
  · refine unusedLabels_aligned a.sigs .output dout fun p hp => ?_
    unfold addedSignals at h
    split at h
    · injection h with h; injection h with h1 h2; subst h2; cases hp
    · split at h
      · cases h
      · next m hm =>
        injection h with h; injection h with h1 h2; subst h2
        obtain ⟨S, hS, hi, _⟩ := unusedOutputs_spec a.sigs m p hp
        exact ⟨S, hS, hi⟩

end unused

/-- non-vacuity (the shape of the seeded failing input): `P` with inputs `u, d1, d2`, `C` with
inputs `ff, e`; `u` and `e` are driven, the unused inputs `(0,1), (0,2), (1,0)` are appended in
this order and named `d1, d2, ff`; the appended columns 1, 2, 3 of `input_map` hit rows 1, 2, 3. -/
def sigsUn : List SysSig :=
  [⟨"P", [⟨"u", none⟩, ⟨"d1", none⟩, ⟨"d2", none⟩], [⟨"y", none⟩]⟩,
   ⟨"C", [⟨"ff", none⟩, ⟨"e", none⟩], [⟨"u", none⟩, ⟨"mon", none⟩]⟩]

def unArgs : Args ℚ :=
  { sigs := sigsUn
    conns := .explicit [.list [pairSpec 0 0, pairSpec 1 0]]
    inplistNone := false, inplist := [.single (pairSpec 1 1)], inputs := some 1
    outlistNone := false, outlist := [.single (pairSpec 0 0)], outputs := some 1
    addUnused := true }

example : addedSignals unArgs = .ok ([(0, 1), (0, 2), (1, 0)], [(1, 1)]) := by decide +kernel

example : addedLabels unArgs = .ok (["d1", "d2", "ff"], ["mon"]) := by decide +kernel

example : interconnect unArgs = .ok ⟨5, 3, 4, 2, [(0, 1, 1)],
    [(4, 0, 1), (1, 1, 1), (2, 2, 1), (3, 3, 1)], [(0, 0, 1), (1, 2, 1)]⟩ := by decide +kernel

/-- a 12-channel vector signal `u[0] … u[11]`: the base name lists the channels 0 … 11 in this
order, the range `u[9:11]` is `[9, 10]`, `u[2:]` is `[2, …, 11]` (numeric = dictionary order, not
the lexicographic order `u[0], u[1], u[10], u[11], u[2], …` of the label strings). -/
def vecLabels (b : String) (n : Nat) : List Label :=
  (List.range n).map fun k => ⟨s!"{b}[{k}]", some (b, k)⟩

theorem withBase_vecLabels_aux (b : String) (ok : Nat → Bool) : ∀ n s : Nat,
    ((((List.range' s n).map fun k => (⟨s!"{b}[{k}]", some (b, k)⟩ : Label)).zipIdx s).filterMap
      fun lk => match lk.1.idx with
        | some (b', m) => if b' == b && ok m then some lk.2 else none
        | none => none) = (List.range' s n).filter ok := by
  intro n
  induction n with
  | zero => intro s; simp
  | succ n ih =>
    intro s
    rw [List.range'_succ, List.map_cons, List.zipIdx_cons, List.filterMap_cons, ih (s + 1),
      List.filter_cons]
    cases h : ok s <;> simp [h]

/-- **any width**: for the default labels `b[0] … b[n-1]` of a vector signal, the channels a base
name / range selects are the channel numbers themselves, in numeric order — also for `n ≥ 11`,
where the lexicographic order of the label strings is a different one. -/
theorem withBase_vecLabels (b : String) (n : Nat) (ok : Nat → Bool) :
    withBase (vecLabels b n) b ok = (List.range n).filter ok := by
  have := withBase_vecLabels_aux b ok n 0
  rw [← List.range_eq_range'] at this
  exact this

/-- the range `b[lo:hi]` of an `n`-channel signal with default labels is `lo, lo+1, …, hi-1`
(clipped to `n`), an empty selection is an error. -/
theorem slice_vecLabels (b : String) (n : Nat) (lo hi : Option Nat) :
    findSignals (vecLabels b n) [.slice b lo hi]
      = if ((List.range n).filter (inRange lo hi)).isEmpty then none
        else some ((List.range n).filter (inRange lo hi)) := by
  simp only [findSignals, List.flatMap_cons, List.flatMap_nil, List.append_nil, findOne,
    withBase_vecLabels, List.isEmpty_map]
  split
  · rfl
  · induction ((List.range n).filter (inRange lo hi)) with
    | nil => rfl
    | cons a l ih => simp [List.mapM_cons, ih]

example : findSignals (vecLabels "u" 12) [.base "u"] = some (List.range 12) := by decide +kernel

example : findSignals (vecLabels "u" 12) [.slice "u" (some 9) (some 11)] = some [9, 10] := by
  decide +kernel

example : findSignals (vecLabels "u" 12) [.slice "u" (some 2) none]
    = some [2, 3, 4, 5, 6, 7, 8, 9, 10, 11] := by decide +kernel

/-- a feedthrough chain `u₀ → u₁ → u₂` meets the hypotheses of `staticIO_complete`. -/
example : ∀ i j : Fin 3, (!![0, 0, 0; 2, 0, 0; 0, -1, 0] : Matrix (Fin 3) (Fin 3) ℚ) i j ≠ 0 →
    j.val < i.val := by
  intro i j; fin_cases i <;> fin_cases j <;> simp

end CtrlVerif.C07
