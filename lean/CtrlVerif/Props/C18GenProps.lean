/-
Source-text tie for C18, part 2 (tag py2lean-getitem): `Generated/ResponseTime.lean` and
`Generated/ResponseFreq.lean` are rewritten on every run by `harness/core/py2lean_getitem.py` from the
text of the data properties of the response classes in the tree under check —
`TimeResponseData.time / outputs / states / inputs / _legacy_states / __iter__ / __len__`
(control/timeresp.py) and `FrequencyResponseData.magnitude / phase / frequency / complex / response /
__iter__` (control/frdata.py): which array goes into `_process_time_response` /
`_process_frequency_response` (themselves regenerated from their own text: `Generated/
ProcessResponse.lean`, `Props/C18Gen.lean`) with which `issiso`, `transpose`, `squeeze`; the order in
which `states` resolves the squeeze setting (attribute, then package default) and drops the trace axis
BEFORE the processing (the repaired order, fixes b223565 / e99d67b); which labels go into the
`NamedSignal`; what `__iter__` yields for `return_x` / `return_magphase`.  The hand-written models
(`TRD.outputs / states / inputs / legacyStates / iter / len`, `RespFRD.magnitude / phase / complex /
iter` of `Model/Response.lean`, the ones the theorems of `Props/C18.lean`, `C18Perm.lean` are about) are
proved EQUAL to the generated methods for every object (any arrays, flags, counts, settings, label
lists) and every configuration, and `route_independence` is transported to the generated methods.
Meaning of the emitted primitives: `Model/PyResp.lean`.
-/
import CtrlVerif.Generated.ResponseTime
import CtrlVerif.Generated.ResponseFreq
import CtrlVerif.Props.C18Gen
import CtrlVerif.Props.C18Perm

namespace CtrlVerif.C18GenProps

open CtrlVerif NDArr PyResp C18Gen

variable {α : Type}

/-! ### `TimeResponseData` -/

/-- `time` returns the stored time vector. -/
theorem generated_trdTime_eq (cfg : Cfg) (o : TRObj α) : Generated.trdTime cfg o = .ok o.core.time := rfl

/-- **`outputs` as the source text says it is the model**: `_process_time_response(self.y,
issiso=self.issiso, transpose=self.transpose, squeeze=self.squeeze)` wrapped with the output and
input labels — for every object and configuration. -/
theorem generated_trdOutputs_eq (cfg : Cfg) (o : TRObj α) :
    Generated.trdOutputs cfg o
      = (o.core.outputs cfg).map fun y => ⟨y, o.output_labels, o.input_labels⟩ := by
  simp only [Generated.trdOutputs, generated_processTime_eq, TRD.outputs, bind, Except.bind, pure, Except.pure]
  cases processTime o.core.y o.core.issiso o.core.transpose o.core.squeeze cfg.sqTime <;> rfl

/-- **`states` as the source text says it is the (repaired) model**: no state data gives `None`;
otherwise the squeeze setting is resolved first (attribute, then package default), the trace axis
of a SISO single-trace 3-D array is dropped exactly when the resolved setting is `None`, THEN
`_process_time_response(x, transpose=self.transpose, squeeze=<resolved>, issiso=False)`; state and
input labels. -/
theorem generated_trdStates_eq (cfg : Cfg) (o : TRObj α) :
    Generated.trdStates cfg o
      = (o.core.states cfg).map (Option.map fun x => ⟨x, o.state_labels, o.input_labels⟩) := by
  unfold Generated.trdStates TRD.states
  cases hx : o.core.x with
  | none => rfl
  | some x =>
    simp only [generated_processTime_eq, bind, Except.bind, pure, Except.pure]
    have e1 : decide ((o.core.ntraces : Int) = 1) = decide (o.core.ntraces = 1) := by
      rw [decide_eq_decide]; omega
    have e2 : decide ((x.ndim : Int) = 3) = decide (x.ndim = 3) := by
      rw [decide_eq_decide]; omega
    simp only [e1, e2]
    cases hsq : o.core.squeeze <;> cases hi : o.core.issiso <;>
      simp [Sq.resolve, Except.map, Bool.and_assoc] <;>
      repeat' (first | rfl | split)

/-- **`inputs` as the source text says it is the model**: no input data gives `None`; otherwise
`_process_time_response(self.u, issiso=self.issiso, transpose=self.transpose,
squeeze=self.squeeze)` with the input labels on both axes. -/
theorem generated_trdInputs_eq (cfg : Cfg) (o : TRObj α) :
    Generated.trdInputs cfg o
      = (o.core.inputs cfg).map (Option.map fun u => ⟨u, o.input_labels, o.input_labels⟩) := by
  unfold Generated.trdInputs TRD.inputs
  cases hu : o.core.u with
  | none => rfl
  | some u =>
    simp only [generated_processTime_eq, bind, Except.bind, pure, Except.pure]
    cases processTime u o.core.issiso o.core.transpose o.core.squeeze cfg.sqTime <;> rfl

/-- **`_legacy_states` as the source text says it is the model**: not affected by `squeeze`; the
trace axis is dropped for one input, one output, one trace and 3-D data; time first when
`transpose` is set. -/
theorem generated_trdLegacyStates_eq (cfg : Cfg) (o : TRObj α) :
    Generated.trdLegacyStates cfg o = o.core.legacyStates := by
  unfold Generated.trdLegacyStates TRD.legacyStates
  cases hx : o.core.x with
  | none => rfl
  | some x =>
    have e1 : decide ((o.core.ninputs : Int) = 1) = decide (o.core.ninputs = 1) := by
      rw [decide_eq_decide]; omega
    have e2 : decide ((o.core.noutputs : Int) = 1) = decide (o.core.noutputs = 1) := by
      rw [decide_eq_decide]; omega
    have e3 : decide ((o.core.ntraces : Int) = 1) = decide (o.core.ntraces = 1) := by
      rw [decide_eq_decide]; omega
    have e4 : decide ((x.ndim : Int) = 3) = decide (x.ndim = 3) := by
      rw [decide_eq_decide]; omega
    simp only [e1, e2, e3, e4, bind, Except.bind, pure, Except.pure]
    cases ht : o.core.transpose <;> by_cases h1 : o.core.ninputs = 1 <;> by_cases h2 : o.core.noutputs = 1 <;>
      by_cases h3 : o.core.ntraces = 1 <;> by_cases h4 : x.ndim = 3 <;>
      simp [h1, h2, h3, h4]

/-- **`__iter__` as the source text says it is the model**: `(time, outputs)` or, with
`return_x`, `(time, outputs, legacy states)` — read through the properties of the same object at the
same moment; an error of `outputs` (or of the legacy states) is the error of the tuple. -/
theorem generated_trdIter_eq (cfg : Cfg) (o : TRObj α) :
    (Generated.trdIter cfg o).map (List.map Item.toArr) = o.core.iter cfg := by
  unfold Generated.trdIter TRD.iter
  simp only [generated_trdTime_eq, generated_trdOutputs_eq, generated_trdLegacyStates_eq, bind, Except.bind,
    pure, Except.pure]
  cases hr : o.core.returnX <;> cases o.core.outputs cfg <;> simp [Except.map, Item.toArr]
  cases o.core.legacyStates <;> rfl

/-- `__len__`: 3 with `return_x`, else 2. -/
theorem generated_trdLen_eq (cfg : Cfg) (o : TRObj α) :
    Generated.trdLen cfg o = .ok (o.core.len : Int) := by
  unfold Generated.trdLen TRD.len
  cases o.core.returnX <;> rfl

/-- the default label lists of an object of the model (`_process_labels`). -/
def trObj (r : TRD α) : TRObj α :=
  ⟨r, defaultLabels "y" r.noutputs, defaultLabels "u" r.ninputs, defaultLabels "x" r.nstates⟩

/-- with the default labels the three generated properties return the labelled signals of the
model (`outputsSignal / statesSignal / inputsSignal`, the ones name indexing is proved about). -/
theorem generated_signals_eq (cfg : Cfg) (r : TRD α) :
    Generated.trdOutputs cfg (trObj r) = r.outputsSignal cfg ∧
    Generated.trdStates cfg (trObj r) = r.statesSignal cfg ∧
    Generated.trdInputs cfg (trObj r) = r.inputsSignal cfg := by
  refine ⟨?_, ?_, ?_⟩
  · rw [generated_trdOutputs_eq]
    simp only [TRD.outputsSignal, trObj, bind, Except.bind, pure, Except.pure]
    cases r.outputs cfg <;> rfl
  · rw [generated_trdStates_eq]
    simp only [TRD.statesSignal, trObj, bind, Except.bind, pure, Except.pure]
    cases r.states cfg with
    | error e => rfl
    | ok x => cases x <;> rfl
  · rw [generated_trdInputs_eq]
    simp only [TRD.inputsSignal, trObj, bind, Except.bind, pure, Except.pure]
    cases r.inputs cfg with
    | error e => rfl
    | ok u => cases u <;> rfl

/-- non-vacuity: a SISO single-trace response with 3-D state data `(2, 1, 3)`; `states` drops the
trace axis (→ `(2, 3)`), `outputs` squeezes to `(3,)`, the tuple has `len` 3 with `return_x`. -/
def exTR : TRObj Nat :=
  ⟨⟨⟨[3], [0, 1, 2]⟩, ⟨[1, 1, 3], [5, 6, 7]⟩, some ⟨[2, 1, 3], [10, 11, 12, 20, 21, 22]⟩,
    some ⟨[1, 1, 3], [1, 1, 1]⟩, true, 1, 1, 2, 1, .none, false, true⟩, some ["y"], some ["u"], some ["a", "b"]⟩

example : Generated.trdStates {} exTR
    = .ok (some ⟨⟨[2, 3], [10, 11, 12, 20, 21, 22]⟩, some ["a", "b"], some ["u"]⟩) := rfl
example : Generated.trdOutputs {} exTR = .ok ⟨⟨[3], [5, 6, 7]⟩, some ["y"], some ["u"]⟩ := rfl
example : Generated.trdOutputs { sqTime := .false } exTR
    = .ok ⟨⟨[1, 1, 3], [5, 6, 7]⟩, some ["y"], some ["u"]⟩ := rfl
example : (Generated.trdIter {} exTR).map List.length = .ok 3 := rfl
example : Generated.trdLen {} exTR = .ok 3 := rfl
/-- an illegal configured squeeze value makes `outputs` raise. -/
example : Generated.trdOutputs { sqTime := .other } exTR = .error .badArg := rfl

/-! ### `route_independence` for the generated properties -/

/-- what reading observable `o` reports when the properties are the GENERATED ones (labels
forgotten, as `TRD.observe` does); `response[i]` is not part of this tie and stays the model's. -/
def genObserve (cfg : Cfg) (o : TRObj α) : TObs → TReading α
  | .time => .arr ((Generated.trdTime cfg o).map some)
  | .outputs => .arr ((Generated.trdOutputs cfg o).map fun s => some s.arr)
  | .states => .arr ((Generated.trdStates cfg o).map (Option.map fun s => s.arr))
  | .inputs => .arr ((Generated.trdInputs cfg o).map (Option.map fun s => s.arr))
  | .iter => .tuple ((Generated.trdIter cfg o).map (List.map Item.toArr))
  | .len => .nat (match Generated.trdLen cfg o with | .ok n => n.toNat | .error _ => 0)
  | .get i => o.core.observe cfg (.get i)

/-- the generated properties observe exactly what the model's properties observe, for every
object, every label lists, every configuration and every observable. -/
theorem generated_observe_eq (cfg : Cfg) (o : TRObj α) (obs : TObs) :
    genObserve cfg o obs = o.core.observe cfg obs := by
  cases obs with
  | time => rfl
  | outputs =>
    simp only [genObserve, TRD.observe, generated_trdOutputs_eq]
    cases o.core.outputs cfg <;> rfl
  | states =>
    simp only [genObserve, TRD.observe, generated_trdStates_eq]
    cases o.core.states cfg with
    | error e => rfl
    | ok x => cases x <;> rfl
  | inputs =>
    simp only [genObserve, TRD.observe, generated_trdInputs_eq]
    cases o.core.inputs cfg with
    | error e => rfl
    | ok x => cases x <;> rfl
  | iter => simp only [genObserve, TRD.observe, generated_trdIter_eq]
  | len =>
    simp only [genObserve, TRD.observe, generated_trdLen_eq]
    simp
  | get i => rfl

/-- **`route_independence` for the properties the source text defines.**  For every lawful maker
(the class constructor on any arrays, any of the five response functions), every target setting
with a legal squeeze value, every legal start setting, every configuration whose squeeze default is
unset and every label lists: whether the setting reaches the object as an argument, through
`response(...)`, by attribute assignment or through the package default, the GENERATED `time`,
`outputs`, `states`, `inputs`, `__iter__`, `__len__` read the same thing (and the same error). -/
theorem generated_route_independence (M : TMaker α) (hM : M.Lawful) (tgt start : TSettings) (base : Cfg)
    (hb : base.sqTime = .none) (ht : tgt.squeeze ≠ .other) (hs : start.squeeze ≠ .other)
    (ρ₁ ρ₂ : Route) (obs : TObs) (ol il sl : Option (List String)) :
    (timeVia M ρ₁ tgt start base).map (fun rc => genObserve rc.2 ⟨rc.1, ol, il, sl⟩ obs)
      = (timeVia M ρ₂ tgt start base).map (fun rc => genObserve rc.2 ⟨rc.1, ol, il, sl⟩ obs) := by
  have h := C18Perm.route_independence M hM tgt start base hb ht hs ρ₁ ρ₂ obs
  simp only [generated_observe_eq]
  exact h

/-- non-vacuity of `generated_route_independence`: the constructor on a 2-output response, target
`squeeze=True, transpose=True` — all four routes give the same generated `outputs`. -/
example : ∀ ρ : Route,
    (timeVia (ctorMaker (α := Nat) ⟨[3], [0, 1, 2]⟩ ⟨[2, 3], List.range 6⟩ none
        (some ⟨[1, 3], [1, 1, 1]⟩) none false) ρ ⟨.true, true, false⟩ {} {}).map
      (fun rc => genObserve rc.2 ⟨rc.1, none, none, none⟩ .outputs)
    = .ok (.arr (.ok (some ⟨[3, 2], [0, 3, 1, 4, 2, 5]⟩))) := by
  intro ρ; cases ρ <;> rfl

/-! ### `FrequencyResponseData` -/

/-- an FRD object whose signal counts are those of its data (what the class intends; the
constructor does not compare label counts with the data shape). -/
def Consistent (o : FRObj α) : Prop := o.issiso = o.core.issiso

theorem frd_processed_eq (cfg : Cfg) (o : FRObj α) (h : Consistent o) :
    Generated.processFrequencyResponse o.issiso (omegaNdim o) o.core.frdata o.core.squeeze cfg.sqFreq
      = o.core.processed cfg := by
  rw [generated_processFreq_eq, h]
  rfl

/-- **`magnitude`, `phase`, `complex` as the source text says them are the model**:
`_process_frequency_response(self, self.omega, self.frdata, squeeze=self.squeeze)`, then `np.abs` /
`np.angle` / nothing, wrapped with the output and input labels. -/
theorem generated_frdProps_eq (cfg : Cfg) (o : FRObj α) (h : Consistent o) :
    Generated.frdMagnitude cfg o
      = (o.core.magnitude cfg).map (fun i => ⟨i, o.output_labels, o.input_labels⟩) ∧
    Generated.frdPhase cfg o
      = (o.core.phase cfg).map (fun i => ⟨i, o.output_labels, o.input_labels⟩) ∧
    Generated.frdComplex cfg o
      = (o.core.complex cfg).map (fun i => ⟨i, o.output_labels, o.input_labels⟩) := by
  refine ⟨?_, ?_, ?_⟩
  · simp only [Generated.frdMagnitude, RespFRD.magnitude, frd_processed_eq cfg o h, bind, Except.bind, pure,
      Except.pure]
    cases o.core.processed cfg <;> rfl
  · simp only [Generated.frdPhase, RespFRD.phase, frd_processed_eq cfg o h, bind, Except.bind, pure,
      Except.pure]
    cases o.core.processed cfg <;> rfl
  · simp only [Generated.frdComplex, RespFRD.complex, frd_processed_eq cfg o h, bind, Except.bind, pure,
      Except.pure]
    cases o.core.processed cfg <;> rfl

/-- `frequency` is the stored frequency vector; the deprecated `response` is `complex`. -/
theorem generated_frdFrequency_eq (cfg : Cfg) (o : FRObj α) :
    Generated.frdFrequency cfg o = .ok .omega ∧ Generated.frdResponse cfg o = Generated.frdComplex cfg o := by
  refine ⟨rfl, ?_⟩
  cases h : Generated.frdComplex cfg o <;>
    simp [Generated.frdResponse, h, bind, Except.bind, pure, Except.pure]

/-- **`__iter__` as the source text says it is the model** (without the legacy singular-value
flag): `(omega, complex)` or, with `return_magphase`, `(magnitude, phase, omega)`. -/
theorem generated_frdIter_eq (cfg : Cfg) (o : FRObj α) (h : Consistent o) (hs : o.return_singvals = false) :
    Generated.frdIter cfg o = o.core.iter cfg := by
  simp only [Generated.frdIter, RespFRD.iter, frd_processed_eq cfg o h, hs, bind, Except.bind, pure, Except.pure]
  cases o.core.processed cfg with
  | error e => rfl
  | ok a => cases o.core.returnMagphase <;> rfl

/-- with the legacy flag `_return_singvals` the tuple is `(frdata[:, 0, :], omega)` — after the
processing, whose error comes first. -/
theorem generated_frdIter_singvals (cfg : Cfg) (o : FRObj α) (h : Consistent o) (hs : o.return_singvals = true) :
    Generated.frdIter cfg o
      = (o.core.processed cfg).bind fun _ => (o.core.frdata.dropTrace).map fun a => [.cplx a, .omega] := by
  simp only [Generated.frdIter, frd_processed_eq cfg o h, hs, bind, Except.bind, pure, Except.pure]
  cases o.core.processed cfg with
  | error e => rfl
  | ok a => simp only [if_true]; cases o.core.frdata.dropTrace <;> rfl

/-- what reading observable `obs` reports when the properties are the GENERATED ones. -/
def genFreqObserve (cfg : Cfg) (o : FRObj α) : FObs → FReading α
  | .magnitude => .item ((Generated.frdMagnitude cfg o).map (·.item))
  | .phase => .item ((Generated.frdPhase cfg o).map (·.item))
  | .complex => .item ((Generated.frdComplex cfg o).map (·.item))
  | .iter => .tuple (Generated.frdIter cfg o)
  | .frdata => .raw o.core.frdata

theorem generated_freqObserve_eq (cfg : Cfg) (o : FRObj α) (h : Consistent o)
    (hs : o.return_singvals = false) (obs : FObs) :
    genFreqObserve cfg o obs = o.core.observe cfg obs := by
  obtain ⟨h1, h2, h3⟩ := generated_frdProps_eq cfg o h
  cases obs with
  | magnitude =>
    simp only [genFreqObserve, RespFRD.observe, h1]; cases o.core.magnitude cfg <;> rfl
  | phase =>
    simp only [genFreqObserve, RespFRD.observe, h2]; cases o.core.phase cfg <;> rfl
  | complex =>
    simp only [genFreqObserve, RespFRD.observe, h3]; cases o.core.complex cfg <;> rfl
  | iter => simp only [genFreqObserve, RespFRD.observe, generated_frdIter_eq cfg o h hs]
  | frdata => rfl

/-- the FRD object of the model with signal counts read off the data. -/
def frObj (F : RespFRD α) (ol il : Option (List String)) : FRObj α :=
  ⟨F, (F.ninputs).getD 0, (F.noutputs).getD 0, ol, il, false⟩

theorem frObj_consistent (F : RespFRD α) (ol il : Option (List String))
    (hshape : ∃ p m N, F.frdata.shape = [p, m, N]) : Consistent (frObj F ol il) := by
  obtain ⟨p, m, N, hs⟩ := hshape
  simp [Consistent, frObj, FRObj.issiso, RespFRD.issiso, RespFRD.ninputs, RespFRD.noutputs, hs,
    Bool.and_comm]


/-- every route leaves a three-axis `frdata` (the constructor accepts nothing else, copies and
attribute assignments do not touch it). -/
theorem freqVia_shape (response : NDArr α) (omegaShape : List Nat) (ρ : Route) (tgt start : FSettings)
    (base : Cfg) (Fc : RespFRD α × Cfg) (h : freqVia response omegaShape ρ tgt start base = .ok Fc) :
    ∃ p m N, Fc.1.frdata.shape = [p, m, N] := by
  have init_shape : ∀ (s : FSettings) (F : RespFRD α), frdMake response omegaShape s = .ok F →
      ∃ p m N, F.frdata.shape = [p, m, N] := by
    intro s F hF
    unfold frdMake RespFRD.init at hF
    simp only [bind, Except.bind, pure, Except.pure] at hF
    split at hF
    · rename_i p m N N' hd hom
      split at hF
      · cases hF
      · split at hF
        · cases hF
        · cases hF
          exact ⟨_, _, _, hd⟩
    · cases hF
  cases ρ <;> simp only [freqVia] at h
  · cases hm : frdMake response omegaShape tgt with
    | error e => rw [hm] at h; cases h
    | ok F => rw [hm] at h; cases h; exact init_shape _ _ hm
  · cases hm : frdMake response omegaShape start with
    | error e => rw [hm] at h; cases h
    | ok F =>
      rw [hm] at h; cases h
      obtain ⟨p, m, N, hs⟩ := init_shape _ _ hm
      exact ⟨p, m, N, by simpa [RespFRD.callKw, RespFRD.callCopy] using hs⟩
  · cases hm : frdMake response omegaShape start with
    | error e => rw [hm] at h; cases h
    | ok F =>
      rw [hm] at h; cases h
      obtain ⟨p, m, N, hs⟩ := init_shape _ _ hm
      exact ⟨p, m, N, by simpa [RespFRD.setAttr] using hs⟩
  · cases hm : frdMake response omegaShape { tgt with squeeze := .none } with
    | error e => rw [hm] at h; cases h
    | ok F => rw [hm] at h; cases h; exact init_shape _ _ hm

/-- **`route_independence` for the frequency-response properties the source text defines**:
keyword of the constructor, `F(squeeze=…, return_magphase=…)`, attribute assignment and the
configuration default read the same generated `magnitude`, `phase`, `complex`, tuple and stored
data. -/
theorem generated_freq_route_independence (response : NDArr α) (omegaShape : List Nat)
    (tgt start : FSettings) (base : Cfg) (hb : base.sqFreq = .none) (ht : tgt.squeeze ≠ .other)
    (hs : start.squeeze ≠ .other) (hn : tgt.squeeze = .none → start.squeeze = .none)
    (ρ₁ ρ₂ : Route) (obs : FObs) (ol il : Option (List String)) :
    (freqVia response omegaShape ρ₁ tgt start base).map (fun Fc => genFreqObserve Fc.2 (frObj Fc.1 ol il) obs)
      = (freqVia response omegaShape ρ₂ tgt start base).map
          (fun Fc => genFreqObserve Fc.2 (frObj Fc.1 ol il) obs) := by
  have h := C18Perm.freq_route_independence response omegaShape tgt start base hb ht hs hn ρ₁ ρ₂ obs
  have key : ∀ ρ, (freqVia response omegaShape ρ tgt start base).map
        (fun Fc => genFreqObserve Fc.2 (frObj Fc.1 ol il) obs)
      = freqObserveVia response omegaShape ρ tgt start base obs := by
    intro ρ
    unfold freqObserveVia
    cases hv : freqVia response omegaShape ρ tgt start base with
    | error e => rfl
    | ok Fc =>
      simp only [Except.map]
      congr 1
      apply generated_freqObserve_eq _ _ _ rfl
      apply frObj_consistent
      exact freqVia_shape response omegaShape ρ tgt start base Fc hv
  rw [key ρ₁, key ρ₂, h]

/-- non-vacuity: 2 × 2 × 3 data, `squeeze=True, return_magphase=True` by every route. -/
example : ∀ ρ : Route,
    (freqVia (⟨[2, 2, 3], List.range 12⟩ : NDArr Nat) [3] ρ ⟨.true, true⟩ ⟨.false, false⟩ {}).map
      (fun Fc => genFreqObserve Fc.2 (frObj Fc.1 none none) .iter)
    = .ok (.tuple (.ok [.mag ⟨[2, 2, 3], List.range 12⟩, .phase ⟨[2, 2, 3], List.range 12⟩, .omega])) := by
  intro ρ; cases ρ <;> rfl

/-- an INCONSISTENT object (2 × 2 data labelled as one input, one output — the constructor accepts
it) shows why `Consistent` is a hypothesis: `issiso()` reads the label counts, so the generated
`complex` drops to entry `[0][0]` where the model keeps the `2 × 2 × N` array. -/
example : Generated.frdComplex {} (⟨⟨⟨[2, 2, 1], [1, 2, 3, 4]⟩, 1, .none, false⟩, 1, 1, none, none, false⟩ : FRObj Nat)
    = .ok ⟨.cplx ⟨[1], [1]⟩, none, none⟩ := rfl

/-- `Consistent` is satisfiable (2 × 2 × 3 data with two inputs and two outputs), and so is the
legacy flag of `generated_frdIter_singvals`. -/
example : Consistent (frObj (⟨⟨[2, 2, 3], List.range 12⟩, 3, .none, false⟩ : RespFRD Nat) none none) :=
  frObj_consistent _ _ _ ⟨2, 2, 3, rfl⟩
example : Generated.frdIter {} (⟨⟨⟨[2, 1, 2], [1, 2, 3, 4]⟩, 2, .false, true⟩, 1, 2, none, none, true⟩ : FRObj Nat)
    = .ok [.cplx ⟨[2, 2], [1, 2, 3, 4]⟩, .omega] := rfl

end CtrlVerif.C18GenProps
