/-
Source-text tie of `control/statesp.py:_ssmatrix` (used by `StateSpace.__init__`, `ctrb`, `obsv`,
`place`, `place_acker`; the C11 tie `py2lean_sfb` treats it as the primitive `PySfb.ssmatrix`).

`Generated/SsMatrix.lean` is rewritten from the function's text on every run
(harness/core/py2lean_ssmat.py); here it is proved equal to the specification below for every
array, axis, `square` flag and `rows` / `cols` request, and the shape rules are derived.
-/
import CtrlVerif.Model.SsMatSpec
import CtrlVerif.Generated.SsMatrix

namespace CtrlVerif.C11GenSsMat

open PyCCA PySS Generated.SsMat

variable {α : Type}

/-- **The function the source text defines is the specification.** -/
theorem generated_ssmatrix_eq (x : Arr α) (axis : Int) (square : Option Bool) (rows cols : Option Nat) :
    ssmatrix x axis square rows cols = ssmatrixSpec x axis square rows cols := by
  unfold ssmatrix ssmatrixSpec ssShape
  obtain ⟨sh, data, kind⟩ := x
  match sh with
  | [] =>
    rcases square with _ | _ | _ <;> rcases rows with _ | r0 <;> rcases cols with _ | c0 <;>
      simp [arrayFloat, ndim, truthy, PySS.item, bind, Except.bind, pure, Except.pure]
  | [n] =>
    by_cases hn : n = 0 <;> by_cases hax : axis = 1 <;>
    rcases square with _ | _ | _ <;> rcases rows with _ | r0 <;> rcases cols with _ | c0 <;>
      simp [arrayFloat, ndim, truthy, PySS.item, bind, Except.bind, pure, Except.pure, hn, hax]
  | [r, c] =>
    by_cases h10 : r = 1 ∧ c = 0 <;>
    rcases square with _ | _ | _ <;> rcases rows with _ | r0 <;> rcases cols with _ | c0 <;>
      simp [arrayFloat, ndim, truthy, PySS.item, bind, Except.bind, pure, Except.pure, h10]
  | a :: b :: c :: rest => simp [arrayFloat, ndim, bind, Except.bind]

/-- the result is always a 2-D array holding the caller's elements in the caller's order, as floats. -/
theorem generated_ssmatrix_2d (x res : Arr α) (axis : Int) (square : Option Bool) (rows cols : Option Nat)
    (h : ssmatrix x axis square rows cols = .ok res) :
    res.shape.length = 2 ∧ res.data = x.data ∧ res.kind = Kind.f := by
  rw [generated_ssmatrix_eq] at h
  unfold ssmatrixSpec at h
  cases hs : ssShape x.shape axis with
  | error e => simp [hs, bind, Except.bind] at h
  | ok rc =>
    obtain ⟨r, c⟩ := rc
    simp only [hs, bind, Except.bind] at h
    split at h
    · cases h
    · split at h
      · cases h
      · split at h
        · cases h
        · unfold reshape at h
          split at h
          · cases h; simp [arrayFloat]
          · cases h

/-- the shape rules: a scalar becomes `(1, 1)`, a vector a row (`axis = 1`) or a column, an empty
vector and a `(1, 0)` array become `(0, 0)`, more than two dimensions raise. -/
theorem ssShape_rules (n r c : Nat) (axis : Int) :
    ssShape [] axis = .ok (1, 1) ∧ ssShape [0] axis = .ok (0, 0) ∧ ssShape [1, 0] axis = .ok (0, 0) ∧
    (n ≠ 0 → ssShape [n] 1 = .ok (1, n)) ∧ (n ≠ 0 → axis ≠ 1 → ssShape [n] axis = .ok (n, 1)) ∧
    (¬ (r = 1 ∧ c = 0) → ssShape [r, c] axis = .ok (r, c)) ∧
    (∀ a b d rest, ssShape (a :: b :: d :: rest) axis = .error .badArg) := by
  refine ⟨rfl, rfl, rfl, ?_, ?_, ?_, ?_⟩
  · intro hn; simp [ssShape, hn]
  · intro hn hax; simp [ssShape, hn, hax]
  · intro h; simp [ssShape, h]
  · intro a b d rest; rfl

/-- a requested size that the 2-D shape does not have raises; `square=True` on a non-square array raises. -/
theorem generated_ssmatrix_checks (x : Arr α) (axis : Int) (square : Option Bool) (rows cols : Option Nat)
    (r c : Nat) (hs : ssShape x.shape axis = .ok (r, c)) :
    (square = some true → r ≠ c → ssmatrix x axis square rows cols = .error .shape) ∧
    (∀ k, rows = some k → k ≠ r → (square = some true → r = c) →
        ssmatrix x axis square rows cols = .error .shape) := by
  rw [generated_ssmatrix_eq]; unfold ssmatrixSpec
  simp only [hs, bind, Except.bind]
  constructor
  · intro h1 h2; simp [h1, h2]
  · intro k hk hne hsq
    have h0 : ¬ (square = some true ∧ r ≠ c) := fun ⟨a, b⟩ => b (hsq a)
    simp [h0, hk, Ne.symm hne]

example : ssmatrix (α := Nat) ⟨[3], [1, 2, 3], Kind.i⟩ 0 none (some 3) none
    = .ok ⟨[3, 1], [1, 2, 3], Kind.f⟩ := by rfl
example : ssmatrix (α := Nat) ⟨[1, 0], [], Kind.f⟩ 1 (some true) none none
    = .ok ⟨[0, 0], [], Kind.f⟩ := by rfl
example : ssmatrix (α := Nat) ⟨[2, 3], [1, 2, 3, 4, 5, 6], Kind.i⟩ 1 (some true) none none
    = .error .shape := by rfl

end CtrlVerif.C11GenSsMat
