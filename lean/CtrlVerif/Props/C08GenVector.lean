/-
Source-text tie of C08, part 1d: `_process_vector_argument` and `_find_size` (control/nlsys.py).
`Generated/NLProcessVector.lean` is rewritten from the source text on every run; the model
`processVector` (`Model/IOSysDyn.lean`) is proved EQUAL to it.
-/
import CtrlVerif.Generated.NLProcessVector
import CtrlVerif.Lemmas.PyNL
import CtrlVerif.Props.C08

namespace CtrlVerif.C08Gen

open CtrlVerif PyNL

/-- the model's argument forms are the translator's. -/
def toVArg : PyNL.Arg Q → VArg
  | .none => .none
  | .scalar c => .scalar c
  | .list parts => .list parts
  | .array v => .array v

/-- `_find_size(sysval, vecval)` for an array of the right length. -/
theorem generated_findSize_ok {K : Type} [Field K] [DecidableEq K] (s : Int) (v : List K)
    (h : (v.length : Int) = s) :
    Generated.nlFindSizeVec s v = .ok s := by
  unfold Generated.nlFindSizeVec
  subst h
  simp [bind, Except.bind, pure, Except.pure]

/-- `_find_size(sysval, vecval)` for an array of another length: `ValueError`. -/
theorem generated_findSize_shape {K : Type} [Field K] [DecidableEq K] (s : Int) (v : List K)
    (h : s ≠ (v.length : Int)) :
    Generated.nlFindSizeVec s v = .error .shape := by
  unfold Generated.nlFindSizeVec
  simp only [h, if_true, ne_eq, not_false_eq_true, bind, Except.bind]
  rfl

/-- the padding statements + `_find_size`, for an array value `val`. -/
theorem generated_pad_core (val : List Q) (size : Nat) :
    (do
      let val ← (if ((val.length : Int) < (size : Int)) then (do
          let t1 ← PyArith.getItem val (-1 : Int)
          let val : List Q := (val ++ (PyNL.vzeros ((size : Int) - (val.length : Int))))
          pure val
          : Except Err (List Q)) else (do
          pure val
          : Except Err (List Q)))
      let t2 ← Generated.nlFindSizeVec (size : Int) val
      let nelem : Int := t2
      pure ((some val), nelem) : Except Err (Option (List Q) × Int))
    = (if val.length < size then
        if val.isEmpty then .error .indexRange
        else .ok (some (val ++ List.replicate (size - val.length) 0))
      else if val.length = size then .ok (some val)
      else .error .shape : Except Err (Option (List Q))).map (fun v => (v, (size : Int))) := by
  by_cases h : val.length < size
  · have h' : (val.length : Int) < (size : Int) := by omega
    rw [if_pos h', if_pos h]
    cases val with
    | nil => simp [PyArith.getItem, PyArith.normIdx, bind, Except.bind, Except.map]
    | cons a as =>
      have hz : PyNL.vzeros (K := Q) ((size : Int) - ((a :: as).length : Int))
          = List.replicate (size - (a :: as).length) 0 := by
        unfold PyNL.vzeros; congr 1; omega
      rw [getItem_neg_one _ (by simp), hz]
      have hl : ((a :: as) ++ List.replicate (size - (a :: as).length) (0 : Q)).length = size := by
        simp only [List.length_append, List.length_replicate]; omega
      rw [show (pure ((a :: as) ++ List.replicate (size - (a :: as).length) (0 : Q)) : Except Err (List Q))
        = .ok ((a :: as) ++ List.replicate (size - (a :: as).length) (0 : Q)) from rfl]
      simp only [bind, Except.bind]
      rw [generated_findSize_ok _ _ (by rw [hl])]
      simp [pure, Except.pure, Except.map]
  · have h' : ¬ (val.length : Int) < (size : Int) := by omega
    rw [if_neg h', if_neg h]
    by_cases he : val.length = size
    · simp only [bind, Except.bind, pure, Except.pure]
      rw [generated_findSize_ok _ _ (by omega)]
      simp [he, Except.map]
    · have he' : (size : Int) ≠ (val.length : Int) := by omega
      simp only [bind, Except.bind, pure, Except.pure]
      rw [generated_findSize_shape _ _ he']
      simp [he, Except.map]

theorem foldlM_append_flatten (parts : List (List Q)) : ∀ (init : List Q),
    List.foldlM (fun (val_list : List Q) (v : List Q) => (do
        let val_list : List Q := val_list ++ v
        pure val_list : Except Err (List Q))) init parts = .ok (init ++ parts.flatten) := by
  induction parts with
  | nil => intro init; simp [pure, Except.pure]
  | cons p ps ih =>
    intro init
    simp only [List.foldlM_cons, bind, Except.bind, pure, Except.pure]
    exact (ih (init ++ p)).trans (by simp)

/-- **generated_processVector_eq**: `_process_vector_argument(arg, name, size)` as the source text
defines it (with `_find_size`) IS the model's `processVector` for every argument form (`None`,
scalar, list / tuple of array-likes, ndarray), every content and every size: the same zero-padded
value (padding at the end), the same rejections (an empty value that would need padding: index
error from `val[-1]`; a value that is too long: the `ValueError` of `_find_size`), and the returned
element count is `size`. -/
theorem generated_processVector_eq (arg : PyNL.Arg Q) (size : Nat) :
    Generated.nlProcessVector arg (size : Int)
      = (processVector (toVArg arg) size).map (fun v => (v, (size : Int))) := by
  unfold Generated.nlProcessVector processVector
  cases arg with
  | none => simp [toVArg, Generated.nlFindSizeNone, bind, Except.bind, pure, Except.pure, Except.map]
  | scalar c =>
    have hv : PyNL.vscale (PyNL.vones (K := Q) (size : Int)) c = List.replicate size c := by
      simp [PyNL.vscale, PyNL.vones]
    simp only [toVArg, hv]
    exact generated_pad_core _ _
  | list parts =>
    simp only [toVArg]
    rw [foldlM_append_flatten]
    simp only [bind, Except.bind, List.nil_append]
    exact generated_pad_core _ _
  | array v =>
    simp only [toVArg]
    exact generated_pad_core _ _

/-- transported `processVector_length`: whatever array the function of the source text returns has
exactly `size` elements. -/
theorem generated_processVector_length (arg : PyNL.Arg Q) (size : Nat) (v : List Q) (k : Int)
    (h : Generated.nlProcessVector arg (size : Int) = .ok (some v, k)) : v.length = size ∧ k = size := by
  rw [generated_processVector_eq] at h
  cases hp : processVector (toVArg arg) size with
  | error e => simp [hp, Except.map] at h
  | ok r =>
    simp only [hp, Except.map, Except.ok.injEq, Prod.mk.injEq] at h
    obtain ⟨h1, h2⟩ := h
    subst h1
    exact ⟨C08.processVector_length _ _ _ hp, h2.symm⟩

example : Generated.nlProcessVector (K := ℚ) (.list [[3], [1, 2]]) 5 = .ok (some [3, 1, 2, 0, 0], 5) := by
  decide +kernel
example : Generated.nlProcessVector (K := ℚ) (.list []) 2 = .error .indexRange := by decide +kernel
example : Generated.nlProcessVector (K := ℚ) (.scalar 7) 3 = .ok (some [7, 7, 7], 3) := by decide +kernel
example : Generated.nlProcessVector (K := ℚ) (.array [1, 2, 3]) 2 = .error .shape := by decide +kernel

end CtrlVerif.C08Gen
